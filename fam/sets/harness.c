/* sets: static_set / flat_set / flat_multiset against the std::set reference semantics ([associative.reqmts], [flat.set]) - C09 (C02 rides along).
 * Every harness starts from an ARBITRARY well-formed object (all bytes symbolic, constrained by wf only).
 * view(s) = (n, a[0..n)); wf(s) = n <= N and a strictly ascending under the set's comparator (multiset: non-descending).  Reference semantics
 * are linear scans over views, written independently of the implementation; "same key" is comparator equivalence, never ==.
 * Membership is stated for an arbitrary ghost key g (VF_INPUT): proving it for a symbolic g proves it for all keys.
 * Entry-point prefixes: ss_/ssg_/sst_ static_set<int,N,{less<int>,greater<int>,less<>}>, fs_/fsg_/fst_ flat_set<int,static_vector<int,N>,...>,
 * fsi_ flat_set<int,inplace_vector<int,N>> (no modifiers: inplace_vector lacks emplace(pos)/erase/assignment), fm_/fmg_/fmi_ flat_multiset.
 * Not expressible: static_set::equal_range (does not compile: returns pair as iterator), flat_set::insert(sorted_unique_t, first, last)
 * (declared, never defined), static_set has no hint insert / erase_if / extract.
 * ssa_/ssag_/ssat_, fsa_/fsag_/fsat_, fia_ (inplace_vector), fma_: the same sets with the driver's AUDITING comparators aud_less / aud_greater / aud_less_t (they
 * order like less / greater / less<>, so the same templates apply); fv_ / fmv_: flat_set<int, vf::fixed_vec<int,N>, aud_less> / flat_multiset<..., aud_greater>
 * over the driver's trivially copyable container with a size_t size (complete API).  See "auditing comparator" below.
 * *_alias groups (and input `alias` of erase_key): keys handed over by reference ALIAS an element of the set (s.erase(*it), s.find(*it), s.insert(*it) ...).
 * seq_* groups: two-step histories (erase/insert, extract/insert/replace, swap/lookup) from an arbitrary well-formed state.
 * solver=kissat everywhere: MiniSat livelocks on some of these (tiny) instances.
 * thorough only: insert(first,last)/range construction for every instantiation but ss_ (fs_ctor_cont runs the same fold in quick), the hint
 * overloads of flat_set, flat_set(container) for greater/transparent, the (known-broken) insert iterator of ssg_/sst_.  Everything else is quick. */
#define N VF_N
#define CAT_(a, b) a##b
#define CAT(a, b) CAT_(a, b)
#define CAT3(a, b, c) CAT(CAT(a, b), c)
typedef struct { unsigned long n; int a[N + 1]; } view_t;

/* comparators (second argument of every template below) */
#define LT 0
#define GT 1
static _Bool cmp(int c, long a, long b) { return c == GT ? a > b : a < b; }
static _Bool equiv(int c, long a, long b) { return !cmp(c, a, b) && !cmp(c, b, a); }

/* ---- instantiations: type, size accessor, element accessor ---- */
typedef struct CAT(etl_static_vector_int_, VF_N) sv_t;
typedef struct CAT(etl_inplace_vector_int_, VF_N) iv_t;
#define sv_SZ(v) ((v).b0._size)
#define sv_EL(v, i) ((v).b0._data._buf[i])
#define iv_SZ(v) ((v)._size)
#define iv_EL(v, i) ((v)._storage._storage[i])
typedef struct CAT(etl_static_set_int_, VF_N) ss_t;
typedef struct CAT3(etl_static_set_int_, VF_N, _etl_greater_int) ssg_t;
typedef struct CAT3(etl_static_set_int_, VF_N, _etl_less) sst_t;
#define ss_SZ(s) sv_SZ((s)._storage)
#define ss_EL(s, i) sv_EL((s)._storage, i)
#define ssg_SZ ss_SZ
#define ssg_EL ss_EL
#define sst_SZ ss_SZ
#define sst_EL ss_EL
typedef struct CAT3(etl_static_set_int_, VF_N, _vf_aud_less) ssa_t;
typedef struct CAT3(etl_static_set_int_, VF_N, _vf_aud_greater) ssag_t;
typedef struct CAT3(etl_static_set_int_, VF_N, _vf_aud_less_t) ssat_t;
#define ssa_SZ ss_SZ
#define ssa_EL ss_EL
#define ssag_SZ ss_SZ
#define ssag_EL ss_EL
#define ssat_SZ ss_SZ
#define ssat_EL ss_EL
typedef struct CAT(etl_flat_set_int_etl_static_vector_int_, VF_N) fs_t;
typedef struct CAT3(etl_flat_set_int_etl_static_vector_int_, VF_N, _etl_greater_int) fsg_t;
typedef struct CAT3(etl_flat_set_int_etl_static_vector_int_, VF_N, _etl_less) fst_t;
typedef struct CAT(etl_flat_set_int_etl_inplace_vector_int_, VF_N) fsi_t;
#define fs_SZ(s) sv_SZ((s)._container)
#define fs_EL(s, i) sv_EL((s)._container, i)
#define fsg_SZ fs_SZ
#define fsg_EL fs_EL
#define fst_SZ fs_SZ
#define fst_EL fs_EL
#define fsi_SZ(s) iv_SZ((s)._container)
#define fsi_EL(s, i) iv_EL((s)._container, i)
typedef struct CAT3(etl_flat_set_int_etl_static_vector_int_, VF_N, _vf_aud_less) fsa_t;
typedef struct CAT3(etl_flat_set_int_etl_static_vector_int_, VF_N, _vf_aud_greater) fsag_t;
typedef struct CAT3(etl_flat_set_int_etl_static_vector_int_, VF_N, _vf_aud_less_t) fsat_t;
typedef struct CAT3(etl_flat_set_int_etl_inplace_vector_int_, VF_N, _vf_aud_less) fia_t;
typedef struct CAT(vf_fixed_vec_int_, VF_N) fvc_t;
typedef struct CAT3(etl_flat_set_int_vf_fixed_vec_int_, VF_N, _vf_aud_less) fv_t;
#define fvc_SZ(v) ((v)._size)
#define fvc_EL(v, i) ((v)._data[i])
#define fsa_SZ fs_SZ
#define fsa_EL fs_EL
#define fsag_SZ fs_SZ
#define fsag_EL fs_EL
#define fsat_SZ fs_SZ
#define fsat_EL fs_EL
#define fia_SZ fsi_SZ
#define fia_EL fsi_EL
#define fv_SZ(s) fvc_SZ((s)._container)
#define fv_EL(s, i) fvc_EL((s)._container, i)
typedef struct CAT(etl_flat_multiset_int_etl_static_vector_int_, VF_N) fm_t;
typedef struct CAT3(etl_flat_multiset_int_etl_static_vector_int_, VF_N, _etl_greater_int) fmg_t;
typedef struct CAT(etl_flat_multiset_int_etl_inplace_vector_int_, VF_N) fmi_t;
#define fm_SZ fs_SZ
#define fm_EL fs_EL
#define fmg_SZ fs_SZ
#define fmg_EL fs_EL
#define fmi_SZ fsi_SZ
#define fmi_EL fsi_EL
typedef struct CAT3(etl_flat_multiset_int_etl_static_vector_int_, VF_N, _vf_aud_less) fma_t;
typedef struct CAT3(etl_flat_multiset_int_vf_fixed_vec_int_, VF_N, _vf_aud_greater) fmv_t;
#define fma_SZ fs_SZ
#define fma_EL fs_EL
#define fmv_SZ fv_SZ
#define fmv_EL fv_EL
/* containers handed to / returned by flat_set */
typedef sv_t fs_c; typedef sv_t fsg_c; typedef sv_t fst_c; typedef iv_t fsi_c; typedef sv_t fm_c; typedef sv_t fmg_c; typedef iv_t fmi_c;
typedef sv_t fsa_c; typedef sv_t fsag_c; typedef sv_t fsat_c; typedef iv_t fia_c; typedef fvc_t fv_c; typedef sv_t fma_c; typedef fvc_t fmv_c;
#define fsa_CSZ sv_SZ
#define fsa_CEL sv_EL
#define fsag_CSZ sv_SZ
#define fsag_CEL sv_EL
#define fsat_CSZ sv_SZ
#define fsat_CEL sv_EL
#define fia_CSZ iv_SZ
#define fia_CEL iv_EL
#define fv_CSZ fvc_SZ
#define fv_CEL fvc_EL
#define fma_CSZ sv_SZ
#define fma_CEL sv_EL
#define fmv_CSZ fvc_SZ
#define fmv_CEL fvc_EL
#define fs_CSZ sv_SZ
#define fs_CEL sv_EL
#define fsg_CSZ sv_SZ
#define fsg_CEL sv_EL
#define fst_CSZ sv_SZ
#define fst_CEL sv_EL
#define fsi_CSZ iv_SZ
#define fsi_CEL iv_EL
#define fm_CSZ sv_SZ
#define fm_CEL sv_EL
#define fmg_CSZ sv_SZ
#define fmg_CEL sv_EL
#define fmi_CSZ iv_SZ
#define fmi_CEL iv_EL

/* view of any object through its accessors (statement form; o must be a view_t lvalue) */
#define VIEW(o, SZ, EL, s) do { (o).n = SZ(s); for (int vi_ = 0; vi_ < N; ++vi_) (o).a[vi_] = (unsigned long)vi_ < (o).n ? EL(s, vi_) : 0; (o).a[N] = 0; } while (0)
#define BASE(P, s) (&P##_EL(s, 0))

/* ---- reference semantics on views ---- */
static _Bool v_eq(view_t x, view_t y) { if (x.n != y.n) return 0; for (int i = 0; i < N; ++i) if ((unsigned long)i < x.n && x.a[i] != y.a[i]) return 0; return 1; }
static _Bool v_sorted(view_t v, int c, _Bool strict) { if (v.n > N) return 0;
  for (int i = 0; i + 1 < N; ++i) if ((unsigned long)i + 1 < v.n && !(strict ? cmp(c, v.a[i], v.a[i + 1]) : !cmp(c, v.a[i + 1], v.a[i]))) return 0; return 1; }
#define v_wf(v, c) v_sorted(v, c, 1)
static _Bool v_member(view_t v, int c, long k) { for (int i = 0; i < N; ++i) if ((unsigned long)i < v.n && equiv(c, v.a[i], k)) return 1; return 0; }
static unsigned long v_count(view_t v, long k) { unsigned long r = 0; for (int i = 0; i < N; ++i) if ((unsigned long)i < v.n && v.a[i] == k) ++r; return r; }
/* linear scans: index of the first element equivalent to k / not before k / after k; n if there is none */
static unsigned long v_find(view_t v, int c, long k) { for (int i = 0; i < N; ++i) if ((unsigned long)i < v.n && equiv(c, v.a[i], k)) return (unsigned long)i; return v.n; }
static unsigned long v_lb(view_t v, int c, long k) { for (int i = 0; i < N; ++i) if ((unsigned long)i < v.n && !cmp(c, v.a[i], k)) return (unsigned long)i; return v.n; }
static unsigned long v_ub(view_t v, int c, long k) { for (int i = 0; i < N; ++i) if ((unsigned long)i < v.n && cmp(c, k, v.a[i])) return (unsigned long)i; return v.n; }
/* std::set::insert: nothing happens when an equivalent key is present, otherwise k goes in front of the first element after it (requires n < N then) */
static view_t sp_insert(view_t o, int c, int k) { if (v_member(o, c, k) || o.n >= N) return o; view_t r; r.n = o.n + 1; unsigned long p = v_ub(o, c, k);
  for (int i = 0; i <= N; ++i) { unsigned long j = (unsigned long)i; r.a[i] = j < p ? o.a[i] : (j == p ? k : (j < r.n ? o.a[i - 1] : 0)); } return r; }
static view_t sp_erase_key(view_t o, int c, int k) { view_t r; r.n = 0; for (int i = 0; i <= N; ++i) r.a[i] = 0;
  for (int i = 0; i < N; ++i) if ((unsigned long)i < o.n && !equiv(c, o.a[i], k)) { r.a[r.n] = o.a[i]; ++r.n; } return r; }
static view_t sp_erase_idx(view_t o, unsigned long f, unsigned long l) { view_t r; r.n = o.n - (l - f);
  for (int i = 0; i <= N; ++i) { unsigned long j = (unsigned long)i; r.a[i] = j < f ? o.a[i] : (j < r.n && j + (l - f) <= N ? o.a[j + (l - f)] : 0); } return r; }
static view_t sp_erase_odd(view_t o) { view_t r; r.n = 0; for (int i = 0; i <= N; ++i) r.a[i] = 0;
  for (int i = 0; i < N; ++i) if ((unsigned long)i < o.n && (o.a[i] & 1) == 0) { r.a[r.n] = o.a[i]; ++r.n; } return r; }
/* operator< of std::set: lexicographical_compare with operator< of the elements (NOT the set's comparator) */
static int sp_lexcmp(view_t x, view_t y) { for (int i = 0; i < N; ++i) { if ((unsigned long)i >= x.n || (unsigned long)i >= y.n) break; if (x.a[i] < y.a[i]) return -1; if (y.a[i] < x.a[i]) return 1; }
  return x.n < y.n ? -1 : (x.n > y.n ? 1 : 0); }
static _Bool v_some_greater(view_t v, long k) { for (int i = 0; i < N; ++i) if ((unsigned long)i < v.n && v.a[i] > k) return 1; return 0; }

/* C05-style snapshot for calls that must end in the assertion handler: the object is still untouched there */
view_t vf_snap; unsigned char *vf_snap_sz; int *vf_snap_el;
#define VF_HANDLER_CHECK() do { if (vf_snap_sz) { _Bool same = *vf_snap_sz == vf_snap.n; for (int i = 0; i < N; ++i) same = same && vf_snap_el[i] == vf_snap.a[i]; \
    __CPROVER_assert(same, "the set is unmodified (size and every slot) when the assertion handler runs"); } } while (0)
#include "vf_handler.h"

/* ---- auditing comparator.  The driver's aud_less / aud_greater / aud_less_t hand the ADDRESSES of their two arguments to the ghost hooks vf::g_cmp*
 * (EXTERNAL in the lowered C, defined here).  AUD_ARM names the set under test; from then on every address given to the comparator that lies INSIDE
 * that set object must be a LIVE element when the comparator runs: element offset in [0, size), size read from the object at that moment - never
 * *end(), a stale slot behind end() or a never-written slot.  Addresses outside the object (the caller's key, a local copy of it, a source range)
 * are simply dereferenced (CBMC's pointer checks / ASan in the replay judge those).  The hooks answer like operator<. ---- */
const void *vf_aud_obj; unsigned long vf_aud_objsz; const int *vf_aud_el0; const void *vf_aud_szp; unsigned long vf_aud_szw;
static unsigned long vf_aud_size(void) { return vf_aud_szw == 1 ? *(const unsigned char *)vf_aud_szp : *(const unsigned long *)vf_aud_szp; }
static void vf_audit(const void *p) {
  if (!vf_aud_obj) return;
#ifdef VF_NATIVE
  unsigned long a = (unsigned long)p, lo = (unsigned long)vf_aud_obj, e0 = (unsigned long)vf_aud_el0;
  _Bool inside = a >= lo && a < lo + vf_aud_objsz;
  _Bool live = a >= e0 && (a - e0) % sizeof(int) == 0 && (a - e0) / sizeof(int) < vf_aud_size();
#else
  _Bool inside = __CPROVER_same_object(p, vf_aud_obj);
  long d = (long)__CPROVER_POINTER_OFFSET(p) - (long)__CPROVER_POINTER_OFFSET(vf_aud_el0);
  _Bool live = d >= 0 && d % (long)sizeof(int) == 0 && (unsigned long)d / sizeof(int) < vf_aud_size();
#endif
  __CPROVER_assert(!inside || live, "C02: the comparator is only handed live elements [begin, begin+size) of the set, never *end(), a stale or a never-written slot");
}
/* (cxx2c drops const from pointer parameters: the prototypes in the lowered C are (int *, int *) ...) */
_Bool _ZN2vf5g_cmpEPKiS1_(int *a, int *b) { vf_audit(a); vf_audit(b); return *a < *b; }
_Bool _ZN2vf8g_cmp_liEPKlPKi(long *a, int *b) { vf_audit(a); vf_audit(b); return *a < *b; }
_Bool _ZN2vf8g_cmp_ilEPKiPKl(int *a, long *b) { vf_audit(a); vf_audit(b); return *a < *b; }
#define AUD_ARM(P, s) do { vf_aud_obj = &(s); vf_aud_objsz = sizeof(s); vf_aud_el0 = &P##_EL(s, 0); vf_aud_szp = &P##_SZ(s); vf_aud_szw = sizeof(P##_SZ(s)); } while (0)

/* ---- case-split cells.  A group with split=SW:lo:hi (SN, SC, SX likewise) is run once per value; the cells of a group together cover its whole
 * input domain (every cell is a full proof for its slice, nothing is sampled).  Cells fix a harness input by ASSIGNMENT, not by assumption, so
 * that symbolic execution propagates the constant; several small formulas are far cheaper than their conjunction. ---- */
#ifdef SW /* which operation / overload of the template */
#define ON(i) (SW == (i))
#define CELL_W(x) (x) = SW
#else
#define ON(i) 1
#define CELL_W(x) ((void)0)
#endif
#ifdef SN /* size of the arbitrary set */
#define CELL_N(P, s) P##_SZ(s) = SN
#else
#define CELL_N(P, s) ((void)0)
#endif
#ifdef SC /* length of the source range / container */
#define CELL_C(x) (x) = SC
#else
#define CELL_C(x) ((void)0)
#endif
#ifdef SX /* insert(first,last): pairs (range length c, set size n) with n + c <= N; cell 0 is c == 0 with any n */
#if SX == 0
#define SX_C 0
#define SX_N -1
#elif SX <= 4
#define SX_C 1
#define SX_N (SX - 1)
#elif SX <= 7
#define SX_C 2
#define SX_N (SX - 5)
#elif SX <= 9
#define SX_C 3
#define SX_N (SX - 8)
#elif SX == 10
#define SX_C 4
#define SX_N 0
#else
#error "SX out of range"
#endif
#define CELL_X(P, s, c) (c) = SX_C; if (SX_N >= 0) P##_SZ(s) = SX_N
#else
#define CELL_X(P, s, c) ((void)0)
#endif

/* an arbitrary well-formed set s of instantiation P (comparator C) and its view o */
#define ARB(P, C, s, o) VF_INPUT(P##_t, s); CELL_N(P, s); view_t o; VIEW(o, P##_SZ, P##_EL, s); __CPROVER_assume(v_wf(o, C)); AUD_ARM(P, s)
#define ARB2(P, C, s, o) VF_INPUT(P##_t, s); view_t o; VIEW(o, P##_SZ, P##_EL, s); __CPROVER_assume(v_wf(o, C))
#define NOW(P, s, w) view_t w; VIEW(w, P##_SZ, P##_EL, s)
/* size and every slot (also those behind size) are unchanged */
#define SAME_BYTES(P, s, s0) (P##_SZ(s) == P##_SZ(s0) && P##_EL(s, 0) == P##_EL(s0, 0) && P##_EL(s, 1) == P##_EL(s0, 1) && P##_EL(s, 2) == P##_EL(s0, 2) && P##_EL(s, N - 1) == P##_EL(s0, N - 1))
_Static_assert(N == 4, "SAME_BYTES enumerates the slots of capacity 4");

/* =================================================================== templates ===================================== */
/* lookups with a key of the key type: the answers of a linear scan under the same comparator; nothing is modified.  Cells: one per function. */
#define H_LOOKUP(P, C) void h_##P##_lookup(void) { ARB(P, C, s, o); VF_INPUT(int, k); P##_t s0 = s; int *b = BASE(P, s); \
  if (ON(0)) VF_ASSERT(P##_lower_bound(&s, &k) == b + v_lb(o, C, k), "lower_bound(k): first element not before k (linear scan)"); \
  if (ON(0)) VF_ASSERT(P##_clower_bound(&s, &k) == b + v_lb(o, C, k), "lower_bound(k) const: first element not before k (linear scan)"); \
  if (ON(1)) VF_ASSERT(P##_upper_bound(&s, &k) == b + v_ub(o, C, k), "upper_bound(k): first element after k (linear scan)"); \
  if (ON(1)) VF_ASSERT(P##_cupper_bound(&s, &k) == b + v_ub(o, C, k), "upper_bound(k) const: first element after k (linear scan)"); \
  if (ON(2)) VF_ASSERT(P##_find(&s, &k) == b + v_find(o, C, k), "find(k): the element equivalent to k, end() if there is none"); \
  if (ON(2)) VF_ASSERT(P##_cfind(&s, &k) == b + v_find(o, C, k), "find(k) const: the element equivalent to k, end() if there is none"); \
  if (ON(3)) VF_ASSERT(P##_contains(&s, &k) == v_member(o, C, k), "contains(k) == member(k)"); \
  if (ON(3)) VF_ASSERT(P##_count(&s, &k) == (v_member(o, C, k) ? 1 : 0), "count(k) is 1 for a member, 0 otherwise"); \
  VF_ASSERT(SAME_BYTES(P, s, s0), "lookups do not modify the set"); VF_REACH(); }
#define H_EQUAL_RANGE(P, C) void h_##P##_equal_range(void) { ARB(P, C, s, o); VF_INPUT(int, k); P##_t s0 = s; int *b = BASE(P, s); int *lo = 0, *hi = 0; const int *clo = 0, *chi = 0; \
  if (ON(0)) { P##_equal_range(&s, &k, &lo, &hi); VF_ASSERT(lo == b + v_lb(o, C, k) && hi == b + v_ub(o, C, k), "equal_range(k) == (lower_bound(k), upper_bound(k)) of the linear scan"); \
    VF_ASSERT(hi - lo == (v_member(o, C, k) ? 1 : 0), "equal_range(k) spans exactly the element equivalent to k"); } \
  if (ON(1)) { P##_cequal_range(&s, &k, &clo, &chi); VF_ASSERT(clo == b + v_lb(o, C, k) && chi == b + v_ub(o, C, k), "equal_range(k) const == (lower_bound(k), upper_bound(k)) of the linear scan"); } \
  VF_ASSERT(SAME_BYTES(P, s, s0), "equal_range does not modify the set"); VF_REACH(); }
/* heterogeneous lookup through a transparent comparator: key of type long, compared as less<void> does (int promoted to long) */
#define H_LOOKUP_H(P, C) void h_##P##_lookup_h(void) { ARB(P, C, s, o); VF_INPUT(long, k); P##_t s0 = s; int *b = BASE(P, s); \
  if (ON(0)) VF_ASSERT(P##_lower_bound_h(&s, &k) == b + v_lb(o, C, k), "lower_bound(K): first element not before k (linear scan)"); \
  if (ON(0)) VF_ASSERT(P##_clower_bound_h(&s, &k) == b + v_lb(o, C, k), "lower_bound(K) const: first element not before k (linear scan)"); \
  if (ON(1)) VF_ASSERT(P##_upper_bound_h(&s, &k) == b + v_ub(o, C, k), "upper_bound(K): first element after k (linear scan)"); \
  if (ON(1)) VF_ASSERT(P##_cupper_bound_h(&s, &k) == b + v_ub(o, C, k), "upper_bound(K) const: first element after k (linear scan)"); \
  VF_ASSERT(SAME_BYTES(P, s, s0), "heterogeneous lookups do not modify the set"); VF_REACH(); }
#define H_FIND_H(P, C, KNOWN) void h_##P##_find_h(void) { ARB(P, C, s, o); VF_INPUT(long, k); P##_t s0 = s; int *b = BASE(P, s); KNOWN; \
  if (ON(0)) VF_ASSERT(P##_find_h(&s, &k) == b + v_find(o, C, k), "find(K): the element equivalent to k, end() if there is none"); \
  if (ON(0)) VF_ASSERT(P##_cfind_h(&s, &k) == b + v_find(o, C, k), "find(K) const: the element equivalent to k, end() if there is none"); \
  if (ON(1)) VF_ASSERT(P##_contains_h(&s, &k) == v_member(o, C, k), "contains(K) == member(k)"); \
  if (ON(1)) VF_ASSERT(P##_count_h(&s, &k) == (v_member(o, C, k) ? 1 : 0), "count(K) is 1 for a member, 0 otherwise"); \
  VF_ASSERT(SAME_BYTES(P, s, s0), "heterogeneous lookups do not modify the set"); VF_REACH(); }
#define H_EQUAL_RANGE_H(P, C) void h_##P##_equal_range_h(void) { ARB(P, C, s, o); VF_INPUT(long, k); int *b = BASE(P, s); int *lo = 0, *hi = 0; const int *clo = 0, *chi = 0; \
  if (ON(0)) { P##_equal_range_h(&s, &k, &lo, &hi); VF_ASSERT(lo == b + v_lb(o, C, k) && hi == b + v_ub(o, C, k), "equal_range(K) == (lower_bound, upper_bound) of the linear scan"); } \
  if (ON(1)) { P##_cequal_range_h(&s, &k, &clo, &chi); VF_ASSERT(clo == b + v_lb(o, C, k) && chi == b + v_ub(o, C, k), "equal_range(K) const == (lower_bound, upper_bound) of the linear scan"); } VF_REACH(); }

/* observers and iteration: begin..end walks the elements in ascending comparator order */
#define H_OBSERVE_CORE(P, C) ARB(P, C, s, o); VF_INPUT(int, x); VF_INPUT(int, y); int *b = BASE(P, s); \
  VF_ASSERT(P##_begin(&s) == b && P##_end(&s) == b + o.n && P##_cbegin(&s) == b && P##_cend(&s) == b + o.n, "begin/end/cbegin/cend delimit the n elements"); \
  for (int i = 0; i + 1 < N; ++i) if ((unsigned long)i + 1 < o.n) VF_ASSERT(cmp(C, P##_begin(&s)[i], P##_begin(&s)[i + 1]), "iteration order begin..end is strictly ascending under the comparator"); \
  VF_ASSERT(P##_size(&s) == o.n && P##_empty(&s) == (o.n == 0) && P##_max_size(&s) == N, "size/empty/max_size follow the view")
#define H_OBSERVE_COMP(P, C) VF_ASSERT(P##_key_comp(&s, &x, &y) == cmp(C, x, y), "key_comp()/value_comp() are the set's ordering")
#define H_OBSERVE_REV(P) VF_ASSERT(P##_rbegin_base(&s) == b + o.n && P##_rend_base(&s) == b, "rbegin().base() == end(), rend().base() == begin()"); VF_ASSERT(P##_crbegin_base(&s) == b + o.n && P##_crend_base(&s) == b && P##_rbegin_c_base(&s) == b + o.n && P##_rend_c_base(&s) == b, "crbegin/crend and const rbegin/rend: base() == end() / begin()")
#define H_OBSERVE_SS(P, C) void h_##P##_observe(void) { H_OBSERVE_CORE(P, C); H_OBSERVE_COMP(P, C); H_OBSERVE_REV(P); VF_ASSERT(P##_full(&s) == (o.n == N), "full() iff n == N"); VF_REACH(); }
#define H_OBSERVE_FS(P, C) void h_##P##_observe(void) { H_OBSERVE_CORE(P, C); H_OBSERVE_COMP(P, C); H_OBSERVE_REV(P); VF_REACH(); }
#define H_OBSERVE_FSI(P, C) void h_##P##_observe(void) { H_OBSERVE_CORE(P, C); H_OBSERVE_COMP(P, C); VF_REACH(); }
#define H_DEFAULT(P, C) void h_##P##_default(void) { VF_INPUT(P##_t, s); /* indeterminate storage */ P##_default(&s); VF_ASSERT(P##_SZ(s) == 0 && P##_size(&s) == 0 && P##_empty(&s) && P##_begin(&s) == P##_end(&s), "default construction: the empty set"); VF_REACH(); }

/* insert / emplace of one key into a set that has room for it (or already holds it); cells: one per overload.
 * view' == reference insertion here; the laws of the reference insertion (member'(g) == member(g) || g ~ k for every g, size, sortedness) are group lemma_insert_* */
#define INSERT_POST(P, C) NOW(P, s, w); view_t e = sp_insert(o, C, k); _Bool was = v_member(o, C, k); \
  VF_ASSERT(v_wf(w, C), "insert keeps the set sorted and unique"); \
  VF_ASSERT(v_eq(w, e), "insert(k): unchanged when an equivalent key is present, otherwise k is added at its sorted position and nothing else moves (== reference insertion)"); \
  VF_ASSERT(ins == !was, "insert(k).second: true iff k was absent")
#define INSERT_CALL_SS(P) int *it = 0; _Bool ins = which == 0 ? P##_insert(&s, &k, &it) : (which == 1 ? P##_insert_rv(&s, k, &it) : P##_emplace(&s, k, &it))
#define H_INSERT_SS(P, C) void h_##P##_insert(void) { ARB(P, C, s, o); VF_INPUT(int, k); VF_INPUT(unsigned char, which); CELL_W(which); __CPROVER_assume(which <= 2); __CPROVER_assume(o.n < N || v_member(o, C, k)); \
  INSERT_CALL_SS(P); INSERT_POST(P, C); VF_REACH(); }
/* the iterator of the result (its own group: the check carries known findings whose probes re-run the group) */
#define H_INSERT_ITER_SS(P, C, KNOWN) void h_##P##_insert_iter(void) { ARB(P, C, s, o); VF_INPUT(int, k); VF_INPUT(unsigned char, which); CELL_W(which); __CPROVER_assume(which <= 2); __CPROVER_assume(o.n < N || v_member(o, C, k)); \
  INSERT_CALL_SS(P); (void)ins; view_t e = sp_insert(o, C, k); VF_REACH(); /* before the known-finding classes: together they currently cover every input */ KNOWN; \
  VF_ASSERT(it == BASE(P, s) + v_find(e, C, k), "insert(k).first: iterator to the element equivalent to k (the new one or the one that prevented the insertion)"); }
#define INSERT_FS_BODY(P, C, LO) ARB(P, C, s, o); VF_INPUT(int, k); VF_INPUT(unsigned char, which); VF_INPUT(unsigned char, hint); CELL_W(which); __CPROVER_assume(which >= LO && which <= LO + 2); __CPROVER_assume((o.n < N || v_member(o, C, k)) && hint <= o.n); \
  int *it = 0; _Bool ins = !v_member(o, C, k); const int *h = BASE(P, s) + hint; \
  switch (which) { case 0: ins = P##_insert(&s, &k, &it); break; case 1: ins = P##_insert_rv(&s, k, &it); break; case 2: ins = P##_emplace(&s, k, &it); break; \
    case 3: it = P##_insert_hint(&s, h, &k); break; case 4: it = P##_insert_hint_rv(&s, h, k); break; default: it = P##_emplace_hint(&s, h, k); break; } \
  INSERT_POST(P, C); \
  VF_ASSERT(it == BASE(P, s) + v_find(e, C, k), "insert/emplace[_hint](k): iterator to the element equivalent to k (the new one or the one that prevented the insertion), whatever the hint"); VF_REACH();
#define H_INSERT_FS(P, C) void h_##P##_insert(void) { INSERT_FS_BODY(P, C, 0) }
#define H_INSERT_HINT_FS(P, C) void h_##P##_insert_hint(void) { INSERT_FS_BODY(P, C, 3) }
/* static_set, full set, new key: the insertion is refused (second == false) and nothing changes */
#define H_INSERT_FULL_SS(P, C) void h_##P##_insert_full(void) { VF_INPUT(P##_t, s); P##_SZ(s) = N; view_t o; VIEW(o, P##_SZ, P##_EL, s); __CPROVER_assume(v_wf(o, C)); AUD_ARM(P, s); VF_INPUT(int, k); VF_INPUT(unsigned char, which); CELL_W(which); __CPROVER_assume(which <= 2); __CPROVER_assume(!v_member(o, C, k)); P##_t s0 = s; \
  INSERT_CALL_SS(P); (void)it; \
  VF_ASSERT(!ins, "insert of a new key into a full static_set reports failure"); VF_ASSERT(SAME_BYTES(P, s, s0), "insert of a new key into a full static_set changes nothing (size and every slot)"); VF_REACH(); }
/* flat_set over static_vector, full set, new key: the container's contract check (!full()) fires before anything is modified */
#define H_INSERT_FULL_FS(P, C) void h_##P##_insert_full(void) { VF_INPUT(P##_t, s); P##_SZ(s) = N; view_t o; VIEW(o, P##_SZ, P##_EL, s); __CPROVER_assume(v_wf(o, C)); AUD_ARM(P, s); VF_INPUT(int, k); VF_INPUT(unsigned char, which); CELL_W(which); __CPROVER_assume(which <= 5); __CPROVER_assume(!v_member(o, C, k)); \
  vf_expect_handler = 1; vf_snap = o; vf_snap_sz = &P##_SZ(s); vf_snap_el = BASE(P, s); int *it = 0; \
  switch (which) { case 0: P##_insert(&s, &k, &it); break; case 1: P##_insert_rv(&s, k, &it); break; case 2: P##_emplace(&s, k, &it); break; \
    case 3: it = P##_insert_hint(&s, BASE(P, s), &k); break; case 4: it = P##_insert_hint_rv(&s, BASE(P, s), k); break; default: it = P##_emplace_hint(&s, BASE(P, s), k); break; } \
  VF_NORETURN_EXPECTED(); }

/* insert(first,last) and construction from a range: a fold of single insertions; the room suffices for the whole range.
 * view' == fold of reference insertions here; the membership law of the fold is group lemma_insert_range_* */
#define RANGE_SPEC(C) view_t e = o; for (int i = 0; i < N; ++i) if (i < c) e = sp_insert(e, C, src_in[i])
#define RANGE_POST(C, what) VF_ASSERT(v_wf(w, C), what ": result is sorted and unique"); VF_ASSERT(v_eq(w, e), what ": the fold of single (reference) insertions in range order")
#define H_INSERT_RANGE(P, C) void h_##P##_insert_range(void) { VF_INPUT(P##_t, s); VF_INPUT(unsigned char, c); CELL_X(P, s, c); view_t o; VIEW(o, P##_SZ, P##_EL, s); __CPROVER_assume(v_wf(o, C)); __CPROVER_assume(c <= N && o.n + c <= N); VF_BUF(int, src, c, N); AUD_ARM(P, s); \
  P##_insert_range(&s, src, src + c); NOW(P, s, w); RANGE_SPEC(C); RANGE_POST(C, "insert(first,last)"); VF_REACH(); }
#define H_CTOR_RANGE(P, C) void h_##P##_ctor_range(void) { VF_INPUT(P##_t, s); VF_INPUT(unsigned char, c); CELL_C(c); __CPROVER_assume(c <= N); VF_BUF(int, src, c, N); view_t o; o.n = 0; for (int i = 0; i <= N; ++i) o.a[i] = 0; \
  AUD_ARM(P, s); P##_ctor_range(&s, src, src + c); NOW(P, s, w); RANGE_SPEC(C); RANGE_POST(C, "set(first,last)"); VF_REACH(); }

/* erase(key) */
#define H_ERASE_KEY(P, C, KNOWN) void h_##P##_erase_key(void) { ARB(P, C, s, o); VF_INPUT(int, k); VF_INPUT(int, g); VF_INPUT(unsigned char, p); VF_INPUT_BOOL(alias); CELL_W(alias); KNOWN; \
  if (alias) { __CPROVER_assume(p < o.n); k = o.a[p]; } /* the key may be a reference to an element of the set itself: s.erase(*it) */ \
  unsigned long r = P##_erase_key(&s, alias ? &P##_EL(s, p) : &k); NOW(P, s, w); view_t e = sp_erase_key(o, C, k); \
  VF_ASSERT(r == (v_member(o, C, k) ? 1 : 0), "erase(k) returns the number of removed elements: 1 for a member, 0 for an absent key"); \
  VF_ASSERT(v_wf(w, C) && v_eq(w, e), "erase(k): exactly the element equivalent to k is removed, the rest keeps its order (nothing happens for an absent key, with or without a successor)"); \
  VF_ASSERT(v_member(w, C, g) == (v_member(o, C, g) && !equiv(C, g, k)), "erase(k): member'(g) == member(g) && g not equivalent to k, for every key g"); VF_REACH(); }
/* erase(iterator), erase(const_iterator) */
#define ERASE_IT_POST(P, C) NOW(P, s, w); VF_ASSERT(v_wf(w, C) && v_eq(w, sp_erase_idx(o, p, p + 1)), "erase(pos): exactly that element is removed, order kept"); \
  VF_ASSERT(r == BASE(P, s) + p, "erase(pos) returns the iterator following the removed element"); \
  VF_ASSERT(v_member(w, C, g) == (v_member(o, C, g) && !equiv(C, g, o.a[p])), "erase(pos): member'(g) == member(g) && g not equivalent to *pos")
#define H_ERASE_IT_SS(P, C) void h_##P##_erase_it(void) { ARB(P, C, s, o); VF_INPUT(int, g); VF_INPUT(unsigned char, p); __CPROVER_assume(p < o.n); int *r = P##_erase_it(&s, BASE(P, s) + p); ERASE_IT_POST(P, C); VF_REACH(); }
#define H_ERASE_IT_FS(P, C) void h_##P##_erase_it(void) { ARB(P, C, s, o); VF_INPUT(int, g); VF_INPUT(unsigned char, p); VF_INPUT_BOOL(ci); __CPROVER_assume(p < o.n); \
  int *r = ci ? P##_erase_cit(&s, BASE(P, s) + p) : P##_erase_it(&s, BASE(P, s) + p); ERASE_IT_POST(P, C); VF_REACH(); }
/* erase(first,last) for every valid pair */
#define H_ERASE_RANGE(P, C, KNOWN) void h_##P##_erase_range(void) { ARB(P, C, s, o); VF_INPUT(int, g); VF_INPUT(unsigned char, f); VF_INPUT(unsigned char, l); __CPROVER_assume(f <= l && l <= o.n); KNOWN; \
  int *r = P##_erase_range(&s, BASE(P, s) + f, BASE(P, s) + l); NOW(P, s, w); \
  VF_ASSERT(v_wf(w, C) && v_eq(w, sp_erase_idx(o, f, l)), "erase(first,last): exactly the elements of [first,last) are removed, order kept"); \
  VF_ASSERT(r == BASE(P, s) + f, "erase(first,last) returns the iterator following the last removed element (first for an empty range)"); \
  _Bool gin = 0; for (int i = 0; i < N; ++i) if (i >= f && i < l && equiv(C, g, o.a[i])) gin = 1; \
  VF_ASSERT(v_member(w, C, g) == (v_member(o, C, g) && !gin), "erase(first,last): member'(g) == member(g) && g not in [first,last)"); VF_REACH(); }
#define H_ERASE_IF(P, C) void h_##P##_erase_if(void) { ARB(P, C, s, o); VF_INPUT(int, g); unsigned long r = P##_erase_if(&s); NOW(P, s, w); view_t e = sp_erase_odd(o); \
  VF_ASSERT(v_wf(w, C) && v_eq(w, e), "erase_if(s,pred): exactly the elements not satisfying pred survive, order kept"); VF_ASSERT(r == o.n - e.n, "erase_if returns the number of removed elements"); \
  VF_ASSERT(v_member(w, C, g) == (v_member(o, C, g) && (g & 1) == 0), "erase_if: member'(g) == member(g) && !pred(g)"); VF_REACH(); }

/* clear, swap (member and free, self), copy construction / assignment; cells: one per operation */
#define H_WHOLE(P, C) void h_##P##_whole(void) { ARB2(P, C, a, oa); ARB2(P, C, b, ob); VF_INPUT(P##_t, t); \
  if (ON(0)) { P##_clear(&a); VF_ASSERT(P##_SZ(a) == 0 && P##_empty(&a) && P##_size(&a) == 0, "clear: the empty set"); } \
  if (ON(1)) { P##_swap(&a, &b); NOW(P, a, wa); NOW(P, b, wb); VF_ASSERT(v_wf(wa, C) && v_wf(wb, C) && v_eq(wa, ob) && v_eq(wb, oa), "swap exchanges the two sets"); } \
  if (ON(2)) { VIEW(oa, P##_SZ, P##_EL, a); VIEW(ob, P##_SZ, P##_EL, b); P##_swap_free(&a, &b); NOW(P, a, wa); NOW(P, b, wb); VF_ASSERT(v_eq(wa, ob) && v_eq(wb, oa), "swap(a,b) exchanges the two sets"); } \
  if (ON(3)) { VIEW(oa, P##_SZ, P##_EL, a); P##_swap(&a, &a); NOW(P, a, wa); VF_ASSERT(v_eq(wa, oa), "self-swap keeps the set"); } \
  if (ON(4)) { VIEW(oa, P##_SZ, P##_EL, a); P##_copy_ctor(&t, &a); NOW(P, t, wt); NOW(P, a, wa); VF_ASSERT(v_eq(wt, oa) && v_eq(wa, oa), "copy construction: equal views, source unchanged"); } \
  if (ON(5)) { VIEW(oa, P##_SZ, P##_EL, a); P##_copy_assign(&b, &a); NOW(P, b, wb); NOW(P, a, wa); VF_ASSERT(v_eq(wb, oa) && v_eq(wa, oa), "copy assignment: equal views, source unchanged"); } \
  if (ON(6)) { VIEW(oa, P##_SZ, P##_EL, a); P##_copy_assign(&a, &a); NOW(P, a, wa); VF_ASSERT(v_eq(wa, oa), "self copy assignment (a = a) keeps the set"); P##_swap_free(&a, &a); NOW(P, a, wf); VF_ASSERT(v_eq(wf, oa), "swap(a, a) keeps the set"); } \
  VF_REACH(); }
#define H_CLEAR(P, C) void h_##P##_clear(void) { ARB(P, C, a, oa); P##_clear(&a); VF_ASSERT(P##_SZ(a) == 0 && P##_empty(&a) && P##_size(&a) == 0, "clear: the empty set"); VF_REACH(); }

/* relational operators: == compares the views; <,<=,>,>= are the lexicographic comparison by operator< of the elements */
#define H_RELATIONAL(P, C) void h_##P##_relational(void) { ARB2(P, C, a, oa); ARB2(P, C, b, ob); int c = sp_lexcmp(oa, ob); _Bool eq = v_eq(oa, ob); \
  if (ON(0)) VF_ASSERT(P##_eq(&a, &b) == eq && P##_ne(&a, &b) == !eq, "== and != compare size and elements"); \
  if (ON(1)) VF_ASSERT(P##_lt(&a, &b) == (c < 0) && P##_ge(&a, &b) == (c >= 0), "< and >= are the lexicographic comparison of the two element sequences"); \
  if (ON(2)) VF_ASSERT(P##_gt(&a, &b) == (c > 0) && P##_le(&a, &b) == (c <= 0), "> and <= are the lexicographic comparison of the two element sequences"); \
  if (ON(3)) VF_ASSERT(P##_eq(&a, &a) && !P##_ne(&a, &a) && !P##_lt(&a, &a) && P##_le(&a, &a) && !P##_gt(&a, &a) && P##_ge(&a, &a), "a compared with ITSELF (both operands the same object): ==, <=, >= hold, !=, <, > do not"); VF_REACH(); }

/* flat_set: construction from a container (sorts, drops duplicates), sorted_unique construction, extract, replace */
#define ARB_CONT(P, cn, oc) VF_INPUT(P##_c, cn); CELL_C(P##_CSZ(cn)); view_t oc; VIEW(oc, P##_CSZ, P##_CEL, cn); __CPROVER_assume(oc.n <= N)
#define H_CTOR_CONT(P, C) void h_##P##_ctor_cont(void) { VF_INPUT(P##_t, s); VF_INPUT(int, g); ARB_CONT(P, cn, oc); AUD_ARM(P, s); P##_ctor_cont(&s, &cn); NOW(P, s, w); \
  view_t e; e.n = 0; for (int i = 0; i <= N; ++i) e.a[i] = 0; for (int i = 0; i < N; ++i) if ((unsigned long)i < oc.n) e = sp_insert(e, C, oc.a[i]); \
  VF_ASSERT(v_wf(w, C), "flat_set(container): result is sorted and unique"); VF_ASSERT(v_eq(w, e), "flat_set(container): the sorted, de-duplicated contents of the container (== fold of reference insertions; its membership law: lemma_insert_range)"); VF_REACH(); }
#define H_CTOR_SORTED(P, C) void h_##P##_ctor_sorted(void) { VF_INPUT(P##_t, s); ARB_CONT(P, cn, oc); __CPROVER_assume(v_wf(oc, C)); P##_ctor_sorted_unique(&s, &cn); NOW(P, s, w); \
  VF_ASSERT(v_wf(w, C) && v_eq(w, oc), "flat_set(sorted_unique, container): adopts the sorted, unique container as it is"); VF_REACH(); }
#define H_CTOR_SORTED_RANGE(P, C) void h_##P##_ctor_sorted_range(void) { VF_INPUT(P##_t, s); VF_INPUT(unsigned char, c); __CPROVER_assume(c <= N); VF_BUF(int, src, c, N); \
  view_t oc; oc.n = c; for (int i = 0; i <= N; ++i) oc.a[i] = i < c ? src_in[i] : 0; __CPROVER_assume(v_wf(oc, C)); P##_ctor_sorted_unique_range(&s, src, src + c); NOW(P, s, w); \
  VF_ASSERT(v_wf(w, C) && v_eq(w, oc), "flat_set(sorted_unique, first, last): adopts the sorted, unique range as it is"); VF_REACH(); }
#define H_EXTRACT(P, C, KNOWN) void h_##P##_extract(void) { ARB(P, C, s, o); VF_INPUT(P##_c, cn); P##_extract(&cn, &s); NOW(P, s, w); view_t oc; VIEW(oc, P##_CSZ, P##_CEL, cn); \
  VF_ASSERT(w.n == 0 && P##_empty(&s), "extract(): the set is left empty"); KNOWN; VF_ASSERT(v_eq(oc, o), "extract(): returns the container holding the elements in order"); VF_REACH(); }
#define H_REPLACE(P, C) void h_##P##_replace(void) { ARB(P, C, s, o); ARB_CONT(P, cn, oc); __CPROVER_assume(v_wf(oc, C)); P##_replace(&s, &cn); NOW(P, s, w); \
  VF_ASSERT(v_wf(w, C) && v_eq(w, oc), "replace(container): the set holds exactly the (sorted, unique) container"); VF_REACH(); }

/* ---- keys handed over BY REFERENCE that ALIAS an element of the set itself: s.find(*it), s.count(*it), s.lower_bound(*it), s.insert(*it), s.emplace(*it),
 * s.insert(hint, *it) ... (erase(*it): H_ERASE_KEY).  std::set takes such keys like any other; the key is element p, so it is a member:
 * find/lower_bound -> that element, upper_bound -> the next one, insert -> (that element, false) and nothing changes.  Cells SW: 0 lower/upper_bound, 1 find/contains/count
 * (+ equal_range for flat_set), 2 insert/emplace (+ hint overloads for flat_set); the aliased element p is symbolic (fixing it per cell is slower).  The audit (when the comparator is an auditing one) sees the key as a live element. ---- */
#define ALIAS_HEAD(P, C) ARB(P, C, s, o); VF_INPUT(unsigned char, p); __CPROVER_assume(p < o.n); P##_t s0 = s; int *b = BASE(P, s); const int *kp = &P##_EL(s, p)
#define ALIAS_LOOKUPS(P) \
  if (ON(0)) VF_ASSERT(P##_lower_bound(&s, kp) == b + p && P##_clower_bound(&s, kp) == b + p, "lower_bound(*it) == it (const and non-const)"); \
  if (ON(0)) VF_ASSERT(P##_upper_bound(&s, kp) == b + p + 1 && P##_cupper_bound(&s, kp) == b + p + 1, "upper_bound(*it) == it + 1 (const and non-const)"); \
  if (ON(1)) VF_ASSERT(P##_find(&s, kp) == b + p && P##_cfind(&s, kp) == b + p, "find(*it) == it (const and non-const)"); \
  if (ON(1)) VF_ASSERT(P##_contains(&s, kp) && P##_count(&s, kp) == 1, "contains(*it), count(*it) == 1")
#define ALIAS_EQUAL_RANGE(P) if (ON(1)) { int *lo = 0, *hi = 0; const int *clo = 0, *chi = 0; P##_equal_range(&s, kp, &lo, &hi); P##_cequal_range(&s, kp, &clo, &chi); \
    VF_ASSERT(lo == b + p && hi == b + p + 1 && clo == b + p && chi == b + p + 1, "equal_range(*it) == (it, it + 1) (const and non-const)"); }
#define ALIAS_INSERT_SS(P) if (ON(2)) { int *it = 0; _Bool ins = which == 0 ? P##_insert(&s, kp, &it) : P##_emplace_cref(&s, kp, &it); \
    VF_ASSERT(!ins && it == b + p, "insert(*it) / emplace(*it): (it, false), the key is already there"); }
#define ALIAS_INSERT_FS(P) if (ON(2)) { int *it = 0; _Bool ins = 0; __CPROVER_assume(hint <= o.n); const int *h = b + hint; \
    switch (which) { case 0: ins = P##_insert(&s, kp, &it); break; case 1: ins = P##_emplace_cref(&s, kp, &it); break; case 2: it = P##_insert_hint(&s, h, kp); break; default: it = P##_emplace_hint_cref(&s, h, kp); break; } \
    VF_ASSERT(!ins && it == b + p, "insert(*it) / emplace(*it) / insert(hint, *it) / emplace_hint(hint, *it): iterator to that element, nothing inserted, whatever the hint"); }
#define ALIAS_TAIL(P) VF_ASSERT(SAME_BYTES(P, s, s0), "calls with a key aliasing an element do not modify the set (size and every slot)"); VF_REACH()
#define H_ALIAS_SS(P, C) void h_##P##_alias(void) { ALIAS_HEAD(P, C); VF_INPUT(unsigned char, which); __CPROVER_assume(which <= 1); ALIAS_LOOKUPS(P); ALIAS_INSERT_SS(P); ALIAS_TAIL(P); }
#define H_ALIAS_FS(P, C) void h_##P##_alias(void) { ALIAS_HEAD(P, C); VF_INPUT(unsigned char, which); VF_INPUT(unsigned char, hint); __CPROVER_assume(which <= 3); ALIAS_LOOKUPS(P); ALIAS_EQUAL_RANGE(P); ALIAS_INSERT_FS(P); ALIAS_TAIL(P); }
#define H_ALIAS_LOOKUP(P, C) void h_##P##_alias(void) { ALIAS_HEAD(P, C); ALIAS_LOOKUPS(P); ALIAS_EQUAL_RANGE(P); ALIAS_TAIL(P); }

/* ---- two-step histories from an arbitrary well-formed set: the second operation meets the state the first one left behind (the stale slot behind
 * end() after an erase, the adaptor after extract(), the exchanged objects after swap).  Oracle: the composition of the reference operations.
 * Cells SW: 0 erase(key) then insert, 1 erase(pos) then insert, 2 insert then erase(key). ---- */
#define H_SEQ_ERASE_INSERT(P, C) void h_##P##_seq_erase_insert(void) { ARB(P, C, s, o); VF_INPUT(int, k1); VF_INPUT(int, k2); VF_INPUT(int, g); VF_INPUT(unsigned char, p); \
  VF_INPUT(unsigned char, order); CELL_W(order); __CPROVER_assume(order <= 2); view_t m, e; int *it = 0; _Bool ins = 0; unsigned long r = 0; \
  if (order == 0) { r = P##_erase_key(&s, &k1); m = sp_erase_key(o, C, k1); } \
  else if (order == 1) { __CPROVER_assume(p < o.n); P##_erase_it(&s, BASE(P, s) + p); m = sp_erase_idx(o, p, p + 1); } \
  else { __CPROVER_assume(o.n < N || v_member(o, C, k1)); ins = P##_insert(&s, &k1, &it); m = sp_insert(o, C, k1); } \
  if (order <= 1) { __CPROVER_assume(m.n < N || v_member(m, C, k2)); ins = P##_insert(&s, &k2, &it); e = sp_insert(m, C, k2); VF_ASSERT(ins == !v_member(m, C, k2), "erase; insert(k2).second: true iff k2 is absent AFTER the erase (also when it was the erased key)"); \
    VF_ASSERT(it == BASE(P, s) + v_find(e, C, k2), "erase; insert(k2).first: iterator to the element equivalent to k2"); } \
  else { r = P##_erase_key(&s, &k2); e = sp_erase_key(m, C, k2); VF_ASSERT(r == (v_member(m, C, k2) ? 1 : 0), "insert; erase(k2) returns 1 iff k2 is a member AFTER the insertion (also when it is the inserted key)"); } \
  NOW(P, s, w); VF_ASSERT(v_wf(w, C) && v_eq(w, e), "two-step history: the set equals the composition of the reference operations (sorted, unique, every element)"); \
  VF_ASSERT(P##_cfind(&s, &g) == BASE(P, s) + v_find(e, C, g) && P##_size(&s) == e.n, "two-step history: find(g) (const) and size afterwards follow the new contents, for every key g"); VF_REACH(); }
/* swap, then look up in the exchanged objects (cells SW: member / free swap); the audit follows the object that is looked up */
#define H_SEQ_SWAP_LOOKUP(P, C) void h_##P##_seq_swap_lookup(void) { ARB2(P, C, a, oa); ARB2(P, C, b, ob); VF_INPUT(int, g); VF_INPUT_BOOL(fr); CELL_W(fr); \
  if (fr) P##_swap_free(&a, &b); else P##_swap(&a, &b); \
  AUD_ARM(P, a); VF_ASSERT(P##_cfind(&a, &g) == BASE(P, a) + v_find(ob, C, g) && P##_size(&a) == ob.n, "swap; a.find(g) / size answer for b's former contents"); \
  AUD_ARM(P, b); VF_ASSERT(P##_lower_bound(&b, &g) == BASE(P, b) + v_lb(oa, C, g) && P##_size(&b) == oa.n, "swap; b.lower_bound(g) / size answer for a's former contents"); VF_REACH(); }
/* extract(): [flat.set.modifiers] "*this is emptied" WHATEVER the adapted container's move does; the adaptor is an empty, usable set afterwards */
#define SEQ_EXTRACT_HEAD(P, C) ARB(P, C, s, o); VF_INPUT(int, g); VF_INPUT(P##_c, cn); P##_extract(&cn, &s); view_t oc; VIEW(oc, P##_CSZ, P##_CEL, cn); int *b = BASE(P, s); \
  VF_ASSERT(v_eq(oc, o), "extract(): returns the container holding the elements in order"); \
  VF_ASSERT(P##_SZ(s) == 0 && P##_size(&s) == 0 && P##_empty(&s) && P##_begin(&s) == b && P##_end(&s) == b && P##_cbegin(&s) == P##_cend(&s), "extract(): the adaptor is emptied (size, empty, begin == end) whatever the container's move leaves behind"); \
  VF_ASSERT(P##_find(&s, &g) == b && P##_cfind(&s, &g) == b && !P##_contains(&s, &g) && P##_count(&s, &g) == 0 && P##_lower_bound(&s, &g) == b && P##_cupper_bound(&s, &g) == b, "extract(): no key g is found in the emptied adaptor")
#define H_SEQ_EXTRACT_LOOKUP(P, C) void h_##P##_seq_extract(void) { SEQ_EXTRACT_HEAD(P, C); P##_clear(&s); VF_ASSERT(P##_empty(&s), "extract(); clear(): still empty"); VF_REACH(); }
/* ... and it can be refilled: every key is NEW for the emptied set; erase finds nothing; replace() installs a container again.  Cells SW: second step */
#define H_SEQ_EXTRACT_MOD(P, C) void h_##P##_seq_extract(void) { SEQ_EXTRACT_HEAD(P, C); VF_INPUT(int, k); VF_INPUT(unsigned char, step); CELL_W(step); __CPROVER_assume(step <= 2); int *it = 0; \
  if (step == 0) { _Bool ins = P##_insert(&s, &k, &it); NOW(P, s, w); VF_ASSERT(ins && it == b && w.n == 1 && w.a[0] == k, "extract(); insert(k): k is new for the emptied set - (begin(), true), the set is {k} (also when k was a member before extract)"); \
    VF_ASSERT(P##_contains(&s, &g) == equiv(C, g, k) && P##_size(&s) == 1, "extract(); insert(k): exactly k is a member afterwards"); \
    P##_replace(&s, &cn); NOW(P, s, w2); VF_ASSERT(v_eq(w2, o), "extract(); insert(k); replace(extracted container): the former contents are back, k is gone unless it was among them"); } \
  if (step == 1) { unsigned long r = P##_erase_key(&s, &k); NOW(P, s, w); VF_ASSERT(r == 0 && w.n == 0, "extract(); erase(k): nothing to remove"); it = P##_emplace_hint(&s, b, k); NOW(P, s, w2); VF_ASSERT(it == b && w2.n == 1 && w2.a[0] == k, "extract(); emplace_hint(k): the set is {k}"); } \
  if (step == 2) { P##_replace(&s, &cn); NOW(P, s, w); VF_ASSERT(v_wf(w, C) && v_eq(w, o), "extract(); replace(extracted container): the set is as before"); \
    VF_ASSERT(P##_cfind(&s, &g) == b + v_find(o, C, g) && P##_contains(&s, &g) == v_member(o, C, g), "extract(); replace(): lookups answer as before"); } VF_REACH(); }

/* flat_multiset: construction from an unsorted container sorts it (a permutation: every key keeps its multiplicity) */
#define H_MULTI(P, C) void h_##P##_ctor(void) { VF_INPUT(P##_t, s); VF_INPUT(P##_t, t); VF_INPUT(P##_t, d); VF_INPUT(int, g); ARB_CONT(P, cn, oc); \
  AUD_ARM(P, s); P##_ctor_cont(&s, &cn); NOW(P, s, w); \
  VF_ASSERT(w.n == oc.n && v_sorted(w, C, 0), "flat_multiset(container): same size, sorted under the comparator (equivalent keys allowed)"); \
  VF_ASSERT(v_count(w, g) == v_count(oc, g), "flat_multiset(container): every key g keeps its multiplicity (the result is a permutation of the container)"); \
  int *b = BASE(P, s); VF_ASSERT(P##_begin(&s) == b && P##_end(&s) == b + w.n && P##_cbegin(&s) == b && P##_cend(&s) == b + w.n && P##_size(&s) == w.n && P##_empty(&s) == (w.n == 0) && P##_max_size(&s) == N, "begin/end/size/empty/max_size follow the view"); \
  for (int i = 0; i + 1 < N; ++i) if ((unsigned long)i + 1 < w.n) VF_ASSERT(!cmp(C, P##_begin(&s)[i + 1], P##_begin(&s)[i]), "iteration order begin..end is ascending under the comparator"); \
  if (v_sorted(oc, C, 0)) { P##_ctor_sorted_equivalent(&t, &cn); NOW(P, t, wt); VF_ASSERT(v_eq(wt, oc), "flat_multiset(sorted_equivalent, container): adopts the sorted container as it is"); } \
  P##_default(&d); VF_ASSERT(P##_SZ(d) == 0 && P##_empty(&d), "default construction: the empty multiset"); VF_REACH(); }

/* laws of the reference insertion itself (no library code): together with "view' == reference view" above they give, for every key g,
 * member'(g) == member(g) || g equivalent to k, size' == size + (k absent), and sortedness/uniqueness of the result */
#define H_LEMMA_INSERT(NAME, C) void h_##NAME(void) { VF_INPUT(view_t, o); VF_INPUT(int, k); VF_INPUT(int, g); __CPROVER_assume(v_wf(o, C) && (o.n < N || v_member(o, C, k))); view_t e = sp_insert(o, C, k); \
  VF_ASSERT(v_wf(e, C), "reference insert keeps the view sorted and unique"); \
  VF_ASSERT(v_member(e, C, g) == (v_member(o, C, g) || equiv(C, g, k)), "insert(k): member'(g) == member(g) || g equivalent to k, for every key g"); \
  VF_ASSERT(e.n == o.n + (v_member(o, C, k) ? 0 : 1), "insert(k): size grows by one iff k was absent"); \
  VF_ASSERT(v_member(e, C, k) && v_find(e, C, k) < e.n && equiv(C, e.a[v_find(e, C, k)], k), "insert(k): k is a member afterwards and find locates it"); VF_REACH(); }
#define H_LEMMA_INSERT_RANGE(NAME, C) void h_##NAME(void) { VF_INPUT(view_t, o); VF_INPUT(int, g); VF_INPUT(unsigned char, c); VF_INPUT_ARR(int, src_in, N + 1); __CPROVER_assume(v_wf(o, C) && c <= N && o.n + c <= N); \
  RANGE_SPEC(C); _Bool gin = 0; for (int i = 0; i < N; ++i) if (i < c && equiv(C, src_in[i], g)) gin = 1; \
  VF_ASSERT(v_wf(e, C), "fold of reference insertions keeps the view sorted and unique"); \
  VF_ASSERT(v_member(e, C, g) == (v_member(o, C, g) || gin), "insert(first,last): member'(g) == member(g) || g equivalent to a range element, for every key g"); VF_REACH(); }

/* =================================================================== lemmas ======================================== */
/*@GROUP name=lemma_insert_lt props=C09 kind=K unwind=6 solver=kissat@*/
H_LEMMA_INSERT(lemma_insert_lt, LT)
/*@GROUP name=lemma_insert_gt props=C09 kind=K unwind=6 solver=kissat@*/
H_LEMMA_INSERT(lemma_insert_gt, GT)
/*@GROUP name=lemma_insert_range_lt props=C09 kind=K unwind=6 solver=kissat@*/
H_LEMMA_INSERT_RANGE(lemma_insert_range_lt, LT)
/*@GROUP name=lemma_insert_range_gt props=C09 kind=K unwind=6 solver=kissat@*/
H_LEMMA_INSERT_RANGE(lemma_insert_range_gt, GT)
/* =================================================================== static_set ==================================== */
/*@GROUP name=ss_lookup props=C09,C02 kind=K unwind=6 solver=kissat split=SW:0:3@*/
H_LOOKUP(ss, LT)
/*@GROUP name=ss_observe props=C09,C02 kind=K unwind=6 solver=kissat@*/
H_OBSERVE_SS(ss, LT)
/*@GROUP name=ss_default props=C09,C02 kind=K unwind=6 solver=kissat@*/
H_DEFAULT(ss, LT)
/*@GROUP name=ss_insert props=C09,C02 kind=K unwind=6 solver=kissat split=SW:0:2 unwindset=_ZN3etl6rotateIPiEET_S2_S2_S2_.0:2@*/
H_INSERT_SS(ss, LT)
/*@GROUP name=ss_insert_iter props=C09,C02 kind=K unwind=6 solver=kissat split=SW:0:2 unwindset=_ZN3etl6rotateIPiEET_S2_S2_S2_.0:2@*/
H_INSERT_ITER_SS(ss, LT, VF_KNOWN(C09_ss_insert_dup_null, v_member(o, LT, k)); VF_KNOWN(C09_ss_insert_iter_next, !v_member(o, LT, k)))
/*@GROUP name=ss_insert_full props=C09,C02 kind=K unwind=6 solver=kissat split=SW:0:2 unwindset=_ZN3etl6rotateIPiEET_S2_S2_S2_.0:2@*/
H_INSERT_FULL_SS(ss, LT)
/*@GROUP name=ss_insert_range props=C09,C02 kind=K unwind=6 solver=kissat split=SX:0:10 unwindset=_ZN3etl6rotateIPiEET_S2_S2_S2_.0:2@*/
H_INSERT_RANGE(ss, LT)
/*@GROUP name=ss_ctor_range props=C09,C02 kind=K unwind=6 solver=kissat split=SC:0:4 unwindset=_ZN3etl6rotateIPiEET_S2_S2_S2_.0:2@*/
H_CTOR_RANGE(ss, LT)
/*@GROUP name=ss_erase_key props=C09,C02 kind=K unwind=6 solver=kissat split=SW:0:1@*/
H_ERASE_KEY(ss, LT, (void)0)
/*@GROUP name=ss_erase_it props=C09,C02 kind=K unwind=6 solver=kissat@*/
H_ERASE_IT_SS(ss, LT)
/*@GROUP name=ss_erase_range props=C09,C02 kind=K unwind=6 solver=kissat@*/
H_ERASE_RANGE(ss, LT, (void)0)
/*@GROUP name=ss_whole props=C09,C02 kind=K unwind=6 solver=kissat split=SW:0:6@*/
H_WHOLE(ss, LT)
/*@GROUP name=ss_relational props=C09,C02 kind=K unwind=6 solver=kissat split=SW:0:3@*/
H_RELATIONAL(ss, LT)
/*@GROUP name=ssg_lookup props=C09,C02 kind=K unwind=6 solver=kissat split=SW:0:3@*/
H_LOOKUP(ssg, GT)
/*@GROUP name=ssg_observe props=C09,C02 kind=K unwind=6 solver=kissat@*/
H_OBSERVE_SS(ssg, GT)
/*@GROUP name=ssg_default props=C09,C02 kind=K unwind=6 solver=kissat@*/
H_DEFAULT(ssg, GT)
/*@GROUP name=ssg_insert props=C09,C02 kind=K unwind=6 solver=kissat split=SW:0:2 unwindset=_ZN3etl6rotateIPiEET_S2_S2_S2_.0:2@*/
H_INSERT_SS(ssg, GT)
/*@GROUP name=ssg_insert_iter props=C09,C02 kind=K unwind=6 solver=kissat split=SW:0:2 unwindset=_ZN3etl6rotateIPiEET_S2_S2_S2_.0:2 tier=thorough@*/
H_INSERT_ITER_SS(ssg, GT, VF_KNOWN(C09_ss_insert_dup_null, v_member(o, GT, k)); VF_KNOWN(C09_ss_insert_iter_next, !v_member(o, GT, k)))
/*@GROUP name=ssg_insert_full props=C09,C02 kind=K unwind=6 solver=kissat split=SW:0:2 unwindset=_ZN3etl6rotateIPiEET_S2_S2_S2_.0:2@*/
H_INSERT_FULL_SS(ssg, GT)
/*@GROUP name=ssg_insert_range props=C09,C02 kind=K unwind=6 solver=kissat split=SX:0:10 unwindset=_ZN3etl6rotateIPiEET_S2_S2_S2_.0:2 tier=thorough@*/
H_INSERT_RANGE(ssg, GT)
/*@GROUP name=ssg_ctor_range props=C09,C02 kind=K unwind=6 solver=kissat split=SC:0:4 unwindset=_ZN3etl6rotateIPiEET_S2_S2_S2_.0:2 tier=thorough@*/
H_CTOR_RANGE(ssg, GT)
/*@GROUP name=ssg_erase_key props=C09,C02 kind=K unwind=6 solver=kissat split=SW:0:1@*/
H_ERASE_KEY(ssg, GT, (void)0)
/*@GROUP name=ssg_erase_it props=C09,C02 kind=K unwind=6 solver=kissat@*/
H_ERASE_IT_SS(ssg, GT)
/*@GROUP name=ssg_erase_range props=C09,C02 kind=K unwind=6 solver=kissat@*/
H_ERASE_RANGE(ssg, GT, (void)0)
/*@GROUP name=ssg_whole props=C09,C02 kind=K unwind=6 solver=kissat split=SW:0:6@*/
H_WHOLE(ssg, GT)
/*@GROUP name=ssg_relational props=C09,C02 kind=K unwind=6 solver=kissat split=SW:0:3@*/
H_RELATIONAL(ssg, GT)
/*@GROUP name=sst_lookup props=C09,C02 kind=K unwind=6 solver=kissat split=SW:0:3@*/
H_LOOKUP(sst, LT)
/*@GROUP name=sst_observe props=C09,C02 kind=K unwind=6 solver=kissat@*/
H_OBSERVE_SS(sst, LT)
/*@GROUP name=sst_default props=C09,C02 kind=K unwind=6 solver=kissat@*/
H_DEFAULT(sst, LT)
/*@GROUP name=sst_insert props=C09,C02 kind=K unwind=6 solver=kissat split=SW:0:2 unwindset=_ZN3etl6rotateIPiEET_S2_S2_S2_.0:2@*/
H_INSERT_SS(sst, LT)
/*@GROUP name=sst_insert_iter props=C09,C02 kind=K unwind=6 solver=kissat split=SW:0:2 unwindset=_ZN3etl6rotateIPiEET_S2_S2_S2_.0:2 tier=thorough@*/
H_INSERT_ITER_SS(sst, LT, VF_KNOWN(C09_ss_insert_dup_null, v_member(o, LT, k)); VF_KNOWN(C09_ss_insert_iter_next, !v_member(o, LT, k)))
/*@GROUP name=sst_insert_full props=C09,C02 kind=K unwind=6 solver=kissat split=SW:0:2 unwindset=_ZN3etl6rotateIPiEET_S2_S2_S2_.0:2@*/
H_INSERT_FULL_SS(sst, LT)
/*@GROUP name=sst_insert_range props=C09,C02 kind=K unwind=6 solver=kissat split=SX:0:10 unwindset=_ZN3etl6rotateIPiEET_S2_S2_S2_.0:2 tier=thorough@*/
H_INSERT_RANGE(sst, LT)
/*@GROUP name=sst_ctor_range props=C09,C02 kind=K unwind=6 solver=kissat split=SC:0:4 unwindset=_ZN3etl6rotateIPiEET_S2_S2_S2_.0:2 tier=thorough@*/
H_CTOR_RANGE(sst, LT)
/*@GROUP name=sst_erase_key props=C09,C02 kind=K unwind=6 solver=kissat split=SW:0:1@*/
H_ERASE_KEY(sst, LT, (void)0)
/*@GROUP name=sst_erase_it props=C09,C02 kind=K unwind=6 solver=kissat@*/
H_ERASE_IT_SS(sst, LT)
/*@GROUP name=sst_erase_range props=C09,C02 kind=K unwind=6 solver=kissat@*/
H_ERASE_RANGE(sst, LT, (void)0)
/*@GROUP name=sst_whole props=C09,C02 kind=K unwind=6 solver=kissat split=SW:0:6@*/
H_WHOLE(sst, LT)
/*@GROUP name=sst_relational props=C09,C02 kind=K unwind=6 solver=kissat split=SW:0:3@*/
H_RELATIONAL(sst, LT)
/*@GROUP name=sst_lookup_h props=C09,C02 kind=K unwind=6 solver=kissat split=SW:0:1@*/
H_LOOKUP_H(sst, LT)
/*@GROUP name=sst_find_h props=C09,C02 kind=K unwind=6 solver=kissat split=SW:0:1@*/
H_FIND_H(sst, LT, VF_KNOWN(C09_ss_find_transparent, o.n > 0 && o.a[0] <= k))
/* =================================================================== flat_set over static_vector ================== */
/*@GROUP name=fs_lookup props=C09,C02 kind=K unwind=6 solver=kissat split=SW:0:3@*/
H_LOOKUP(fs, LT)
/*@GROUP name=fs_equal_range props=C09,C02 kind=K unwind=6 solver=kissat split=SW:0:1@*/
H_EQUAL_RANGE(fs, LT)
/*@GROUP name=fs_observe props=C09,C02 kind=K unwind=6 solver=kissat@*/
H_OBSERVE_FS(fs, LT)
/*@GROUP name=fs_default props=C09,C02 kind=K unwind=6 solver=kissat@*/
H_DEFAULT(fs, LT)
/*@GROUP name=fs_insert props=C09,C02 kind=K unwind=6 solver=kissat split=SW:0:2 unwindset=_ZN3etl6rotateIPiEET_S2_S2_S2_.0:2@*/
H_INSERT_FS(fs, LT)
/*@GROUP name=fs_insert_hint props=C09,C02 kind=K unwind=6 solver=kissat split=SW:3:5 qsplit=3 unwindset=_ZN3etl6rotateIPiEET_S2_S2_S2_.0:2@*/
H_INSERT_HINT_FS(fs, LT)
/*@GROUP name=fs_insert_full props=C09,C02,C05 kind=K unwind=6 solver=kissat split=SW:0:5 unwindset=_ZN3etl6rotateIPiEET_S2_S2_S2_.0:2@*/
H_INSERT_FULL_FS(fs, LT)
/*@GROUP name=fs_insert_range props=C09,C02 kind=K unwind=6 solver=kissat split=SX:0:10 unwindset=_ZN3etl6rotateIPiEET_S2_S2_S2_.0:2 tier=thorough@*/
H_INSERT_RANGE(fs, LT)
/*@GROUP name=fs_ctor_range props=C09,C02 kind=K unwind=6 solver=kissat split=SC:0:4 unwindset=_ZN3etl6rotateIPiEET_S2_S2_S2_.0:2 tier=thorough@*/
H_CTOR_RANGE(fs, LT)
/*@GROUP name=fs_ctor_cont props=C09,C02 kind=K unwind=6 solver=kissat split=SC:0:4 unwindset=_ZN3etl6rotateIPiEET_S2_S2_S2_.0:2@*/
H_CTOR_CONT(fs, LT)
/*@GROUP name=fs_ctor_sorted props=C09,C02 kind=K unwind=6 solver=kissat@*/
H_CTOR_SORTED(fs, LT)
/*@GROUP name=fs_ctor_sorted_range props=C09,C02 kind=K unwind=6 solver=kissat@*/
H_CTOR_SORTED_RANGE(fs, LT)
/*@GROUP name=fs_extract props=C09,C02 kind=K unwind=6 solver=kissat@*/
H_EXTRACT(fs, LT, VF_KNOWN(C09_fs_extract_empty, o.n > 0))
/*@GROUP name=fs_replace props=C09,C02 kind=K unwind=6 solver=kissat@*/
H_REPLACE(fs, LT)
/*@GROUP name=fs_erase_key props=C09,C02 kind=K unwind=6 solver=kissat split=SW:0:1@*/
H_ERASE_KEY(fs, LT, (void)0)
/*@GROUP name=fs_erase_it props=C09,C02 kind=K unwind=6 solver=kissat@*/
H_ERASE_IT_FS(fs, LT)
/*@GROUP name=fs_erase_range props=C09,C02 kind=K unwind=6 solver=kissat@*/
H_ERASE_RANGE(fs, LT, (void)0)
/*@GROUP name=fs_erase_if props=C09,C02 kind=K unwind=6 solver=kissat@*/
H_ERASE_IF(fs, LT)
/*@GROUP name=fs_whole props=C09,C02 kind=K unwind=6 solver=kissat split=SW:0:6@*/
H_WHOLE(fs, LT)
/*@GROUP name=fs_relational props=C09,C02 kind=K unwind=6 solver=kissat split=SW:0:3@*/
H_RELATIONAL(fs, LT)
/*@GROUP name=fsg_lookup props=C09,C02 kind=K unwind=6 solver=kissat split=SW:0:3@*/
H_LOOKUP(fsg, GT)
/*@GROUP name=fsg_equal_range props=C09,C02 kind=K unwind=6 solver=kissat split=SW:0:1@*/
H_EQUAL_RANGE(fsg, GT)
/*@GROUP name=fsg_observe props=C09,C02 kind=K unwind=6 solver=kissat@*/
H_OBSERVE_FS(fsg, GT)
/*@GROUP name=fsg_default props=C09,C02 kind=K unwind=6 solver=kissat@*/
H_DEFAULT(fsg, GT)
/*@GROUP name=fsg_insert props=C09,C02 kind=K unwind=6 solver=kissat split=SW:0:2 unwindset=_ZN3etl6rotateIPiEET_S2_S2_S2_.0:2@*/
H_INSERT_FS(fsg, GT)
/*@GROUP name=fsg_insert_hint props=C09,C02 kind=K unwind=6 solver=kissat split=SW:3:5 unwindset=_ZN3etl6rotateIPiEET_S2_S2_S2_.0:2 tier=thorough@*/
H_INSERT_HINT_FS(fsg, GT)
/*@GROUP name=fsg_insert_full props=C09,C02,C05 kind=K unwind=6 solver=kissat split=SW:0:5 unwindset=_ZN3etl6rotateIPiEET_S2_S2_S2_.0:2@*/
H_INSERT_FULL_FS(fsg, GT)
/*@GROUP name=fsg_insert_range props=C09,C02 kind=K unwind=6 solver=kissat split=SX:0:10 unwindset=_ZN3etl6rotateIPiEET_S2_S2_S2_.0:2 tier=thorough@*/
H_INSERT_RANGE(fsg, GT)
/*@GROUP name=fsg_ctor_range props=C09,C02 kind=K unwind=6 solver=kissat split=SC:0:4 unwindset=_ZN3etl6rotateIPiEET_S2_S2_S2_.0:2 tier=thorough@*/
H_CTOR_RANGE(fsg, GT)
/*@GROUP name=fsg_ctor_cont props=C09,C02 kind=K unwind=6 solver=kissat split=SC:0:4 unwindset=_ZN3etl6rotateIPiEET_S2_S2_S2_.0:2 tier=thorough@*/
H_CTOR_CONT(fsg, GT)
/*@GROUP name=fsg_ctor_sorted props=C09,C02 kind=K unwind=6 solver=kissat@*/
H_CTOR_SORTED(fsg, GT)
/*@GROUP name=fsg_ctor_sorted_range props=C09,C02 kind=K unwind=6 solver=kissat@*/
H_CTOR_SORTED_RANGE(fsg, GT)
/*@GROUP name=fsg_extract props=C09,C02 kind=K unwind=6 solver=kissat@*/
H_EXTRACT(fsg, GT, VF_KNOWN(C09_fs_extract_empty, o.n > 0))
/*@GROUP name=fsg_replace props=C09,C02 kind=K unwind=6 solver=kissat@*/
H_REPLACE(fsg, GT)
/*@GROUP name=fsg_erase_key props=C09,C02 kind=K unwind=6 solver=kissat split=SW:0:1@*/
H_ERASE_KEY(fsg, GT, (void)0)
/*@GROUP name=fsg_erase_it props=C09,C02 kind=K unwind=6 solver=kissat@*/
H_ERASE_IT_FS(fsg, GT)
/*@GROUP name=fsg_erase_range props=C09,C02 kind=K unwind=6 solver=kissat@*/
H_ERASE_RANGE(fsg, GT, (void)0)
/*@GROUP name=fsg_erase_if props=C09,C02 kind=K unwind=6 solver=kissat@*/
H_ERASE_IF(fsg, GT)
/*@GROUP name=fsg_whole props=C09,C02 kind=K unwind=6 solver=kissat split=SW:0:6@*/
H_WHOLE(fsg, GT)
/*@GROUP name=fsg_relational props=C09,C02 kind=K unwind=6 solver=kissat split=SW:0:3@*/
H_RELATIONAL(fsg, GT)
/*@GROUP name=fst_lookup props=C09,C02 kind=K unwind=6 solver=kissat split=SW:0:3@*/
H_LOOKUP(fst, LT)
/*@GROUP name=fst_equal_range props=C09,C02 kind=K unwind=6 solver=kissat split=SW:0:1@*/
H_EQUAL_RANGE(fst, LT)
/*@GROUP name=fst_observe props=C09,C02 kind=K unwind=6 solver=kissat@*/
H_OBSERVE_FS(fst, LT)
/*@GROUP name=fst_default props=C09,C02 kind=K unwind=6 solver=kissat@*/
H_DEFAULT(fst, LT)
/*@GROUP name=fst_insert props=C09,C02 kind=K unwind=6 solver=kissat split=SW:0:2 unwindset=_ZN3etl6rotateIPiEET_S2_S2_S2_.0:2@*/
H_INSERT_FS(fst, LT)
/*@GROUP name=fst_insert_hint props=C09,C02 kind=K unwind=6 solver=kissat split=SW:3:5 unwindset=_ZN3etl6rotateIPiEET_S2_S2_S2_.0:2 tier=thorough@*/
H_INSERT_HINT_FS(fst, LT)
/*@GROUP name=fst_insert_full props=C09,C02,C05 kind=K unwind=6 solver=kissat split=SW:0:5 unwindset=_ZN3etl6rotateIPiEET_S2_S2_S2_.0:2@*/
H_INSERT_FULL_FS(fst, LT)
/*@GROUP name=fst_insert_range props=C09,C02 kind=K unwind=6 solver=kissat split=SX:0:10 unwindset=_ZN3etl6rotateIPiEET_S2_S2_S2_.0:2 tier=thorough@*/
H_INSERT_RANGE(fst, LT)
/*@GROUP name=fst_ctor_range props=C09,C02 kind=K unwind=6 solver=kissat split=SC:0:4 unwindset=_ZN3etl6rotateIPiEET_S2_S2_S2_.0:2 tier=thorough@*/
H_CTOR_RANGE(fst, LT)
/*@GROUP name=fst_ctor_cont props=C09,C02 kind=K unwind=6 solver=kissat split=SC:0:4 unwindset=_ZN3etl6rotateIPiEET_S2_S2_S2_.0:2 tier=thorough@*/
H_CTOR_CONT(fst, LT)
/*@GROUP name=fst_ctor_sorted props=C09,C02 kind=K unwind=6 solver=kissat@*/
H_CTOR_SORTED(fst, LT)
/*@GROUP name=fst_ctor_sorted_range props=C09,C02 kind=K unwind=6 solver=kissat@*/
H_CTOR_SORTED_RANGE(fst, LT)
/*@GROUP name=fst_extract props=C09,C02 kind=K unwind=6 solver=kissat@*/
H_EXTRACT(fst, LT, VF_KNOWN(C09_fs_extract_empty, o.n > 0))
/*@GROUP name=fst_replace props=C09,C02 kind=K unwind=6 solver=kissat@*/
H_REPLACE(fst, LT)
/*@GROUP name=fst_erase_key props=C09,C02 kind=K unwind=6 solver=kissat split=SW:0:1@*/
H_ERASE_KEY(fst, LT, (void)0)
/*@GROUP name=fst_erase_it props=C09,C02 kind=K unwind=6 solver=kissat@*/
H_ERASE_IT_FS(fst, LT)
/*@GROUP name=fst_erase_range props=C09,C02 kind=K unwind=6 solver=kissat@*/
H_ERASE_RANGE(fst, LT, (void)0)
/*@GROUP name=fst_erase_if props=C09,C02 kind=K unwind=6 solver=kissat@*/
H_ERASE_IF(fst, LT)
/*@GROUP name=fst_whole props=C09,C02 kind=K unwind=6 solver=kissat split=SW:0:6@*/
H_WHOLE(fst, LT)
/*@GROUP name=fst_relational props=C09,C02 kind=K unwind=6 solver=kissat split=SW:0:3@*/
H_RELATIONAL(fst, LT)
/*@GROUP name=fst_lookup_h props=C09,C02 kind=K unwind=6 solver=kissat split=SW:0:1@*/
H_LOOKUP_H(fst, LT)
/*@GROUP name=fst_find_h props=C09,C02 kind=K unwind=6 solver=kissat split=SW:0:1@*/
H_FIND_H(fst, LT, (void)0)
/*@GROUP name=fst_equal_range_h props=C09,C02 kind=K unwind=6 solver=kissat split=SW:0:1@*/
H_EQUAL_RANGE_H(fst, LT)
/* =================================================================== flat_set over inplace_vector (no modifiers: inplace_vector has no emplace(pos)/erase/assignment/rbegin) */
/*@GROUP name=fsi_lookup props=C09,C02 kind=K unwind=6 solver=kissat split=SW:0:3@*/
H_LOOKUP(fsi, LT)
/*@GROUP name=fsi_equal_range props=C09,C02 kind=K unwind=6 solver=kissat split=SW:0:1@*/
H_EQUAL_RANGE(fsi, LT)
/*@GROUP name=fsi_observe props=C09,C02 kind=K unwind=6 solver=kissat@*/
H_OBSERVE_FSI(fsi, LT)
/*@GROUP name=fsi_default props=C09,C02 kind=K unwind=6 solver=kissat@*/
H_DEFAULT(fsi, LT)
/*@GROUP name=fsi_ctor_sorted props=C09,C02 kind=K unwind=6 solver=kissat@*/
H_CTOR_SORTED(fsi, LT)
/*@GROUP name=fsi_extract props=C09,C02 kind=K unwind=6 solver=kissat@*/
H_EXTRACT(fsi, LT, VF_KNOWN(C09_fs_extract_empty, o.n > 0))
/*@GROUP name=fsi_clear props=C09,C02 kind=K unwind=6 solver=kissat@*/
H_CLEAR(fsi, LT)
/*@GROUP name=fsi_relational props=C09,C02 kind=K unwind=6 solver=kissat split=SW:0:3@*/
H_RELATIONAL(fsi, LT)
/* Tiers of the groups below.  quick: every entry point with aud_less over each container (ssa_, fsa_, fia_, fv_), the heterogeneous find/contains/count
 * with aud_less_t, aliasing keys for static_set and flat_set (ssa_, fsa_), one instantiation of every two-step history.  thorough: the same templates for aud_greater / aud_less_t
 * and for the etl::less / greater / less<> instantiations (identical template source, other comparator type). */
/* =================================================================== static_set, auditing comparators; aliasing keys; two-step histories */
/*@GROUP name=ssa_lookup props=C09,C02 kind=K unwind=6 solver=kissat split=SW:0:3@*/
H_LOOKUP(ssa, LT)
/*@GROUP name=ssa_insert props=C09,C02 kind=K unwind=6 solver=kissat split=SW:0:2 unwindset=_ZN3etl6rotateIPiEET_S2_S2_S2_.0:2@*/
H_INSERT_SS(ssa, LT)
/*@GROUP name=ssa_insert_full props=C09,C02 kind=K unwind=6 solver=kissat split=SW:0:2 unwindset=_ZN3etl6rotateIPiEET_S2_S2_S2_.0:2@*/
H_INSERT_FULL_SS(ssa, LT)
/*@GROUP name=ssa_erase_key props=C09,C02 kind=K unwind=6 solver=kissat split=SW:0:1@*/
H_ERASE_KEY(ssa, LT, (void)0)
/*@GROUP name=ssa_insert_range props=C09,C02 kind=K unwind=6 solver=kissat split=SX:0:10 unwindset=_ZN3etl6rotateIPiEET_S2_S2_S2_.0:2 tier=thorough@*/
H_INSERT_RANGE(ssa, LT)
/*@GROUP name=ssa_alias props=C09,C02 kind=K unwind=6 solver=kissat split=SW:0:2 unwindset=_ZN3etl6rotateIPiEET_S2_S2_S2_.0:2@*/
H_ALIAS_SS(ssa, LT)
/*@GROUP name=ssa_seq_erase_insert props=C09,C02 kind=K unwind=6 solver=kissat split=SW:0:2 unwindset=_ZN3etl6rotateIPiEET_S2_S2_S2_.0:2 tier=thorough@*/
H_SEQ_ERASE_INSERT(ssa, LT)
/*@GROUP name=ssag_lookup props=C09,C02 kind=K unwind=6 solver=kissat split=SW:0:3 tier=thorough@*/
H_LOOKUP(ssag, GT)
/*@GROUP name=ssag_insert props=C09,C02 kind=K unwind=6 solver=kissat split=SW:0:2 unwindset=_ZN3etl6rotateIPiEET_S2_S2_S2_.0:2 tier=thorough@*/
H_INSERT_SS(ssag, GT)
/*@GROUP name=ssag_insert_full props=C09,C02 kind=K unwind=6 solver=kissat split=SW:0:2 unwindset=_ZN3etl6rotateIPiEET_S2_S2_S2_.0:2 tier=thorough@*/
H_INSERT_FULL_SS(ssag, GT)
/*@GROUP name=ssag_erase_key props=C09,C02 kind=K unwind=6 solver=kissat split=SW:0:1 tier=thorough@*/
H_ERASE_KEY(ssag, GT, (void)0)
/*@GROUP name=ssag_insert_range props=C09,C02 kind=K unwind=6 solver=kissat split=SX:0:10 unwindset=_ZN3etl6rotateIPiEET_S2_S2_S2_.0:2 tier=thorough@*/
H_INSERT_RANGE(ssag, GT)
/*@GROUP name=ssag_alias props=C09,C02 kind=K unwind=6 solver=kissat split=SW:0:2 unwindset=_ZN3etl6rotateIPiEET_S2_S2_S2_.0:2 tier=thorough@*/
H_ALIAS_SS(ssag, GT)
/*@GROUP name=ssag_seq_erase_insert props=C09,C02 kind=K unwind=6 solver=kissat split=SW:0:2 unwindset=_ZN3etl6rotateIPiEET_S2_S2_S2_.0:2 tier=thorough@*/
H_SEQ_ERASE_INSERT(ssag, GT)
/*@GROUP name=ssat_lookup props=C09,C02 kind=K unwind=6 solver=kissat split=SW:0:3 tier=thorough@*/
H_LOOKUP(ssat, LT)
/*@GROUP name=ssat_insert props=C09,C02 kind=K unwind=6 solver=kissat split=SW:0:2 unwindset=_ZN3etl6rotateIPiEET_S2_S2_S2_.0:2 tier=thorough@*/
H_INSERT_SS(ssat, LT)
/*@GROUP name=ssat_insert_full props=C09,C02 kind=K unwind=6 solver=kissat split=SW:0:2 unwindset=_ZN3etl6rotateIPiEET_S2_S2_S2_.0:2 tier=thorough@*/
H_INSERT_FULL_SS(ssat, LT)
/*@GROUP name=ssat_erase_key props=C09,C02 kind=K unwind=6 solver=kissat split=SW:0:1 tier=thorough@*/
H_ERASE_KEY(ssat, LT, (void)0)
/*@GROUP name=ssat_insert_range props=C09,C02 kind=K unwind=6 solver=kissat split=SX:0:10 unwindset=_ZN3etl6rotateIPiEET_S2_S2_S2_.0:2 tier=thorough@*/
H_INSERT_RANGE(ssat, LT)
/*@GROUP name=ssat_alias props=C09,C02 kind=K unwind=6 solver=kissat split=SW:0:2 unwindset=_ZN3etl6rotateIPiEET_S2_S2_S2_.0:2 tier=thorough@*/
H_ALIAS_SS(ssat, LT)
/*@GROUP name=ssat_seq_erase_insert props=C09,C02 kind=K unwind=6 solver=kissat split=SW:0:2 unwindset=_ZN3etl6rotateIPiEET_S2_S2_S2_.0:2 tier=thorough@*/
H_SEQ_ERASE_INSERT(ssat, LT)
/*@GROUP name=ssat_lookup_h props=C09,C02 kind=K unwind=6 solver=kissat split=SW:0:1 tier=thorough@*/
H_LOOKUP_H(ssat, LT)
/*@GROUP name=ssat_find_h props=C09,C02 kind=K unwind=6 solver=kissat split=SW:0:1@*/
H_FIND_H(ssat, LT, (void)0)
/*@GROUP name=ss_alias props=C09,C02 kind=K unwind=6 solver=kissat split=SW:0:2 unwindset=_ZN3etl6rotateIPiEET_S2_S2_S2_.0:2 tier=thorough@*/
H_ALIAS_SS(ss, LT)
/*@GROUP name=ss_seq_erase_insert props=C09,C02 kind=K unwind=6 solver=kissat split=SW:0:2 unwindset=_ZN3etl6rotateIPiEET_S2_S2_S2_.0:2@*/
H_SEQ_ERASE_INSERT(ss, LT)
/*@GROUP name=ss_seq_swap_lookup props=C09,C02 kind=K unwind=6 solver=kissat split=SW:0:1 tier=thorough@*/
H_SEQ_SWAP_LOOKUP(ss, LT)
/*@GROUP name=ssg_alias props=C09,C02 kind=K unwind=6 solver=kissat split=SW:0:2 unwindset=_ZN3etl6rotateIPiEET_S2_S2_S2_.0:2 tier=thorough@*/
H_ALIAS_SS(ssg, GT)
/*@GROUP name=ssg_seq_erase_insert props=C09,C02 kind=K unwind=6 solver=kissat split=SW:0:2 unwindset=_ZN3etl6rotateIPiEET_S2_S2_S2_.0:2 tier=thorough@*/
H_SEQ_ERASE_INSERT(ssg, GT)
/*@GROUP name=ssg_seq_swap_lookup props=C09,C02 kind=K unwind=6 solver=kissat split=SW:0:1 tier=thorough@*/
H_SEQ_SWAP_LOOKUP(ssg, GT)
/*@GROUP name=sst_alias props=C09,C02 kind=K unwind=6 solver=kissat split=SW:0:2 unwindset=_ZN3etl6rotateIPiEET_S2_S2_S2_.0:2 tier=thorough@*/
H_ALIAS_SS(sst, LT)
/*@GROUP name=sst_seq_erase_insert props=C09,C02 kind=K unwind=6 solver=kissat split=SW:0:2 unwindset=_ZN3etl6rotateIPiEET_S2_S2_S2_.0:2 tier=thorough@*/
H_SEQ_ERASE_INSERT(sst, LT)
/*@GROUP name=sst_seq_swap_lookup props=C09,C02 kind=K unwind=6 solver=kissat split=SW:0:1 tier=thorough@*/
H_SEQ_SWAP_LOOKUP(sst, LT)
/* =================================================================== flat_set over static_vector, auditing comparators; aliasing keys; two-step histories */
/*@GROUP name=fsa_lookup props=C09,C02 kind=K unwind=6 solver=kissat split=SW:0:3@*/
H_LOOKUP(fsa, LT)
/*@GROUP name=fsa_equal_range props=C09,C02 kind=K unwind=6 solver=kissat split=SW:0:1@*/
H_EQUAL_RANGE(fsa, LT)
/*@GROUP name=fsa_insert props=C09,C02 kind=K unwind=6 solver=kissat split=SW:0:2 unwindset=_ZN3etl6rotateIPiEET_S2_S2_S2_.0:2@*/
H_INSERT_FS(fsa, LT)
/*@GROUP name=fsa_insert_hint props=C09,C02 kind=K unwind=6 solver=kissat split=SW:3:5 unwindset=_ZN3etl6rotateIPiEET_S2_S2_S2_.0:2 tier=thorough@*/
H_INSERT_HINT_FS(fsa, LT)
/*@GROUP name=fsa_insert_full props=C09,C02,C05 kind=K unwind=6 solver=kissat split=SW:0:5 unwindset=_ZN3etl6rotateIPiEET_S2_S2_S2_.0:2@*/
H_INSERT_FULL_FS(fsa, LT)
/*@GROUP name=fsa_erase_key props=C09,C02 kind=K unwind=6 solver=kissat split=SW:0:1@*/
H_ERASE_KEY(fsa, LT, (void)0)
/*@GROUP name=fsa_ctor_cont props=C09,C02 kind=K unwind=6 solver=kissat split=SC:0:4 unwindset=_ZN3etl6rotateIPiEET_S2_S2_S2_.0:2 tier=thorough@*/
H_CTOR_CONT(fsa, LT)
/*@GROUP name=fsa_insert_range props=C09,C02 kind=K unwind=6 solver=kissat split=SX:0:10 unwindset=_ZN3etl6rotateIPiEET_S2_S2_S2_.0:2 tier=thorough@*/
H_INSERT_RANGE(fsa, LT)
/*@GROUP name=fsa_alias props=C09,C02 kind=K unwind=6 solver=kissat split=SW:0:2 unwindset=_ZN3etl6rotateIPiEET_S2_S2_S2_.0:2@*/
H_ALIAS_FS(fsa, LT)
/*@GROUP name=fsa_seq_erase_insert props=C09,C02 kind=K unwind=6 solver=kissat split=SW:0:2 unwindset=_ZN3etl6rotateIPiEET_S2_S2_S2_.0:2 tier=thorough@*/
H_SEQ_ERASE_INSERT(fsa, LT)
/*@GROUP name=fsa_seq_extract props=C09,C02 kind=K unwind=6 solver=kissat split=SW:0:2 unwindset=_ZN3etl6rotateIPiEET_S2_S2_S2_.0:2 tier=thorough@*/
H_SEQ_EXTRACT_MOD(fsa, LT)
/*@GROUP name=fsag_lookup props=C09,C02 kind=K unwind=6 solver=kissat split=SW:0:3 tier=thorough@*/
H_LOOKUP(fsag, GT)
/*@GROUP name=fsag_equal_range props=C09,C02 kind=K unwind=6 solver=kissat split=SW:0:1 tier=thorough@*/
H_EQUAL_RANGE(fsag, GT)
/*@GROUP name=fsag_insert props=C09,C02 kind=K unwind=6 solver=kissat split=SW:0:2 unwindset=_ZN3etl6rotateIPiEET_S2_S2_S2_.0:2 tier=thorough@*/
H_INSERT_FS(fsag, GT)
/*@GROUP name=fsag_insert_hint props=C09,C02 kind=K unwind=6 solver=kissat split=SW:3:5 unwindset=_ZN3etl6rotateIPiEET_S2_S2_S2_.0:2 tier=thorough@*/
H_INSERT_HINT_FS(fsag, GT)
/*@GROUP name=fsag_insert_full props=C09,C02,C05 kind=K unwind=6 solver=kissat split=SW:0:5 unwindset=_ZN3etl6rotateIPiEET_S2_S2_S2_.0:2 tier=thorough@*/
H_INSERT_FULL_FS(fsag, GT)
/*@GROUP name=fsag_erase_key props=C09,C02 kind=K unwind=6 solver=kissat split=SW:0:1 tier=thorough@*/
H_ERASE_KEY(fsag, GT, (void)0)
/*@GROUP name=fsag_ctor_cont props=C09,C02 kind=K unwind=6 solver=kissat split=SC:0:4 unwindset=_ZN3etl6rotateIPiEET_S2_S2_S2_.0:2 tier=thorough@*/
H_CTOR_CONT(fsag, GT)
/*@GROUP name=fsag_insert_range props=C09,C02 kind=K unwind=6 solver=kissat split=SX:0:10 unwindset=_ZN3etl6rotateIPiEET_S2_S2_S2_.0:2 tier=thorough@*/
H_INSERT_RANGE(fsag, GT)
/*@GROUP name=fsag_alias props=C09,C02 kind=K unwind=6 solver=kissat split=SW:0:2 unwindset=_ZN3etl6rotateIPiEET_S2_S2_S2_.0:2 tier=thorough@*/
H_ALIAS_FS(fsag, GT)
/*@GROUP name=fsag_seq_erase_insert props=C09,C02 kind=K unwind=6 solver=kissat split=SW:0:2 unwindset=_ZN3etl6rotateIPiEET_S2_S2_S2_.0:2 tier=thorough@*/
H_SEQ_ERASE_INSERT(fsag, GT)
/*@GROUP name=fsag_seq_extract props=C09,C02 kind=K unwind=6 solver=kissat split=SW:0:2 unwindset=_ZN3etl6rotateIPiEET_S2_S2_S2_.0:2 tier=thorough@*/
H_SEQ_EXTRACT_MOD(fsag, GT)
/*@GROUP name=fsat_lookup props=C09,C02 kind=K unwind=6 solver=kissat split=SW:0:3 tier=thorough@*/
H_LOOKUP(fsat, LT)
/*@GROUP name=fsat_equal_range props=C09,C02 kind=K unwind=6 solver=kissat split=SW:0:1 tier=thorough@*/
H_EQUAL_RANGE(fsat, LT)
/*@GROUP name=fsat_insert props=C09,C02 kind=K unwind=6 solver=kissat split=SW:0:2 unwindset=_ZN3etl6rotateIPiEET_S2_S2_S2_.0:2 tier=thorough@*/
H_INSERT_FS(fsat, LT)
/*@GROUP name=fsat_insert_hint props=C09,C02 kind=K unwind=6 solver=kissat split=SW:3:5 unwindset=_ZN3etl6rotateIPiEET_S2_S2_S2_.0:2 tier=thorough@*/
H_INSERT_HINT_FS(fsat, LT)
/*@GROUP name=fsat_insert_full props=C09,C02,C05 kind=K unwind=6 solver=kissat split=SW:0:5 unwindset=_ZN3etl6rotateIPiEET_S2_S2_S2_.0:2 tier=thorough@*/
H_INSERT_FULL_FS(fsat, LT)
/*@GROUP name=fsat_erase_key props=C09,C02 kind=K unwind=6 solver=kissat split=SW:0:1 tier=thorough@*/
H_ERASE_KEY(fsat, LT, (void)0)
/*@GROUP name=fsat_ctor_cont props=C09,C02 kind=K unwind=6 solver=kissat split=SC:0:4 unwindset=_ZN3etl6rotateIPiEET_S2_S2_S2_.0:2 tier=thorough@*/
H_CTOR_CONT(fsat, LT)
/*@GROUP name=fsat_insert_range props=C09,C02 kind=K unwind=6 solver=kissat split=SX:0:10 unwindset=_ZN3etl6rotateIPiEET_S2_S2_S2_.0:2 tier=thorough@*/
H_INSERT_RANGE(fsat, LT)
/*@GROUP name=fsat_alias props=C09,C02 kind=K unwind=6 solver=kissat split=SW:0:2 unwindset=_ZN3etl6rotateIPiEET_S2_S2_S2_.0:2 tier=thorough@*/
H_ALIAS_FS(fsat, LT)
/*@GROUP name=fsat_seq_erase_insert props=C09,C02 kind=K unwind=6 solver=kissat split=SW:0:2 unwindset=_ZN3etl6rotateIPiEET_S2_S2_S2_.0:2 tier=thorough@*/
H_SEQ_ERASE_INSERT(fsat, LT)
/*@GROUP name=fsat_seq_extract props=C09,C02 kind=K unwind=6 solver=kissat split=SW:0:2 unwindset=_ZN3etl6rotateIPiEET_S2_S2_S2_.0:2 tier=thorough@*/
H_SEQ_EXTRACT_MOD(fsat, LT)
/*@GROUP name=fsat_lookup_h props=C09,C02 kind=K unwind=6 solver=kissat split=SW:0:1 tier=thorough@*/
H_LOOKUP_H(fsat, LT)
/*@GROUP name=fsat_find_h props=C09,C02 kind=K unwind=6 solver=kissat split=SW:0:1@*/
H_FIND_H(fsat, LT, (void)0)
/*@GROUP name=fsat_equal_range_h props=C09,C02 kind=K unwind=6 solver=kissat split=SW:0:1 tier=thorough@*/
H_EQUAL_RANGE_H(fsat, LT)
/*@GROUP name=fs_alias props=C09,C02 kind=K unwind=6 solver=kissat split=SW:0:2 unwindset=_ZN3etl6rotateIPiEET_S2_S2_S2_.0:2 tier=thorough@*/
H_ALIAS_FS(fs, LT)
/*@GROUP name=fs_seq_erase_insert props=C09,C02 kind=K unwind=6 solver=kissat split=SW:0:2 unwindset=_ZN3etl6rotateIPiEET_S2_S2_S2_.0:2 tier=thorough@*/
H_SEQ_ERASE_INSERT(fs, LT)
/*@GROUP name=fs_seq_extract props=C09,C02 kind=K unwind=6 solver=kissat split=SW:0:2 unwindset=_ZN3etl6rotateIPiEET_S2_S2_S2_.0:2@*/
H_SEQ_EXTRACT_MOD(fs, LT)
/*@GROUP name=fs_seq_swap_lookup props=C09,C02 kind=K unwind=6 solver=kissat split=SW:0:1@*/
H_SEQ_SWAP_LOOKUP(fs, LT)
/*@GROUP name=fsg_alias props=C09,C02 kind=K unwind=6 solver=kissat split=SW:0:2 unwindset=_ZN3etl6rotateIPiEET_S2_S2_S2_.0:2 tier=thorough@*/
H_ALIAS_FS(fsg, GT)
/*@GROUP name=fsg_seq_erase_insert props=C09,C02 kind=K unwind=6 solver=kissat split=SW:0:2 unwindset=_ZN3etl6rotateIPiEET_S2_S2_S2_.0:2 tier=thorough@*/
H_SEQ_ERASE_INSERT(fsg, GT)
/*@GROUP name=fsg_seq_extract props=C09,C02 kind=K unwind=6 solver=kissat split=SW:0:2 unwindset=_ZN3etl6rotateIPiEET_S2_S2_S2_.0:2 tier=thorough@*/
H_SEQ_EXTRACT_MOD(fsg, GT)
/*@GROUP name=fsg_seq_swap_lookup props=C09,C02 kind=K unwind=6 solver=kissat split=SW:0:1 tier=thorough@*/
H_SEQ_SWAP_LOOKUP(fsg, GT)
/*@GROUP name=fst_alias props=C09,C02 kind=K unwind=6 solver=kissat split=SW:0:2 unwindset=_ZN3etl6rotateIPiEET_S2_S2_S2_.0:2 tier=thorough@*/
H_ALIAS_FS(fst, LT)
/*@GROUP name=fst_seq_erase_insert props=C09,C02 kind=K unwind=6 solver=kissat split=SW:0:2 unwindset=_ZN3etl6rotateIPiEET_S2_S2_S2_.0:2 tier=thorough@*/
H_SEQ_ERASE_INSERT(fst, LT)
/*@GROUP name=fst_seq_extract props=C09,C02 kind=K unwind=6 solver=kissat split=SW:0:2 unwindset=_ZN3etl6rotateIPiEET_S2_S2_S2_.0:2 tier=thorough@*/
H_SEQ_EXTRACT_MOD(fst, LT)
/*@GROUP name=fst_seq_swap_lookup props=C09,C02 kind=K unwind=6 solver=kissat split=SW:0:1 tier=thorough@*/
H_SEQ_SWAP_LOOKUP(fst, LT)
/* =================================================================== flat_set over inplace_vector: auditing comparator, aliasing keys, extract (lookups only) */
/*@GROUP name=fsi_alias props=C09,C02 kind=K unwind=6 solver=kissat split=SW:0:1 tier=thorough@*/
H_ALIAS_LOOKUP(fsi, LT)
/*@GROUP name=fsi_seq_extract props=C09,C02 kind=K unwind=6 solver=kissat@*/
H_SEQ_EXTRACT_LOOKUP(fsi, LT)
/*@GROUP name=fia_lookup props=C09,C02 kind=K unwind=6 solver=kissat split=SW:0:3@*/
H_LOOKUP(fia, LT)
/*@GROUP name=fia_equal_range props=C09,C02 kind=K unwind=6 solver=kissat split=SW:0:1@*/
H_EQUAL_RANGE(fia, LT)
/*@GROUP name=fia_ctor_sorted props=C09,C02 kind=K unwind=6 solver=kissat@*/
H_CTOR_SORTED(fia, LT)
/*@GROUP name=fia_alias props=C09,C02 kind=K unwind=6 solver=kissat split=SW:0:1 tier=thorough@*/
H_ALIAS_LOOKUP(fia, LT)
/*@GROUP name=fia_seq_extract props=C09,C02 kind=K unwind=6 solver=kissat@*/
H_SEQ_EXTRACT_LOOKUP(fia, LT)
/* =================================================================== flat_set over vf::fixed_vec (trivially copyable, size_t size), auditing comparator: complete API */
/*@GROUP name=fv_lookup props=C09,C02 kind=K unwind=6 solver=kissat split=SW:0:3@*/
H_LOOKUP(fv, LT)
/*@GROUP name=fv_equal_range props=C09,C02 kind=K unwind=6 solver=kissat split=SW:0:1@*/
H_EQUAL_RANGE(fv, LT)
/*@GROUP name=fv_observe props=C09,C02 kind=K unwind=6 solver=kissat@*/
H_OBSERVE_FS(fv, LT)
/*@GROUP name=fv_default props=C09,C02 kind=K unwind=6 solver=kissat@*/
H_DEFAULT(fv, LT)
/*@GROUP name=fv_insert props=C09,C02 kind=K unwind=6 solver=kissat split=SW:0:2@*/
H_INSERT_FS(fv, LT)
/*@GROUP name=fv_insert_hint props=C09,C02 kind=K unwind=6 solver=kissat split=SW:3:5 qsplit=3@*/
H_INSERT_HINT_FS(fv, LT)
/*@GROUP name=fv_insert_range props=C09,C02 kind=K unwind=6 solver=kissat split=SX:0:10 tier=thorough@*/
H_INSERT_RANGE(fv, LT)
/*@GROUP name=fv_ctor_range props=C09,C02 kind=K unwind=6 solver=kissat split=SC:0:4 tier=thorough@*/
H_CTOR_RANGE(fv, LT)
/*@GROUP name=fv_ctor_cont props=C09,C02 kind=K unwind=6 solver=kissat split=SC:0:4 tier=thorough@*/
H_CTOR_CONT(fv, LT)
/*@GROUP name=fv_ctor_sorted props=C09,C02 kind=K unwind=6 solver=kissat@*/
H_CTOR_SORTED(fv, LT)
/*@GROUP name=fv_ctor_sorted_range props=C09,C02 kind=K unwind=6 solver=kissat@*/
H_CTOR_SORTED_RANGE(fv, LT)
/*@GROUP name=fv_extract props=C09,C02 kind=K unwind=6 solver=kissat@*/
H_EXTRACT(fv, LT, (void)0)
/*@GROUP name=fv_replace props=C09,C02 kind=K unwind=6 solver=kissat@*/
H_REPLACE(fv, LT)
/*@GROUP name=fv_erase_key props=C09,C02 kind=K unwind=6 solver=kissat split=SW:0:1@*/
H_ERASE_KEY(fv, LT, (void)0)
/*@GROUP name=fv_erase_it props=C09,C02 kind=K unwind=6 solver=kissat@*/
H_ERASE_IT_FS(fv, LT)
/*@GROUP name=fv_erase_range props=C09,C02 kind=K unwind=6 solver=kissat@*/
H_ERASE_RANGE(fv, LT, (void)0)
/*@GROUP name=fv_erase_if props=C09,C02 kind=K unwind=6 solver=kissat@*/
H_ERASE_IF(fv, LT)
/*@GROUP name=fv_whole props=C09,C02 kind=K unwind=6 solver=kissat split=SW:0:6@*/
H_WHOLE(fv, LT)
/*@GROUP name=fv_relational props=C09,C02 kind=K unwind=6 solver=kissat split=SW:0:3@*/
H_RELATIONAL(fv, LT)
/*@GROUP name=fv_alias props=C09,C02 kind=K unwind=6 solver=kissat split=SW:0:2 tier=thorough@*/
H_ALIAS_FS(fv, LT)
/*@GROUP name=fv_seq_erase_insert props=C09,C02 kind=K unwind=6 solver=kissat split=SW:0:2@*/
H_SEQ_ERASE_INSERT(fv, LT)
/*@GROUP name=fv_seq_extract props=C09,C02 kind=K unwind=6 solver=kissat split=SW:0:2@*/
H_SEQ_EXTRACT_MOD(fv, LT)
/*@GROUP name=fv_seq_swap_lookup props=C09,C02 kind=K unwind=6 solver=kissat split=SW:0:1 tier=thorough@*/
H_SEQ_SWAP_LOOKUP(fv, LT)
/* =================================================================== flat_multiset ================================= */
/*@GROUP name=fm_ctor props=C09,C02 kind=K unwind=20 solver=kissat@*/
H_MULTI(fm, LT)
/*@GROUP name=fmg_ctor props=C09,C02 kind=K unwind=20 solver=kissat@*/
H_MULTI(fmg, GT)
/*@GROUP name=fmi_ctor props=C09,C02 kind=K unwind=20 solver=kissat@*/
H_MULTI(fmi, LT)
/*@GROUP name=fma_ctor props=C09,C02 kind=K unwind=20 solver=kissat@*/
H_MULTI(fma, LT)
/*@GROUP name=fmv_ctor props=C09,C02 kind=K unwind=20 solver=kissat@*/
H_MULTI(fmv, GT)
