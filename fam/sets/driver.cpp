// driver: static_set / flat_set / flat_multiset at capacity VF_N, keys int (C09, C02)
#include <etl/set.hpp>
#include <etl/flat_set.hpp>
#include <etl/vector.hpp>
#include <etl/inplace_vector.hpp>
#include <etl/functional.hpp>
#include <etl/new.hpp>
#ifndef VF_N
#define VF_N 4
#endif
#define VF_E extern "C"
namespace vf {
using size_type = etl::size_t;
using SV = etl::static_vector<int, VF_N>;
using IV = etl::inplace_vector<int, VF_N>;
struct is_odd { auto operator()(int const& x) const -> bool { return (x & 1) != 0; } };

// ---------------------------------------------------------------- static_set
#define SS_API(P, S)                                                                                                   \
    VF_E void P##_default(S* out) { new (out) S; }                                                                     \
    VF_E void P##_ctor_range(S* out, int const* f, int const* l) { new (out) S(f, l); }                                \
    VF_E void P##_copy_ctor(S* out, S const& o) { new (out) S(o); }                                                    \
    VF_E void P##_copy_assign(S& a, S const& b) { a = b; }                                                             \
    VF_E bool P##_insert(S& s, int const& k, int** it) { auto r = s.insert(k); *it = r.first; return r.second; }       \
    VF_E bool P##_insert_rv(S& s, int k, int** it) { auto r = s.insert(etl::move(k)); *it = r.first; return r.second; } \
    VF_E bool P##_emplace(S& s, int k, int** it) { auto r = s.emplace(k); *it = r.first; return r.second; }            \
    VF_E void P##_insert_range(S& s, int const* f, int const* l) { s.insert(f, l); }                                   \
    VF_E int* P##_erase_it(S& s, int* pos) { return s.erase(pos); }                                                    \
    VF_E int* P##_erase_range(S& s, int* f, int* l) { return s.erase(f, l); }                                          \
    VF_E size_type P##_erase_key(S& s, int const& k) { return s.erase(k); }                                            \
    VF_E void P##_clear(S& s) { s.clear(); }                                                                           \
    VF_E void P##_swap(S& a, S& b) { a.swap(b); }                                                                      \
    VF_E void P##_swap_free(S& a, S& b) { swap(a, b); }                                                                \
    VF_E int* P##_find(S& s, int const& k) { return s.find(k); }                                                       \
    VF_E int const* P##_cfind(S const& s, int const& k) { return s.find(k); }                                          \
    VF_E bool P##_contains(S const& s, int const& k) { return s.contains(k); }                                         \
    VF_E size_type P##_count(S const& s, int const& k) { return s.count(k); }                                          \
    VF_E int* P##_lower_bound(S& s, int const& k) { return s.lower_bound(k); }                                         \
    VF_E int const* P##_clower_bound(S const& s, int const& k) { return s.lower_bound(k); }                            \
    VF_E int* P##_upper_bound(S& s, int const& k) { return s.upper_bound(k); }                                         \
    VF_E int const* P##_cupper_bound(S const& s, int const& k) { return s.upper_bound(k); }                            \
    VF_E int* P##_begin(S& s) { return s.begin(); }                                                                    \
    VF_E int* P##_end(S& s) { return s.end(); }                                                                        \
    VF_E int const* P##_cbegin(S const& s) { return s.cbegin(); }                                                      \
    VF_E int const* P##_cend(S const& s) { return s.cend(); }                                                          \
    VF_E int* P##_rbegin_base(S& s) { return s.rbegin().base(); }                                                      \
    VF_E int* P##_rend_base(S& s) { return s.rend().base(); }                                                          \
    VF_E int const* P##_begin_c(S const& s) { return s.begin(); }                                                      \
    VF_E int const* P##_end_c(S const& s) { return s.end(); }                                                          \
    VF_E int const* P##_crbegin_base(S const& s) { return s.crbegin().base(); }                                        \
    VF_E int const* P##_crend_base(S const& s) { return s.crend().base(); }                                            \
    VF_E int const* P##_rbegin_c_base(S const& s) { return s.rbegin().base(); }                                        \
    VF_E int const* P##_rend_c_base(S const& s) { return s.rend().base(); }                                            \
    VF_E size_type P##_size(S const& s) { return s.size(); }                                                           \
    VF_E size_type P##_max_size(S const& s) { return s.max_size(); }                                                   \
    VF_E bool P##_empty(S const& s) { return s.empty(); }                                                              \
    VF_E bool P##_full(S const& s) { return s.full(); }                                                                \
    VF_E bool P##_eq(S const& a, S const& b) { return a == b; }                                                        \
    VF_E bool P##_ne(S const& a, S const& b) { return a != b; }                                                        \
    VF_E bool P##_lt(S const& a, S const& b) { return a < b; }                                                         \
    VF_E bool P##_le(S const& a, S const& b) { return a <= b; }                                                        \
    VF_E bool P##_gt(S const& a, S const& b) { return a > b; }                                                         \
    VF_E bool P##_ge(S const& a, S const& b) { return a >= b; }                                                        \
    VF_E bool P##_key_comp(S const& s, int const& a, int const& b) { return s.key_comp()(a, b) && s.value_comp()(a, b); }

using SSL = etl::static_set<int, VF_N>;
using SSG = etl::static_set<int, VF_N, etl::greater<int>>;
using SST = etl::static_set<int, VF_N, etl::less<>>;
SS_API(ss, SSL)
SS_API(ssg, SSG)
SS_API(sst, SST)
// heterogeneous lookup (transparent comparator), key type long
VF_E int* sst_find_h(SST& s, long const& k) { return s.find(k); }
VF_E int const* sst_cfind_h(SST const& s, long const& k) { return s.find(k); }
VF_E bool sst_contains_h(SST const& s, long const& k) { return s.contains(k); }
VF_E size_type sst_count_h(SST const& s, long const& k) { return s.count(k); }
VF_E int* sst_lower_bound_h(SST& s, long const& k) { return s.lower_bound(k); }
VF_E int const* sst_clower_bound_h(SST const& s, long const& k) { return s.lower_bound(k); }
VF_E int* sst_upper_bound_h(SST& s, long const& k) { return s.upper_bound(k); }
VF_E int const* sst_cupper_bound_h(SST const& s, long const& k) { return s.upper_bound(k); }

// ---------------------------------------------------------------- flat_set: lookups and observers (every container)
#define FS_LOOKUP_API(P, F, C)                                                                                         \
    VF_E void P##_default(F* out) { new (out) F; }                                                                     \
    VF_E void P##_ctor_sorted_unique(F* out, C const& c) { new (out) F(etl::sorted_unique, c); }                       \
    VF_E void P##_extract(C* out, F& s) { new (out) C(etl::move(s).extract()); }                                       \
    VF_E void P##_clear(F& s) { s.clear(); }                                                                           \
    VF_E int* P##_find(F& s, int const& k) { return s.find(k); }                                                       \
    VF_E int const* P##_cfind(F const& s, int const& k) { return s.find(k); }                                          \
    VF_E bool P##_contains(F const& s, int const& k) { return s.contains(k); }                                         \
    VF_E size_type P##_count(F const& s, int const& k) { return s.count(k); }                                          \
    VF_E int* P##_lower_bound(F& s, int const& k) { return s.lower_bound(k); }                                         \
    VF_E int const* P##_clower_bound(F const& s, int const& k) { return s.lower_bound(k); }                            \
    VF_E int* P##_upper_bound(F& s, int const& k) { return s.upper_bound(k); }                                         \
    VF_E int const* P##_cupper_bound(F const& s, int const& k) { return s.upper_bound(k); }                            \
    VF_E void P##_equal_range(F& s, int const& k, int** lo, int** hi) { auto r = s.equal_range(k); *lo = r.first; *hi = r.second; } \
    VF_E void P##_cequal_range(F const& s, int const& k, int const** lo, int const** hi) { auto r = s.equal_range(k); *lo = r.first; *hi = r.second; } \
    VF_E int* P##_begin(F& s) { return s.begin(); }                                                                    \
    VF_E int* P##_end(F& s) { return s.end(); }                                                                        \
    VF_E int const* P##_cbegin(F const& s) { return s.cbegin(); }                                                      \
    VF_E int const* P##_cend(F const& s) { return s.cend(); }                                                          \
    VF_E size_type P##_size(F const& s) { return s.size(); }                                                           \
    VF_E size_type P##_max_size(F const& s) { return s.max_size(); }                                                   \
    VF_E bool P##_empty(F const& s) { return s.empty(); }                                                              \
    VF_E bool P##_eq(F const& a, F const& b) { return a == b; }                                                        \
    VF_E bool P##_ne(F const& a, F const& b) { return a != b; }                                                        \
    VF_E bool P##_lt(F const& a, F const& b) { return a < b; }                                                         \
    VF_E bool P##_le(F const& a, F const& b) { return a <= b; }                                                        \
    VF_E bool P##_gt(F const& a, F const& b) { return a > b; }                                                         \
    VF_E bool P##_ge(F const& a, F const& b) { return a >= b; }                                                        \
    VF_E bool P##_key_comp(F const& s, int const& a, int const& b) { return s.key_comp()(a, b) && s.value_comp()(a, b); }

// modifiers: need Container::emplace(pos, x), erase, assignment -> static_vector only
#define FS_MOD_API(P, F, C)                                                                                            \
    VF_E int* P##_rbegin_base(F& s) { return s.rbegin().base(); }                                                      \
    VF_E int* P##_rend_base(F& s) { return s.rend().base(); }                                                          \
    VF_E int const* P##_crbegin_base(F const& s) { return s.crbegin().base(); }                                        \
    VF_E int const* P##_crend_base(F const& s) { return s.crend().base(); }                                            \
    VF_E int const* P##_rbegin_c_base(F const& s) { return s.rbegin().base(); }                                        \
    VF_E int const* P##_rend_c_base(F const& s) { return s.rend().base(); }                                            \
    VF_E void P##_ctor_cont(F* out, C const& c) { new (out) F(c); }                                                    \
    VF_E void P##_ctor_range(F* out, int const* f, int const* l) { new (out) F(f, l); }                                \
    VF_E void P##_ctor_sorted_unique_range(F* out, int const* f, int const* l) { new (out) F(etl::sorted_unique, f, l); } \
    VF_E bool P##_insert(F& s, int const& k, int** it) { auto r = s.insert(k); *it = r.first; return r.second; }       \
    VF_E bool P##_insert_rv(F& s, int k, int** it) { auto r = s.insert(etl::move(k)); *it = r.first; return r.second; } \
    VF_E bool P##_emplace(F& s, int k, int** it) { auto r = s.emplace(k); *it = r.first; return r.second; }            \
    VF_E int* P##_insert_hint(F& s, int const* pos, int const& k) { return s.insert(pos, k); }                         \
    VF_E int* P##_insert_hint_rv(F& s, int const* pos, int k) { return s.insert(pos, etl::move(k)); }                  \
    VF_E int* P##_emplace_hint(F& s, int const* pos, int k) { return s.emplace_hint(pos, k); }                         \
    VF_E void P##_insert_range(F& s, int const* f, int const* l) { s.insert(f, l); }                                   \
    VF_E void P##_replace(F& s, C& c) { s.replace(etl::move(c)); }                                                     \
    VF_E int* P##_erase_it(F& s, int* pos) { return s.erase(pos); }                                                    \
    VF_E int* P##_erase_cit(F& s, int const* pos) { return s.erase(pos); }                                             \
    VF_E int* P##_erase_range(F& s, int const* f, int const* l) { return s.erase(f, l); }                              \
    VF_E size_type P##_erase_key(F& s, int const& k) { return s.erase(k); }                                            \
    VF_E size_type P##_erase_if(F& s) { return etl::erase_if(s, is_odd{}); }                                         \
    VF_E void P##_swap(F& a, F& b) { a.swap(b); }                                                                      \
    VF_E void P##_swap_free(F& a, F& b) { swap(a, b); }                                                                \
    VF_E void P##_copy_ctor(F* out, F const& o) { new (out) F(o); }                                                    \
    VF_E void P##_copy_assign(F& a, F const& b) { a = b; }

using FSL = etl::flat_set<int, SV>;
using FSG = etl::flat_set<int, SV, etl::greater<int>>;
using FST = etl::flat_set<int, SV, etl::less<>>;
using FSI = etl::flat_set<int, IV>;
FS_LOOKUP_API(fs, FSL, SV)
FS_MOD_API(fs, FSL, SV)
FS_LOOKUP_API(fsg, FSG, SV)
FS_MOD_API(fsg, FSG, SV)
FS_LOOKUP_API(fst, FST, SV)
FS_MOD_API(fst, FST, SV)
FS_LOOKUP_API(fsi, FSI, IV)
// heterogeneous lookup (transparent comparator), key type long
VF_E int* fst_find_h(FST& s, long const& k) { return s.find(k); }
VF_E int const* fst_cfind_h(FST const& s, long const& k) { return s.find(k); }
VF_E bool fst_contains_h(FST const& s, long const& k) { return s.contains(k); }
VF_E size_type fst_count_h(FST const& s, long const& k) { return s.count(k); }
VF_E int* fst_lower_bound_h(FST& s, long const& k) { return s.lower_bound(k); }
VF_E int const* fst_clower_bound_h(FST const& s, long const& k) { return s.lower_bound(k); }
VF_E int* fst_upper_bound_h(FST& s, long const& k) { return s.upper_bound(k); }
VF_E int const* fst_cupper_bound_h(FST const& s, long const& k) { return s.upper_bound(k); }
VF_E void fst_equal_range_h(FST& s, long const& k, int** lo, int** hi) { auto r = s.equal_range(k); *lo = r.first; *hi = r.second; }
VF_E void fst_cequal_range_h(FST const& s, long const& k, int const** lo, int const** hi) { auto r = s.equal_range(k); *lo = r.first; *hi = r.second; }

// ---------------------------------------------------------------- flat_multiset: construction sorts
using FML = etl::flat_multiset<int, SV>;
using FMG = etl::flat_multiset<int, SV, etl::greater<int>>;
using FMI = etl::flat_multiset<int, IV>;
#define FM_API(P, F, C)                                                                                                \
    VF_E void P##_default(F* out) { new (out) F; }                                                                     \
    VF_E void P##_ctor_cont(F* out, C const& c) { new (out) F(c); }                                                    \
    VF_E void P##_ctor_sorted_equivalent(F* out, C const& c) { new (out) F(etl::sorted_equivalent, c); }               \
    VF_E int* P##_begin(F& s) { return s.begin(); }                                                                    \
    VF_E int* P##_end(F& s) { return s.end(); }                                                                        \
    VF_E int const* P##_cbegin(F const& s) { return s.cbegin(); }                                                      \
    VF_E int const* P##_cend(F const& s) { return s.cend(); }                                                          \
    VF_E size_type P##_size(F const& s) { return s.size(); }                                                           \
    VF_E size_type P##_max_size(F const& s) { return s.max_size(); }                                                   \
    VF_E bool P##_empty(F const& s) { return s.empty(); }
FM_API(fm, FML, SV)
FM_API(fmg, FMG, SV)
FM_API(fmi, FMI, IV)
}
