// driver: static_set / flat_set / flat_multiset at capacity VF_N, keys int (C09, C02)
// Besides etl::less<int> / etl::greater<int> / etl::less<> every set is also instantiated with an AUDITING comparator (aud_*): it
// hands the ADDRESSES of its two arguments to the ghost hook vf::g_cmp (declared here, defined in harness.c), which asserts that an
// address inside the set under test is a live element [begin, begin+size) - never the slot behind end() or a stale slot - and
// then answers like operator<.  flat_set is additionally instantiated over vf::fixed_vec, a trivially copyable container whose
// move leaves the source untouched (the adaptor must not rely on the container's move to empty it).
#include <etl/set.hpp>
#include <etl/flat_set.hpp>
#include <etl/vector.hpp>
#include <etl/inplace_vector.hpp>
#include <etl/functional.hpp>
#include <etl/iterator.hpp>
#include <etl/type_traits.hpp>
#include <etl/utility.hpp>
#include <etl/new.hpp>
#ifndef VF_N
#define VF_N 4
#endif
#define VF_E extern "C"
namespace vf {
using size_type = etl::size_t;
using SV = etl::static_vector<int, VF_N>;
using IV = etl::inplace_vector<int, VF_N>;
struct is_odd { auto operator()(int const& x) const -> bool { return (x & 1) != 0; } };

// ---------------------------------------------------------------- auditing comparators (ghost hooks: EXTERNAL, defined in harness.c)
bool g_cmp(int const* a, int const* b);     // audits both addresses, then *a < *b
bool g_cmp_li(long const* a, int const* b); // heterogeneous: key < element
bool g_cmp_il(int const* a, long const* b); // heterogeneous: element < key
struct aud_less { auto operator()(int const& a, int const& b) const -> bool { return g_cmp(&a, &b); } };
struct aud_greater { auto operator()(int const& a, int const& b) const -> bool { return g_cmp(&b, &a); } };
struct aud_less_t {
    using is_transparent = void;
    auto operator()(int const& a, int const& b) const -> bool { return g_cmp(&a, &b); }
    auto operator()(long const& a, int const& b) const -> bool { return g_cmp_li(&a, &b); }
    auto operator()(int const& a, long const& b) const -> bool { return g_cmp_il(&a, &b); }
};

// ---------------------------------------------------------------- second backing container for flat_set
// Fixed capacity, TRIVIALLY COPYABLE (like std::inplace_vector<int, N>): the implicit move constructor / assignment is a plain copy
// that leaves the source as it was.  size_type is size_t (static_vector / inplace_vector keep the size in one byte).  It offers
// exactly what [flat.set] asks of the adapted sequence container; emplace requires room (precondition, as for static_vector).
template <typename T, etl::size_t Cap>
struct fixed_vec {
    using value_type             = T;
    using size_type              = etl::size_t;
    using difference_type        = etl::ptrdiff_t;
    using reference              = T&;
    using const_reference        = T const&;
    using pointer                = T*;
    using const_pointer          = T const*;
    using iterator               = T*;
    using const_iterator         = T const*;
    using reverse_iterator       = etl::reverse_iterator<iterator>;
    using const_reverse_iterator = etl::reverse_iterator<const_iterator>;

    fixed_vec() = default;
    template <typename It>
    fixed_vec(It first, It last) { for (; first != last; ++first) { _data[_size] = *first; ++_size; } }

    auto begin() noexcept -> iterator { return _data; }
    auto begin() const noexcept -> const_iterator { return _data; }
    auto end() noexcept -> iterator { return _data + _size; }
    auto end() const noexcept -> const_iterator { return _data + _size; }
    auto rbegin() noexcept -> reverse_iterator { return reverse_iterator(end()); }
    auto rbegin() const noexcept -> const_reverse_iterator { return const_reverse_iterator(end()); }
    auto crbegin() const noexcept -> const_reverse_iterator { return const_reverse_iterator(end()); }
    auto rend() noexcept -> reverse_iterator { return reverse_iterator(begin()); }
    auto rend() const noexcept -> const_reverse_iterator { return const_reverse_iterator(begin()); }
    auto crend() const noexcept -> const_reverse_iterator { return const_reverse_iterator(begin()); }
    auto size() const noexcept -> size_type { return _size; }
    auto max_size() const noexcept -> size_type { return Cap; }
    auto empty() const noexcept -> bool { return _size == 0; }
    auto clear() noexcept -> void { _size = 0; }

    template <typename... Args>
    auto emplace(const_iterator pos, Args&&... args) -> iterator
    {
        auto const idx = static_cast<size_type>(pos - _data);
        auto value     = T(etl::forward<Args>(args)...);
        for (auto i = _size; i > idx; --i) { _data[i] = _data[i - 1]; }
        _data[idx] = value;
        ++_size;
        return _data + idx;
    }
    auto erase(const_iterator first, const_iterator last) -> iterator
    {
        auto const f = static_cast<size_type>(first - _data);
        auto const n = static_cast<size_type>(last - first);
        for (auto i = f; i + n < _size; ++i) { _data[i] = _data[i + n]; }
        _size -= n;
        return _data + f;
    }
    auto erase(const_iterator pos) -> iterator { return erase(pos, pos + 1); }

    T _data[Cap];
    size_type _size{0};
};
using FV = fixed_vec<int, VF_N>;
static_assert(etl::is_trivially_copyable_v<FV>);

// ---------------------------------------------------------------- static_set
#define SS_API(P, S)                                                                                                   \
    VF_E void P##_default(S* out) { new (out) S; }                                                                     \
    VF_E void P##_ctor_range(S* out, int const* f, int const* l) { new (out) S(f, l); }                                \
    VF_E void P##_copy_ctor(S* out, S const& o) { new (out) S(o); }                                                    \
    VF_E void P##_copy_assign(S& a, S const& b) { a = b; }                                                             \
    VF_E bool P##_insert(S& s, int const& k, int** it) { auto r = s.insert(k); *it = r.first; return r.second; }       \
    VF_E bool P##_insert_rv(S& s, int k, int** it) { auto r = s.insert(etl::move(k)); *it = r.first; return r.second; } \
    VF_E bool P##_emplace(S& s, int k, int** it) { auto r = s.emplace(k); *it = r.first; return r.second; }            \
    VF_E bool P##_emplace_cref(S& s, int const& k, int** it) { auto r = s.emplace(k); *it = r.first; return r.second; } \
    VF_E void P##_insert_range(S& s, int const* f, int const* l) { s.insert(f, l); }                                   \
    VF_E int* P##_erase_it(S& s, int* pos) { return s.erase(pos); }                                                    \
    VF_E int* P##_erase_range(S& s, int* f, int* l) { return s.erase(f, l); }                                          \
    VF_E size_type P##_erase_key(S& s, int const& k) { return s.erase(k); }                                            \
    VF_E void P##_clear(S& s) { s.clear(); }                                                                           \
    VF_E void P##_swap(S& a, S& b) { a.swap(b); }                                                                      \
    VF_E void P##_swap_free(S& a, S& b) { swap(a, b); }                                                                \
    VF_E int* P##_find(S& s, int const& k) { return s.find(k); }                                                       \
    VF_E int const* P##_cfind(S const& s, int const& k) { return s.find(k); }                                          \
    VF_E bool P##_contains(S const& s, int const& k) { return s.contains(k); }                                         \
    VF_E size_type P##_count(S const& s, int const& k) { return s.count(k); }                                          \
    VF_E int* P##_lower_bound(S& s, int const& k) { return s.lower_bound(k); }                                         \
    VF_E int const* P##_clower_bound(S const& s, int const& k) { return s.lower_bound(k); }                            \
    VF_E int* P##_upper_bound(S& s, int const& k) { return s.upper_bound(k); }                                         \
    VF_E int const* P##_cupper_bound(S const& s, int const& k) { return s.upper_bound(k); }                            \
    VF_E int* P##_begin(S& s) { return s.begin(); }                                                                    \
    VF_E int* P##_end(S& s) { return s.end(); }                                                                        \
    VF_E int const* P##_cbegin(S const& s) { return s.cbegin(); }                                                      \
    VF_E int const* P##_cend(S const& s) { return s.cend(); }                                                          \
    VF_E int* P##_rbegin_base(S& s) { return s.rbegin().base(); }                                                      \
    VF_E int* P##_rend_base(S& s) { return s.rend().base(); }                                                          \
    VF_E int const* P##_begin_c(S const& s) { return s.begin(); }                                                      \
    VF_E int const* P##_end_c(S const& s) { return s.end(); }                                                          \
    VF_E int const* P##_crbegin_base(S const& s) { return s.crbegin().base(); }                                        \
    VF_E int const* P##_crend_base(S const& s) { return s.crend().base(); }                                            \
    VF_E int const* P##_rbegin_c_base(S const& s) { return s.rbegin().base(); }                                        \
    VF_E int const* P##_rend_c_base(S const& s) { return s.rend().base(); }                                            \
    VF_E size_type P##_size(S const& s) { return s.size(); }                                                           \
    VF_E size_type P##_max_size(S const& s) { return s.max_size(); }                                                   \
    VF_E bool P##_empty(S const& s) { return s.empty(); }                                                              \
    VF_E bool P##_full(S const& s) { return s.full(); }                                                                \
    VF_E bool P##_eq(S const& a, S const& b) { return a == b; }                                                        \
    VF_E bool P##_ne(S const& a, S const& b) { return a != b; }                                                        \
    VF_E bool P##_lt(S const& a, S const& b) { return a < b; }                                                         \
    VF_E bool P##_le(S const& a, S const& b) { return a <= b; }                                                        \
    VF_E bool P##_gt(S const& a, S const& b) { return a > b; }                                                         \
    VF_E bool P##_ge(S const& a, S const& b) { return a >= b; }                                                        \
    VF_E bool P##_key_comp(S const& s, int const& a, int const& b) { return s.key_comp()(a, b) && s.value_comp()(a, b); }

using SSL = etl::static_set<int, VF_N>;
using SSG = etl::static_set<int, VF_N, etl::greater<int>>;
using SST = etl::static_set<int, VF_N, etl::less<>>;
SS_API(ss, SSL)
SS_API(ssg, SSG)
SS_API(sst, SST)
using SSA  = etl::static_set<int, VF_N, aud_less>;
using SSAG = etl::static_set<int, VF_N, aud_greater>;
using SSAT = etl::static_set<int, VF_N, aud_less_t>;
SS_API(ssa, SSA)
SS_API(ssag, SSAG)
SS_API(ssat, SSAT)
// heterogeneous lookup (transparent comparator), key type long
VF_E int* sst_find_h(SST& s, long const& k) { return s.find(k); }
VF_E int const* sst_cfind_h(SST const& s, long const& k) { return s.find(k); }
VF_E bool sst_contains_h(SST const& s, long const& k) { return s.contains(k); }
VF_E size_type sst_count_h(SST const& s, long const& k) { return s.count(k); }
VF_E int* sst_lower_bound_h(SST& s, long const& k) { return s.lower_bound(k); }
VF_E int const* sst_clower_bound_h(SST const& s, long const& k) { return s.lower_bound(k); }
VF_E int* sst_upper_bound_h(SST& s, long const& k) { return s.upper_bound(k); }
VF_E int const* sst_cupper_bound_h(SST const& s, long const& k) { return s.upper_bound(k); }
VF_E int* ssat_find_h(SSAT& s, long const& k) { return s.find(k); }
VF_E int const* ssat_cfind_h(SSAT const& s, long const& k) { return s.find(k); }
VF_E bool ssat_contains_h(SSAT const& s, long const& k) { return s.contains(k); }
VF_E size_type ssat_count_h(SSAT const& s, long const& k) { return s.count(k); }
VF_E int* ssat_lower_bound_h(SSAT& s, long const& k) { return s.lower_bound(k); }
VF_E int const* ssat_clower_bound_h(SSAT const& s, long const& k) { return s.lower_bound(k); }
VF_E int* ssat_upper_bound_h(SSAT& s, long const& k) { return s.upper_bound(k); }
VF_E int const* ssat_cupper_bound_h(SSAT const& s, long const& k) { return s.upper_bound(k); }

// ---------------------------------------------------------------- flat_set: lookups and observers (every container)
#define FS_LOOKUP_API(P, F, C)                                                                                         \
    VF_E void P##_default(F* out) { new (out) F; }                                                                     \
    VF_E void P##_ctor_sorted_unique(F* out, C const& c) { new (out) F(etl::sorted_unique, c); }                       \
    VF_E void P##_extract(C* out, F& s) { new (out) C(etl::move(s).extract()); }                                       \
    VF_E void P##_clear(F& s) { s.clear(); }                                                                           \
    VF_E int* P##_find(F& s, int const& k) { return s.find(k); }                                                       \
    VF_E int const* P##_cfind(F const& s, int const& k) { return s.find(k); }                                          \
    VF_E bool P##_contains(F const& s, int const& k) { return s.contains(k); }                                         \
    VF_E size_type P##_count(F const& s, int const& k) { return s.count(k); }                                          \
    VF_E int* P##_lower_bound(F& s, int const& k) { return s.lower_bound(k); }                                         \
    VF_E int const* P##_clower_bound(F const& s, int const& k) { return s.lower_bound(k); }                            \
    VF_E int* P##_upper_bound(F& s, int const& k) { return s.upper_bound(k); }                                         \
    VF_E int const* P##_cupper_bound(F const& s, int const& k) { return s.upper_bound(k); }                            \
    VF_E void P##_equal_range(F& s, int const& k, int** lo, int** hi) { auto r = s.equal_range(k); *lo = r.first; *hi = r.second; } \
    VF_E void P##_cequal_range(F const& s, int const& k, int const** lo, int const** hi) { auto r = s.equal_range(k); *lo = r.first; *hi = r.second; } \
    VF_E int* P##_begin(F& s) { return s.begin(); }                                                                    \
    VF_E int* P##_end(F& s) { return s.end(); }                                                                        \
    VF_E int const* P##_cbegin(F const& s) { return s.cbegin(); }                                                      \
    VF_E int const* P##_cend(F const& s) { return s.cend(); }                                                          \
    VF_E size_type P##_size(F const& s) { return s.size(); }                                                           \
    VF_E size_type P##_max_size(F const& s) { return s.max_size(); }                                                   \
    VF_E bool P##_empty(F const& s) { return s.empty(); }                                                              \
    VF_E bool P##_eq(F const& a, F const& b) { return a == b; }                                                        \
    VF_E bool P##_ne(F const& a, F const& b) { return a != b; }                                                        \
    VF_E bool P##_lt(F const& a, F const& b) { return a < b; }                                                         \
    VF_E bool P##_le(F const& a, F const& b) { return a <= b; }                                                        \
    VF_E bool P##_gt(F const& a, F const& b) { return a > b; }                                                         \
    VF_E bool P##_ge(F const& a, F const& b) { return a >= b; }                                                        \
    VF_E bool P##_key_comp(F const& s, int const& a, int const& b) { return s.key_comp()(a, b) && s.value_comp()(a, b); }

// modifiers: need Container::emplace(pos, x), erase, assignment -> static_vector only
#define FS_MOD_API(P, F, C)                                                                                            \
    VF_E int* P##_rbegin_base(F& s) { return s.rbegin().base(); }                                                      \
    VF_E int* P##_rend_base(F& s) { return s.rend().base(); }                                                          \
    VF_E int const* P##_crbegin_base(F const& s) { return s.crbegin().base(); }                                        \
    VF_E int const* P##_crend_base(F const& s) { return s.crend().base(); }                                            \
    VF_E int const* P##_rbegin_c_base(F const& s) { return s.rbegin().base(); }                                        \
    VF_E int const* P##_rend_c_base(F const& s) { return s.rend().base(); }                                            \
    VF_E void P##_ctor_cont(F* out, C const& c) { new (out) F(c); }                                                    \
    VF_E void P##_ctor_range(F* out, int const* f, int const* l) { new (out) F(f, l); }                                \
    VF_E void P##_ctor_sorted_unique_range(F* out, int const* f, int const* l) { new (out) F(etl::sorted_unique, f, l); } \
    VF_E bool P##_insert(F& s, int const& k, int** it) { auto r = s.insert(k); *it = r.first; return r.second; }       \
    VF_E bool P##_insert_rv(F& s, int k, int** it) { auto r = s.insert(etl::move(k)); *it = r.first; return r.second; } \
    VF_E bool P##_emplace(F& s, int k, int** it) { auto r = s.emplace(k); *it = r.first; return r.second; }            \
    VF_E bool P##_emplace_cref(F& s, int const& k, int** it) { auto r = s.emplace(k); *it = r.first; return r.second; } \
    VF_E int* P##_emplace_hint_cref(F& s, int const* pos, int const& k) { return s.emplace_hint(pos, k); }             \
    VF_E int* P##_insert_hint(F& s, int const* pos, int const& k) { return s.insert(pos, k); }                         \
    VF_E int* P##_insert_hint_rv(F& s, int const* pos, int k) { return s.insert(pos, etl::move(k)); }                  \
    VF_E int* P##_emplace_hint(F& s, int const* pos, int k) { return s.emplace_hint(pos, k); }                         \
    VF_E void P##_insert_range(F& s, int const* f, int const* l) { s.insert(f, l); }                                   \
    VF_E void P##_replace(F& s, C& c) { s.replace(etl::move(c)); }                                                     \
    VF_E int* P##_erase_it(F& s, int* pos) { return s.erase(pos); }                                                    \
    VF_E int* P##_erase_cit(F& s, int const* pos) { return s.erase(pos); }                                             \
    VF_E int* P##_erase_range(F& s, int const* f, int const* l) { return s.erase(f, l); }                              \
    VF_E size_type P##_erase_key(F& s, int const& k) { return s.erase(k); }                                            \
    VF_E size_type P##_erase_if(F& s) { return etl::erase_if(s, is_odd{}); }                                         \
    VF_E void P##_swap(F& a, F& b) { a.swap(b); }                                                                      \
    VF_E void P##_swap_free(F& a, F& b) { swap(a, b); }                                                                \
    VF_E void P##_copy_ctor(F* out, F const& o) { new (out) F(o); }                                                    \
    VF_E void P##_copy_assign(F& a, F const& b) { a = b; }

using FSL = etl::flat_set<int, SV>;
using FSG = etl::flat_set<int, SV, etl::greater<int>>;
using FST = etl::flat_set<int, SV, etl::less<>>;
using FSI = etl::flat_set<int, IV>;
FS_LOOKUP_API(fs, FSL, SV)
FS_MOD_API(fs, FSL, SV)
FS_LOOKUP_API(fsg, FSG, SV)
FS_MOD_API(fsg, FSG, SV)
FS_LOOKUP_API(fst, FST, SV)
FS_MOD_API(fst, FST, SV)
FS_LOOKUP_API(fsi, FSI, IV)
using FSA  = etl::flat_set<int, SV, aud_less>;
using FSAG = etl::flat_set<int, SV, aud_greater>;
using FSAT = etl::flat_set<int, SV, aud_less_t>;
using FIA  = etl::flat_set<int, IV, aud_less>;
using FVA  = etl::flat_set<int, FV, aud_less>; // the second container: complete API
FS_LOOKUP_API(fsa, FSA, SV)
FS_MOD_API(fsa, FSA, SV)
FS_LOOKUP_API(fsag, FSAG, SV)
FS_MOD_API(fsag, FSAG, SV)
FS_LOOKUP_API(fsat, FSAT, SV)
FS_MOD_API(fsat, FSAT, SV)
FS_LOOKUP_API(fia, FIA, IV)
FS_LOOKUP_API(fv, FVA, FV)
FS_MOD_API(fv, FVA, FV)
// heterogeneous lookup (transparent comparator), key type long
VF_E int* fst_find_h(FST& s, long const& k) { return s.find(k); }
VF_E int const* fst_cfind_h(FST const& s, long const& k) { return s.find(k); }
VF_E bool fst_contains_h(FST const& s, long const& k) { return s.contains(k); }
VF_E size_type fst_count_h(FST const& s, long const& k) { return s.count(k); }
VF_E int* fst_lower_bound_h(FST& s, long const& k) { return s.lower_bound(k); }
VF_E int const* fst_clower_bound_h(FST const& s, long const& k) { return s.lower_bound(k); }
VF_E int* fst_upper_bound_h(FST& s, long const& k) { return s.upper_bound(k); }
VF_E int const* fst_cupper_bound_h(FST const& s, long const& k) { return s.upper_bound(k); }
VF_E void fst_equal_range_h(FST& s, long const& k, int** lo, int** hi) { auto r = s.equal_range(k); *lo = r.first; *hi = r.second; }
VF_E void fst_cequal_range_h(FST const& s, long const& k, int const** lo, int const** hi) { auto r = s.equal_range(k); *lo = r.first; *hi = r.second; }
VF_E int* fsat_find_h(FSAT& s, long const& k) { return s.find(k); }
VF_E int const* fsat_cfind_h(FSAT const& s, long const& k) { return s.find(k); }
VF_E bool fsat_contains_h(FSAT const& s, long const& k) { return s.contains(k); }
VF_E size_type fsat_count_h(FSAT const& s, long const& k) { return s.count(k); }
VF_E int* fsat_lower_bound_h(FSAT& s, long const& k) { return s.lower_bound(k); }
VF_E int const* fsat_clower_bound_h(FSAT const& s, long const& k) { return s.lower_bound(k); }
VF_E int* fsat_upper_bound_h(FSAT& s, long const& k) { return s.upper_bound(k); }
VF_E int const* fsat_cupper_bound_h(FSAT const& s, long const& k) { return s.upper_bound(k); }
VF_E void fsat_equal_range_h(FSAT& s, long const& k, int** lo, int** hi) { auto r = s.equal_range(k); *lo = r.first; *hi = r.second; }
VF_E void fsat_cequal_range_h(FSAT const& s, long const& k, int const** lo, int const** hi) { auto r = s.equal_range(k); *lo = r.first; *hi = r.second; }

// ---------------------------------------------------------------- flat_multiset: construction sorts
using FML = etl::flat_multiset<int, SV>;
using FMG = etl::flat_multiset<int, SV, etl::greater<int>>;
using FMI = etl::flat_multiset<int, IV>;
#define FM_API(P, F, C)                                                                                                \
    VF_E void P##_default(F* out) { new (out) F; }                                                                     \
    VF_E void P##_ctor_cont(F* out, C const& c) { new (out) F(c); }                                                    \
    VF_E void P##_ctor_sorted_equivalent(F* out, C const& c) { new (out) F(etl::sorted_equivalent, c); }               \
    VF_E int* P##_begin(F& s) { return s.begin(); }                                                                    \
    VF_E int* P##_end(F& s) { return s.end(); }                                                                        \
    VF_E int const* P##_cbegin(F const& s) { return s.cbegin(); }                                                      \
    VF_E int const* P##_cend(F const& s) { return s.cend(); }                                                          \
    VF_E size_type P##_size(F const& s) { return s.size(); }                                                           \
    VF_E size_type P##_max_size(F const& s) { return s.max_size(); }                                                   \
    VF_E bool P##_empty(F const& s) { return s.empty(); }
FM_API(fm, FML, SV)
FM_API(fmg, FMG, SV)
FM_API(fmi, FMI, IV)
using FMA = etl::flat_multiset<int, SV, aud_less>;
using FMV = etl::flat_multiset<int, FV, aud_greater>;
FM_API(fma, FMA, SV)
FM_API(fmv, FMV, FV)
}
