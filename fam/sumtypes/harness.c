/* sumtypes: optional<int>, optional<long>, variant<int,char,long>, variant<monostate,int>, expected<int,char>, unexpected<char>;
 * repeated alternative types (variant<int,int>, variant<unsigned,float,unsigned>, expected<int,int>), variant<int>, optional<bool>, optional<P2>
 * against the std semantics tables ([optional.*], [variant.*], [expected.object.*]) — C07; contract checks of the unchecked accessors — C05.
 * Every harness starts from ARBITRARY well-formed objects (all bytes symbolic, constrained by wf only), so every (from-state, to-state)
 * pair of indices is inside the symbolic domain.
 * view(x) = (index of the active alternative, its value widened to long; 0 for the empty alternatives nullopt_t / monostate);
 * wf(x)   = index < number of alternatives.  optional: index 0 = disengaged, 1 = engaged.  expected: 0 = value, 1 = error. */
typedef struct etl_optional_int OI;
typedef struct etl_optional_long OL;
typedef struct etl_variant_int_char_long VT;
typedef struct etl_variant_etl_monostate_int VM;
typedef struct etl_expected_int_char EX;
typedef struct etl_expected_long_char EL;
typedef struct etl_unexpected_char UX;
typedef struct etl_unexpected_int UI;
typedef struct vf_log_t LOG;
typedef struct etl_variant_int_int VD;
typedef struct etl_variant_unsignedint_float_unsignedint VU;
typedef struct etl_variant_int V1;
typedef struct etl_expected_int_int EI;
typedef struct etl_expected_long_int ELI;
typedef struct etl_optional_bool OB;
typedef struct vf_P2 P2;
typedef struct etl_optional_vf_P2 OP;
typedef struct vf_flog_t FLOG;
typedef struct { unsigned idx; long val; } view_t;

#define O_IDX(o) ((o)._var._index)
#define O_VAL(o) ((o)._var._union.tail.head)
#define O_WF(o) (O_IDX(o) <= 1)
#define V_IDX(v) ((v)._index)
#define V_A0(v) ((v)._union.head)
#define V_A1(v) ((v)._union.tail.head)
#define V_A2(v) ((v)._union.tail.tail.head)
#define VT_WF(v) (V_IDX(v) <= 2)
#define VM_WF(v) (V_IDX(v) <= 1)
#define E_IDX(e) ((e)._u._index)
#define E_VAL(e) ((e)._u._union.head)
#define E_ERR(e) ((e)._u._union.tail.head)
#define E_WF(e) (E_IDX(e) <= 1)
#define VD_WF(v) (V_IDX(v) <= 1)
#define VU_WF(v) (V_IDX(v) <= 2)
#define V1_WF(v) (V_IDX(v) == 0)
#define OB_WF(o) (O_IDX(o) <= 1 && *(const unsigned char *)&O_VAL(o) <= 1)   /* a _Bool object holds 0 or 1 */

static view_t mk(unsigned idx, long val) { view_t w; w.idx = idx; w.val = val; return w; }
static view_t oi_view(const OI *o) { return mk(O_IDX(*o), O_IDX(*o) == 1 ? (long)O_VAL(*o) : 0L); }
static view_t ol_view(const OL *o) { return mk(O_IDX(*o), O_IDX(*o) == 1 ? O_VAL(*o) : 0L); }
static view_t vt_view(const VT *v) { return mk(V_IDX(*v), V_IDX(*v) == 0 ? (long)V_A0(*v) : (V_IDX(*v) == 1 ? (long)V_A1(*v) : V_A2(*v))); }
static view_t vm_view(const VM *v) { return mk(V_IDX(*v), V_IDX(*v) == 1 ? (long)V_A1(*v) : 0L); }
static view_t ex_view(const EX *e) { return mk(E_IDX(*e), E_IDX(*e) == 0 ? (long)E_VAL(*e) : (long)E_ERR(*e)); }
static view_t el_view(const EL *e) { return mk(E_IDX(*e), E_IDX(*e) == 0 ? E_VAL(*e) : (long)E_ERR(*e)); }
/* repeated alternative types: the view is (index, value) all the same - two alternatives of the same type are told apart by the index only.
 * floats are viewed as their bit pattern (copies preserve NaN payloads and the sign of zero) */
static unsigned fbits(float f) { union { float f; unsigned u; } c; c.f = f; return c.u; }
static float bits2f(unsigned u) { union { float f; unsigned u; } c; c.u = u; return c.f; }
static view_t vd_view(const VD *v) { return mk(V_IDX(*v), V_IDX(*v) == 0 ? (long)V_A0(*v) : (long)V_A1(*v)); }
static view_t vu_view(const VU *v) { return mk(V_IDX(*v), V_IDX(*v) == 0 ? (long)V_A0(*v) : (V_IDX(*v) == 1 ? (long)fbits(V_A1(*v)) : (long)V_A2(*v))); }
static view_t v1_view(const V1 *v) { return mk(V_IDX(*v), (long)V_A0(*v)); }
static view_t ei_view(const EI *e) { return mk(E_IDX(*e), E_IDX(*e) == 0 ? (long)E_VAL(*e) : (long)E_ERR(*e)); }
static view_t eli_view(const ELI *e) { return mk(E_IDX(*e), E_IDX(*e) == 0 ? E_VAL(*e) : (long)E_ERR(*e)); }
static view_t ob_view(const OB *o) { return mk(O_IDX(*o), O_IDX(*o) == 1 ? (long)O_VAL(*o) : 0L); }
static view_t op_view(const OP *o) { return mk(O_IDX(*o), O_IDX(*o) == 1 ? (long)O_VAL(*o).a * 65536L + (long)(unsigned short)O_VAL(*o).b : 0L); }
static view_t p2_view(const P2 *p) { return mk(1, (long)p->a * 65536L + (long)(unsigned short)p->b); }
static _Bool view_eq(view_t a, view_t b) { return a.idx == b.idx && a.val == b.val; }
/* reference ordering of [optional.relops] / [variant.relops]: by index, then by the value of the common alternative */
static int sp_cmp(view_t a, view_t b) { if (a.idx != b.idx) return a.idx < b.idx ? -1 : 1; return a.val < b.val ? -1 : (a.val > b.val ? 1 : 0); }
/* the six relations as a bit mask (== 1, != 2, < 4, <= 8, > 16, >= 32): of a total order with three-way result c; of two floats (partial order) */
static unsigned sp_rel6(int c) { return c < 0 ? (2U | 4U | 8U) : (c > 0 ? (2U | 16U | 32U) : (1U | 8U | 32U)); }
static unsigned sp_rel6_f(float a, float b) { return (a == b ? 1U : 0U) | (a != b ? 2U : 0U) | (a < b ? 4U : 0U) | (a <= b ? 8U : 0U) | (a > b ? 16U : 0U) | (a >= b ? 32U : 0U); }

/* snapshot for C05: a violated precondition must be detected before the object is touched */
enum { K_OI, K_VT, K_EX, K_VD, K_EI };
view_t vf_snap; int vf_snap_kind; void *vf_snap_of;
static view_t view_kind(int k, void *p) { return k == K_OI ? oi_view((const OI *)p) : (k == K_VT ? vt_view((const VT *)p) : (k == K_EX ? ex_view((const EX *)p) : (k == K_VD ? vd_view((const VD *)p) : ei_view((const EI *)p)))); }
#define VF_HANDLER_CHECK() do { if (vf_snap_of) __CPROVER_assert(view_eq(view_kind(vf_snap_kind, vf_snap_of), vf_snap), "C05: the object is unmodified when the assertion handler runs"); } while (0)
#define EXPECT_VIOLATION(kind, v) do { vf_expect_handler = 1; vf_snap_kind = (kind); vf_snap_of = &(v); vf_snap = view_kind((kind), &(v)); } while (0)
#include "vf_handler.h"

/* arbitrary well-formed objects are assembled from SCALAR inputs (index, bytes of the widest alternative): the trace of a symbolic union names
 * one member only, which loses the other alternatives in the native replay. Padding and the bytes outside the active alternative stay arbitrary. */
#define ARB_OI(o) VF_INPUT(unsigned char, o##_i); VF_INPUT(int, o##_w); OI o; __CPROVER_assume(o##_i <= 1); O_IDX(o) = o##_i; O_VAL(o) = o##_w
#define ARB_OL(o) VF_INPUT(unsigned char, o##_i); VF_INPUT(long, o##_w); OL o; __CPROVER_assume(o##_i <= 1); O_IDX(o) = o##_i; O_VAL(o) = o##_w
#define ARB_VT(v) VF_INPUT(unsigned char, v##_i); VF_INPUT(long, v##_w); VT v; __CPROVER_assume(v##_i <= 2); V_IDX(v) = v##_i; V_A2(v) = v##_w   /* int and char alternatives: the low bytes */
#define ARB_VM(v) VF_INPUT(unsigned char, v##_i); VF_INPUT(int, v##_w); VM v; __CPROVER_assume(v##_i <= 1); V_IDX(v) = v##_i; V_A1(v) = v##_w
#define ARB_EX(e) VF_INPUT(unsigned char, e##_i); VF_INPUT(int, e##_w); EX e; __CPROVER_assume(e##_i <= 1); E_IDX(e) = e##_i; E_VAL(e) = e##_w   /* char error: the low byte */
#define ARB_LOG(l) VF_INPUT(LOG, l); l.calls = 0
#define ARB_VD(v) VF_INPUT(unsigned char, v##_i); VF_INPUT(int, v##_w); VD v; __CPROVER_assume(v##_i <= 1); V_IDX(v) = v##_i; V_A0(v) = v##_w
#define ARB_VU(v) VF_INPUT(unsigned char, v##_i); VF_INPUT(unsigned, v##_w); VU v; __CPROVER_assume(v##_i <= 2); V_IDX(v) = v##_i; V_A0(v) = v##_w   /* all three alternatives are 4 bytes at offset 0 */
#define ARB_V1(v) VF_INPUT(int, v##_w); V1 v; V_IDX(v) = 0; V_A0(v) = v##_w
#define ARB_EI(e) VF_INPUT(unsigned char, e##_i); VF_INPUT(int, e##_w); EI e; __CPROVER_assume(e##_i <= 1); E_IDX(e) = e##_i; E_VAL(e) = e##_w
#define ARB_OB(o) VF_INPUT(unsigned char, o##_i); VF_INPUT_BOOL(o##_v); OB o; __CPROVER_assume(o##_i <= 1); O_IDX(o) = o##_i; O_VAL(o) = o##_v
#define ARB_OP(o) VF_INPUT(unsigned char, o##_i); VF_INPUT(P2, o##_v); OP o; __CPROVER_assume(o##_i <= 1); O_IDX(o) = o##_i; O_VAL(o) = o##_v
#define ARB_FLOG(l) VF_INPUT(FLOG, l); l.calls = 0
#define ARB_FLOAT(f) VF_INPUT(unsigned, f##_bits); float f = bits2f(f##_bits)   /* every bit pattern: NaNs, infinities, signed zeros */
#define REL6(pfx, A, B, c, what) VF_ASSERT(pfx##_eq(A, B) == ((c) == 0) && pfx##_ne(A, B) == ((c) != 0) && pfx##_lt(A, B) == ((c) < 0) && pfx##_le(A, B) == ((c) <= 0) && pfx##_gt(A, B) == ((c) > 0) && pfx##_ge(A, B) == ((c) >= 0), what)

/* ======================================================================================================= optional */
/*@GROUP name=opt_ctor props=C07,C02,C05 kind=F@*/
void h_opt_ctor(void) { VF_INPUT(OI, o); VF_INPUT(OL, l); /* indeterminate storage */ VF_INPUT(unsigned char, which); VF_INPUT(int, x); VF_INPUT(short, s); VF_INPUT(char, c);
  view_t e;
  if (which == 0) { oi_default(&o); e = mk(0, 0); } else if (which == 1) { oi_value_init(&o); e = mk(0, 0); } else if (which == 2) { oi_nullopt(&o); e = mk(0, 0); }
  else if (which == 3) { oi_value(&o, &x); e = mk(1, x); } else if (which == 4) { oi_value_rv(&o, x); e = mk(1, x); } else if (which == 5) { oi_inplace(&o, x); e = mk(1, x); }
  else if (which == 6) { oi_make(&o, x); e = mk(1, x); } else if (which == 7) { oi_make_t(&o, s); e = mk(1, s); } else if (which == 8) { oi_from_short(&o, s); e = mk(1, s); }
  else if (which == 9) { oi_from_char(&o, c); e = mk(1, c); } else { ol_from_int(&l, x); VF_ASSERT(O_WF(l) && view_eq(ol_view(&l), mk(1, x)), "optional<long>(int): engaged with the converted value"); oi_default(&o); e = mk(0, 0); }
  VF_ASSERT(O_WF(o) && view_eq(oi_view(&o), e), "optional(): disengaged for default/nullopt; engaged with the (converted) argument for value/in_place/make_optional");
  VF_ASSERT(oi_has_value(&o) == (e.idx == 1), "has_value after construction"); VF_REACH(); }

/*@GROUP name=opt_copy_move props=C07,C02,C05 kind=F@*/
void h_opt_copy_move(void) { ARB_OI(s); VF_INPUT(OI, t); VF_INPUT(unsigned char, which); view_t os = oi_view(&s); OI *r = &t;
  if (which == 0) oi_copy_ctor(&t, &s); else if (which == 1) oi_move_ctor(&t, &s);
  else if (which == 2) { __CPROVER_assume(O_WF(t)); r = oi_copy_assign(&t, &s); } else { __CPROVER_assume(O_WF(t)); r = oi_move_assign(&t, &s); }
  VF_ASSERT(O_WF(t) && view_eq(oi_view(&t), os), "optional copy/move construction and assignment, all four (engaged,engaged) state pairs: target view == source view");
  VF_ASSERT(r == &t, "assignment returns *this");
  VF_ASSERT(O_WF(s) && view_eq(oi_view(&s), os), "copy leaves the source unchanged; move leaves has_value() unchanged (int: value too)"); VF_REACH(); }

/*@GROUP name=opt_self_assign props=C07,C02,C05 kind=F@*/
void h_opt_self_assign(void) { ARB_OI(s); VF_INPUT_BOOL(mv); view_t os = oi_view(&s); OI *r = mv ? oi_move_assign(&s, &s) : oi_copy_assign(&s, &s);
  VF_ASSERT(r == &s && O_WF(s) && view_eq(oi_view(&s), os), "optional self-assignment keeps the view"); VF_REACH(); }

/*@GROUP name=opt_convert props=C07,C02,C05 kind=F@*/
void h_opt_convert(void) { ARB_OI(i); ARB_OL(l); VF_INPUT(OI, ti); VF_INPUT(OL, tl); VF_INPUT(unsigned char, which); view_t vi = oi_view(&i), vl = ol_view(&l);
  view_t nl = mk(vl.idx, (long)(int)vl.val); /* optional<int>(optional<long>): direct-initialisation int(long) */
  if (which == 0) { oi_from_ol(&ti, &l); VF_ASSERT(O_WF(ti) && view_eq(oi_view(&ti), nl), "optional<int>(optional<long> const&)"); }
  else if (which == 1) { oi_from_ol_rv(&ti, &l); VF_ASSERT(O_WF(ti) && view_eq(oi_view(&ti), nl), "optional<int>(optional<long>&&)"); }
  else if (which == 2) { ol_from_oi(&tl, &i); VF_ASSERT(O_WF(tl) && view_eq(ol_view(&tl), vi), "optional<long>(optional<int> const&)"); }
  else if (which == 3) { ol_from_oi_rv(&tl, &i); VF_ASSERT(O_WF(tl) && view_eq(ol_view(&tl), vi), "optional<long>(optional<int>&&)"); }
  else if (which == 4) { __CPROVER_assume(O_WF(ti)); OI *r = oi_assign_ol(&ti, &l); VF_ASSERT(r == &ti && O_WF(ti) && view_eq(oi_view(&ti), nl), "optional<int> = optional<long> const&, all state pairs"); }
  else if (which == 5) { __CPROVER_assume(O_WF(ti)); OI *r = oi_assign_ol_rv(&ti, &l); VF_ASSERT(r == &ti && O_WF(ti) && view_eq(oi_view(&ti), nl), "optional<int> = optional<long>&&, all state pairs"); }
  else if (which == 6) { __CPROVER_assume(O_WF(tl)); OL *r = ol_assign_oi(&tl, &i); VF_ASSERT(r == &tl && O_WF(tl) && view_eq(ol_view(&tl), vi), "optional<long> = optional<int> const&, all state pairs"); }
  else { __CPROVER_assume(O_WF(tl)); OL *r = ol_assign_oi_rv(&tl, &i); VF_ASSERT(r == &tl && O_WF(tl) && view_eq(ol_view(&tl), vi), "optional<long> = optional<int>&&, all state pairs"); }
  VF_ASSERT(view_eq(oi_view(&i), vi) && view_eq(ol_view(&l), vl), "converting copy/move leaves the source state unchanged"); VF_REACH(); }

/*@GROUP name=opt_assign_value props=C07,C02,C05 kind=F@*/
void h_opt_assign_value(void) { ARB_OI(a); ARB_OL(l); VF_INPUT(unsigned char, which); VF_INPUT(int, x); VF_INPUT(short, s); view_t e; OI *r = &a;
  if (which == 0) { r = oi_assign_value(&a, &x); e = mk(1, x); } else if (which == 1) { r = oi_assign_value_rv(&a, x); e = mk(1, x); } else if (which == 2) { r = oi_assign_short(&a, s); e = mk(1, s); }
  else if (which == 3) { int *p = oi_emplace(&a, x); e = mk(1, x); VF_ASSERT(p == &O_VAL(a), "emplace returns a reference to the new contained value"); }
  else if (which == 4) { r = oi_assign_nullopt(&a); e = mk(0, 0); } else if (which == 5) { oi_reset(&a); e = mk(0, 0); } else if (which == 8) { r = oi_assign_braces(&a); e = mk(0, 0); }
  else if (which == 6) { OL *q = ol_assign_int(&l, x); VF_ASSERT(q == &l && O_WF(l) && view_eq(ol_view(&l), mk(1, x)), "optional<long> = int: engaged with the converted value"); e = oi_view(&a); }
  else { long *p = ol_emplace_short(&l, s); VF_ASSERT(p == &O_VAL(l) && O_WF(l) && view_eq(ol_view(&l), mk(1, s)), "optional<long>::emplace(short)"); e = oi_view(&a); }
  VF_ASSERT(r == &a && O_WF(a) && view_eq(oi_view(&a), e), "o = value / emplace: engaged with the value from both states; o = nullopt / reset: disengaged from both states"); VF_REACH(); }

/*@GROUP name=opt_swap props=C07,C02,C05 kind=F@*/
void h_opt_swap(void) { ARB_OI(a); ARB_OI(b); VF_INPUT(unsigned char, which); view_t oa = oi_view(&a), ob = oi_view(&b);
  if (which == 0) oi_swap(&a, &b); else if (which == 1) oi_swap_free(&a, &b); else { oi_swap(&a, &a); ob = oa; oa = oi_view(&b); }
  VF_ASSERT(O_WF(a) && O_WF(b) && view_eq(oi_view(&a), ob) && view_eq(oi_view(&b), oa), "optional swap (member, free, self) exchanges the two views in all four state pairs"); VF_REACH(); }

/*@GROUP name=opt_observers props=C07,C02,C05 kind=F@*/
void h_opt_observers(void) { ARB_OI(o); ARB_OL(l); VF_INPUT(int, d); VF_INPUT(short, s); view_t v = oi_view(&o), vl = ol_view(&l); _Bool en = v.idx == 1;
  VF_ASSERT(oi_has_value(&o) == en && oi_bool(&o) == en && ol_has_value(&l) == (vl.idx == 1), "has_value / operator bool follow the engaged flag");
  VF_ASSERT(oi_arrow(&o) == (en ? &O_VAL(o) : (int *)0) && oi_carrow(&o) == (en ? &O_VAL(o) : (int *)0), "operator-> addresses the contained value (documented: null if empty)");
  if (en) VF_ASSERT(oi_deref(&o) == &O_VAL(o) && oi_cderef(&o) == &O_VAL(o) && oi_deref_rv(&o) == &O_VAL(o) && oi_cderef_rv(&o) == &O_VAL(o), "operator* (all four ref-qualified forms) refers to the contained value");
  VF_ASSERT(oi_value_or(&o, d) == (en ? (int)v.val : d) && oi_value_or_rv(&o, d) == (en ? (int)v.val : d) && oi_value_or_short(&o, s) == (en ? (int)v.val : (int)s), "value_or: contained value if engaged, else the converted default");
  VF_ASSERT(ol_value_or_int(&l, d) == (vl.idx == 1 ? vl.val : (long)d), "optional<long>::value_or(int)");
  if (en) VF_ASSERT(oi_hash(&o) == int_hash((int)v.val), "hash<optional<T>>(o) == hash<T>(*o) for an engaged optional");
  VF_ASSERT(view_eq(oi_view(&o), v), "observers do not modify the object"); VF_REACH(); }

/*@GROUP name=opt_monadic props=C07,C02,C05 kind=F@*/
void h_opt_monadic(void) { ARB_OI(o); VF_INPUT(OL, r); VF_INPUT(OI, q); ARB_LOG(lg); VF_INPUT(unsigned char, which); VF_INPUT(int, fv); VF_INPUT_BOOL(fe); view_t v = oi_view(&o); _Bool en = v.idx == 1;
  if (which <= 3) { if (which == 0) oi_and_then(&r, &o, &lg); else if (which == 1) oi_and_then_c(&r, &o, &lg); else if (which == 2) oi_and_then_rv(&r, &o, &lg); else oi_and_then_crv(&r, &o, &lg);
    VF_ASSERT(lg.calls == (en ? 1 : 0) && (!en || lg.arg == v.val), "and_then calls f exactly once with the contained value iff engaged");
    VF_ASSERT(O_WF(r) && view_eq(ol_view(&r), en && (v.val & 1) == 0 ? mk(1, 3L * v.val + 1L) : mk(0, 0)), "and_then returns f(*o) unchanged if engaged, an empty optional otherwise"); }
  else { if (which == 4) oi_or_else(&q, &o, &lg, fv, fe); else oi_or_else_rv(&q, &o, &lg, fv, fe);
    VF_ASSERT(lg.calls == (en ? 0 : 1), "or_else calls f exactly once iff disengaged");
    VF_ASSERT(O_WF(q) && view_eq(oi_view(&q), en ? v : (fe ? mk(1, fv) : mk(0, 0))), "or_else returns *this if engaged, f() otherwise"); }
  VF_ASSERT(view_eq(oi_view(&o), v), "monadic operations leave the object unchanged (int)"); VF_REACH(); }

/*@GROUP name=optl props=C07,C02,C05 kind=F@*/
void h_optl(void) { ARB_OL(a); ARB_OL(b); VF_INPUT(OL, t); VF_INPUT(unsigned char, which); VF_INPUT(long, x); view_t oa = ol_view(&a), ob = ol_view(&b); int c = sp_cmp(oa, ob);
  REL6(ol, &a, &b, c, "optional<long> relational operators in all four engaged/empty operand forms");
  VF_ASSERT(ol_carrow(&a) == (oa.idx == 1 ? &O_VAL(a) : (long *)0) && (oa.idx != 1 || ol_deref(&a) == &O_VAL(a)), "optional<long> operator-> / operator*");
  if (which == 0) { ol_default(&t); VF_ASSERT(O_WF(t) && view_eq(ol_view(&t), mk(0, 0)), "optional<long>()"); }
  else if (which == 1) { ol_copy_ctor(&t, &b); VF_ASSERT(O_WF(t) && view_eq(ol_view(&t), ob) && view_eq(ol_view(&b), ob), "optional<long> copy construction"); }
  else if (which == 2) { ol_move_ctor(&t, &b); VF_ASSERT(O_WF(t) && view_eq(ol_view(&t), ob) && ol_view(&b).idx == ob.idx, "optional<long> move construction"); }
  else if (which == 3) { OL *r = ol_copy_assign(&a, &b); VF_ASSERT(r == &a && O_WF(a) && view_eq(ol_view(&a), ob) && view_eq(ol_view(&b), ob), "optional<long> copy assignment, all four state pairs"); }
  else if (which == 4) { OL *r = ol_move_assign(&a, &b); VF_ASSERT(r == &a && O_WF(a) && view_eq(ol_view(&a), ob) && ol_view(&b).idx == ob.idx, "optional<long> move assignment, all four state pairs"); }
  else if (which == 5) { OL *r = ol_assign_nullopt(&a); VF_ASSERT(r == &a && O_WF(a) && view_eq(ol_view(&a), mk(0, 0)), "optional<long> = nullopt"); }
  else if (which == 6) { OL *r = ol_assign_value(&a, &x); VF_ASSERT(r == &a && O_WF(a) && view_eq(ol_view(&a), mk(1, x)), "optional<long> = value"); }
  else if (which == 7) { ol_reset(&a); VF_ASSERT(O_WF(a) && view_eq(ol_view(&a), mk(0, 0)), "optional<long>::reset"); }
  else { ol_swap(&a, &b); VF_ASSERT(O_WF(a) && O_WF(b) && view_eq(ol_view(&a), ob) && view_eq(ol_view(&b), oa), "optional<long>::swap, all four state pairs"); }
  VF_REACH(); }

/*@GROUP name=opt_rel props=C07,C02,C05 kind=F@*/
void h_opt_rel(void) { ARB_OI(a); ARB_OI(b); ARB_OL(l); int c = sp_cmp(oi_view(&a), oi_view(&b)), m = sp_cmp(oi_view(&a), ol_view(&l));
  REL6(oi, &a, &b, c, "optional<int> ==,!=,<,<=,>,>= in all four engaged/empty operand forms: empty < engaged, else compare values");
  REL6(oil, &a, &l, m, "optional<int> vs optional<long>: same table, values compared after the usual arithmetic conversions");
  VF_ASSERT(oli_eq(&l, &a) == (m == 0) && oli_lt(&l, &a) == (m > 0), "optional<long> vs optional<int>"); VF_REACH(); }

/*@GROUP name=opt_rel_nullopt props=C07,C02,C05 kind=F@*/
void h_opt_rel_nullopt(void) { ARB_OI(a); _Bool en = O_IDX(a) == 1;
  VF_ASSERT(oi_eq_null(&a) == !en && null_eq_oi(&a) == !en && oi_ne_null(&a) == en && null_ne_oi(&a) == en, "o == nullopt iff disengaged (both operand orders, == and !=)");
  VF_ASSERT(oi_lt_null(&a) == 0 && null_lt_oi(&a) == en, "o < nullopt is false; nullopt < o iff engaged"); VF_REACH(); }

/*@GROUP name=opt_rel_value props=C07,C02,C05 kind=F@*/
void h_opt_rel_value(void) { ARB_OI(a); VF_INPUT(int, x); VF_INPUT(long, y); int c = sp_cmp(oi_view(&a), mk(1, x)), m = sp_cmp(oi_view(&a), mk(1, y));
  VF_ASSERT(oi_eq_v(&a, &x) == (c == 0) && oi_ne_v(&a, &x) == (c != 0) && oi_lt_v(&a, &x) == (c < 0) && oi_le_v(&a, &x) == (c <= 0) && oi_gt_v(&a, &x) == (c > 0) && oi_ge_v(&a, &x) == (c >= 0), "optional op value: an empty optional is less than any value");
  VF_ASSERT(v_eq_oi(&x, &a) == (c == 0) && v_ne_oi(&x, &a) == (c != 0) && v_lt_oi(&x, &a) == (c > 0) && v_le_oi(&x, &a) == (c >= 0) && v_gt_oi(&x, &a) == (c < 0) && v_ge_oi(&x, &a) == (c <= 0), "value op optional: mirrored table");
  VF_ASSERT(oi_eq_lv(&a, &y) == (m == 0) && oi_lt_lv(&a, &y) == (m < 0) && lv_lt_oi(&y, &a) == (m > 0), "optional<int> vs a long value"); VF_REACH(); }

/* ======================================================================================================= variant<int,char,long> */
/*@GROUP name=var_ctor props=C07,C02,C05 kind=F@*/
void h_var_ctor(void) { VF_INPUT(VT, v); VF_INPUT(unsigned char, which); VF_INPUT(int, x); VF_INPUT(char, c); VF_INPUT(long, l); VF_INPUT(short, s); VF_INPUT(unsigned char, uc); VF_INPUT(signed char, sc); VF_INPUT_BOOL(b);
  view_t e;
  if (which == 0) { vt_default(&v); e = mk(0, 0); } else if (which == 1) { vt_from_int(&v, &x); e = mk(0, x); } else if (which == 2) { vt_from_int_rv(&v, x); e = mk(0, x); }
  else if (which == 3) { vt_from_char(&v, c); e = mk(1, c); } else if (which == 4) { vt_from_long(&v, l); e = mk(2, l); }
  else if (which == 5) { vt_from_short(&v, s); e = mk(0, s); } else if (which == 6) { vt_from_uchar(&v, uc); e = mk(0, uc); } else if (which == 7) { vt_from_schar(&v, sc); e = mk(0, sc); } else if (which == 8) { vt_from_bool(&v, b); e = mk(0, b); }
  else if (which == 9) { vt_inplace_i0(&v, x); e = mk(0, x); } else if (which == 10) { vt_inplace_i1(&v, c); e = mk(1, c); } else if (which == 11) { vt_inplace_i2(&v, l); e = mk(2, l); } else if (which == 12) { vt_inplace_i2_int(&v, x); e = mk(2, x); }
  else if (which == 13) { vt_inplace_t_int(&v, x); e = mk(0, x); } else if (which == 14) { vt_inplace_t_char(&v, c); e = mk(1, c); } else { vt_inplace_t_long(&v, l); e = mk(2, l); }
  VF_ASSERT(VT_WF(v) && view_eq(vt_view(&v), e), "variant(): value-initialised first alternative; variant(T&&): the alternative overload resolution selects (int/char/long exact, short/unsigned char/signed char/bool promote to int); in_place_index/in_place_type: that alternative");
  VF_ASSERT(vt_index(&v) == e.idx, "index() after construction"); VF_REACH(); }

/*@GROUP name=var_copy_move props=C07,C02,C05 kind=F@*/
void h_var_copy_move(void) { ARB_VT(s); VF_INPUT(VT, t); VF_INPUT(unsigned char, which); view_t os = vt_view(&s); VT *r = &t;
  if (which == 0) vt_copy_ctor(&t, &s); else if (which == 1) vt_move_ctor(&t, &s);
  else if (which == 2) { __CPROVER_assume(VT_WF(t)); r = vt_copy_assign(&t, &s); } else if (which == 3) { __CPROVER_assume(VT_WF(t)); r = vt_move_assign(&t, &s); }
  else { r = vt_copy_assign(&s, &s); t = s; }
  VF_ASSERT(VT_WF(t) && view_eq(vt_view(&t), os), "variant copy/move construction and assignment from all nine (index,index) pairs: target view == source view");
  VF_ASSERT(r == (which >= 4 ? &s : &t), "assignment returns *this");
  VF_ASSERT(VT_WF(s) && view_eq(vt_view(&s), os), "copy (and move of trivially copyable alternatives, and self-assignment) leaves the source view unchanged"); VF_REACH(); }

/*@GROUP name=var_assign_value props=C07,C02,C05 kind=F@*/
void h_var_assign_value(void) { ARB_VT(a); VF_INPUT(unsigned char, which); VF_INPUT(int, x); VF_INPUT(char, c); VF_INPUT(long, l); VF_INPUT(short, s); view_t e; VT *r = &a;
  if (which == 0) { r = vt_assign_int(&a, &x); e = mk(0, x); } else if (which == 1) { r = vt_assign_char(&a, c); e = mk(1, c); } else if (which == 2) { r = vt_assign_long(&a, l); e = mk(2, l); } else if (which == 3) { r = vt_assign_short(&a, s); e = mk(0, s); }
  else if (which == 4) { int *p = vt_emplace_i0(&a, x); e = mk(0, x); VF_ASSERT(p == &V_A0(a), "emplace<0> returns a reference to the new alternative"); }
  else if (which == 5) { char *p = vt_emplace_i1(&a, c); e = mk(1, c); VF_ASSERT(p == &V_A1(a), "emplace<1> returns a reference to the new alternative"); }
  else if (which == 6) { long *p = vt_emplace_i2(&a, l); e = mk(2, l); VF_ASSERT(p == &V_A2(a), "emplace<2> returns a reference to the new alternative"); }
  else if (which == 7) { int *p = vt_emplace_t_int(&a, x); e = mk(0, x); VF_ASSERT(p == &V_A0(a), "emplace<int> returns a reference to the new alternative"); }
  else if (which == 8) { char *p = vt_emplace_t_char(&a, c); e = mk(1, c); VF_ASSERT(p == &V_A1(a), "emplace<char> returns a reference to the new alternative"); }
  else if (which == 9) { long *p = vt_emplace_t_long(&a, l); e = mk(2, l); VF_ASSERT(p == &V_A2(a), "emplace<long> returns a reference to the new alternative"); }
  else { long *p = vt_emplace_t_long_from_int(&a, x); e = mk(2, x); VF_ASSERT(p == &V_A2(a), "emplace<long>(int) returns a reference to the new alternative"); }
  VF_ASSERT(r == &a && VT_WF(a) && view_eq(vt_view(&a), e), "v = value / emplace<I> / emplace<T> from every previous index: holds exactly the selected alternative with the (converted) value"); VF_REACH(); }

/*@GROUP name=var_swap props=C07,C02,C05 kind=F@*/
void h_var_swap(void) { ARB_VT(a); ARB_VT(b); view_t oa = vt_view(&a), ob = vt_view(&b); vt_swap_free(&a, &b);
  VF_ASSERT(VT_WF(a) && VT_WF(b) && view_eq(vt_view(&a), ob) && view_eq(vt_view(&b), oa), "swap(variant, variant) exchanges the two views for all nine index pairs"); VF_REACH(); }

/*@GROUP name=var_observers props=C07,C02,C05 kind=F@*/
void h_var_observers(void) { ARB_VT(v); view_t o = vt_view(&v); unsigned i = o.idx; int *p0 = i == 0 ? &V_A0(v) : (int *)0; char *p1 = i == 1 ? &V_A1(v) : (char *)0; long *p2 = i == 2 ? &V_A2(v) : (long *)0;
  VF_ASSERT(vt_index(&v) == i && vt_holds_int(&v) == (i == 0) && vt_holds_char(&v) == (i == 1) && vt_holds_long(&v) == (i == 2), "index / holds_alternative follow the active index");
  VF_ASSERT(vt_get_if_0(&v) == p0 && vt_get_if_1(&v) == p1 && vt_get_if_2(&v) == p2 && vt_cget_if_0(&v) == p0 && vt_cget_if_1(&v) == p1 && vt_cget_if_2(&v) == p2, "get_if<I>: pointer to the active alternative, otherwise null");
  VF_ASSERT(vt_get_if_int(&v) == p0 && vt_get_if_char(&v) == p1 && vt_get_if_long(&v) == p2 && vt_cget_if_int(&v) == p0 && vt_cget_if_char(&v) == p1 && vt_cget_if_long(&v) == p2, "get_if<T>: pointer to the active alternative, otherwise null");
  VF_ASSERT(vt_get_if_0((VT *)0) == (int *)0 && vt_cget_if_2((VT *)0) == (long *)0 && vt_get_if_char((VT *)0) == (char *)0, "get_if(nullptr) is null");
  if (i == 0) VF_ASSERT(vt_uget_0(&v) == p0 && vt_cuget_0(&v) == p0 && vt_uget_rv_0(&v) == p0 && vt_cuget_rv_0(&v) == p0 && vt_sub_0(&v) == p0 && vt_csub_0(&v) == p0 && vt_sub_rv_0(&v) == p0, "unchecked_get<0> / operator[](index_v<0>) refer to the active alternative");
  if (i == 1) VF_ASSERT(vt_uget_1(&v) == p1 && vt_cuget_1(&v) == p1 && vt_uget_rv_1(&v) == p1 && vt_cuget_rv_1(&v) == p1 && vt_sub_1(&v) == p1 && vt_csub_1(&v) == p1 && vt_csub_rv_1(&v) == p1, "unchecked_get<1> / operator[](index_v<1>) refer to the active alternative");
  if (i == 2) VF_ASSERT(vt_uget_2(&v) == p2 && vt_cuget_2(&v) == p2 && vt_uget_rv_2(&v) == p2 && vt_cuget_rv_2(&v) == p2 && vt_sub_2(&v) == p2 && vt_csub_2(&v) == p2 && vt_sub_rv_2(&v) == p2, "unchecked_get<2> / operator[](index_v<2>) refer to the active alternative");
  VF_ASSERT(view_eq(vt_view(&v), o), "observers do not modify the object"); VF_REACH(); }

/*@GROUP name=var_rel props=C07,C02,C05 kind=F@*/
void h_var_rel(void) { ARB_VT(a); ARB_VT(b); int c = sp_cmp(vt_view(&a), vt_view(&b));
  REL6(vt, &a, &b, c, "variant ==,!=,<,<=,>,>= for all nine index pairs: by index, then by the value of the common alternative"); VF_REACH(); }

/*@GROUP name=var_rel_partial props=C07,C02 kind=F@*/
void h_var_rel_partial(void) { /* [variant.relops]: different indices compare by index; same index applies THE SAME operator to the values (so NaN makes <,<=,>,>=,== all false) */
  VF_INPUT(unsigned char, ia); VF_INPUT(unsigned char, ib); VF_INPUT(int, xa); VF_INPUT(int, xb); VF_INPUT(unsigned, ba); VF_INPUT(unsigned, bb); __CPROVER_assume(ia <= 1 && ib <= 1);
  union { unsigned u; float f; } ua, ub; ua.u = ba; ub.u = bb; float fa = ua.f, fb = ub.f;      /* every bit pattern: NaNs, infinities, signed zeros */
  unsigned e;
  if (ia != ib) e = 2U | (ia < ib ? (4U | 8U) : (16U | 32U));
  else if (ia == 0) e = (xa == xb ? 1U : 2U) | (xa < xb ? 4U : 0U) | (xa <= xb ? 8U : 0U) | (xa > xb ? 16U : 0U) | (xa >= xb ? 32U : 0U);
  else e = (fa == fb ? 1U : 0U) | (fa != fb ? 2U : 0U) | (fa < fb ? 4U : 0U) | (fa <= fb ? 8U : 0U) | (fa > fb ? 16U : 0U) | (fa >= fb ? 32U : 0U);
  VF_ASSERT(vf_rel6(ia, xa, fa, ib, xb, fb) == e, "variant<int,float> ==,!=,<,<=,>,>=: by index, then the same operator on the values (partial order: NaN)");
  VF_REACH(); }

/*@GROUP name=var_visit props=C07,C02,C05 kind=F@*/
void h_var_visit(void) { ARB_VT(v); ARB_LOG(lg); ARB_LOG(l0); VF_INPUT(unsigned char, which); view_t o = vt_view(&v);
  VF_ASSERT(visit0(&l0) == 42 && l0.calls == 1, "visit(f) without variants calls f() once and returns its result");
  if (which == 0 || which == 3) { long r = which == 0 ? vt_visit(&v, &lg) : vt_visit_rv(&v, &lg); VF_ASSERT(r == (o.idx == 0 ? 3L * o.val + 1L : (o.idx == 1 ? 1000L + o.val : (o.val ^ 0x55L))), "visit returns the visitor's result for the active alternative unchanged"); VF_ASSERT(view_eq(vt_view(&v), o), "visit (const) leaves the variant unchanged"); }
  else if (which == 1) { long r = vt_visit_with_index(&v, &lg); VF_ASSERT(r == (o.val ^ (0x100L * (long)o.idx)), "visit_with_index passes (index, value) of the active alternative and returns the result unchanged"); VF_ASSERT(view_eq(vt_view(&v), o), "visit_with_index (const) leaves the variant unchanged"); }
  else { int r = vt_visit_mut(&v, &lg); VF_ASSERT(r == 10 + (int)o.idx, "visit (mutable) returns the visitor's result");
    VF_ASSERT(VT_WF(v) && view_eq(vt_view(&v), mk(o.idx, o.idx == 0 ? 7L : (o.idx == 1 ? (long)'q' : -9L))), "visit (mutable) hands the visitor a reference to the stored alternative"); }
  VF_ASSERT(lg.calls == 1 && (unsigned)lg.which == o.idx && lg.arg == o.val, "the visitor is called exactly once, with the active alternative"); VF_REACH(); }

/*@GROUP name=var_visit2 props=C07,C02,C05 kind=F cost=2@*/
void h_var_visit2(void) { ARB_VT(a); ARB_VT(b); ARB_LOG(lg); view_t oa = vt_view(&a), ob = vt_view(&b); long r = vt_visit2(&a, &b, &lg);
  int sa = oa.idx == 0 ? 4 : (oa.idx == 1 ? 1 : 8), sb = ob.idx == 0 ? 4 : (ob.idx == 1 ? 1 : 8);
  VF_ASSERT(lg.calls == 1 && lg.which == sa * 16 + sb && lg.arg == oa.val && lg.arg2 == ob.val, "visit(f, a, b): f called exactly once with the pair of active alternatives (types and values) for all nine index pairs");
  VF_ASSERT(r == (oa.val ^ ~ob.val), "visit(f, a, b) returns the result unchanged"); VF_ASSERT(view_eq(vt_view(&a), oa) && view_eq(vt_view(&b), ob), "visit leaves both variants unchanged"); VF_REACH(); }

/*@GROUP name=var_visit2_index props=C07,C02,C05 kind=F cost=2@*/
void h_var_visit2_index(void) { ARB_VT(a); ARB_VT(b); ARB_LOG(lg); view_t oa = vt_view(&a), ob = vt_view(&b); long r = vt_visit_with_index2(&a, &b, &lg);
  VF_ASSERT(lg.calls == 1 && lg.which == (int)(oa.idx * 3 + ob.idx) && lg.arg == oa.val && lg.arg2 == ob.val, "visit_with_index(f, a, b): f called exactly once with (index, value) of both active alternatives for all nine index pairs");
  VF_ASSERT(r == (oa.val ^ ~ob.val), "visit_with_index(f, a, b) returns the result unchanged"); VF_ASSERT(view_eq(vt_view(&a), oa) && view_eq(vt_view(&b), ob), "visit_with_index leaves both variants unchanged"); VF_REACH(); }

/*@GROUP name=var_visit_mixed props=C07,C02,C05 kind=F@*/
void h_var_visit_mixed(void) { ARB_VT(a); ARB_VM(b); ARB_LOG(lg); view_t oa = vt_view(&a), ob = vm_view(&b); long r = vt_vm_visit(&a, &b, &lg);
  int sa = oa.idx == 0 ? 4 : (oa.idx == 1 ? 1 : 8);
  VF_ASSERT(lg.calls == 1 && lg.which == sa * 16 + (ob.idx == 1 ? 4 : 0) && lg.arg == oa.val && lg.arg2 == ob.val, "visit over variant<int,char,long> x variant<monostate,int>: f called once with the pair of active alternatives for all six index pairs");
  VF_ASSERT(r == (ob.idx == 1 ? (oa.val ^ ~ob.val) : oa.val), "visit over two different variant types returns the result unchanged"); VF_REACH(); }

/* ======================================================================================================= variant<monostate,int> */
/*@GROUP name=mono props=C07,C02,C05 kind=F@*/
void h_mono(void) { ARB_VM(a); ARB_VM(b); VF_INPUT(VM, t); ARB_LOG(lg); VF_INPUT(unsigned char, which); VF_INPUT(int, x); view_t oa = vm_view(&a), ob = vm_view(&b); int c = sp_cmp(oa, ob);
  REL6(vm, &a, &b, c, "variant<monostate,int> relational operators: monostate == monostate, monostate < any int alternative");
  VF_ASSERT(vm_index(&a) == oa.idx && vm_holds_mono(&a) == (oa.idx == 0) && vm_get_if_int(&a) == (oa.idx == 1 ? &V_A1(a) : (int *)0), "index / holds_alternative<monostate> / get_if<int>");
  int r = vm_visit(&a, &lg); VF_ASSERT(r == (oa.idx == 0 ? -1 : (int)oa.val) && lg.calls == 1 && (unsigned)lg.which == oa.idx && (oa.idx == 0 || lg.arg == oa.val), "visit on variant<monostate,int>");
  if (which == 0) { vm_default(&t); VF_ASSERT(view_eq(vm_view(&t), mk(0, 0)), "variant<monostate,int>() holds monostate"); }
  else if (which == 1) { vm_from_int(&t, x); VF_ASSERT(view_eq(vm_view(&t), mk(1, x)), "variant<monostate,int>(int)"); }
  else if (which == 2) { vm_from_mono(&t); VF_ASSERT(view_eq(vm_view(&t), mk(0, 0)), "variant<monostate,int>(monostate)"); }
  else if (which == 3) { vm_copy_ctor(&t, &b); VF_ASSERT(view_eq(vm_view(&t), ob), "copy construction"); }
  else if (which == 4) { VM *p = vm_copy_assign(&a, &b); VF_ASSERT(p == &a && VM_WF(a) && view_eq(vm_view(&a), ob) && view_eq(vm_view(&b), ob), "copy assignment, all four index pairs"); }
  else if (which == 5) { VM *p = vm_move_assign(&a, &b); VF_ASSERT(p == &a && VM_WF(a) && view_eq(vm_view(&a), ob), "move assignment, all four index pairs"); }
  else if (which == 6) { VM *p = vm_assign_int(&a, x); VF_ASSERT(p == &a && view_eq(vm_view(&a), mk(1, x)), "v = int"); }
  else if (which == 7) { VM *p = vm_assign_mono(&a); VF_ASSERT(p == &a && view_eq(vm_view(&a), mk(0, 0)), "v = monostate{}"); }
  else if (which == 8) { vm_emplace_mono(&a); VF_ASSERT(view_eq(vm_view(&a), mk(0, 0)), "emplace<monostate>()"); }
  else if (which == 9) { vm_swap_free(&a, &b); VF_ASSERT(VM_WF(a) && VM_WF(b) && view_eq(vm_view(&a), ob) && view_eq(vm_view(&b), oa), "swap, all four index pairs"); }
  else { int *p = vm_emplace_int(&a, x); VF_ASSERT(p == &V_A1(a) && view_eq(vm_view(&a), mk(1, x)), "emplace<1>(int)"); }
  VF_REACH(); }

/* ======================================================================================================= expected<int,char> */
/*@GROUP name=exp_ctor props=C07,C02,C05 kind=F@*/
void h_exp_ctor(void) { VF_INPUT(EX, e); VF_INPUT(unsigned char, which); VF_INPUT(int, x); VF_INPUT(short, s); VF_INPUT(char, c); view_t w;
  if (which == 0) { ex_default(&e); w = mk(0, 0); } else if (which == 1) { ex_inplace(&e, x); w = mk(0, x); } else if (which == 2) { ex_inplace_short(&e, s); w = mk(0, s); } else { ex_unexpect(&e, c); w = mk(1, c); }
  VF_ASSERT(E_WF(e) && view_eq(ex_view(&e), w), "expected(): value-initialised value; expected(in_place, x): value x; expected(unexpect, c): error c");
  VF_ASSERT(ex_has_value(&e) == (w.idx == 0), "has_value after construction"); VF_REACH(); }

/*@GROUP name=exp_copy_move props=C07,C02,C05 kind=F@*/
void h_exp_copy_move(void) { ARB_EX(s); VF_INPUT(EX, t); VF_INPUT(unsigned char, which); view_t os = ex_view(&s); EX *r = &t;
  if (which == 0) ex_copy_ctor(&t, &s); else if (which == 1) ex_move_ctor(&t, &s);
  else if (which == 2) { __CPROVER_assume(E_WF(t)); r = ex_copy_assign(&t, &s); } else if (which == 3) { __CPROVER_assume(E_WF(t)); r = ex_move_assign(&t, &s); }
  else { r = ex_copy_assign(&s, &s); t = s; }
  VF_ASSERT(E_WF(t) && view_eq(ex_view(&t), os), "expected copy/move construction and assignment, all four (value/error, value/error) pairs: target view == source view");
  VF_ASSERT(r == (which >= 4 ? &s : &t), "assignment returns *this");
  VF_ASSERT(E_WF(s) && view_eq(ex_view(&s), os), "copy (move of trivially copyable T/E, self-assignment) leaves the source view unchanged"); VF_REACH(); }

/*@GROUP name=exp_modifiers props=C07,C02,C05 kind=F@*/
void h_exp_modifiers(void) { ARB_EX(a); ARB_EX(b); VF_INPUT_BOOL(sw); VF_INPUT(int, x); view_t oa = ex_view(&a), ob = ex_view(&b);
  if (sw) { ex_swap_free(&a, &b); VF_ASSERT(E_WF(a) && E_WF(b) && view_eq(ex_view(&a), ob) && view_eq(ex_view(&b), oa), "swap(expected, expected) exchanges the views in all four state pairs"); }
  else { int *p = ex_emplace(&a, x); VF_ASSERT(p == &E_VAL(a) && E_WF(a) && view_eq(ex_view(&a), mk(0, x)), "emplace from the value state and from the error state: holds the value, returns a reference to it"); }
  VF_REACH(); }

/*@GROUP name=exp_observers props=C07,C02,C05 kind=F@*/
void h_exp_observers(void) { ARB_EX(e); VF_INPUT(int, d); VF_INPUT(short, s); view_t v = ex_view(&e); _Bool hv = v.idx == 0;
  VF_ASSERT(ex_has_value(&e) == hv && ex_bool(&e) == hv, "has_value / operator bool");
  if (hv) VF_ASSERT(ex_arrow(&e) == &E_VAL(e) && ex_carrow(&e) == &E_VAL(e) && ex_deref(&e) == &E_VAL(e) && ex_cderef(&e) == &E_VAL(e) && ex_deref_rv(&e) == &E_VAL(e) && ex_cderef_rv(&e) == &E_VAL(e), "operator-> / operator* (all forms) refer to the value");
  else VF_ASSERT(ex_error(&e) == &E_ERR(e) && ex_cerror(&e) == &E_ERR(e) && ex_error_rv(&e) == &E_ERR(e) && ex_cerror_rv(&e) == &E_ERR(e), "error() (all four ref-qualified forms) refers to the error");
  VF_ASSERT(ex_value_or(&e, d) == (hv ? (int)v.val : d) && ex_value_or_rv(&e, d) == (hv ? (int)v.val : d) && ex_value_or_short(&e, s) == (hv ? (int)v.val : (int)s), "value_or: the value if present, else the converted fallback");
  VF_ASSERT(view_eq(ex_view(&e), v), "observers do not modify the object"); VF_REACH(); }

/*@GROUP name=exp_monadic props=C07,C02,C05 kind=F@*/
void h_exp_monadic(void) { ARB_EX(e); VF_INPUT(EL, r); VF_INPUT(EX, q); ARB_LOG(lg); VF_INPUT(unsigned char, which); view_t v = ex_view(&e); _Bool hv = v.idx == 0;
  if (which <= 3) { if (which == 0) ex_and_then(&r, &e, &lg); else if (which == 1) ex_and_then_c(&r, &e, &lg); else if (which == 2) ex_and_then_rv(&r, &e, &lg); else ex_and_then_crv(&r, &e, &lg);
    VF_ASSERT(lg.calls == (hv ? 1 : 0) && (!hv || lg.arg == v.val), "and_then calls f exactly once with the value iff has_value");
    VF_ASSERT(E_WF(r) && view_eq(el_view(&r), hv ? ((v.val & 1) == 0 ? mk(0, 3L * v.val + 1L) : mk(1, 'o')) : mk(1, v.val)), "and_then returns f(*e) unchanged, or propagates the error into the new expected type"); }
  else { if (which == 4) ex_or_else(&q, &e, &lg); else if (which == 5) ex_or_else_c(&q, &e, &lg); else if (which == 6) ex_or_else_rv(&q, &e, &lg); else ex_or_else_crv(&q, &e, &lg);
    VF_ASSERT(lg.calls == (hv ? 0 : 1) && (hv || lg.arg == v.val), "or_else calls f exactly once with the error iff !has_value");
    VF_ASSERT(E_WF(q) && view_eq(ex_view(&q), hv ? v : (v.val >= 0 ? mk(0, 1000L + v.val) : mk(1, (long)(char)(v.val + 1)))), "or_else propagates the value, or returns f(error()) unchanged"); }
  VF_ASSERT(view_eq(ex_view(&e), v), "monadic operations leave the object unchanged (int/char)"); VF_REACH(); }

/*@GROUP name=unexpected props=C07,C02 kind=F@*/
void h_unexpected(void) { VF_INPUT(UX, a); VF_INPUT(UX, b); VF_INPUT(UX, t); VF_INPUT(UI, ui); VF_INPUT(char, c); VF_INPUT(unsigned char, which); char oa = a._unex, ob = b._unex;
  VF_ASSERT(ux_error(&a) == &a._unex && ux_cerror(&a) == &a._unex, "unexpected::error() refers to the stored error");
  VF_ASSERT(ux_eq(&a, &b) == (oa == ob) && ux_ne(&a, &b) == (oa != ob) && ux_eq_ui(&a, &ui) == ((int)oa == ui._unex), "unexpected == / != compare the errors (also across error types)");
  if (which == 0) { ux_ctor(&t, c); VF_ASSERT(t._unex == c, "unexpected(e)"); } else if (which == 1) { ux_inplace(&t, c); VF_ASSERT(t._unex == c, "unexpected(in_place, e)"); }
  else if (which == 2) { ux_copy_ctor(&t, &a); VF_ASSERT(t._unex == oa && a._unex == oa, "copy construction"); } else if (which == 3) { UX *p = ux_copy_assign(&a, &b); VF_ASSERT(p == &a && a._unex == ob && b._unex == ob, "copy assignment"); }
  else if (which == 4) { ux_swap(&a, &b); VF_ASSERT(a._unex == ob && b._unex == oa, "member swap"); } else if (which == 5) { ux_swap_free(&a, &b); VF_ASSERT(a._unex == ob && b._unex == oa, "free swap"); }
  else { ui_ctor(&ui, c); VF_ASSERT(ui._unex == (int)c, "unexpected<int>(char)"); }
  VF_REACH(); }

/* ======================================================================================================= variant<int,int>: a REPEATED alternative type */
/* [variant.*] is written in terms of the index: two alternatives of the same type are different alternatives. Reachable through the index-based API only. */
/*@GROUP name=vard_ctor props=C07,C02,C05 kind=F@*/
void h_vard_ctor(void) { VF_INPUT(VD, v); VF_INPUT(unsigned char, which); VF_INPUT(int, x); VF_INPUT(short, s); view_t e;
  if (which == 0) { vd_default(&v); e = mk(0, 0); } else if (which == 1) { vd_inplace_0(&v, x); e = mk(0, x); } else if (which == 2) { vd_inplace_1(&v, &x); e = mk(1, x); } else { vd_inplace_1_short(&v, s); e = mk(1, s); }
  VF_ASSERT(VD_WF(v) && view_eq(vd_view(&v), e), "variant<int,int>(): value-initialised alternative 0; variant(in_place_index<I>, x): alternative I (not 'the int alternative') with the converted value");
  VF_ASSERT(vd_index(&v) == e.idx, "index() after construction"); VF_REACH(); }

/*@GROUP name=vard_copy_move props=C07,C02,C05 kind=F@*/
void h_vard_copy_move(void) { ARB_VD(s); VF_INPUT(VD, t); VF_INPUT(unsigned char, which); view_t os = vd_view(&s); VD *r = &t;
  if (which == 0) vd_copy_ctor(&t, &s); else if (which == 1) vd_move_ctor(&t, &s);
  else if (which == 2) { __CPROVER_assume(VD_WF(t)); r = vd_copy_assign(&t, &s); } else if (which == 3) { __CPROVER_assume(VD_WF(t)); r = vd_move_assign(&t, &s); }
  else if (which == 4) { r = vd_copy_assign(&s, &s); t = s; } else { r = vd_move_assign(&s, &s); t = s; }
  VF_ASSERT(VD_WF(t) && view_eq(vd_view(&t), os), "variant<int,int> copy/move construction and assignment for all four (index,index) pairs: the target has the source's INDEX and value");
  VF_ASSERT(r == (which >= 4 ? &s : &t), "assignment returns *this");
  VF_ASSERT(VD_WF(s) && view_eq(vd_view(&s), os), "copy / move of trivially copyable alternatives / self-assignment leave the source view unchanged"); VF_REACH(); }

/*@GROUP name=vard_modifiers props=C07,C02,C05 kind=F@*/
void h_vard_modifiers(void) { ARB_VD(a); ARB_VD(b); VF_INPUT(unsigned char, which); VF_INPUT(int, x); VF_INPUT(short, s); view_t oa = vd_view(&a), ob = vd_view(&b);
  if (which == 0) { int *p = vd_emplace_0(&a, &x); VF_ASSERT(p == &V_A0(a) && VD_WF(a) && view_eq(vd_view(&a), mk(0, x)), "emplace<0> from either index: holds alternative 0 with the value, returns a reference to it"); }
  else if (which == 1) { int *p = vd_emplace_1(&a, &x); VF_ASSERT(p == &V_A1(a) && VD_WF(a) && view_eq(vd_view(&a), mk(1, x)), "emplace<1> from either index: holds alternative 1 with the value, returns a reference to it"); }
  else if (which == 2) { int *p = vd_emplace_1_short(&a, s); VF_ASSERT(p == &V_A1(a) && VD_WF(a) && view_eq(vd_view(&a), mk(1, s)), "emplace<1>(short): alternative 1 with the converted value"); }
  else if (which == 3) { vd_swap_free(&a, &b); VF_ASSERT(VD_WF(a) && VD_WF(b) && view_eq(vd_view(&a), ob) && view_eq(vd_view(&b), oa), "swap exchanges index AND value for all four index pairs"); }
  else { vd_swap_free(&a, &a); VF_ASSERT(VD_WF(a) && view_eq(vd_view(&a), oa), "self-swap keeps the view"); }
  VF_REACH(); }

/*@GROUP name=vard_observers props=C07,C02,C05 kind=F@*/
void h_vard_observers(void) { ARB_VD(v); view_t o = vd_view(&v); unsigned i = o.idx; int *p0 = i == 0 ? &V_A0(v) : (int *)0; int *p1 = i == 1 ? &V_A1(v) : (int *)0;
  VF_ASSERT(vd_index(&v) == i, "index() is the active index");
  VF_ASSERT(vd_get_if_0(&v) == p0 && vd_get_if_1(&v) == p1 && vd_cget_if_0(&v) == p0 && vd_cget_if_1(&v) == p1, "get_if<I>: non-null iff I is the active INDEX (get_if<0> is null for a variant holding the other int)");
  VF_ASSERT(vd_get_if_0((VD *)0) == (int *)0 && vd_cget_if_1((VD *)0) == (int *)0, "get_if(nullptr) is null");
  if (i == 0) VF_ASSERT(vd_uget_0(&v) == p0 && vd_cuget_0(&v) == p0 && vd_uget_rv_0(&v) == p0 && vd_sub_0(&v) == p0 && vd_csub_0(&v) == p0 && *vd_cuget_0(&v) == (int)o.val, "unchecked_get<0> / operator[](index_v<0>) refer to the active alternative");
  if (i == 1) VF_ASSERT(vd_uget_1(&v) == p1 && vd_cuget_1(&v) == p1 && vd_cuget_rv_1(&v) == p1 && vd_sub_1(&v) == p1 && vd_csub_1(&v) == p1 && *vd_cuget_1(&v) == (int)o.val, "unchecked_get<1> / operator[](index_v<1>) refer to the active alternative");
  VF_ASSERT(view_eq(vd_view(&v), o), "observers do not modify the object"); VF_REACH(); }

/*@GROUP name=vard_rel props=C07,C02,C05 kind=F@*/
void h_vard_rel(void) { ARB_VD(a); ARB_VD(b); int c = sp_cmp(vd_view(&a), vd_view(&b));
  VF_ASSERT(vd_rel6(&a, &b) == sp_rel6(c), "variant<int,int> ==,!=,<,<=,>,>= for all four index pairs: different INDICES are unequal and ordered by index even when the values are equal; same index compares the values");
  VF_REACH(); }

/*@GROUP name=vard_visit props=C07,C02,C05 kind=F@*/
void h_vard_visit(void) { ARB_VD(a); ARB_VD(b); ARB_FLOG(lg); VF_INPUT(unsigned char, which); view_t oa = vd_view(&a), ob = vd_view(&b);
  if (which == 0 || which == 1) { long r = which == 0 ? vd_visit(&a, &lg) : vd_visit_rv(&a, &lg);
    VF_ASSERT(lg.calls == 1 && lg.which == 1 && lg.arg == oa.val && r == 3L * oa.val + 1L, "visit: the int overload is called once with the value of the ACTIVE alternative (either index), result returned unchanged"); VF_ASSERT(view_eq(vd_view(&a), oa), "visit (const) leaves the variant unchanged"); }
  else if (which == 2) { int r = vd_visit_mut(&a, &lg); VF_ASSERT(r == 10 && lg.calls == 1 && lg.arg == oa.val && VD_WF(a) && view_eq(vd_view(&a), mk(oa.idx, (long)((int)oa.val ^ 0x5a5a))), "visit (mutable) hands over a reference to the active alternative; the index is unchanged"); }
  else if (which == 3) { long r = vd_visit_with_index(&a, &lg); VF_ASSERT(lg.calls == 1 && (unsigned)lg.which == oa.idx && lg.which2 == 1 && lg.arg == oa.val && r == 40L + (long)oa.idx, "visit_with_index passes the active INDEX (0 or 1) and its value"); }
  else if (which == 4) { long r = vd_visit2(&a, &b, &lg); VF_ASSERT(lg.calls == 1 && lg.which == 9 && lg.arg == oa.val && lg.arg2 == ob.val && r == 69L, "visit(f, a, b): f called once with the two active values for all four index pairs"); }
  else { long r = vd_visit_with_index2(&a, &b, &lg); VF_ASSERT(lg.calls == 1 && lg.which == (int)(oa.idx * 8 + ob.idx) && lg.which2 == 9 && lg.arg == oa.val && lg.arg2 == ob.val && r == 50L + (long)(oa.idx * 8 + ob.idx), "visit_with_index(f, a, b): both active indices and values for all four index pairs"); }
  VF_ASSERT((which == 2 || view_eq(vd_view(&a), oa)) && view_eq(vd_view(&b), ob), "visiting leaves the variants unchanged"); VF_REACH(); }

/* ======================================================================================================= variant<unsigned,float,unsigned> */
/*@GROUP name=varu_ctor_assign props=C07,C02,C05 kind=F@*/
void h_varu_ctor_assign(void) { ARB_VU(s); VF_INPUT(VU, t); VF_INPUT(unsigned char, which); VF_INPUT(unsigned, u); ARB_FLOAT(f); view_t os = vu_view(&s), e; VU *r = &t;
  if (which == 0) { vu_default(&t); e = mk(0, 0); } else if (which == 1) { vu_inplace_0(&t, u); e = mk(0, u); } else if (which == 2) { vu_inplace_1(&t, f); e = mk(1, f_bits); } else if (which == 3) { vu_inplace_2(&t, u); e = mk(2, u); }
  else if (which == 4) { vu_inplace_t_float(&t, f); e = mk(1, f_bits); } else if (which == 5) { vu_copy_ctor(&t, &s); e = os; } else if (which == 6) { vu_move_ctor(&t, &s); e = os; }
  else if (which == 7) { __CPROVER_assume(VU_WF(t)); r = vu_copy_assign(&t, &s); e = os; } else if (which == 8) { __CPROVER_assume(VU_WF(t)); r = vu_move_assign(&t, &s); e = os; }
  else { r = vu_copy_assign(&s, &s); t = s; e = os; }
  VF_ASSERT(VU_WF(t) && view_eq(vu_view(&t), e), "variant<unsigned,float,unsigned>: in_place_index<I> selects alternative I (0 and 2 are both unsigned), in_place_type<float> the unique float; copy/move construction and assignment for all nine index pairs give the source's index and value");
  VF_ASSERT(vu_index(&t) == e.idx && r == (which >= 9 ? &s : &t), "index() after construction; assignment returns *this");
  VF_ASSERT(VU_WF(s) && view_eq(vu_view(&s), os), "the source is unchanged"); VF_REACH(); }

/*@GROUP name=varu_modifiers props=C07,C02,C05 kind=F@*/
void h_varu_modifiers(void) { ARB_VU(a); ARB_VU(b); VF_INPUT(unsigned char, which); VF_INPUT(unsigned, u); ARB_FLOAT(f); view_t oa = vu_view(&a), ob = vu_view(&b);
  if (which == 0) { unsigned *p = vu_emplace_0(&a, u); VF_ASSERT(p == &V_A0(a) && VU_WF(a) && view_eq(vu_view(&a), mk(0, u)), "emplace<0> from every index: alternative 0"); }
  else if (which == 1) { float *p = vu_emplace_1(&a, f); VF_ASSERT(p == &V_A1(a) && VU_WF(a) && view_eq(vu_view(&a), mk(1, f_bits)), "emplace<1> from every index: the float alternative"); }
  else if (which == 2) { unsigned *p = vu_emplace_2(&a, u); VF_ASSERT(p == &V_A2(a) && VU_WF(a) && view_eq(vu_view(&a), mk(2, u)), "emplace<2> from every index: alternative 2, not the first unsigned"); }
  else if (which == 3) { float *p = vu_emplace_t_float(&a, f); VF_ASSERT(p == &V_A1(a) && VU_WF(a) && view_eq(vu_view(&a), mk(1, f_bits)), "emplace<float> (unique type): alternative 1"); }
  else if (which == 4) { vu_swap_free(&a, &b); VF_ASSERT(VU_WF(a) && VU_WF(b) && view_eq(vu_view(&a), ob) && view_eq(vu_view(&b), oa), "swap exchanges index and value for all nine index pairs"); }
  else { vu_swap_free(&b, &b); VF_ASSERT(VU_WF(b) && view_eq(vu_view(&b), ob), "self-swap keeps the view"); }
  VF_REACH(); }

/*@GROUP name=varu_observers props=C07,C02,C05 kind=F@*/
void h_varu_observers(void) { ARB_VU(v); view_t o = vu_view(&v); unsigned i = o.idx; unsigned *p0 = i == 0 ? &V_A0(v) : (unsigned *)0; float *p1 = i == 1 ? &V_A1(v) : (float *)0; unsigned *p2 = i == 2 ? &V_A2(v) : (unsigned *)0;
  VF_ASSERT(vu_index(&v) == i && vu_holds_float(&v) == (i == 1), "index / holds_alternative<float> (the unique alternative type) follow the active index");
  VF_ASSERT(vu_get_if_0(&v) == p0 && vu_get_if_1(&v) == p1 && vu_get_if_2(&v) == p2 && vu_cget_if_0(&v) == p0 && vu_cget_if_1(&v) == p1 && vu_cget_if_2(&v) == p2, "get_if<I>: non-null iff I is the active INDEX (get_if<0> is null when the OTHER unsigned, index 2, is active and vice versa)");
  VF_ASSERT(vu_get_if_float(&v) == p1 && vu_cget_if_float(&v) == p1 && vu_get_if_float((VU *)0) == (float *)0, "get_if<float>: the unique float alternative");
  if (i == 0) VF_ASSERT(vu_uget_0(&v) == p0 && vu_csub_0(&v) == p0 && *vu_uget_0(&v) == (unsigned)o.val, "unchecked_get<0> / operator[]");
  if (i == 1) VF_ASSERT(vu_uget_1(&v) == p1 && vu_csub_1(&v) == p1 && fbits(*vu_uget_1(&v)) == (unsigned)o.val, "unchecked_get<1> / operator[]");
  if (i == 2) VF_ASSERT(vu_uget_2(&v) == p2 && vu_csub_2(&v) == p2 && *vu_uget_2(&v) == (unsigned)o.val, "unchecked_get<2> / operator[]");
  VF_ASSERT(view_eq(vu_view(&v), o), "observers do not modify the object"); VF_REACH(); }

/*@GROUP name=varu_rel props=C07,C02,C05 kind=F@*/
void h_varu_rel(void) { ARB_VU(a); ARB_VU(b); view_t oa = vu_view(&a), ob = vu_view(&b);
  unsigned e = oa.idx != ob.idx ? sp_rel6(oa.idx < ob.idx ? -1 : 1) : (oa.idx == 1 ? sp_rel6_f(V_A1(a), V_A1(b)) : sp_rel6(oa.val < ob.val ? -1 : (oa.val > ob.val ? 1 : 0)));
  VF_ASSERT(vu_rel6(&a, &b) == e, "variant<unsigned,float,unsigned> ==,!=,<,<=,>,>= for all nine index pairs: index 0 and index 2 are DIFFERENT alternatives (unequal, 0 < 2) although both are unsigned; same index applies the operator to the values (float: partial order)");
  VF_REACH(); }

/*@GROUP name=varu_visit props=C07,C02,C05 kind=F@*/
void h_varu_visit(void) { ARB_VU(a); ARB_VD(d); ARB_FLOG(lg); VF_INPUT(unsigned char, which); view_t oa = vu_view(&a), od = vd_view(&d); int ta = oa.idx == 1 ? 3 : 2;
  _Bool arg_ok = 1;
  if (which == 0) { long r = vu_visit(&a, &lg); VF_ASSERT(lg.calls == 1 && lg.which == ta && r == (oa.idx == 1 ? -2L : 7L + oa.val), "visit: the overload for the TYPE of the active alternative is called once (unsigned for index 0 and 2), result returned unchanged"); }
  else if (which == 1) { int r = vu_visit_mut(&a, &lg); VF_ASSERT(lg.calls == 1 && lg.which == ta && r == (oa.idx == 1 ? 12 : 11) && VU_WF(a) && view_eq(vu_view(&a), mk(oa.idx, oa.idx == 1 ? 0x40200000L : (long)(unsigned)~(unsigned)oa.val)), "visit (mutable): reference to the active alternative, index unchanged"); }
  else if (which == 2) { long r = vu_visit_with_index(&a, &lg); VF_ASSERT(lg.calls == 1 && (unsigned)lg.which == oa.idx && lg.which2 == ta && r == 40L + (long)oa.idx, "visit_with_index: the active INDEX (0, 1 or 2) with an alternative of the matching type"); }
  else if (which == 3) { long r = vu_vd_visit(&a, &d, &lg); VF_ASSERT(lg.calls == 1 && lg.which == ta * 8 + 1 && lg.arg2 == od.val && r == 60L + ta * 8 + 1, "visit over variant<unsigned,float,unsigned> x variant<int,int>: once, with the pair of active alternatives, for all six index pairs"); }
  else { long r = vu_vd_visit_with_index(&a, &d, &lg); VF_ASSERT(lg.calls == 1 && lg.which == (int)(oa.idx * 8 + od.idx) && lg.which2 == ta * 8 + 1 && lg.arg2 == od.val && r == 50L + (long)(oa.idx * 8 + od.idx), "visit_with_index over two variants with repeated types: both active indices"); }
  arg_ok = oa.idx == 1 ? fbits(lg.farg) == (unsigned)oa.val : lg.arg == oa.val;
  VF_ASSERT(arg_ok, "the visitor sees the value of the active alternative (floats bit-exact)");
  VF_ASSERT((which == 1 || view_eq(vu_view(&a), oa)) && view_eq(vd_view(&d), od), "visiting leaves the variants unchanged"); VF_REACH(); }

/* ======================================================================================================= variant<int>: a single alternative */
/*@GROUP name=var1 props=C07,C02,C05 kind=F@*/
void h_var1(void) { ARB_V1(a); ARB_V1(b); ARB_VD(d); VF_INPUT(V1, t); ARB_FLOG(lg); ARB_FLOG(l2); VF_INPUT(unsigned char, which); VF_INPUT(int, x); VF_INPUT(short, s); view_t oa = v1_view(&a), ob = v1_view(&b), od = vd_view(&d);
  VF_ASSERT(v1_rel6(&a, &b) == sp_rel6(sp_cmp(oa, ob)), "variant<int> relational operators compare the values");
  VF_ASSERT(v1_index(&a) == 0 && v1_holds_int(&a) == 1 && v1_get_if_0(&a) == &V_A0(a) && v1_cget_if_int(&a) == &V_A0(a) && v1_uget_0(&a) == &V_A0(a) && v1_csub_0(&a) == &V_A0(a) && v1_get_if_0((V1 *)0) == (int *)0, "index / holds_alternative / get_if / unchecked_get / operator[] on a one-alternative variant");
  { long r = v1_visit(&a, &l2); VF_ASSERT(l2.calls == 1 && l2.which == 1 && l2.arg == oa.val && r == 3L * oa.val + 1L && view_eq(v1_view(&a), oa), "visit on variant<int> (size-1 shortcut)"); }
  if (which == 0) { v1_default(&t); VF_ASSERT(V1_WF(t) && view_eq(v1_view(&t), mk(0, 0)), "variant<int>() value-initialises"); }
  else if (which == 1) { v1_from_int(&t, &x); VF_ASSERT(V1_WF(t) && view_eq(v1_view(&t), mk(0, x)), "variant<int>(int)"); }
  else if (which == 2) { v1_from_short(&t, s); VF_ASSERT(V1_WF(t) && view_eq(v1_view(&t), mk(0, s)), "variant<int>(short)"); }
  else if (which == 3) { v1_inplace_0(&t, x); VF_ASSERT(V1_WF(t) && view_eq(v1_view(&t), mk(0, x)), "variant<int>(in_place_index<0>, x)"); }
  else if (which == 4) { v1_inplace_t(&t, x); VF_ASSERT(V1_WF(t) && view_eq(v1_view(&t), mk(0, x)), "variant<int>(in_place_type<int>, x)"); }
  else if (which == 5) { v1_copy_ctor(&t, &b); VF_ASSERT(V1_WF(t) && view_eq(v1_view(&t), ob) && view_eq(v1_view(&b), ob), "copy construction"); }
  else if (which == 6) { v1_move_ctor(&t, &b); VF_ASSERT(V1_WF(t) && view_eq(v1_view(&t), ob), "move construction"); }
  else if (which == 7) { V1 *p = v1_copy_assign(&a, &b); VF_ASSERT(p == &a && V1_WF(a) && view_eq(v1_view(&a), ob) && view_eq(v1_view(&b), ob), "copy assignment"); }
  else if (which == 8) { V1 *p = v1_move_assign(&a, &b); VF_ASSERT(p == &a && V1_WF(a) && view_eq(v1_view(&a), ob), "move assignment"); }
  else if (which == 9) { V1 *p = v1_assign_int(&a, &x); VF_ASSERT(p == &a && V1_WF(a) && view_eq(v1_view(&a), mk(0, x)), "v = int"); }
  else if (which == 10) { int *p = v1_emplace_0(&a, &x); VF_ASSERT(p == &V_A0(a) && V1_WF(a) && view_eq(v1_view(&a), mk(0, x)), "emplace<0>"); }
  else if (which == 11) { int *p = v1_emplace_t(&a, x); VF_ASSERT(p == &V_A0(a) && V1_WF(a) && view_eq(v1_view(&a), mk(0, x)), "emplace<int>"); }
  else if (which == 12) { v1_swap_free(&a, &b); VF_ASSERT(V1_WF(a) && V1_WF(b) && view_eq(v1_view(&a), ob) && view_eq(v1_view(&b), oa), "swap"); }
  else if (which == 13) { int r = v1_visit_mut(&a, &lg); VF_ASSERT(r == 10 && lg.calls == 1 && lg.arg == oa.val && V1_WF(a) && view_eq(v1_view(&a), mk(0, (long)((int)oa.val ^ 0x5a5a))), "visit (mutable) on variant<int>"); }
  else if (which == 14) { long r = v1_visit_with_index(&a, &lg); VF_ASSERT(lg.calls == 1 && lg.which == 0 && lg.which2 == 1 && lg.arg == oa.val && r == 40L, "visit_with_index on variant<int>: index 0"); }
  else if (which == 15) { long r = v1_visit2(&a, &b, &lg); VF_ASSERT(lg.calls == 1 && lg.which == 9 && lg.arg == oa.val && lg.arg2 == ob.val && r == 69L, "visit(f, a, b) on two one-alternative variants"); }
  else { long r = v1_vd_visit_with_index(&a, &d, &lg); VF_ASSERT(lg.calls == 1 && lg.which == (int)od.idx && lg.which2 == 9 && lg.arg == oa.val && lg.arg2 == od.val && r == 50L + (long)od.idx, "visit_with_index over variant<int> x variant<int,int>"); }
  VF_REACH(); }

/* ======================================================================================================= expected<int,int>: T and E are the same type */
/*@GROUP name=expi_state props=C07,C02,C05 kind=F@*/
void h_expi_state(void) { ARB_EI(s); VF_INPUT(EI, t); VF_INPUT(unsigned char, which); VF_INPUT(int, x); view_t os = ei_view(&s), e; EI *r = &t;
  if (which == 0) { ei_default(&t); e = mk(0, 0); } else if (which == 1) { ei_inplace(&t, x); e = mk(0, x); } else if (which == 2) { ei_unexpect(&t, x); e = mk(1, x); }
  else if (which == 3) { ei_copy_ctor(&t, &s); e = os; } else if (which == 4) { ei_move_ctor(&t, &s); e = os; }
  else if (which == 5) { __CPROVER_assume(E_WF(t)); r = ei_copy_assign(&t, &s); e = os; } else if (which == 6) { __CPROVER_assume(E_WF(t)); r = ei_move_assign(&t, &s); e = os; }
  else if (which == 7) { r = ei_copy_assign(&s, &s); t = s; e = os; }
  else if (which == 8) { __CPROVER_assume(E_WF(t)); int *p = ei_emplace(&t, &x); e = mk(0, x); VF_ASSERT(p == &E_VAL(t), "emplace returns a reference to the value"); }
  else { __CPROVER_assume(E_WF(t)); view_t ot = ei_view(&t); ei_swap_free(&t, &s); VF_ASSERT(E_WF(s) && view_eq(ei_view(&s), ot), "swap: the other operand receives this view"); e = os; os = ot; }
  VF_ASSERT(E_WF(t) && view_eq(ei_view(&t), e), "expected<int,int>: in_place constructs the VALUE, unexpect the ERROR although both are int; copy/move/assignment/swap carry the value-or-error state; emplace makes it a value");
  VF_ASSERT(ei_has_value(&t) == (e.idx == 0) && r == (which == 7 ? &s : &t), "has_value afterwards; assignment returns *this");
  VF_ASSERT(E_WF(s) && view_eq(ei_view(&s), os), "the source is unchanged (swap: exchanged)"); VF_REACH(); }

/*@GROUP name=expi_observers props=C07,C02,C05 kind=F@*/
void h_expi_observers(void) { ARB_EI(e); VF_INPUT(int, d); view_t v = ei_view(&e); _Bool hv = v.idx == 0;
  VF_ASSERT(ei_has_value(&e) == hv && ei_bool(&e) == hv, "has_value / operator bool");
  if (hv) VF_ASSERT(ei_arrow(&e) == &E_VAL(e) && ei_carrow(&e) == &E_VAL(e) && ei_deref(&e) == &E_VAL(e) && ei_cderef(&e) == &E_VAL(e) && *ei_cderef(&e) == (int)v.val, "operator-> / operator* refer to the value");
  else VF_ASSERT(ei_error(&e) == &E_ERR(e) && ei_cerror(&e) == &E_ERR(e) && *ei_cerror(&e) == (int)v.val, "error() refers to the error");
  VF_ASSERT(ei_value_or(&e, d) == (hv ? (int)v.val : d) && ei_value_or_rv(&e, d) == (hv ? (int)v.val : d), "value_or: the value if present, else the fallback - never the error, although it has the same type");
  VF_ASSERT(view_eq(ei_view(&e), v), "observers do not modify the object"); VF_REACH(); }

/*@GROUP name=expi_monadic props=C07,C02,C05 kind=F@*/
void h_expi_monadic(void) { ARB_EI(e); VF_INPUT(ELI, r); VF_INPUT(EI, q); ARB_FLOG(lg); VF_INPUT(unsigned char, which); view_t v = ei_view(&e); _Bool hv = v.idx == 0;
  if (which <= 1) { if (which == 0) ei_and_then(&r, &e, &lg); else ei_and_then_crv(&r, &e, &lg);
    VF_ASSERT(lg.calls == (hv ? 1 : 0) && (!hv || lg.arg == v.val), "and_then calls f exactly once with the value iff has_value");
    VF_ASSERT(E_WF(r) && view_eq(eli_view(&r), hv ? ((v.val & 1) == 0 ? mk(0, 3L * v.val + 1L) : mk(1, v.val - 1)) : mk(1, v.val)), "and_then returns f(*e) unchanged, or propagates the error AS AN ERROR into expected<long,int>"); }
  else { if (which == 2) ei_or_else(&q, &e, &lg); else ei_or_else_c(&q, &e, &lg);
    VF_ASSERT(lg.calls == (hv ? 0 : 1) && (hv || lg.arg == v.val), "or_else calls f exactly once with the error iff !has_value");
    VF_ASSERT(E_WF(q) && view_eq(ei_view(&q), hv ? v : (v.val >= 0 ? mk(0, v.val / 2) : mk(1, v.val + 1))), "or_else propagates the value AS A VALUE, or returns f(error()) unchanged"); }
  VF_ASSERT(view_eq(ei_view(&e), v), "monadic operations leave the object unchanged"); VF_REACH(); }

/* ======================================================================================================= optional<bool>: value and engaged flag are both bool */
/*@GROUP name=optb_state props=C07,C02,C05 kind=F@*/
void h_optb_state(void) { ARB_OB(a); ARB_OB(b); VF_INPUT(OB, t); VF_INPUT(unsigned char, which); VF_INPUT_BOOL(x); view_t oa = ob_view(&a), ob = ob_view(&b);
  if (which == 0) { ob_default(&t); VF_ASSERT(O_IDX(t) == 0, "optional<bool>() is disengaged"); }
  else if (which == 1) { ob_value(&t, &x); VF_ASSERT(OB_WF(t) && view_eq(ob_view(&t), mk(1, x)), "optional<bool>(b) is ENGAGED for both true and false and holds b"); }
  else if (which == 2) { ob_inplace(&t, x); VF_ASSERT(OB_WF(t) && view_eq(ob_view(&t), mk(1, x)), "optional<bool>(in_place, b)"); }
  else if (which == 3) { ob_make(&t, x); VF_ASSERT(OB_WF(t) && view_eq(ob_view(&t), mk(1, x)), "make_optional(b)"); }
  else if (which == 4) { ob_copy_ctor(&t, &b); VF_ASSERT(O_WF(t) && view_eq(ob_view(&t), ob) && view_eq(ob_view(&b), ob), "copy construction"); }
  else if (which == 5) { OB *p = ob_copy_assign(&a, &b); VF_ASSERT(p == &a && O_WF(a) && view_eq(ob_view(&a), ob) && view_eq(ob_view(&b), ob), "copy assignment, all state pairs"); }
  else if (which == 6) { OB *p = ob_assign_value(&a, &x); VF_ASSERT(p == &a && OB_WF(a) && view_eq(ob_view(&a), mk(1, x)), "o = b engages (also for b == false) and stores b"); }
  else if (which == 7) { OB *p = ob_assign_nullopt(&a); VF_ASSERT(p == &a && view_eq(ob_view(&a), mk(0, 0)), "o = nullopt"); }
  else if (which == 8) { _Bool *p = ob_emplace(&a, &x); VF_ASSERT(p == &O_VAL(a) && OB_WF(a) && view_eq(ob_view(&a), mk(1, x)), "emplace(b)"); }
  else if (which == 9) { ob_reset(&a); VF_ASSERT(view_eq(ob_view(&a), mk(0, 0)), "reset"); }
  else { ob_swap(&a, &b); VF_ASSERT(O_WF(a) && O_WF(b) && view_eq(ob_view(&a), ob) && view_eq(ob_view(&b), oa), "swap, all state pairs"); }
  VF_REACH(); }

/*@GROUP name=optb_observers props=C07,C02,C05 kind=F@*/
void h_optb_observers(void) { ARB_OB(o); VF_INPUT(OI, r); VF_INPUT(OB, q); ARB_FLOG(lg); ARB_FLOG(l2); VF_INPUT_BOOL(d); VF_INPUT_BOOL(fv); VF_INPUT_BOOL(fe); view_t v = ob_view(&o); _Bool en = v.idx == 1;
  VF_ASSERT(ob_has_value(&o) == en && ob_bool(&o) == en && ob_not(&o) == !en, "has_value / explicit operator bool / !o report the ENGAGED flag, not the contained bool (an engaged false is true)");
  VF_ASSERT(ob_carrow(&o) == (en ? &O_VAL(o) : (_Bool *)0) && (!en || (ob_cderef(&o) == &O_VAL(o) && *ob_cderef(&o) == (_Bool)v.val)), "operator-> / operator* give the contained bool");
  VF_ASSERT(ob_value_or(&o, d) == (en ? (_Bool)v.val : d) && ob_value_or_rv(&o, d) == (en ? (_Bool)v.val : d), "value_or: the contained bool if engaged (false stays false), else the default");
  ob_and_then(&r, &o, &lg); VF_ASSERT(lg.calls == (en ? 1 : 0) && (!en || lg.arg == v.val) && O_WF(r) && view_eq(oi_view(&r), en && v.val ? mk(1, 11) : mk(0, 0)), "and_then calls f iff engaged (also for an engaged false) with the contained bool");
  ob_or_else(&q, &o, &l2, fv, fe); VF_ASSERT(l2.calls == (en ? 0 : 1) && O_WF(q) && view_eq(ob_view(&q), en ? v : (fe ? mk(1, fv) : mk(0, 0))), "or_else calls f iff disengaged (not for an engaged false)");
  VF_ASSERT(view_eq(ob_view(&o), v), "observers do not modify the object"); VF_REACH(); }

/*@GROUP name=optb_rel props=C07,C02,C05 kind=F@*/
void h_optb_rel(void) { ARB_OB(a); ARB_OB(b); VF_INPUT_BOOL(x); view_t oa = ob_view(&a), ob = ob_view(&b); _Bool en = oa.idx == 1;
  VF_ASSERT(ob_rel6(&a, &b) == sp_rel6(sp_cmp(oa, ob)), "optional<bool> vs optional<bool>: empty < engaged false < engaged true");
  VF_ASSERT(ob_rel6_v(&a, &x) == sp_rel6(sp_cmp(oa, mk(1, x))), "optional<bool> op bool compares the CONTAINED value with the bool (not the engaged flag): nullopt < false < true");
  VF_ASSERT(v_rel6_ob(&x, &a) == sp_rel6(sp_cmp(mk(1, x), oa)), "bool op optional<bool>: mirrored table");
  VF_ASSERT(ob_rel_null(&a) == (en ? (4U | 8U | 32U) : (1U | 2U)), "optional<bool> vs nullopt depends on the engaged flag only"); VF_REACH(); }

/* ======================================================================================================= optional<P2>: trivially copyable, non-scalar value */
/*@GROUP name=optp props=C07,C02,C05 kind=F@*/
void h_optp(void) { ARB_OP(a); ARB_OP(b); VF_INPUT(OP, t); VF_INPUT(P2, x); VF_INPUT(unsigned char, which); view_t ob = op_view(&b), ox = p2_view(&x), oa = op_view(&a);
  if (which == 0) { op_value(&t, &x); VF_ASSERT(O_WF(t) && view_eq(op_view(&t), ox) && op_has_value(&t), "optional<P2>(p)"); }
  else if (which == 1) { OP *r = op_assign_value(&a, &x); VF_ASSERT(r == &a && O_WF(a) && view_eq(op_view(&a), ox), "o = p (lvalue) from both states"); }
  else if (which == 2) { OP *r = op_assign_value_rv(&a, &x); VF_ASSERT(r == &a && O_WF(a) && view_eq(op_view(&a), ox), "o = move(p) from both states"); }
  else if (which == 3) { OP *r = op_copy_assign(&a, &b); VF_ASSERT(r == &a && O_WF(a) && view_eq(op_view(&a), ob) && view_eq(op_view(&b), ob), "o = other, all state pairs"); }
  else if (which == 4) { P2 *p = op_emplace(&a, &x); VF_ASSERT(p == &O_VAL(a) && O_WF(a) && view_eq(op_view(&a), ox), "emplace(p)"); }
  else { __CPROVER_assume(O_IDX(a) == 1); OP *r = &a; /* the argument ALIASES the contained value: [optional.assign] assigns through, the value is preserved */
    if (which == 5) r = op_assign_deref_self(&a); else if (which == 6) r = op_assign_deref_self_rv(&a); else if (which == 7) r = op_assign_arrow_self(&a); else if (which == 8) r = op_assign_value(&a, &O_VAL(a)); else if (which == 9) r = op_assign_value_rv(&a, &O_VAL(a));
    else { P2 *p = op_emplace_deref_self(&a); VF_ASSERT(p == &O_VAL(a), "emplace returns a reference to the contained value"); }
    VF_ASSERT(r == &a && O_WF(a) && view_eq(op_view(&a), oa), "o = *o / o = move(*o) / o = (P2 const&)*o / o.emplace(*o) keep the engaged state and the value"); }
  VF_ASSERT(view_eq(p2_view(&x), ox), "the argument is unchanged"); VF_REACH(); }

/* ======================================================================================================= self-referential arguments */
/* the argument is (a reference to) the object operated on or to its active alternative; std: the value is preserved */
/*@GROUP name=self_ref_opt props=C07,C02,C05 kind=F@*/
void h_self_ref_opt(void) { ARB_OI(o); ARB_OL(l); ARB_OB(b); VF_INPUT(unsigned char, which); __CPROVER_assume(O_IDX(o) == 1 && O_IDX(l) == 1 && O_IDX(b) == 1); view_t vo = oi_view(&o), vl = ol_view(&l), vb = ob_view(&b);
  if (which == 0) { OI *r = oi_assign_deref_self(&o); VF_ASSERT(r == &o, "o = *o returns *this"); } else if (which == 1) { OI *r = oi_assign_deref_self_rv(&o); VF_ASSERT(r == &o, "o = move(*o) returns *this"); }
  else if (which == 2) { OI *r = oi_assign_moved_deref_self(&o); VF_ASSERT(r == &o, "o = *move(o) returns *this"); } else if (which == 3) { int *p = oi_emplace_deref_self(&o); VF_ASSERT(p == &O_VAL(o), "o.emplace(*o) returns the contained value"); }
  else if (which == 4) { OI *r = oi_assign_value(&o, &O_VAL(o)); VF_ASSERT(r == &o, "o = (int const&)*o"); } else if (which == 5) { OL *r = ol_assign_deref_self(&l); VF_ASSERT(r == &l, "optional<long>: o = *o"); }
  else if (which == 6) { OL *r = ol_assign_value(&l, &O_VAL(l)); VF_ASSERT(r == &l, "optional<long>: o = (long const&)*o"); } else if (which == 7) { OB *r = ob_assign_deref_self(&b); VF_ASSERT(r == &b, "optional<bool>: o = *o"); }
  else if (which == 8) { OB *r = ob_assign_value(&b, &O_VAL(b)); VF_ASSERT(r == &b, "optional<bool>: o = (bool const&)*o"); } else if (which == 9) { _Bool *p = ob_emplace(&b, &O_VAL(b)); VF_ASSERT(p == &O_VAL(b), "optional<bool>: o.emplace(*o)"); }
  else { int c = 0; VF_ASSERT(oi_eq_v(&o, &O_VAL(o)) == 1 && v_eq_oi(&O_VAL(o), &o) == 1 && oi_ne_v(&o, &O_VAL(o)) == 0 && oi_lt_v(&o, &O_VAL(o)) == 0 && v_lt_oi(&O_VAL(o), &o) == 0 && oi_le_v(&o, &O_VAL(o)) == 1 && oi_gt_v(&o, &O_VAL(o)) == 0 && oi_ge_v(&o, &O_VAL(o)) == 1 && oi_value_or(&o, O_VAL(o)) == (int)vo.val && c == 0, "an engaged optional compared with its own contained value: equal"); }
  VF_ASSERT(O_WF(o) && O_WF(l) && OB_WF(b) && view_eq(oi_view(&o), vo) && view_eq(ol_view(&l), vl) && view_eq(ob_view(&b), vb), "value assignment / emplace from the optional's own contained value keeps engaged state and value"); VF_REACH(); }

/*@GROUP name=self_ref_var props=C07,C02,C05 kind=F@*/
void h_self_ref_var(void) { ARB_VT(v); ARB_VD(d); ARB_VM(m); ARB_V1(u); VF_INPUT(unsigned char, which); view_t ov = vt_view(&v), od = vd_view(&d), om = vm_view(&m), ou = v1_view(&u);
  if (which == 0) { __CPROVER_assume(V_IDX(v) == 0); VT *r = vt_assign_get0_self(&v); VF_ASSERT(r == &v, "v = get<0>(v) returns *this"); }
  else if (which == 1) { __CPROVER_assume(V_IDX(v) == 1); VT *r = vt_assign_get1_self(&v); VF_ASSERT(r == &v, "v = get<1>(v) returns *this"); }
  else if (which == 2) { __CPROVER_assume(V_IDX(v) == 2); VT *r = vt_assign_get2_self(&v); VF_ASSERT(r == &v, "v = get<2>(v) returns *this"); }
  else if (which == 3) { __CPROVER_assume(V_IDX(v) == 2); VT *r = vt_assign_get2_self_rv(&v); VF_ASSERT(r == &v, "v = get<2>(move(v)) returns *this"); }
  else if (which == 4) { __CPROVER_assume(V_IDX(v) == 2); long *p = vt_emplace2_get2_self(&v); VF_ASSERT(p == &V_A2(v), "v.emplace<2>(get<2>(v))"); }
  else if (which == 5) { __CPROVER_assume(V_IDX(v) == 1); char *p = vt_emplace_t_char_self(&v); VF_ASSERT(p == &V_A1(v), "v.emplace<char>(*get_if<char>(&v))"); }
  else if (which == 6) { __CPROVER_assume(V_IDX(v) == 0); VT *r = vt_assign_int(&v, &V_A0(v)); VF_ASSERT(r == &v, "v = (int const&)get<0>(v)"); }
  else if (which == 7) { __CPROVER_assume(V_IDX(d) == 1); int *p = vd_emplace1_get1_self(&d); VF_ASSERT(p == &V_A1(d), "variant<int,int>: v.emplace<1>(get<1>(v))"); }
  else if (which == 8) { __CPROVER_assume(V_IDX(d) == 0); int *p = vd_emplace_0(&d, &V_A0(d)); VF_ASSERT(p == &V_A0(d), "variant<int,int>: v.emplace<0>(get<0>(v))"); }
  else if (which == 9) { __CPROVER_assume(V_IDX(m) == 1); VM *r = vm_assign_get1_self(&m); VF_ASSERT(r == &m, "variant<monostate,int>: v = get<1>(v)"); }
  else if (which == 10) { V1 *r = v1_assign_get0_self(&u); VF_ASSERT(r == &u, "variant<int>: v = get<0>(v)"); }
  else if (which == 11) { V1 *r = v1_assign_int(&u, &V_A0(u)); VF_ASSERT(r == &u, "variant<int>: v = (int const&)get<0>(v)"); }
  else if (which == 12) { int *p = v1_emplace_0(&u, &V_A0(u)); VF_ASSERT(p == &V_A0(u), "variant<int>: v.emplace<0>(get<0>(v))"); }
  else if (which == 13) { vt_swap_self(&v); } else if (which == 14) { VT *r = vt_move_assign(&v, &v); VF_ASSERT(r == &v, "v = move(v) returns *this"); }
  else { VM *r = vm_move_assign(&m, &m); VF_ASSERT(r == &m, "variant<monostate,int>: v = move(v)"); }
  VF_ASSERT(VT_WF(v) && VD_WF(d) && VM_WF(m) && V1_WF(u) && view_eq(vt_view(&v), ov) && view_eq(vd_view(&d), od) && view_eq(vm_view(&m), om) && view_eq(v1_view(&u), ou), "assignment / emplace from the variant's own active alternative, self-swap and self-move-assignment keep index and value"); VF_REACH(); }

/*@GROUP name=self_ref_exp props=C07,C02,C05 kind=F@*/
void h_self_ref_exp(void) { ARB_EX(e); ARB_EI(i); VF_INPUT(unsigned char, which); view_t oe = ex_view(&e), oi = ei_view(&i);
  if (which == 0) { __CPROVER_assume(E_IDX(e) == 0); int *p = ex_emplace_deref_self(&e); VF_ASSERT(p == &E_VAL(e), "e.emplace(*e) returns the value"); }
  else if (which == 1) { __CPROVER_assume(E_IDX(i) == 0); int *p = ei_emplace_deref_self(&i); VF_ASSERT(p == &E_VAL(i), "expected<int,int>: e.emplace(*e)"); }
  else if (which == 2) { __CPROVER_assume(E_IDX(i) == 0); int *p = ei_emplace(&i, &E_VAL(i)); VF_ASSERT(p == &E_VAL(i), "expected<int,int>: e.emplace((int const&)*e)"); }
  else if (which == 3) { EX *r = ex_move_assign_self(&e); VF_ASSERT(r == &e, "e = move(e) returns *this"); }
  else if (which == 4) { ex_swap_self(&e); } else { EI *r = ei_move_assign(&i, &i); VF_ASSERT(r == &i, "expected<int,int>: e = move(e)"); }
  VF_ASSERT(E_WF(e) && E_WF(i) && view_eq(ex_view(&e), oe) && view_eq(ei_view(&i), oi), "emplace from the expected's own value, self-swap and self-move-assignment keep the value-or-error state"); VF_REACH(); }

/* ======================================================================================================= C05: violated preconditions */
/*@GROUP name=viol_opt props=C05,C02 kind=F@*/
void h_viol_opt(void) { ARB_OI(o); VF_INPUT(unsigned char, op); __CPROVER_assume(O_IDX(o) == 0); EXPECT_VIOLATION(K_OI, o);
  if (op == 0) oi_deref(&o); else if (op == 1) oi_cderef(&o); else if (op == 2) oi_deref_rv(&o); else oi_cderef_rv(&o);
  VF_NORETURN_EXPECTED(); }

/*@GROUP name=viol_exp props=C05,C02 kind=F@*/
void h_viol_exp(void) { ARB_EX(e); VF_INPUT(unsigned char, op); __CPROVER_assume(op < 8 && E_IDX(e) == (op < 4 ? 1 : 0)); EXPECT_VIOLATION(K_EX, e);
  if (op == 0) ex_deref(&e); else if (op == 1) ex_cderef(&e); else if (op == 2) ex_deref_rv(&e); else if (op == 3) ex_cderef_rv(&e);
  else if (op == 4) ex_error(&e); else if (op == 5) ex_cerror(&e); else if (op == 6) ex_error_rv(&e); else ex_cerror_rv(&e);
  VF_NORETURN_EXPECTED(); }

/*@GROUP name=viol_var props=C05,C02 kind=F@*/
void h_viol_var(void) { ARB_VT(v); VF_INPUT(unsigned char, op); VF_INPUT(unsigned char, k); __CPROVER_assume(k <= 2 && k != V_IDX(v) && op <= 6);
  VF_KNOWN(C05_variant_subscript_shadow, op >= 4); EXPECT_VIOLATION(K_VT, v);
  if (k == 0) { if (op == 0) vt_uget_0(&v); else if (op == 1) vt_cuget_0(&v); else if (op == 2) vt_uget_rv_0(&v); else if (op == 3) vt_cuget_rv_0(&v); else if (op == 4) vt_sub_0(&v); else if (op == 5) vt_csub_0(&v); else vt_sub_rv_0(&v); }
  else if (k == 1) { if (op == 0) vt_uget_1(&v); else if (op == 1) vt_cuget_1(&v); else if (op == 2) vt_uget_rv_1(&v); else if (op == 3) vt_cuget_rv_1(&v); else if (op == 4) vt_sub_1(&v); else if (op == 5) vt_csub_1(&v); else vt_csub_rv_1(&v); }
  else { if (op == 0) vt_uget_2(&v); else if (op == 1) vt_cuget_2(&v); else if (op == 2) vt_uget_rv_2(&v); else if (op == 3) vt_cuget_rv_2(&v); else if (op == 4) vt_sub_2(&v); else if (op == 5) vt_csub_2(&v); else vt_sub_rv_2(&v); }
  VF_NORETURN_EXPECTED(); }

/*@GROUP name=viol_vard props=C05,C02 kind=F@*/
void h_viol_vard(void) { ARB_VD(v); VF_INPUT(unsigned char, op); VF_INPUT(unsigned char, k); __CPROVER_assume(k <= 1 && k != V_IDX(v) && op <= 4); EXPECT_VIOLATION(K_VD, v);
  /* variant<int,int>: the OTHER int is not the active alternative - the contract is on the index, not on the type */
  if (k == 0) { if (op == 0) vd_uget_0(&v); else if (op == 1) vd_cuget_0(&v); else if (op == 2) vd_uget_rv_0(&v); else if (op == 3) vd_sub_0(&v); else vd_csub_0(&v); }
  else { if (op == 0) vd_uget_1(&v); else if (op == 1) vd_cuget_1(&v); else if (op == 2) vd_cuget_rv_1(&v); else if (op == 3) vd_sub_1(&v); else vd_csub_1(&v); }
  VF_NORETURN_EXPECTED(); }

/*@GROUP name=viol_expi props=C05,C02 kind=F@*/
void h_viol_expi(void) { ARB_EI(e); VF_INPUT(unsigned char, op); __CPROVER_assume(op < 4 && E_IDX(e) == (op < 2 ? 1 : 0)); EXPECT_VIOLATION(K_EI, e);
  if (op == 0) ei_deref(&e); else if (op == 1) ei_cderef(&e); else if (op == 2) ei_error(&e); else ei_cerror(&e);
  VF_NORETURN_EXPECTED(); }
