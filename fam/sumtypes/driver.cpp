// driver: optional<int>, optional<long>, variant<int,char,long>, variant<monostate,int>, expected<int,char>, unexpected<char> (C07, C05, C02)
// only trivially destructible alternatives: the non-trivial lifetime path belongs to another family
#include <etl/optional.hpp>
#include <etl/variant.hpp>
#include <etl/expected.hpp>
#include <etl/utility.hpp>
#include <etl/functional.hpp>
#include <etl/new.hpp>
#define VF_E extern "C"
#if defined(VF_LOWERING)
// clang-14 (the lowering front end) instantiates detail::variant_alternative_selector<Ts...> eagerly while it instantiates the class
// variant<Ts...>; for a REPEATED alternative type its initialiser overload{single<int>{}, single<int>{}} has a duplicate direct base
// (hard error in clang-14 only: g++ 12 and clang-16 instantiate it lazily, i.e. never for the index-based API). The selector is used
// by variant(T&&) / operator=(T&&) only, which no entry point below calls for these types; the native replay compiles WITHOUT this shim.
namespace etl::detail {
template <>
inline constexpr auto variant_alternative_selector<int, int> = etl::overload{variant_alternative_selector_single<int>{}};
template <>
inline constexpr auto variant_alternative_selector<unsigned, float, unsigned>
    = etl::overload{variant_alternative_selector_single<unsigned>{}, variant_alternative_selector_single<float>{}};
} // namespace etl::detail
#endif
namespace vf {
using etl::size_t;
using OI = etl::optional<int>;
using OL = etl::optional<long>;
using VT = etl::variant<int, char, long>;
using VM = etl::variant<etl::monostate, int>;
using EX = etl::expected<int, char>;
// variant<int,int> / variant<unsigned,float,unsigned> / expected<int,int>: see the VF_LOWERING shim above and the section at the end
using EL = etl::expected<long, char>;
using UX = etl::unexpected<char>;
using UI = etl::unexpected<int>;

// call log of the functors handed to and_then / or_else / visit: the harness owns it
struct log_t { int calls; int which; long arg; long arg2; };

// ---------------------------------------------------------------- optional<int> / optional<long>
VF_E void oi_default(OI* out) { new (out) OI; }
VF_E void oi_value_init(OI* out) { new (out) OI{}; }
VF_E void oi_nullopt(OI* out) { new (out) OI(etl::nullopt); }
VF_E void oi_value(OI* out, int const& x) { new (out) OI(x); }
VF_E void oi_value_rv(OI* out, int x) { new (out) OI(etl::move(x)); }
VF_E void oi_from_short(OI* out, short s) { new (out) OI(s); }
VF_E void oi_from_char(OI* out, char c) { new (out) OI(c); }
VF_E void ol_from_int(OL* out, int x) { new (out) OL(x); }
VF_E void oi_inplace(OI* out, int x) { new (out) OI(etl::in_place, x); }
VF_E void oi_make(OI* out, int x) { new (out) OI(etl::make_optional(x)); }
VF_E void oi_make_t(OI* out, short x) { new (out) OI(etl::make_optional<int>(x)); }
VF_E void oi_copy_ctor(OI* out, OI const& o) { new (out) OI(o); }
VF_E void oi_move_ctor(OI* out, OI& o) { new (out) OI(etl::move(o)); }
VF_E void oi_from_ol(OI* out, OL const& o) { new (out) OI(o); }
VF_E void oi_from_ol_rv(OI* out, OL& o) { new (out) OI(etl::move(o)); }
VF_E void ol_from_oi(OL* out, OI const& o) { new (out) OL(o); }
VF_E void ol_from_oi_rv(OL* out, OI& o) { new (out) OL(etl::move(o)); }

VF_E OI* oi_assign_nullopt(OI& a) { return &(a = etl::nullopt); }
VF_E OI* oi_assign_braces(OI& a) { return &(a = {}); }
VF_E OI* oi_copy_assign(OI& a, OI const& b) { return &(a = b); }
VF_E OI* oi_move_assign(OI& a, OI& b) { return &(a = etl::move(b)); }
VF_E OI* oi_assign_value(OI& a, int const& x) { return &(a = x); }
VF_E OI* oi_assign_value_rv(OI& a, int x) { return &(a = etl::move(x)); }
VF_E OI* oi_assign_short(OI& a, short s) { return &(a = s); }
VF_E OL* ol_assign_int(OL& a, int x) { return &(a = x); }
VF_E OI* oi_assign_ol(OI& a, OL const& b) { return &(a = b); }
VF_E OI* oi_assign_ol_rv(OI& a, OL& b) { return &(a = etl::move(b)); }
VF_E OL* ol_assign_oi(OL& a, OI const& b) { return &(a = b); }
VF_E OL* ol_assign_oi_rv(OL& a, OI& b) { return &(a = etl::move(b)); }
VF_E int* oi_emplace(OI& a, int x) { return &a.emplace(x); }
VF_E long* ol_emplace_short(OL& a, short x) { return &a.emplace(x); }
VF_E void oi_reset(OI& a) { a.reset(); }
VF_E void oi_swap(OI& a, OI& b) { a.swap(b); }
VF_E void oi_swap_free(OI& a, OI& b) { swap(a, b); }

VF_E bool oi_has_value(OI const& o) { return o.has_value(); }
VF_E bool oi_bool(OI const& o) { return static_cast<bool>(o); }
VF_E bool ol_has_value(OL const& o) { return o.has_value(); }
VF_E int* oi_deref(OI& o) { return &*o; }
VF_E int const* oi_cderef(OI const& o) { return &*o; }
VF_E int* oi_deref_rv(OI& o) { int&& r = *etl::move(o); return &r; }
VF_E int const* oi_cderef_rv(OI const& o) { int const&& r = *etl::move(o); return &r; }
VF_E int* oi_arrow(OI& o) { return o.operator->(); }
VF_E int const* oi_carrow(OI const& o) { return o.operator->(); }
VF_E int oi_value_or(OI const& o, int d) { return o.value_or(d); }
VF_E int oi_value_or_rv(OI& o, int d) { return etl::move(o).value_or(d); }
VF_E int oi_value_or_short(OI const& o, short d) { return o.value_or(d); }
VF_E long ol_value_or_int(OL const& o, int d) { return o.value_or(d); }
VF_E size_t oi_hash(OI const& o) { return etl::hash<OI>{}(o); }
VF_E size_t int_hash(int x) { return etl::hash<int>{}(x); }

// x -> optional<long>: engaged with 3*x+1 for even x, disengaged for odd x
struct f_step {
    log_t* log;
    auto operator()(int x) const -> OL
    {
        log->calls++;
        log->arg = x;
        if ((x & 1) != 0) { return OL{}; }
        return OL{3L * x + 1L};
    }
};
struct f_fallback {
    log_t* log;
    int v;
    bool engaged;
    auto operator()() const -> OI
    {
        log->calls++;
        return engaged ? OI{v} : OI{};
    }
};
VF_E void oi_and_then(OL* out, OI& o, log_t* log) { new (out) OL(o.and_then(f_step{log})); }
VF_E void oi_and_then_c(OL* out, OI const& o, log_t* log) { new (out) OL(o.and_then(f_step{log})); }
VF_E void oi_and_then_rv(OL* out, OI& o, log_t* log) { new (out) OL(etl::move(o).and_then(f_step{log})); }
VF_E void oi_and_then_crv(OL* out, OI const& o, log_t* log) { new (out) OL(etl::move(o).and_then(f_step{log})); }
VF_E void oi_or_else(OI* out, OI const& o, log_t* log, int v, bool engaged) { new (out) OI(o.or_else(f_fallback{log, v, engaged})); }
VF_E void oi_or_else_rv(OI* out, OI& o, log_t* log, int v, bool engaged) { new (out) OI(etl::move(o).or_else(f_fallback{log, v, engaged})); }

// optional<long>: the same members at a second value type
VF_E void ol_default(OL* out) { new (out) OL; }
VF_E void ol_copy_ctor(OL* out, OL const& o) { new (out) OL(o); }
VF_E void ol_move_ctor(OL* out, OL& o) { new (out) OL(etl::move(o)); }
VF_E OL* ol_copy_assign(OL& a, OL const& b) { return &(a = b); }
VF_E OL* ol_move_assign(OL& a, OL& b) { return &(a = etl::move(b)); }
VF_E OL* ol_assign_nullopt(OL& a) { return &(a = etl::nullopt); }
VF_E OL* ol_assign_value(OL& a, long const& x) { return &(a = x); }
VF_E void ol_reset(OL& a) { a.reset(); }
VF_E void ol_swap(OL& a, OL& b) { a.swap(b); }
VF_E long* ol_deref(OL& o) { return &*o; }
VF_E long const* ol_carrow(OL const& o) { return o.operator->(); }
VF_E bool ol_eq(OL const& a, OL const& b) { return a == b; }
VF_E bool ol_ne(OL const& a, OL const& b) { return a != b; }
VF_E bool ol_lt(OL const& a, OL const& b) { return a < b; }
VF_E bool ol_le(OL const& a, OL const& b) { return a <= b; }
VF_E bool ol_gt(OL const& a, OL const& b) { return a > b; }
VF_E bool ol_ge(OL const& a, OL const& b) { return a >= b; }

// relational: same type, mixed optional<int>/optional<long>, nullopt, value
VF_E bool oi_eq(OI const& a, OI const& b) { return a == b; }
VF_E bool oi_ne(OI const& a, OI const& b) { return a != b; }
VF_E bool oi_lt(OI const& a, OI const& b) { return a < b; }
VF_E bool oi_le(OI const& a, OI const& b) { return a <= b; }
VF_E bool oi_gt(OI const& a, OI const& b) { return a > b; }
VF_E bool oi_ge(OI const& a, OI const& b) { return a >= b; }
VF_E bool oil_eq(OI const& a, OL const& b) { return a == b; }
VF_E bool oil_ne(OI const& a, OL const& b) { return a != b; }
VF_E bool oil_lt(OI const& a, OL const& b) { return a < b; }
VF_E bool oil_le(OI const& a, OL const& b) { return a <= b; }
VF_E bool oil_gt(OI const& a, OL const& b) { return a > b; }
VF_E bool oil_ge(OI const& a, OL const& b) { return a >= b; }
VF_E bool oli_eq(OL const& a, OI const& b) { return a == b; }
VF_E bool oli_lt(OL const& a, OI const& b) { return a < b; }
VF_E bool oi_eq_null(OI const& a) { return a == etl::nullopt; }
VF_E bool null_eq_oi(OI const& a) { return etl::nullopt == a; }
VF_E bool oi_ne_null(OI const& a) { return a != etl::nullopt; }
VF_E bool null_ne_oi(OI const& a) { return etl::nullopt != a; }
VF_E bool oi_lt_null(OI const& a) { return a < etl::nullopt; }
VF_E bool null_lt_oi(OI const& a) { return etl::nullopt < a; }
VF_E bool oi_eq_v(OI const& a, int const& x) { return a == x; }
VF_E bool v_eq_oi(int const& x, OI const& a) { return x == a; }
VF_E bool oi_ne_v(OI const& a, int const& x) { return a != x; }
VF_E bool v_ne_oi(int const& x, OI const& a) { return x != a; }
VF_E bool oi_lt_v(OI const& a, int const& x) { return a < x; }
VF_E bool v_lt_oi(int const& x, OI const& a) { return x < a; }
VF_E bool oi_le_v(OI const& a, int const& x) { return a <= x; }
VF_E bool v_le_oi(int const& x, OI const& a) { return x <= a; }
VF_E bool oi_gt_v(OI const& a, int const& x) { return a > x; }
VF_E bool v_gt_oi(int const& x, OI const& a) { return x > a; }
VF_E bool oi_ge_v(OI const& a, int const& x) { return a >= x; }
VF_E bool v_ge_oi(int const& x, OI const& a) { return x >= a; }
VF_E bool oi_eq_lv(OI const& a, long const& x) { return a == x; }
VF_E bool oi_lt_lv(OI const& a, long const& x) { return a < x; }
VF_E bool lv_lt_oi(long const& x, OI const& a) { return x < a; }

// ---------------------------------------------------------------- variant<int,char,long>
VF_E void vt_default(VT* out) { new (out) VT; }
VF_E void vt_from_int(VT* out, int const& x) { new (out) VT(x); }
VF_E void vt_from_int_rv(VT* out, int x) { new (out) VT(etl::move(x)); }
VF_E void vt_from_char(VT* out, char x) { new (out) VT(x); }
VF_E void vt_from_long(VT* out, long x) { new (out) VT(x); }
VF_E void vt_from_short(VT* out, short x) { new (out) VT(x); }
VF_E void vt_from_uchar(VT* out, unsigned char x) { new (out) VT(x); }
VF_E void vt_from_schar(VT* out, signed char x) { new (out) VT(x); }
VF_E void vt_from_bool(VT* out, bool x) { new (out) VT(x); }
VF_E void vt_inplace_i0(VT* out, int x) { new (out) VT(etl::in_place_index<0>, x); }
VF_E void vt_inplace_i1(VT* out, char x) { new (out) VT(etl::in_place_index<1>, x); }
VF_E void vt_inplace_i2(VT* out, long x) { new (out) VT(etl::in_place_index<2>, x); }
VF_E void vt_inplace_i2_int(VT* out, int x) { new (out) VT(etl::in_place_index<2>, x); }
VF_E void vt_inplace_t_int(VT* out, int x) { new (out) VT(etl::in_place_type<int>, x); }
VF_E void vt_inplace_t_char(VT* out, char x) { new (out) VT(etl::in_place_type<char>, x); }
VF_E void vt_inplace_t_long(VT* out, long x) { new (out) VT(etl::in_place_type<long>, x); }
VF_E void vt_copy_ctor(VT* out, VT const& o) { new (out) VT(o); }
VF_E void vt_move_ctor(VT* out, VT& o) { new (out) VT(etl::move(o)); }
VF_E VT* vt_copy_assign(VT& a, VT const& b) { return &(a = b); }
VF_E VT* vt_move_assign(VT& a, VT& b) { return &(a = etl::move(b)); }
VF_E VT* vt_assign_int(VT& a, int const& x) { return &(a = x); }
VF_E VT* vt_assign_char(VT& a, char x) { return &(a = x); }
VF_E VT* vt_assign_long(VT& a, long x) { return &(a = x); }
VF_E VT* vt_assign_short(VT& a, short x) { return &(a = x); }
VF_E int* vt_emplace_i0(VT& a, int x) { return &a.emplace<0>(x); }
VF_E char* vt_emplace_i1(VT& a, char x) { return &a.emplace<1>(x); }
VF_E long* vt_emplace_i2(VT& a, long x) { return &a.emplace<2>(x); }
VF_E int* vt_emplace_t_int(VT& a, int x) { return &a.emplace<int>(x); }
VF_E char* vt_emplace_t_char(VT& a, char x) { return &a.emplace<char>(x); }
VF_E long* vt_emplace_t_long(VT& a, long x) { return &a.emplace<long>(x); }
VF_E long* vt_emplace_t_long_from_int(VT& a, int x) { return &a.emplace<long>(x); }
VF_E void vt_swap_free(VT& a, VT& b) { swap(a, b); }

VF_E size_t vt_index(VT const& v) { return v.index(); }
VF_E bool vt_holds_int(VT const& v) { return etl::holds_alternative<int>(v); }
VF_E bool vt_holds_char(VT const& v) { return etl::holds_alternative<char>(v); }
VF_E bool vt_holds_long(VT const& v) { return etl::holds_alternative<long>(v); }
VF_E int* vt_get_if_0(VT* v) { return etl::get_if<0>(v); }
VF_E char* vt_get_if_1(VT* v) { return etl::get_if<1>(v); }
VF_E long* vt_get_if_2(VT* v) { return etl::get_if<2>(v); }
VF_E int const* vt_cget_if_0(VT const* v) { return etl::get_if<0>(v); }
VF_E char const* vt_cget_if_1(VT const* v) { return etl::get_if<1>(v); }
VF_E long const* vt_cget_if_2(VT const* v) { return etl::get_if<2>(v); }
VF_E int* vt_get_if_int(VT* v) { return etl::get_if<int>(v); }
VF_E char* vt_get_if_char(VT* v) { return etl::get_if<char>(v); }
VF_E long* vt_get_if_long(VT* v) { return etl::get_if<long>(v); }
VF_E int const* vt_cget_if_int(VT const* v) { return etl::get_if<int>(v); }
VF_E char const* vt_cget_if_char(VT const* v) { return etl::get_if<char>(v); }
VF_E long const* vt_cget_if_long(VT const* v) { return etl::get_if<long>(v); }
// unchecked accessors (TETL_PRECONDITION(I == index()))
VF_E int* vt_uget_0(VT& v) { return &etl::unchecked_get<0>(v); }
VF_E char* vt_uget_1(VT& v) { return &etl::unchecked_get<1>(v); }
VF_E long* vt_uget_2(VT& v) { return &etl::unchecked_get<2>(v); }
VF_E int const* vt_cuget_0(VT const& v) { return &etl::unchecked_get<0>(v); }
VF_E char const* vt_cuget_1(VT const& v) { return &etl::unchecked_get<1>(v); }
VF_E long const* vt_cuget_2(VT const& v) { return &etl::unchecked_get<2>(v); }
VF_E int* vt_uget_rv_0(VT& v) { int&& r = etl::unchecked_get<0>(etl::move(v)); return &r; }
VF_E char* vt_uget_rv_1(VT& v) { char&& r = etl::unchecked_get<1>(etl::move(v)); return &r; }
VF_E long* vt_uget_rv_2(VT& v) { long&& r = etl::unchecked_get<2>(etl::move(v)); return &r; }
VF_E int const* vt_cuget_rv_0(VT const& v) { int const&& r = etl::unchecked_get<0>(etl::move(v)); return &r; }
VF_E char const* vt_cuget_rv_1(VT const& v) { char const&& r = etl::unchecked_get<1>(etl::move(v)); return &r; }
VF_E long const* vt_cuget_rv_2(VT const& v) { long const&& r = etl::unchecked_get<2>(etl::move(v)); return &r; }
VF_E int* vt_sub_0(VT& v) { return &v[etl::index_v<0>]; }
VF_E char* vt_sub_1(VT& v) { return &v[etl::index_v<1>]; }
VF_E long* vt_sub_2(VT& v) { return &v[etl::index_v<2>]; }
VF_E int const* vt_csub_0(VT const& v) { return &v[etl::index_v<0>]; }
VF_E char const* vt_csub_1(VT const& v) { return &v[etl::index_v<1>]; }
VF_E long const* vt_csub_2(VT const& v) { return &v[etl::index_v<2>]; }
VF_E int* vt_sub_rv_0(VT& v) { int&& r = etl::move(v)[etl::index_v<0>]; return &r; }
VF_E long* vt_sub_rv_2(VT& v) { long&& r = etl::move(v)[etl::index_v<2>]; return &r; }
VF_E char const* vt_csub_rv_1(VT const& v) { char const&& r = etl::move(v)[etl::index_v<1>]; return &r; }

VF_E bool vt_eq(VT const& a, VT const& b) { return a == b; }
VF_E bool vt_ne(VT const& a, VT const& b) { return a != b; }
VF_E bool vt_lt(VT const& a, VT const& b) { return a < b; }
VF_E bool vt_le(VT const& a, VT const& b) { return a <= b; }
VF_E bool vt_gt(VT const& a, VT const& b) { return a > b; }
VF_E bool vt_ge(VT const& a, VT const& b) { return a >= b; }

// visitor: one overload per alternative, the result encodes alternative and argument
struct vis1 {
    log_t* log;
    auto operator()(int x) const -> long { log->calls++; log->which = 0; log->arg = x; return 3L * x + 1L; }
    auto operator()(char x) const -> long { log->calls++; log->which = 1; log->arg = x; return 1000L + x; }
    auto operator()(long x) const -> long { log->calls++; log->which = 2; log->arg = x; return x ^ 0x55L; }
};
// mutating visitor: the visitor gets a reference to the stored alternative
struct vis_set {
    log_t* log;
    auto operator()(int& x) const -> int { log->calls++; log->which = 0; log->arg = x; x = 7; return 10; }
    auto operator()(char& x) const -> int { log->calls++; log->which = 1; log->arg = x; x = 'q'; return 11; }
    auto operator()(long& x) const -> int { log->calls++; log->which = 2; log->arg = x; x = -9L; return 12; }
};
struct vis2 {
    log_t* log;
    template <typename A, typename B>
    auto operator()(A a, B b) const -> long
    {
        log->calls++;
        log->which = static_cast<int>(sizeof(A) * 16 + sizeof(B));
        log->arg  = static_cast<long>(a);
        log->arg2 = static_cast<long>(b);
        return static_cast<long>(a) ^ ~static_cast<long>(b);
    }
};
struct visi {
    log_t* log;
    template <typename P>
    auto operator()(P p) const -> long
    {
        log->calls++;
        log->which = static_cast<int>(p.index.value);
        log->arg   = static_cast<long>(p.value());
        return static_cast<long>(p.value()) ^ (0x100L * static_cast<long>(p.index.value));
    }
};
struct vis0 {
    log_t* log;
    auto operator()() const -> int { log->calls++; return 42; }
};
VF_E int visit0(log_t* log) { return etl::visit(vis0{log}); }
struct visi2 {
    log_t* log;
    template <typename P, typename Q>
    auto operator()(P p, Q q) const -> long
    {
        log->calls++;
        log->which = static_cast<int>(p.index.value * 3 + q.index.value);
        log->arg   = static_cast<long>(p.value());
        log->arg2  = static_cast<long>(q.value());
        return static_cast<long>(p.value()) ^ ~static_cast<long>(q.value());
    }
};
struct vis_mix {
    log_t* log;
    template <typename A>
    auto operator()(A a, etl::monostate /*m*/) const -> long
    {
        log->calls++;
        log->which = static_cast<int>(sizeof(A) * 16);
        log->arg   = static_cast<long>(a);
        log->arg2  = 0;
        return static_cast<long>(a);
    }
    template <typename A>
    auto operator()(A a, int b) const -> long
    {
        log->calls++;
        log->which = static_cast<int>(sizeof(A) * 16 + 4);
        log->arg   = static_cast<long>(a);
        log->arg2  = b;
        return static_cast<long>(a) ^ ~static_cast<long>(b);
    }
};
VF_E long vt_visit_rv(VT& v, log_t* log) { return etl::visit(vis1{log}, etl::move(v)); }
VF_E long vt_visit_with_index2(VT const& a, VT const& b, log_t* log) { return etl::visit_with_index(visi2{log}, a, b); }
VF_E long vt_vm_visit(VT const& a, VM const& b, log_t* log) { return etl::visit(vis_mix{log}, a, b); }
VF_E long vt_visit(VT const& v, log_t* log) { return etl::visit(vis1{log}, v); }
VF_E int vt_visit_mut(VT& v, log_t* log) { return etl::visit(vis_set{log}, v); }
VF_E long vt_visit2(VT const& a, VT const& b, log_t* log) { return etl::visit(vis2{log}, a, b); }
VF_E long vt_visit_with_index(VT const& v, log_t* log) { return etl::visit_with_index(visi{log}, v); }

// ---------------------------------------------------------------- variant<monostate,int>
struct vism {
    log_t* log;
    auto operator()(etl::monostate /*m*/) const -> int { log->calls++; log->which = 0; return -1; }
    auto operator()(int x) const -> int { log->calls++; log->which = 1; log->arg = x; return x; }
};
VF_E void vm_default(VM* out) { new (out) VM; }
VF_E void vm_from_int(VM* out, int x) { new (out) VM(x); }
VF_E void vm_from_mono(VM* out) { new (out) VM(etl::monostate{}); }
VF_E void vm_copy_ctor(VM* out, VM const& o) { new (out) VM(o); }
VF_E VM* vm_copy_assign(VM& a, VM const& b) { return &(a = b); }
VF_E VM* vm_move_assign(VM& a, VM& b) { return &(a = etl::move(b)); }
VF_E VM* vm_assign_int(VM& a, int x) { return &(a = x); }
VF_E VM* vm_assign_mono(VM& a) { return &(a = etl::monostate{}); }
VF_E void vm_emplace_mono(VM& a) { a.emplace<etl::monostate>(); }
VF_E int* vm_emplace_int(VM& a, int x) { return &a.emplace<1>(x); }
VF_E size_t vm_index(VM const& v) { return v.index(); }
VF_E bool vm_holds_mono(VM const& v) { return etl::holds_alternative<etl::monostate>(v); }
VF_E int* vm_get_if_int(VM* v) { return etl::get_if<int>(v); }
VF_E bool vm_eq(VM const& a, VM const& b) { return a == b; }
VF_E bool vm_ne(VM const& a, VM const& b) { return a != b; }
VF_E bool vm_lt(VM const& a, VM const& b) { return a < b; }
VF_E bool vm_le(VM const& a, VM const& b) { return a <= b; }
VF_E bool vm_gt(VM const& a, VM const& b) { return a > b; }
VF_E bool vm_ge(VM const& a, VM const& b) { return a >= b; }
VF_E int vm_visit(VM const& v, log_t* log) { return etl::visit(vism{log}, v); }

VF_E void vm_swap_free(VM& a, VM& b) { swap(a, b); }

// ---------------------------------------------------------------- expected<int,char>, unexpected<char>
VF_E void ex_default(EX* out) { new (out) EX(); }
VF_E void ex_inplace(EX* out, int x) { new (out) EX(etl::in_place, x); }
VF_E void ex_inplace_short(EX* out, short x) { new (out) EX(etl::in_place, x); }
VF_E void ex_unexpect(EX* out, char c) { new (out) EX(etl::unexpect, c); }
VF_E void ex_copy_ctor(EX* out, EX const& o) { new (out) EX(o); }
VF_E void ex_move_ctor(EX* out, EX& o) { new (out) EX(etl::move(o)); }
VF_E EX* ex_copy_assign(EX& a, EX const& b) { return &(a = b); }
VF_E EX* ex_move_assign(EX& a, EX& b) { return &(a = etl::move(b)); }
VF_E int* ex_emplace(EX& a, int x) { return &a.emplace(x); }
VF_E void ex_swap_free(EX& a, EX& b) { swap(a, b); }
VF_E bool ex_has_value(EX const& e) { return e.has_value(); }
VF_E bool ex_bool(EX const& e) { return static_cast<bool>(e); }
VF_E int* ex_arrow(EX& e) { return e.operator->(); }
VF_E int const* ex_carrow(EX const& e) { return e.operator->(); }
VF_E int* ex_deref(EX& e) { return &*e; }
VF_E int const* ex_cderef(EX const& e) { return &*e; }
VF_E int* ex_deref_rv(EX& e) { int&& r = *etl::move(e); return &r; }
VF_E int const* ex_cderef_rv(EX const& e) { int const&& r = *etl::move(e); return &r; }
VF_E char* ex_error(EX& e) { return &e.error(); }
VF_E char const* ex_cerror(EX const& e) { return &e.error(); }
VF_E char* ex_error_rv(EX& e) { char&& r = etl::move(e).error(); return &r; }
VF_E char const* ex_cerror_rv(EX const& e) { char const&& r = etl::move(e).error(); return &r; }
VF_E int ex_value_or(EX const& e, int d) { return e.value_or(d); }
VF_E int ex_value_or_rv(EX& e, int d) { return etl::move(e).value_or(d); }
VF_E int ex_value_or_short(EX const& e, short d) { return e.value_or(d); }

// x -> expected<long,char>: value 3*x+1 for even x, error 'o' for odd x
struct g_step {
    log_t* log;
    auto operator()(int x) const -> EL
    {
        log->calls++;
        log->arg = x;
        if ((x & 1) != 0) { return EL(etl::unexpect, 'o'); }
        return EL(etl::in_place, 3L * x + 1L);
    }
};
// c -> expected<int,char>: recover to value c+1000 for c >= 0, otherwise error c+1
struct g_recover {
    log_t* log;
    auto operator()(char c) const -> EX
    {
        log->calls++;
        log->arg = c;
        if (c >= 0) { return EX(etl::in_place, 1000 + c); }
        return EX(etl::unexpect, static_cast<char>(c + 1));
    }
};
VF_E void ex_and_then(EL* out, EX& e, log_t* log) { new (out) EL(e.and_then(g_step{log})); }
VF_E void ex_and_then_c(EL* out, EX const& e, log_t* log) { new (out) EL(e.and_then(g_step{log})); }
VF_E void ex_and_then_rv(EL* out, EX& e, log_t* log) { new (out) EL(etl::move(e).and_then(g_step{log})); }
VF_E void ex_and_then_crv(EL* out, EX const& e, log_t* log) { new (out) EL(etl::move(e).and_then(g_step{log})); }
VF_E void ex_or_else(EX* out, EX& e, log_t* log) { new (out) EX(e.or_else(g_recover{log})); }
VF_E void ex_or_else_c(EX* out, EX const& e, log_t* log) { new (out) EX(e.or_else(g_recover{log})); }
VF_E void ex_or_else_rv(EX* out, EX& e, log_t* log) { new (out) EX(etl::move(e).or_else(g_recover{log})); }
VF_E void ex_or_else_crv(EX* out, EX const& e, log_t* log) { new (out) EX(etl::move(e).or_else(g_recover{log})); }

VF_E void ux_ctor(UX* out, char c) { new (out) UX(c); }
VF_E void ux_inplace(UX* out, char c) { new (out) UX(etl::in_place, c); }
VF_E void ux_copy_ctor(UX* out, UX const& o) { new (out) UX(o); }
VF_E UX* ux_copy_assign(UX& a, UX const& b) { return &(a = b); }
VF_E char* ux_error(UX& u) { return &u.error(); }
VF_E char const* ux_cerror(UX const& u) { return &u.error(); }
VF_E bool ux_eq(UX const& a, UX const& b) { return a == b; }
VF_E bool ux_ne(UX const& a, UX const& b) { return a != b; }
VF_E bool ux_eq_ui(UX const& a, UI const& b) { return a == b; }
VF_E void ux_swap(UX& a, UX& b) { a.swap(b); }
VF_E void ux_swap_free(UX& a, UX& b) { swap(a, b); }
VF_E void ui_ctor(UI* out, int c) { new (out) UI(c); }

// variant with a partially ordered alternative (float: NaN is unordered) — relations must use the operator itself, not its negation
using VF = etl::variant<int, float>;
static auto mk_vf(unsigned i, int x, float f) -> VF { return i == 0 ? VF(x) : VF(f); }
VF_E unsigned vf_rel6(unsigned ia, int xa, float fa, unsigned ib, int xb, float fb)
{
    auto const a = mk_vf(ia, xa, fa);
    auto const b = mk_vf(ib, xb, fb);
    return (a == b ? 1U : 0U) | (a != b ? 2U : 0U) | (a < b ? 4U : 0U) | (a <= b ? 8U : 0U) | (a > b ? 16U : 0U) | (a >= b ? 32U : 0U);
}

// ================================================================ repeated alternative types, one alternative, optional<bool>, aliasing
// [variant.*] is specified in terms of the INDEX; a variant with a repeated alternative type is only reachable through the index-based
// API (in_place_index / emplace<I> / get_if<I> / unchecked_get<I> / operator[]). holds_alternative<T> / get_if<T> / emplace<T> /
// in_place_type<T> are ill-formed for a repeated T and are therefore instantiated for the UNIQUE alternative (float) only.
using VD = etl::variant<int, int>;
using VU = etl::variant<unsigned, float, unsigned>;
using V1 = etl::variant<int>;
using EI = etl::expected<int, int>;
using ELI = etl::expected<long, int>;
using OB = etl::optional<bool>;
struct P2 { int a; short b; };   // trivially copyable, NOT scalar: optional<P2> = P2 takes the perfect-forwarding assignment
using OP = etl::optional<P2>;
struct flog_t { int calls; int which; int which2; long arg; long arg2; float farg; float farg2; };

template <typename V>
static auto rel6(V const& a, V const& b) -> unsigned
{
    return (a == b ? 1U : 0U) | (a != b ? 2U : 0U) | (a < b ? 4U : 0U) | (a <= b ? 8U : 0U) | (a > b ? 16U : 0U) | (a >= b ? 32U : 0U);
}
// visitor by TYPE: which = 1 int, 2 unsigned, 3 float, 4 char, 5 long; the argument is recorded without conversion
struct vist {
    flog_t* log;
    auto operator()(int const& x) const -> long { log->calls++; log->which = 1; log->arg = x; return 3L * x + 1L; }
    auto operator()(unsigned const& x) const -> long { log->calls++; log->which = 2; log->arg = x; return 7L + x; }
    auto operator()(float const& x) const -> long { log->calls++; log->which = 3; log->farg = x; return -2L; }
};
// mutating visitor: reference to the stored alternative
struct vist_set {
    flog_t* log;
    auto operator()(int& x) const -> int { log->calls++; log->which = 1; log->arg = x; x = x ^ 0x5a5a; return 10; }
    auto operator()(unsigned& x) const -> int { log->calls++; log->which = 2; log->arg = x; x = ~x; return 11; }
    auto operator()(float& x) const -> int { log->calls++; log->which = 3; log->farg = x; x = 2.5F; return 12; }
};
template <typename T>
static auto rec(flog_t* log, bool second, T const& v) -> void
{
    if constexpr (etl::is_same_v<T, float>) { (second ? log->farg2 : log->farg) = v; }
    else { (second ? log->arg2 : log->arg) = static_cast<long>(v); }
}
template <typename T>
inline constexpr int type_code = etl::is_same_v<T, int> ? 1 : etl::is_same_v<T, unsigned> ? 2 : etl::is_same_v<T, float> ? 3 : etl::is_same_v<T, char> ? 4 : 5;
// visit_with_index visitors: which = index, which2 = type code of the alternative handed over
struct visti {
    flog_t* log;
    template <typename P>
    auto operator()(P p) const -> long
    {
        using T = etl::remove_cvref_t<decltype(p.value())>;
        log->calls++;
        log->which  = static_cast<int>(p.index.value);
        log->which2 = type_code<T>;
        rec<T>(log, false, p.value());
        return 40L + static_cast<long>(p.index.value);
    }
};
struct visti2 {
    flog_t* log;
    template <typename P, typename Q>
    auto operator()(P p, Q q) const -> long
    {
        using T = etl::remove_cvref_t<decltype(p.value())>;
        using U = etl::remove_cvref_t<decltype(q.value())>;
        log->calls++;
        log->which  = static_cast<int>(p.index.value * 8 + q.index.value);
        log->which2 = type_code<T> * 8 + type_code<U>;
        rec<T>(log, false, p.value());
        rec<U>(log, true, q.value());
        return 50L + static_cast<long>(p.index.value * 8 + q.index.value);
    }
};
struct vist2 {
    flog_t* log;
    template <typename A, typename B>
    auto operator()(A const& a, B const& b) const -> long
    {
        log->calls++;
        log->which = type_code<A> * 8 + type_code<B>;
        rec<A>(log, false, a);
        rec<B>(log, true, b);
        return 60L + type_code<A> * 8 + type_code<B>;
    }
};

// ---------------------------------------------------------------- variant<int,int>
VF_E void vd_default(VD* out) { new (out) VD; }
VF_E void vd_inplace_0(VD* out, int x) { new (out) VD(etl::in_place_index<0>, x); }
VF_E void vd_inplace_1(VD* out, int const& x) { new (out) VD(etl::in_place_index<1>, x); }
VF_E void vd_inplace_1_short(VD* out, short x) { new (out) VD(etl::in_place_index<1>, x); }
VF_E void vd_copy_ctor(VD* out, VD const& o) { new (out) VD(o); }
VF_E void vd_move_ctor(VD* out, VD& o) { new (out) VD(etl::move(o)); }
VF_E VD* vd_copy_assign(VD& a, VD const& b) { return &(a = b); }
VF_E VD* vd_move_assign(VD& a, VD& b) { return &(a = etl::move(b)); }
VF_E int* vd_emplace_0(VD& a, int const& x) { return &a.emplace<0>(x); }
VF_E int* vd_emplace_1(VD& a, int const& x) { return &a.emplace<1>(x); }
VF_E int* vd_emplace_1_short(VD& a, short x) { return &a.emplace<1>(x); }
VF_E void vd_swap_free(VD& a, VD& b) { swap(a, b); }
VF_E size_t vd_index(VD const& v) { return v.index(); }
VF_E int* vd_get_if_0(VD* v) { return etl::get_if<0>(v); }
VF_E int* vd_get_if_1(VD* v) { return etl::get_if<1>(v); }
VF_E int const* vd_cget_if_0(VD const* v) { return etl::get_if<0>(v); }
VF_E int const* vd_cget_if_1(VD const* v) { return etl::get_if<1>(v); }
VF_E int* vd_uget_0(VD& v) { return &etl::unchecked_get<0>(v); }
VF_E int* vd_uget_1(VD& v) { return &etl::unchecked_get<1>(v); }
VF_E int const* vd_cuget_0(VD const& v) { return &etl::unchecked_get<0>(v); }
VF_E int const* vd_cuget_1(VD const& v) { return &etl::unchecked_get<1>(v); }
VF_E int* vd_uget_rv_0(VD& v) { int&& r = etl::unchecked_get<0>(etl::move(v)); return &r; }
VF_E int const* vd_cuget_rv_1(VD const& v) { int const&& r = etl::unchecked_get<1>(etl::move(v)); return &r; }
VF_E int* vd_sub_0(VD& v) { return &v[etl::index_v<0>]; }
VF_E int* vd_sub_1(VD& v) { return &v[etl::index_v<1>]; }
VF_E int const* vd_csub_0(VD const& v) { return &v[etl::index_v<0>]; }
VF_E int const* vd_csub_1(VD const& v) { return &v[etl::index_v<1>]; }
VF_E unsigned vd_rel6(VD const& a, VD const& b) { return rel6(a, b); }
VF_E long vd_visit(VD const& v, flog_t* log) { return etl::visit(vist{log}, v); }
VF_E long vd_visit_rv(VD& v, flog_t* log) { return etl::visit(vist{log}, etl::move(v)); }
VF_E int vd_visit_mut(VD& v, flog_t* log) { return etl::visit(vist_set{log}, v); }
VF_E long vd_visit_with_index(VD const& v, flog_t* log) { return etl::visit_with_index(visti{log}, v); }
VF_E long vd_visit2(VD const& a, VD const& b, flog_t* log) { return etl::visit(vist2{log}, a, b); }
VF_E long vd_visit_with_index2(VD const& a, VD const& b, flog_t* log) { return etl::visit_with_index(visti2{log}, a, b); }

// ---------------------------------------------------------------- variant<unsigned,float,unsigned>
VF_E void vu_default(VU* out) { new (out) VU; }
VF_E void vu_inplace_0(VU* out, unsigned x) { new (out) VU(etl::in_place_index<0>, x); }
VF_E void vu_inplace_1(VU* out, float x) { new (out) VU(etl::in_place_index<1>, x); }
VF_E void vu_inplace_2(VU* out, unsigned x) { new (out) VU(etl::in_place_index<2>, x); }
VF_E void vu_inplace_t_float(VU* out, float x) { new (out) VU(etl::in_place_type<float>, x); }
VF_E void vu_copy_ctor(VU* out, VU const& o) { new (out) VU(o); }
VF_E void vu_move_ctor(VU* out, VU& o) { new (out) VU(etl::move(o)); }
VF_E VU* vu_copy_assign(VU& a, VU const& b) { return &(a = b); }
VF_E VU* vu_move_assign(VU& a, VU& b) { return &(a = etl::move(b)); }
VF_E unsigned* vu_emplace_0(VU& a, unsigned x) { return &a.emplace<0>(x); }
VF_E float* vu_emplace_1(VU& a, float x) { return &a.emplace<1>(x); }
VF_E unsigned* vu_emplace_2(VU& a, unsigned x) { return &a.emplace<2>(x); }
VF_E float* vu_emplace_t_float(VU& a, float x) { return &a.emplace<float>(x); }
VF_E void vu_swap_free(VU& a, VU& b) { swap(a, b); }
VF_E size_t vu_index(VU const& v) { return v.index(); }
VF_E bool vu_holds_float(VU const& v) { return etl::holds_alternative<float>(v); }
VF_E unsigned* vu_get_if_0(VU* v) { return etl::get_if<0>(v); }
VF_E float* vu_get_if_1(VU* v) { return etl::get_if<1>(v); }
VF_E unsigned* vu_get_if_2(VU* v) { return etl::get_if<2>(v); }
VF_E unsigned const* vu_cget_if_0(VU const* v) { return etl::get_if<0>(v); }
VF_E float const* vu_cget_if_1(VU const* v) { return etl::get_if<1>(v); }
VF_E unsigned const* vu_cget_if_2(VU const* v) { return etl::get_if<2>(v); }
VF_E float* vu_get_if_float(VU* v) { return etl::get_if<float>(v); }
VF_E float const* vu_cget_if_float(VU const* v) { return etl::get_if<float>(v); }
VF_E unsigned* vu_uget_0(VU& v) { return &etl::unchecked_get<0>(v); }
VF_E float* vu_uget_1(VU& v) { return &etl::unchecked_get<1>(v); }
VF_E unsigned* vu_uget_2(VU& v) { return &etl::unchecked_get<2>(v); }
VF_E unsigned const* vu_csub_0(VU const& v) { return &v[etl::index_v<0>]; }
VF_E float const* vu_csub_1(VU const& v) { return &v[etl::index_v<1>]; }
VF_E unsigned const* vu_csub_2(VU const& v) { return &v[etl::index_v<2>]; }
VF_E unsigned vu_rel6(VU const& a, VU const& b) { return rel6(a, b); }
VF_E long vu_visit(VU const& v, flog_t* log) { return etl::visit(vist{log}, v); }
VF_E int vu_visit_mut(VU& v, flog_t* log) { return etl::visit(vist_set{log}, v); }
VF_E long vu_visit_with_index(VU const& v, flog_t* log) { return etl::visit_with_index(visti{log}, v); }
VF_E long vu_vd_visit(VU const& a, VD const& b, flog_t* log) { return etl::visit(vist2{log}, a, b); }
VF_E long vu_vd_visit_with_index(VU const& a, VD const& b, flog_t* log) { return etl::visit_with_index(visti2{log}, a, b); }

// ---------------------------------------------------------------- variant<int>: one alternative (visit takes its size-1 shortcut)
VF_E void v1_default(V1* out) { new (out) V1; }
VF_E void v1_from_int(V1* out, int const& x) { new (out) V1(x); }
VF_E void v1_from_short(V1* out, short x) { new (out) V1(x); }
VF_E void v1_inplace_0(V1* out, int x) { new (out) V1(etl::in_place_index<0>, x); }
VF_E void v1_inplace_t(V1* out, int x) { new (out) V1(etl::in_place_type<int>, x); }
VF_E void v1_copy_ctor(V1* out, V1 const& o) { new (out) V1(o); }
VF_E void v1_move_ctor(V1* out, V1& o) { new (out) V1(etl::move(o)); }
VF_E V1* v1_copy_assign(V1& a, V1 const& b) { return &(a = b); }
VF_E V1* v1_move_assign(V1& a, V1& b) { return &(a = etl::move(b)); }
VF_E V1* v1_assign_int(V1& a, int const& x) { return &(a = x); }
VF_E int* v1_emplace_0(V1& a, int const& x) { return &a.emplace<0>(x); }
VF_E int* v1_emplace_t(V1& a, int x) { return &a.emplace<int>(x); }
VF_E void v1_swap_free(V1& a, V1& b) { swap(a, b); }
VF_E size_t v1_index(V1 const& v) { return v.index(); }
VF_E bool v1_holds_int(V1 const& v) { return etl::holds_alternative<int>(v); }
VF_E int* v1_get_if_0(V1* v) { return etl::get_if<0>(v); }
VF_E int const* v1_cget_if_int(V1 const* v) { return etl::get_if<int>(v); }
VF_E int* v1_uget_0(V1& v) { return &etl::unchecked_get<0>(v); }
VF_E int const* v1_csub_0(V1 const& v) { return &v[etl::index_v<0>]; }
VF_E unsigned v1_rel6(V1 const& a, V1 const& b) { return rel6(a, b); }
VF_E long v1_visit(V1 const& v, flog_t* log) { return etl::visit(vist{log}, v); }
VF_E int v1_visit_mut(V1& v, flog_t* log) { return etl::visit(vist_set{log}, v); }
VF_E long v1_visit_with_index(V1 const& v, flog_t* log) { return etl::visit_with_index(visti{log}, v); }
VF_E long v1_visit2(V1 const& a, V1 const& b, flog_t* log) { return etl::visit(vist2{log}, a, b); }
VF_E long v1_vd_visit_with_index(V1 const& a, VD const& b, flog_t* log) { return etl::visit_with_index(visti2{log}, a, b); }

// ---------------------------------------------------------------- expected<int,int>: value and error have the same type
struct gi_step {   // x -> expected<long,int>: value 3*x+1 for even x, error x-1 for odd x
    flog_t* log;
    auto operator()(int x) const -> ELI
    {
        log->calls++;
        log->arg = x;
        if ((x & 1) != 0) { return ELI(etl::unexpect, x - 1); }
        return ELI(etl::in_place, 3L * x + 1L);
    }
};
struct gi_recover {   // c -> expected<int,int>: value c/2 for c >= 0, otherwise error c+1
    flog_t* log;
    auto operator()(int c) const -> EI
    {
        log->calls++;
        log->arg = c;
        if (c >= 0) { return EI(etl::in_place, c / 2); }
        return EI(etl::unexpect, c + 1);
    }
};
VF_E void ei_default(EI* out) { new (out) EI(); }
VF_E void ei_inplace(EI* out, int x) { new (out) EI(etl::in_place, x); }
VF_E void ei_unexpect(EI* out, int x) { new (out) EI(etl::unexpect, x); }
VF_E void ei_copy_ctor(EI* out, EI const& o) { new (out) EI(o); }
VF_E void ei_move_ctor(EI* out, EI& o) { new (out) EI(etl::move(o)); }
VF_E EI* ei_copy_assign(EI& a, EI const& b) { return &(a = b); }
VF_E EI* ei_move_assign(EI& a, EI& b) { return &(a = etl::move(b)); }
VF_E int* ei_emplace(EI& a, int const& x) { return &a.emplace(x); }
VF_E void ei_swap_free(EI& a, EI& b) { swap(a, b); }
VF_E bool ei_has_value(EI const& e) { return e.has_value(); }
VF_E bool ei_bool(EI const& e) { return static_cast<bool>(e); }
VF_E int* ei_arrow(EI& e) { return e.operator->(); }
VF_E int const* ei_carrow(EI const& e) { return e.operator->(); }
VF_E int* ei_deref(EI& e) { return &*e; }
VF_E int const* ei_cderef(EI const& e) { return &*e; }
VF_E int* ei_error(EI& e) { return &e.error(); }
VF_E int const* ei_cerror(EI const& e) { return &e.error(); }
VF_E int ei_value_or(EI const& e, int d) { return e.value_or(d); }
VF_E int ei_value_or_rv(EI& e, int d) { return etl::move(e).value_or(d); }
VF_E void ei_and_then(ELI* out, EI& e, flog_t* log) { new (out) ELI(e.and_then(gi_step{log})); }
VF_E void ei_and_then_crv(ELI* out, EI const& e, flog_t* log) { new (out) ELI(etl::move(e).and_then(gi_step{log})); }
VF_E void ei_or_else(EI* out, EI& e, flog_t* log) { new (out) EI(e.or_else(gi_recover{log})); }
VF_E void ei_or_else_c(EI* out, EI const& e, flog_t* log) { new (out) EI(e.or_else(gi_recover{log})); }

// ---------------------------------------------------------------- optional<bool>: the VALUE and the ENGAGED flag are both bools
VF_E void ob_default(OB* out) { new (out) OB; }
VF_E void ob_value(OB* out, bool const& x) { new (out) OB(x); }
VF_E void ob_inplace(OB* out, bool x) { new (out) OB(etl::in_place, x); }
VF_E void ob_make(OB* out, bool x) { new (out) OB(etl::make_optional(x)); }
VF_E void ob_copy_ctor(OB* out, OB const& o) { new (out) OB(o); }
VF_E OB* ob_copy_assign(OB& a, OB const& b) { return &(a = b); }
VF_E OB* ob_assign_value(OB& a, bool const& x) { return &(a = x); }
VF_E OB* ob_assign_nullopt(OB& a) { return &(a = etl::nullopt); }
VF_E bool* ob_emplace(OB& a, bool const& x) { return &a.emplace(x); }
VF_E void ob_reset(OB& a) { a.reset(); }
VF_E void ob_swap(OB& a, OB& b) { a.swap(b); }
VF_E bool ob_has_value(OB const& o) { return o.has_value(); }
VF_E bool ob_bool(OB const& o) { return static_cast<bool>(o); }
VF_E bool ob_not(OB const& o) { return !o; }
VF_E bool const* ob_cderef(OB const& o) { return &*o; }
VF_E bool const* ob_carrow(OB const& o) { return o.operator->(); }
VF_E bool ob_value_or(OB const& o, bool d) { return o.value_or(d); }
VF_E bool ob_value_or_rv(OB& o, bool d) { return etl::move(o).value_or(d); }
VF_E unsigned ob_rel6(OB const& a, OB const& b) { return rel6(a, b); }
VF_E unsigned ob_rel6_v(OB const& a, bool const& x)
{
    return (a == x ? 1U : 0U) | (a != x ? 2U : 0U) | (a < x ? 4U : 0U) | (a <= x ? 8U : 0U) | (a > x ? 16U : 0U) | (a >= x ? 32U : 0U);
}
VF_E unsigned v_rel6_ob(bool const& x, OB const& a)
{
    return (x == a ? 1U : 0U) | (x != a ? 2U : 0U) | (x < a ? 4U : 0U) | (x <= a ? 8U : 0U) | (x > a ? 16U : 0U) | (x >= a ? 32U : 0U);
}
VF_E unsigned ob_rel_null(OB const& a)
{
    return (a == etl::nullopt ? 1U : 0U) | (etl::nullopt == a ? 2U : 0U) | (a != etl::nullopt ? 4U : 0U) | (etl::nullopt != a ? 8U : 0U)
         | (a < etl::nullopt ? 16U : 0U) | (etl::nullopt < a ? 32U : 0U);
}
struct fb_step {   // b -> optional<int>: engaged with 10 + b for true, disengaged for false
    flog_t* log;
    auto operator()(bool b) const -> OI
    {
        log->calls++;
        log->arg = b ? 1 : 0;
        return b ? OI{11} : OI{};
    }
};
struct fb_fallback {
    flog_t* log;
    bool v;
    bool engaged;
    auto operator()() const -> OB
    {
        log->calls++;
        return engaged ? OB{v} : OB{};
    }
};
VF_E void ob_and_then(OI* out, OB const& o, flog_t* log) { new (out) OI(o.and_then(fb_step{log})); }
VF_E void ob_or_else(OB* out, OB const& o, flog_t* log, bool v, bool engaged) { new (out) OB(o.or_else(fb_fallback{log, v, engaged})); }

// ---------------------------------------------------------------- optional<P2>: trivially copyable non-scalar value
VF_E void op_value(OP* out, P2 const& x) { new (out) OP(x); }
VF_E OP* op_assign_value(OP& a, P2 const& x) { return &(a = x); }
VF_E OP* op_assign_value_rv(OP& a, P2& x) { return &(a = etl::move(x)); }
VF_E OP* op_copy_assign(OP& a, OP const& b) { return &(a = b); }
VF_E P2* op_emplace(OP& a, P2 const& x) { return &a.emplace(x); }
VF_E bool op_has_value(OP const& o) { return o.has_value(); }

// ---------------------------------------------------------------- self-referential arguments (the literal spellings; \pre the named alternative is active)
VF_E OI* oi_assign_deref_self(OI& o) { return &(o = *o); }
VF_E OI* oi_assign_deref_self_rv(OI& o) { return &(o = etl::move(*o)); }
VF_E OI* oi_assign_moved_deref_self(OI& o) { return &(o = *etl::move(o)); }
VF_E int* oi_emplace_deref_self(OI& o) { return &o.emplace(*o); }
VF_E OL* ol_assign_deref_self(OL& o) { return &(o = *o); }
VF_E OP* op_assign_deref_self(OP& o) { return &(o = *o); }
VF_E OP* op_assign_deref_self_rv(OP& o) { return &(o = etl::move(*o)); }
VF_E OP* op_assign_arrow_self(OP& o) { P2 const& r = *o.operator->(); return &(o = r); }
VF_E P2* op_emplace_deref_self(OP& o) { return &o.emplace(*o); }
VF_E OB* ob_assign_deref_self(OB& o) { return &(o = *o); }
VF_E VT* vt_assign_get0_self(VT& v) { return &(v = etl::unchecked_get<0>(v)); }
VF_E VT* vt_assign_get1_self(VT& v) { return &(v = etl::unchecked_get<1>(v)); }
VF_E VT* vt_assign_get2_self(VT& v) { return &(v = etl::unchecked_get<2>(v)); }
VF_E VT* vt_assign_get2_self_rv(VT& v) { return &(v = etl::unchecked_get<2>(etl::move(v))); }
VF_E long* vt_emplace2_get2_self(VT& v) { return &v.emplace<2>(etl::unchecked_get<2>(v)); }
VF_E char* vt_emplace_t_char_self(VT& v) { return &v.emplace<char>(*etl::get_if<char>(&v)); }
VF_E int* vd_emplace1_get1_self(VD& v) { return &v.emplace<1>(etl::unchecked_get<1>(v)); }
VF_E VM* vm_assign_get1_self(VM& v) { return &(v = etl::unchecked_get<1>(v)); }
VF_E V1* v1_assign_get0_self(V1& v) { return &(v = etl::unchecked_get<0>(v)); }
VF_E int* ex_emplace_deref_self(EX& e) { return &e.emplace(*e); }
VF_E int* ei_emplace_deref_self(EI& e) { return &e.emplace(*e); }
VF_E EX* ex_move_assign_self(EX& e) { return &(e = etl::move(e)); }
VF_E void vt_swap_self(VT& v) { swap(v, v); }
VF_E void ex_swap_self(EX& e) { swap(e, e); }
}
