// driver: inplace_vector<T, VF_N> (C01, C02, C05); etl::array<int, 4> contract checks (C05)
#include <etl/inplace_vector.hpp>
#include <etl/array.hpp>
#include <etl/new.hpp>
#ifndef VF_N
#define VF_N 4
#endif
#define VF_E extern "C"
namespace vf {
#if VF_UC
using T = unsigned char;
#else
using T = int;
#endif
using V = etl::inplace_vector<T, VF_N>;
using size_type = etl::size_t;

VF_E void v_default(V* out) { new (out) V; }
VF_E void v_value_init(V* out) { new (out) V(); }
VF_E void v_copy_ctor(V* out, V const& o) { new (out) V(o); }
VF_E void v_move_ctor(V* out, V& o) { new (out) V(etl::move(o)); }
VF_E T* v_try_push_back(V& v, T const& x) { return v.try_push_back(x); }
VF_E T* v_try_push_back_rv(V& v, T x) { return v.try_push_back(etl::move(x)); }
VF_E T* v_try_emplace_back(V& v, T x) { return v.try_emplace_back(x); }
VF_E T* v_unchecked_push_back(V& v, T const& x) { return &v.unchecked_push_back(x); }
VF_E T* v_unchecked_push_back_rv(V& v, T x) { return &v.unchecked_push_back(etl::move(x)); }
VF_E T* v_unchecked_emplace_back(V& v, T x) { return &v.unchecked_emplace_back(x); }
VF_E void v_pop_back(V& v) { v.pop_back(); }
VF_E void v_clear(V& v) { v.clear(); }
VF_E T* v_front(V& v) { return &v.front(); }
VF_E T const* v_cfront(V const& v) { return &v.front(); }
VF_E T* v_back(V& v) { return &v.back(); }
VF_E T const* v_cback(V const& v) { return &v.back(); }
VF_E T* v_index(V& v, size_type i) { return &v[i]; }
VF_E T const* v_cindex(V const& v, size_type i) { return &v[i]; }
VF_E T* v_data(V& v) { return v.data(); }
VF_E T const* v_cdata(V const& v) { return v.data(); }
VF_E T* v_begin(V& v) { return v.begin(); }
VF_E T const* v_cbegin(V const& v) { return v.begin(); }
VF_E T* v_end(V& v) { return v.end(); }
VF_E T const* v_cend(V const& v) { return v.end(); }
VF_E size_type v_size(V const& v) { return v.size(); }
VF_E size_type v_capacity(V const& v) { return v.capacity(); }
VF_E size_type v_max_size(V const& v) { return v.max_size(); }
VF_E bool v_empty(V const& v) { return v.empty(); }

#if !VF_UC
using A = etl::array<int, 4>;
VF_E int* a_index(A& a, size_type i) { return &a[i]; }
VF_E int const* a_cindex(A const& a, size_type i) { return &a[i]; }
VF_E int* a_front(A& a) { return &a.front(); }
VF_E int const* a_cfront(A const& a) { return &a.front(); }
VF_E int* a_back(A& a) { return &a.back(); }
VF_E int const* a_cback(A const& a) { return &a.back(); }
VF_E int* a_data(A& a) { return a.data(); }
VF_E int* a_begin(A& a) { return a.begin(); }
VF_E int* a_end(A& a) { return a.end(); }
VF_E size_type a_size(A const& a) { return a.size(); }
VF_E size_type a_max_size(A const& a) { return a.max_size(); }
VF_E bool a_empty(A const& a) { return a.empty(); }
#endif
}
