/* ivector: inplace_vector<T,N> against the std::vector / P0843 reference semantics ([vector.modifiers], [sequence.reqmts]) — C01;
 * contract checks of inplace_vector and etl::array<int,4> — C05.
 * Every harness starts from an ARBITRARY well-formed object (all bytes symbolic, constrained by wf only): induction over histories.
 * view(v) = (n, a[0..n)); wf(v) = n <= N.  Postconditions are stated over the WHOLE view.
 * The class offers (inplace_vector.hpp): default/copy/move construction, begin/end/data (const and non-const), empty/size/capacity/max_size,
 * front/back/operator[] (const and non-const), try_push_back x2, try_emplace_back, unchecked_push_back x2, unchecked_emplace_back, pop_back,
 * clear.  It has no push_back/emplace_back/insert/emplace/erase/resize/assign/swap/assignment/relational operators/rbegin/rend. */
#define N VF_N
#define CAT_(a, b) a##b
#define CAT(a, b) CAT_(a, b)
#if VF_UC
typedef unsigned char T;
typedef struct CAT(etl_inplace_vector_unsignedchar_, VF_N) V;
#else
typedef int T;
typedef struct CAT(etl_inplace_vector_int_, VF_N) V;
typedef struct etl_array_int_4 A;
#endif
#ifndef VF_NATIVE
void *memcpy(void *, const void *, __CPROVER_size_t);
#endif
typedef struct { unsigned char b[sizeof(V)]; } bytes_t;
static bytes_t bytes_of(const V *v) { bytes_t s; memcpy(s.b, v, sizeof(V)); return s; }
/* "every byte unchanged", quantified by the symbolic byte index k */
#define BYTE_SAME(v, s, k) ((k) >= sizeof(V) || ((const unsigned char *)&(v))[k] == (s).b[k])

#if VF_N > 0
#define SZ(v) ((v)._size)
#define EL(v, i) ((v)._storage._storage[i])
#define WF(v) (SZ(v) <= N)
static T *data_of(V *v) { return &EL(*v, 0); }
/* snapshot for C05: a violated precondition must be detected before the object is touched (element index quantified by vf_snap_k) */
V vf_snap; V *vf_snap_of; unsigned long vf_snap_k;
#if !VF_UC
A vf_asnap; A *vf_asnap_of;
#define VF_HANDLER_CHECK_A() if (vf_asnap_of) { _Bool same = vf_asnap_of->_buf[0] == vf_asnap._buf[0] && vf_asnap_of->_buf[1] == vf_asnap._buf[1] && vf_asnap_of->_buf[2] == vf_asnap._buf[2] && vf_asnap_of->_buf[3] == vf_asnap._buf[3]; \
    __CPROVER_assert(same, "C05: the array is unmodified when the assertion handler runs"); }
#define EXPECT_VIOLATION_A(a) do { vf_expect_handler = 1; vf_asnap = (a); vf_asnap_of = &(a); } while (0)
#else
#define VF_HANDLER_CHECK_A()
#endif
#define VF_HANDLER_CHECK() do { if (vf_snap_of) { _Bool same = SZ(*vf_snap_of) == SZ(vf_snap) && (vf_snap_k >= N || EL(*vf_snap_of, vf_snap_k < N ? vf_snap_k : 0) == EL(vf_snap, vf_snap_k < N ? vf_snap_k : 0)); \
    __CPROVER_assert(same, "C05: the object is unmodified when the assertion handler runs"); } VF_HANDLER_CHECK_A() } while (0)
#ifdef VF_NATIVE
#define VF_ANY_INDEX() 0UL
#else
#define VF_ANY_INDEX() nondet_ulong()
#endif
#define EXPECT_VIOLATION(v) do { vf_expect_handler = 1; vf_snap = (v); vf_snap_of = &(v); vf_snap_k = VF_ANY_INDEX(); } while (0)
#include "vf_handler.h"
#define ARB(v) VF_INPUT(V, v); __CPROVER_assume(WF(v))
#endif
#if VF_N == 0
#include "vf_handler.h"   /* the <T,0> specialisation reaches the handler since the fix of C05_ipv0_unreachable */
#endif
#define CAPACITY_UNCHANGED(v) VF_ASSERT(v_capacity(&(v)) == N && v_max_size(&(v)) == N, "capacity() and max_size() are always N")

#if VF_N > 0 && !VF_UC
typedef struct { unsigned long n; T a[N + 1]; } view_t;
static view_t view_of(const V *v) { view_t w; w.n = SZ(*v); for (int i = 0; i < N; ++i) w.a[i] = (unsigned long)i < w.n ? EL(*v, i) : 0; w.a[N] = 0; return w; }
static _Bool view_eq(view_t x, view_t y) { if (x.n != y.n) return 0; for (int i = 0; i < N; ++i) if ((unsigned long)i < x.n && x.a[i] != y.a[i]) return 0; return 1; }
/* reference semantics on views (as in fam/vector) */
static view_t sp_insert_n(view_t o, unsigned long p, unsigned long c, T x) { view_t r; r.n = o.n + c;
  for (int i = 0; i <= N; ++i) { unsigned long k = (unsigned long)i; r.a[i] = k < p ? o.a[i] : (k < p + c ? x : (k < r.n && k - c <= N ? o.a[k - c] : 0)); } return r; }
static view_t sp_erase(view_t o, unsigned long f, unsigned long l) { view_t r; r.n = o.n - (l - f);
  for (int i = 0; i <= N; ++i) { unsigned long k = (unsigned long)i; r.a[i] = k < f ? o.a[i] : (k < r.n && k + (l - f) <= N ? o.a[k + (l - f)] : 0); } return r; }
#endif

/* ---- base case ---------------------------------------------------------------------------------------------------------------- */
/*@GROUP name=default_ctor props=C01,C02 kind=F when=(VF_N>0)*(VF_UC==0)@*/
void h_default_ctor(void) { VF_INPUT(V, v); /* indeterminate storage */
  VF_KNOWN(C01_ipv_size_uninitialised, SZ(v) != 0); /* witness class: the storage did not already hold a zero size */
  v_default(&v);
  VF_ASSERT(SZ(v) == 0 && v_size(&v) == 0 && v_empty(&v), "default construction (inplace_vector<T,N> v;) establishes wf and the empty view (no uninitialised size)"); CAPACITY_UNCHANGED(v); VF_REACH(); }

/*@GROUP name=value_init props=C01,C02 kind=F when=(VF_N>0)*(VF_UC==0)@*/
void h_value_init(void) { VF_INPUT(V, v); /* indeterminate storage */ v_value_init(&v);
  VF_ASSERT(SZ(v) == 0 && v_size(&v) == 0 && v_empty(&v) && v_begin(&v) == v_end(&v), "value-initialisation (inplace_vector<T,N>{}) establishes wf and the empty view"); CAPACITY_UNCHANGED(v); VF_REACH(); }

/* ---- induction steps ---------------------------------------------------------------------------------------------------------- */
/*@GROUP name=unchecked_push_back props=C01,C02,C05 kind=K unwind=VF_N+5 when=(VF_N>0)*(VF_UC==0)@*/
void h_unchecked_push_back(void) { ARB(v); VF_INPUT(T, x); VF_INPUT(unsigned char, which); __CPROVER_assume(SZ(v) < N); view_t o = view_of(&v);
  T *r = which == 0 ? v_unchecked_push_back(&v, &x) : (which == 1 ? v_unchecked_push_back_rv(&v, x) : v_unchecked_emplace_back(&v, x));
  VF_ASSERT(WF(v) && view_eq(view_of(&v), sp_insert_n(o, o.n, 1, x)), "unchecked_push_back/unchecked_emplace_back: n' = n+1, prefix unchanged, a'[n] = x");
  VF_ASSERT(r == data_of(&v) + o.n, "unchecked_push_back/unchecked_emplace_back return a reference to the new element &a'[n]"); CAPACITY_UNCHANGED(v); VF_REACH(); }

/*@GROUP name=try_push_back props=C01,C02,C05 kind=K unwind=VF_N+5 when=(VF_N>0)*(VF_UC==0)@*/
void h_try_push_back(void) { ARB(v); VF_INPUT(T, x); VF_INPUT(unsigned char, which); VF_INPUT(unsigned long, k); view_t o = view_of(&v); bytes_t s = bytes_of(&v);
  T *r = which == 0 ? v_try_push_back(&v, &x) : (which == 1 ? v_try_push_back_rv(&v, x) : v_try_emplace_back(&v, x));
  if (o.n < N) { VF_ASSERT(WF(v) && view_eq(view_of(&v), sp_insert_n(o, o.n, 1, x)), "try_push_back/try_emplace_back with room: n' = n+1, prefix unchanged, a'[n] = x");
    VF_ASSERT(r == data_of(&v) + o.n, "try_push_back/try_emplace_back with room return the address of the new element &a'[n]"); }
  else { VF_ASSERT(r == 0, "try_push_back/try_emplace_back on a full vector return null");
    VF_ASSERT(BYTE_SAME(v, s, k), "try_push_back/try_emplace_back on a full vector leave every byte of the object unchanged"); VF_ASSERT(view_eq(view_of(&v), o), "try_* on a full vector: view unchanged"); }
  CAPACITY_UNCHANGED(v); VF_REACH(); }

/*@GROUP name=pop_back props=C01,C02,C05 kind=K unwind=VF_N+5 when=(VF_N>0)*(VF_UC==0)@*/
void h_pop_back(void) { ARB(v); __CPROVER_assume(SZ(v) > 0); view_t o = view_of(&v); v_pop_back(&v);
  VF_ASSERT(WF(v) && view_eq(view_of(&v), sp_erase(o, o.n - 1, o.n)), "pop_back: n' = n-1, prefix unchanged"); CAPACITY_UNCHANGED(v); VF_REACH(); }

/*@GROUP name=clear props=C01,C02 kind=K unwind=VF_N+5 when=(VF_N>0)*(VF_UC==0)@*/
void h_clear(void) { ARB(v); v_clear(&v); VF_ASSERT(SZ(v) == 0 && v_empty(&v) && v_size(&v) == 0 && v_begin(&v) == v_end(&v), "clear: empty"); CAPACITY_UNCHANGED(v); VF_REACH(); }

/*@GROUP name=copy_move props=C01,C02 kind=K unwind=VF_N+5 when=(VF_N>0)*(VF_UC==0)@*/
void h_copy_move(void) { ARB(s); VF_INPUT(V, t); /* indeterminate target storage */ VF_INPUT_BOOL(mv); VF_INPUT(T, x); VF_INPUT(unsigned char, op); VF_INPUT(unsigned long, k); view_t os = view_of(&s); bytes_t bs = bytes_of(&s);
  if (mv) v_move_ctor(&t, &s); else v_copy_ctor(&t, &s);
  VF_ASSERT(WF(t) && view_eq(view_of(&t), os), "copy/move construction: target view == source view");
  VF_ASSERT(WF(s), "source stays well-formed (valid, destructible)");
  if (!mv) { VF_ASSERT(BYTE_SAME(s, bs, k), "copy construction leaves every byte of the source unchanged");
    /* independence: a second symbolic operation on the copy */
    if (op == 0 && SZ(t) > 0) { EL(t, 0) = x; v_pop_back(&t); } else if (op == 1 && SZ(t) < N) v_unchecked_push_back(&t, &x); else if (op == 2) v_try_push_back(&t, &x); else v_clear(&t);
    VF_ASSERT(view_eq(view_of(&s), os) && BYTE_SAME(s, bs, k), "independence: mutating the copy leaves the source unchanged"); }
  CAPACITY_UNCHANGED(t); VF_REACH(); }

/*@GROUP name=access props=C01,C02,C05 kind=K unwind=VF_N+5 when=(VF_N>0)*(VF_UC==0)@*/
void h_access(void) { ARB(v); VF_INPUT(unsigned char, i); view_t o = view_of(&v);
  VF_ASSERT(v_size(&v) == o.n && v_empty(&v) == (o.n == 0), "size/empty follow the view"); CAPACITY_UNCHANGED(v);
  VF_ASSERT(v_data(&v) == data_of(&v) && v_begin(&v) == data_of(&v) && v_end(&v) == data_of(&v) + o.n, "data/begin/end");
  VF_ASSERT(v_cdata(&v) == data_of(&v) && v_cbegin(&v) == data_of(&v) && v_cend(&v) == data_of(&v) + o.n, "data/begin/end const");
  if (o.n > 0) { VF_ASSERT(v_front(&v) == data_of(&v) && v_back(&v) == data_of(&v) + (o.n - 1), "front/back address the first/last element");
    VF_ASSERT(v_cfront(&v) == data_of(&v) && v_cback(&v) == data_of(&v) + (o.n - 1), "front/back const address the first/last element"); }
  if (i < o.n) { VF_ASSERT(v_index(&v, i) == data_of(&v) + i && v_cindex(&v, i) == data_of(&v) + i, "operator[](i) addresses element i"); }
  VF_ASSERT(view_eq(view_of(&v), o), "observers do not modify the object"); VF_REACH(); }

/* ---- C05: violated preconditions reach the handler, object untouched --------------------------------------------------------- */
/*@GROUP name=viol_grow props=C05,C02 kind=F when=(VF_N>0)*(VF_UC==0)@*/
void h_viol_grow(void) { ARB(v); VF_INPUT(T, x); VF_INPUT(unsigned char, op); __CPROVER_assume(SZ(v) == N); EXPECT_VIOLATION(v);
  if (op == 0) v_unchecked_push_back(&v, &x); else if (op == 1) v_unchecked_push_back_rv(&v, x); else v_unchecked_emplace_back(&v, x);
  VF_NORETURN_EXPECTED(); }

/*@GROUP name=viol_empty props=C05,C02 kind=F when=(VF_N>0)*(VF_UC==0)@*/
void h_viol_empty(void) { ARB(v); VF_INPUT(unsigned char, op); __CPROVER_assume(SZ(v) == 0); EXPECT_VIOLATION(v);
  if (op == 0) v_pop_back(&v); else if (op == 1) v_back(&v); else if (op == 2) v_front(&v); else if (op == 3) v_cback(&v); else v_cfront(&v);
  VF_NORETURN_EXPECTED(); }

/*@GROUP name=viol_index props=C05,C02 kind=F when=(VF_N>0)*(VF_UC==0)@*/
void h_viol_index(void) { ARB(v); VF_INPUT(unsigned long, i); VF_INPUT_BOOL(cst); __CPROVER_assume(i >= SZ(v));
  /* inplace_vector::operator[] compares n < size() directly (not through detail::index): no ptrdiff_t cast, the full index range is caught */
  EXPECT_VIOLATION(v); if (cst) v_cindex(&v, i); else v_index(&v, i); VF_NORETURN_EXPECTED(); }

/* ---- etl::array<int,4> --------------------------------------------------------------------------------------------------------- */
/*@GROUP name=array_access props=C05,C02 kind=F when=(VF_N==4)*(VF_UC==0)@*/
void h_array_access(void) { VF_INPUT(A, a); VF_INPUT(unsigned long, i); A a0 = a;
  VF_ASSERT(a_size(&a) == 4 && a_max_size(&a) == 4 && !a_empty(&a), "array<int,4>: size/max_size/empty");
  VF_ASSERT(a_data(&a) == &a._buf[0] && a_begin(&a) == &a._buf[0] && a_end(&a) == &a._buf[0] + 4, "array<int,4>: data/begin/end");
  VF_ASSERT(a_front(&a) == &a._buf[0] && a_cfront(&a) == &a._buf[0] && a_back(&a) == &a._buf[3] && a_cback(&a) == &a._buf[3], "array<int,4>: front/back address the first/last element (handler silent)");
  if (i < 4) { VF_ASSERT(a_index(&a, i) == &a._buf[i] && a_cindex(&a, i) == &a._buf[i], "array<int,4>: operator[](i) addresses element i (handler silent)"); }
  VF_ASSERT(a._buf[0] == a0._buf[0] && a._buf[1] == a0._buf[1] && a._buf[2] == a0._buf[2] && a._buf[3] == a0._buf[3], "array<int,4>: observers do not modify the object"); VF_REACH(); }

/* TETL_PRECONDITION_SAFE(pos < Size): only the safe configuration checks array::operator[] */
/*@GROUP name=viol_array_index props=C05,C02 kind=F when=(VF_SAFE==1)*(VF_UC==0)@*/
void h_viol_array_index(void) { VF_INPUT(A, a); VF_INPUT(unsigned long, i); VF_INPUT_BOOL(cst); __CPROVER_assume(i >= 4);
  EXPECT_VIOLATION_A(a); if (cst) a_cindex(&a, i); else a_index(&a, i); VF_NORETURN_EXPECTED(); }

/* ---- the <T,0> specialisation -------------------------------------------------------------------------------------------------- */
/*@GROUP name=zero props=C01,C02 kind=F when=(VF_N==0)*(VF_UC==0)@*/
void h_zero(void) { VF_INPUT(V, v); VF_INPUT(V, t); VF_INPUT(T, x); VF_INPUT(unsigned char, op); VF_INPUT(unsigned long, k); v_default(&v); bytes_t s = bytes_of(&v);
  VF_ASSERT(v_size(&v) == 0 && v_empty(&v), "inplace_vector<T,0>: always empty"); CAPACITY_UNCHANGED(v);
  VF_ASSERT(v_begin(&v) == v_end(&v) && v_cbegin(&v) == v_cend(&v) && v_data(&v) == v_begin(&v) && v_cdata(&v) == v_cbegin(&v), "inplace_vector<T,0>: begin() == end() == data()");
  T *r = op == 0 ? v_try_push_back(&v, &x) : (op == 1 ? v_try_push_back_rv(&v, x) : v_try_emplace_back(&v, x));
  VF_ASSERT(r == 0 && BYTE_SAME(v, s, k), "inplace_vector<T,0>: try_* return null and change nothing");
  v_clear(&v); if (op & 4) v_copy_ctor(&t, &v); else v_move_ctor(&t, &v);
  VF_ASSERT(v_size(&v) == 0 && v_empty(&v) && v_size(&t) == 0 && v_empty(&t), "inplace_vector<T,0>: clear/copy/move keep it empty"); VF_REACH(); }

/* C05 on the <T,0> specialisation: every call of front/back/operator[]/pop_back/unchecked_* violates the precondition (the vector is always
 * empty and full): each must reach the assertion handler (the object is empty: there is nothing to snapshot).  On the pinned tree the
 * specialisation executed etl::unreachable() instead (finding C05_ipv0_unreachable, repaired). */
/*@GROUP name=viol_zero props=C05 kind=F when=(VF_N==0)*(VF_UC==0)@*/
void h_viol_zero(void) { VF_INPUT(V, v); VF_INPUT(T, x); VF_INPUT(unsigned char, op); VF_INPUT(unsigned long, i); v_default(&v);
  VF_KNOWN(C05_ipv0_unreachable, 1);
  vf_expect_handler = 1;
  if (op == 0) v_pop_back(&v); else if (op == 1) v_back(&v); else if (op == 2) v_front(&v); else if (op == 3) v_cback(&v); else if (op == 4) v_cfront(&v);
  else if (op == 5) v_index(&v, i); else if (op == 6) v_cindex(&v, i); else if (op == 7) v_unchecked_push_back(&v, &x); else if (op == 8) v_unchecked_push_back_rv(&v, x); else v_unchecked_emplace_back(&v, x);
  VF_NORETURN_EXPECTED(); }

/* ---- size-type boundary: inplace_vector<unsigned char, 254/255/256>, loop-free members; elements quantified by the symbolic index k ---- */
/*@GROUP name=uc_ctor props=C01,C02 kind=F tier=thorough when=VF_UC==1@*/
void h_uc_ctor(void) { VF_INPUT(V, v); VF_KNOWN(C01_ipv_size_uninitialised, SZ(v) != 0); v_default(&v);
  VF_ASSERT(SZ(v) == 0 && v_size(&v) == 0 && v_empty(&v), "default construction establishes the empty view (no uninitialised size)"); CAPACITY_UNCHANGED(v);
  VF_ASSERT(sizeof(SZ(v)) == (N < 255 ? 1 : 2), "internal size type: smallest_size_t<N>"); VF_REACH(); }

/*@GROUP name=uc_push props=C01,C02,C05 kind=F tier=thorough when=VF_UC==1@*/
void h_uc_push(void) { ARB(v); VF_INPUT(T, x); VF_INPUT(unsigned char, which); VF_INPUT(unsigned long, k); VF_INPUT(unsigned long, kb); unsigned long n = SZ(v); V o = v; bytes_t s = bytes_of(&v);
  T *r = which == 0 ? v_try_push_back(&v, &x) : (which == 1 ? v_try_push_back_rv(&v, x) : (which == 2 ? v_try_emplace_back(&v, x) : 0));
  if (which > 2) { __CPROVER_assume(n < N); r = which == 3 ? v_unchecked_push_back(&v, &x) : (which == 4 ? v_unchecked_push_back_rv(&v, x) : v_unchecked_emplace_back(&v, x)); }
  if (n < N) { VF_ASSERT(SZ(v) == n + 1 && v_size(&v) == n + 1 && EL(v, n) == x && (k >= n || EL(v, k) == EL(o, k)), "push at the size-type boundary: n' = n+1 (no truncation), prefix unchanged, a'[n] = x");
    VF_ASSERT(r == data_of(&v) + n, "returned pointer/reference addresses the new element"); }
  else { VF_ASSERT(r == 0 && BYTE_SAME(v, s, kb), "try_* on a full vector: null, every byte unchanged"); }
  CAPACITY_UNCHANGED(v); VF_REACH(); }

/*@GROUP name=uc_pop_access props=C01,C02,C05 kind=F tier=thorough when=VF_UC==1@*/
void h_uc_pop_access(void) { ARB(v); VF_INPUT(unsigned long, i); VF_INPUT(unsigned long, k); unsigned long n = SZ(v); V o = v;
  VF_ASSERT(v_size(&v) == n && v_empty(&v) == (n == 0), "size/empty follow the view"); CAPACITY_UNCHANGED(v);
  VF_ASSERT(v_data(&v) == data_of(&v) && v_begin(&v) == data_of(&v) && v_end(&v) == data_of(&v) + n && v_cend(&v) == data_of(&v) + n, "data/begin/end");
  if (i < n) { VF_ASSERT(v_index(&v, i) == data_of(&v) + i && v_cindex(&v, i) == data_of(&v) + i, "operator[](i) addresses element i"); }
  if (n > 0) { VF_ASSERT(v_back(&v) == data_of(&v) + (n - 1) && v_cback(&v) == data_of(&v) + (n - 1) && v_front(&v) == data_of(&v), "back/front address the last/first element");
    v_pop_back(&v); VF_ASSERT(SZ(v) == n - 1 && v_size(&v) == n - 1 && (k >= n - 1 || EL(v, k) == EL(o, k)), "pop_back: n' = n-1, prefix unchanged"); }
  VF_REACH(); }

/*@GROUP name=uc_viol props=C05,C02 kind=F tier=thorough when=VF_UC==1@*/
void h_uc_viol(void) { ARB(v); VF_INPUT(T, x); VF_INPUT(unsigned char, op); VF_INPUT(unsigned long, i); EXPECT_VIOLATION(v);
  if (op == 0) { __CPROVER_assume(SZ(v) == N); v_unchecked_push_back(&v, &x); }
  else if (op == 1) { __CPROVER_assume(SZ(v) == 0); v_pop_back(&v); }
  else if (op == 2) { __CPROVER_assume(SZ(v) == 0); v_back(&v); }
  else { __CPROVER_assume(i >= SZ(v)); v_index(&v, i); }
  VF_NORETURN_EXPECTED(); }
