// driver: span, array, extents, layout mappings, mdspan, mdarray (C19, C05, C02)
#include <etl/array.hpp>
#include <etl/span.hpp>
#include <etl/new.hpp>
#define VF_E extern "C"
namespace vf {
using etl::size_t;
inline constexpr auto dyn = etl::dynamic_extent;

// ------------------------------------------------------------------ span<int> / span<int,4>
using SD = etl::span<int>;
using S4 = etl::span<int, 4>;
using A4 = etl::array<int, 4>;
using A0 = etl::array<int, 0>;
template <typename S> static auto put(S const& r, int** d, size_t* n) -> size_t { *d = r.data(); *n = r.size(); return S::extent; }

VF_E void sd_default(SD* out) { new (out) SD(); }
VF_E void sd_ctor_ptr_n(SD* out, int* p, size_t n) { new (out) SD(p, n); }
VF_E void sd_ctor_carr(SD* out, int (&a)[4]) { new (out) SD(a); }
VF_E void sd_ctor_array(SD* out, A4& a) { new (out) SD(a); }
VF_E void sd_ctor_s4(SD* out, S4 const& s) { new (out) SD(s); }
VF_E void sd_copy(SD* out, SD const& s) { new (out) SD(s); }
VF_E size_t sd_extent() { return SD::extent; }
VF_E void s4_ctor_ptr_n(S4* out, int* p, size_t n) { new (out) S4(p, n); }
VF_E void s4_ctor_carr(S4* out, int (&a)[4]) { new (out) S4(a); }
VF_E void s4_ctor_array(S4* out, A4& a) { new (out) S4(a); }
VF_E void s4_ctor_sd(S4* out, SD const& s) { new (out) S4(s); }
VF_E size_t s4_extent() { return S4::extent; }
VF_E size_t cs4_ctor_carray(etl::span<int const, 4>* out, A4 const& a) { new (out) etl::span<int const, 4>(a); return out->size(); }
VF_E size_t s0_ctor_array(int** d, size_t* n, A0& a) { auto s = etl::span<int, 0>(a); return put(s, d, n); }
VF_E size_t ctad_carr(int** d, size_t* n, int (&a)[4]) { auto s = etl::span(a); return put(s, d, n); }
VF_E size_t ctad_array(int** d, size_t* n, A4& a) { auto s = etl::span(a); return put(s, d, n); }

#define SPAN_OBS(P, S)                                                                                                 \
    VF_E int* P##_data(S const& s) { return s.data(); }                                                                \
    VF_E size_t P##_size(S const& s) { return s.size(); }                                                              \
    VF_E size_t P##_size_bytes(S const& s) { return s.size_bytes(); }                                                  \
    VF_E bool P##_empty(S const& s) { return s.empty(); }                                                              \
    VF_E int* P##_begin(S const& s) { return s.begin(); }                                                              \
    VF_E int* P##_end(S const& s) { return s.end(); }                                                                  \
    VF_E int* P##_rbegin_base(S const& s) { return s.rbegin().base(); }                                                \
    VF_E int* P##_rend_base(S const& s) { return s.rend().base(); }                                                    \
    VF_E int* P##_front(S const& s) { return &s.front(); }                                                             \
    VF_E int* P##_back(S const& s) { return &s.back(); }                                                               \
    VF_E int* P##_index(S const& s, size_t i) { return &s[i]; }                                                        \
    VF_E size_t P##_first_n(S const& s, size_t c, int** d, size_t* n) { return put(s.first(c), d, n); }                \
    VF_E size_t P##_last_n(S const& s, size_t c, int** d, size_t* n) { return put(s.last(c), d, n); }                  \
    VF_E size_t P##_subspan_oc(S const& s, size_t o, size_t c, int** d, size_t* n) { return put(s.subspan(o, c), d, n); } \
    VF_E size_t P##_subspan_o(S const& s, size_t o, int** d, size_t* n) { return put(s.subspan(o), d, n); }
SPAN_OBS(sd, SD)
SPAN_OBS(s4, S4)
// as_bytes / as_writable_bytes: only span<T> (dynamic); for a static extent `return {ptr, n}` picks the explicit constructor -> ill-formed (span.hpp:358, 373)
VF_E size_t sd_as_bytes(SD const& s, unsigned char const** d, size_t* n) { auto r = etl::as_bytes(s); *d = reinterpret_cast<unsigned char const*>(r.data()); *n = r.size(); return decltype(r)::extent; }
VF_E size_t sd_as_wbytes(SD const& s, unsigned char** d, size_t* n) { auto r = etl::as_writable_bytes(s); *d = reinterpret_cast<unsigned char*>(r.data()); *n = r.size(); return decltype(r)::extent; }
#define SPAN_T(P, S, C) \
    VF_E size_t P##_first_##C(S const& s, int** d, size_t* n) { return put(s.template first<C>(), d, n); } \
    VF_E size_t P##_last_##C(S const& s, int** d, size_t* n) { return put(s.template last<C>(), d, n); } \
    VF_E size_t P##_sub_##C(S const& s, int** d, size_t* n) { return put(s.template subspan<C>(), d, n); }
SPAN_T(sd, SD, 0) SPAN_T(sd, SD, 1) SPAN_T(sd, SD, 2) SPAN_T(sd, SD, 4)
SPAN_T(s4, S4, 0) SPAN_T(s4, S4, 1) SPAN_T(s4, S4, 2) SPAN_T(s4, S4, 4)
#define SPAN_T2(P, S, O, C) VF_E size_t P##_sub_##O##_##C(S const& s, int** d, size_t* n) { return put(s.template subspan<O, C>(), d, n); }
SPAN_T2(sd, SD, 0, 0) SPAN_T2(sd, SD, 0, 2) SPAN_T2(sd, SD, 1, 2) SPAN_T2(sd, SD, 2, 1) SPAN_T2(sd, SD, 4, 0)
SPAN_T2(s4, S4, 0, 0) SPAN_T2(s4, S4, 0, 4) SPAN_T2(s4, S4, 1, 2) SPAN_T2(s4, S4, 1, 3) SPAN_T2(s4, S4, 4, 0) SPAN_T2(s4, S4, 2, 1)

using S0 = etl::span<int, 0>;
VF_E int* s0_front(S0 const& s) { return &s.front(); }
VF_E int* s0_back(S0 const& s) { return &s.back(); }
VF_E int* s0_index(S0 const& s, size_t i) { return &s[i]; }

// ------------------------------------------------------------------ array<int,4> (C05 under the SAFE configuration)
VF_E int* a4_index(A4& a, size_t i) { return &a[i]; }
VF_E int const* a4_cindex(A4 const& a, size_t i) { return &a[i]; }
VF_E int* a4_data(A4& a) { return a.data(); }
VF_E int* a4_front(A4& a) { return &a.front(); }
VF_E int* a4_back(A4& a) { return &a.back(); }
VF_E int* a4_begin(A4& a) { return a.begin(); }
VF_E int* a4_end(A4& a) { return a.end(); }
VF_E size_t a4_size(A4 const& a) { return a.size(); }
VF_E bool a4_empty(A4 const& a) { return a.empty(); }
VF_E int* a0_begin(A0& a) { return a.begin(); }
VF_E int* a0_end(A0& a) { return a.end(); }
VF_E size_t a0_size(A0 const& a) { return a.size(); }
VF_E bool a0_empty(A0 const& a) { return a.empty(); }
}
