// driver: span, array, extents, layout mappings, mdspan, mdarray (C19, C05, C02)
#include <etl/array.hpp>
#include <etl/span.hpp>
#include <etl/new.hpp>
#define VF_E extern "C"
// The family is lowered in three parts (family.json variants, -DVF_PART=n) to keep each translation unit small:
//   0 span / array   1 extents   3 layout_left/right mappings   4 layout_stride mapping   2 mdspan over left/right   5 mdspan over stride
//   6 layout_transpose / submdspan_extents   7 conversion matrix of the layout_left/right mappings   8 conversion matrix of mdspan
#ifndef VF_PART
#define VF_PART 0
#endif
namespace vf {
using etl::size_t;
}
#if VF_PART == 0
namespace vf {

// ------------------------------------------------------------------ span<int> / span<int,4>
using SD = etl::span<int>;
using S4 = etl::span<int, 4>;
using A4 = etl::array<int, 4>;
using A0 = etl::array<int, 0>;
template <typename S, typename P> static auto put(S const& r, P** d, size_t* n) -> size_t { *d = r.data(); *n = r.size(); return S::extent; }

VF_E void sd_default(SD* out) { new (out) SD(); }
VF_E void sd_ctor_ptr_n(SD* out, int* p, size_t n) { new (out) SD(p, n); }
VF_E void sd_ctor_carr(SD* out, int (&a)[4]) { new (out) SD(a); }
VF_E void sd_ctor_array(SD* out, A4& a) { new (out) SD(a); }
VF_E void sd_ctor_s4(SD* out, S4 const& s) { new (out) SD(s); }
VF_E void sd_copy(SD* out, SD const& s) { new (out) SD(s); }
VF_E size_t sd_extent() { return SD::extent; }
VF_E void s4_ctor_ptr_n(S4* out, int* p, size_t n) { new (out) S4(p, n); }
VF_E void s4_ctor_carr(S4* out, int (&a)[4]) { new (out) S4(a); }
VF_E void s4_ctor_array(S4* out, A4& a) { new (out) S4(a); }
VF_E void s4_ctor_sd(S4* out, SD const& s) { new (out) S4(s); }
VF_E size_t s4_extent() { return S4::extent; }
VF_E size_t cs4_ctor_carray(etl::span<int const, 4>* out, A4 const& a) { new (out) etl::span<int const, 4>(a); return out->size(); }
VF_E size_t s0_ctor_array(int** d, size_t* n, A0& a) { auto s = etl::span<int, 0>(a); return put(s, d, n); }
VF_E size_t ctad_carr(int** d, size_t* n, int (&a)[4]) { auto s = etl::span(a); return put(s, d, n); }
VF_E size_t ctad_array(int** d, size_t* n, A4& a) { auto s = etl::span(a); return put(s, d, n); }

#define SPAN_OBS(P, S, E)                                                                                                \
    VF_E E* P##_data(S const& s) { return s.data(); }                                                                \
    VF_E size_t P##_size(S const& s) { return s.size(); }                                                              \
    VF_E size_t P##_size_bytes(S const& s) { return s.size_bytes(); }                                                  \
    VF_E bool P##_empty(S const& s) { return s.empty(); }                                                              \
    VF_E E* P##_begin(S const& s) { return s.begin(); }                                                              \
    VF_E E* P##_end(S const& s) { return s.end(); }                                                                  \
    VF_E E* P##_rbegin_base(S const& s) { return s.rbegin().base(); }                                                \
    VF_E E* P##_rend_base(S const& s) { return s.rend().base(); }                                                    \
    VF_E E* P##_front(S const& s) { return &s.front(); }                                                             \
    VF_E E* P##_back(S const& s) { return &s.back(); }                                                               \
    VF_E E* P##_index(S const& s, size_t i) { return &s[i]; }                                                        \
    VF_E size_t P##_first_n(S const& s, size_t c, E** d, size_t* n) { return put(s.first(c), d, n); }                \
    VF_E size_t P##_last_n(S const& s, size_t c, E** d, size_t* n) { return put(s.last(c), d, n); }                  \
    VF_E size_t P##_subspan_oc(S const& s, size_t o, size_t c, E** d, size_t* n) { return put(s.subspan(o, c), d, n); } \
    VF_E size_t P##_subspan_o(S const& s, size_t o, E** d, size_t* n) { return put(s.subspan(o), d, n); }
SPAN_OBS(sd, SD, int)
SPAN_OBS(s4, S4, int)
// as_bytes / as_writable_bytes: only span<T> (dynamic); for a static extent `return {ptr, n}` picks the explicit constructor -> ill-formed (span.hpp:358, 373)
VF_E size_t sd_as_bytes(SD const& s, unsigned char const** d, size_t* n) { auto r = etl::as_bytes(s); *d = reinterpret_cast<unsigned char const*>(r.data()); *n = r.size(); return decltype(r)::extent; }
VF_E size_t sd_as_wbytes(SD const& s, unsigned char** d, size_t* n) { auto r = etl::as_writable_bytes(s); *d = reinterpret_cast<unsigned char*>(r.data()); *n = r.size(); return decltype(r)::extent; }
#define SPAN_T(P, S, C, E) \
    VF_E size_t P##_first_##C(S const& s, E** d, size_t* n) { return put(s.template first<C>(), d, n); } \
    VF_E size_t P##_last_##C(S const& s, E** d, size_t* n) { return put(s.template last<C>(), d, n); } \
    VF_E size_t P##_sub_##C(S const& s, E** d, size_t* n) { return put(s.template subspan<C>(), d, n); }
SPAN_T(sd, SD, 0, int) SPAN_T(sd, SD, 1, int) SPAN_T(sd, SD, 2, int) SPAN_T(sd, SD, 4, int)
SPAN_T(s4, S4, 0, int) SPAN_T(s4, S4, 1, int) SPAN_T(s4, S4, 2, int) SPAN_T(s4, S4, 4, int)
#define SPAN_T2(P, S, O, C, E) VF_E size_t P##_sub_##O##_##C(S const& s, E** d, size_t* n) { return put(s.template subspan<O, C>(), d, n); }
SPAN_T2(sd, SD, 0, 0, int) SPAN_T2(sd, SD, 0, 2, int) SPAN_T2(sd, SD, 1, 2, int) SPAN_T2(sd, SD, 2, 1, int) SPAN_T2(sd, SD, 4, 0, int)
SPAN_T2(s4, S4, 0, 0, int) SPAN_T2(s4, S4, 0, 4, int) SPAN_T2(s4, S4, 1, 2, int) SPAN_T2(s4, S4, 1, 3, int) SPAN_T2(s4, S4, 4, 0, int) SPAN_T2(s4, S4, 2, 1, int)

using S0 = etl::span<int, 0>;
VF_E int* s0_front(S0 const& s) { return &s.front(); }
VF_E int* s0_back(S0 const& s) { return &s.back(); }
VF_E int* s0_index(S0 const& s, size_t i) { return &s[i]; }

// ------------------------------------------------------------------ conversions between differently-parameterised spans
// span<U,N> -> span<T,M> ([span.cons]/20: data() == s.data(), size() == s.size()) over the element types int / int const / short / short const and
// every combination of dynamic / static extent; the const and the short instantiations are separate function bodies and get their own observers
using CSD = etl::span<int const>;
using CS4 = etl::span<int const, 4>;
using HD  = etl::span<short>;
using H4  = etl::span<short, 4>;
using CHD = etl::span<short const>;
using CH4 = etl::span<short const, 4>;
using AH4 = etl::array<short, 4>;
#define SPAN_CONV(name, D, S) VF_E void name(D* out, S const& s) { new (out) D(s); }
SPAN_CONV(csd_from_sd, CSD, SD) SPAN_CONV(csd_from_s4, CSD, S4) SPAN_CONV(cs4_from_sd, CS4, SD) SPAN_CONV(cs4_from_s4, CS4, S4)
SPAN_CONV(csd_from_csd, CSD, CSD) SPAN_CONV(csd_from_cs4, CSD, CS4) SPAN_CONV(cs4_from_csd, CS4, CSD) SPAN_CONV(cs4_from_cs4, CS4, CS4)
SPAN_CONV(hd_from_hd, HD, HD) SPAN_CONV(hd_from_h4, HD, H4) SPAN_CONV(h4_from_hd, H4, HD) SPAN_CONV(h4_from_h4, H4, H4)
SPAN_CONV(chd_from_hd, CHD, HD) SPAN_CONV(chd_from_h4, CHD, H4) SPAN_CONV(ch4_from_hd, CH4, HD) SPAN_CONV(ch4_from_h4, CH4, H4)
VF_E void csd_implicit_sd(CSD* out, SD const& s) { CSD c = s; *out = c; }   // copy-initialisation + assignment
VF_E void csd_implicit_s4(CSD* out, S4 const& s) { CSD c = s; *out = c; }
// [span.cons] constraints / explicit-ness of the converting constructor
VF_E unsigned span_conv_traits()
{
    return unsigned(etl::is_constructible_v<S4, etl::span<int, 2>>) | unsigned(etl::is_constructible_v<SD, CSD>) << 1
         | unsigned(etl::is_convertible_v<SD, S4>) << 2 | unsigned(etl::is_convertible_v<S4, SD>) << 3 | unsigned(etl::is_convertible_v<SD, CSD>) << 4
         | unsigned(etl::is_constructible_v<S4, SD>) << 5 | unsigned(etl::is_constructible_v<HD, SD>) << 6 | unsigned(etl::is_convertible_v<S4, CS4>) << 7
         | unsigned(etl::is_constructible_v<CS4, etl::span<int, 3>>) << 8 | unsigned(etl::is_convertible_v<S4, CSD>) << 9 | unsigned(etl::is_constructible_v<CS4, SD>) << 10
         | unsigned(etl::is_convertible_v<SD, CS4>) << 11;
}
// further sources: array<T,N> const&, array<T,N>&, C arrays, for const / short element types
VF_E void csd_ctor_ptr_n(CSD* out, int const* p, size_t n) { new (out) CSD(p, n); }
VF_E void csd_ctor_ptr_n_nc(CSD* out, int* p, size_t n) { new (out) CSD(p, n); }
VF_E void csd_ctor_carray(CSD* out, A4 const& a) { new (out) CSD(a); }
VF_E void csd_ctor_array(CSD* out, A4& a) { new (out) CSD(a); }
VF_E void csd_ctor_carr(CSD* out, int const (&a)[4]) { new (out) CSD(a); }
VF_E void cs4_ctor_array(CS4* out, A4& a) { new (out) CS4(a); }
VF_E void cs4_ctor_carr(CS4* out, int const (&a)[4]) { new (out) CS4(a); }
VF_E void hd_ctor_ptr_n(HD* out, short* p, size_t n) { new (out) HD(p, n); }
VF_E void hd_ctor_array(HD* out, AH4& a) { new (out) HD(a); }
VF_E void hd_ctor_carr(HD* out, short (&a)[4]) { new (out) HD(a); }
VF_E void h4_ctor_array(H4* out, AH4& a) { new (out) H4(a); }
VF_E void h4_ctor_carr(H4* out, short (&a)[4]) { new (out) H4(a); }
VF_E void chd_ctor_carray(CHD* out, AH4 const& a) { new (out) CHD(a); }
VF_E void ch4_ctor_carray(CH4* out, AH4 const& a) { new (out) CH4(a); }
VF_E size_t ctad_carray(int const** d, size_t* n, A4 const& a) { auto s = etl::span(a); return put(s, d, n); }
VF_E size_t ctad_ccarr(int const** d, size_t* n, int const (&a)[4]) { auto s = etl::span(a); return put(s, d, n); }
VF_E size_t ctad_harray(short** d, size_t* n, AH4& a) { auto s = etl::span(a); return put(s, d, n); }
SPAN_OBS(csd, CSD, int const)
SPAN_OBS(cs4, CS4, int const)
SPAN_OBS(hd, HD, short)
SPAN_OBS(h4, H4, short)
SPAN_OBS(chd, CHD, short const)
SPAN_T(csd, CSD, 0, int const) SPAN_T(csd, CSD, 2, int const) SPAN_T(cs4, CS4, 2, int const) SPAN_T(hd, HD, 2, short) SPAN_T(h4, H4, 2, short) SPAN_T(chd, CHD, 2, short const)
SPAN_T2(csd, CSD, 1, 2, int const) SPAN_T2(cs4, CS4, 1, 2, int const) SPAN_T2(hd, HD, 1, 2, short) SPAN_T2(h4, H4, 1, 3, short) SPAN_T2(chd, CHD, 1, 2, short const)
#define SPAN_BYTES(P, S) VF_E size_t P##_as_bytes(S const& s, unsigned char const** d, size_t* n) { auto r = etl::as_bytes(s); *d = reinterpret_cast<unsigned char const*>(r.data()); *n = r.size(); return decltype(r)::extent; }
#define SPAN_WBYTES(P, S) VF_E size_t P##_as_wbytes(S const& s, unsigned char** d, size_t* n) { auto r = etl::as_writable_bytes(s); *d = reinterpret_cast<unsigned char*>(r.data()); *n = r.size(); return decltype(r)::extent; }
SPAN_BYTES(csd, CSD) SPAN_BYTES(hd, HD) SPAN_BYTES(chd, CHD) SPAN_WBYTES(hd, HD)

// ------------------------------------------------------------------ array<int,4> (C05 under the SAFE configuration)
VF_E int* a4_index(A4& a, size_t i) { return &a[i]; }
VF_E int const* a4_cindex(A4 const& a, size_t i) { return &a[i]; }
VF_E int* a4_data(A4& a) { return a.data(); }
VF_E int* a4_front(A4& a) { return &a.front(); }
VF_E int* a4_back(A4& a) { return &a.back(); }
VF_E int* a4_begin(A4& a) { return a.begin(); }
VF_E int* a4_end(A4& a) { return a.end(); }
VF_E size_t a4_size(A4 const& a) { return a.size(); }
VF_E bool a4_empty(A4 const& a) { return a.empty(); }
VF_E int const* a4_cdata(A4 const& a) { return a.data(); }
VF_E int const* a4_cfront(A4 const& a) { return &a.front(); }
VF_E int const* a4_cback(A4 const& a) { return &a.back(); }
VF_E int const* a4_begin_c(A4 const& a) { return a.begin(); }
VF_E int const* a4_end_c(A4 const& a) { return a.end(); }
VF_E int const* a4_cbegin(A4 const& a) { return a.cbegin(); }
VF_E int const* a4_cend(A4 const& a) { return a.cend(); }
VF_E int* a4_rbegin_base(A4& a) { return a.rbegin().base(); }
VF_E int* a4_rend_base(A4& a) { return a.rend().base(); }
VF_E int const* a4_crbegin_base(A4 const& a) { return a.crbegin().base(); }
VF_E int const* a4_crend_base(A4 const& a) { return a.crend().base(); }
VF_E int const* a4_rbegin_c_base(A4 const& a) { return a.rbegin().base(); }
VF_E int const* a4_rend_c_base(A4 const& a) { return a.rend().base(); }
VF_E size_t a4_max_size(A4 const& a) { return a.max_size(); }
VF_E void a4_fill(A4& a, int const& v) { a.fill(v); }
VF_E void a4_swap(A4& a, A4& b) { a.swap(b); }
VF_E bool a4_eq(A4 const& a, A4 const& b) { return a == b; }
VF_E bool a4_lt(A4 const& a, A4 const& b) { return a < b; }
VF_E int* a0_begin(A0& a) { return a.begin(); }
VF_E int* a0_end(A0& a) { return a.end(); }
VF_E size_t a0_size(A0 const& a) { return a.size(); }
VF_E bool a0_empty(A0 const& a) { return a.empty(); }
}
#endif  // VF_PART == 0

// ------------------------------------------------------------------ extents / layout mappings / mdspan over the patterns of patterns.def
#if VF_PART >= 1
#include <etl/mdspan.hpp>
namespace vf {
#if VF_IT == 1
using IT = etl::size_t;
#elif VF_IT == 2
using IT = unsigned char;
#else
using IT = int;
#endif
using OT = long;  // a second index type for the converting constructors / heterogeneous comparison
#define VD etl::dynamic_extent
template <size_t R, typename I> struct mk;
template <typename I> struct mk<0, I> { template <size_t A, size_t B, size_t C> using ext = etl::extents<I>; using dex = etl::extents<I>; };
template <typename I> struct mk<1, I> { template <size_t A, size_t B, size_t C> using ext = etl::extents<I, A>; using dex = etl::extents<I, VD>; };
template <typename I> struct mk<2, I> { template <size_t A, size_t B, size_t C> using ext = etl::extents<I, A, B>; using dex = etl::extents<I, VD, VD>; };
template <typename I> struct mk<3, I> { template <size_t A, size_t B, size_t C> using ext = etl::extents<I, A, B, C>; using dex = etl::extents<I, VD, VD, VD>; };

template <typename T, typename V, size_t... Is> static void ctor_pack(T* out, V const* v, etl::index_sequence<Is...>) { new (out) T(v[Is]...); }
template <typename T, typename P, typename V, size_t... Is> static void ctor_ptr_pack(T* out, P p, V const* v, etl::index_sequence<Is...>) { new (out) T(p, v[Is]...); }
template <size_t N, typename V> static auto arr_of(V const* v) -> etl::array<V, N> { etl::array<V, N> a{}; for (size_t i = 0; i < N; ++i) { a[i] = v[i]; } return a; }
template <typename M, size_t... Is> static auto call_map(M const& m, IT const* ix, etl::index_sequence<Is...>) { return m(ix[Is]...); }
template <typename M, size_t... Is> static auto call_at(M const& m, IT const* ix, etl::index_sequence<Is...>) -> int* { return &m(ix[Is]...); }
template <typename M> static auto flags_of() -> unsigned { return unsigned(M::is_always_unique()) | unsigned(M::is_always_exhaustive()) << 1 | unsigned(M::is_always_strided()) << 2; }

template <typename M> static auto stride_of(M const& m, size_t k) -> IT { if constexpr (M::extents_type::rank() > 0) { return m.stride(k); } else { (void)m; (void)k; return 0; } }
// rank 0: clang-14 (the lowering front end) rejects layout_left/right::mapping<extents<I>>::operator()() ("invalid reference to function 'stride': constraints
// not satisfied" inside the empty fold, layout_left.hpp:68 / layout_right.hpp:71; g++ accepts) -> the rank-0 call is not lowered for these two layouts
template <typename M> static auto call_map_r(M const& m, IT const* ix) -> IT { if constexpr (M::extents_type::rank() > 0) { return call_map(m, ix, etl::make_index_sequence<M::extents_type::rank()>{}); } else { (void)m; (void)ix; return 0; } }
// rank 0: mapping(extents, strides) is ill-formed (layout_stride.hpp:41 `array{...}` with an empty pack cannot deduce) -> default construction only
template <typename M, typename E, typename S> static void ls_ctor(M* out, E const& e, S const& s) { if constexpr (E::rank() > 0) { new (out) M(e, s); } else { (void)e; (void)s; new (out) M(); } }

#define VP(name, R, A, B, C, sfx)                                                                                      \
    using E_##name    = mk<R, IT>::ext<A, B, C>;                                                                       \
    using DE_##name   = mk<R, IT>::dex;                                                                                \
    using OE_##name   = mk<R, OT>::dex;                                                                                \
    using M_ll##name  = etl::layout_left::mapping<E_##name>;                                                           \
    using M_lr##name  = etl::layout_right::mapping<E_##name>;                                                          \
    using M_ls##name  = etl::layout_stride::mapping<E_##name>;                                                         \
    using DM_ll##name = etl::layout_left::mapping<DE_##name>;                                                          \
    using DM_lr##name = etl::layout_right::mapping<DE_##name>;
#include "patterns.def"
#undef VP
// ---- conversion matrix: every pattern of patterns.def as the SOURCE of a converting constructor (index = position in patterns.def) ----
// conv_from<Dst>(list, out, which, src): constructs Dst from the `which`-th source type if the library declares that conversion;
// returns bit 0 = is_constructible (the object was constructed), bit 1 = is_convertible (the constructor is not explicit)
template <typename... T> struct tl { };
template <typename D, typename S> inline constexpr bool conv_ok = etl::is_constructible_v<D, S const&>;
template <typename D> inline constexpr bool conv_ok<D, void> = false;   // list terminator
// (one non-template body for all pairs without a conversion keeps the lowered translation unit small)
static auto conv_go(etl::false_type /*no conversion*/, void* /*out*/, void const* /*src*/) -> unsigned { return 0U; }
template <typename D, typename S> static auto conv_go(etl::true_type /*convertible*/, D* out, S const* src) -> unsigned { new (out) D(*src); return 1U | unsigned(etl::is_convertible_v<S const&, D>) << 1; }
template <typename D, typename... S, size_t... Is> static auto conv_sel(tl<S...>, etl::index_sequence<Is...>, D* out, size_t which, void const* src) -> unsigned
{
    unsigned r = 0;
    ((which == Is ? (void)(r = conv_go(etl::bool_constant<conv_ok<D, S>>{}, out, static_cast<S const*>(src))) : (void)0), ...);
    return r;
}
template <typename D, typename... S> static auto conv_from(tl<S...> l, D* out, size_t which, void const* src) -> unsigned { return conv_sel(l, etl::make_index_sequence<sizeof...(S)>{}, out, which, src); }
// heterogeneous comparison a == b with b of the `which`-th type of the list (same rank only: for different ranks operator== is `false` by definition); -1: not compared
template <typename D, typename S> inline constexpr bool same_rank = D::extents_type::rank() == S::extents_type::rank();
template <typename D> inline constexpr bool same_rank<D, void> = false;
template <typename D> static auto eq_go(etl::false_type, D const& /*a*/, void const* /*b*/) -> int { return -1; }
template <typename D, typename S> static auto eq_go(etl::true_type, D const& a, S const* b) -> int { return int(a == *b); }   // (b == a is the transposed pair of the matrix)
template <typename D, typename... S, size_t... Is> static auto eq_sel(tl<S...>, etl::index_sequence<Is...>, D const& a, size_t which, void const* src) -> int
{
    int r = -1;
    ((which == Is ? (void)(r = eq_go(etl::bool_constant<same_rank<D, S>>{}, a, static_cast<S const*>(src))) : (void)0), ...);
    return r;
}
template <typename D, typename... S> static auto eq_with(tl<S...> l, D const& a, size_t which, void const* src) -> int { return eq_sel(l, etl::make_index_sequence<sizeof...(S)>{}, a, which, src); }
template <typename I> struct pats {
    using ext = tl<
#define VP(name, R, A, B, C, sfx) typename mk<R, I>::template ext<A, B, C>,
#include "patterns.def"
#undef VP
        void>;
    using ll = tl<
#define VP(name, R, A, B, C, sfx) etl::layout_left::mapping<typename mk<R, I>::template ext<A, B, C>>,
#include "patterns.def"
#undef VP
        void>;
    using lr = tl<
#define VP(name, R, A, B, C, sfx) etl::layout_right::mapping<typename mk<R, I>::template ext<A, B, C>>,
#include "patterns.def"
#undef VP
        void>;
    template <typename T> using mll = tl<
#define VP(name, R, A, B, C, sfx) etl::mdspan<T, typename mk<R, I>::template ext<A, B, C>, etl::layout_left>,
#include "patterns.def"
#undef VP
        void>;
    template <typename T> using mlr = tl<
#define VP(name, R, A, B, C, sfx) etl::mdspan<T, typename mk<R, I>::template ext<A, B, C>, etl::layout_right>,
#include "patterns.def"
#undef VP
        void>;
};
}
#endif  // VF_PART >= 1

#if VF_PART == 1
namespace vf {
#define VP(name, R, A, B, C, sfx)                                                                                      \
    VF_E size_t name##_rank() { return E_##name::rank(); }                                                             \
    VF_E size_t name##_rank_dynamic() { return E_##name::rank_dynamic(); }                                             \
    VF_E size_t name##_static_extent(size_t k) { return E_##name::static_extent(k); }                                  \
    VF_E IT name##_extent(E_##name const& e, size_t k) { return e.extent(k); }                                         \
    VF_E void name##_ctor_default(E_##name* out) { new (out) E_##name(); }                                             \
    VF_E void name##_ctor_dyn(E_##name* out, IT const* v) { ctor_pack(out, v, etl::make_index_sequence<E_##name::rank_dynamic()>{}); } \
    VF_E void name##_ctor_all(E_##name* out, IT const* v) { ctor_pack(out, v, etl::make_index_sequence<R>{}); }        \
    VF_E void name##_ctor_arr_dyn(E_##name* out, IT const* v) { auto a = arr_of<E_##name::rank_dynamic()>(v); new (out) E_##name(a); } \
    VF_E void name##_ctor_arr_all(E_##name* out, IT const* v) { auto a = arr_of<R>(v); new (out) E_##name(a); }        \
    VF_E void name##_ctor_span_dyn(E_##name* out, IT const* v) { auto a = arr_of<E_##name::rank_dynamic()>(v); new (out) E_##name(etl::span<IT const, E_##name::rank_dynamic()>(a)); } \
    VF_E void name##_ctor_span_all(E_##name* out, IT const* v) { auto a = arr_of<R>(v); new (out) E_##name(etl::span<IT const, R>(a)); } \
    VF_E bool name##_eq(E_##name const& a, E_##name const& b) { return a == b; }                                       \
    VF_E bool name##_eq_dex(E_##name const& a, DE_##name const& b) { return a == b; }                                  \
    VF_E bool name##_eq_odex(E_##name const& a, OE_##name const& b) { return a == b; }                                 \
    VF_E void name##_from_dex(E_##name* out, DE_##name const& o) { new (out) E_##name(o); }                            \
    VF_E void name##_to_dex(DE_##name* out, E_##name const& o) { new (out) DE_##name(o); }                             \
    VF_E void name##_from_odex(E_##name* out, OE_##name const& o) { new (out) E_##name(o); }                           \
    VF_E void name##_to_odex(OE_##name* out, E_##name const& o) { new (out) OE_##name(o); }                            \
    VF_E size_t name##_fwd(E_##name const& e, size_t k) { return e.fwd_prod_of_extents(k); }                           \
    VF_E size_t name##_rev(E_##name const& e, size_t k) { return e.rev_prod_of_extents(k); }                           \
    VF_E unsigned name##_conv_from(E_##name* out, size_t which, void const* src) { return conv_from(pats<IT>::ext{}, out, which, src); } \
    VF_E unsigned name##_conv_from_o(E_##name* out, size_t which, void const* src) { return conv_from(pats<OT>::ext{}, out, which, src); }
#include "patterns.def"
#undef VP
}
#endif  // VF_PART == 1

#if VF_PART == 3
namespace vf {
// ---- layout_left / layout_right mappings -----------------------------------------------------------------------------------------
#define VLAY(name, R, P, L)                                                                                            \
    VF_E void name##_##P##_ctor_default(M_##P##name* out) { new (out) M_##P##name(); }                                 \
    VF_E void name##_##P##_ctor(M_##P##name* out, E_##name const& e) { new (out) M_##P##name(e); }                     \
    VF_E void name##_##P##_copy(M_##P##name* out, M_##P##name const& m) { new (out) M_##P##name(m); }                  \
    VF_E E_##name const* name##_##P##_extents(M_##P##name const& m) { return &m.extents(); }                           \
    VF_E IT name##_##P##_rss(M_##P##name const& m) { return m.required_span_size(); }                                  \
    VF_E IT name##_##P##_stride(M_##P##name const& m, size_t k) { return stride_of(m, k); }                            \
    VF_E IT name##_##P##_map(M_##P##name const& m, IT const* ix) { return call_map_r(m, ix); }                         \
    VF_E unsigned name##_##P##_flags(M_##P##name const& m) { return flags_of<M_##P##name>() | unsigned(m.is_unique()) << 3 | unsigned(m.is_exhaustive()) << 4 | unsigned(m.is_strided()) << 5; } \
    VF_E bool name##_##P##_eq(M_##P##name const& a, M_##P##name const& b) { return a == b; }                           \
    VF_E bool name##_##P##_eq_dex(M_##P##name const& a, DM_##P##name const& b) { return a == b; }                      \
    VF_E void name##_##P##_from_dex(M_##P##name* out, DM_##P##name const& o) { new (out) M_##P##name(o); }             \
    VF_E void name##_##P##_to_dex(DM_##P##name* out, M_##P##name const& o) { new (out) DM_##P##name(o); }
#define VP(name, R, A, B, C, sfx) VLAY(name, R, ll, layout_left) VLAY(name, R, lr, layout_right)
#include "patterns.def"
#undef VP
// left <-> right for rank <= 1
#define VCONV(name) \
    VF_E void name##_ll_from_lr(M_ll##name* out, M_lr##name const& o) { new (out) M_ll##name(o); } \
    VF_E void name##_lr_from_ll(M_lr##name* out, M_ll##name const& o) { new (out) M_lr##name(o); }
VCONV(e) VCONV(e0) VCONV(e1) VCONV(e3) VCONV(ed)
}
#endif  // VF_PART == 3

#if VF_PART == 4
namespace vf {

// ---- layout_stride mapping (required_span_size, is_exhaustive, operator== and the converting constructor are declared but not defined) ----
#define VP(name, R, A, B, C, sfx)                                                                                      \
    VF_E void name##_ls_ctor_default(M_ls##name* out) { new (out) M_ls##name(); }                                      \
    VF_E void name##_ls_ctor_arr(M_ls##name* out, E_##name const& e, IT const* s) { auto a = arr_of<R>(s); ls_ctor(out, e, a); } \
    VF_E void name##_ls_ctor_span(M_ls##name* out, E_##name const& e, IT const* s) { auto a = arr_of<R>(s); ls_ctor(out, e, etl::span<IT const, R>(a)); } \
    VF_E E_##name const* name##_ls_extents(M_ls##name const& m) { return &m.extents(); }                               \
    VF_E IT name##_ls_stride(M_ls##name const& m, size_t k) { return m.stride(k); }                                    \
    VF_E void name##_ls_strides(M_ls##name const& m, IT* out) { auto a = m.strides(); for (size_t i = 0; i < R; ++i) { out[i] = a[i]; } } \
    VF_E IT name##_ls_map(M_ls##name const& m, IT const* ix) { return call_map(m, ix, etl::make_index_sequence<R>{}); } \
    VF_E unsigned name##_ls_flags(M_ls##name const& m) { return flags_of<M_ls##name>() | unsigned(m.is_unique()) << 3 | unsigned(m.is_strided()) << 5; }
#include "patterns.def"
#undef VP
}
#endif  // VF_PART == 4

#if VF_PART == 2 || VF_PART == 5 || VF_PART == 6
#include <etl/linalg.hpp>
#endif
#if VF_PART == 2 || VF_PART == 5
namespace vf {
// ---- mdspan<int, E, layout> over layout_left / layout_right / layout_stride ----------------------------------------------------------
// (rank 0 with layout_left/right: operator()() is not lowered, see call_map_r)
template <typename M> static auto call_at_r(M const& m, IT const* ix) -> int* { if constexpr (M::rank() > 0 || etl::is_same_v<typename M::layout_type, etl::layout_stride>) { return call_at(m, ix, etl::make_index_sequence<M::rank()>{}); } else { (void)ix; return m.data_handle(); } }
template <typename M> static auto at_arr_r(M const& m, IT const* ix) -> int* { if constexpr (M::rank() > 0 || etl::is_same_v<typename M::layout_type, etl::layout_stride>) { auto a = arr_of<M::rank()>(ix); return &m[a]; } else { (void)ix; return m.data_handle(); } }
template <typename M> static auto at_span_r(M const& m, IT const* ix) -> int* { if constexpr (M::rank() > 0 || etl::is_same_v<typename M::layout_type, etl::layout_stride>) { auto a = arr_of<M::rank()>(ix); return &m[etl::span<IT const, M::rank()>(a)]; } else { (void)ix; return m.data_handle(); } }
template <typename M> static auto md_stride(M const& m, size_t k) -> IT { if constexpr (M::rank() > 0) { return m.stride(k); } else { (void)m; (void)k; return 0; } }
template <typename M> static auto md_flags(M const& m) -> unsigned {
    unsigned f = unsigned(M::is_always_unique()) | unsigned(M::is_always_exhaustive()) << 1 | unsigned(M::is_always_strided()) << 2 | unsigned(m.is_unique()) << 3 | unsigned(m.is_strided()) << 5;
    if constexpr (!etl::is_same_v<typename M::layout_type, etl::layout_stride>) { f |= unsigned(m.is_exhaustive()) << 4; }
    return f;
}
#define VMD(name, R, P, L)                                                                                             \
    using MD_##P##name = etl::mdspan<int, E_##name, etl::L>;                                                           \
    VF_E void name##_m##P##_ctor_map(MD_##P##name* out, int* p, M_##P##name const& m) { new (out) MD_##P##name(p, m); } \
    VF_E void name##_m##P##_copy(MD_##P##name* out, MD_##P##name const& m) { new (out) MD_##P##name(m); }              \
    VF_E int* name##_m##P##_at(MD_##P##name const& m, IT const* ix) { return call_at_r(m, ix); }                       \
    VF_E int* name##_m##P##_at_arr(MD_##P##name const& m, IT const* ix) { return at_arr_r(m, ix); }                    \
    VF_E int* name##_m##P##_at_span(MD_##P##name const& m, IT const* ix) { return at_span_r(m, ix); }                  \
    VF_E size_t name##_m##P##_size(MD_##P##name const& m) { return m.size(); }                                         \
    VF_E bool name##_m##P##_empty(MD_##P##name const& m) { return m.empty(); }                                         \
    VF_E IT name##_m##P##_extent(MD_##P##name const& m, size_t k) { return m.extent(k); }                              \
    VF_E IT name##_m##P##_stride(MD_##P##name const& m, size_t k) { return md_stride(m, k); }                          \
    VF_E int* name##_m##P##_data(MD_##P##name const& m) { return m.data_handle(); }                                    \
    VF_E M_##P##name const* name##_m##P##_mapping(MD_##P##name const& m) { return &m.mapping(); }                      \
    VF_E E_##name const* name##_m##P##_extents(MD_##P##name const& m) { return &m.extents(); }                         \
    VF_E size_t name##_m##P##_rank(size_t* rd, size_t* se, size_t k) { *rd = MD_##P##name::rank_dynamic(); *se = k < R ? MD_##P##name::static_extent(k) : 0; return MD_##P##name::rank(); } \
    VF_E unsigned name##_m##P##_flags(MD_##P##name const& m) { return md_flags(m); }
#define VMDX(name, R, P, L)                                                                                            \
    VF_E void name##_m##P##_ctor_ext(MD_##P##name* out, int* p, E_##name const& e) { new (out) MD_##P##name(p, e); }   \
    VF_E void name##_m##P##_ctor_dyn(MD_##P##name* out, int* p, IT const* v) { ctor_ptr_pack(out, p, v, etl::make_index_sequence<E_##name::rank_dynamic()>{}); } \
    VF_E void name##_m##P##_ctor_arr(MD_##P##name* out, int* p, IT const* v) { auto a = arr_of<E_##name::rank_dynamic()>(v); new (out) MD_##P##name(p, a); } \
    VF_E void name##_m##P##_ctor_span(MD_##P##name* out, int* p, IT const* v) { auto a = arr_of<E_##name::rank_dynamic()>(v); new (out) MD_##P##name(p, etl::span<IT const, E_##name::rank_dynamic()>(a)); }
#if VF_PART == 2
#define VP(name, R, A, B, C, sfx) VMD(name, R, ll, layout_left) VMDX(name, R, ll, layout_left) VMD(name, R, lr, layout_right) VMDX(name, R, lr, layout_right)
#else
#define VP(name, R, A, B, C, sfx) VMD(name, R, ls, layout_stride)
#endif
#include "patterns.def"
#undef VP
}
#endif  // VF_PART == 2 || VF_PART == 5

#if VF_PART == 7
namespace vf {
// ---- conversion matrix of layout_left / layout_right mappings (own part: keeps the translation units of part 3 small) ----------------
// _from: same layout, same index type; _from_o: same layout, source index type long; _from_x: the other layout (declared for rank <= 1)
#define VLAY_CONV(name, P, X)                                                                                          \
    VF_E unsigned name##_##P##_conv_from(M_##P##name* out, size_t which, void const* src) { return conv_from(pats<IT>::P{}, out, which, src); } \
    VF_E unsigned name##_##P##_conv_from_o(M_##P##name* out, size_t which, void const* src) { return conv_from(pats<OT>::P{}, out, which, src); } \
    VF_E unsigned name##_##P##_conv_from_x(M_##P##name* out, size_t which, void const* src) { return conv_from(pats<IT>::X{}, out, which, src); } \
    VF_E IT name##_##P##_cv_stride(M_##P##name const& m, size_t k) { return stride_of(m, k); }                         \
    VF_E int name##_##P##_eq_with(M_##P##name const& a, size_t which, void const* src) { return eq_with(pats<IT>::P{}, a, which, src); } \
    VF_E int name##_##P##_eq_with_o(M_##P##name const& a, size_t which, void const* src) { return eq_with(pats<OT>::P{}, a, which, src); }
#define VP(name, R, A, B, C, sfx) VLAY_CONV(name, ll, lr) VLAY_CONV(name, lr, ll)
#include "patterns.def"
#undef VP
}
#endif  // VF_PART == 7

#if VF_PART == 8
namespace vf {
// ---- conversion matrix of mdspan over layout_left / layout_right (own part) ------------------------------------------------------------
// converting constructor mdspan<T, Dst, L>(mdspan<U, Src, L> const&): the result is built over a null view, then read back through data_handle()/extent(r);
// with ix != nullptr also the address of element (ix...) (rank 0: the data handle, see call_map_r)
template <typename D, typename Lst> static auto md_conv(Lst l, size_t which, void const* src, typename D::element_type** ptr, IT* ext, IT const* ix, typename D::element_type** at) -> unsigned
{
    D d(static_cast<typename D::data_handle_type>(nullptr), typename D::mapping_type{});
    auto const r = conv_from(l, &d, which, src);
    if (r != 0) {
        *ptr = d.data_handle();
        for (size_t k = 0; k < D::rank(); ++k) { ext[k] = d.extent(k); }
        if (ix != nullptr) {
            if constexpr (D::rank() > 0) { *at = [&]<size_t... Is>(etl::index_sequence<Is...>) { return &d(ix[Is]...); }(etl::make_index_sequence<D::rank()>{}); }
            else { *at = d.data_handle(); }
        }
    }
    return r;
}
// _c: int -> int const; _o: int -> int const with source index type long; _drop_const: int const -> int (must not exist)
#define VMD_CONV(name, P, L)                                                                                           \
    VF_E unsigned name##_m##P##_conv_c(size_t which, void const* src, int const** ptr, IT* ext, IT const* ix, int const** at) { return md_conv<etl::mdspan<int const, E_##name, etl::L>>(pats<IT>::m##P<int>{}, which, src, ptr, ext, ix, at); } \
    VF_E unsigned name##_m##P##_conv_o(size_t which, void const* src, int const** ptr, IT* ext, IT const* ix, int const** at) { return md_conv<etl::mdspan<int const, E_##name, etl::L>>(pats<OT>::m##P<int>{}, which, src, ptr, ext, ix, at); } \
    VF_E unsigned name##_m##P##_conv_drop_const(size_t which, void const* src, int** ptr, IT* ext) { return md_conv<etl::mdspan<int, E_##name, etl::L>>(pats<IT>::m##P<int const>{}, which, src, ptr, ext, nullptr, ptr); }
#define VP(name, R, A, B, C, sfx) VMD_CONV(name, ll, layout_left) VMD_CONV(name, lr, layout_right)
#include "patterns.def"
#undef VP
}
#endif  // VF_PART == 8

#if VF_PART == 6
namespace vf {
// ---- linalg::layout_transpose<layout_left / layout_right>::mapping<E> for every rank-2 pattern ---------------------------------------
// (is_always_contiguous()/is_contiguous() cannot be instantiated: the nested tetl mappings have no is_(always_)contiguous)
#define VTR(name, tname, P, L)                                                                                         \
    using T_##P##name = etl::linalg::layout_transpose<etl::L>::mapping<E_##name>;                                      \
    VF_E void name##_t##P##_ctor(T_##P##name* out, M_##P##tname const& n) { new (out) T_##P##name(n); }                \
    VF_E void name##_t##P##_extents(T_##P##name const& t, E_##name* out) { new (out) E_##name(t.extents()); }          \
    VF_E void name##_t##P##_nested(T_##P##name const& t, M_##P##tname* out) { new (out) M_##P##tname(t.nested_mapping()); } \
    VF_E size_t name##_t##P##_rss(T_##P##name const& t) { return size_t(t.required_span_size()); }                     \
    VF_E size_t name##_t##P##_map(T_##P##name const& t, IT i, IT j) { return size_t(t(i, j)); }                        \
    VF_E size_t name##_t##P##_stride(T_##P##name const& t, size_t r) { return size_t(t.stride(r)); }                   \
    VF_E bool name##_t##P##_eq(T_##P##name const& a, T_##P##name const& b) { return a == b; }                          \
    VF_E unsigned name##_t##P##_flags(T_##P##name const& t) { return unsigned(T_##P##name::is_always_unique()) | unsigned(T_##P##name::is_always_strided()) << 2 | unsigned(t.is_unique()) << 3 | unsigned(t.is_strided()) << 5; }
#define VT(name, tname, A, B, sfx, tsfx) VTR(name, tname, ll, layout_left) VTR(name, tname, lr, layout_right)
#include "transpose.def"
#undef VT

// ---- mdarray: NOT lowered.  clang-14 (the lowering front end) rejects the class template itself: the requires-clauses of the non-template constructors
// use `array_or_constructible_from` (mdarray.hpp:28, a `static constexpr auto` variable template over `inline constexpr auto is_etl_array`):
// "mdarray.hpp:75:76: error: value of type 'const auto' is not contextually convertible to 'bool'", ":81:18: atomic constraint must be of type 'bool'"
// (g++ 12 accepts).  Any instantiation of etl::mdarray fails, so element access of mdarray is covered only through mdspan.

// ---- submdspan_extents (submdspan itself is commented out in the library): full_extent and integer slices ------------------------------
template <typename S> static auto sub_out(S const& s, size_t* se, IT* ext) -> size_t { for (size_t i = 0; i < S::rank(); ++i) { se[i] = S::static_extent(i); ext[i] = s.extent(i); } return S::rank(); }
VF_E size_t sub_edd_ff(DE_edd const& e, size_t* se, IT* ext) { return sub_out(etl::submdspan_extents(e, etl::full_extent, etl::full_extent), se, ext); }
VF_E size_t sub_edd_if(DE_edd const& e, IT i, size_t* se, IT* ext) { return sub_out(etl::submdspan_extents(e, i, etl::full_extent), se, ext); }
VF_E size_t sub_edd_fi(DE_edd const& e, IT i, size_t* se, IT* ext) { return sub_out(etl::submdspan_extents(e, etl::full_extent, i), se, ext); }
VF_E size_t sub_edd_ii(DE_edd const& e, IT i, size_t* se, IT* ext) { return sub_out(etl::submdspan_extents(e, i, i), se, ext); }
VF_E size_t sub_e33_ff(E_e33 const& e, size_t* se, IT* ext) { return sub_out(etl::submdspan_extents(e, etl::full_extent, etl::full_extent), se, ext); }
VF_E size_t sub_e31_ff(E_e31 const& e, size_t* se, IT* ext) { return sub_out(etl::submdspan_extents(e, etl::full_extent, etl::full_extent), se, ext); }
VF_E size_t sub_e31_if(E_e31 const& e, IT i, size_t* se, IT* ext) { return sub_out(etl::submdspan_extents(e, i, etl::full_extent), se, ext); }
VF_E size_t sub_e3d_ff(E_e3d const& e, size_t* se, IT* ext) { return sub_out(etl::submdspan_extents(e, etl::full_extent, etl::full_extent), se, ext); }
VF_E size_t sub_e3d_if(E_e3d const& e, IT i, size_t* se, IT* ext) { return sub_out(etl::submdspan_extents(e, i, etl::full_extent), se, ext); }
VF_E size_t sub_e3d_fi(E_e3d const& e, IT i, size_t* se, IT* ext) { return sub_out(etl::submdspan_extents(e, etl::full_extent, i), se, ext); }
VF_E size_t sub_eddd_fff(DE_eddd const& e, size_t* se, IT* ext) { return sub_out(etl::submdspan_extents(e, etl::full_extent, etl::full_extent, etl::full_extent), se, ext); }
VF_E size_t sub_eddd_fif(DE_eddd const& e, IT i, size_t* se, IT* ext) { return sub_out(etl::submdspan_extents(e, etl::full_extent, i, etl::full_extent), se, ext); }
VF_E size_t sub_e3d1_fif(E_e3d1 const& e, IT i, size_t* se, IT* ext) { return sub_out(etl::submdspan_extents(e, etl::full_extent, i, etl::full_extent), se, ext); }
VF_E size_t sub_e333_fff(E_e333 const& e, size_t* se, IT* ext) { return sub_out(etl::submdspan_extents(e, etl::full_extent, etl::full_extent, etl::full_extent), se, ext); }
}
#endif  // VF_PART == 6
