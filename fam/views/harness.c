/* views: span / array / extents / layout mappings / mdspan / mdarray address exactly the elements they span — C19 (+C05, C02).
 * span: the view is placed over an EXACT-size heap object (VF_BUF): any address outside [p, p+n) is a bounds failure. */
typedef struct etl_span_int_18446744073709551615 SD;
typedef struct etl_span_int_4 S4;
typedef struct etl_span_int_0 S0;
typedef struct etl_array_int_4 A4;
typedef struct etl_array_int_0 A0;
#define DYNV 18446744073709551615UL
/* C05 snapshot: the view object and the viewed elements are unmodified when the handler runs */
const SD *vf_sd_of; SD vf_sd_snap; const S4 *vf_s4_of; S4 vf_s4_snap; const A4 *vf_a4_of; A4 vf_a4_snap; const int *vf_buf_of, *vf_buf_in; unsigned long vf_buf_n;
#define VF_HANDLER_CHECK() do { _Bool same = 1; \
    if (vf_sd_of) same = same && vf_sd_of->_storage._data == vf_sd_snap._storage._data && vf_sd_of->_storage._size == vf_sd_snap._storage._size; \
    if (vf_s4_of) same = same && vf_s4_of->_storage._data == vf_s4_snap._storage._data; \
    if (vf_a4_of) for (int k_ = 0; k_ < 4; ++k_) same = same && vf_a4_of->_buf[k_] == vf_a4_snap._buf[k_]; \
    if (vf_buf_of) for (unsigned long k_ = 0; k_ < vf_buf_n; ++k_) same = same && vf_buf_of[k_] == vf_buf_in[k_]; \
    __CPROVER_assert(same, "C05: the view and the viewed elements are unmodified when the assertion handler runs"); } while (0)
#define EXPECT_VIOLATION_BUF(p, n) do { vf_expect_handler = 1; vf_buf_of = (p); vf_buf_in = p##_in; vf_buf_n = (n); } while (0)
#include "vf_handler.h"
#define MKSD(s, p, n) SD s; s._storage._data = (p); s._storage._size = (n)
#define MKS4(s, p) S4 s; s._storage._data = (p)
#define INSIDE(d, m, p, n) ((d) >= (p) && (m) <= (unsigned long)(n) && (d) + (m) <= (p) + (n))
#define SUBIS(call, xd, xn, xe) do { int *d_ = 0; unsigned long n_ = 99, e_ = (call); VF_ASSERT(d_ == (xd) && n_ == (unsigned long)(xn), #call ": data() == original data() + offset and size() == count"); \
    VF_ASSERT(e_ == (unsigned long)(xe), #call ": the static extent of the result type"); VF_ASSERT(INSIDE(d_, n_, p, n), #call ": the result lies inside the original range"); } while (0)
#define OUT &d_, &n_

/*@GROUP name=span_dyn_obs props=C19,C02,C05 kind=K unwind=8 bound=len<=6@*/
void h_span_dyn_obs(void) { VF_INPUT(unsigned char, n); VF_BUF(int, p, n, 6); VF_INPUT(unsigned char, i); MKSD(s, p, n);
  VF_ASSERT(sd_data(&s) == p && sd_size(&s) == n && sd_size_bytes(&s) == 4UL * n && sd_empty(&s) == (n == 0) && sd_extent() == DYNV, "span<int>: data/size/size_bytes/empty/extent");
  VF_ASSERT(sd_begin(&s) == p && sd_end(&s) == p + n && sd_rbegin_base(&s) == p + n && sd_rend_base(&s) == p, "span<int>: begin/end, rbegin().base() == end(), rend().base() == begin()");
  if (n > 0) VF_ASSERT(sd_front(&s) == p && sd_back(&s) == p + (n - 1), "span<int>: front/back address the first/last element");
  if (i < n) VF_ASSERT(sd_index(&s, i) == p + i, "span<int>: operator[](i) addresses element i");
  { const unsigned char *bd = 0; unsigned long bn = 99; unsigned long be = sd_as_bytes(&s, &bd, &bn); VF_ASSERT(bd == (const unsigned char *)p && bn == 4UL * n && be == DYNV, "as_bytes(span<int>): same address, size_bytes() bytes, dynamic extent"); }
  { unsigned char *bd = 0; unsigned long bn = 99; unsigned long be = sd_as_wbytes(&s, &bd, &bn); VF_ASSERT(bd == (unsigned char *)p && bn == 4UL * n && be == DYNV, "as_writable_bytes(span<int>): same address, size_bytes() bytes, dynamic extent"); }
  VF_REACH(); }

/*@GROUP name=span_dyn_sub props=C19,C02,C05 kind=K unwind=8 bound=len<=6@*/
void h_span_dyn_sub(void) { VF_INPUT(unsigned char, n); VF_BUF(int, p, n, 6); VF_INPUT(unsigned char, o); VF_INPUT(unsigned char, c); MKSD(s, p, n);
  if (c <= n) { SUBIS(sd_first_n(&s, c, OUT), p, c, DYNV); SUBIS(sd_last_n(&s, c, OUT), p + (n - c), c, DYNV); }
  if (o <= n) { SUBIS(sd_subspan_o(&s, o, OUT), p + o, n - o, DYNV); SUBIS(sd_subspan_oc(&s, o, DYNV, OUT), p + o, n - o, DYNV); if (c <= n - o) SUBIS(sd_subspan_oc(&s, o, c, OUT), p + o, c, DYNV); }
  SUBIS(sd_first_0(&s, OUT), p, 0, 0); SUBIS(sd_last_0(&s, OUT), p + n, 0, 0); SUBIS(sd_sub_0(&s, OUT), p, n, DYNV); SUBIS(sd_sub_0_0(&s, OUT), p, 0, 0);
  if (n >= 1) { SUBIS(sd_first_1(&s, OUT), p, 1, 1); SUBIS(sd_last_1(&s, OUT), p + (n - 1), 1, 1); SUBIS(sd_sub_1(&s, OUT), p + 1, n - 1, DYNV); }
  if (n >= 2) { SUBIS(sd_first_2(&s, OUT), p, 2, 2); SUBIS(sd_last_2(&s, OUT), p + (n - 2), 2, 2); SUBIS(sd_sub_2(&s, OUT), p + 2, n - 2, DYNV); SUBIS(sd_sub_0_2(&s, OUT), p, 2, 2); }
  if (n >= 3) { SUBIS(sd_sub_1_2(&s, OUT), p + 1, 2, 2); SUBIS(sd_sub_2_1(&s, OUT), p + 2, 1, 1); }
  if (n >= 4) { SUBIS(sd_first_4(&s, OUT), p, 4, 4); SUBIS(sd_last_4(&s, OUT), p + (n - 4), 4, 4); SUBIS(sd_sub_4(&s, OUT), p + 4, n - 4, DYNV); SUBIS(sd_sub_4_0(&s, OUT), p + 4, 0, 0); }
  VF_REACH(); }

/*@GROUP name=span_static props=C19,C02,C05 kind=K unwind=6@*/
void h_span_static(void) { const unsigned long n = 4; VF_BUF(int, p, 4, 4); VF_INPUT(unsigned char, i); VF_INPUT(unsigned char, o); VF_INPUT(unsigned char, c); MKS4(s, p);
  VF_ASSERT(s4_data(&s) == p && s4_size(&s) == 4 && s4_size_bytes(&s) == 16 && !s4_empty(&s) && s4_extent() == 4, "span<int,4>: data/size/size_bytes/empty/extent");
  VF_ASSERT(s4_begin(&s) == p && s4_end(&s) == p + 4 && s4_rbegin_base(&s) == p + 4 && s4_rend_base(&s) == p, "span<int,4>: begin/end/rbegin/rend");
  VF_ASSERT(s4_front(&s) == p && s4_back(&s) == p + 3, "span<int,4>: front/back"); if (i < 4) VF_ASSERT(s4_index(&s, i) == p + i, "span<int,4>: operator[](i) addresses element i");
  if (c <= 4) { SUBIS(s4_first_n(&s, c, OUT), p, c, DYNV); SUBIS(s4_last_n(&s, c, OUT), p + (4 - c), c, DYNV); }
  if (o <= 4) { SUBIS(s4_subspan_o(&s, o, OUT), p + o, 4 - o, DYNV); SUBIS(s4_subspan_oc(&s, o, DYNV, OUT), p + o, 4 - o, DYNV); if (c <= 4 - o) SUBIS(s4_subspan_oc(&s, o, c, OUT), p + o, c, DYNV); }
  SUBIS(s4_first_0(&s, OUT), p, 0, 0); SUBIS(s4_first_1(&s, OUT), p, 1, 1); SUBIS(s4_first_2(&s, OUT), p, 2, 2); SUBIS(s4_first_4(&s, OUT), p, 4, 4);
  SUBIS(s4_last_0(&s, OUT), p + 4, 0, 0); SUBIS(s4_last_1(&s, OUT), p + 3, 1, 1); SUBIS(s4_last_2(&s, OUT), p + 2, 2, 2); SUBIS(s4_last_4(&s, OUT), p, 4, 4);
  SUBIS(s4_sub_0(&s, OUT), p, 4, 4); SUBIS(s4_sub_1(&s, OUT), p + 1, 3, 3); SUBIS(s4_sub_2(&s, OUT), p + 2, 2, 2); SUBIS(s4_sub_4(&s, OUT), p + 4, 0, 0);
  SUBIS(s4_sub_0_0(&s, OUT), p, 0, 0); SUBIS(s4_sub_0_4(&s, OUT), p, 4, 4); SUBIS(s4_sub_1_2(&s, OUT), p + 1, 2, 2); SUBIS(s4_sub_1_3(&s, OUT), p + 1, 3, 3); SUBIS(s4_sub_4_0(&s, OUT), p + 4, 0, 0); SUBIS(s4_sub_2_1(&s, OUT), p + 2, 1, 1);
  VF_REACH(); }

/*@GROUP name=span_ctor props=C19,C02 kind=K unwind=8 bound=len<=6@*/
void h_span_ctor(void) { VF_INPUT(unsigned char, n); VF_BUF(int, p, n, 6); VF_INPUT(A4, arr); VF_INPUT(A0, arr0); VF_INPUT(SD, a); VF_INPUT(SD, b); VF_INPUT(S4, t);
  sd_default(&a); VF_ASSERT(a._storage._data == 0 && a._storage._size == 0, "span(): data() == nullptr, size() == 0");
  sd_ctor_ptr_n(&a, p, n); VF_ASSERT(a._storage._data == p && a._storage._size == n, "span(ptr, count)");
  sd_copy(&b, &a); VF_ASSERT(b._storage._data == p && b._storage._size == n, "span(span const&)");
  sd_ctor_array(&a, &arr); VF_ASSERT(a._storage._data == arr._buf && a._storage._size == 4, "span<int>(array<int,4>&) views the array's elements");
  sd_ctor_carr(&a, &arr._buf); VF_ASSERT(a._storage._data == arr._buf && a._storage._size == 4, "span<int>(int(&)[4])");
  s4_ctor_array(&t, &arr); VF_ASSERT(t._storage._data == arr._buf, "span<int,4>(array<int,4>&)"); sd_ctor_s4(&a, &t); VF_ASSERT(a._storage._data == arr._buf && a._storage._size == 4, "span<int>(span<int,4>)");
  s4_ctor_carr(&t, &arr._buf); VF_ASSERT(t._storage._data == arr._buf, "span<int,4>(int(&)[4])");
  { struct etl_span_constint_4 ct; VF_ASSERT(cs4_ctor_carray(&ct, &arr) == 4 && ct._storage._data == arr._buf, "span<int const,4>(array<int,4> const&)"); }
  if (n == 4) { s4_ctor_ptr_n(&t, p, n); VF_ASSERT(t._storage._data == p, "span<int,4>(ptr, 4)"); sd_ctor_ptr_n(&a, p, n); s4_ctor_sd(&t, &a); VF_ASSERT(t._storage._data == p, "span<int,4>(span<int>) of size 4"); }
  { int *d = p; unsigned long m = 9; VF_ASSERT(s0_ctor_array(&d, &m, &arr0) == 0 && m == 0 && d == 0, "span<int,0>(array<int,0>&): empty, extent 0"); }
  { int *d = 0; unsigned long m = 9; VF_ASSERT(ctad_carr(&d, &m, &arr._buf) == 4 && m == 4 && d == arr._buf, "span(int(&)[4]) deduces extent 4"); }
  { int *d = 0; unsigned long m = 9; VF_ASSERT(ctad_array(&d, &m, &arr) == 4 && m == 4 && d == arr._buf, "span(array<int,4>&) deduces extent 4"); }
  VF_ASSERT(a4_data(&arr) == arr._buf && a4_begin(&arr) == arr._buf && a4_end(&arr) == arr._buf + 4 && a4_front(&arr) == arr._buf && a4_back(&arr) == arr._buf + 3 && a4_size(&arr) == 4 && !a4_empty(&arr), "array<int,4>: data/begin/end/front/back/size/empty");
  VF_ASSERT(a0_begin(&arr0) == a0_end(&arr0) && a0_size(&arr0) == 0 && a0_empty(&arr0), "array<int,0>: begin() == end(), size 0, empty");
  VF_REACH(); }

/* ---- C05: span ---------------------------------------------------------------------------------------------------- */
/*@GROUP name=viol_span_index props=C05,C02 kind=K unwind=8 bound=len<=6@*/
void h_viol_span_index(void) { VF_INPUT(unsigned char, n); VF_BUF(int, p, n, 6); VF_INPUT(unsigned long, i); VF_INPUT(unsigned char, op); MKSD(s, p, n); MKS4(t, p); S0 z; z._storage._data = p;
  EXPECT_VIOLATION_BUF(p, n); vf_sd_of = &s; vf_sd_snap = s; vf_s4_of = &t; vf_s4_snap = t;
  if (op == 0) { __CPROVER_assume(i >= n); sd_index(&s, i); }
  else if (op == 1) { __CPROVER_assume(n == 4 && i >= 4); s4_index(&t, i); }
  else if (op == 2) { __CPROVER_assume(n == 0); sd_front(&s); }
  else if (op == 3) { __CPROVER_assume(n == 0); sd_back(&s); }
  else if (op == 4) s0_front(&z); else if (op == 5) s0_back(&z); else s0_index(&z, i);
  VF_NORETURN_EXPECTED(); }

/*@GROUP name=viol_span_sub props=C05,C02 kind=K unwind=8 bound=len<=6@*/
void h_viol_span_sub(void) { VF_INPUT(unsigned char, n); VF_BUF(int, p, n, 6); VF_INPUT(unsigned long, o); VF_INPUT(unsigned long, c); VF_INPUT(unsigned char, op); VF_INPUT_BOOL(st); MKSD(s, p, n); MKS4(t, p);
  int *d = 0; unsigned long m = 0; if (st) __CPROVER_assume(n == 4);
  EXPECT_VIOLATION_BUF(p, n); vf_sd_of = &s; vf_sd_snap = s; vf_s4_of = &t; vf_s4_snap = t;
  if (op == 0) { __CPROVER_assume(c > n); if (st) s4_first_n(&t, c, &d, &m); else sd_first_n(&s, c, &d, &m); }
  else if (op == 1) { __CPROVER_assume(c > n); if (st) s4_last_n(&t, c, &d, &m); else sd_last_n(&s, c, &d, &m); }
  else if (op == 2) { __CPROVER_assume(o > n); if (st) s4_subspan_oc(&t, o, c, &d, &m); else sd_subspan_oc(&s, o, c, &d, &m); }
  else if (op == 3) { __CPROVER_assume(o > n); if (st) s4_subspan_o(&t, o, &d, &m); else sd_subspan_o(&s, o, &d, &m); }
  else { __CPROVER_assume(o <= n && c != DYNV && c > n - o); if (st) s4_subspan_oc(&t, o, c, &d, &m); else sd_subspan_oc(&s, o, c, &d, &m); }
  VF_NORETURN_EXPECTED(); }

/*@GROUP name=viol_span_tmpl props=C05,C02 kind=K unwind=8 bound=len<=6@*/
void h_viol_span_tmpl(void) { VF_INPUT(unsigned char, n); VF_BUF(int, p, n, 6); VF_INPUT(unsigned char, op); MKSD(s, p, n); int *d = 0; unsigned long m = 0;
  /* [span.sub]: first<C>/last<C>/subspan<O,C> on a dynamic-extent span require C <= size() resp. O <= size() && C <= size() - O */
  DEVKN(C05_span_tmpl_count_unchecked, op <= 5);
  EXPECT_VIOLATION_BUF(p, n); vf_sd_of = &s; vf_sd_snap = s;
  if (op == 0) { __CPROVER_assume(n < 2); sd_first_2(&s, &d, &m); }
  else if (op == 1) { __CPROVER_assume(n < 2); sd_last_2(&s, &d, &m); }
  else if (op == 2) { __CPROVER_assume(n < 2); sd_sub_2(&s, &d, &m); }
  else if (op == 3) { __CPROVER_assume(n < 3); sd_sub_1_2(&s, &d, &m); }
  else if (op == 4) { __CPROVER_assume(n < 4); sd_first_4(&s, &d, &m); }
  else if (op == 5) { __CPROVER_assume(n < 4); sd_sub_4_0(&s, &d, &m); }
  else sd_first_n(&s, 7, &d, &m); /* control: the run-time count form is checked (keeps the handler reachable in this group) */
  VF_NORETURN_EXPECTED(); }

/*@COMMON@*/
/* ---- extents / layout mappings: one checker per pattern of patterns.def, selected by the symbolic input `which` --------------------
 * A pattern is (R; S0,S1,S2) with Sk in {0,1,3,VD}; positions >= R are padded with the static extent 1 (neutral for every formula).
 * State = the values of the dynamic extents (the struct holds exactly array<IT, rank_dynamic>), set DIRECTLY from symbolic inputs. */
#define CAT_(a, b) a##b
#define CAT(a, b) CAT_(a, b)
#if VF_IT == 1
typedef unsigned long IT;
#define ITN unsignedlong
#elif VF_IT == 2
typedef unsigned char IT;
#define ITN unsignedchar
#else
typedef int IT;
#define ITN int
#endif
#define VD DYNV
#define ETYPE(sfx) struct CAT(CAT(etl_extents_, ITN), sfx)
#define DSFX_0
#define DSFX_1 _18446744073709551615
#define DSFX_2 _18446744073709551615_18446744073709551615
#define DSFX_3 _18446744073709551615_18446744073709551615_18446744073709551615
#define DETYPE(R) struct CAT(CAT(etl_extents_, ITN), DSFX_##R)
#define OETYPE(R) struct CAT(etl_extents_long, DSFX_##R)
enum {
#define VP(name, R, A, B, C, sfx) IDX_##name,
#include "patterns.def"
#undef VP
  NPAT };
typedef struct { int r; unsigned long se[3]; } pat_t;
static int p_nd(pat_t p) { int c = 0; for (int k = 0; k < 3; ++k) c += (k < p.r && p.se[k] == DYNV); return c; }
static int p_dix(pat_t p, int k) { int c = 0; for (int q = 0; q < 3; ++q) c += (q < k && q < p.r && p.se[q] == DYNV); return c; }
static _Bool p_mixed(pat_t p) { return p_nd(p) > 0 && p_nd(p) < p.r; }
/* extent values: static extent or the symbolic value v[k] */
static void p_vals(pat_t p, const IT *v, IT *ev) { for (int k = 0; k < 3; ++k) ev[k] = (k < p.r && p.se[k] == DYNV) ? v[k] : (IT)p.se[k]; }
/* write / read the dynamic-extent storage (array<T, rank_dynamic> at offset 0 of the extents object) */
#define P_SET(T, obj, p, ev) do { T *raw_ = (T *)(obj); for (int k_ = 0; k_ < 3; ++k_) if (k_ < (p).r && (p).se[k_] == DYNV) raw_[p_dix((p), k_)] = (T)(ev)[k_]; } while (0)
static _Bool p_holds(pat_t p, const void *obj, const IT *ev) { const IT *raw = (const IT *)obj; _Bool ok = 1; for (int k = 0; k < 3; ++k) if (k < p.r && p.se[k] == DYNV) ok = ok && raw[p_dix(p, k)] == ev[k]; return ok; }
static void p_pack(pat_t p, const IT *ev, IT *pv) { for (int k = 0; k < 3; ++k) pv[k] = 0; for (int k = 0; k < 3; ++k) if (k < p.r && p.se[k] == DYNV) pv[p_dix(p, k)] = ev[k]; }
static const pat_t vf_pats[NPAT + 1] = {
#define VP(name, R, A, B, C, sfx) {R, {A, B, C}},
#include "patterns.def"
#undef VP
  {0, {1, 1, 1}} };
/* witness-class predicates of the known findings (functions of the harness input `which`) */
static _Bool w_mixed(unsigned char which) { return which < NPAT && p_mixed(vf_pats[which]); }
static _Bool w_mixed_last_static(unsigned char which) { return w_mixed(which) && vf_pats[which].se[vf_pats[which].r - 1] != DYNV; }
static _Bool w_static_nonzero(unsigned char which) { if (which >= NPAT) return 0; pat_t p = vf_pats[which]; _Bool r = 0; for (int k = 0; k < 3; ++k) r = r || (k < p.r && p.se[k] != DYNV && p.se[k] != 0); return r && p.r > 0; }
/* development aid only: sed VF_KNOWN( -> DEVKN( to see what remains once the findings are listed */
#define DEVKN(id, w) __CPROVER_assume(!(w))
#define NONNEG(x) ((x) >= 0)
#define SYM3(T, v) VF_INPUT_ARR(T, v, 3)

#define CHK_EXT_OBS(name, R, A, B, C, sfx) \
static void ext_obs_##name(const IT *v, const IT *w, const long *ow, unsigned long k) { const pat_t p = {R, {A, B, C}}; ETYPE(sfx) e, f; DETYPE(R) de; OETYPE(R) oe; IT ev[3], fv[3]; p_vals(p, v, ev); p_vals(p, w, fv); \
  P_SET(IT, &e, p, ev); P_SET(IT, &f, p, fv); { const pat_t dp = {R, {DYNV, DYNV, DYNV}}; P_SET(IT, &de, dp, w); P_SET(long, &oe, dp, ow); } \
  VF_ASSERT(name##_rank() == R && name##_rank_dynamic() == (unsigned long)p_nd(p), #name ": rank() and rank_dynamic()"); \
  if (k < R) { VF_ASSERT(name##_static_extent(k) == p.se[k], #name ": static_extent(k)"); VF_ASSERT(name##_extent(&e, k) == ev[k], #name ": extent(k) is the static extent or the stored dynamic extent"); } \
  { _Bool eq = 1, eqd = 1, eqo = 1; for (int q = 0; q < R; ++q) { eq = eq && ev[q] == fv[q]; eqd = eqd && ev[q] == w[q]; eqo = eqo && ow[q] >= 0 && (unsigned long)ow[q] == (unsigned long)ev[q]; } \
    VF_ASSERT(name##_eq(&e, &f) == eq, #name ": operator== compares every extent"); VF_ASSERT(name##_eq_dex(&e, &de) == eqd, #name ": operator== against dextents<IT,R>"); \
    VF_ASSERT(name##_eq_odex(&e, &oe) == eqo, #name ": operator== against dextents<long,R> compares values"); } }
#define VP CHK_EXT_OBS
#include "patterns.def"
#undef VP

/*@GROUP name=ext_obs props=C19,C02 kind=K unwind=5@*/
void h_ext_obs(void) { VF_INPUT(unsigned char, which); SYM3(IT, v); SYM3(IT, w); SYM3(long, ow); VF_INPUT(unsigned char, k);
  for (int q = 0; q < 3; ++q) __CPROVER_assume(NONNEG(v[q]) && NONNEG(w[q]) && ow[q] >= 0);
#define VP(name, R, A, B, C, sfx) if (which == IDX_##name) ext_obs_##name(v, w, ow, k);
#include "patterns.def"
#undef VP
  VF_REACH(); }

/*@COMMON@*/
#define CHK_EXT_CTOR(name, R, A, B, C, sfx) \
static void ext_ctor_##name(const IT *v, unsigned char op) { const pat_t p = {R, {A, B, C}}; const pat_t dp = {R, {DYNV, DYNV, DYNV}}; ETYPE(sfx) e; DETYPE(R) de; OETYPE(R) oe; IT ev[3], pv[3]; long lv[3]; \
  p_vals(p, v, ev); p_pack(p, ev, pv); for (int q = 0; q < 3; ++q) lv[q] = (long)ev[q]; \
  { const pat_t z = {R, {A, B, C}}; IT junk[3] = {1, 1, 1}; P_SET(IT, &e, z, junk); } \
  if (op == 0) { IT zv[3] = {0, 0, 0}, zev[3]; p_vals(p, zv, zev); name##_ctor_default(&e); VF_ASSERT(p_holds(p, &e, zev), #name ": extents(): every dynamic extent is 0"); } \
  else if (op == 1) { name##_ctor_dyn(&e, pv); VF_ASSERT(p_holds(p, &e, ev), #name ": extents(dynamic extents...) stores them in order"); } \
  else if (op == 2) { name##_ctor_all(&e, ev); VF_ASSERT(p_holds(p, &e, ev), #name ": extents(all extents...) keeps the values at the dynamic positions"); } \
  else if (op == 3) { name##_ctor_arr_dyn(&e, pv); VF_ASSERT(p_holds(p, &e, ev), #name ": extents(array<IT, rank_dynamic>)"); } \
  else if (op == 4) { name##_ctor_arr_all(&e, ev); VF_ASSERT(p_holds(p, &e, ev), #name ": extents(array<IT, rank>) keeps the values at the dynamic positions"); } \
  else if (op == 5) { name##_ctor_span_dyn(&e, pv); VF_ASSERT(p_holds(p, &e, ev), #name ": extents(span<IT, rank_dynamic>)"); } \
  else if (op == 6) { name##_ctor_span_all(&e, ev); VF_ASSERT(p_holds(p, &e, ev), #name ": extents(span<IT, rank>) keeps the values at the dynamic positions"); } \
  else if (op == 7) { P_SET(IT, &de, dp, ev); name##_from_dex(&e, &de); VF_ASSERT(p_holds(p, &e, ev), #name ": extents(dextents<IT,R> const&) with matching static extents keeps every extent"); } \
  else if (op == 8) { P_SET(IT, &e, p, ev); name##_to_dex(&de, &e); VF_ASSERT(p_holds(dp, &de, ev), #name ": dextents<IT,R>(extents const&) copies static and dynamic extents"); } \
  else if (op == 9) { P_SET(long, &oe, dp, lv); name##_from_odex(&e, &oe); VF_ASSERT(p_holds(p, &e, ev), #name ": extents(dextents<long,R> const&) keeps every extent"); } \
  else { P_SET(IT, &e, p, ev); name##_to_odex(&oe, &e); _Bool ok = 1; for (int q = 0; q < R; ++q) ok = ok && ((long *)&oe)[q] == lv[q]; VF_ASSERT(ok, #name ": dextents<long,R>(extents const&) copies static and dynamic extents"); } \
  if (op != 0) for (int q = 0; q < R; ++q) VF_ASSERT(name##_extent(&e, q) == ev[q], #name ": extent(k) of the constructed / source object"); }
#define VP CHK_EXT_CTOR
#include "patterns.def"
#undef VP

/* known findings of the ext_ctor groups.
 * C19_extents_ctor_all_mixed: extents.hpp:113-118: extents(span<T,N>) with N == rank() copies all N values into the rank_dynamic()-element array (out-of-bounds write, wrong slots).
 * C19_extents_conv_wrong_side: extents.hpp:89: the converting constructor tests the SOURCE's static_extent(i): static source extents are dropped (left 0), own static positions are written. */

/*@GROUP name=ext_ctor_r012 props=C19,C02 kind=K unwind=5 objbits=14@*/
#define RSEL(R) (R <= 2)
void h_ext_ctor_r012(void) { VF_INPUT(unsigned char, which); SYM3(IT, v); VF_INPUT(unsigned char, op); __CPROVER_assume(op <= 10); for (int q = 0; q < 3; ++q) __CPROVER_assume(NONNEG(v[q]) && (unsigned long)v[q] <= 0x7fffffffffffffffUL);
  DEVKN(C19_extents_ctor_all_mixed, (op == 2 || op == 4 || op == 6) && w_mixed(which));
  DEVKN(C19_extents_conv_wrong_side, ((op == 7 || op == 9) && w_mixed_last_static(which)) || ((op == 8 || op == 10) && w_static_nonzero(which)));
#define VP(name, R, A, B, C, sfx) if (RSEL(R) && which == IDX_##name) ext_ctor_##name(v, op);
#include "patterns.def"
#undef VP
  VF_REACH(); }

/*@GROUP name=ext_ctor_r3 props=C19,C02 kind=K unwind=5 objbits=14@*/
#define RSEL(R) (R == 3)
void h_ext_ctor_r3(void) { VF_INPUT(unsigned char, which); SYM3(IT, v); VF_INPUT(unsigned char, op); __CPROVER_assume(op <= 10); for (int q = 0; q < 3; ++q) __CPROVER_assume(NONNEG(v[q]) && (unsigned long)v[q] <= 0x7fffffffffffffffUL);
  DEVKN(C19_extents_ctor_all_mixed, (op == 2 || op == 4 || op == 6) && w_mixed(which));
  DEVKN(C19_extents_conv_wrong_side, ((op == 7 || op == 9) && w_mixed_last_static(which)) || ((op == 8 || op == 10) && w_static_nonzero(which)));
#define VP(name, R, A, B, C, sfx) if (RSEL(R) && which == IDX_##name) ext_ctor_##name(v, op);
#include "patterns.def"
#undef VP
  VF_REACH(); }

/*@COMMON@*/
/* ---- layout_left / layout_right ------------------------------------------------------------------------------------------------------
 * Reference (closed form, [mdspan.layout.left/right]): left: stride(k) = prod_{q<k} E_q, right: stride(k) = prod_{q>k} E_q, map(i) = sum i_k * stride(k),
 * required_span_size = prod E_q.  Dynamic extents are symbolic in [0,4] (bounded: the products are non-linear), widened from 8-bit inputs. */
#define MTYPE(L, sfx) struct CAT(CAT(CAT(etl_layout_, L), _mapping_etl_extents_), CAT(ITN, sfx))
#define DMTYPE(L, R) struct CAT(CAT(CAT(etl_layout_, L), _mapping_etl_extents_), CAT(ITN, DSFX_##R))
static void ref_strides_ll(const IT *ev, unsigned long *st) { st[0] = 1; st[1] = (unsigned long)ev[0]; st[2] = (unsigned long)ev[0] * (unsigned long)ev[1]; }
static void ref_strides_lr(const IT *ev, unsigned long *st) { st[2] = 1; st[1] = (unsigned long)ev[2]; st[0] = (unsigned long)ev[1] * (unsigned long)ev[2]; }
static unsigned long ref_size(const IT *ev) { return (unsigned long)ev[0] * (unsigned long)ev[1] * (unsigned long)ev[2]; }
static unsigned long ref_map(const IT *ix, const unsigned long *st, int r) { unsigned long o = 0; for (int q = 0; q < 3; ++q) if (q < r) o += (unsigned long)ix[q] * st[q]; return o; }
static _Bool in_range(const IT *ix, const IT *ev, int r) { _Bool ok = 1; for (int q = 0; q < 3; ++q) if (q < r) ok = ok && NONNEG(ix[q]) && ix[q] < ev[q]; return ok; }
static _Bool differ(const IT *ix, const IT *jx, int r) { _Bool d = 0; for (int q = 0; q < 3; ++q) if (q < r) d = d || ix[q] != jx[q]; return d; }
/* the multi-index that the closed form sends to offset o (o < size): witness for exhaustiveness; 8-bit arithmetic (size <= 64) */
static void ref_inv_ll(const IT *ev, unsigned char o, IT *ix) { unsigned char e0 = (unsigned char)ev[0], e1 = (unsigned char)ev[1]; ix[0] = (IT)(o % e0); ix[1] = (IT)((o / e0) % e1); ix[2] = (IT)((o / e0) / e1); }
static void ref_inv_lr(const IT *ev, unsigned char o, IT *ix) { unsigned char e2 = (unsigned char)ev[2], e1 = (unsigned char)ev[1]; ix[2] = (IT)(o % e2); ix[1] = (IT)((o / e2) % e1); ix[0] = (IT)((o / e2) / e1); }
#define WIDEN3(dst, src) IT dst[3]; for (int q_ = 0; q_ < 3; ++q_) dst[q_] = (IT)src[q_]
#define P_STATIC(R, A, B, C) ((R < 1 || A != DYNV) && (R < 2 || B != DYNV) && (R < 3 || C != DYNV))

#define CHK_LAY(name, R, A, B, C, sfx, P, L) \
static void lay_##P##_##name(const IT *v, const IT *ix, const IT *jx, unsigned char k, unsigned char off) { const pat_t p = {R, {A, B, C}}; MTYPE(L, sfx) m; IT ev[3], inv[3]; unsigned long st[3]; \
  p_vals(p, v, ev); P_SET(IT, &m, p, ev); ref_strides_##P(ev, st); const unsigned long size = ref_size(ev); \
  VF_ASSERT((const void *)name##_##P##_extents(&m) == (const void *)&m._extents, #name " " #L ": extents() refers to the stored extents"); \
  VF_ASSERT((unsigned long)name##_##P##_rss(&m) == size, #name " " #L ": required_span_size() == product of the extents"); \
  VF_ASSERT(name##_##P##_flags(&m) == 0x3f, #name " " #L ": is_(always_)unique/exhaustive/strided are all true"); \
  if (k < R) VF_ASSERT((unsigned long)name##_##P##_stride(&m, k) == st[k], #name " " #L ": stride(k) == closed-form product"); \
  if (R > 0 && in_range(ix, ev, R)) { IT o = name##_##P##_map(&m, ix); VF_ASSERT((unsigned long)o == ref_map(ix, st, R), #name " " #L ": map(i...) == closed form"); \
    VF_ASSERT(NONNEG(o) && (unsigned long)o < size, #name " " #L ": 0 <= map(i...) < required_span_size()"); \
    if (in_range(jx, ev, R) && differ(ix, jx, R)) VF_ASSERT(name##_##P##_map(&m, jx) != o, #name " " #L ": injective (is_unique): different in-range multi-indices map to different offsets"); } \
  if (R > 0 && off < size) { ref_inv_##P(ev, off, inv); VF_ASSERT(in_range(inv, ev, R) && (unsigned long)name##_##P##_map(&m, inv) == off, #name " " #L ": exhaustive (is_exhaustive): every offset below required_span_size() is the image of an in-range multi-index"); } }
#define VP(name, R, A, B, C, sfx) CHK_LAY(name, R, A, B, C, sfx, ll, left) CHK_LAY(name, R, A, B, C, sfx, lr, right)
#include "patterns.def"
#undef VP
#define LAY_BODY(P) VF_INPUT(unsigned char, which); SYM3(unsigned char, dv); SYM3(unsigned char, di); SYM3(unsigned char, dj); VF_INPUT(unsigned char, k); VF_INPUT(unsigned char, off); \
  for (int q = 0; q < 3; ++q) __CPROVER_assume(dv[q] <= 4 && di[q] <= 4 && dj[q] <= 4); WIDEN3(v, dv); WIDEN3(ix, di); WIDEN3(jx, dj);

/*@GROUP name=left_static props=C19,C02 kind=K unwind=5 objbits=14@*/
void h_left_static(void) { LAY_BODY(ll)
#define VP(name, R, A, B, C, sfx) if (P_STATIC(R, A, B, C) && which == IDX_##name) lay_ll_##name(v, ix, jx, k, off);
#include "patterns.def"
#undef VP
  VF_REACH(); }

/*@GROUP name=left_dyn props=C19,C02 kind=B bound=extent<=4 unwind=5 objbits=14 solver=kissat@*/
void h_left_dyn(void) { LAY_BODY(ll)
#define VP(name, R, A, B, C, sfx) if (!P_STATIC(R, A, B, C) && which == IDX_##name) lay_ll_##name(v, ix, jx, k, off);
#include "patterns.def"
#undef VP
  VF_REACH(); }

/*@GROUP name=right_static props=C19,C02 kind=K unwind=5 objbits=14@*/
void h_right_static(void) { LAY_BODY(lr)
#define VP(name, R, A, B, C, sfx) if (P_STATIC(R, A, B, C) && which == IDX_##name) lay_lr_##name(v, ix, jx, k, off);
#include "patterns.def"
#undef VP
  VF_REACH(); }

/*@GROUP name=right_dyn props=C19,C02 kind=B bound=extent<=4 unwind=5 objbits=14 solver=kissat@*/
void h_right_dyn(void) { LAY_BODY(lr)
#define VP(name, R, A, B, C, sfx) if (!P_STATIC(R, A, B, C) && which == IDX_##name) lay_lr_##name(v, ix, jx, k, off);
#include "patterns.def"
#undef VP
  VF_REACH(); }
