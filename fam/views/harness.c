/* views: span / array / extents / layout mappings / mdspan address exactly the elements they span — C19 (+C05, C02).
 * The family is lowered in parts (family.json variants, VF_PART): 0 span+array (variant `safe`: SAFE contract configuration), 1 extents, 3 layout_left/right,
 * 4 layout_stride, 2 mdspan over left/right, 5 mdspan over stride, 6 linalg::layout_transpose + submdspan_extents, 7 / 8 the conversion matrices of the
 * layout_left/right mappings / of mdspan (source pattern x destination pattern); VF_IT selects the index type.
 * span: the view is placed over an EXACT-size heap object (VF_BUF): any address outside [p, p+n) is a bounds failure.
 * Not lowered: mdarray (clang-14 rejects mdarray.hpp:75), submdspan (commented out in the library), rank-0 layout_left/right::operator()() (clang-14),
 * the declared-but-undefined members of layout_stride (required_span_size, is_exhaustive, operator==, converting constructors; hence also no conversion of
 * layout_stride mappings / of mdspan over layout_stride, and no layout_left/right::mapping(layout_stride::mapping)) — see driver.cpp. */
#ifndef VF_PART
#define VF_PART 0
#endif
#define DYNV 18446744073709551615UL
/* development aid only: sed VF_KNOWN( -> DEVKN( to see what remains once the findings are listed */
#define DEVKN(id, w) __CPROVER_assume(!(w))
#if VF_PART == 0
typedef struct etl_span_int_18446744073709551615 SD;
typedef struct etl_span_int_4 S4;
typedef struct etl_span_int_0 S0;
typedef struct etl_array_int_4 A4;
typedef struct etl_array_int_0 A0;
/* C05 snapshot: the view object and the viewed elements are unmodified when the handler runs */
const SD *vf_sd_of; SD vf_sd_snap; const S4 *vf_s4_of; S4 vf_s4_snap; const A4 *vf_a4_of; A4 vf_a4_snap; const int *vf_buf_of, *vf_buf_in; unsigned long vf_buf_n;
#define VF_HANDLER_CHECK() do { _Bool same = 1; \
    if (vf_sd_of) same = same && vf_sd_of->_storage._data == vf_sd_snap._storage._data && vf_sd_of->_storage._size == vf_sd_snap._storage._size; \
    if (vf_s4_of) same = same && vf_s4_of->_storage._data == vf_s4_snap._storage._data; \
    if (vf_a4_of) for (int k_ = 0; k_ < 4; ++k_) same = same && vf_a4_of->_buf[k_] == vf_a4_snap._buf[k_]; \
    if (vf_buf_of) for (unsigned long k_ = 0; k_ < vf_buf_n; ++k_) same = same && vf_buf_of[k_] == vf_buf_in[k_]; \
    __CPROVER_assert(same, "C05: the view and the viewed elements are unmodified when the assertion handler runs"); } while (0)
#define EXPECT_VIOLATION_BUF(p, n) do { vf_expect_handler = 1; vf_buf_of = (p); vf_buf_in = p##_in; vf_buf_n = (n); } while (0)
#endif
/* every part: part 1 (extents) reaches span::operator[] (TETL_PRECONDITION) through extents(span<T,N>) */
#include "vf_handler.h"
#if VF_PART == 0
#define MKSD(s, p, n) SD s; s._storage._data = (p); s._storage._size = (n)
#define MKS4(s, p) S4 s; s._storage._data = (p)
#define INSIDE(d, m, p, n) ((d) >= (p) && (m) <= (unsigned long)(n) && (d) + (m) <= (p) + (n))
#define SUBIS(call, xd, xn, xe) do { int *d_ = 0; unsigned long n_ = 99, e_ = (call); VF_ASSERT(d_ == (xd) && n_ == (unsigned long)(xn), #call ": data() == original data() + offset and size() == count"); \
    VF_ASSERT(e_ == (unsigned long)(xe), #call ": the static extent of the result type"); VF_ASSERT(INSIDE(d_, n_, p, n), #call ": the result lies inside the original range"); } while (0)
#define OUT &d_, &n_

#endif

/*@GROUP name=span_dyn_obs props=C19,C02,C05 kind=K unwind=8 bound=len<=6 when=VF_PART==0@*/
void h_span_dyn_obs(void) { VF_INPUT(unsigned char, n); VF_BUF(int, p, n, 6); VF_INPUT(unsigned char, i); MKSD(s, p, n);
  VF_ASSERT(sd_data(&s) == p && sd_size(&s) == n && sd_size_bytes(&s) == 4UL * n && sd_empty(&s) == (n == 0) && sd_extent() == DYNV, "span<int>: data/size/size_bytes/empty/extent");
  VF_ASSERT(sd_begin(&s) == p && sd_end(&s) == p + n && sd_rbegin_base(&s) == p + n && sd_rend_base(&s) == p, "span<int>: begin/end, rbegin().base() == end(), rend().base() == begin()");
  if (n > 0) VF_ASSERT(sd_front(&s) == p && sd_back(&s) == p + (n - 1), "span<int>: front/back address the first/last element");
  if (i < n) VF_ASSERT(sd_index(&s, i) == p + i, "span<int>: operator[](i) addresses element i");
  { const unsigned char *bd = 0; unsigned long bn = 99; unsigned long be = sd_as_bytes(&s, &bd, &bn); VF_ASSERT(bd == (const unsigned char *)p && bn == 4UL * n && be == DYNV, "as_bytes(span<int>): same address, size_bytes() bytes, dynamic extent"); }
  { unsigned char *bd = 0; unsigned long bn = 99; unsigned long be = sd_as_wbytes(&s, &bd, &bn); VF_ASSERT(bd == (unsigned char *)p && bn == 4UL * n && be == DYNV, "as_writable_bytes(span<int>): same address, size_bytes() bytes, dynamic extent"); }
  VF_REACH(); }

/*@GROUP name=span_dyn_sub props=C19,C02,C05 kind=K unwind=8 bound=len<=6 when=VF_PART==0@*/
void h_span_dyn_sub(void) { VF_INPUT(unsigned char, n); VF_BUF(int, p, n, 6); VF_INPUT(unsigned char, o); VF_INPUT(unsigned char, c); MKSD(s, p, n);
  if (c <= n) { SUBIS(sd_first_n(&s, c, OUT), p, c, DYNV); SUBIS(sd_last_n(&s, c, OUT), p + (n - c), c, DYNV); }
  if (o <= n) { SUBIS(sd_subspan_o(&s, o, OUT), p + o, n - o, DYNV); SUBIS(sd_subspan_oc(&s, o, DYNV, OUT), p + o, n - o, DYNV); if (c <= n - o) SUBIS(sd_subspan_oc(&s, o, c, OUT), p + o, c, DYNV); }
  SUBIS(sd_first_0(&s, OUT), p, 0, 0); SUBIS(sd_last_0(&s, OUT), p + n, 0, 0); SUBIS(sd_sub_0(&s, OUT), p, n, DYNV); SUBIS(sd_sub_0_0(&s, OUT), p, 0, 0);
  if (n >= 1) { SUBIS(sd_first_1(&s, OUT), p, 1, 1); SUBIS(sd_last_1(&s, OUT), p + (n - 1), 1, 1); SUBIS(sd_sub_1(&s, OUT), p + 1, n - 1, DYNV); }
  if (n >= 2) { SUBIS(sd_first_2(&s, OUT), p, 2, 2); SUBIS(sd_last_2(&s, OUT), p + (n - 2), 2, 2); SUBIS(sd_sub_2(&s, OUT), p + 2, n - 2, DYNV); SUBIS(sd_sub_0_2(&s, OUT), p, 2, 2); }
  if (n >= 3) { SUBIS(sd_sub_1_2(&s, OUT), p + 1, 2, 2); SUBIS(sd_sub_2_1(&s, OUT), p + 2, 1, 1); }
  if (n >= 4) { SUBIS(sd_first_4(&s, OUT), p, 4, 4); SUBIS(sd_last_4(&s, OUT), p + (n - 4), 4, 4); SUBIS(sd_sub_4(&s, OUT), p + 4, n - 4, DYNV); SUBIS(sd_sub_4_0(&s, OUT), p + 4, 0, 0); }
  VF_REACH(); }

/*@GROUP name=span_static props=C19,C02,C05 kind=K unwind=6 when=VF_PART==0@*/
void h_span_static(void) { const unsigned long n = 4; VF_BUF(int, p, 4, 4); VF_INPUT(unsigned char, i); VF_INPUT(unsigned char, o); VF_INPUT(unsigned char, c); MKS4(s, p);
  VF_ASSERT(s4_data(&s) == p && s4_size(&s) == 4 && s4_size_bytes(&s) == 16 && !s4_empty(&s) && s4_extent() == 4, "span<int,4>: data/size/size_bytes/empty/extent");
  VF_ASSERT(s4_begin(&s) == p && s4_end(&s) == p + 4 && s4_rbegin_base(&s) == p + 4 && s4_rend_base(&s) == p, "span<int,4>: begin/end/rbegin/rend");
  VF_ASSERT(s4_front(&s) == p && s4_back(&s) == p + 3, "span<int,4>: front/back"); if (i < 4) VF_ASSERT(s4_index(&s, i) == p + i, "span<int,4>: operator[](i) addresses element i");
  if (c <= 4) { SUBIS(s4_first_n(&s, c, OUT), p, c, DYNV); SUBIS(s4_last_n(&s, c, OUT), p + (4 - c), c, DYNV); }
  if (o <= 4) { SUBIS(s4_subspan_o(&s, o, OUT), p + o, 4 - o, DYNV); SUBIS(s4_subspan_oc(&s, o, DYNV, OUT), p + o, 4 - o, DYNV); if (c <= 4 - o) SUBIS(s4_subspan_oc(&s, o, c, OUT), p + o, c, DYNV); }
  SUBIS(s4_first_0(&s, OUT), p, 0, 0); SUBIS(s4_first_1(&s, OUT), p, 1, 1); SUBIS(s4_first_2(&s, OUT), p, 2, 2); SUBIS(s4_first_4(&s, OUT), p, 4, 4);
  SUBIS(s4_last_0(&s, OUT), p + 4, 0, 0); SUBIS(s4_last_1(&s, OUT), p + 3, 1, 1); SUBIS(s4_last_2(&s, OUT), p + 2, 2, 2); SUBIS(s4_last_4(&s, OUT), p, 4, 4);
  SUBIS(s4_sub_0(&s, OUT), p, 4, 4); SUBIS(s4_sub_1(&s, OUT), p + 1, 3, 3); SUBIS(s4_sub_2(&s, OUT), p + 2, 2, 2); SUBIS(s4_sub_4(&s, OUT), p + 4, 0, 0);
  SUBIS(s4_sub_0_0(&s, OUT), p, 0, 0); SUBIS(s4_sub_0_4(&s, OUT), p, 4, 4); SUBIS(s4_sub_1_2(&s, OUT), p + 1, 2, 2); SUBIS(s4_sub_1_3(&s, OUT), p + 1, 3, 3); SUBIS(s4_sub_4_0(&s, OUT), p + 4, 0, 0); SUBIS(s4_sub_2_1(&s, OUT), p + 2, 1, 1);
  VF_REACH(); }

/*@GROUP name=span_ctor props=C19,C02 kind=K unwind=8 bound=len<=6 when=VF_PART==0@*/
void h_span_ctor(void) { VF_INPUT(unsigned char, n); VF_BUF(int, p, n, 6); VF_INPUT(A4, arr); VF_INPUT(A0, arr0); VF_INPUT(SD, a); VF_INPUT(SD, b); VF_INPUT(S4, t);
  sd_default(&a); VF_ASSERT(a._storage._data == 0 && a._storage._size == 0, "span(): data() == nullptr, size() == 0");
  sd_ctor_ptr_n(&a, p, n); VF_ASSERT(a._storage._data == p && a._storage._size == n, "span(ptr, count)");
  sd_copy(&b, &a); VF_ASSERT(b._storage._data == p && b._storage._size == n, "span(span const&)");
  sd_ctor_array(&a, &arr); VF_ASSERT(a._storage._data == arr._buf && a._storage._size == 4, "span<int>(array<int,4>&) views the array's elements");
  sd_ctor_carr(&a, &arr._buf); VF_ASSERT(a._storage._data == arr._buf && a._storage._size == 4, "span<int>(int(&)[4])");
  s4_ctor_array(&t, &arr); VF_ASSERT(t._storage._data == arr._buf, "span<int,4>(array<int,4>&)"); sd_ctor_s4(&a, &t); VF_ASSERT(a._storage._data == arr._buf && a._storage._size == 4, "span<int>(span<int,4>)");
  s4_ctor_carr(&t, &arr._buf); VF_ASSERT(t._storage._data == arr._buf, "span<int,4>(int(&)[4])");
  { struct etl_span_constint_4 ct; VF_ASSERT(cs4_ctor_carray(&ct, &arr) == 4 && ct._storage._data == arr._buf, "span<int const,4>(array<int,4> const&)"); }
  if (n == 4) { s4_ctor_ptr_n(&t, p, n); VF_ASSERT(t._storage._data == p, "span<int,4>(ptr, 4)"); sd_ctor_ptr_n(&a, p, n); s4_ctor_sd(&t, &a); VF_ASSERT(t._storage._data == p, "span<int,4>(span<int>) of size 4"); }
  { int *d = p; unsigned long m = 9; VF_ASSERT(s0_ctor_array(&d, &m, &arr0) == 0 && m == 0 && d == 0, "span<int,0>(array<int,0>&): empty, extent 0"); }
  { int *d = 0; unsigned long m = 9; VF_ASSERT(ctad_carr(&d, &m, &arr._buf) == 4 && m == 4 && d == arr._buf, "span(int(&)[4]) deduces extent 4"); }
  { int *d = 0; unsigned long m = 9; VF_ASSERT(ctad_array(&d, &m, &arr) == 4 && m == 4 && d == arr._buf, "span(array<int,4>&) deduces extent 4"); }
  VF_ASSERT(a4_data(&arr) == arr._buf && a4_begin(&arr) == arr._buf && a4_end(&arr) == arr._buf + 4 && a4_front(&arr) == arr._buf && a4_back(&arr) == arr._buf + 3 && a4_size(&arr) == 4 && !a4_empty(&arr), "array<int,4>: data/begin/end/front/back/size/empty");
  VF_ASSERT(a0_begin(&arr0) == a0_end(&arr0) && a0_size(&arr0) == 0 && a0_empty(&arr0), "array<int,0>: begin() == end(), size 0, empty");
  VF_ASSERT(a4_cdata(&arr) == arr._buf && a4_cfront(&arr) == arr._buf && a4_cback(&arr) == arr._buf + 3 && a4_begin_c(&arr) == arr._buf && a4_end_c(&arr) == arr._buf + 4 && a4_cbegin(&arr) == arr._buf && a4_cend(&arr) == arr._buf + 4 && a4_max_size(&arr) == 4, "array<int,4>: const data/front/back/begin/end, cbegin/cend, max_size");
  VF_ASSERT(a4_rbegin_base(&arr) == arr._buf + 4 && a4_rend_base(&arr) == arr._buf && a4_crbegin_base(&arr) == arr._buf + 4 && a4_crend_base(&arr) == arr._buf && a4_rbegin_c_base(&arr) == arr._buf + 4 && a4_rend_c_base(&arr) == arr._buf, "array<int,4>: rbegin/rend/crbegin/crend base() == end() / begin()");
  VF_REACH(); }

/*@COMMON@*/
#if VF_PART == 0
/* ---- conversions between differently-parameterised spans; observers of the const / short instantiations (separate function bodies) ----
 * [span.cons]/20: span(const span<U,N>& s): data() == s.data() and size() == s.size(); constructible iff extent == dynamic_extent || N == dynamic_extent ||
 * N == extent and U(*)[] -> T(*)[] is a qualification conversion; explicit iff extent != dynamic_extent && N == dynamic_extent. */
typedef struct etl_span_constint_18446744073709551615 CSD;
typedef struct etl_span_constint_4 CS4;
typedef struct etl_span_short_18446744073709551615 HD;
typedef struct etl_span_short_4 H4;
typedef struct etl_span_constshort_18446744073709551615 CHD;
typedef struct etl_span_constshort_4 CH4;
typedef struct etl_array_short_4 AH4;
#define MKDYN(T, s, p, n) T s; s._storage._data = (p); s._storage._size = (n)
#define MKST4(T, s, p) T s; s._storage._data = (p)
#define ISDYN(s, xd, xn, what) VF_ASSERT((s)._storage._data == (xd) && (s)._storage._size == (unsigned long)(xn), what ": data() == source data() and size() == source size()")
#define ISST4(s, xd, what) VF_ASSERT((s)._storage._data == (xd), what ": data() == source data() (size() is the static extent 4 == source size())")
#define SUBIST(ET, call, xd, xn, xe) do { ET *d_ = 0; unsigned long n_ = 99, e_ = (call); VF_ASSERT(d_ == (xd) && n_ == (unsigned long)(xn), #call ": data() == original data() + offset and size() == count"); \
    VF_ASSERT(e_ == (unsigned long)(xe), #call ": the static extent of the result type"); VF_ASSERT(INSIDE(d_, n_, p, n), #call ": the result lies inside the original range"); } while (0)
/* observers / sub-views of the span `s` over the exact-size buffer [p, p+n): P = entry point prefix, ET = element type, ESZ = sizeof(element) */
#define DYN_OBS(P, ET, ESZ, what) do { \
  VF_ASSERT(P##_data(&s) == p && P##_size(&s) == n && P##_size_bytes(&s) == ESZ * n && P##_empty(&s) == (n == 0), what ": data/size/size_bytes/empty"); \
  VF_ASSERT(P##_begin(&s) == p && P##_end(&s) == p + n && P##_rbegin_base(&s) == p + n && P##_rend_base(&s) == p, what ": begin/end, rbegin().base() == end(), rend().base() == begin()"); \
  if (n > 0) VF_ASSERT(P##_front(&s) == p && P##_back(&s) == p + (n - 1), what ": front/back address the first/last element"); \
  if (i < n) VF_ASSERT(P##_index(&s, i) == p + i, what ": operator[](i) addresses element i"); } while (0)
#define DYN_SUB(P, ET) do { \
  if (c <= n) { SUBIST(ET, P##_first_n(&s, c, OUT), p, c, DYNV); SUBIST(ET, P##_last_n(&s, c, OUT), p + (n - c), c, DYNV); } \
  if (o <= n) { SUBIST(ET, P##_subspan_o(&s, o, OUT), p + o, n - o, DYNV); SUBIST(ET, P##_subspan_oc(&s, o, DYNV, OUT), p + o, n - o, DYNV); if (c <= n - o) SUBIST(ET, P##_subspan_oc(&s, o, c, OUT), p + o, c, DYNV); } \
  if (n >= 2) { SUBIST(ET, P##_first_2(&s, OUT), p, 2, 2); SUBIST(ET, P##_last_2(&s, OUT), p + (n - 2), 2, 2); SUBIST(ET, P##_sub_2(&s, OUT), p + 2, n - 2, DYNV); } \
  if (n >= 3) SUBIST(ET, P##_sub_1_2(&s, OUT), p + 1, 2, 2); } while (0)
#define ST4_OBS(P, ET, ESZ, what) do { \
  VF_ASSERT(P##_data(&s) == p && P##_size(&s) == 4 && P##_size_bytes(&s) == ESZ * 4 && !P##_empty(&s), what ": data/size/size_bytes/empty"); \
  VF_ASSERT(P##_begin(&s) == p && P##_end(&s) == p + 4 && P##_rbegin_base(&s) == p + 4 && P##_rend_base(&s) == p, what ": begin/end/rbegin/rend"); \
  VF_ASSERT(P##_front(&s) == p && P##_back(&s) == p + 3, what ": front/back"); if (i < 4) VF_ASSERT(P##_index(&s, i) == p + i, what ": operator[](i) addresses element i"); \
  if (c <= 4) { SUBIST(ET, P##_first_n(&s, c, OUT), p, c, DYNV); SUBIST(ET, P##_last_n(&s, c, OUT), p + (4 - c), c, DYNV); } \
  if (o <= 4) { SUBIST(ET, P##_subspan_o(&s, o, OUT), p + o, 4 - o, DYNV); SUBIST(ET, P##_subspan_oc(&s, o, DYNV, OUT), p + o, 4 - o, DYNV); if (c <= 4 - o) SUBIST(ET, P##_subspan_oc(&s, o, c, OUT), p + o, c, DYNV); } \
  SUBIST(ET, P##_first_2(&s, OUT), p, 2, 2); SUBIST(ET, P##_last_2(&s, OUT), p + 2, 2, 2); SUBIST(ET, P##_sub_2(&s, OUT), p + 2, 2, 2); } while (0)
#define BYTES_ARE(call, CQ, xd, xn) do { CQ unsigned char *bd = 0; unsigned long bn = 99; unsigned long be = (call); VF_ASSERT(bd == (CQ unsigned char *)(xd) && bn == (unsigned long)(xn) && be == DYNV, #call ": same address, size_bytes() bytes, dynamic extent"); } while (0)
#endif

/* the converting constructor between every combination of {int, int const} x {dynamic, static} (+ copy-initialisation), then the observers / sub-views of the RESULT */
/*@GROUP name=span_conv props=C19,C02,C05 kind=K unwind=8 bound=len<=6 when=VF_PART==0@*/
void h_span_conv(void) { VF_INPUT(unsigned char, n); VF_BUF(int, p, n, 6); VF_INPUT(unsigned char, i); VF_INPUT(unsigned char, o); VF_INPUT(unsigned char, c); VF_INPUT(unsigned char, op);
  VF_INPUT(CSD, s); VF_INPUT(CS4, s4); VF_INPUT(SD, m); VF_INPUT(S4, m4); MKSD(src, p, n); MKS4(src4, p); MKDYN(CSD, csrc, p, n); MKST4(CS4, csrc4, p); _Bool dyn = 1;
  if (op == 0) { csd_from_sd(&s, &src); ISDYN(s, p, n, "span<int const>(span<int>)"); }
  else if (op == 1) { csd_implicit_sd(&s, &src); ISDYN(s, p, n, "span<int const> = span<int>"); }
  else if (op == 2) { csd_from_csd(&s, &csrc); ISDYN(s, p, n, "span<int const>(span<int const>)"); }
  else if (op == 3) { sd_copy(&m, &src); ISDYN(m, p, n, "span<int>(span<int>)"); s._storage._data = m._storage._data; s._storage._size = m._storage._size; }
  else { __CPROVER_assume(n == 4);
    if (op == 4) { csd_from_s4(&s, &src4); ISDYN(s, p, 4, "span<int const>(span<int,4>)"); }
    else if (op == 5) { csd_implicit_s4(&s, &src4); ISDYN(s, p, 4, "span<int const> = span<int,4>"); }
    else if (op == 6) { csd_from_cs4(&s, &csrc4); ISDYN(s, p, 4, "span<int const>(span<int const,4>)"); }
    else if (op == 7) { sd_ctor_s4(&m, &src4); ISDYN(m, p, 4, "span<int>(span<int,4>)"); s._storage._data = m._storage._data; s._storage._size = m._storage._size; }
    else { dyn = 0;
      if (op == 8) { cs4_from_sd(&s4, &src); ISST4(s4, p, "span<int const,4>(span<int>)"); }
      else if (op == 9) { cs4_from_s4(&s4, &src4); ISST4(s4, p, "span<int const,4>(span<int,4>)"); }
      else if (op == 10) { cs4_from_csd(&s4, &csrc); ISST4(s4, p, "span<int const,4>(span<int const>)"); }
      else if (op == 11) { cs4_from_cs4(&s4, &csrc4); ISST4(s4, p, "span<int const,4>(span<int const,4>)"); }
      else { s4_ctor_sd(&m4, &src); ISST4(m4, p, "span<int,4>(span<int>)"); s4._storage._data = m4._storage._data; } } }
  if (dyn) { DYN_OBS(csd, const int, 4UL, "converted span<int const>"); DYN_SUB(csd, const int); BYTES_ARE(csd_as_bytes(&s, &bd, &bn), const, p, 4UL * n); }
  else { CS4 t_ = s4; { CS4 s = t_; ST4_OBS(cs4, const int, 4UL, "converted span<int const,4>"); } }
  VF_ASSERT(span_conv_traits() == 1720u, "span converting constructor: constructible iff the extents agree or one is dynamic and U(*)[] -> T(*)[] is a qualification conversion; explicit iff dynamic -> static");
  VF_REACH(); }

/* the same for a second element type (short): dynamic <-> static, short -> short const */
/*@GROUP name=span_conv_short props=C19,C02,C05 kind=K unwind=8 bound=len<=6 when=VF_PART==0@*/
void h_span_conv_short(void) { VF_INPUT(unsigned char, n); VF_BUF(short, p, n, 6); VF_INPUT(unsigned char, i); VF_INPUT(unsigned char, o); VF_INPUT(unsigned char, c); VF_INPUT(unsigned char, op);
  VF_INPUT(CHD, s); VF_INPUT(CH4, s4); VF_INPUT(HD, m); VF_INPUT(H4, m4); MKDYN(HD, src, p, n); MKST4(H4, src4, p); int kind = 0;
  if (op == 0) { chd_from_hd(&s, &src); ISDYN(s, p, n, "span<short const>(span<short>)"); }
  else if (op == 1) { hd_from_hd(&m, &src); ISDYN(m, p, n, "span<short>(span<short>)"); kind = 1; }
  else { __CPROVER_assume(n == 4);
    if (op == 2) { chd_from_h4(&s, &src4); ISDYN(s, p, 4, "span<short const>(span<short,4>)"); }
    else if (op == 3) { hd_from_h4(&m, &src4); ISDYN(m, p, 4, "span<short>(span<short,4>)"); kind = 1; }
    else if (op == 4) { ch4_from_hd(&s4, &src); ISST4(s4, p, "span<short const,4>(span<short>)"); kind = 2; }
    else if (op == 5) { ch4_from_h4(&s4, &src4); ISST4(s4, p, "span<short const,4>(span<short,4>)"); kind = 2; }
    else if (op == 6) { h4_from_hd(&m4, &src); ISST4(m4, p, "span<short,4>(span<short>)"); kind = 3; }
    else { h4_from_h4(&m4, &src4); ISST4(m4, p, "span<short,4>(span<short,4>)"); kind = 3; } }
  if (kind == 0) { DYN_OBS(chd, const short, 2UL, "converted span<short const>"); DYN_SUB(chd, const short); BYTES_ARE(chd_as_bytes(&s, &bd, &bn), const, p, 2UL * n); }
  else if (kind == 1) { HD t_ = m; { HD s = t_; DYN_OBS(hd, short, 2UL, "converted span<short>"); DYN_SUB(hd, short); BYTES_ARE(hd_as_bytes(&s, &bd, &bn), const, p, 2UL * n); BYTES_ARE(hd_as_wbytes(&s, &bd, &bn), , p, 2UL * n); } }
  else if (kind == 3) { H4 t_ = m4; { H4 s = t_; ST4_OBS(h4, short, 2UL, "converted span<short,4>"); SUBIST(short, h4_sub_1_3(&s, OUT), p + 1, 3, 3); } }
  VF_REACH(); }

/* observers / sub-views of the const-element and short instantiations from ARBITRARY states (set directly) */
/*@GROUP name=span_elem_obs props=C19,C02,C05 kind=K unwind=8 bound=len<=6 when=VF_PART==0@*/
void h_span_elem_obs(void) { VF_INPUT(unsigned char, n); VF_INPUT(unsigned char, i); VF_INPUT(unsigned char, o); VF_INPUT(unsigned char, c); VF_INPUT(unsigned char, sel); VF_BUF(int, pi, n, 6); VF_BUF(short, ph, n, 6);
  if (sel == 0) { int *p = pi; MKDYN(CSD, s, p, n); DYN_OBS(csd, const int, 4UL, "span<int const>"); DYN_SUB(csd, const int); SUBIST(const int, csd_first_0(&s, OUT), p, 0, 0); SUBIST(const int, csd_last_0(&s, OUT), p + n, 0, 0); SUBIST(const int, csd_sub_0(&s, OUT), p, n, DYNV);
    BYTES_ARE(csd_as_bytes(&s, &bd, &bn), const, p, 4UL * n); }
  else if (sel == 1) { short *p = ph; MKDYN(HD, s, p, n); DYN_OBS(hd, short, 2UL, "span<short>"); DYN_SUB(hd, short); BYTES_ARE(hd_as_bytes(&s, &bd, &bn), const, p, 2UL * n); BYTES_ARE(hd_as_wbytes(&s, &bd, &bn), , p, 2UL * n); }
  else if (sel == 2) { short *p = ph; MKDYN(CHD, s, p, n); DYN_OBS(chd, const short, 2UL, "span<short const>"); DYN_SUB(chd, const short); BYTES_ARE(chd_as_bytes(&s, &bd, &bn), const, p, 2UL * n); }
  else if (sel == 3) { __CPROVER_assume(n == 4); int *p = pi; MKST4(CS4, s, p); ST4_OBS(cs4, const int, 4UL, "span<int const,4>"); SUBIST(const int, cs4_sub_1_2(&s, OUT), p + 1, 2, 2); }
  else { __CPROVER_assume(n == 4); short *p = ph; MKST4(H4, s, p); ST4_OBS(h4, short, 2UL, "span<short,4>"); SUBIST(short, h4_sub_1_3(&s, OUT), p + 1, 3, 3); }
  VF_REACH(); }

/* constructors of the const-element / short instantiations: from (pointer, count), array<T,N>&, array<T,N> const&, C arrays, and the deduction guides */
/*@GROUP name=span_elem_ctor props=C19,C02 kind=K unwind=8 bound=len<=6 when=VF_PART==0@*/
void h_span_elem_ctor(void) { VF_INPUT(unsigned char, n); VF_BUF(int, p, n, 6); VF_BUF(short, q, n, 6); VF_INPUT(A4, arr); VF_INPUT(AH4, harr); VF_INPUT(CSD, a); VF_INPUT(CS4, t); VF_INPUT(HD, h); VF_INPUT(H4, h4); VF_INPUT(CHD, ch); VF_INPUT(CH4, ch4);
  csd_ctor_ptr_n(&a, p, n); ISDYN(a, p, n, "span<int const>(int const*, count)"); a._storage._size = 77; csd_ctor_ptr_n_nc(&a, p, n); ISDYN(a, p, n, "span<int const>(int*, count)");
  csd_ctor_carray(&a, &arr); ISDYN(a, arr._buf, 4, "span<int const>(array<int,4> const&)"); a._storage._size = 77; csd_ctor_array(&a, &arr); ISDYN(a, arr._buf, 4, "span<int const>(array<int,4>&)");
  a._storage._size = 77; csd_ctor_carr(&a, &arr._buf); ISDYN(a, arr._buf, 4, "span<int const>(int const(&)[4])");
  cs4_ctor_array(&t, &arr); ISST4(t, arr._buf, "span<int const,4>(array<int,4>&)"); t._storage._data = 0; cs4_ctor_carr(&t, &arr._buf); ISST4(t, arr._buf, "span<int const,4>(int const(&)[4])");
  hd_ctor_ptr_n(&h, q, n); ISDYN(h, q, n, "span<short>(short*, count)"); hd_ctor_array(&h, &harr); ISDYN(h, harr._buf, 4, "span<short>(array<short,4>&)"); h._storage._size = 77; hd_ctor_carr(&h, &harr._buf); ISDYN(h, harr._buf, 4, "span<short>(short(&)[4])");
  h4_ctor_array(&h4, &harr); ISST4(h4, harr._buf, "span<short,4>(array<short,4>&)"); h4._storage._data = 0; h4_ctor_carr(&h4, &harr._buf); ISST4(h4, harr._buf, "span<short,4>(short(&)[4])");
  chd_ctor_carray(&ch, &harr); ISDYN(ch, harr._buf, 4, "span<short const>(array<short,4> const&)"); ch4_ctor_carray(&ch4, &harr); ISST4(ch4, harr._buf, "span<short const,4>(array<short,4> const&)");
  { const int *d = 0; unsigned long m = 9; VF_ASSERT(ctad_carray(&d, &m, &arr) == 4 && m == 4 && d == arr._buf, "span(array<int,4> const&) deduces span<int const,4>"); }
  { const int *d = 0; unsigned long m = 9; VF_ASSERT(ctad_ccarr(&d, &m, &arr._buf) == 4 && m == 4 && d == arr._buf, "span(int const(&)[4]) deduces span<int const,4>"); }
  { short *d = 0; unsigned long m = 9; VF_ASSERT(ctad_harray(&d, &m, &harr) == 4 && m == 4 && d == harr._buf, "span(array<short,4>&) deduces span<short,4>"); }
  VF_REACH(); }

/* ---- C05: span ---------------------------------------------------------------------------------------------------- */
/*@GROUP name=viol_span_index props=C05,C02 kind=K unwind=8 bound=len<=6 when=VF_PART==0@*/
void h_viol_span_index(void) { VF_INPUT(unsigned char, n); VF_BUF(int, p, n, 6); VF_INPUT(unsigned long, i); VF_INPUT(unsigned char, op); MKSD(s, p, n); MKS4(t, p); S0 z; z._storage._data = p;
  EXPECT_VIOLATION_BUF(p, n); vf_sd_of = &s; vf_sd_snap = s; vf_s4_of = &t; vf_s4_snap = t;
  if (op == 0) { __CPROVER_assume(i >= n); sd_index(&s, i); }
  else if (op == 1) { __CPROVER_assume(n == 4 && i >= 4); s4_index(&t, i); }
  else if (op == 2) { __CPROVER_assume(n == 0); sd_front(&s); }
  else if (op == 3) { __CPROVER_assume(n == 0); sd_back(&s); }
  else if (op == 4) s0_front(&z); else if (op == 5) s0_back(&z); else s0_index(&z, i);
  VF_NORETURN_EXPECTED(); }

/*@GROUP name=viol_span_sub props=C05,C02 kind=K unwind=8 bound=len<=6 when=VF_PART==0@*/
void h_viol_span_sub(void) { VF_INPUT(unsigned char, n); VF_BUF(int, p, n, 6); VF_INPUT(unsigned long, o); VF_INPUT(unsigned long, c); VF_INPUT(unsigned char, op); VF_INPUT_BOOL(st); MKSD(s, p, n); MKS4(t, p);
  int *d = 0; unsigned long m = 0; if (st) __CPROVER_assume(n == 4);
  EXPECT_VIOLATION_BUF(p, n); vf_sd_of = &s; vf_sd_snap = s; vf_s4_of = &t; vf_s4_snap = t;
  if (op == 0) { __CPROVER_assume(c > n); if (st) s4_first_n(&t, c, &d, &m); else sd_first_n(&s, c, &d, &m); }
  else if (op == 1) { __CPROVER_assume(c > n); if (st) s4_last_n(&t, c, &d, &m); else sd_last_n(&s, c, &d, &m); }
  else if (op == 2) { __CPROVER_assume(o > n); if (st) s4_subspan_oc(&t, o, c, &d, &m); else sd_subspan_oc(&s, o, c, &d, &m); }
  else if (op == 3) { __CPROVER_assume(o > n); if (st) s4_subspan_o(&t, o, &d, &m); else sd_subspan_o(&s, o, &d, &m); }
  else { __CPROVER_assume(o <= n && c != DYNV && c > n - o); if (st) s4_subspan_oc(&t, o, c, &d, &m); else sd_subspan_oc(&s, o, c, &d, &m); }
  VF_NORETURN_EXPECTED(); }

/*@GROUP name=viol_span_tmpl props=C05,C02 kind=K unwind=8 bound=len<=6 when=VF_PART==0@*/
void h_viol_span_tmpl(void) { VF_INPUT(unsigned char, n); VF_BUF(int, p, n, 6); VF_INPUT(unsigned char, op); MKSD(s, p, n); int *d = 0; unsigned long m = 0;
  /* [span.sub]: first<C>/last<C>/subspan<O,C> on a dynamic-extent span require C <= size() resp. O <= size() && C <= size() - O */
  VF_KNOWN(C05_span_tmpl_count_unchecked, op <= 5);
  EXPECT_VIOLATION_BUF(p, n); vf_sd_of = &s; vf_sd_snap = s;
  if (op == 0) { __CPROVER_assume(n < 2); sd_first_2(&s, &d, &m); }
  else if (op == 1) { __CPROVER_assume(n < 2); sd_last_2(&s, &d, &m); }
  else if (op == 2) { __CPROVER_assume(n < 2); sd_sub_2(&s, &d, &m); }
  else if (op == 3) { __CPROVER_assume(n < 3); sd_sub_1_2(&s, &d, &m); }
  else if (op == 4) { __CPROVER_assume(n < 4); sd_first_4(&s, &d, &m); }
  else if (op == 5) { __CPROVER_assume(n < 4); sd_sub_4_0(&s, &d, &m); }
  else sd_first_n(&s, 7, &d, &m); /* control: the run-time count form is checked (keeps the handler reachable in this group) */
  VF_NORETURN_EXPECTED(); }

/* [span.cons]/7 and /19: a STATIC-extent span constructed from (pointer, count) or from a dynamic-extent span requires count resp. s.size() == extent; otherwise the
 * result claims `extent` elements over a range of another size (tier=thorough: see the report / known_findings before enabling it in quick) */
/*@GROUP name=viol_span_conv props=C05,C02 kind=K unwind=8 bound=len<=6 tier=thorough when=VF_PART==0@*/
void h_viol_span_conv(void) { VF_INPUT(unsigned char, n); VF_BUF(int, p, n, 6); VF_INPUT(unsigned char, op); VF_INPUT(S4, t); VF_INPUT(CS4, ct); MKSD(s, p, n); MKDYN(CSD, cs, p, n); int *d = 0; unsigned long m = 0;
  VF_KNOWN(C05_span_static_size_unchecked, op <= 3);
  EXPECT_VIOLATION_BUF(p, n); vf_sd_of = &s; vf_sd_snap = s;
  if (op <= 3) __CPROVER_assume(n != 4);
  if (op == 0) s4_ctor_sd(&t, &s); else if (op == 1) s4_ctor_ptr_n(&t, p, n); else if (op == 2) cs4_from_sd(&ct, &s); else if (op == 3) cs4_from_csd(&ct, &cs);
  else sd_first_n(&s, 7, &d, &m); /* control: a checked precondition (keeps the handler reachable in this group) */
  VF_NORETURN_EXPECTED(); }

/*@COMMON@*/
#if VF_PART >= 1
/* ---- extents / layout mappings: one checker per pattern of patterns.def, selected by the symbolic input `which` --------------------
 * A pattern is (R; S0,S1,S2) with Sk in {0,1,3,VD}; positions >= R are padded with the static extent 1 (neutral for every formula).
 * State = the values of the dynamic extents (the struct holds exactly array<IT, rank_dynamic>), set DIRECTLY from symbolic inputs. */
#define CAT_(a, b) a##b
#define CAT(a, b) CAT_(a, b)
#if VF_IT == 1
typedef unsigned long IT;
#define ITN unsignedlong
#elif VF_IT == 2
typedef unsigned char IT;
#define ITN unsignedchar
#else
typedef int IT;
#define ITN int
#endif
#define VD DYNV
#define ETYPE(sfx) struct CAT(CAT(etl_extents_, ITN), sfx)
#define DSFX_0
#define DSFX_1 _18446744073709551615
#define DSFX_2 _18446744073709551615_18446744073709551615
#define DSFX_3 _18446744073709551615_18446744073709551615_18446744073709551615
#define DETYPE(R) struct CAT(CAT(etl_extents_, ITN), DSFX_##R)
#define OETYPE(R) struct CAT(etl_extents_long, DSFX_##R)
enum {
#define VP(name, R, A, B, C, sfx) IDX_##name,
#include "patterns.def"
#undef VP
  NPAT };
typedef struct { int r; unsigned long se[3]; } pat_t;
static int p_nd(pat_t p) { int c = 0; for (int k = 0; k < 3; ++k) c += (k < p.r && p.se[k] == DYNV); return c; }
static int p_dix(pat_t p, int k) { int c = 0; for (int q = 0; q < 3; ++q) c += (q < k && q < p.r && p.se[q] == DYNV); return c; }
static _Bool p_mixed(pat_t p) { return p_nd(p) > 0 && p_nd(p) < p.r; }
/* extent values: static extent or the symbolic value v[k] */
static void p_vals(pat_t p, const IT *v, IT *ev) { for (int k = 0; k < 3; ++k) ev[k] = (k < p.r && p.se[k] == DYNV) ? v[k] : (IT)p.se[k]; }
/* write / read the dynamic-extent storage (array<T, rank_dynamic> at offset 0 of the extents object) */
#define P_SET(T, obj, p, ev) do { T *raw_ = (T *)(obj); for (int k_ = 0; k_ < 3; ++k_) if (k_ < (p).r && (p).se[k_] == DYNV) raw_[p_dix((p), k_)] = (T)(ev)[k_]; } while (0)
static _Bool p_holds(pat_t p, const void *obj, const IT *ev) { const IT *raw = (const IT *)obj; _Bool ok = 1; for (int k = 0; k < 3; ++k) if (k < p.r && p.se[k] == DYNV) ok = ok && raw[p_dix(p, k)] == ev[k]; return ok; }
static void p_pack(pat_t p, const IT *ev, IT *pv) { for (int k = 0; k < 3; ++k) pv[k] = 0; for (int k = 0; k < 3; ++k) if (k < p.r && p.se[k] == DYNV) pv[p_dix(p, k)] = ev[k]; }
static const pat_t vf_pats[NPAT + 1] = {
#define VP(name, R, A, B, C, sfx) {R, {A, B, C}},
#include "patterns.def"
#undef VP
  {0, {1, 1, 1}} };
/* witness-class predicates of the known findings (functions of the harness input `which`) */
static _Bool w_mixed(unsigned char which) { return which < NPAT && p_mixed(vf_pats[which]); }
static _Bool w_mixed_last_static(unsigned char which) { return w_mixed(which) && vf_pats[which].se[vf_pats[which].r - 1] != DYNV; }
static _Bool w_static_nonzero(unsigned char which) { if (which >= NPAT) return 0; pat_t p = vf_pats[which]; _Bool r = 0; for (int k = 0; k < 3; ++k) r = r || (k < p.r && p.se[k] != DYNV && p.se[k] != 0); return r && p.r > 0; }
#define NONNEG(x) ((x) >= 0)
#define SYM3(T, v) VF_INPUT_ARR(T, v, 3)
/* ---- conversion matrix between the patterns ([mdspan.extents.cons]/1-4, same for layout_left/right::mapping and mdspan which forward to it):
 * Dst(Src const&) exists iff the ranks agree and at every position the static extents agree or at least one of them is dynamic; it is explicit iff some
 * position goes dynamic -> static or the source index type has the larger maximum; precondition: src.extent(r) == Dst::static_extent(r) wherever that
 * is static (and representable); postcondition: extent(r) == src.extent(r) for EVERY r.  The source object is a raw image of the source type: the run-time
 * extents array<I, rank_dynamic()> at offset 0 (behind the data handle for mdspan), written directly for the symbolic source pattern vf_pats[src]. */
static _Bool p_conv_ok(pat_t sp, pat_t dp) { _Bool ok = sp.r == dp.r; for (int k = 0; k < 3; ++k) if (k < sp.r && k < dp.r) ok = ok && (sp.se[k] == DYNV || dp.se[k] == DYNV || sp.se[k] == dp.se[k]); return ok; }
static _Bool p_conv_narrow(pat_t sp, pat_t dp) { _Bool nw = 0; for (int k = 0; k < 3; ++k) if (k < dp.r) nw = nw || (dp.se[k] != DYNV && sp.se[k] == DYNV); return nw; }
#define OT_WIDER (VF_IT != 1)   /* numeric_limits<IT>::max() < numeric_limits<long>::max() */
#define CONV_PRE(ok, dp, ev) do { if (ok) for (int k_ = 0; k_ < 3; ++k_) if (k_ < (dp).r && (dp).se[k_] != DYNV) __CPROVER_assume((ev)[k_] == (IT)(dp).se[k_]); } while (0)
#endif
#if VF_PART == 1
#define CHK_EXT_OBS(name, R, A, B, C, sfx) \
static void ext_obs_##name(const IT *v, const IT *w, const long *ow, unsigned long k) { const pat_t p = {R, {A, B, C}}; ETYPE(sfx) e, f; DETYPE(R) de; OETYPE(R) oe; IT ev[3], fv[3]; p_vals(p, v, ev); p_vals(p, w, fv); \
  P_SET(IT, &e, p, ev); P_SET(IT, &f, p, fv); { const pat_t dp = {R, {DYNV, DYNV, DYNV}}; P_SET(IT, &de, dp, w); P_SET(long, &oe, dp, ow); } \
  VF_ASSERT(name##_rank() == R && name##_rank_dynamic() == (unsigned long)p_nd(p), #name ": rank() and rank_dynamic()"); \
  if (k < R) { VF_ASSERT(name##_static_extent(k) == p.se[k], #name ": static_extent(k)"); VF_ASSERT(name##_extent(&e, k) == ev[k], #name ": extent(k) is the static extent or the stored dynamic extent"); } \
  { _Bool eq = 1, eqd = 1, eqo = 1; for (int q = 0; q < R; ++q) { eq = eq && ev[q] == fv[q]; eqd = eqd && ev[q] == w[q]; eqo = eqo && ow[q] >= 0 && (unsigned long)ow[q] == (unsigned long)ev[q]; } \
    VF_ASSERT(name##_eq(&e, &f) == eq, #name ": operator== compares every extent"); VF_ASSERT(name##_eq_dex(&e, &de) == eqd, #name ": operator== against dextents<IT,R>"); \
    VF_ASSERT(name##_eq_odex(&e, &oe) == eqo, #name ": operator== against dextents<long,R> compares values"); } }
#define VP CHK_EXT_OBS
#include "patterns.def"
#undef VP
#endif

/*@GROUP name=ext_obs props=C19,C02 kind=K unwind=5 when=VF_PART==1@*/
void h_ext_obs(void) { VF_INPUT(unsigned char, which); SYM3(IT, v); SYM3(IT, w); SYM3(long, ow); VF_INPUT(unsigned char, k);
  for (int q = 0; q < 3; ++q) __CPROVER_assume(NONNEG(v[q]) && NONNEG(w[q]) && ow[q] >= 0);
#define VP(name, R, A, B, C, sfx) if (which == IDX_##name) ext_obs_##name(v, w, ow, k);
#include "patterns.def"
#undef VP
  VF_REACH(); }

/*@COMMON@*/
#if VF_PART == 1
/* fwd_prod_of_extents(k) = prod_{q<k} E_q, rev_prod_of_extents(k) = prod_{q>k} E_q (public helpers behind stride() / required_span_size()) */
#define CHK_EXT_PROD(name, R, A, B, C, sfx) \
static void ext_prod_##name(const IT *v, unsigned char k) { const pat_t p = {R, {A, B, C}}; ETYPE(sfx) e; IT ev[3]; p_vals(p, v, ev); P_SET(IT, &e, p, ev); \
  unsigned long f = 1, r = 1; for (int q = 0; q < 3; ++q) { if (q < k) f *= (unsigned long)ev[q]; if (q > k) r *= (unsigned long)ev[q]; } \
  if (k <= R) VF_ASSERT(name##_fwd(&e, k) == f, #name ": fwd_prod_of_extents(k) == E_0 * ... * E_{k-1}"); if (k < R) VF_ASSERT(name##_rev(&e, k) == r, #name ": rev_prod_of_extents(k) == E_{k+1} * ... * E_{R-1}"); }
#define VP CHK_EXT_PROD
#include "patterns.def"
#undef VP
#endif

/*@GROUP name=ext_prod props=C19,C02 kind=B bound=extent<=4 unwind=5 objbits=14 timeout=1500 when=VF_PART==1@*/
void h_ext_prod(void) { VF_INPUT(unsigned char, which); SYM3(unsigned char, dv); VF_INPUT(unsigned char, k); for (int q = 0; q < 3; ++q) __CPROVER_assume(dv[q] <= 4); IT v[3]; for (int q = 0; q < 3; ++q) v[q] = (IT)dv[q];
#define VP(name, R, A, B, C, sfx) if (which == IDX_##name) ext_prod_##name(v, k);
#include "patterns.def"
#undef VP
  VF_REACH(); }

/*@COMMON@*/
#if VF_PART == 1
#define CHK_EXT_CTOR(name, R, A, B, C, sfx) \
static void ext_ctor_##name(const IT *v, unsigned char op) { const pat_t p = {R, {A, B, C}}; const pat_t dp = {R, {DYNV, DYNV, DYNV}}; ETYPE(sfx) e; DETYPE(R) de; OETYPE(R) oe; IT ev[3], pv[3]; long lv[3]; \
  p_vals(p, v, ev); p_pack(p, ev, pv); for (int q = 0; q < 3; ++q) lv[q] = (long)ev[q]; \
  { const pat_t z = {R, {A, B, C}}; IT junk[3] = {1, 1, 1}; P_SET(IT, &e, z, junk); } \
  if (op == 0) { IT zv[3] = {0, 0, 0}, zev[3]; p_vals(p, zv, zev); name##_ctor_default(&e); VF_ASSERT(p_holds(p, &e, zev), #name ": extents(): every dynamic extent is 0"); } \
  else if (op == 1) { name##_ctor_dyn(&e, pv); VF_ASSERT(p_holds(p, &e, ev), #name ": extents(dynamic extents...) stores them in order"); } \
  else if (op == 2) { name##_ctor_all(&e, ev); VF_ASSERT(p_holds(p, &e, ev), #name ": extents(all extents...) keeps the values at the dynamic positions"); } \
  else if (op == 3) { name##_ctor_arr_dyn(&e, pv); VF_ASSERT(p_holds(p, &e, ev), #name ": extents(array<IT, rank_dynamic>)"); } \
  else if (op == 4) { name##_ctor_arr_all(&e, ev); VF_ASSERT(p_holds(p, &e, ev), #name ": extents(array<IT, rank>) keeps the values at the dynamic positions"); } \
  else if (op == 5) { name##_ctor_span_dyn(&e, pv); VF_ASSERT(p_holds(p, &e, ev), #name ": extents(span<IT, rank_dynamic>)"); } \
  else if (op == 6) { name##_ctor_span_all(&e, ev); VF_ASSERT(p_holds(p, &e, ev), #name ": extents(span<IT, rank>) keeps the values at the dynamic positions"); } \
  else if (op == 7) { P_SET(IT, &de, dp, ev); name##_from_dex(&e, &de); VF_ASSERT(p_holds(p, &e, ev), #name ": extents(dextents<IT,R> const&) with matching static extents keeps every extent"); } \
  else if (op == 8) { P_SET(IT, &e, p, ev); name##_to_dex(&de, &e); VF_ASSERT(p_holds(dp, &de, ev), #name ": dextents<IT,R>(extents const&) copies static and dynamic extents"); } \
  else if (op == 9) { P_SET(long, &oe, dp, lv); name##_from_odex(&e, &oe); VF_ASSERT(p_holds(p, &e, ev), #name ": extents(dextents<long,R> const&) keeps every extent"); } \
  else { P_SET(IT, &e, p, ev); name##_to_odex(&oe, &e); _Bool ok = 1; for (int q = 0; q < R; ++q) ok = ok && ((long *)&oe)[q] == lv[q]; VF_ASSERT(ok, #name ": dextents<long,R>(extents const&) copies static and dynamic extents"); } \
  if (op != 0) for (int q = 0; q < R; ++q) VF_ASSERT(name##_extent(&e, q) == ev[q], #name ": extent(k) of the constructed / source object"); }
#define VP CHK_EXT_CTOR
#include "patterns.def"
#undef VP

/* known findings of the ext_ctor groups.
 * C19_extents_ctor_all_mixed: extents.hpp:113-118: extents(span<T,N>) with N == rank() copies all N values into the rank_dynamic()-element array (out-of-bounds write, wrong slots).
 * C19_extents_conv_wrong_side: extents.hpp:89: the converting constructor tests the SOURCE's static_extent(i): static source extents are dropped (left 0), own static positions are written. */
#endif

/*@GROUP name=ext_ctor_r012 props=C19,C02 kind=K unwind=5 objbits=14 timeout=1500 when=VF_PART==1@*/
#define RSEL(R) (R <= 2)
void h_ext_ctor_r012(void) { VF_INPUT(unsigned char, which); SYM3(IT, v); VF_INPUT(unsigned char, op); __CPROVER_assume(op <= 10); for (int q = 0; q < 3; ++q) __CPROVER_assume(NONNEG(v[q]) && (unsigned long)v[q] <= 0x7fffffffffffffffUL);
  VF_KNOWN(C19_extents_ctor_all_mixed, (op == 2 || op == 4 || op == 6) && w_mixed(which));
  VF_KNOWN(C19_extents_conv_wrong_side, ((op == 7 || op == 9) && w_mixed_last_static(which)) || ((op == 8 || op == 10) && w_static_nonzero(which)));
#define VP(name, R, A, B, C, sfx) if (RSEL(R) && which == IDX_##name) ext_ctor_##name(v, op);
#include "patterns.def"
#undef VP
  VF_REACH(); }

/*@GROUP name=ext_ctor_r3 props=C19,C02 kind=K unwind=5 objbits=14 timeout=1500 when=VF_PART==1@*/
#define RSEL(R) (R == 3)
void h_ext_ctor_r3(void) { VF_INPUT(unsigned char, which); SYM3(IT, v); VF_INPUT(unsigned char, op); __CPROVER_assume(op <= 10); for (int q = 0; q < 3; ++q) __CPROVER_assume(NONNEG(v[q]) && (unsigned long)v[q] <= 0x7fffffffffffffffUL);
  VF_KNOWN(C19_extents_ctor_all_mixed, (op == 2 || op == 4 || op == 6) && w_mixed(which));
  VF_KNOWN(C19_extents_conv_wrong_side, ((op == 7 || op == 9) && w_mixed_last_static(which)) || ((op == 8 || op == 10) && w_static_nonzero(which)));
#define VP(name, R, A, B, C, sfx) if (RSEL(R) && which == IDX_##name) ext_ctor_##name(v, op);
#include "patterns.def"
#undef VP
  VF_REACH(); }

/*@COMMON@*/
#if VF_PART == 1
/* extents<IT, Dst...>(extents<IT|long, Src...> const&) for every (source pattern, destination pattern) pair of patterns.def */
#define CHK_EXT_CONV(name, R, A, B, C, sfx) \
static void ext_conv_##name(unsigned char src, const IT *v, _Bool other) { const pat_t dp = {R, {A, B, C}}; const pat_t sp = vf_pats[src]; ETYPE(sfx) e; IT raw[3] = {7, 7, 7}; long oraw[3] = {7, 7, 7}; IT ev[3], junk[3] = {1, 1, 1}; \
  p_vals(sp, v, ev); const _Bool ok = p_conv_ok(sp, dp); CONV_PRE(ok, dp, ev); P_SET(IT, raw, sp, ev); P_SET(long, oraw, sp, ev); P_SET(IT, &e, dp, junk); \
  const unsigned r = other ? name##_conv_from_o(&e, src, oraw) : name##_conv_from(&e, src, raw); \
  VF_ASSERT((r & 1) == ok, #name ": extents(extents<Other> const&) exists iff same rank and position-wise equal-or-dynamic static extents"); \
  if (ok) { VF_ASSERT(((r >> 1) & 1) == !(p_conv_narrow(sp, dp) || (other && OT_WIDER)), #name ": the converting constructor is explicit iff dynamic -> static or a wider source index type"); \
    VF_ASSERT(p_holds(dp, &e, ev), #name ": extents(extents<Other> const&) stores the source's extent at every dynamic position"); \
    for (int q = 0; q < R; ++q) VF_ASSERT(name##_extent(&e, q) == ev[q], #name ": extent(r) of the converted extents == source extent(r) for every r"); } }
#define VP CHK_EXT_CONV
#include "patterns.def"
#undef VP
#define EXT_CONV_BODY VF_INPUT(unsigned char, which); VF_INPUT(unsigned char, src); SYM3(IT, v); VF_INPUT_BOOL(other); __CPROVER_assume(src < NPAT); for (int q = 0; q < 3; ++q) __CPROVER_assume(NONNEG(v[q]) && (unsigned long)v[q] <= 0x7fffffffffffffffUL);
#endif

/*@GROUP name=ext_conv_r012 props=C19,C02 kind=K unwind=5 objbits=14 timeout=1500 solver=kissat when=VF_PART==1@*/
void h_ext_conv_r012(void) { EXT_CONV_BODY
#define VP(name, R, A, B, C, sfx) if (R <= 2 && which == IDX_##name) ext_conv_##name(src, v, other);
#include "patterns.def"
#undef VP
  VF_REACH(); }

/*@GROUP name=ext_conv_r3 props=C19,C02 kind=K unwind=5 objbits=14 timeout=1500 solver=kissat when=VF_PART==1@*/
void h_ext_conv_r3(void) { EXT_CONV_BODY
#define VP(name, R, A, B, C, sfx) if (R == 3 && which == IDX_##name) ext_conv_##name(src, v, other);
#include "patterns.def"
#undef VP
  VF_REACH(); }

/*@COMMON@*/
#if VF_PART >= 1
/* ---- layout_left / layout_right ------------------------------------------------------------------------------------------------------
 * Reference (closed form, [mdspan.layout.left/right]): left: stride(k) = prod_{q<k} E_q, right: stride(k) = prod_{q>k} E_q, map(i) = sum i_k * stride(k),
 * required_span_size = prod E_q.  Dynamic extents are symbolic in [0,4] (bounded: the products are non-linear), widened from 8-bit inputs. */
#define MTYPE(L, sfx) struct CAT(CAT(CAT(etl_layout_, L), _mapping_etl_extents_), CAT(ITN, sfx))
#define DMTYPE(L, R) struct CAT(CAT(CAT(etl_layout_, L), _mapping_etl_extents_), CAT(ITN, DSFX_##R))
static void ref_strides_ll(const IT *ev, unsigned long *st) { st[0] = 1; st[1] = (unsigned long)ev[0]; st[2] = (unsigned long)ev[0] * (unsigned long)ev[1]; }
static void ref_strides_lr(const IT *ev, unsigned long *st) { st[2] = 1; st[1] = (unsigned long)ev[2]; st[0] = (unsigned long)ev[1] * (unsigned long)ev[2]; }
static unsigned long ref_size(const IT *ev) { return (unsigned long)ev[0] * (unsigned long)ev[1] * (unsigned long)ev[2]; }
static unsigned long ref_map(const IT *ix, const unsigned long *st, int r) { unsigned long o = 0; for (int q = 0; q < 3; ++q) if (q < r) o += (unsigned long)ix[q] * st[q]; return o; }
static _Bool in_range(const IT *ix, const IT *ev, int r) { _Bool ok = 1; for (int q = 0; q < 3; ++q) if (q < r) ok = ok && NONNEG(ix[q]) && ix[q] < ev[q]; return ok; }
static _Bool differ(const IT *ix, const IT *jx, int r) { _Bool d = 0; for (int q = 0; q < 3; ++q) if (q < r) d = d || ix[q] != jx[q]; return d; }
/* the multi-index that the closed form sends to offset o (o < size): witness for exhaustiveness; 8-bit arithmetic (size <= 64) */
static void ref_inv_ll(const IT *ev, unsigned char o, IT *ix) { unsigned char e0 = (unsigned char)ev[0], e1 = (unsigned char)ev[1]; ix[0] = (IT)(o % e0); ix[1] = (IT)((o / e0) % e1); ix[2] = (IT)((o / e0) / e1); }
static void ref_inv_lr(const IT *ev, unsigned char o, IT *ix) { unsigned char e2 = (unsigned char)ev[2], e1 = (unsigned char)ev[1]; ix[2] = (IT)(o % e2); ix[1] = (IT)((o / e2) % e1); ix[0] = (IT)((o / e2) / e1); }
#define WIDEN3(dst, src) IT dst[3]; for (int q_ = 0; q_ < 3; ++q_) dst[q_] = (IT)src[q_]
#define P_STATIC(R, A, B, C) ((R < 1 || A != DYNV) && (R < 2 || B != DYNV) && (R < 3 || C != DYNV))
#endif
#if VF_PART == 3
#define CHK_LAY(name, R, A, B, C, sfx, P, L) \
static void lay_##P##_##name(const IT *v, const IT *ix, const IT *jx, unsigned char k, unsigned char off) { const pat_t p = {R, {A, B, C}}; MTYPE(L, sfx) m; IT ev[3], inv[3]; unsigned long st[3]; \
  p_vals(p, v, ev); P_SET(IT, &m, p, ev); ref_strides_##P(ev, st); const unsigned long size = ref_size(ev); \
  VF_ASSERT((const void *)name##_##P##_extents(&m) == (const void *)&m._extents, #name " " #L ": extents() refers to the stored extents"); \
  VF_ASSERT((unsigned long)name##_##P##_rss(&m) == size, #name " " #L ": required_span_size() == product of the extents"); \
  VF_ASSERT(name##_##P##_flags(&m) == 0x3f, #name " " #L ": is_(always_)unique/exhaustive/strided are all true"); \
  if (k < R) VF_ASSERT((unsigned long)name##_##P##_stride(&m, k) == st[k], #name " " #L ": stride(k) == closed-form product"); \
  if (R > 0 && in_range(ix, ev, R)) { IT o = name##_##P##_map(&m, ix); VF_ASSERT((unsigned long)o == ref_map(ix, st, R), #name " " #L ": map(i...) == closed form"); \
    VF_ASSERT(NONNEG(o) && (unsigned long)o < size, #name " " #L ": 0 <= map(i...) < required_span_size()"); \
    if (in_range(jx, ev, R) && differ(ix, jx, R)) VF_ASSERT(name##_##P##_map(&m, jx) != o, #name " " #L ": injective (is_unique): different in-range multi-indices map to different offsets"); } \
  if (R > 0 && off < size) { ref_inv_##P(ev, off, inv); VF_ASSERT(in_range(inv, ev, R) && (unsigned long)name##_##P##_map(&m, inv) == off, #name " " #L ": exhaustive (is_exhaustive): every offset below required_span_size() is the image of an in-range multi-index"); } }
#define VP(name, R, A, B, C, sfx) CHK_LAY(name, R, A, B, C, sfx, ll, left) CHK_LAY(name, R, A, B, C, sfx, lr, right)
#include "patterns.def"
#undef VP
#define LAY_BODY(P) VF_INPUT(unsigned char, which); SYM3(unsigned char, dv); SYM3(unsigned char, di); SYM3(unsigned char, dj); VF_INPUT(unsigned char, k); VF_INPUT(unsigned char, off); \
  for (int q = 0; q < 3; ++q) __CPROVER_assume(dv[q] <= 4 && di[q] <= 4 && dj[q] <= 4); WIDEN3(v, dv); WIDEN3(ix, di); WIDEN3(jx, dj);
#endif

/*@GROUP name=left_static props=C19,C02 kind=K unwind=5 objbits=14 timeout=1500 when=VF_PART==3@*/
void h_left_static(void) { LAY_BODY(ll)
#define VP(name, R, A, B, C, sfx) if (P_STATIC(R, A, B, C) && which == IDX_##name) lay_ll_##name(v, ix, jx, k, off);
#include "patterns.def"
#undef VP
  VF_REACH(); }

/*@GROUP name=left_dyn props=C19,C02,C05 kind=B bound=extent<=4 unwind=5 objbits=14 timeout=1500 when=VF_PART==3@*/
void h_left_dyn(void) { LAY_BODY(ll)
#define VP(name, R, A, B, C, sfx) if (!P_STATIC(R, A, B, C) && which == IDX_##name) lay_ll_##name(v, ix, jx, k, off);
#include "patterns.def"
#undef VP
  VF_REACH(); }

/*@GROUP name=right_static props=C19,C02 kind=K unwind=5 objbits=14 timeout=1500 when=VF_PART==3@*/
void h_right_static(void) { LAY_BODY(lr)
#define VP(name, R, A, B, C, sfx) if (P_STATIC(R, A, B, C) && which == IDX_##name) lay_lr_##name(v, ix, jx, k, off);
#include "patterns.def"
#undef VP
  VF_REACH(); }

/*@GROUP name=right_dyn props=C19,C02,C05 kind=B bound=extent<=4 unwind=5 objbits=14 timeout=1500 when=VF_PART==3@*/
void h_right_dyn(void) { LAY_BODY(lr)
#define VP(name, R, A, B, C, sfx) if (!P_STATIC(R, A, B, C) && which == IDX_##name) lay_lr_##name(v, ix, jx, k, off);
#include "patterns.def"
#undef VP
  VF_REACH(); }

/*@COMMON@*/
#if VF_PART == 3
/* ---- construction / conversion / comparison of layout_left / layout_right mappings (no products: full non-negative domain) ---------- */
#define CHK_LAYC(name, R, A, B, C, sfx, P, L) \
static void layc_##P##_##name(const IT *v, const IT *w, unsigned char op) { const pat_t p = {R, {A, B, C}}; const pat_t dp = {R, {DYNV, DYNV, DYNV}}; MTYPE(L, sfx) m, m2; DMTYPE(L, R) dm; ETYPE(sfx) e; IT ev[3], fv[3], junk[3] = {1, 1, 1}; \
  p_vals(p, v, ev); p_vals(p, w, fv); P_SET(IT, &e, p, ev); P_SET(IT, &m, p, junk); P_SET(IT, &m2, p, fv); \
  if (op == 0) { IT zv[3] = {0, 0, 0}, zev[3]; p_vals(p, zv, zev); name##_##P##_ctor_default(&m); VF_ASSERT(p_holds(p, &m, zev), #name " " #L ": mapping(): dynamic extents are 0"); } \
  else if (op == 1) { name##_##P##_ctor(&m, &e); VF_ASSERT(p_holds(p, &m, ev), #name " " #L ": mapping(extents) stores the extents"); } \
  else if (op == 2) { name##_##P##_copy(&m, &m2); VF_ASSERT(p_holds(p, &m, fv), #name " " #L ": mapping(mapping const&)"); } \
  else if (op == 3) { P_SET(IT, &m, p, ev); _Bool eq = 1, eqd = 1; for (int q = 0; q < R; ++q) { eq = eq && ev[q] == fv[q]; eqd = eqd && ev[q] == w[q]; } P_SET(IT, &dm, dp, w); \
    VF_ASSERT(name##_##P##_eq(&m, &m2) == eq, #name " " #L ": operator== <=> equal extents"); VF_ASSERT(name##_##P##_eq_dex(&m, &dm) == eqd, #name " " #L ": operator== against the mapping over dextents"); } \
  else if (op == 4) { P_SET(IT, &dm, dp, ev); name##_##P##_from_dex(&m, &dm); VF_ASSERT(p_holds(p, &m, ev), #name " " #L ": mapping(mapping<dextents> const&) preserves the extents (hence the mapping)"); } \
  else { P_SET(IT, &m, p, ev); name##_##P##_to_dex(&dm, &m); VF_ASSERT(p_holds(dp, &dm, ev), #name " " #L ": mapping<dextents>(mapping const&) preserves the extents (hence the mapping)"); } }
#define VP(name, R, A, B, C, sfx) CHK_LAYC(name, R, A, B, C, sfx, ll, left) CHK_LAYC(name, R, A, B, C, sfx, lr, right)
#include "patterns.def"
#undef VP
/* rank <= 1: layout_left <-> layout_right */
#define CHK_LR(name, R, A, sfx) \
static void laylr_##name(const IT *v, _Bool dir) { const pat_t p = {R, {A, 1, 1}}; MTYPE(left, sfx) l; MTYPE(right, sfx) r; IT ev[3], junk[3] = {1, 1, 1}, ix[3] = {0, 0, 0}; p_vals(p, v, ev); \
  if (dir) { P_SET(IT, &l, p, junk); P_SET(IT, &r, p, ev); name##_ll_from_lr(&l, &r); VF_ASSERT(p_holds(p, &l, ev), #name ": layout_left::mapping(layout_right::mapping) keeps the extents"); } \
  else { P_SET(IT, &r, p, junk); P_SET(IT, &l, p, ev); name##_lr_from_ll(&r, &l); VF_ASSERT(p_holds(p, &r, ev), #name ": layout_right::mapping(layout_left::mapping) keeps the extents"); } \
  if (R == 1 && (unsigned long)ev[0] > 0) { ix[0] = (IT)((unsigned long)v[1] % (unsigned long)ev[0]); VF_ASSERT(name##_ll_map(&l, ix) == ix[0] && name##_lr_map(&r, ix) == ix[0], #name ": both rank-1 mappings send i to offset i (same offset for every index)"); } \
  VF_ASSERT(name##_ll_rss(&l) == name##_lr_rss(&r), #name ": same required_span_size()"); }
CHK_LR(e, 0, 1, ) CHK_LR(e0, 1, 0, _0) CHK_LR(e1, 1, 1, _1) CHK_LR(e3, 1, 3, _3) CHK_LR(ed, 1, VD, _18446744073709551615)

#define LAYC_BODY VF_INPUT(unsigned char, which); SYM3(IT, v); SYM3(IT, w); VF_INPUT(unsigned char, op); __CPROVER_assume(op <= 5); for (int q = 0; q < 3; ++q) __CPROVER_assume(NONNEG(v[q]) && NONNEG(w[q]));
#endif

/*@GROUP name=left_ctor props=C19,C02 kind=K unwind=5 objbits=14 timeout=1500 when=VF_PART==3@*/
void h_left_ctor(void) { LAYC_BODY
  VF_KNOWN(C19_extents_conv_wrong_side, (op == 4 && w_mixed_last_static(which)) || (op == 5 && w_static_nonzero(which)));
#define VP(name, R, A, B, C, sfx) if (which == IDX_##name) layc_ll_##name(v, w, op);
#include "patterns.def"
#undef VP
  VF_REACH(); }

/*@GROUP name=right_ctor props=C19,C02 kind=K unwind=5 objbits=14 timeout=1500 when=VF_PART==3@*/
void h_right_ctor(void) { LAYC_BODY
  VF_KNOWN(C19_extents_conv_wrong_side, (op == 4 && w_mixed_last_static(which)) || (op == 5 && w_static_nonzero(which)));
#define VP(name, R, A, B, C, sfx) if (which == IDX_##name) layc_lr_##name(v, w, op);
#include "patterns.def"
#undef VP
  VF_REACH(); }

/*@COMMON@*/
#if VF_PART == 7
/* layout_left/right::mapping<Dst>(mapping<Src> const&) for every (source, destination) pattern pair; mode 0: same layout, same index type; 1: same layout,
 * source index type long; 2: the OTHER layout (layout_left <- layout_right and vice versa: declared for rank <= 1 only, [mdspan.layout.left.cons]/5) */
#define CHK_LAYV(name, R, A, B, C, sfx, P, L) \
static void layv_##P##_##name(unsigned char src, const IT *v, unsigned char mode) { const pat_t dp = {R, {A, B, C}}; const pat_t sp = vf_pats[src]; MTYPE(L, sfx) m; IT raw[3] = {7, 7, 7}; long oraw[3] = {7, 7, 7}; IT ev[3], junk[3] = {1, 1, 1}; \
  p_vals(sp, v, ev); const _Bool ok = p_conv_ok(sp, dp) && (mode != 2 || R <= 1); CONV_PRE(ok, dp, ev); P_SET(IT, raw, sp, ev); P_SET(long, oraw, sp, ev); P_SET(IT, &m, dp, junk); \
  const unsigned r = mode == 0 ? name##_##P##_conv_from(&m, src, raw) : mode == 1 ? name##_##P##_conv_from_o(&m, src, oraw) : name##_##P##_conv_from_x(&m, src, raw); \
  VF_ASSERT((r & 1) == ok, #name " " #L ": mapping(mapping<Other> const&) exists iff the extents are convertible (other layout: and rank <= 1)"); \
  if (ok) { VF_ASSERT(((r >> 1) & 1) == !(p_conv_narrow(sp, dp) || (mode == 1 && OT_WIDER)), #name " " #L ": the converting constructor is explicit iff the extents conversion is"); \
    VF_ASSERT(p_holds(dp, &m, ev), #name " " #L ": mapping(mapping<Other> const&) keeps every extent of the source (hence the same index -> offset function)"); \
    if (R > 0) VF_ASSERT(name##_##P##_cv_stride(&m, UNITK_##P(R)) == 1, #name " " #L ": the fastest-running dimension of the converted mapping has stride 1 (no handler for a valid rank index)"); } }
#define UNITK_ll(R) 0
#define UNITK_lr(R) (R - 1)
/* heterogeneous operator== / != between mappings over DIFFERENT patterns of the same rank ([mdspan.layout.left.obs]/5: x.extents() == y.extents(), which compares
 * rank and every extent as VALUES, also across index types); the matrix contains both operand orders */
#define CHK_LAYQ(name, R, A, B, C, sfx, P, L) \
static void layq_##P##_##name(unsigned char src, const IT *v, const IT *w, _Bool other) { const pat_t dp = {R, {A, B, C}}; const pat_t sp = vf_pats[src]; MTYPE(L, sfx) m; IT raw[3] = {7, 7, 7}; long oraw[3] = {7, 7, 7}; IT ev[3], fv[3]; \
  p_vals(dp, v, ev); p_vals(sp, w, fv); P_SET(IT, &m, dp, ev); P_SET(IT, raw, sp, fv); P_SET(long, oraw, sp, fv); \
  const int r = other ? name##_##P##_eq_with_o(&m, src, oraw) : name##_##P##_eq_with(&m, src, raw); \
  if (sp.r != R) VF_ASSERT(r == -1, #name " " #L ": (different rank: not compared here)"); \
  else { _Bool eq = 1; for (int q = 0; q < R; ++q) eq = eq && ev[q] == fv[q]; VF_ASSERT(r == eq, #name " " #L ": a == b iff every extent has the same value, for every (ordered) pattern pair of the same rank"); } }
#endif

#if VF_PART == 7
#define VP(name, R, A, B, C, sfx) CHK_LAYV(name, R, A, B, C, sfx, ll, left) CHK_LAYV(name, R, A, B, C, sfx, lr, right) CHK_LAYQ(name, R, A, B, C, sfx, ll, left) CHK_LAYQ(name, R, A, B, C, sfx, lr, right)
#include "patterns.def"
#undef VP
#define LAYV_BODY VF_INPUT(unsigned char, which); VF_INPUT(unsigned char, src); SYM3(IT, v); VF_INPUT(unsigned char, mode); __CPROVER_assume(src < NPAT && mode <= 2); for (int q = 0; q < 3; ++q) __CPROVER_assume(NONNEG(v[q]) && (unsigned long)v[q] <= 0x7fffffffffffffffUL);
#endif

/*@GROUP name=left_conv props=C19,C02,C05 kind=K unwind=5 objbits=14 timeout=1500 solver=kissat when=VF_PART==7@*/
void h_left_conv(void) { LAYV_BODY
#define VP(name, R, A, B, C, sfx) if (which == IDX_##name) layv_ll_##name(src, v, mode);
#include "patterns.def"
#undef VP
  VF_REACH(); }

/*@GROUP name=right_conv props=C19,C02,C05 kind=K unwind=5 objbits=14 timeout=1500 solver=kissat when=VF_PART==7@*/
void h_right_conv(void) { LAYV_BODY
#define VP(name, R, A, B, C, sfx) if (which == IDX_##name) layv_lr_##name(src, v, mode);
#include "patterns.def"
#undef VP
  VF_REACH(); }

/*@COMMON@*/
#if VF_PART == 7
#define LAYQ_BODY VF_INPUT(unsigned char, which); VF_INPUT(unsigned char, src); SYM3(IT, v); SYM3(IT, w); VF_INPUT_BOOL(other); __CPROVER_assume(src < NPAT); \
  for (int q = 0; q < 3; ++q) __CPROVER_assume(NONNEG(v[q]) && NONNEG(w[q]) && (unsigned long)v[q] <= 0x7fffffffffffffffUL && (unsigned long)w[q] <= 0x7fffffffffffffffUL);
#endif

/*@GROUP name=left_eq_matrix props=C19,C02 kind=K unwind=5 objbits=14 timeout=1500 solver=kissat when=VF_PART==7@*/
void h_left_eq_matrix(void) { LAYQ_BODY
#define VP(name, R, A, B, C, sfx) if (which == IDX_##name) layq_ll_##name(src, v, w, other);
#include "patterns.def"
#undef VP
  VF_REACH(); }

/*@GROUP name=right_eq_matrix props=C19,C02 kind=K unwind=5 objbits=14 timeout=1500 solver=kissat when=VF_PART==7@*/
void h_right_eq_matrix(void) { LAYQ_BODY
#define VP(name, R, A, B, C, sfx) if (which == IDX_##name) layq_lr_##name(src, v, w, other);
#include "patterns.def"
#undef VP
  VF_REACH(); }

/*@GROUP name=lay_left_right props=C19,C02 kind=K unwind=5 when=VF_PART==3@*/
void h_lay_left_right(void) { VF_INPUT(unsigned char, which); SYM3(IT, v); VF_INPUT_BOOL(dir); for (int q = 0; q < 3; ++q) __CPROVER_assume(NONNEG(v[q]));
  if (which == 0) laylr_e(v, dir); else if (which == 1) laylr_e0(v, dir); else if (which == 2) laylr_e1(v, dir); else if (which == 3) laylr_e3(v, dir); else laylr_ed(v, dir);
  VF_REACH(); }

/*@COMMON@*/
#if VF_PART >= 1
/* ---- layout_stride -------------------------------------------------------------------------------------------------------------------
 * State = extents + strides, both set directly.  map(i) = sum i_k * s_k holds for ANY strides (window: strides in [0,16], extents in [0,4]).
 * is_unique() is unconditionally true: injectivity is proved under the precondition of [mdspan.layout.stride.cons]: every s_k > 0 and there is a
 * permutation P with s[P_i] >= s[P_{i-1}] * E[P_{i-1}] (covers padded and permuted strides).
 * NOT implemented by the library (declared only, no definition -> cannot be called): required_span_size(), is_exhaustive(), operator==, the converting
 * constructor from other mappings, and layout_left/right::mapping(layout_stride::mapping const&). */
#define SMTYPE(sfx) struct CAT(etl_layout_stride_mapping_etl_extents_, CAT(ITN, sfx))
#define S_SET(m, R, s) do { IT *raw_ = (IT *)&(m)._strides; for (int k_ = 0; k_ < R; ++k_) raw_[k_] = (s)[k_]; } while (0)
static _Bool s_holds(const void *strides, int r, const IT *s) { const IT *raw = (const IT *)strides; _Bool ok = 1; for (int k = 0; k < 3; ++k) if (k < r) ok = ok && raw[k] == s[k]; return ok; }
static _Bool s_chain(const IT *ev, const IT *s, int a, int b) { return (unsigned long)s[b] >= (unsigned long)s[a] * (unsigned long)ev[a]; }
static _Bool stride_pre(const IT *ev, const IT *s, int r) { for (int q = 0; q < 3; ++q) if (q < r && !(s[q] > 0)) return 0;
  if (r <= 1) return 1; if (r == 2) return s_chain(ev, s, 0, 1) || s_chain(ev, s, 1, 0);
  return (s_chain(ev, s, 0, 1) && s_chain(ev, s, 1, 2)) || (s_chain(ev, s, 0, 2) && s_chain(ev, s, 2, 1)) || (s_chain(ev, s, 1, 0) && s_chain(ev, s, 0, 2))
      || (s_chain(ev, s, 1, 2) && s_chain(ev, s, 2, 0)) || (s_chain(ev, s, 2, 0) && s_chain(ev, s, 0, 1)) || (s_chain(ev, s, 2, 1) && s_chain(ev, s, 1, 0)); }
static unsigned long ref_map_s(const IT *ix, const IT *s, int r) { unsigned long o = 0; for (int q = 0; q < 3; ++q) if (q < r) o += (unsigned long)ix[q] * (unsigned long)s[q]; return o; }
/* REQUIRED-SPAN-SIZE(e, strides) of [mdspan.layout.stride.expo]: 0 if any extent is 0, else 1 + sum (E_k - 1) * s_k */
static unsigned long ref_rss_s(const IT *ev, const IT *s, int r) { unsigned long o = 1; for (int q = 0; q < 3; ++q) if (q < r) { if (ev[q] == 0) return 0; o += ((unsigned long)ev[q] - 1) * (unsigned long)s[q]; } return o; }
#endif
#if VF_PART == 4
#define CHK_LS(name, R, A, B, C, sfx) \
static void ls_##name(const IT *v, const IT *s, const IT *ix, const IT *jx, unsigned char k, unsigned char op) { const pat_t p = {R, {A, B, C}}; SMTYPE(sfx) m; ETYPE(sfx) e; IT ev[3], junk[3] = {1, 1, 1}, so[3] = {0, 0, 0}; \
  p_vals(p, v, ev); P_SET(IT, &e, p, ev); \
  if (op == 0) { P_SET(IT, &m, p, ev); S_SET(m, R, s); \
    VF_ASSERT((const void *)name##_ls_extents(&m) == (const void *)&m._extents, #name " stride: extents() refers to the stored extents"); \
    VF_ASSERT(name##_ls_flags(&m) == 0x2d, #name " stride: is_always_unique/strided and is_unique/is_strided true, is_always_exhaustive false"); \
    if (k < R) VF_ASSERT(name##_ls_stride(&m, k) == s[k], #name " stride: stride(k) is the stored stride"); \
    name##_ls_strides(&m, so); VF_ASSERT(s_holds(so, R, s), #name " stride: strides() returns the stored strides"); \
    if (in_range(ix, ev, R)) { IT o = name##_ls_map(&m, ix); VF_ASSERT((unsigned long)o == ref_map_s(ix, s, R), #name " stride: map(i...) == sum i_k * stride(k)"); \
      if (stride_pre(ev, s, R)) { VF_ASSERT(NONNEG(o) && (unsigned long)o < ref_rss_s(ev, s, R), #name " stride: 0 <= map(i...) < REQUIRED-SPAN-SIZE"); \
        if (in_range(jx, ev, R) && differ(ix, jx, R)) VF_ASSERT(name##_ls_map(&m, jx) != o, #name " stride: injective (is_unique) for strides that satisfy the constructor precondition"); } } } \
  else if (R > 0 && op == 1) { P_SET(IT, &m, p, junk); S_SET(m, R, junk); name##_ls_ctor_arr(&m, &e, s); VF_ASSERT(p_holds(p, &m, ev) && s_holds(&m._strides, R, s), #name " stride: mapping(extents, array) stores extents and strides"); } \
  else if (R > 0 && op == 2) { P_SET(IT, &m, p, junk); S_SET(m, R, junk); name##_ls_ctor_span(&m, &e, s); VF_ASSERT(p_holds(p, &m, ev) && s_holds(&m._strides, R, s), #name " stride: mapping(extents, span) stores extents and strides"); } \
  else { IT zv[3] = {0, 0, 0}, zev[3]; p_vals(p, zv, zev); P_SET(IT, &m, p, junk); S_SET(m, R, junk); name##_ls_ctor_default(&m); VF_ASSERT(p_holds(p, &m, zev) && s_holds(&m._strides, R, zv), #name " stride: mapping(): dynamic extents and strides are 0"); } }
#define VP CHK_LS
#include "patterns.def"
#undef VP
#define LS_BODY VF_INPUT(unsigned char, which); SYM3(unsigned char, dv); SYM3(unsigned char, ds); SYM3(unsigned char, di); SYM3(unsigned char, dj); VF_INPUT(unsigned char, k); VF_INPUT(unsigned char, op); \
  for (int q = 0; q < 3; ++q) __CPROVER_assume(dv[q] <= 4 && di[q] <= 4 && dj[q] <= 4 && ds[q] <= 16); WIDEN3(v, dv); WIDEN3(s, ds); WIDEN3(ix, di); WIDEN3(jx, dj);
#endif

/*@GROUP name=stride_r012 props=C19,C02,C05 kind=B bound=extent<=4,stride<=16 unwind=5 objbits=14 timeout=1500 when=VF_PART==4@*/
void h_stride_r012(void) { LS_BODY
#define VP(name, R, A, B, C, sfx) if (R <= 2 && which == IDX_##name) ls_##name(v, s, ix, jx, k, op);
#include "patterns.def"
#undef VP
  VF_REACH(); }

/*@GROUP name=stride_r3 props=C19,C02,C05 kind=B bound=extent<=4,stride<=16 unwind=5 objbits=14 timeout=1500 when=VF_PART==4@*/
void h_stride_r3(void) { LS_BODY
#define VP(name, R, A, B, C, sfx) if (R == 3 && which == IDX_##name) ls_##name(v, s, ix, jx, k, op);
#include "patterns.def"
#undef VP
  VF_REACH(); }

/*@COMMON@*/
#if VF_PART == 2 || VF_PART == 5
/* ---- mdspan<int, E, layout>: element access == data_handle() + map(i...), inside an EXACT-size object of required_span_size() elements ----
 * State = (pointer, mapping) set directly; the buffer is a fresh heap object of exactly REQUIRED-SPAN-SIZE ints (closed form). */
#define MDT_ll(sfx) struct CAT(CAT(CAT(etl_mdspan_int_etl_extents_, ITN), sfx), _etl_layout_left)
#define MDT_lr(sfx) struct CAT(CAT(etl_mdspan_int_etl_extents_, ITN), sfx)
#define MDT_ls(sfx) struct CAT(CAT(CAT(etl_mdspan_int_etl_extents_, ITN), sfx), _etl_layout_stride)
#define MAPT_ll(sfx) MTYPE(left, sfx)
#define MAPT_lr(sfx) MTYPE(right, sfx)
#define MAPT_ls(sfx) SMTYPE(sfx)
#define ISLS_ll 0
#define ISLS_lr 0
#define ISLS_ls 1
#define FLAGS_ll 0x3f
#define FLAGS_lr 0x3f
#define FLAGS_ls 0x2d
static void ref_strides_ls(const IT *s, unsigned long *st) { for (int q = 0; q < 3; ++q) st[q] = (unsigned long)s[q]; }
#define REFSTR_ll(ev, s, st) ref_strides_ll(ev, st)
#define REFSTR_lr(ev, s, st) ref_strides_lr(ev, st)
#define REFSTR_ls(ev, s, st) ref_strides_ls(s, st)

#define CHK_MD(name, R, A, B, C, sfx, P) \
static void md_##P##_##name(const IT *v, const IT *s, const IT *ix, unsigned char k) { const pat_t p = {R, {A, B, C}}; MDT_##P(sfx) md; IT ev[3]; unsigned long st[3]; p_vals(p, v, ev); REFSTR_##P(ev, s, st); \
  if (ISLS_##P && !stride_pre(ev, s, R)) return; \
  const unsigned long rss = ISLS_##P ? ref_rss_s(ev, s, R) : ref_size(ev); unsigned long prod = ref_size(ev); if (sizeof(IT) == 1) prod = (unsigned char)prod; \
  int *buf = (int *)VF_ALLOC(rss * sizeof(int)); md._ptr = buf; P_SET(IT, &md._map, p, ev); if (ISLS_##P) { IT *raw = (IT *)&md._map + (sizeof(md._map) / sizeof(IT) - R); for (int q = 0; q < R; ++q) raw[q] = s[q]; } \
  VF_ASSERT(name##_m##P##_data(&md) == buf && (const void *)name##_m##P##_mapping(&md) == (const void *)&md._map && (const void *)name##_m##P##_extents(&md) == (const void *)&md._map, #name " mdspan " #P ": data_handle()/mapping()/extents() refer to the stored members"); \
  VF_ASSERT(name##_m##P##_size(&md) == prod && name##_m##P##_empty(&md) == (prod == 0), #name " mdspan " #P ": size() == product of the extents, empty() == (size() == 0)"); \
  { unsigned long rd = 99, se = 99; VF_ASSERT(name##_m##P##_rank(&rd, &se, k) == R && rd == (unsigned long)p_nd(p) && (k >= R || se == p.se[k]), #name " mdspan " #P ": rank/rank_dynamic/static_extent"); } \
  VF_ASSERT(name##_m##P##_flags(&md) == FLAGS_##P, #name " mdspan " #P ": is_unique/is_exhaustive/is_strided forward to the mapping"); \
  if (k < R) { VF_ASSERT(name##_m##P##_extent(&md, k) == ev[k], #name " mdspan " #P ": extent(k)"); VF_ASSERT((unsigned long)name##_m##P##_stride(&md, k) == st[k], #name " mdspan " #P ": stride(k)"); } \
  if ((R > 0 || ISLS_##P) && in_range(ix, ev, R)) { const unsigned long o = ref_map(ix, st, R); VF_ASSERT(o < rss, #name " mdspan " #P ": the closed-form offset lies inside the object"); \
    VF_ASSERT(name##_m##P##_at(&md, ix) == buf + o, #name " mdspan " #P ": &m(i...) == data_handle() + closed-form offset"); \
    VF_ASSERT(name##_m##P##_at_arr(&md, ix) == buf + o, #name " mdspan " #P ": &m[array{i...}] == data_handle() + closed-form offset"); \
    VF_ASSERT(name##_m##P##_at_span(&md, ix) == buf + o, #name " mdspan " #P ": &m[span{i...}] == data_handle() + closed-form offset"); } }
#if VF_PART == 2
#define VP(name, R, A, B, C, sfx) CHK_MD(name, R, A, B, C, sfx, ll) CHK_MD(name, R, A, B, C, sfx, lr)
#else
#define VP(name, R, A, B, C, sfx) CHK_MD(name, R, A, B, C, sfx, ls)
#endif
#include "patterns.def"
#undef VP
#define MD_BODY VF_INPUT(unsigned char, which); SYM3(unsigned char, dv); SYM3(unsigned char, ds); SYM3(unsigned char, di); VF_INPUT(unsigned char, k); \
  for (int q = 0; q < 3; ++q) __CPROVER_assume(dv[q] <= 4 && di[q] <= 4 && ds[q] <= 16); WIDEN3(v, dv); WIDEN3(s, ds); WIDEN3(ix, di);
#endif

/*@GROUP name=mdspan_left props=C19,C02,C05 kind=B bound=extent<=4 unwind=5 objbits=14 timeout=1500 when=VF_PART==2@*/
void h_mdspan_left(void) { MD_BODY
#define VP(name, R, A, B, C, sfx) if (which == IDX_##name) md_ll_##name(v, s, ix, k);
#include "patterns.def"
#undef VP
  VF_REACH(); }

/*@GROUP name=mdspan_right props=C19,C02,C05 kind=B bound=extent<=4 unwind=5 objbits=14 timeout=1500 when=VF_PART==2@*/
void h_mdspan_right(void) { MD_BODY
#define VP(name, R, A, B, C, sfx) if (which == IDX_##name) md_lr_##name(v, s, ix, k);
#include "patterns.def"
#undef VP
  VF_REACH(); }

/*@GROUP name=mdspan_stride_r012 props=C19,C02,C05 kind=B bound=extent<=4,stride<=16 unwind=5 objbits=14 timeout=1500 when=VF_PART==5@*/
void h_mdspan_stride_r012(void) { MD_BODY
#define VP(name, R, A, B, C, sfx) if (R <= 2 && which == IDX_##name) md_ls_##name(v, s, ix, k);
#include "patterns.def"
#undef VP
  VF_REACH(); }

/*@GROUP name=mdspan_stride_r3 props=C19,C02,C05 kind=B bound=extent<=4,stride<=16 unwind=5 objbits=14 timeout=1500 when=VF_PART==5@*/
void h_mdspan_stride_r3(void) { MD_BODY
#define VP(name, R, A, B, C, sfx) if (R == 3 && which == IDX_##name) md_ls_##name(v, s, ix, k);
#include "patterns.def"
#undef VP
  VF_REACH(); }

/*@COMMON@*/
#if VF_PART == 2
/* ---- mdspan constructors (no products: full non-negative domain; the pointer is only stored) ---------------------------------------- */
#define CHK_MDC(name, R, A, B, C, sfx, P) \
static void mdc_##P##_##name(int *buf, const IT *v, unsigned char op) { const pat_t p = {R, {A, B, C}}; MDT_##P(sfx) md, src; MAPT_##P(sfx) m; ETYPE(sfx) e; IT ev[3], pv[3], junk[3] = {1, 1, 1}; p_vals(p, v, ev); p_pack(p, ev, pv); \
  md._ptr = 0; P_SET(IT, &md._map, p, junk); P_SET(IT, &m, p, ev); P_SET(IT, &e, p, ev); src._ptr = buf; P_SET(IT, &src._map, p, ev); \
  if (op == 0) name##_m##P##_ctor_map(&md, buf, &m); else if (op == 1) name##_m##P##_ctor_ext(&md, buf, &e); else if (op == 2) name##_m##P##_ctor_dyn(&md, buf, pv); \
  else if (op == 3) name##_m##P##_ctor_arr(&md, buf, pv); else if (op == 4) name##_m##P##_ctor_span(&md, buf, pv); else name##_m##P##_copy(&md, &src); \
  VF_ASSERT(md._ptr == buf && p_holds(p, &md._map, ev), #name " mdspan " #P ": the constructor stores the pointer and the extents"); }
#define VP(name, R, A, B, C, sfx) CHK_MDC(name, R, A, B, C, sfx, ll) CHK_MDC(name, R, A, B, C, sfx, lr)
#include "patterns.def"
#undef VP
#endif

/*@GROUP name=mdspan_ctor props=C19,C02 kind=K unwind=5 objbits=14 timeout=1500 when=VF_PART==2@*/
void h_mdspan_ctor(void) { VF_INPUT(unsigned char, which); SYM3(IT, v); VF_INPUT(unsigned char, op); VF_INPUT_BOOL(right); VF_INPUT_ARR(int, store, 2); __CPROVER_assume(op <= 5); for (int q = 0; q < 3; ++q) __CPROVER_assume(NONNEG(v[q]));
#define VP(name, R, A, B, C, sfx) if (which == IDX_##name) { if (right) mdc_lr_##name(store, v, op); else mdc_ll_##name(store, v, op); }
#include "patterns.def"
#undef VP
  VF_REACH(); }

/*@COMMON@*/
#if VF_PART == 8
/* ---- mdspan<T, Dst, L>(mdspan<U, Src, L> const&) for every (source, destination) pattern pair ([mdspan.mdspan.cons]/17-21): data_handle() is the source's,
 * extent(r) == source extent(r) for every r.  mode 0: int -> int const; 1: int -> int const with source index type long; int const -> int must not exist.
 * The source object is a raw image {data handle; run-time extents; (tail: empty accessor, padding)} for the symbolic source pattern. */
#define CHK_MDV(name, R, A, B, C, sfx, P) \
static void mdv_##P##_##name(unsigned char src, int *buf, const IT *v, unsigned char mode) { const pat_t dp = {R, {A, B, C}}; const pat_t sp = vf_pats[src]; IT ev[3], out[3] = {9, 9, 9}; const int *cp = 0, *cat = 0; int *mp = 0; \
  struct { int *ptr; IT raw[3]; unsigned char tail[16]; } s; struct { int *ptr; long raw[3]; unsigned char tail[16]; } os; \
  p_vals(sp, v, ev); const _Bool ok = p_conv_ok(sp, dp); CONV_PRE(ok, dp, ev); s.ptr = buf; os.ptr = buf; for (int q = 0; q < 3; ++q) { s.raw[q] = 7; os.raw[q] = 7; } P_SET(IT, s.raw, sp, ev); P_SET(long, os.raw, sp, ev); \
  const unsigned r = mode == 0 ? name##_m##P##_conv_c(src, &s, &cp, out, 0, &cat) : name##_m##P##_conv_o(src, &os, &cp, out, 0, &cat); \
  VF_ASSERT((r & 1) == ok, #name " mdspan " #P ": mdspan(mdspan<Other> const&) exists iff the extents are convertible"); \
  VF_ASSERT(name##_m##P##_conv_drop_const(src, &s, &mp, out) == 0, #name " mdspan " #P ": no conversion from mdspan<int const> to mdspan<int>"); \
  if (ok) { VF_ASSERT(((r >> 1) & 1) == !(p_conv_narrow(sp, dp) || (mode == 1 && OT_WIDER)), #name " mdspan " #P ": the converting constructor is explicit iff the extents conversion is"); \
    VF_ASSERT(cp == buf, #name " mdspan " #P ": mdspan(mdspan<Other> const&): data_handle() == source data_handle()"); \
    for (int q = 0; q < R; ++q) VF_ASSERT(out[q] == ev[q], #name " mdspan " #P ": extent(r) of the converted mdspan == source extent(r) for every r"); } }
#define VP(name, R, A, B, C, sfx) CHK_MDV(name, R, A, B, C, sfx, ll) CHK_MDV(name, R, A, B, C, sfx, lr)
#include "patterns.def"
#undef VP
#define MDV_BODY VF_INPUT(unsigned char, which); VF_INPUT(unsigned char, src); SYM3(IT, v); VF_INPUT(unsigned char, mode); VF_INPUT_ARR(int, store, 2); __CPROVER_assume(src < NPAT && mode <= 1); \
  for (int q = 0; q < 3; ++q) __CPROVER_assume(NONNEG(v[q]) && (unsigned long)v[q] <= 0x7fffffffffffffffUL);
#endif

/*@GROUP name=mdspan_conv_left props=C19,C02 kind=K unwind=5 objbits=14 timeout=1500 solver=kissat when=VF_PART==8@*/
void h_mdspan_conv_left(void) { MDV_BODY
#define VP(name, R, A, B, C, sfx) if (which == IDX_##name) mdv_ll_##name(src, store, v, mode);
#include "patterns.def"
#undef VP
  VF_REACH(); }

/*@GROUP name=mdspan_conv_right props=C19,C02 kind=K unwind=5 objbits=14 timeout=1500 solver=kissat when=VF_PART==8@*/
void h_mdspan_conv_right(void) { MDV_BODY
#define VP(name, R, A, B, C, sfx) if (which == IDX_##name) mdv_lr_##name(src, store, v, mode);
#include "patterns.def"
#undef VP
  VF_REACH(); }

/*@COMMON@*/
#if VF_PART == 8
/* element access THROUGH the converted view: &dst(i...) == source data_handle() + closed-form offset over the SOURCE extents, i.e. inside the exact-size object
 * of required_span_size() elements the source views (bounded: extents <= 4; also the only place where mdspan<int const, ...>::operator() is exercised) */
#define CHK_MDA(name, R, A, B, C, sfx, P) \
static void mda_##P##_##name(unsigned char src, const IT *v, const IT *ix) { const pat_t dp = {R, {A, B, C}}; const pat_t sp = vf_pats[src]; IT ev[3], out[3] = {9, 9, 9}; unsigned long st[3]; const int *cp = 0, *cat = 0; \
  struct { int *ptr; IT raw[3]; unsigned char tail[16]; } s; p_vals(sp, v, ev); if (!p_conv_ok(sp, dp)) return; CONV_PRE(1, dp, ev); if (!in_range(ix, ev, R)) return; \
  ref_strides_##P(ev, st); const unsigned long rss = ref_size(ev); int *buf = (int *)VF_ALLOC(rss * sizeof(int)); s.ptr = buf; for (int q = 0; q < 3; ++q) s.raw[q] = 7; P_SET(IT, s.raw, sp, ev); \
  const unsigned r = name##_m##P##_conv_c(src, &s, &cp, out, ix, &cat); VF_ASSERT((r & 1) == 1 && cp == buf, #name " mdspan " #P ": converted from every convertible source pattern, same data handle"); \
  VF_ASSERT(ref_map(ix, st, R) < rss && cat == buf + ref_map(ix, st, R), #name " mdspan " #P ": &converted(i...) == source data_handle() + closed-form offset over the source extents (inside the source's elements)"); }
#define VP(name, R, A, B, C, sfx) CHK_MDA(name, R, A, B, C, sfx, ll) CHK_MDA(name, R, A, B, C, sfx, lr)
#include "patterns.def"
#undef VP
#define MDA_BODY VF_INPUT(unsigned char, which); VF_INPUT(unsigned char, src); SYM3(unsigned char, dv); SYM3(unsigned char, di); __CPROVER_assume(src < NPAT); \
  for (int q = 0; q < 3; ++q) __CPROVER_assume(dv[q] <= 4 && di[q] <= 4); WIDEN3(v, dv); WIDEN3(ix, di);
#endif

/*@GROUP name=mdspan_conv_at_left props=C19,C02,C05 kind=B bound=extent<=4 unwind=5 objbits=14 timeout=1500 solver=kissat tier=thorough when=VF_PART==8@*/
void h_mdspan_conv_at_left(void) { MDA_BODY
#define VP(name, R, A, B, C, sfx) if (which == IDX_##name) mda_ll_##name(src, v, ix);
#include "patterns.def"
#undef VP
  VF_REACH(); }

/*@GROUP name=mdspan_conv_at_right props=C19,C02,C05 kind=B bound=extent<=4 unwind=5 objbits=14 timeout=1500 solver=kissat tier=thorough when=VF_PART==8@*/
void h_mdspan_conv_at_right(void) { MDA_BODY
#define VP(name, R, A, B, C, sfx) if (which == IDX_##name) mda_lr_##name(src, v, ix);
#include "patterns.def"
#undef VP
  VF_REACH(); }

/*@COMMON@*/
#if VF_PART == 6
/* ---- linalg::layout_transpose<layout_left/right>::mapping<E> (rank 2): state = the nested mapping over the transposed extents, set directly ----
 * transposed mapping: map(i, j) == nested(j, i); extents() == transposed nested extents; stride(0) == nested.stride(1), stride(1) == nested.stride(0). */
#define TTYPE(L, sfx) struct CAT(CAT(CAT(etl_linalg_layout_transpose_etl_layout_, L), _mapping_etl_extents_), CAT(ITN, sfx))
#define CHK_TR(name, tname, A, B, sfx, tsfx, P, L) \
static void tr_##P##_##name(const IT *v, const IT *w, const IT *ix, const IT *jx, unsigned char k, unsigned char op) { const pat_t p = {2, {A, B, 1}}; const pat_t tp = {2, {B, A, 1}}; TTYPE(L, sfx) t, t2; MTYPE(L, tsfx) n; ETYPE(sfx) e; \
  IT ev[3], tev[3], fv[3], tfv[3], junk[3] = {1, 1, 1}, tix[3] = {ix[1], ix[0], 0}, tjx[3] = {jx[1], jx[0], 0}; unsigned long st[3]; \
  p_vals(p, v, ev); tev[0] = ev[1]; tev[1] = ev[0]; tev[2] = 1; p_vals(p, w, fv); tfv[0] = fv[1]; tfv[1] = fv[0]; tfv[2] = 1; ref_strides_##P(tev, st); \
  P_SET(IT, &t, tp, tev); P_SET(IT, &t2, tp, tfv); \
  if (op == 0) { P_SET(IT, &n, tp, tev); P_SET(IT, &t, tp, junk); name##_t##P##_ctor(&t, &n); VF_ASSERT(p_holds(tp, &t, tev), #name " transpose " #L ": mapping(nested) stores the nested mapping"); \
    P_SET(IT, &n, tp, junk); name##_t##P##_nested(&t, &n); VF_ASSERT(p_holds(tp, &n, tev), #name " transpose " #L ": nested_mapping()"); } \
  else if (op == 1) { P_SET(IT, &e, p, junk); name##_t##P##_extents(&t, &e); VF_ASSERT(p_holds(p, &e, ev), #name " transpose " #L ": extents() are the nested extents transposed"); \
    VF_ASSERT(name##_t##P##_rss(&t) == ref_size(ev), #name " transpose " #L ": required_span_size() == product of the extents"); \
    VF_ASSERT(name##_t##P##_flags(&t) == 0x2d, #name " transpose " #L ": is_(always_)unique / is_(always_)strided forward to the nested mapping (true)"); \
    _Bool eq = ev[0] == fv[0] && ev[1] == fv[1]; VF_ASSERT(name##_t##P##_eq(&t, &t2) == eq, #name " transpose " #L ": operator== <=> equal extents"); } \
  else if (op == 2) { if (in_range(ix, ev, 2)) { unsigned long o = name##_t##P##_map(&t, ix[0], ix[1]); VF_ASSERT(o == ref_map(tix, st, 2), #name " transpose " #L ": map(i, j) == nested closed form at (j, i)"); \
      VF_ASSERT(o < ref_size(ev), #name " transpose " #L ": map(i, j) < required_span_size()"); \
      if (in_range(jx, ev, 2) && differ(ix, jx, 2)) VF_ASSERT(name##_t##P##_map(&t, jx[0], jx[1]) != o, #name " transpose " #L ": injective"); } } \
  else { if (k < 2) VF_ASSERT(name##_t##P##_stride(&t, k) == st[1 - k], #name " transpose " #L ": stride(k) == nested stride of the other dimension"); } }
#define VT(name, tname, A, B, sfx, tsfx) CHK_TR(name, tname, A, B, sfx, tsfx, ll, left) CHK_TR(name, tname, A, B, sfx, tsfx, lr, right)
#include "transpose.def"
#undef VT
enum {
#define VT(name, tname, A, B, sfx, tsfx) TIDX_##name,
#include "transpose.def"
#undef VT
  NTR };
#define TR_BODY VF_INPUT(unsigned char, which); SYM3(unsigned char, dv); SYM3(unsigned char, dw); SYM3(unsigned char, di); SYM3(unsigned char, dj); VF_INPUT(unsigned char, k); VF_INPUT(unsigned char, op); __CPROVER_assume(op <= 3); \
  for (int q = 0; q < 3; ++q) __CPROVER_assume(dv[q] <= 4 && dw[q] <= 4 && di[q] <= 4 && dj[q] <= 4); WIDEN3(v, dv); WIDEN3(w, dw); WIDEN3(ix, di); WIDEN3(jx, dj);
#endif

/*@GROUP name=transpose_left props=C19,C02,C05 kind=B bound=extent<=4 unwind=5 objbits=14 timeout=1500 when=VF_PART==6@*/
void h_transpose_left(void) { TR_BODY
  VF_KNOWN(C19_transpose_stride_index, op == 3 && k < 2);
#define VT(name, tname, A, B, sfx, tsfx) if (which == TIDX_##name) tr_ll_##name(v, w, ix, jx, k, op);
#include "transpose.def"
#undef VT
  VF_REACH(); }

/*@GROUP name=transpose_right props=C19,C02,C05 kind=B bound=extent<=4 unwind=5 objbits=14 timeout=1500 when=VF_PART==6@*/
void h_transpose_right(void) { TR_BODY
  VF_KNOWN(C19_transpose_stride_index, op == 3 && k < 2);
#define VT(name, tname, A, B, sfx, tsfx) if (which == TIDX_##name) tr_lr_##name(v, w, ix, jx, k, op);
#include "transpose.def"
#undef VT
  VF_REACH(); }

/*@COMMON@*/
#if VF_PART == 6
/* ---- submdspan_extents(extents, slices...): full_extent keeps the extent (static stays static), an integer slice drops the dimension ---- */
static _Bool sub_is(unsigned long r, const unsigned long *se, const IT *ext, unsigned long xr, unsigned long s0, IT e0, unsigned long s1, IT e1, unsigned long s2, IT e2) {
  const unsigned long xs[3] = {s0, s1, s2}; const IT xe[3] = {e0, e1, e2}; if (r != xr) return 0; for (int q = 0; q < 3; ++q) if ((unsigned long)q < xr && (se[q] != xs[q] || ext[q] != xe[q])) return 0; return 1; }
#endif

/*@GROUP name=submdspan_extents props=C19,C02 kind=K unwind=5 when=VF_PART==6@*/
void h_submdspan_extents(void) { VF_INPUT(unsigned char, sel); SYM3(IT, v); VF_INPUT(IT, i); unsigned long se[3] = {7, 7, 7}; IT ext[3] = {7, 7, 7}; unsigned long r;
  for (int q = 0; q < 3; ++q) __CPROVER_assume(NONNEG(v[q])); __CPROVER_assume(NONNEG(i)); __CPROVER_assume(sel <= 13);
  const pat_t dd = {2, {DYNV, DYNV, 1}}, ddd = {3, {DYNV, DYNV, DYNV}}, p3d = {2, {3, DYNV, 1}}, p3d1 = {3, {3, DYNV, 1}};
  DETYPE(2) edd; P_SET(IT, &edd, dd, v); DETYPE(3) eddd; P_SET(IT, &eddd, ddd, v); ETYPE(_3_18446744073709551615) e3d; P_SET(IT, &e3d, p3d, v); ETYPE(_3_18446744073709551615_1) e3d1; P_SET(IT, &e3d1, p3d1, v); ETYPE(_3_3) e33; ETYPE(_3_1) e31; ETYPE(_3_3_3) e333;
  /* the result type lists the kept static extents in REVERSE order and is constructed from all kept extents (submdspan_extents.hpp:55-60, 79): wrong whenever the
   * kept static pattern is not a palindrome; with a mix of static and dynamic kept extents the rank()-argument extents constructor also writes out of bounds */
  VF_KNOWN(C19_submdspan_extents_reversed, sel == 5 || sel == 7 || sel == 12);
  if (sel == 0) { __CPROVER_assume(1); r = sub_edd_ff(&edd, se, ext); VF_ASSERT(sub_is(r, se, ext, 2, DYNV, v[0], DYNV, v[1], 0, 0), "submdspan_extents(dextents<2>, full, full)"); }
  else if (sel == 1) { __CPROVER_assume(i < v[0]); r = sub_edd_if(&edd, i, se, ext); VF_ASSERT(sub_is(r, se, ext, 1, DYNV, v[1], 0, 0, 0, 0), "submdspan_extents(dextents<2>, i, full)"); }
  else if (sel == 2) { __CPROVER_assume(i < v[1]); r = sub_edd_fi(&edd, i, se, ext); VF_ASSERT(sub_is(r, se, ext, 1, DYNV, v[0], 0, 0, 0, 0), "submdspan_extents(dextents<2>, full, i)"); }
  else if (sel == 3) { __CPROVER_assume(i < v[0] && i < v[1]); r = sub_edd_ii(&edd, i, se, ext); VF_ASSERT(r == 0, "submdspan_extents(dextents<2>, i, i) has rank 0"); }
  else if (sel == 4) { r = sub_e33_ff(&e33, se, ext); VF_ASSERT(sub_is(r, se, ext, 2, 3, 3, 3, 3, 0, 0), "submdspan_extents(extents<3,3>, full, full)"); }
  else if (sel == 5) { r = sub_e31_ff(&e31, se, ext); VF_ASSERT(sub_is(r, se, ext, 2, 3, 3, 1, 1, 0, 0), "submdspan_extents(extents<3,1>, full, full) is extents<3,1>"); }
  else if (sel == 6) { __CPROVER_assume(i < 3); r = sub_e31_if(&e31, i, se, ext); VF_ASSERT(sub_is(r, se, ext, 1, 1, 1, 0, 0, 0, 0), "submdspan_extents(extents<3,1>, i, full) is extents<1>"); }
  else if (sel == 7) { r = sub_e3d_ff(&e3d, se, ext); VF_ASSERT(sub_is(r, se, ext, 2, 3, 3, DYNV, v[1], 0, 0), "submdspan_extents(extents<3,dyn>, full, full) is extents<3,dyn>"); }
  else if (sel == 8) { __CPROVER_assume(i < 3); r = sub_e3d_if(&e3d, i, se, ext); VF_ASSERT(sub_is(r, se, ext, 1, DYNV, v[1], 0, 0, 0, 0), "submdspan_extents(extents<3,dyn>, i, full) is extents<dyn>"); }
  else if (sel == 9) { __CPROVER_assume(i < v[1]); r = sub_e3d_fi(&e3d, i, se, ext); VF_ASSERT(sub_is(r, se, ext, 1, 3, 3, 0, 0, 0, 0), "submdspan_extents(extents<3,dyn>, full, i) is extents<3>"); }
  else if (sel == 10) { r = sub_eddd_fff(&eddd, se, ext); VF_ASSERT(sub_is(r, se, ext, 3, DYNV, v[0], DYNV, v[1], DYNV, v[2]), "submdspan_extents(dextents<3>, full, full, full)"); }
  else if (sel == 11) { __CPROVER_assume(i < v[1]); r = sub_eddd_fif(&eddd, i, se, ext); VF_ASSERT(sub_is(r, se, ext, 2, DYNV, v[0], DYNV, v[2], 0, 0), "submdspan_extents(dextents<3>, full, i, full)"); }
  else if (sel == 12) { __CPROVER_assume(i < v[1]); r = sub_e3d1_fif(&e3d1, i, se, ext); VF_ASSERT(sub_is(r, se, ext, 2, 3, 3, 1, 1, 0, 0), "submdspan_extents(extents<3,dyn,1>, full, i, full) is extents<3,1>"); }
  else { r = sub_e333_fff(&e333, se, ext); VF_ASSERT(sub_is(r, se, ext, 3, 3, 3, 3, 3, 3, 3), "submdspan_extents(extents<3,3,3>, full, full, full)"); }
  VF_REACH(); }

/*@COMMON@*/
#if VF_PART == 3 || VF_PART == 4
/* ---- C05: mapping::stride(r) with r >= rank() (layout_left.hpp:75, layout_right.hpp:78, layout_stride.hpp:62) ------------------------- */
#if VF_PART == 3
#define CHK_VSTR(name, R, A, B, C, sfx) \
static void vstr_##name(const IT *v, unsigned long r, unsigned char lay) { const pat_t p = {R, {A, B, C}}; MTYPE(left, sfx) l; MTYPE(right, sfx) g; IT ev[3]; p_vals(p, v, ev); \
  P_SET(IT, &l, p, ev); P_SET(IT, &g, p, ev); vf_expect_handler = 1; if (lay == 0) name##_ll_stride(&l, r); else name##_lr_stride(&g, r); }
#else
#define CHK_VSTR(name, R, A, B, C, sfx) \
static void vstr_##name(const IT *v, unsigned long r, unsigned char lay) { const pat_t p = {R, {A, B, C}}; SMTYPE(sfx) s; IT ev[3]; p_vals(p, v, ev); \
  P_SET(IT, &s, p, ev); S_SET(s, R, v); vf_expect_handler = 1; name##_ls_stride(&s, r); }
#endif
#define VP CHK_VSTR
#include "patterns.def"
#undef VP
#define VSTR_BODY(minrank) VF_INPUT(unsigned char, which); SYM3(unsigned char, dv); VF_INPUT(unsigned long, r); VF_INPUT(unsigned char, lay); __CPROVER_assume(which < NPAT && lay <= 1); WIDEN3(v, dv); \
  __CPROVER_assume(r >= (unsigned long)vf_pats[which].r && vf_pats[which].r >= minrank);
#endif

/*@GROUP name=viol_stride_rank_lr props=C05,C02 kind=K unwind=5 objbits=14 timeout=1500 when=VF_PART==3@*/
void h_viol_stride_rank_lr(void) { VSTR_BODY(1)   /* rank 0: layout_left/right::stride() does not exist (requires rank() > 0) */
#define VP(name, R, A, B, C, sfx) if (which == IDX_##name) vstr_##name(v, r, lay);
#include "patterns.def"
#undef VP
  VF_NORETURN_EXPECTED(); }

/*@GROUP name=viol_stride_rank_s props=C05,C02 kind=K unwind=5 objbits=14 timeout=1500 when=VF_PART==4@*/
void h_viol_stride_rank_s(void) { VSTR_BODY(0)
#define VP(name, R, A, B, C, sfx) if (which == IDX_##name) vstr_##name(v, r, lay);
#include "patterns.def"
#undef VP
  VF_NORETURN_EXPECTED(); }

/*@GROUP name=viol_array_index props=C05,C02 kind=K unwind=8 when=VF_SAFE@*/
/* array::operator[] carries TETL_PRECONDITION_SAFE(pos < Size): checked in the SAFE configuration only (variant `safe`) */
void h_viol_array_index(void) { VF_INPUT(A4, a); VF_INPUT(unsigned long, i); VF_INPUT_BOOL(cst); __CPROVER_assume(i >= 4);
  vf_expect_handler = 1; vf_a4_of = &a; vf_a4_snap = a; if (cst) a4_cindex(&a, i); else a4_index(&a, i); VF_NORETURN_EXPECTED(); }

/*@GROUP name=array_index props=C19,C02,C05 kind=F when=VF_PART==0@*/
void h_array_index(void) { VF_INPUT(A4, a); VF_INPUT(unsigned char, i); __CPROVER_assume(i < 4);
  VF_ASSERT(a4_index(&a, i) == a._buf + i && a4_cindex(&a, i) == a._buf + i, "array<int,4>: operator[](i) addresses element i (no handler for a valid index, also under SAFE)"); VF_REACH(); }

/* ---- array<int,4> value operations: fill, swap, equality and lexicographic order over fully symbolic contents */
/*@GROUP name=array_values props=C19,C02 kind=K unwind=6 when=VF_PART==0@*/
void h_array_values(void) { VF_INPUT(A4, a); VF_INPUT(A4, b); VF_INPUT(int, v); VF_INPUT(unsigned char, g); __CPROVER_assume(g < 4); A4 a0 = a, b0 = b;
  _Bool eq = 1, lt = 0, decided = 0; for (int i = 0; i < 4; ++i) { if (a._buf[i] != b._buf[i]) eq = 0; if (!decided && a._buf[i] != b._buf[i]) { lt = a._buf[i] < b._buf[i]; decided = 1; } }
  VF_ASSERT(a4_eq(&a, &b) == eq, "array == compares every element");
  VF_ASSERT(a4_lt(&a, &b) == lt, "array < is the lexicographic order (first differing element decides)");
  a4_swap(&a, &b); VF_ASSERT(a._buf[g] == b0._buf[g] && b._buf[g] == a0._buf[g], "array::swap exchanges every element");
  a4_fill(&a, &v); VF_ASSERT(a._buf[g] == v && b._buf[g] == a0._buf[g], "array::fill assigns the value to every element and touches nothing else");
  VF_REACH(); }
