/* views: span / array / extents / layout mappings / mdspan / mdarray address exactly the elements they span — C19 (+C05, C02).
 * span: the view is placed over an EXACT-size heap object (VF_BUF): any address outside [p, p+n) is a bounds failure. */
typedef struct etl_span_int_18446744073709551615 SD;
typedef struct etl_span_int_4 S4;
typedef struct etl_span_int_0 S0;
typedef struct etl_array_int_4 A4;
typedef struct etl_array_int_0 A0;
#define DYNV 18446744073709551615UL
/* C05 snapshot: the view object and the viewed elements are unmodified when the handler runs */
const SD *vf_sd_of; SD vf_sd_snap; const S4 *vf_s4_of; S4 vf_s4_snap; const A4 *vf_a4_of; A4 vf_a4_snap; const int *vf_buf_of, *vf_buf_in; unsigned long vf_buf_n;
#define VF_HANDLER_CHECK() do { _Bool same = 1; \
    if (vf_sd_of) same = same && vf_sd_of->_storage._data == vf_sd_snap._storage._data && vf_sd_of->_storage._size == vf_sd_snap._storage._size; \
    if (vf_s4_of) same = same && vf_s4_of->_storage._data == vf_s4_snap._storage._data; \
    if (vf_a4_of) for (int k_ = 0; k_ < 4; ++k_) same = same && vf_a4_of->_buf[k_] == vf_a4_snap._buf[k_]; \
    if (vf_buf_of) for (unsigned long k_ = 0; k_ < vf_buf_n; ++k_) same = same && vf_buf_of[k_] == vf_buf_in[k_]; \
    __CPROVER_assert(same, "C05: the view and the viewed elements are unmodified when the assertion handler runs"); } while (0)
#define EXPECT_VIOLATION_BUF(p, n) do { vf_expect_handler = 1; vf_buf_of = (p); vf_buf_in = p##_in; vf_buf_n = (n); } while (0)
#include "vf_handler.h"
#define MKSD(s, p, n) SD s; s._storage._data = (p); s._storage._size = (n)
#define MKS4(s, p) S4 s; s._storage._data = (p)
#define INSIDE(d, m, p, n) ((d) >= (p) && (m) <= (unsigned long)(n) && (d) + (m) <= (p) + (n))
#define SUBIS(call, xd, xn, xe) do { int *d_ = 0; unsigned long n_ = 99, e_ = (call); VF_ASSERT(d_ == (xd) && n_ == (unsigned long)(xn), #call ": data() == original data() + offset and size() == count"); \
    VF_ASSERT(e_ == (unsigned long)(xe), #call ": the static extent of the result type"); VF_ASSERT(INSIDE(d_, n_, p, n), #call ": the result lies inside the original range"); } while (0)
#define OUT &d_, &n_

/*@GROUP name=span_dyn_obs props=C19,C02,C05 kind=K unwind=8 bound=len<=6@*/
void h_span_dyn_obs(void) { VF_INPUT(unsigned char, n); VF_BUF(int, p, n, 6); VF_INPUT(unsigned char, i); MKSD(s, p, n);
  VF_ASSERT(sd_data(&s) == p && sd_size(&s) == n && sd_size_bytes(&s) == 4UL * n && sd_empty(&s) == (n == 0) && sd_extent() == DYNV, "span<int>: data/size/size_bytes/empty/extent");
  VF_ASSERT(sd_begin(&s) == p && sd_end(&s) == p + n && sd_rbegin_base(&s) == p + n && sd_rend_base(&s) == p, "span<int>: begin/end, rbegin().base() == end(), rend().base() == begin()");
  if (n > 0) VF_ASSERT(sd_front(&s) == p && sd_back(&s) == p + (n - 1), "span<int>: front/back address the first/last element");
  if (i < n) VF_ASSERT(sd_index(&s, i) == p + i, "span<int>: operator[](i) addresses element i");
  { const unsigned char *bd = 0; unsigned long bn = 99; unsigned long be = sd_as_bytes(&s, &bd, &bn); VF_ASSERT(bd == (const unsigned char *)p && bn == 4UL * n && be == DYNV, "as_bytes(span<int>): same address, size_bytes() bytes, dynamic extent"); }
  { unsigned char *bd = 0; unsigned long bn = 99; unsigned long be = sd_as_wbytes(&s, &bd, &bn); VF_ASSERT(bd == (unsigned char *)p && bn == 4UL * n && be == DYNV, "as_writable_bytes(span<int>): same address, size_bytes() bytes, dynamic extent"); }
  VF_REACH(); }

/*@GROUP name=span_dyn_sub props=C19,C02,C05 kind=K unwind=8 bound=len<=6@*/
void h_span_dyn_sub(void) { VF_INPUT(unsigned char, n); VF_BUF(int, p, n, 6); VF_INPUT(unsigned char, o); VF_INPUT(unsigned char, c); MKSD(s, p, n);
  if (c <= n) { SUBIS(sd_first_n(&s, c, OUT), p, c, DYNV); SUBIS(sd_last_n(&s, c, OUT), p + (n - c), c, DYNV); }
  if (o <= n) { SUBIS(sd_subspan_o(&s, o, OUT), p + o, n - o, DYNV); SUBIS(sd_subspan_oc(&s, o, DYNV, OUT), p + o, n - o, DYNV); if (c <= n - o) SUBIS(sd_subspan_oc(&s, o, c, OUT), p + o, c, DYNV); }
  SUBIS(sd_first_0(&s, OUT), p, 0, 0); SUBIS(sd_last_0(&s, OUT), p + n, 0, 0); SUBIS(sd_sub_0(&s, OUT), p, n, DYNV); SUBIS(sd_sub_0_0(&s, OUT), p, 0, 0);
  if (n >= 1) { SUBIS(sd_first_1(&s, OUT), p, 1, 1); SUBIS(sd_last_1(&s, OUT), p + (n - 1), 1, 1); SUBIS(sd_sub_1(&s, OUT), p + 1, n - 1, DYNV); }
  if (n >= 2) { SUBIS(sd_first_2(&s, OUT), p, 2, 2); SUBIS(sd_last_2(&s, OUT), p + (n - 2), 2, 2); SUBIS(sd_sub_2(&s, OUT), p + 2, n - 2, DYNV); SUBIS(sd_sub_0_2(&s, OUT), p, 2, 2); }
  if (n >= 3) { SUBIS(sd_sub_1_2(&s, OUT), p + 1, 2, 2); SUBIS(sd_sub_2_1(&s, OUT), p + 2, 1, 1); }
  if (n >= 4) { SUBIS(sd_first_4(&s, OUT), p, 4, 4); SUBIS(sd_last_4(&s, OUT), p + (n - 4), 4, 4); SUBIS(sd_sub_4(&s, OUT), p + 4, n - 4, DYNV); SUBIS(sd_sub_4_0(&s, OUT), p + 4, 0, 0); }
  VF_REACH(); }

/*@GROUP name=span_static props=C19,C02,C05 kind=K unwind=6@*/
void h_span_static(void) { const unsigned long n = 4; VF_BUF(int, p, 4, 4); VF_INPUT(unsigned char, i); VF_INPUT(unsigned char, o); VF_INPUT(unsigned char, c); MKS4(s, p);
  VF_ASSERT(s4_data(&s) == p && s4_size(&s) == 4 && s4_size_bytes(&s) == 16 && !s4_empty(&s) && s4_extent() == 4, "span<int,4>: data/size/size_bytes/empty/extent");
  VF_ASSERT(s4_begin(&s) == p && s4_end(&s) == p + 4 && s4_rbegin_base(&s) == p + 4 && s4_rend_base(&s) == p, "span<int,4>: begin/end/rbegin/rend");
  VF_ASSERT(s4_front(&s) == p && s4_back(&s) == p + 3, "span<int,4>: front/back"); if (i < 4) VF_ASSERT(s4_index(&s, i) == p + i, "span<int,4>: operator[](i) addresses element i");
  if (c <= 4) { SUBIS(s4_first_n(&s, c, OUT), p, c, DYNV); SUBIS(s4_last_n(&s, c, OUT), p + (4 - c), c, DYNV); }
  if (o <= 4) { SUBIS(s4_subspan_o(&s, o, OUT), p + o, 4 - o, DYNV); SUBIS(s4_subspan_oc(&s, o, DYNV, OUT), p + o, 4 - o, DYNV); if (c <= 4 - o) SUBIS(s4_subspan_oc(&s, o, c, OUT), p + o, c, DYNV); }
  SUBIS(s4_first_0(&s, OUT), p, 0, 0); SUBIS(s4_first_1(&s, OUT), p, 1, 1); SUBIS(s4_first_2(&s, OUT), p, 2, 2); SUBIS(s4_first_4(&s, OUT), p, 4, 4);
  SUBIS(s4_last_0(&s, OUT), p + 4, 0, 0); SUBIS(s4_last_1(&s, OUT), p + 3, 1, 1); SUBIS(s4_last_2(&s, OUT), p + 2, 2, 2); SUBIS(s4_last_4(&s, OUT), p, 4, 4);
  SUBIS(s4_sub_0(&s, OUT), p, 4, 4); SUBIS(s4_sub_1(&s, OUT), p + 1, 3, 3); SUBIS(s4_sub_2(&s, OUT), p + 2, 2, 2); SUBIS(s4_sub_4(&s, OUT), p + 4, 0, 0);
  SUBIS(s4_sub_0_0(&s, OUT), p, 0, 0); SUBIS(s4_sub_0_4(&s, OUT), p, 4, 4); SUBIS(s4_sub_1_2(&s, OUT), p + 1, 2, 2); SUBIS(s4_sub_1_3(&s, OUT), p + 1, 3, 3); SUBIS(s4_sub_4_0(&s, OUT), p + 4, 0, 0); SUBIS(s4_sub_2_1(&s, OUT), p + 2, 1, 1);
  VF_REACH(); }

/*@GROUP name=span_ctor props=C19,C02 kind=K unwind=8 bound=len<=6@*/
void h_span_ctor(void) { VF_INPUT(unsigned char, n); VF_BUF(int, p, n, 6); VF_INPUT(A4, arr); VF_INPUT(A0, arr0); VF_INPUT(SD, a); VF_INPUT(SD, b); VF_INPUT(S4, t);
  sd_default(&a); VF_ASSERT(a._storage._data == 0 && a._storage._size == 0, "span(): data() == nullptr, size() == 0");
  sd_ctor_ptr_n(&a, p, n); VF_ASSERT(a._storage._data == p && a._storage._size == n, "span(ptr, count)");
  sd_copy(&b, &a); VF_ASSERT(b._storage._data == p && b._storage._size == n, "span(span const&)");
  sd_ctor_array(&a, &arr); VF_ASSERT(a._storage._data == arr._buf && a._storage._size == 4, "span<int>(array<int,4>&) views the array's elements");
  sd_ctor_carr(&a, &arr._buf); VF_ASSERT(a._storage._data == arr._buf && a._storage._size == 4, "span<int>(int(&)[4])");
  s4_ctor_array(&t, &arr); VF_ASSERT(t._storage._data == arr._buf, "span<int,4>(array<int,4>&)"); sd_ctor_s4(&a, &t); VF_ASSERT(a._storage._data == arr._buf && a._storage._size == 4, "span<int>(span<int,4>)");
  s4_ctor_carr(&t, &arr._buf); VF_ASSERT(t._storage._data == arr._buf, "span<int,4>(int(&)[4])");
  { struct etl_span_constint_4 ct; VF_ASSERT(cs4_ctor_carray(&ct, &arr) == 4 && ct._storage._data == arr._buf, "span<int const,4>(array<int,4> const&)"); }
  if (n == 4) { s4_ctor_ptr_n(&t, p, n); VF_ASSERT(t._storage._data == p, "span<int,4>(ptr, 4)"); sd_ctor_ptr_n(&a, p, n); s4_ctor_sd(&t, &a); VF_ASSERT(t._storage._data == p, "span<int,4>(span<int>) of size 4"); }
  { int *d = p; unsigned long m = 9; VF_ASSERT(s0_ctor_array(&d, &m, &arr0) == 0 && m == 0 && d == 0, "span<int,0>(array<int,0>&): empty, extent 0"); }
  { int *d = 0; unsigned long m = 9; VF_ASSERT(ctad_carr(&d, &m, &arr._buf) == 4 && m == 4 && d == arr._buf, "span(int(&)[4]) deduces extent 4"); }
  { int *d = 0; unsigned long m = 9; VF_ASSERT(ctad_array(&d, &m, &arr) == 4 && m == 4 && d == arr._buf, "span(array<int,4>&) deduces extent 4"); }
  VF_ASSERT(a4_data(&arr) == arr._buf && a4_begin(&arr) == arr._buf && a4_end(&arr) == arr._buf + 4 && a4_front(&arr) == arr._buf && a4_back(&arr) == arr._buf + 3 && a4_size(&arr) == 4 && !a4_empty(&arr), "array<int,4>: data/begin/end/front/back/size/empty");
  VF_ASSERT(a0_begin(&arr0) == a0_end(&arr0) && a0_size(&arr0) == 0 && a0_empty(&arr0), "array<int,0>: begin() == end(), size 0, empty");
  VF_REACH(); }

/* ---- C05: span ---------------------------------------------------------------------------------------------------- */
/*@GROUP name=viol_span_index props=C05,C02 kind=K unwind=8 bound=len<=6@*/
void h_viol_span_index(void) { VF_INPUT(unsigned char, n); VF_BUF(int, p, n, 6); VF_INPUT(unsigned long, i); VF_INPUT(unsigned char, op); MKSD(s, p, n); MKS4(t, p); S0 z; z._storage._data = p;
  EXPECT_VIOLATION_BUF(p, n); vf_sd_of = &s; vf_sd_snap = s; vf_s4_of = &t; vf_s4_snap = t;
  if (op == 0) { __CPROVER_assume(i >= n); sd_index(&s, i); }
  else if (op == 1) { __CPROVER_assume(n == 4 && i >= 4); s4_index(&t, i); }
  else if (op == 2) { __CPROVER_assume(n == 0); sd_front(&s); }
  else if (op == 3) { __CPROVER_assume(n == 0); sd_back(&s); }
  else if (op == 4) s0_front(&z); else if (op == 5) s0_back(&z); else s0_index(&z, i);
  VF_NORETURN_EXPECTED(); }

/*@GROUP name=viol_span_sub props=C05,C02 kind=K unwind=8 bound=len<=6@*/
void h_viol_span_sub(void) { VF_INPUT(unsigned char, n); VF_BUF(int, p, n, 6); VF_INPUT(unsigned long, o); VF_INPUT(unsigned long, c); VF_INPUT(unsigned char, op); VF_INPUT_BOOL(st); MKSD(s, p, n); MKS4(t, p);
  int *d = 0; unsigned long m = 0; if (st) __CPROVER_assume(n == 4);
  EXPECT_VIOLATION_BUF(p, n); vf_sd_of = &s; vf_sd_snap = s; vf_s4_of = &t; vf_s4_snap = t;
  if (op == 0) { __CPROVER_assume(c > n); if (st) s4_first_n(&t, c, &d, &m); else sd_first_n(&s, c, &d, &m); }
  else if (op == 1) { __CPROVER_assume(c > n); if (st) s4_last_n(&t, c, &d, &m); else sd_last_n(&s, c, &d, &m); }
  else if (op == 2) { __CPROVER_assume(o > n); if (st) s4_subspan_oc(&t, o, c, &d, &m); else sd_subspan_oc(&s, o, c, &d, &m); }
  else if (op == 3) { __CPROVER_assume(o > n); if (st) s4_subspan_o(&t, o, &d, &m); else sd_subspan_o(&s, o, &d, &m); }
  else { __CPROVER_assume(o <= n && c != DYNV && c > n - o); if (st) s4_subspan_oc(&t, o, c, &d, &m); else sd_subspan_oc(&s, o, c, &d, &m); }
  VF_NORETURN_EXPECTED(); }

/*@GROUP name=viol_span_tmpl props=C05,C02 kind=K unwind=8 bound=len<=6@*/
void h_viol_span_tmpl(void) { VF_INPUT(unsigned char, n); VF_BUF(int, p, n, 6); VF_INPUT(unsigned char, op); MKSD(s, p, n); int *d = 0; unsigned long m = 0;
  /* [span.sub]: first<C>/last<C>/subspan<O,C> on a dynamic-extent span require C <= size() resp. O <= size() && C <= size() - O */
  VF_KNOWN(C05_span_tmpl_count_unchecked, op <= 5);
  EXPECT_VIOLATION_BUF(p, n); vf_sd_of = &s; vf_sd_snap = s;
  if (op == 0) { __CPROVER_assume(n < 2); sd_first_2(&s, &d, &m); }
  else if (op == 1) { __CPROVER_assume(n < 2); sd_last_2(&s, &d, &m); }
  else if (op == 2) { __CPROVER_assume(n < 2); sd_sub_2(&s, &d, &m); }
  else if (op == 3) { __CPROVER_assume(n < 3); sd_sub_1_2(&s, &d, &m); }
  else if (op == 4) { __CPROVER_assume(n < 4); sd_first_4(&s, &d, &m); }
  else if (op == 5) { __CPROVER_assume(n < 4); sd_sub_4_0(&s, &d, &m); }
  else sd_first_n(&s, 7, &d, &m); /* control: the run-time count form is checked (keeps the handler reachable in this group) */
  VF_NORETURN_EXPECTED(); }
