// driver: <cstring>, <cwchar>, <cctype>, <cwctype>, div/labs/llabs reimplementations (C18)
#include <etl/cstring.hpp>
#include <etl/cwchar.hpp>
#include <etl/cctype.hpp>
#include <etl/cwctype.hpp>
#include <etl/cstdlib.hpp>
#define VF_E extern "C"
namespace vf {
using size_type = etl::size_t;
VF_E size_type c_strlen(char const* s) { return etl::strlen(s); }
VF_E int c_strcmp(char const* a, char const* b) { return etl::strcmp(a, b); }
VF_E int c_strncmp(char const* a, char const* b, size_type n) { return etl::strncmp(a, b, n); }
VF_E char* c_strcpy(char* d, char const* s) { return etl::strcpy(d, s); }
VF_E char* c_strncpy(char* d, char const* s, size_type n) { return etl::strncpy(d, s, n); }
VF_E char* c_strcat(char* d, char const* s) { return etl::strcat(d, s); }
VF_E char* c_strncat(char* d, char const* s, size_type n) { return etl::strncat(d, s, n); }
VF_E char const* c_strchr(char const* s, int ch) { return etl::strchr(s, ch); }
VF_E char* c_strchr_m(char* s, int ch) { return etl::strchr(s, ch); }
VF_E char const* c_strrchr(char const* s, int ch) { return etl::strrchr(s, ch); }
VF_E size_type c_strspn(char const* s, char const* a) { return etl::strspn(s, a); }
VF_E size_type c_strcspn(char const* s, char const* a) { return etl::strcspn(s, a); }
VF_E char const* c_strpbrk(char const* s, char const* a) { return etl::strpbrk(s, a); }
VF_E char const* c_strstr(char const* h, char const* n) { return etl::strstr(h, n); }
VF_E void* c_memcpy(void* d, void const* s, size_type n) { return etl::memcpy(d, s, n); }
VF_E void* c_memmove(void* d, void const* s, size_type n) { return etl::memmove(d, s, n); }
VF_E void* c_memset(void* d, int c, size_type n) { return etl::memset(d, c, n); }
VF_E int c_memcmp(void const* a, void const* b, size_type n) { return etl::memcmp(a, b, n); }
VF_E void const* c_memchr(void const* p, int c, size_type n) { return etl::memchr(p, c, n); }
// the non-const overloads are separate function bodies
VF_E void* c_memchr_m(void* p, int c, size_type n) { return etl::memchr(p, c, n); }
VF_E char* c_strrchr_m(char* s, int ch) { return etl::strrchr(s, ch); }

VF_E size_type w_wcslen(wchar_t const* s) { return etl::wcslen(s); }
VF_E int w_wcscmp(wchar_t const* a, wchar_t const* b) { return etl::wcscmp(a, b); }
VF_E int w_wcsncmp(wchar_t const* a, wchar_t const* b, size_type n) { return etl::wcsncmp(a, b, n); }
VF_E wchar_t* w_wcscpy(wchar_t* d, wchar_t const* s) { return etl::wcscpy(d, s); }
VF_E wchar_t* w_wcsncpy(wchar_t* d, wchar_t const* s, size_type n) { return etl::wcsncpy(d, s, n); }
VF_E wchar_t* w_wcscat(wchar_t* d, wchar_t const* s) { return etl::wcscat(d, s); }
VF_E wchar_t* w_wcsncat(wchar_t* d, wchar_t const* s, size_type n) { return etl::wcsncat(d, s, n); }
VF_E wchar_t const* w_wcschr(wchar_t const* s, int ch) { return etl::wcschr(s, ch); }
VF_E wchar_t const* w_wcsrchr(wchar_t const* s, int ch) { return etl::wcsrchr(s, ch); }
VF_E size_type w_wcsspn(wchar_t const* s, wchar_t const* a) { return etl::wcsspn(s, a); }
VF_E size_type w_wcscspn(wchar_t const* s, wchar_t const* a) { return etl::wcscspn(s, a); }
VF_E wchar_t const* w_wcspbrk(wchar_t const* s, wchar_t const* a) { return etl::wcspbrk(s, a); }
VF_E wchar_t const* w_wcsstr(wchar_t const* h, wchar_t const* n) { return etl::wcsstr(h, n); }
VF_E wchar_t* w_wmemcpy(wchar_t* d, wchar_t const* s, size_type n) { return etl::wmemcpy(d, s, n); }
VF_E wchar_t* w_wmemmove(wchar_t* d, wchar_t const* s, size_type n) { return etl::wmemmove(d, s, n); }
VF_E wchar_t* w_wmemset(wchar_t* d, wchar_t c, size_type n) { return etl::wmemset(d, c, n); }
VF_E int w_wmemcmp(wchar_t const* a, wchar_t const* b, size_type n) { return etl::wmemcmp(a, b, n); }
VF_E wchar_t const* w_wmemchr(wchar_t const* p, wchar_t c, size_type n) { return etl::wmemchr(p, c, n); }
VF_E wchar_t* w_wmemchr_m(wchar_t* p, wchar_t c, size_type n) { return etl::wmemchr(p, c, n); }
VF_E wchar_t* w_wcschr_m(wchar_t* s, int ch) { return etl::wcschr(s, ch); }
VF_E wchar_t* w_wcsrchr_m(wchar_t* s, int ch) { return etl::wcsrchr(s, ch); }

#define CT(X) X(isalnum) X(isalpha) X(isblank) X(iscntrl) X(isdigit) X(isgraph) X(islower) X(isprint) X(ispunct) X(isspace) X(isupper) X(isxdigit) X(tolower) X(toupper)
#define X(f) VF_E int ct_##f(int c) { return etl::f(c); }
CT(X)
#undef X
#define WCT(X) X(iswalnum) X(iswalpha) X(iswblank) X(iswcntrl) X(iswdigit) X(iswgraph) X(iswlower) X(iswprint) X(iswpunct) X(iswspace) X(iswupper) X(iswxdigit)
#define X(f) VF_E int ct_##f(unsigned c) { return etl::f(static_cast<etl::wint_t>(c)); }
WCT(X)
#undef X
VF_E unsigned ct_towlower(unsigned c) { return static_cast<unsigned>(etl::towlower(static_cast<etl::wint_t>(c))); }
VF_E unsigned ct_towupper(unsigned c) { return static_cast<unsigned>(etl::towupper(static_cast<etl::wint_t>(c))); }

VF_E void c_div(int x, int y, int* q, int* r) { auto d = etl::div(x, y); *q = d.quot; *r = d.rem; }
VF_E void c_ldiv(long x, long y, long* q, long* r) { auto d = etl::ldiv(x, y); *q = d.quot; *r = d.rem; }
VF_E void c_lldiv(long long x, long long y, long long* q, long long* r) { auto d = etl::lldiv(x, y); *q = d.quot; *r = d.rem; }
VF_E void c_div_l(long x, long y, long* q, long* r) { auto d = etl::div(x, y); *q = d.quot; *r = d.rem; }
VF_E void c_div_ll(long long x, long long y, long long* q, long long* r) { auto d = etl::div(x, y); *q = d.quot; *r = d.rem; }
VF_E long c_labs(long x) { return etl::labs(x); }
VF_E long long c_llabs(long long x) { return etl::llabs(x); }
}
