/* cstr: the C-library reimplementations against ISO C 7.4 / 7.24 / 7.29 semantics in the "C" locale — C18.
 * Strings are EXACT-size heap objects: length L (symbolic, <= LMAX) non-zero characters over the full character range (bytes >= 0x80
 * included) followed by one terminator and nothing else, so reading past the terminator is an out-of-bounds failure.
 * Comparison results are specified by SIGN, on unsigned char for the byte functions as 7.24.4 requires. */
#include "vf_handler.h"
#define LMAX 4
typedef int wch;   /* wchar_t on this target */
#define SGN(x) ((x) < 0 ? -1 : ((x) > 0 ? 1 : 0))
/* a terminated exact-size string s of length len; s##_in is its content array */
#define STR(T, s, len) VF_INPUT(unsigned char, len); __CPROVER_assume(len <= LMAX); VF_BUF(T, s, (unsigned long)len + 1, LMAX + 1); \
    for (int vf_j = 0; vf_j <= LMAX; ++vf_j) { if (vf_j < len) __CPROVER_assume(s##_in[vf_j] != 0); else if (vf_j == len) __CPROVER_assume(s##_in[vf_j] == 0); } s[len] = 0
#define UNW 12

#define GEN(T, UT, P)                                                                                                         \
static int P##r_cmp(const T *a, const T *b, unsigned long n, int stop_at_nul) { for (unsigned long i = 0; i < n && i <= LMAX + 1; ++i) {     \
    UT x = (UT)a[i], y = (UT)b[i]; if (x != y) return x < y ? -1 : 1; if (stop_at_nul && x == 0) return 0; } return 0; }                        \
static long P##r_chr(const T *s, unsigned long len, T c) { for (unsigned long i = 0; i <= len && i <= LMAX + 1; ++i) if (s[i] == c) return (long)i; return -1; } \
static long P##r_rchr(const T *s, unsigned long len, T c) { long r = -1; for (unsigned long i = 0; i <= len && i <= LMAX + 1; ++i) if (s[i] == c) r = (long)i; return r; } \
static int P##r_in(const T *set, unsigned long sl, T c) { for (unsigned long i = 0; i < sl && i <= LMAX; ++i) if (set[i] == c) return 1; return 0; } \
static unsigned long P##r_spn(const T *s, unsigned long len, const T *set, unsigned long sl, int want) { unsigned long i = 0; for (; i < len && i <= LMAX; ++i) if (P##r_in(set, sl, s[i]) != want) break; return i; } \
static long P##r_str(const T *h, unsigned long hl, const T *n, unsigned long nl) { for (unsigned long i = 0; i <= hl && i <= LMAX; ++i) { if (i + nl > hl) break; int ok = 1; \
    for (unsigned long j = 0; j < nl && j <= LMAX; ++j) if (h[i + j] != n[j]) ok = 0; if (ok) return (long)i; } return -1; }
GEN(char, unsigned char, c_)
GEN(wch, wch, w_)

/*@GROUP name=strlen_cmp props=C18,C13,C02 kind=B unwind=8 bound=strlen<=4@*/
void h_strlen_cmp(void) { STR(char, a, la); STR(char, b, lb); VF_INPUT(unsigned long, n); VF_INPUT_BOOL(ce); vf_ce = ce;
  VF_ASSERT(c_strlen(a) == la, "strlen == number of characters before the terminator");
  { int d = 0; while (d < LMAX && a_in[d] == b_in[d] && a_in[d] != 0) ++d;     /* first differing pair */
    VF_KNOWN(C18_strcmp_signed_char, (a_in[d] < 0) != (b_in[d] < 0)); }
  VF_ASSERT(SGN(c_strcmp(a, b)) == c_r_cmp(a_in, b_in, LMAX + 1, 1), "strcmp: sign of the first differing pair compared as unsigned char");
  VF_ASSERT(SGN(c_strncmp(a, b, n)) == c_r_cmp(a_in, b_in, n, 1), "strncmp: at most n characters, stops at the terminator, unsigned char order");
  VF_REACH(); }

/*@GROUP name=strlen_cmp_ascii props=C18,C13,C02 kind=B unwind=8 bound=strlen<=4@*/
void h_strlen_cmp_ascii(void) { STR(char, a, la); STR(char, b, lb); VF_INPUT(unsigned long, n); VF_INPUT_BOOL(ce); vf_ce = ce;
  for (int i = 0; i < LMAX; ++i) __CPROVER_assume(a_in[i] >= 0 && b_in[i] >= 0);      /* 7-bit characters: signedness of char cannot matter */
  VF_ASSERT(c_strlen(a) == la, "strlen == number of characters before the terminator");
  VF_ASSERT(SGN(c_strcmp(a, b)) == c_r_cmp(a_in, b_in, LMAX + 1, 1), "strcmp (7-bit characters): sign of the first differing pair");
  VF_ASSERT(SGN(c_strncmp(a, b, n)) == c_r_cmp(a_in, b_in, n, 1), "strncmp (7-bit characters): at most n characters, stops at the terminator");
  VF_REACH(); }

/*@GROUP name=strcpy props=C18,C02 kind=B unwind=8 bound=strlen<=4@*/
void h_strcpy(void) { STR(char, s, ls); VF_INPUT(unsigned char, g); __CPROVER_assume(g <= ls);
  char *d = (char *)VF_ALLOC((unsigned long)ls + 1);           /* exactly strlen+1 bytes */
  char *r = c_strcpy(d, s);
  VF_ASSERT(r == d && d[g] == s_in[g], "strcpy copies the characters and the terminator into exactly strlen+1 bytes, returns dest");
  VF_REACH(); }

/*@GROUP name=strncpy props=C18,C02 kind=B unwind=8 bound=strlen<=4,count<=6@*/
void h_strncpy(void) { STR(char, s, ls); VF_INPUT(unsigned char, n); VF_INPUT(unsigned char, g); __CPROVER_assume(n <= LMAX + 2 && g < n);
  char *d = (char *)VF_ALLOC((unsigned long)n); for (int i = 0; i < LMAX + 2; ++i) if (i < n) d[i] = 0x55;
  VF_KNOWN(C18_strncpy_no_padding, n > ls);
  char *r = c_strncpy(d, s, n);
  VF_ASSERT(r == d && d[g] == (g < ls ? s_in[g] : 0), "strncpy writes exactly n characters: the string, then null padding up to n (7.24.2.4)");
  VF_REACH(); }

/*@GROUP name=strcat props=C18,C02 kind=B unwind=8 bound=strlen<=4@*/
void h_strcat(void) { STR(char, s, ls); VF_INPUT(unsigned char, ld); VF_INPUT(unsigned char, n); VF_INPUT(unsigned char, g); VF_INPUT_BOOL(bounded); VF_INPUT_ARR(char, pre, LMAX);
  __CPROVER_assume(ld <= LMAX && n <= LMAX + 2); unsigned long app = bounded ? (n < ls ? n : ls) : ls; __CPROVER_assume(g <= ld + app);
  char *d = (char *)VF_ALLOC((unsigned long)ld + app + 1);   /* exact fit */
  for (int i = 0; i < LMAX; ++i) if (i < ld) { __CPROVER_assume(pre[i] != 0); d[i] = pre[i]; } d[ld] = 0;
  char *r = bounded ? c_strncat(d, s, n) : c_strcat(d, s);
  VF_ASSERT(r == d && d[g] == (g < ld ? pre[g] : (g < ld + app ? s_in[g - ld] : 0)), "strcat/strncat: dest kept, at most n source characters appended, always terminated, exact-fit buffer");
  VF_REACH(); }

/* strncat appends from an ARRAY (7.24.3.2): the source holds exactly n characters and need not be terminated */
/*@GROUP name=strncat_array props=C18,C02 kind=B unwind=8 bound=count<=4,strlen(dest)<=4@*/
void h_strncat_array(void) { VF_INPUT(unsigned char, n); VF_INPUT(unsigned char, ld); VF_INPUT(unsigned char, g); VF_INPUT_ARR(char, pre, LMAX);
  __CPROVER_assume(ld <= LMAX); VF_BUF(char, s, n, LMAX);       /* exact-size source array, no terminator behind it */
  unsigned long app = 0; while (app < LMAX && app < n && s_in[app] != 0) ++app;     /* appended: up to the first null character, at most n */
  __CPROVER_assume(g <= ld + app);
  char *d = (char *)VF_ALLOC((unsigned long)ld + app + 1);   /* exact fit */
  for (int i = 0; i < LMAX; ++i) if (i < ld) { __CPROVER_assume(pre[i] != 0); d[i] = pre[i]; } d[ld] = 0;
  VF_KNOWN(C18_strncat_reads_src_count, app == n);            /* no null character among the n source characters */
  char *r = c_strncat(d, s, n);
  VF_ASSERT(r == d && d[g] == (g < ld ? pre[g] : (g < ld + app ? s_in[g - ld] : 0)), "strncat from an unterminated array of exactly n characters: at most n appended, result terminated, source not read past its end");
  VF_REACH(); }

/*@GROUP name=strchr props=C18,C13,C02 kind=B unwind=8 bound=strlen<=4@*/
void h_strchr(void) { STR(char, s, ls); VF_INPUT(int, ch); VF_INPUT_BOOL(ce); vf_ce = ce; __CPROVER_assume(ch >= -128 && ch <= 255);
  long e = c_r_chr(s_in, ls, (char)ch), er = c_r_rchr(s_in, ls, (char)ch);
  const char *r = c_strchr(s, ch); VF_ASSERT(e < 0 ? r == 0 : r == s + e, "strchr: first occurrence of (char)ch, the terminator counts, null if absent");
  char *rm = c_strchr_m(s, ch); VF_ASSERT(e < 0 ? rm == 0 : rm == s + e, "strchr (mutable overload)");
  const char *rr = c_strrchr(s, ch); VF_ASSERT(er < 0 ? rr == 0 : rr == s + er, "strrchr: last occurrence of (char)ch, the terminator counts");
  VF_REACH(); }

/*@GROUP name=strspn props=C18,C02 kind=B unwind=8 bound=strlen<=4@*/
void h_strspn(void) { STR(char, s, ls); STR(char, a, la);
  VF_ASSERT(c_strspn(s, a) == c_r_spn(s_in, ls, a_in, la, 1), "strspn: length of the initial segment consisting of characters from the set");
  VF_ASSERT(c_strcspn(s, a) == c_r_spn(s_in, ls, a_in, la, 0), "strcspn: length of the initial segment free of characters from the set");
  unsigned long k = c_r_spn(s_in, ls, a_in, la, 0); VF_KNOWN(C18_strpbrk_no_match, k == ls && ls > 0); const char *r = c_strpbrk(s, a);
  VF_ASSERT(k == ls ? r == 0 : r == s + k, "strpbrk: first character that is in the set, null if none");
  VF_REACH(); }

/*@GROUP name=strstr props=C18,C02 kind=B unwind=8 bound=strlen<=4@*/
void h_strstr(void) { STR(char, h, lh); STR(char, n, ln);
  long e = c_r_str(h_in, lh, n_in, ln); VF_KNOWN(C18_strstr_suffix_only, ln == 0 || (e >= 0 && e + ln != lh)); const char *r = c_strstr(h, n);
  VF_ASSERT(e < 0 ? r == 0 : r == h + e, "strstr: first occurrence of the needle as a substring; an empty needle matches at the start");
  VF_REACH(); }

/*@GROUP name=mem props=C18,C13,C02 kind=B unwind=8 bound=n<=5@*/
void h_mem(void) { VF_INPUT(unsigned char, n); VF_INPUT(unsigned char, g); VF_INPUT(int, c); VF_INPUT_BOOL(ce); vf_ce = ce; __CPROVER_assume(n <= 5 && g < n);
  VF_BUF(unsigned char, a, n, 5); VF_BUF(unsigned char, b, n, 5);
  unsigned char *d = (unsigned char *)VF_ALLOC(n);
  void *r = c_memcpy(d, a, n); VF_ASSERT(r == d && d[g] == a_in[g], "memcpy copies n bytes, returns dest");
  { int d = 0; _Bool z = 0; while (d < 5 && d < n && a_in[d] == b_in[d]) { if (a_in[d] == 0) z = 1; ++d; }
    VF_KNOWN(C18_memcmp_stops_at_zero, z && d < n); }      /* an equal zero byte precedes the first difference */
  VF_ASSERT(SGN(c_memcmp(a, b, n)) == c_r_cmp((const char *)a_in, (const char *)b_in, n, 0), "memcmp: all n bytes compared as unsigned char (a zero byte does not stop it)");
  long e = -1; for (int i = 4; i >= 0; --i) if (i < n && a_in[i] == (unsigned char)c) e = i;
  const void *m = c_memchr(a, c, n); VF_ASSERT(e < 0 ? m == 0 : m == a + e, "memchr: first byte equal to (unsigned char)c within n bytes");
  r = c_memset(d, c, n); VF_ASSERT(r == d && d[g] == (unsigned char)c, "memset stores (unsigned char)c into n bytes");
  VF_REACH(); }

/*@GROUP name=memcmp_nozero props=C18,C02 kind=B unwind=8 bound=n<=5@*/
void h_memcmp_nozero(void) { VF_INPUT(unsigned char, n); __CPROVER_assume(n <= 5); VF_BUF(unsigned char, a, n, 5); VF_BUF(unsigned char, b, n, 5);
  for (int i = 0; i < 5; ++i) __CPROVER_assume(a_in[i] != 0 && b_in[i] != 0);
  VF_ASSERT(SGN(c_memcmp(a, b, n)) == c_r_cmp((const char *)a_in, (const char *)b_in, n, 0), "memcmp on zero-free buffers: sign of the first differing byte as unsigned char");
  VF_REACH(); }

/*@GROUP name=memmove props=C18,C02 kind=B unwind=8 bound=buffer<=6@*/
void h_memmove(void) { VF_INPUT(unsigned char, so); VF_INPUT(unsigned char, dof); VF_INPUT(unsigned char, n); VF_INPUT(unsigned char, g); VF_INPUT(unsigned char, total);
  __CPROVER_assume(total <= 6 && so <= total && dof <= total && n <= total - so && n <= total - dof && g < total); VF_BUF(unsigned char, buf, total, 6);
  void *r = c_memmove(buf + dof, buf + so, n);     /* source and destination inside ONE object: both overlap directions */
  VF_ASSERT(r == buf + dof && buf[g] == ((g >= dof && g < dof + n) ? buf_in[so + (g - dof)] : buf_in[g]), "memmove: destination receives the ORIGINAL source bytes for any overlap, nothing else changes");
  VF_REACH(); }

/*@GROUP name=wcs props=C18,C02 kind=B unwind=8 bound=wcslen<=4@*/
void h_wcs(void) { STR(wch, a, la); STR(wch, b, lb); VF_INPUT(unsigned long, n); VF_INPUT(wch, ch); VF_INPUT(unsigned char, g); __CPROVER_assume(g <= la);
  /* wide characters range over ALL wchar_t values (wchar_t is a signed 32-bit type here): comparing by subtraction would overflow */
  VF_ASSERT(w_wcslen(a) == la, "wcslen");
  VF_ASSERT(SGN(w_wcscmp(a, b)) == w_r_cmp(a_in, b_in, LMAX + 1, 1) && SGN(w_wcsncmp(a, b, n)) == w_r_cmp(a_in, b_in, n, 1), "wcscmp/wcsncmp: sign of the first differing pair");
  long e = w_r_chr(a_in, la, ch), er = w_r_rchr(a_in, la, ch); const wch *r = w_wcschr(a, ch), *rr = w_wcsrchr(a, ch);
  VF_ASSERT((e < 0 ? r == 0 : r == a + e) && (er < 0 ? rr == 0 : rr == a + er), "wcschr/wcsrchr");
  VF_REACH(); }

/*@GROUP name=wcsspn props=C18,C02 kind=B unwind=8 bound=wcslen<=4 tier=thorough timeout=1200@*/
void h_wcsspn(void) { STR(wch, a, la); STR(wch, b, lb); VF_INPUT(unsigned char, g); __CPROVER_assume(g <= la);
  VF_ASSERT(w_wcsspn(a, b) == w_r_spn(a_in, la, b_in, lb, 1) && w_wcscspn(a, b) == w_r_spn(a_in, la, b_in, lb, 0), "wcsspn/wcscspn");
  unsigned long k = w_r_spn(a_in, la, b_in, lb, 0); VF_KNOWN(C18_strpbrk_no_match, k == la && la > 0); const wch *p = w_wcspbrk(a, b); VF_ASSERT(k == la ? p == 0 : p == a + k, "wcspbrk");
  wch *d = (wch *)VF_ALLOC(((unsigned long)la + 1) * sizeof(wch)); wch *rc = w_wcscpy(d, a); VF_ASSERT(rc == d && d[g] == a_in[g], "wcscpy into exactly wcslen+1 elements");
  VF_REACH(); }

/*@GROUP name=wcsstr props=C18,C02 kind=B unwind=8 bound=wcslen<=4@*/
void h_wcsstr(void) { STR(wch, h, lh); STR(wch, n, ln);
  long e = w_r_str(h_in, lh, n_in, ln); VF_KNOWN(C18_strstr_suffix_only, ln == 0 || (e >= 0 && e + ln != lh)); const wch *r = w_wcsstr(h, n);
  VF_ASSERT(e < 0 ? r == 0 : r == h + e, "wcsstr: first occurrence of the needle as a substring");
  VF_REACH(); }

/*@GROUP name=wmem props=C18,C02 kind=B unwind=8 bound=n<=5@*/
void h_wmem(void) { VF_INPUT(unsigned char, n); VF_INPUT(unsigned char, g); VF_INPUT(wch, c); __CPROVER_assume(n <= 5 && g < n);
  VF_BUF(wch, a, n, 5); VF_BUF(wch, b, n, 5); wch *d = (wch *)VF_ALLOC(n * sizeof(wch));
  { _Bool z = 0; for (int i = 0; i < 5; ++i) if (i < n && a_in[i] == 0) z = 1; VF_KNOWN(C18_wmemcpy_stops_at_zero, z); }
  wch *r = w_wmemcpy(d, a, n); VF_ASSERT(r == d && d[g] == a_in[g], "wmemcpy copies all n elements (a zero element does not stop it)");
  { int d = 0; _Bool z = 0; while (d < 5 && d < n && a_in[d] == b_in[d]) { if (a_in[d] == 0) z = 1; ++d; }
    VF_KNOWN(C18_memcmp_stops_at_zero, z && d < n); }
  VF_ASSERT(SGN(w_wmemcmp(a, b, n)) == w_r_cmp(a_in, b_in, n, 0), "wmemcmp: all n elements compared");
  long e = -1; for (int i = 4; i >= 0; --i) if (i < n && a_in[i] == c) e = i;
  const wch *m = w_wmemchr(a, c, n); VF_ASSERT(e < 0 ? m == 0 : m == a + e, "wmemchr");
  r = w_wmemset(d, c, n); VF_ASSERT(r == d && d[g] == c, "wmemset");
  VF_REACH(); }

/*@GROUP name=wmemmove props=C18,C02 kind=B unwind=6 bound=buffer<=4 tier=thorough timeout=1200@*/
void h_wmemmove(void) { VF_INPUT(unsigned char, so); VF_INPUT(unsigned char, dof); VF_INPUT(unsigned char, n); VF_INPUT(unsigned char, g); VF_INPUT(unsigned char, total);
  __CPROVER_assume(total <= 4 && so <= total && dof <= total && n <= total - so && n <= total - dof && g < total); VF_BUF(wch, buf, total, 4);
  wch *r = w_wmemmove(buf + dof, buf + so, n);
  VF_ASSERT(r == buf + dof && buf[g] == ((g >= dof && g < dof + n) ? buf_in[so + (g - dof)] : buf_in[g]), "wmemmove: any overlap, nothing else changes");
  VF_REACH(); }

/*@GROUP name=u_memset props=C18,C02 kind=U mode=contract enforce=d_memset loops=1 standin=mem@*/
void h_u_memset(void) { unsigned char *s; int c; unsigned long n; vf_k = nondet_ulong(); d_memset(s, c, n); VF_REACH(); }

/*@GROUP name=u_memcpy props=C18,C02 kind=U mode=contract enforce=d_memcpy loops=1 standin=mem@*/
void h_u_memcpy(void) { void *d; void *s; unsigned long n; vf_k = nondet_ulong(); d_memcpy(d, s, n); VF_REACH(); }

/*@GROUP name=u_memchr props=C18,C02 kind=U mode=contract enforce=d_memchr loops=1 standin=mem@*/
void h_u_memchr(void) { unsigned char *p; unsigned char ch; unsigned long n; vf_k = nondet_ulong(); d_memchr(p, ch, n); VF_REACH(); }

/*@GROUP name=u_strlen props=C18,C02 kind=U mode=contract enforce=d_strlen loops=1 standin=strlen_cmp_ascii@*/
void h_u_strlen(void) { char *s; vf_n = nondet_ulong(); vf_k = nondet_ulong(); d_strlen(s); VF_REACH(); }

/* ---- unbounded groups (kind=U) on the remaining <cstring>/<cwchar> loops. The contracts are generated by mkspec.py; its doc string says
 * what is proved for all sizes and which clauses ("the first difference decides", "absent", "last occurrence", "exactly the string is
 * appended") additionally need the deciding prefix to be at most VF_PIN elements, and why. Not under contract (see mkspec.py
 * EXPERIMENTAL): strcpy, strncpy, strncat, wmemmove -- the dfcc encoding of their pointer-writing loops exceeds the 10 GB limit;
 * wcscmp/wcsncmp -- int(a) - int(b) overflows for wide characters of opposite sign, excluding that needs "all elements non-negative",
 * a quantified precondition; strspn/strcspn/strpbrk/strstr -- nested loops, not attempted. Their bounded groups above stay. ---- */
/*@COMMON@*/
#define VF_GHOSTS() do { vf_k = nondet_ulong(); vf_j = nondet_ulong(); vf_m = nondet_ulong(); vf_n = nondet_ulong(); vf_p = nondet_ulong(); vf_q = nondet_ulong(); vf_t = nondet_ulong(); } while (0)

/*@GROUP name=u_memcmp props=C18,C02 kind=U mode=contract enforce=e_memcmp loops=1 standin=memcmp_nozero@*/
void h_u_memcmp(void) { void *a; void *b; unsigned long n; VF_GHOSTS(); e_memcmp(a, b, n); VF_REACH(); }

/*@GROUP name=u_wmemcmp props=C18,C02 kind=U mode=contract enforce=e_wmemcmp loops=1 standin=wmem@*/
void h_u_wmemcmp(void) { wch *a; wch *b; unsigned long n; VF_GHOSTS(); e_wmemcmp(a, b, n); VF_REACH(); }

/*@GROUP name=u_wcslen props=C18,C02 kind=U mode=contract enforce=d_wcslen loops=1 standin=wcs@*/
void h_u_wcslen(void) { wch *s; VF_GHOSTS(); d_wcslen(s); VF_REACH(); }

/*@GROUP name=u_wmemchr props=C18,C02 kind=U mode=contract enforce=d_wmemchr loops=1 standin=wmem@*/
void h_u_wmemchr(void) { wch *p; wch c; unsigned long n; VF_GHOSTS(); d_wmemchr(p, c, n); VF_REACH(); }

/*@GROUP name=u_wmemcpy props=C18,C02 kind=U mode=contract enforce=e_wmemcpy loops=1 standin=wmem@*/
void h_u_wmemcpy(void) { wch *d; wch *s; unsigned long n; VF_GHOSTS(); e_wmemcpy(d, s, n); VF_REACH(); }

/*@GROUP name=u_wmemset props=C18,C02 kind=U mode=contract enforce=d_wmemset loops=1 standin=wmem@*/
void h_u_wmemset(void) { wch *d; wch c; unsigned long n; VF_GHOSTS(); d_wmemset(d, c, n); VF_REACH(); }

/*@GROUP name=u_strchr props=C18,C02 kind=U mode=contract enforce=d_strchr loops=1 standin=strchr@*/
void h_u_strchr(void) { char *s; int ch; VF_GHOSTS(); d_strchr(s, ch); VF_REACH(); }

/*@GROUP name=u_strchr_m props=C18,C02 kind=U mode=contract enforce=d_strchr_m loops=1 standin=strchr@*/
void h_u_strchr_m(void) { char *s; int ch; VF_GHOSTS(); d_strchr_m(s, ch); VF_REACH(); }

/*@GROUP name=u_wcschr props=C18,C02 kind=U solver=kissat mode=contract enforce=d_wcschr loops=1 standin=wcs@*/
void h_u_wcschr(void) { wch *s; int ch; VF_GHOSTS(); d_wcschr(s, ch); VF_REACH(); }

/*@GROUP name=u_strrchr props=C18,C02 kind=U mode=contract enforce=d_strrchr loops=1 standin=strchr@*/
void h_u_strrchr(void) { char *s; int ch; VF_GHOSTS(); d_strrchr(s, ch); VF_REACH(); }

/*@GROUP name=u_wcsrchr props=C18,C02 kind=U solver=kissat mode=contract enforce=d_wcsrchr loops=1 standin=wcs@*/
void h_u_wcsrchr(void) { wch *s; int ch; VF_GHOSTS(); d_wcsrchr(s, ch); VF_REACH(); }

/*@GROUP name=u_strcmp props=C18,C02 kind=U mode=contract enforce=d_strcmp loops=1 standin=strlen_cmp_ascii@*/
void h_u_strcmp(void) { char *a; char *b; VF_GHOSTS(); d_strcmp(a, b); VF_REACH(); }

/*@GROUP name=u_strncmp props=C18,C02 kind=U mode=contract enforce=d_strncmp loops=1 standin=strlen_cmp_ascii@*/
void h_u_strncmp(void) { char *a; char *b; unsigned long n; VF_GHOSTS(); d_strncmp(a, b, n); VF_REACH(); }

/*@GROUP name=u_memmove props=C18,C02 kind=U mode=contract enforce=d_memmove loops=1 standin=memmove tier=thorough timeout=1500@*/
void h_u_memmove(void) { void *d; void *s; unsigned long n; VF_GHOSTS(); d_memmove(d, s, n); VF_REACH(); }

/*@GROUP name=u_strcat props=C18,C02 kind=U mode=contract enforce=d_strcat loops=1 standin=strcat tier=thorough timeout=1500@*/
void h_u_strcat(void) { char *d; char *s; VF_GHOSTS(); d_strcat(d, s); VF_REACH(); }

/* ---- character classification: ISO C 7.4.1 "C" locale class definitions as explicit range predicates ---- */
/*@COMMON@*/
#define R_UPPER(c) ((c) >= 'A' && (c) <= 'Z')
#define R_LOWER(c) ((c) >= 'a' && (c) <= 'z')
#define R_DIGIT(c) ((c) >= '0' && (c) <= '9')
#define R_ALPHA(c) (R_UPPER(c) || R_LOWER(c))
#define R_ALNUM(c) (R_ALPHA(c) || R_DIGIT(c))
#define R_XDIGIT(c) (R_DIGIT(c) || ((c) >= 'a' && (c) <= 'f') || ((c) >= 'A' && (c) <= 'F'))
#define R_SPACE(c) ((c) == ' ' || ((c) >= 9 && (c) <= 13))
#define R_BLANK(c) ((c) == ' ' || (c) == 9)
#define R_CNTRL(c) (((c) >= 0 && (c) <= 31) || (c) == 127)
#define R_PRINT(c) ((c) >= 32 && (c) <= 126)
#define R_GRAPH(c) ((c) >= 33 && (c) <= 126)
#define R_PUNCT(c) (R_GRAPH(c) && !R_ALNUM(c))

/*@GROUP name=cctype props=C18,C02 kind=F@*/
void h_cctype(void) { VF_INPUT(int, c); __CPROVER_assume(c >= -1 && c <= 255);
  VF_ASSERT((ct_isalnum(c) != 0) == R_ALNUM(c), "isalnum"); VF_ASSERT((ct_isalpha(c) != 0) == R_ALPHA(c), "isalpha");
  VF_ASSERT((ct_isblank(c) != 0) == R_BLANK(c), "isblank"); VF_ASSERT((ct_iscntrl(c) != 0) == R_CNTRL(c), "iscntrl");
  VF_ASSERT((ct_isdigit(c) != 0) == R_DIGIT(c), "isdigit"); VF_ASSERT((ct_isgraph(c) != 0) == R_GRAPH(c), "isgraph");
  VF_ASSERT((ct_islower(c) != 0) == R_LOWER(c), "islower"); VF_ASSERT((ct_isprint(c) != 0) == R_PRINT(c), "isprint");
  VF_ASSERT((ct_ispunct(c) != 0) == R_PUNCT(c), "ispunct"); VF_ASSERT((ct_isspace(c) != 0) == R_SPACE(c), "isspace");
  VF_ASSERT((ct_isupper(c) != 0) == R_UPPER(c), "isupper"); VF_ASSERT((ct_isxdigit(c) != 0) == R_XDIGIT(c), "isxdigit");
  VF_ASSERT(ct_tolower(c) == (R_UPPER(c) ? c + 32 : c), "tolower: only A-Z change"); VF_ASSERT(ct_toupper(c) == (R_LOWER(c) ? c - 32 : c), "toupper: only a-z change");
  VF_REACH(); }

/*@GROUP name=cwctype props=C18,C02 kind=F@*/
void h_cwctype(void) { VF_INPUT(unsigned, c); __CPROVER_assume(c <= 0xFFFF || c == 0xFFFFFFFFu);   /* WEOF included */
  long v = c == 0xFFFFFFFFu ? -1 : (long)c;
  VF_ASSERT((ct_iswalnum(c) != 0) == R_ALNUM(v), "iswalnum"); VF_ASSERT((ct_iswalpha(c) != 0) == R_ALPHA(v), "iswalpha");
  VF_ASSERT((ct_iswblank(c) != 0) == R_BLANK(v), "iswblank"); VF_ASSERT((ct_iswcntrl(c) != 0) == R_CNTRL(v), "iswcntrl");
  VF_ASSERT((ct_iswdigit(c) != 0) == R_DIGIT(v), "iswdigit"); VF_ASSERT((ct_iswgraph(c) != 0) == R_GRAPH(v), "iswgraph");
  VF_ASSERT((ct_iswlower(c) != 0) == R_LOWER(v), "iswlower"); VF_ASSERT((ct_iswprint(c) != 0) == R_PRINT(v), "iswprint");
  VF_ASSERT((ct_iswpunct(c) != 0) == R_PUNCT(v), "iswpunct"); VF_ASSERT((ct_iswspace(c) != 0) == R_SPACE(v), "iswspace");
  VF_ASSERT((ct_iswupper(c) != 0) == R_UPPER(v), "iswupper"); VF_ASSERT((ct_iswxdigit(c) != 0) == R_XDIGIT(v), "iswxdigit");
  VF_ASSERT(ct_towlower(c) == (R_UPPER(v) ? c + 32 : c), "towlower"); VF_ASSERT(ct_towupper(c) == (R_LOWER(v) ? c - 32 : c), "towupper");
  VF_REACH(); }

/* div / ldiv / lldiv are one-line wrappers around x / y and x % y.  Two symbolic dividers side by side (the code's and the
 * specification's) are SAT-hard at 32/64 bits (1500 s were not enough, also not with a constant divisor), so the wide
 * instantiations are checked on a value window; etl::idiv at 8 bits (family bits) covers the full domain of the same expression. */
/*@GROUP name=div props=C18,C02 kind=B bound=|x|<4096,|y|<=64 tier=thorough solver=kissat timeout=600@*/
void h_div(void) { VF_INPUT(int, x); VF_INPUT(int, y); __CPROVER_assume(y != 0 && y >= -64 && y <= 64 && x > -4096 && x < 4096); int q, r; c_div(x, y, &q, &r);
  VF_ASSERT(q == x / y && r == x % y, "div(int): {x / y, x % y}");
  VF_REACH(); }

/*@GROUP name=labs props=C18,C02 kind=F@*/
void h_labs(void) {
  VF_INPUT(long, a); __CPROVER_assume(a != (-9223372036854775807L - 1)); VF_ASSERT(c_labs(a) == (a < 0 ? -a : a), "labs");
  VF_INPUT(long long, b); __CPROVER_assume(b != (-9223372036854775807LL - 1)); VF_ASSERT(c_llabs(b) == (b < 0 ? -b : b), "llabs");
  VF_REACH(); }

/*@GROUP name=ldiv props=C18,C02 kind=B bound=|x|<4096,|y|<=64 tier=thorough solver=kissat timeout=600@*/
void h_ldiv(void) { VF_INPUT(long, x); VF_INPUT(long, y); __CPROVER_assume(y != 0 && y >= -64 && y <= 64 && x > -4096 && x < 4096); long q, r; long long q2, r2;
  c_ldiv(x, y, &q, &r); VF_ASSERT(q == x / y && r == x % y, "ldiv");
  c_div_l(x, y, &q, &r); VF_ASSERT(q == x / y && r == x % y, "div(long)");
  c_lldiv(x, y, &q2, &r2); VF_ASSERT(q2 == x / y && r2 == x % y, "lldiv");
  c_div_ll(x, y, &q2, &r2); VF_ASSERT(q2 == x / y && r2 == x % y, "div(long long)");
  VF_REACH(); }
/*@GROUP name=div_limits props=C18,C02 kind=F tier=thorough@*/
void h_div_limits(void) { VF_INPUT(unsigned char, sel); VF_INPUT_BOOL(neg); long x = sel == 0 ? 9223372036854775807L : sel == 1 ? (-9223372036854775807L - 1) : sel == 2 ? 2147483648L : -2147483649L; long y = neg ? -7 : 7; long q, r; long long q2, r2;
  c_ldiv(x, y, &q, &r); VF_ASSERT(q == x / y && r == x % y, "ldiv at the type limits"); c_lldiv(x, y, &q2, &r2); VF_ASSERT(q2 == x / y && r2 == x % y, "lldiv at the type limits");
  int xi = sel == 0 ? 2147483647 : (-2147483647 - 1); int qi, ri; c_div(xi, neg ? -7 : 7, &qi, &ri); VF_ASSERT(qi == xi / (neg ? -7 : 7) && ri == xi % (neg ? -7 : 7), "div(int) at the type limits");
  VF_REACH(); }

/* ---- "an array of at most n characters" (ISO C 7.24.2.4 strncpy, 7.24.3.2 strncat, 7.24.4.4 strncmp, 7.29.4.2.2 wcsncpy, 7.29.4.3.2
 * wcsncat, 7.29.4.4.3 wcsncmp; 7.24.5.1 memchr "reads the characters sequentially and stops as soon as a match is found").
 * The source is the TIGHTEST object for which C defines the call: m elements with no null character among the first m-1, and
 * either m == n (the last element is arbitrary: the array need NOT be terminated) or m < n and the last element is the null
 * character.  Nothing exists behind element m-1, so looking at one element more than C allows is an out-of-bounds failure; m == 0
 * (n == 0) is a one-past-the-end pointer that must not be dereferenced at all.
 * The int -> character conversions (7.24.5.1 memchr, 7.24.5.2 strchr, 7.24.5.5 strrchr, 7.24.6.1 memset) range over ALL int values. ---- */
/*@COMMON@*/
#define AMAX 4
#define ARR(T, s, m, n) VF_INPUT(unsigned char, m); VF_BUF(T, s, m, AMAX); __CPROVER_assume((unsigned long)m <= (unsigned long)(n));      \
    for (int vf_j = 0; vf_j < AMAX; ++vf_j) if (vf_j + 1 < m) __CPROVER_assume(s##_in[vf_j] != 0);                                        \
    if ((unsigned long)m < (unsigned long)(n)) __CPROVER_assume(m > 0 && s##_in[m - 1] == 0)
/* number of characters before the null character, all m if there is none */
#define ARR_LEN(s, m) ((unsigned long)(((m) > 0 && s##_in[(m) - 1] == 0) ? (m) - 1 : (m)))
/* ch converted to char / unsigned char, written with arithmetic only (no implementation-defined narrowing in the oracle) */
#define LOW8(ch) ((int)((unsigned)(ch) & 0xFFu))
#define TO_CHAR(ch) ((char)(LOW8(ch) >= 128 ? LOW8(ch) - 256 : LOW8(ch)))

/* strncpy / wcsncpy: destination of exactly n elements, source array as above */
#define H_NCPY(T, FN)                                                                                                                     \
  VF_INPUT(unsigned char, n); VF_INPUT(unsigned char, g); __CPROVER_assume(n <= AMAX + 2 && g < AMAX + 2); ARR(T, s, m, n);                             \
  T *d = (T *)VF_ALLOC((unsigned long)n * sizeof(T)); for (int i = 0; i < AMAX + 2; ++i) if (i < n) d[i] = 0x55;                          \
  T *r = FN(d, s, n);                                                                                                                     \
  VF_ASSERT(r == d, "strncpy/wcsncpy returns dest");                                                                                      \
  VF_ASSERT(g >= n || d[g] == (g < m ? s_in[g] : 0), "strncpy/wcsncpy from an array of at most n characters (terminated or not): exactly n elements written, the characters up to the null character, then null padding; the source is not read past n characters or past its null character"); \
  VF_ASSERT(g >= m || s[g] == s_in[g], "strncpy/wcsncpy leaves the source unchanged");                                                    \
  VF_REACH()

/* strncat / wcsncat: n ranges over ALL size_t values; exact-fit destination */
#define H_NCAT(T, FN)                                                                                                                     \
  VF_INPUT(unsigned long, n); VF_INPUT(unsigned char, ld); VF_INPUT(unsigned char, g); VF_INPUT_ARR(T, pre, AMAX); ARR(T, s, m, n);       \
  __CPROVER_assume(ld <= AMAX); unsigned long app = ARR_LEN(s, m); __CPROVER_assume(g <= ld + app);                                       \
  T *d = (T *)VF_ALLOC(((unsigned long)ld + app + 1) * sizeof(T));                                                                        \
  for (int i = 0; i < AMAX; ++i) if (i < ld) { __CPROVER_assume(pre[i] != 0); d[i] = pre[i]; } d[ld] = 0;                                 \
  T *r = FN(d, s, n);                                                                                                                     \
  VF_ASSERT(r == d, "strncat/wcsncat returns dest");                                                                                      \
  VF_ASSERT(d[g] == (g < ld ? pre[g] : (g < ld + app ? s_in[g - ld] : 0)), "strncat/wcsncat from an array of at most n characters: dest kept, the characters before the null character (at most n) appended, result terminated, exact-fit destination, source not read past n characters or past its null character"); \
  VF_REACH()

/* strncmp / wcsncmp: BOTH operands are such arrays; n ranges over all size_t values */
#define H_NCMP(T, FN, REF)                                                                                                                \
  VF_INPUT(unsigned long, n); ARR(T, a, ma, n); ARR(T, b, mb, n);                                                                         \
  VF_ASSERT(SGN(FN(a, b, n)) == REF(a_in, b_in, n, 1), "strncmp/wcsncmp on two arrays of at most n characters (terminated or not): sign of the first differing pair within n characters and before a null character, neither array read past its end"); \
  VF_REACH()

/*@GROUP name=strncpy_arr props=C18,C02 kind=B unwind=8 bound=source<=4,count<=6@*/
void h_strncpy_arr(void) { H_NCPY(char, c_strncpy); }

/*@GROUP name=wcsncpy_arr props=C18,C02 kind=B unwind=8 bound=source<=4,count<=6@*/
void h_wcsncpy_arr(void) { H_NCPY(wch, w_wcsncpy); }

/*@GROUP name=strncat_arr props=C18,C02 kind=B unwind=8 bound=source<=4,strlen(dest)<=4@*/
void h_strncat_arr(void) { H_NCAT(char, c_strncat); }

/*@GROUP name=wcsncat_arr props=C18,C02 kind=B unwind=8 bound=source<=4,wcslen(dest)<=4@*/
void h_wcsncat_arr(void) { H_NCAT(wch, w_wcsncat); }

/*@GROUP name=strncmp_arr props=C18,C02 kind=B unwind=8 bound=arrays<=4@*/
void h_strncmp_arr(void) { H_NCMP(char, c_strncmp, c_r_cmp); }

/*@GROUP name=wcsncmp_arr props=C18,C02 kind=B unwind=8 bound=arrays<=4@*/
void h_wcsncmp_arr(void) { H_NCMP(wch, w_wcsncmp, w_r_cmp); }

/* memchr, both overloads: ch over ALL int values (converted to unsigned char: 'b'+256, 256, -1, a negative plain char), n over all
 * size_t values, the object ends with the first match when n is larger ("stops as soon as a matching character is found") */
/*@GROUP name=memchr_int props=C18,C02 kind=B unwind=8 bound=object<=4@*/
void h_memchr_int(void) { VF_INPUT(unsigned long, n); VF_INPUT(int, c); VF_INPUT(unsigned char, m); VF_BUF(unsigned char, a, m, AMAX);
  unsigned char uc = (unsigned char)LOW8(c); __CPROVER_assume((unsigned long)m <= n);
  for (int j = 0; j < AMAX; ++j) if (j + 1 < m) __CPROVER_assume(a_in[j] != uc);      /* no match before the last byte */
  if ((unsigned long)m < n) __CPROVER_assume(m > 0 && a_in[m - 1] == uc);            /* shorter than n: ends with the first match */
  long e = (m > 0 && a_in[m - 1] == uc) ? (long)m - 1 : -1;
  const void *r = c_memchr(a, c, n); VF_ASSERT(e < 0 ? r == 0 : r == a + e, "memchr(void const*): first byte equal to (unsigned char)ch for every int ch, null if absent, nothing read behind the first match");
  void *rm = c_memchr_m(a, c, n); VF_ASSERT(e < 0 ? rm == 0 : rm == a + e, "memchr(void*): first byte equal to (unsigned char)ch for every int ch, null if absent, nothing read behind the first match");
  VF_REACH(); }

/* the same search with matches anywhere in an object of exactly n bytes (several matches: the FIRST one) */
/*@GROUP name=memchr_int_first props=C18,C02 kind=B unwind=8 bound=n<=5@*/
void h_memchr_int_first(void) { VF_INPUT(unsigned char, n); VF_INPUT(int, c); __CPROVER_assume(n <= 5); VF_BUF(unsigned char, a, n, 5);
  unsigned char uc = (unsigned char)LOW8(c); long e = -1; for (int i = 4; i >= 0; --i) if (i < n && a_in[i] == uc) e = i;
  const void *r = c_memchr(a, c, n); VF_ASSERT(e < 0 ? r == 0 : r == a + e, "memchr(void const*): first of several matches, (unsigned char)ch for every int ch");
  void *rm = c_memchr_m(a, c, n); VF_ASSERT(e < 0 ? rm == 0 : rm == a + e, "memchr(void*): first of several matches, (unsigned char)ch for every int ch");
  VF_REACH(); }

/*@GROUP name=memset_int props=C18,C02 kind=B unwind=8 bound=n<=5@*/
void h_memset_int(void) { VF_INPUT(unsigned char, n); VF_INPUT(unsigned char, g); VF_INPUT(int, c); __CPROVER_assume(n <= 5 && g < 5);
  VF_BUF(unsigned char, d, n, 5);                /* arbitrary previous content, exactly n bytes */
  void *r = c_memset(d, c, n);
  VF_ASSERT(r == d && (g >= n || d[g] == (unsigned char)LOW8(c)), "memset: every one of the n bytes becomes (unsigned char)c for every int c (c outside [0,255] is reduced), returns dest");
  VF_REACH(); }

/* strchr / strrchr, both overloads each: ch over ALL int values, converted to char; every ch that converts to the null character
 * (0, 256, -256, ...) finds the terminator */
/*@GROUP name=strchr_int props=C18,C02 kind=B unwind=8 bound=strlen<=4@*/
void h_strchr_int(void) { STR(char, s, ls); VF_INPUT(int, ch);
  char c = TO_CHAR(ch); long e = c_r_chr(s_in, ls, c), er = c_r_rchr(s_in, ls, c);
  if (c == 0) VF_ASSERT(e == ls && er == ls, "oracle: the only null character of a string is its terminator");
  const char *r = c_strchr(s, ch); VF_ASSERT(e < 0 ? r == 0 : r == s + e, "strchr(char const*): first occurrence of (char)ch for every int ch, the terminator counts, null if absent");
  char *rm = c_strchr_m(s, ch); VF_ASSERT(e < 0 ? rm == 0 : rm == s + e, "strchr(char*): first occurrence of (char)ch for every int ch");
  const char *rr = c_strrchr(s, ch); VF_ASSERT(er < 0 ? rr == 0 : rr == s + er, "strrchr(char const*): last occurrence of (char)ch for every int ch, the terminator counts, null if absent");
  char *rrm = c_strrchr_m(s, ch); VF_ASSERT(er < 0 ? rrm == 0 : rrm == s + er, "strrchr(char*): last occurrence of (char)ch for every int ch");
  VF_REACH(); }

/* wcschr / wcsrchr (etl takes int, ISO C wchar_t: the same 32-bit type here), both overloads each, every value */
/*@GROUP name=wcschr_int props=C18,C02 kind=B unwind=8 bound=wcslen<=4@*/
void h_wcschr_int(void) { STR(wch, s, ls); VF_INPUT(int, ch);
  long e = w_r_chr(s_in, ls, (wch)ch), er = w_r_rchr(s_in, ls, (wch)ch);
  const wch *r = w_wcschr(s, ch); VF_ASSERT(e < 0 ? r == 0 : r == s + e, "wcschr(wchar_t const*): first occurrence, the terminator counts, null if absent");
  wch *rm = w_wcschr_m(s, ch); VF_ASSERT(e < 0 ? rm == 0 : rm == s + e, "wcschr(wchar_t*)");
  const wch *rr = w_wcsrchr(s, ch); VF_ASSERT(er < 0 ? rr == 0 : rr == s + er, "wcsrchr(wchar_t const*): last occurrence, the terminator counts, null if absent");
  wch *rrm = w_wcsrchr_m(s, ch); VF_ASSERT(er < 0 ? rrm == 0 : rrm == s + er, "wcsrchr(wchar_t*)");
  VF_REACH(); }

/* wmemchr (both overloads) / wmemset: every wchar_t value, object of exactly n elements (7.29.4.5.8 has no early-stop clause) */
/*@GROUP name=wmemchr_all props=C18,C02 kind=B unwind=8 bound=n<=5@*/
void h_wmemchr_all(void) { VF_INPUT(unsigned char, n); VF_INPUT(unsigned char, g); VF_INPUT(wch, c); __CPROVER_assume(n <= 5 && g < 5); VF_BUF(wch, a, n, 5);
  long e = -1; for (int i = 4; i >= 0; --i) if (i < n && a_in[i] == c) e = i;
  const wch *r = w_wmemchr(a, c, n); VF_ASSERT(e < 0 ? r == 0 : r == a + e, "wmemchr(wchar_t const*): first element equal to c within n elements, null if absent");
  wch *rm = w_wmemchr_m(a, c, n); VF_ASSERT(e < 0 ? rm == 0 : rm == a + e, "wmemchr(wchar_t*): first element equal to c within n elements, null if absent");
  wch *rs = w_wmemset(a, c, n); VF_ASSERT(rs == a && (g >= n || a[g] == c), "wmemset: every one of the n elements becomes c, returns dest");
  VF_REACH(); }
