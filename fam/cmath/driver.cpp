// driver: exact cmath functions at float and double (C16), both is_constant_evaluated paths (C13)
#include <etl/cmath.hpp>
#include <etl/numeric.hpp>

#define VF_E extern "C"
namespace vf {
#define VF_FLT(X) X(float, f) X(double, d)
#define X(T, S) \
  VF_E T floor_##S(T x) { return etl::floor(x); } \
  VF_E T ceil_##S(T x) { return etl::ceil(x); } \
  VF_E T trunc_##S(T x) { return etl::trunc(x); } \
  VF_E T round_##S(T x) { return etl::round(x); } \
  VF_E T rint_##S(T x) { return etl::rint(x); } \
  VF_E long lrint_##S(T x) { return etl::lrint(x); } \
  VF_E long long llrint_##S(T x) { return etl::llrint(x); } \
  VF_E T copysign_##S(T x, T y) { return etl::copysign(x, y); } \
  VF_E bool signbit_##S(T x) { return etl::signbit(x); } \
  VF_E T fabs_##S(T x) { return etl::fabs(x); } \
  VF_E T abs_##S(T x) { return etl::abs(x); } \
  VF_E T fmin_##S(T x, T y) { return etl::fmin(x, y); } \
  VF_E T fmax_##S(T x, T y) { return etl::fmax(x, y); } \
  VF_E T fdim_##S(T x, T y) { return etl::fdim(x, y); } \
  VF_E bool isnan_##S(T x) { return etl::isnan(x); } \
  VF_E bool isinf_##S(T x) { return etl::isinf(x); } \
  VF_E bool isfinite_##S(T x) { return etl::isfinite(x); } \
  VF_E T nextafter_##S(T x, T y) { return etl::nextafter(x, y); } \
  VF_E T fmod_##S(T x, T y) { return etl::fmod(x, y); } \
  VF_E T remainder_##S(T x, T y) { return etl::remainder(x, y); } \
  VF_E T fma_##S(T x, T y, T z) { return etl::fma(x, y, z); } \
  VF_E T lerp_##S(T a, T b, T t) { return etl::lerp(a, b, t); } \
  VF_E T hypot_##S(T x, T y) { return etl::hypot(x, y); } \
  VF_E T hypot3_##S(T x, T y, T z) { return etl::hypot(x, y, z); } \
  VF_E T midpoint_##S(T a, T b) { return etl::midpoint(a, b); }
VF_FLT(X)
#undef X

// the f-suffixed spellings and the integral overloads are separate function bodies: each is pinned to the overload it must equal
#define VF_SFX1(X) X(floor) X(ceil) X(trunc) X(round) X(rint) X(fabs)
#define X(fn) VF_E float fn##f_s(float x) { return etl::fn##f(x); }
VF_SFX1(X)
#undef X
#define VF_SFX2(X) X(copysign) X(fmin) X(fmax) X(fdim) X(fmod) X(remainder) X(nextafter) X(hypot)
#define X(fn) VF_E float fn##f_s(float x, float y) { return etl::fn##f(x, y); }
VF_SFX2(X)
#undef X
VF_E float fmaf_s(float x, float y, float z) { return etl::fmaf(x, y, z); }
VF_E long lrintf_s(float x) { return etl::lrintf(x); }
VF_E long long llrintf_s(float x) { return etl::llrintf(x); }
#define VF_INT1(X) X(floor) X(ceil) X(trunc) X(round)
#define X(fn) VF_E double fn##_i(int x) { return etl::fn(x); } VF_E double fn##_ll(long long x) { return etl::fn(x); } VF_E double fn##_u(unsigned x) { return etl::fn(x); }
VF_INT1(X)
#undef X
}
