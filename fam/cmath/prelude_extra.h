/* cmath family: bodies for the compiler builtins that cxx2c_prelude.h does not map and CBMC 6.11 declares without a body
 * (goto-cc accepts a definition after the first use).  Each is bound to CBMC's IEEE-754 model of the C function. */
#ifndef VF_CMATH_PRELUDE_EXTRA_H
#define VF_CMATH_PRELUDE_EXTRA_H
#include <math.h>
#ifndef VF_NATIVE
float __builtin_truncf(float x) { return truncf(x); }
double __builtin_trunc(double x) { return trunc(x); }
float __builtin_rintf(float x) { return rintf(x); }
double __builtin_rint(double x) { return rint(x); }
long __builtin_lrintf(float x) { return lrintf(x); }
long __builtin_lrint(double x) { return lrint(x); }
long long __builtin_llrintf(float x) { return llrintf(x); }
long long __builtin_llrint(double x) { return llrint(x); }
#endif
/* fma: CBMC 6.11's floatbv_fma is NOT usable as a specification (it loses the last bit when the product is zero:
 * __CPROVER_fmaf(-0x1p32f, 0.0f, 0x1.000042p-125f) == 0x1.00004p-125f).  float fma is specified exactly instead: the product of
 * two floats is exact in double; the sum is formed in double with round-to-odd (round down and round up differ iff inexact; take
 * the one with the odd last bit), and rounding that 53-bit odd-rounded value to 24 bits (or fewer, denormal) is the single
 * correct rounding because 53 >= 2*24 + 2.  No double overflow/underflow is possible for float operands.  When the product is
 * already exact in float the float sum x*y + z is by definition the correctly rounded result (same value, one rounding). */
/* Evaluated once per argument triple (memo): every further multiplier over the same operands is one more multiplier-equivalence
 * problem for the SAT solver.  vf_fma_inexact_f: the float product x*y is not exact (rounded, overflowed or underflowed). */
static _Bool vf_fma_inexact_f, vf_fma_memo_v; static float vf_fma_mx, vf_fma_my, vf_fma_mz, vf_fma_mr;
static unsigned vf_fbits(float f) { union { unsigned u; float f; } c; c.f = f; return c.u; }
static float vf_fmaf_exact(float x, float y, float z)
{
  if (vf_fma_memo_v && vf_fbits(x) == vf_fbits(vf_fma_mx) && vf_fbits(y) == vf_fbits(vf_fma_my) && vf_fbits(z) == vf_fbits(vf_fma_mz)) return vf_fma_mr;
  double p = (double)x * (double)y, zz = (double)z;
  float pf = x * y, r;
  vf_fma_inexact_f = !((double)pf == p);
  if (!vf_fma_inexact_f) r = pf + z;                   /* the product is exact in float: x*y+z rounds once anyway */
  else {
#ifndef VF_NATIVE
    int rm = __CPROVER_rounding_mode;
    __CPROVER_rounding_mode = 1; double dn = p + zz;   /* toward -inf */
    __CPROVER_rounding_mode = 2; double up = p + zz;   /* toward +inf */
    __CPROVER_rounding_mode = rm;
    union { unsigned long long u; double d; } c; c.d = dn;
    double odd = (dn == up || (c.u & 1ull)) ? dn : up;
    if (dn == up && dn == 0) odd = p + zz;              /* exact zero sum: the sign follows the current rounding mode */
    r = (float)odd;
#else
    r = fmaf(x, y, z);
#endif
  }
  vf_fma_memo_v = 1; vf_fma_mx = x; vf_fma_my = y; vf_fma_mz = z; vf_fma_mr = r;
  return r;
}
#ifndef VF_NATIVE
float __builtin_fmaf(float x, float y, float z) { return vf_fmaf_exact(x, y, z); }
#endif
#define VF_FMA_f(x, y, z) vf_fmaf_exact(x, y, z)
#endif
