/* cmath family: bodies for the compiler builtins that cxx2c_prelude.h does not map and CBMC 6.11 declares without a body
 * (goto-cc accepts a definition after the first use).  Each is bound to CBMC's IEEE-754 model of the C function. */
#ifndef VF_CMATH_PRELUDE_EXTRA_H
#define VF_CMATH_PRELUDE_EXTRA_H
#include <math.h>
#ifndef VF_NATIVE
float __builtin_truncf(float x) { return truncf(x); }
double __builtin_trunc(double x) { return trunc(x); }
float __builtin_rintf(float x) { return rintf(x); }
double __builtin_rint(double x) { return rint(x); }
long __builtin_lrintf(float x) { return lrintf(x); }
long __builtin_lrint(double x) { return lrint(x); }
long long __builtin_llrintf(float x) { return llrintf(x); }
long long __builtin_llrint(double x) { return llrint(x); }
/* fma: CBMC 6.11's floatbv_fma is NOT usable as a specification (it loses the last bit when the product is zero:
 * __CPROVER_fmaf(-0x1p32f, 0.0f, 0x1.000042p-125f) == 0x1.00004p-125f).  float fma is specified exactly instead: the product of
 * two floats is exact in double; the sum is formed in double with round-to-odd (round down and round up differ iff inexact; take
 * the one with the odd last bit), and rounding that 53-bit odd-rounded value to 24 bits (or fewer, denormal) is the single
 * correct rounding because 53 >= 2*24 + 2.  No double overflow/underflow is possible for float operands. */
static float vf_fmaf_exact(float x, float y, float z)
{
  double p = (double)x * (double)y, zz = (double)z;
  int rm = __CPROVER_rounding_mode;
  __CPROVER_rounding_mode = 1; double dn = p + zz;   /* toward -inf */
  __CPROVER_rounding_mode = 2; double up = p + zz;   /* toward +inf */
  __CPROVER_rounding_mode = rm;
  union { unsigned long long u; double d; } c; c.d = dn;
  double odd = (dn == up || (c.u & 1ull)) ? dn : up;
  if (dn == up && dn == 0) odd = p + zz;              /* exact zero sum: the sign follows the current rounding mode */
  return (float)odd;
}
float __builtin_fmaf(float x, float y, float z) { return vf_fmaf_exact(x, y, z); }
#define VF_FMA_f(x, y, z) vf_fmaf_exact(x, y, z)
#else
#define VF_FMA_f(x, y, z) fmaf(x, y, z)
#endif
#endif
