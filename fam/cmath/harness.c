/* cmath */
#define CE() VF_INPUT_BOOL(ce); vf_ce = ce
/*@GROUP name=floor_f props=C16,C13,C02 kind=F@*/
void h_floor_f(void) { VF_INPUT(unsigned, bits); float x; memcpy(&x, &bits, 4); vf_ce = 1; float r = floor_f(x); float e = floorf(x);
  VF_ASSERT(isnan(e) ? isnan(r) : r == e, "C16: floor"); VF_REACH(); }
