/* cmath: the EXACT subset of <etl/cmath.hpp> (C16), the two is_constant_evaluated() paths of the same function (C13) and
 * UB-freedom of the constant-evaluated path (C02: UB in a constant expression is a hard compile error).
 *
 * Every float argument is one symbolic 32-bit pattern (VF_INPUT(u32, x_bits)) reinterpreted as float: all NaN payloads, +-0,
 * denormals and +-inf are in the domain; double likewise with 64 bits (tier=thorough).  Classification on the specification
 * side is done on the bit pattern (NAN_/INF_/SIGN_), independently of both tetl and CBMC's library; values are compared by
 * bit pattern, NaN as a class.  The specification of a function is CBMC's IEEE-754 model of the C library function
 * (floorf, ceilf, truncf, roundf, rintf, lrintf, copysignf, fabsf, fminf, fmaxf, fdimf).  fmod/remainder/fma have no usable
 * model in CBMC 6.11 (floatbv_mod and the 128-bit round_to_integral are not implemented by the SAT back end, floatbv_fma is
 * wrong for a zero product): fmod/remainder are specified by the bit-level long division s_fmodrem_f below (cross-checked
 * against glibc on 4*10^7 random and structured pairs), float fma by an exact double / round-to-odd construction
 * (prelude_extra.h).
 *
 * vf_ce = 1 selects the constant-evaluated (gcem / portable fallback) path, vf_ce = 0 the run-time path (compiler builtin,
 * bound to the same CBMC model in cxx2c_prelude.h / prelude_extra.h).
 *
 * Not in tetl (nothing to verify): nearbyint lround llround isnormal fpclassify ilogb logb frexp ldexp scalbn modf.
 * nexttoward does not exist in tetl. */
#include "prelude_extra.h"
typedef unsigned u32; typedef unsigned long long u64;
static float  mk_f(u32 b) { union { u32 u; float f; } c; c.u = b; return c.f; }
static double mk_d(u64 b) { union { u64 u; double f; } c; c.u = b; return c.f; }
static u32 bits_f(float f) { union { u32 u; float f; } c; c.f = f; return c.u; }
static u64 bits_d(double f) { union { u64 u; double f; } c; c.f = f; return c.u; }
#define IN_f(x) VF_INPUT(u32, x##_bits); float x = mk_f(x##_bits)
#define IN_d(x) VF_INPUT(u64, x##_bits); double x = mk_d(x##_bits)
#define NAN_f(x) ((bits_f(x) & 0x7fffffffu) > 0x7f800000u)
#define NAN_d(x) ((bits_d(x) & 0x7fffffffffffffffull) > 0x7ff0000000000000ull)
#define INF_f(x) ((bits_f(x) & 0x7fffffffu) == 0x7f800000u)
#define INF_d(x) ((bits_d(x) & 0x7fffffffffffffffull) == 0x7ff0000000000000ull)
#define FIN_f(x) ((bits_f(x) & 0x7fffffffu) < 0x7f800000u)
#define FIN_d(x) ((bits_d(x) & 0x7fffffffffffffffull) < 0x7ff0000000000000ull)
#define SIGN_f(x) ((int)(bits_f(x) >> 31))
#define SIGN_d(x) ((int)(bits_d(x) >> 63))
#define ZERO_f(x) ((bits_f(x) & 0x7fffffffu) == 0)
#define ZERO_d(x) ((bits_d(x) & 0x7fffffffffffffffull) == 0)
#define SAME_f(r, e) (NAN_f(e) ? NAN_f(r) : bits_f(r) == bits_f(e))
#define SAME_d(r, e) (NAN_d(e) ? NAN_d(r) : bits_d(r) == bits_d(e))
#define ABS_f(x) mk_f(bits_f(x) & 0x7fffffffu)
#define ABS_d(x) mk_d(bits_d(x) & 0x7fffffffffffffffull)
#define EPS_f 0x1p-23f
#define EPS_d 0x1p-52
#define P63_f 0x1p63f
#define P63_d 0x1p63
#define MAX_f 0x1.fffffep127f
#define MAX_d 0x1.fffffffffffffp1023

/* ---- rounding to a floating value: floor ceil trunc round rint.  L is the libm suffix (f or empty). */
#define B_RND(fn, T, S, L, KNOWN) { IN_##S(x); KNOWN; \
  vf_ce = 1; T r1 = fn##_##S(x); T e = fn##L(x); \
  VF_ASSERT(SAME_##S(r1, e), "C16: " #fn "(" #T ") constant-evaluated (portable) path is bit-identical to the C library function (NaN as a class, signed zero by bits)"); \
  vf_ce = 0; T r0 = fn##_##S(x); \
  VF_ASSERT(SAME_##S(r0, r1), "C13: " #fn "(" #T ") run-time path and constant-evaluated path agree bit for bit"); \
  VF_ASSERT(SAME_##S(r0, e), "C16: " #fn "(" #T ") run-time path is bit-identical to the C library function"); \
  VF_REACH(); }

/* ---- lrint llrint: domain = the rounded value is representable (C 7.12.9.5: otherwise the result is unspecified) */
#define B_LRINT(fn, R, T, S, L, KNOWN) { IN_##S(x); __CPROVER_assume(!NAN_##S(x) && ABS_##S(x) < P63_##S); KNOWN; \
  vf_ce = 1; R r1 = fn##_##S(x); R e = fn##L(x); \
  VF_ASSERT(r1 == e, "C16: " #fn "(" #T ") constant-evaluated (portable) path equals the C library function (round to nearest, ties to even)"); \
  vf_ce = 0; R r0 = fn##_##S(x); \
  VF_ASSERT(r0 == r1, "C13: " #fn "(" #T ") run-time path and constant-evaluated path agree"); \
  VF_ASSERT(r0 == e, "C16: " #fn "(" #T ") run-time path equals the C library function"); \
  VF_REACH(); }

/* ---- copysign */
#define B_COPYSIGN(T, S, L, KNOWN) { IN_##S(x); IN_##S(y); KNOWN; \
  vf_ce = 1; T r1 = copysign_##S(x, y); T e = copysign##L(x, y); \
  VF_ASSERT(SAME_##S(r1, e), "C16: copysign(" #T ") constant-evaluated (portable) path: magnitude of x, sign bit of y (incl. +-0 and NaN sign operands)"); \
  VF_ASSERT(NAN_##S(x) || (bits_##S(ABS_##S(r1)) == bits_##S(ABS_##S(x)) && SIGN_##S(r1) == SIGN_##S(y)), "C16: copysign(" #T ") constant-evaluated path, bit-level statement: |r| == |x| and signbit(r) == signbit(y)"); \
  vf_ce = 0; T r0 = copysign_##S(x, y); \
  VF_ASSERT(SAME_##S(r0, r1), "C13: copysign(" #T ") run-time path and constant-evaluated path agree bit for bit"); \
  VF_ASSERT(SAME_##S(r0, e), "C16: copysign(" #T ") run-time path is bit-identical to the C library function"); \
  VF_REACH(); }

/* ---- signbit */
#define B_SIGNBIT(T, S, KNOWN) { IN_##S(x); KNOWN; \
  vf_ce = 1; _Bool r1 = signbit_##S(x); \
  VF_ASSERT(r1 == (_Bool)SIGN_##S(x), "C16: signbit(" #T ") constant-evaluated (portable) path == the sign bit (+0 -> false, -0 -> true, NaN -> its sign bit)"); \
  vf_ce = 0; _Bool r0 = signbit_##S(x); \
  VF_ASSERT(r0 == r1, "C13: signbit(" #T ") run-time path and constant-evaluated path agree"); \
  VF_ASSERT(r0 == (_Bool)SIGN_##S(x), "C16: signbit(" #T ") run-time path == the sign bit"); \
  VF_REACH(); }

/* ---- fabs / abs (single source path) */
#define B_FABS(T, S, L, KNOWN) { IN_##S(x); CE(); KNOWN; \
  T r = fabs_##S(x); T a = abs_##S(x); T e = fabs##L(x); \
  VF_ASSERT(SAME_##S(r, e), "C16: fabs(" #T ") is bit-identical to the C library function: sign bit cleared (fabs(-0) == +0, fabs(-inf) == +inf)"); \
  VF_ASSERT(NAN_##S(x) || bits_##S(r) == bits_##S(ABS_##S(x)), "C16: fabs(" #T "), bit-level statement: the argument with the sign bit cleared"); \
  VF_ASSERT(SAME_##S(a, e), "C16: abs(" #T ") is bit-identical to fabs of the C library"); \
  VF_REACH(); }

/* ---- fmin fmax (single source path).  C leaves the sign of fmin(+0,-0) open: either zero is accepted there. */
#define MINMAX_OK(S, r, e, x, y) (SAME_##S(r, e) || (ZERO_##S(x) && ZERO_##S(y) && ZERO_##S(r)))
#define B_MINMAX(T, S, L, KNOWN) { IN_##S(x); IN_##S(y); CE(); KNOWN; \
  T rn = fmin_##S(x, y); T en = fmin##L(x, y); T rx = fmax_##S(x, y); T ex = fmax##L(x, y); \
  VF_ASSERT(MINMAX_OK(S, rn, en, x, y), "C16: fmin(" #T ") equals the C library function: the smaller argument, the other one if exactly one argument is NaN"); \
  VF_ASSERT(MINMAX_OK(S, rx, ex, x, y), "C16: fmax(" #T ") equals the C library function: the larger argument, the other one if exactly one argument is NaN"); \
  VF_ASSERT(NAN_##S(x) ? SAME_##S(rn, y) && SAME_##S(rx, y) : NAN_##S(y) ? SAME_##S(rn, x) && SAME_##S(rx, x) : 1, "C16: fmin/fmax(" #T "), direct statement: exactly one NaN argument -> the other argument (C 7.12.12, F.10.9)"); \
  VF_REACH(); }

/* ---- fdim (single source path) */
#define B_FDIM(T, S, L, KNOWN) { IN_##S(x); IN_##S(y); CE(); KNOWN; \
  T r = fdim_##S(x, y); T e = fdim##L(x, y); \
  VF_ASSERT(NAN_##S(x) || NAN_##S(y) ? NAN_##S(r) : SAME_##S(r, e), "C16: fdim(" #T ") equals the C library function: x - y if x > y, +0 if x <= y, NaN if an argument is NaN"); \
  VF_REACH(); }

/* ---- classification (single source path) */
#define B_CLASSIFY(T, S, KNOWN) { IN_##S(x); CE(); KNOWN; \
  VF_ASSERT(isnan_##S(x) == (_Bool)NAN_##S(x), "C16: isnan(" #T ") iff exponent all ones and fraction != 0 (every payload, both signs)"); \
  VF_ASSERT(isinf_##S(x) == (_Bool)INF_##S(x), "C16: isinf(" #T ") iff exponent all ones and fraction == 0 (both signs)"); \
  VF_ASSERT(isfinite_##S(x) == (_Bool)FIN_##S(x), "C16: isfinite(" #T ") iff exponent not all ones"); \
  VF_REACH(); }

/* ---- fma (two paths).  The specification (prelude_extra.h) is evaluated first: KNOWN may refer to its ghost
 *      vf_fma_inexact_f = "the float product x*y is not exact", a function of the inputs x, y. */
#define B_FMA(T, S, KNOWN) { IN_##S(x); IN_##S(y); IN_##S(z); T e = VF_FMA_##S(x, y, z); KNOWN; \
  vf_ce = 1; T r1 = fma_##S(x, y, z); \
  VF_ASSERT(SAME_##S(r1, e), "C16: fma(" #T ") constant-evaluated path equals x*y+z rounded ONCE"); \
  vf_ce = 0; T r0 = fma_##S(x, y, z); \
  VF_ASSERT(SAME_##S(r0, r1), "C13: fma(" #T ") run-time path and constant-evaluated path agree bit for bit"); \
  VF_REACH(); }

/* ---- lerp: the exactness clauses of [c.math.lerp]: isfinite(a) && isfinite(b) => lerp(a,b,0) == a, lerp(a,b,1) == b;
 *      isfinite(t) && a == b => lerp(a,b,t) == a.  (== is the floating comparison, as in the standard.) */
#define B_LERP(T, S, KNOWN) { IN_##S(a); IN_##S(b); IN_##S(t); CE(); __CPROVER_assume(FIN_##S(a) && FIN_##S(b)); KNOWN; \
  VF_ASSERT(lerp_##S(a, b, (T)0) == a, "C16: lerp(a,b,0) == a for finite a, b"); \
  VF_ASSERT(lerp_##S(a, b, (T)1) == b, "C16: lerp(a,b,1) == b for finite a, b"); \
  if (FIN_##S(t) && a == b) VF_ASSERT(lerp_##S(a, b, t) == a, "C16: lerp(a,b,t) == a for finite t and a == b"); \
  VF_REACH(); }

/* ---- hypot: C F.10.4.3: hypot(+-inf, y) == +inf even if y is NaN; otherwise NaN if an argument is NaN; symmetric.
 *      The domain of this obligation is {some argument is inf or NaN}: sqrt (approximating, out of scope) is never reached. */
#define PINF_f 0x7f800000u
#define PINF_d 0x7ff0000000000000ull
#define B_HYPOT(T, S, KNOWN) { IN_##S(x); IN_##S(y); IN_##S(z); CE(); KNOWN; \
  if (!FIN_##S(x) || !FIN_##S(y)) { T r = hypot_##S(x, y); \
    VF_ASSERT(INF_##S(x) || INF_##S(y) ? bits_##S(r) == PINF_##S : NAN_##S(r), "C16: hypot(x,y): an infinite argument gives +inf (even with a NaN), otherwise a NaN argument gives NaN"); } \
  if (!FIN_##S(x) || !FIN_##S(y) || !FIN_##S(z)) { T r = hypot3_##S(x, y, z); \
    VF_ASSERT(INF_##S(x) || INF_##S(y) || INF_##S(z) ? bits_##S(r) == PINF_##S : NAN_##S(r), "C16: hypot(x,y,z): an infinite argument gives +inf (even with a NaN), otherwise a NaN argument gives NaN"); } \
  VF_REACH(); }

/* ---- floating midpoint [numeric.ops.midpoint]: no overflow, between the arguments, exact for equal arguments; symmetric */
#define B_MIDPOINT(T, S, KNOWN) { IN_##S(a); IN_##S(b); CE(); __CPROVER_assume(FIN_##S(a) && FIN_##S(b)); KNOWN; \
  T r = midpoint_##S(a, b); T lo = a < b ? a : b; T hi = a < b ? b : a; \
  VF_ASSERT(FIN_##S(r), "C16: midpoint(" #T "): no overflow for finite arguments (incl. +-max)"); \
  VF_ASSERT(lo <= r && r <= hi, "C16: midpoint(" #T ") lies between its arguments"); \
  if (a == b) VF_ASSERT(r == a, "C16: midpoint(a,a) == a"); \
  VF_REACH(); }
#define B_MIDPOINT_SYM(T, S, KNOWN) { IN_##S(a); IN_##S(b); CE(); __CPROVER_assume(FIN_##S(a) && FIN_##S(b)); KNOWN; \
  T r = midpoint_##S(a, b); T q = midpoint_##S(b, a); \
  VF_ASSERT(r == q && (ZERO_##S(r) || bits_##S(r) == bits_##S(q)), "C16: midpoint(" #T ") is symmetric: midpoint(a,b) == midpoint(b,a)"); \
  VF_REACH(); }

/* ---- exact fmod / remainder on the bit pattern (specification side; no floating-point operation is used).
 * |x| = mx * 2^ex, |y| = my * 2^ey with mantissas normalised to 2^(P-1) <= m < 2^P (P = 24 / 53); the quotient is developed
 * bit by bit (restoring division, at most 277 / 2098 steps); the remainder r * 2^ey is exactly representable.
 * rem == 0: fmod (truncated quotient, sign of x); rem == 1: IEEE remainder (quotient rounded to nearest, ties to even). */
#define S_FMOD_DEF(T, S, U, P, EBITS, BIAS, QNAN)                                                                                 \
  static T s_build_##S(U sign, U m, int e) { /* value m * 2^e, exactly representable, m < 2^(P+1) */                              \
    if (m == 0) return mk_##S(sign);                                                                                              \
    for (int i = 0; i < P; ++i) { if (m >> (P - 1)) break; m <<= 1; --e; }                                                        \
    if (m >> P) { m >>= 1; ++e; }                                                                                                 \
    int E = e + (BIAS + P - 1);                                                                                                   \
    if (E >= 1) return mk_##S(sign | ((U)E << (P - 1)) | (m & (((U)1 << (P - 1)) - 1)));                                          \
    return mk_##S(sign | (m >> (1 - E))); }                                                                                       \
  static T s_fmodrem_##S(T x, T y, int rem) {                                                                                     \
    U bx = bits_##S(x), by = bits_##S(y); U sign = bx & ((U)1 << (P + EBITS - 1));                                                \
    if (NAN_##S(x) || NAN_##S(y) || INF_##S(x) || ZERO_##S(y)) return mk_##S(QNAN);                                               \
    if (INF_##S(y) || ZERO_##S(x)) return x;                                                                                      \
    U fm = ((U)1 << (P - 1)) - 1;                                                                                                 \
    int ex = (int)((bx >> (P - 1)) & (((U)1 << EBITS) - 1)), ey = (int)((by >> (P - 1)) & (((U)1 << EBITS) - 1));                 \
    U mx = bx & fm, my = by & fm;                                                                                                 \
    if (ex) mx |= (U)1 << (P - 1); else ex = 1;                                                                                   \
    if (ey) my |= (U)1 << (P - 1); else ey = 1;                                                                                   \
    for (int i = 0; i < P; ++i) { if (mx >> (P - 1)) break; mx <<= 1; --ex; }                                                     \
    for (int i = 0; i < P; ++i) { if (my >> (P - 1)) break; my <<= 1; --ey; }                                                     \
    int n = ex - ey; int ue = ey - (BIAS + P - 1); /* unit exponent of r */                                                       \
    U r = mx; unsigned q = 0;                                                                                                     \
    if (n < -1 || (n == -1 && !rem)) return x;                                                                                    \
    if (n == -1) { /* |y|/2 <= |x| < |y|, units 2^(ue-1): |y| = 2 my */                                                           \
      if (r > my) return s_build_##S(sign ^ ((U)1 << (P + EBITS - 1)), 2 * my - r, ue - 1);                                       \
      return x; }                                                                                                                 \
    for (int i = 0; i <= n; ++i) { q <<= 1; if (r >= my) { r -= my; q |= 1u; } if (i < n) r <<= 1; }                              \
    if (rem && (2 * r > my || (2 * r == my && (q & 1u)))) return s_build_##S(sign ^ ((U)1 << (P + EBITS - 1)), my - r, ue);       \
    return s_build_##S(sign, r, ue); }
S_FMOD_DEF(float, f, u32, 24, 8, 127, 0x7fc00000u)
S_FMOD_DEF(double, d, u64, 53, 11, 1023, 0x7ff8000000000000ull)

/* ---- fmod, remainder (single source path: gcem::fmod for BOTH) */
#define FMOD_DOM_f (FIN_f(x) && FIN_f(y) && !ZERO_f(y))
#define FMOD_DOM_d (FIN_d(x) && FIN_d(y) && !ZERO_d(y))
/* magnitude of the correctly rounded quotient fl(x/y), stated without a division (a second divider next to the one in the
 * code under test makes the query intractable).  W is a wider type in which scaling by a power of two is exact.  For P-bit
 * operands no real quotient lies within 2^-(P+1) relative below a power of two, so fl(x/y) >= 2^k <=> |x| >= 2^k |y| exactly;
 * fl(x/y) == 0 <=> |x| <= 2^-(emin) |y| (tie to even). */
#define QGE(S, W, k) ((W)ABS_##S(x) >= (W)(k) * (W)ABS_##S(y))
#define QTINY_f (!QGE(f, double, 0x1p-23) && (double)ABS_f(x) > 0x1p-150 * (double)ABS_f(y))
#define QTINY_d (!QGE(d, long double, 0x1p-52L) && (long double)ABS_d(x) > 0x1p-1075L * (long double)ABS_d(y))
#define B_FMOD(T, S, KNOWN) { IN_##S(x); IN_##S(y); CE(); KNOWN; \
  T r = fmod_##S(x, y); T e = s_fmodrem_##S(x, y, 0); \
  VF_ASSERT(SAME_##S(r, e), "C16: fmod(" #T ") is the exact remainder x - n*y, n = trunc(x/y) (C 7.12.10.1): sign of x, |r| < |y|, fmod(x, inf) == x, fmod(+-0, y) == +-0, NaN for x inf or y zero"); \
  VF_REACH(); }
/* no reduction takes place (fmod: |x| < |y|; remainder: 2|x| <= |y|, a tie goes to the even quotient 0): the result is x itself */
#define B_FMOD_SMALL(fn, T, S, KNOWN) { IN_##S(x); IN_##S(y); CE(); KNOWN; \
  T r = fn##_##S(x, y); \
  VF_ASSERT(bits_##S(r) == bits_##S(x), "C16: " #fn "(" #T ")(x, y) == x bit for bit when no multiple of y has to be subtracted"); \
  VF_REACH(); }
/* an argument is NaN or infinite, the divisor is zero, or the dividend is zero: NaN, except fn(finite x, +-inf) == x and
 * fn(+-0, y) == +-0 for y != 0 (C F.10.7.1, F.10.7.2) */
#define B_FMOD_SPECIAL(fn, T, S, KNOWN) { IN_##S(x); IN_##S(y); CE(); __CPROVER_assume(!FMOD_DOM_##S || ZERO_##S(x)); KNOWN; \
  T r = fn##_##S(x, y); \
  VF_ASSERT(NAN_##S(x) || NAN_##S(y) || INF_##S(x) || ZERO_##S(y) ? NAN_##S(r) : bits_##S(r) == bits_##S(x), "C16: " #fn "(" #T "): NaN if an argument is NaN, x is infinite or y is zero; " #fn "(finite x, +-inf) == x and " #fn "(+-0, y) == +-0 bit for bit"); \
  VF_REACH(); }
#define B_REMAINDER(T, S, KNOWN) { IN_##S(x); IN_##S(y); CE(); KNOWN; \
  T r = remainder_##S(x, y); T e = s_fmodrem_##S(x, y, 1); \
  VF_ASSERT(SAME_##S(r, e), "C16: remainder(" #T ") is the exact IEEE remainder x - n*y, n = x/y rounded to nearest, ties to even (C 7.12.10.2): |r| <= |y|/2, remainder(x, inf) == x, zero result has the sign of x"); \
  VF_REACH(); }

/* No reduction.  One symbolic float divider next to the exponent arithmetic of denormal operands is out of reach for the SAT
 * solver in one query; the case split is on the position of the leading one of x: cell 0: x normal, or x and y both denormal;
 * cell 1+k (k = 0..22): x denormal with leading one at bit k, y normal.  The cells cover the domain (x != 0). */
#define SMALL_CELL_f (x_bits << 1 >= 0x01000000u || y_bits << 1 < 0x01000000u ? VF_CELL == 0 : (x_bits & 0x7fffffffu) >> (VF_CELL >= 1 ? VF_CELL - 1 : 0) == 1 && VF_CELL >= 1)
/* A multiple of y has to be subtracted: bounded stand-in (normal operands, quotient below 8; the bit-level reference then needs
 * at most 4 division steps).  Only the quotient-1 band is right in general (x - y is exact, Sterbenz). */
#define REDUCE_WINK_f(K) (x_bits << 1 >= 0x01000000u && y_bits << 1 >= 0x01000000u && FMOD_DOM_f && (double)ABS_f(x) < (K) * (double)ABS_f(y))
#define REDUCE_WIN_f REDUCE_WINK_f(8)
/* ---- nextafter (single source path): successor / predecessor on the IEEE-754 encoding, written on sign and magnitude:
 *      a NaN argument -> NaN; x == y (incl. +0 == -0) -> y; from +-0 -> the smallest subnormal with the sign of y; otherwise the
 *      magnitude field moves by one (up when x moves away from zero: max -> inf; down otherwise: min subnormal -> zero of x's sign,
 *      inf -> max).  Cross-checked against glibc nextafterf/nextafter on 2.5*10^7 random and boundary pairs. */
#define S_NEXT_DEF(T, S, U, SB, QNAN) \
  static T s_nextafter_##S(T x, T y) { U bx = bits_##S(x), by = bits_##S(y); U mx = bx & ~(U)SB, my = by & ~(U)SB; \
    if (NAN_##S(x) || NAN_##S(y)) return mk_##S(QNAN); \
    int sx = (bx & SB) != 0, sy = (by & SB) != 0; \
    if ((mx == 0 && my == 0) || bx == by) return y; \
    if (mx == 0) return mk_##S((by & SB) | 1u); \
    int lt = sx != sy ? sx : (sx ? mx > my : mx < my); /* x < y */ \
    return mk_##S(lt == !sx ? bx + 1 : bx - 1); }
S_NEXT_DEF(float, f, u32, 0x80000000u, 0x7fc00000u)
S_NEXT_DEF(double, d, u64, 0x8000000000000000ull, 0x7ff8000000000000ull)
#define B_NEXTAFTER(T, S, KNOWN) { IN_##S(x); IN_##S(y); CE(); KNOWN; \
  T r = nextafter_##S(x, y); T e = s_nextafter_##S(x, y); \
  VF_ASSERT(SAME_##S(r, e), "C16: nextafter(" #T ") is the neighbour of x in the direction of y on the IEEE-754 encoding (C 7.12.11.3): y if x == y, NaN for a NaN argument, +-min subnormal from +-0, inf beyond max"); \
  VF_REACH(); }

#define CE() VF_INPUT_BOOL(ce); vf_ce = ce

/*@GROUP name=floor_f props=C16,C13,C02 kind=F@*/
void h_floor_f(void) B_RND(floor, float, f, f, VF_KNOWN(C16_gcem_llong_cast, FIN_f(x) && ABS_f(x) >= P63_f); VF_KNOWN(C16_gcem_tiny_as_integral, !ZERO_f(x) && ABS_f(x) < EPS_f))

/*@GROUP name=ceil_f props=C16,C02 kind=F@*/
void h_ceil_f(void) B_RND(ceil, float, f, f, VF_KNOWN(C16_gcem_llong_cast, FIN_f(x) && ABS_f(x) >= P63_f); VF_KNOWN(C16_gcem_tiny_as_integral, !ZERO_f(x) && ABS_f(x) < EPS_f); VF_KNOWN(C16_gcem_neg_zero_lost, x > -1 && x <= -EPS_f))

/*@GROUP name=trunc_f props=C16,C13,C02 kind=F@*/
void h_trunc_f(void) B_RND(trunc, float, f, f, VF_KNOWN(C16_gcem_llong_cast, FIN_f(x) && ABS_f(x) >= P63_f); VF_KNOWN(C16_gcem_tiny_as_integral, !ZERO_f(x) && ABS_f(x) < EPS_f); VF_KNOWN(C16_gcem_neg_zero_lost, x > -1 && x <= -EPS_f))

/*@GROUP name=round_f props=C16,C13,C02 kind=F@*/
void h_round_f(void) B_RND(round, float, f, f, VF_KNOWN(C16_gcem_llong_cast, FIN_f(x) && ABS_f(x) >= P63_f); VF_KNOWN(C16_gcem_tiny_as_integral, !ZERO_f(x) && ABS_f(x) < EPS_f))

/*@GROUP name=rint_f props=C16,C13,C02 kind=F@*/
void h_rint_f(void) B_RND(rint, float, f, f, VF_KNOWN(C16_rint_fallback_overflow, !FIN_f(x) || ABS_f(x) >= P63_f); VF_KNOWN(C16_rint_fallback_truncates, FIN_f(x) && ABS_f(x) < P63_f && rintf(x) != truncf(x)); VF_KNOWN(C16_rint_fallback_neg_zero, SIGN_f(x) && x > -1))

/*@GROUP name=lrint_f props=C16,C13,C02 kind=F@*/
void h_lrint_f(void) B_LRINT(lrint, long, float, f, f, VF_KNOWN(C16_lrint_fallback_truncates, rintf(x) != truncf(x)))

/*@GROUP name=llrint_f props=C16,C13,C02 kind=F@*/
void h_llrint_f(void) B_LRINT(llrint, long long, float, f, f, VF_KNOWN(C16_lrint_fallback_truncates, rintf(x) != truncf(x)))

/*@GROUP name=copysign_f props=C16,C13,C02 kind=F@*/
void h_copysign_f(void) B_COPYSIGN(float, f, f, VF_KNOWN(C16_copysign_fallback_zero_nan, !NAN_f(x) && SIGN_f(x) != SIGN_f(y) && (ZERO_f(x) || ZERO_f(y) || NAN_f(y))))

/*@GROUP name=signbit_f props=C16,C13,C02 kind=F@*/
void h_signbit_f(void) B_SIGNBIT(float, f, VF_KNOWN(C16_signbit_fallback_pos_zero, x_bits == 0); VF_KNOWN(C16_signbit_fallback_neg_nan, NAN_f(x) && SIGN_f(x)))

/*@GROUP name=fabs_f props=C16,C02 kind=F@*/
void h_fabs_f(void) B_FABS(float, f, f, VF_KNOWN(C16_fabs_neg_zero, x_bits == 0x80000000u))

/*@GROUP name=minmax_f props=C16,C02 kind=F@*/
void h_minmax_f(void) B_MINMAX(float, f, f, VF_KNOWN(C16_fmin_fmax_nan_second, NAN_f(y) && !NAN_f(x)))

/*@GROUP name=fdim_f props=C16,C02 kind=F@*/
void h_fdim_f(void) B_FDIM(float, f, f, VF_KNOWN(C16_fdim_nan, NAN_f(x) || NAN_f(y)))

/*@GROUP name=classify_f props=C16,C02 kind=F@*/
void h_classify_f(void) B_CLASSIFY(float, f, (void)0)

/*@GROUP name=lerp_f props=C16,C02 kind=F@*/
void h_lerp_f(void) B_LERP(float, f, (void)0)

/*@GROUP name=hypot_f props=C16,C02 kind=F@*/
void h_hypot_f(void) B_HYPOT(float, f, (void)0)

/*@GROUP name=midpoint_f props=C16,C02 kind=F@*/
void h_midpoint_f(void) B_MIDPOINT(float, f, (void)0)

/*@GROUP name=midpoint_sym_f props=C16,C02 kind=F@*/
void h_midpoint_sym_f(void) B_MIDPOINT_SYM(float, f, (void)0)

/*@GROUP name=nextafter_f props=C16,C02 kind=F@*/
void h_nextafter_f(void) B_NEXTAFTER(float, f, VF_KNOWN(C16_nextafter_nan, (NAN_f(y) && !NAN_f(x)) || (NAN_f(x) && (x_bits == 0x7fffffffu || (x_bits & ~0x80000000u) == 0x7f800001u))); VF_KNOWN(C16_nextafter_pos_toward_neg, !NAN_f(x) && !NAN_f(y) && !SIGN_f(x) && SIGN_f(y)); VF_KNOWN(C16_nextafter_neg_zero_up, x_bits == 0x80000000u && !NAN_f(y) && !SIGN_f(y)))

/*@GROUP name=fmod_f props=C16,C02 kind=F@*/
void h_fmod_f(void) B_FMOD_SPECIAL(fmod, float, f, VF_KNOWN(C16_fmod_inf_divisor, INF_f(y) && FIN_f(x)); VF_KNOWN(C16_fmod_neg_zero, FMOD_DOM_f && x_bits == 0x80000000u))

/*@GROUP name=remainder_f props=C16,C02 kind=F@*/
void h_remainder_f(void) B_FMOD_SPECIAL(remainder, float, f, VF_KNOWN(C16_fmod_inf_divisor, INF_f(y) && FIN_f(x)); VF_KNOWN(C16_fmod_neg_zero, FMOD_DOM_f && x_bits == 0x80000000u))

/*@GROUP name=fmod_small_f props=C16,C02 kind=S split=VF_CELL:0:23 qsplit=0,1,4 solver=kissat timeout=600@*/
void h_fmod_small_f(void) B_FMOD_SMALL(fmod, float, f, __CPROVER_assume(FMOD_DOM_f && !ZERO_f(x) && ABS_f(x) < ABS_f(y) && SMALL_CELL_f); VF_KNOWN(C16_gcem_tiny_as_integral, QTINY_f))

/*@GROUP name=remainder_small_f props=C16,C02 kind=S split=VF_CELL:0:23 qsplit=0,1,4 solver=kissat timeout=600@*/
void h_remainder_small_f(void) B_FMOD_SMALL(remainder, float, f, __CPROVER_assume(FMOD_DOM_f && !ZERO_f(x) && 2 * ABS_f(x) <= ABS_f(y) && SMALL_CELL_f); VF_KNOWN(C16_gcem_tiny_as_integral, QTINY_f))

/*@GROUP name=fmod_reduce3_f props=C16,C02 kind=B bound=normal-operands,|y|<=|x|<3|y| unwind=26 unwindset=_ZN3etl6detail9fmod_implIfEET_S2_S2_.0:3,_ZN3etl6detail9fmod_implIfEET_S2_S2_.1:4 solver=kissat timeout=600@*/
void h_fmod_reduce3_f(void) B_FMOD(float, f, __CPROVER_assume(REDUCE_WINK_f(3) && ABS_f(x) >= ABS_f(y)); VF_KNOWN(C16_fmod_gcem_formula, (double)ABS_f(x) >= 2 * (double)ABS_f(y)); VF_KNOWN(C16_fmod_neg_zero, ABS_f(x) == ABS_f(y) && SIGN_f(x)))

/*@GROUP name=remainder_reduce3_f props=C16,C02 kind=B bound=normal-operands,|y|/2<|x|<3|y| unwind=26 unwindset=_ZN3etl6detail9fmod_implIfEET_S2_S2_.0:3,_ZN3etl6detail9fmod_implIfEET_S2_S2_.1:4 solver=kissat timeout=600@*/
void h_remainder_reduce3_f(void) B_REMAINDER(float, f, __CPROVER_assume(REDUCE_WINK_f(3) && 2 * (double)ABS_f(x) > (double)ABS_f(y)); VF_KNOWN(C16_remainder_is_fmod, ABS_f(x) < ABS_f(y) || 2 * (double)ABS_f(x) >= 3 * (double)ABS_f(y)); VF_KNOWN(C16_fmod_neg_zero, ABS_f(x) == ABS_f(y) && SIGN_f(x)))

/*@GROUP name=fmod_reduce_f props=C16,C02 kind=B bound=normal-operands,|y|<=|x|<8|y| unwind=26 unwindset=_ZN3etl6detail9fmod_implIfEET_S2_S2_.0:5,_ZN3etl6detail9fmod_implIfEET_S2_S2_.1:6 solver=kissat timeout=1800 tier=thorough@*/
void h_fmod_reduce_f(void) B_FMOD(float, f, __CPROVER_assume(REDUCE_WIN_f && ABS_f(x) >= ABS_f(y)); VF_KNOWN(C16_fmod_gcem_formula, (double)ABS_f(x) >= 2 * (double)ABS_f(y)); VF_KNOWN(C16_fmod_neg_zero, ABS_f(x) == ABS_f(y) && SIGN_f(x)))

/*@GROUP name=remainder_reduce_f props=C16,C02 kind=B bound=normal-operands,|y|/2<|x|<8|y| unwind=26 unwindset=_ZN3etl6detail9fmod_implIfEET_S2_S2_.0:5,_ZN3etl6detail9fmod_implIfEET_S2_S2_.1:6 solver=kissat timeout=1800 tier=thorough@*/
void h_remainder_reduce_f(void) B_REMAINDER(float, f, __CPROVER_assume(REDUCE_WIN_f && 2 * (double)ABS_f(x) > (double)ABS_f(y)); VF_KNOWN(C16_remainder_is_fmod, ABS_f(x) < ABS_f(y) || 2 * (double)ABS_f(x) >= 3 * (double)ABS_f(y)); VF_KNOWN(C16_fmod_neg_zero, ABS_f(x) == ABS_f(y) && SIGN_f(x)))

/*@GROUP name=fma_f props=C16,C13,C02 kind=F timeout=2400 tier=thorough solver=kissat@*/
void h_fma_f(void) B_FMA(float, f, VF_KNOWN(C16_fma_constexpr_not_fused, FIN_f(x) && FIN_f(y) && vf_fma_inexact_f))

/* ---------------- double: all 2^64 bit patterns symbolic (tier=thorough, time-boxed) */
/*@GROUP name=floor_d props=C16,C13,C02 kind=F tier=thorough timeout=600@*/
void h_floor_d(void) B_RND(floor, double, d, , VF_KNOWN(C16_gcem_llong_cast, FIN_d(x) && ABS_d(x) >= P63_d); VF_KNOWN(C16_gcem_tiny_as_integral, !ZERO_d(x) && ABS_d(x) < EPS_d))

/*@GROUP name=ceil_d props=C16,C02 kind=F tier=thorough timeout=600@*/
void h_ceil_d(void) B_RND(ceil, double, d, , VF_KNOWN(C16_gcem_llong_cast, FIN_d(x) && ABS_d(x) >= P63_d); VF_KNOWN(C16_gcem_tiny_as_integral, !ZERO_d(x) && ABS_d(x) < EPS_d); VF_KNOWN(C16_gcem_neg_zero_lost, x > -1 && x <= -EPS_d))

/*@GROUP name=trunc_d props=C16,C13,C02 kind=F tier=thorough timeout=600@*/
void h_trunc_d(void) B_RND(trunc, double, d, , VF_KNOWN(C16_gcem_llong_cast, FIN_d(x) && ABS_d(x) >= P63_d); VF_KNOWN(C16_gcem_tiny_as_integral, !ZERO_d(x) && ABS_d(x) < EPS_d); VF_KNOWN(C16_gcem_neg_zero_lost, x > -1 && x <= -EPS_d))

/*@GROUP name=round_d props=C16,C13,C02 kind=F tier=thorough timeout=600@*/
void h_round_d(void) B_RND(round, double, d, , VF_KNOWN(C16_gcem_llong_cast, FIN_d(x) && ABS_d(x) >= P63_d); VF_KNOWN(C16_gcem_tiny_as_integral, !ZERO_d(x) && ABS_d(x) < EPS_d))

/*@GROUP name=rint_d props=C16,C13,C02 kind=F tier=thorough timeout=600@*/
void h_rint_d(void) B_RND(rint, double, d, , VF_KNOWN(C16_rint_fallback_overflow, !FIN_d(x) || ABS_d(x) >= P63_d); VF_KNOWN(C16_rint_fallback_truncates, FIN_d(x) && ABS_d(x) < P63_d && rint(x) != trunc(x)); VF_KNOWN(C16_rint_fallback_neg_zero, SIGN_d(x) && x > -1))

/*@GROUP name=lrint_d props=C16,C13,C02 kind=F tier=thorough timeout=600@*/
void h_lrint_d(void) B_LRINT(lrint, long, double, d, , VF_KNOWN(C16_lrint_fallback_truncates, rint(x) != trunc(x)))

/*@GROUP name=llrint_d props=C16,C13,C02 kind=F tier=thorough timeout=600@*/
void h_llrint_d(void) B_LRINT(llrint, long long, double, d, , VF_KNOWN(C16_lrint_fallback_truncates, rint(x) != trunc(x)))

/*@GROUP name=copysign_d props=C16,C13,C02 kind=F tier=thorough timeout=600@*/
void h_copysign_d(void) B_COPYSIGN(double, d, , VF_KNOWN(C16_copysign_fallback_zero_nan, !NAN_d(x) && SIGN_d(x) != SIGN_d(y) && (ZERO_d(x) || ZERO_d(y) || NAN_d(y))))

/*@GROUP name=signbit_d props=C16,C13,C02 kind=F tier=thorough timeout=600@*/
void h_signbit_d(void) B_SIGNBIT(double, d, VF_KNOWN(C16_signbit_fallback_pos_zero, x_bits == 0); VF_KNOWN(C16_signbit_fallback_neg_nan, NAN_d(x) && SIGN_d(x)))

/*@GROUP name=fabs_d props=C16,C02 kind=F tier=thorough timeout=600@*/
void h_fabs_d(void) B_FABS(double, d, , VF_KNOWN(C16_fabs_neg_zero, x_bits == 0x8000000000000000ull))

/*@GROUP name=minmax_d props=C16,C02 kind=F tier=thorough timeout=600@*/
void h_minmax_d(void) B_MINMAX(double, d, , VF_KNOWN(C16_fmin_fmax_nan_second, NAN_d(y) && !NAN_d(x)))

/*@GROUP name=fdim_d props=C16,C02 kind=F tier=thorough timeout=600 solver=kissat@*/
void h_fdim_d(void) B_FDIM(double, d, , VF_KNOWN(C16_fdim_nan, NAN_d(x) || NAN_d(y)))

/*@GROUP name=classify_d props=C16,C02 kind=F tier=thorough timeout=600@*/
void h_classify_d(void) B_CLASSIFY(double, d, (void)0)

/*@GROUP name=lerp_d props=C16,C02 kind=F tier=thorough timeout=600@*/
void h_lerp_d(void) B_LERP(double, d, (void)0)

/*@GROUP name=hypot_d props=C16,C02 kind=F tier=thorough timeout=600@*/
void h_hypot_d(void) B_HYPOT(double, d, (void)0)

/*@GROUP name=midpoint_d props=C16,C02 kind=F tier=thorough timeout=600@*/
void h_midpoint_d(void) B_MIDPOINT(double, d, (void)0)

/*@GROUP name=midpoint_sym_d props=C16,C02 kind=F tier=thorough timeout=600 solver=kissat@*/
void h_midpoint_sym_d(void) B_MIDPOINT_SYM(double, d, (void)0)

/*@GROUP name=fmod_d props=C16,C02 kind=F tier=thorough timeout=600@*/
void h_fmod_d(void) B_FMOD_SPECIAL(fmod, double, d, VF_KNOWN(C16_fmod_inf_divisor, INF_d(y) && FIN_d(x)); VF_KNOWN(C16_fmod_neg_zero, FMOD_DOM_d && x_bits == 0x8000000000000000ull))

/*@GROUP name=remainder_d props=C16,C02 kind=F tier=thorough timeout=600@*/
void h_remainder_d(void) B_FMOD_SPECIAL(remainder, double, d, VF_KNOWN(C16_fmod_inf_divisor, INF_d(y) && FIN_d(x)); VF_KNOWN(C16_fmod_neg_zero, FMOD_DOM_d && x_bits == 0x8000000000000000ull))

/*@GROUP name=nextafter_d props=C16,C02 kind=F tier=thorough timeout=600@*/
void h_nextafter_d(void) B_NEXTAFTER(double, d, VF_KNOWN(C16_nextafter_nan, (NAN_d(y) && !NAN_d(x)) || (NAN_d(x) && (x_bits == 0x7fffffffffffffffull || (x_bits & ~0x8000000000000000ull) == 0x7ff0000000000001ull))); VF_KNOWN(C16_nextafter_pos_toward_neg, !NAN_d(x) && !NAN_d(y) && !SIGN_d(x) && SIGN_d(y)); VF_KNOWN(C16_nextafter_neg_zero_up, x_bits == 0x8000000000000000ull && !NAN_d(y) && !SIGN_d(y)))

/*@COMMON@*/
/* ---- the f-suffixed spellings (floorf, fminf, ...) and the integral overloads are separate function bodies in tetl: each one is
 * pinned, on both source paths, to the float / double overload it must be identical to (whose agreement with the C library
 * the groups above establish).  fmodf/remainderf/hypotf/fmaf loop or are SAT-hard in their own right: the two calls are the
 * same code, so they are compared over a value window only where noted. */
#define ALIAS1(fn) { float a = fn##f_s(x), b = fn##_f(x); VF_ASSERT(SAME_f(a, b), "C16: " #fn "f(x) is bit-identical to " #fn "(float)"); }
#define ALIAS2(fn) { float a = fn##f_s(x, y), b = fn##_f(x, y); VF_ASSERT(SAME_f(a, b), "C16: " #fn "f(x, y) is bit-identical to " #fn "(float, float)"); }
#define ALIAS_BOTH1(fn) { IN_f(x); vf_ce = 1; ALIAS1(fn) vf_ce = 0; ALIAS1(fn) VF_REACH(); }
#define ALIAS_BOTH2(fn) { IN_f(x); IN_f(y); vf_ce = 1; ALIAS2(fn) vf_ce = 0; ALIAS2(fn) VF_REACH(); }
/*@GROUP name=alias_floor_f props=C16,C13,C02 kind=F@*/
void h_alias_floor_f(void) ALIAS_BOTH1(floor)
/*@GROUP name=alias_ceil_f props=C16,C13,C02 kind=F@*/
void h_alias_ceil_f(void) ALIAS_BOTH1(ceil)
/*@GROUP name=alias_trunc_f props=C16,C13,C02 kind=F@*/
void h_alias_trunc_f(void) ALIAS_BOTH1(trunc)
/*@GROUP name=alias_round_f props=C16,C13,C02 kind=F@*/
void h_alias_round_f(void) ALIAS_BOTH1(round)
/*@GROUP name=alias_rint_f props=C16,C13,C02 kind=F@*/
void h_alias_rint_f(void) ALIAS_BOTH1(rint)
/*@GROUP name=alias_fabs_f props=C16,C13,C02 kind=F@*/
void h_alias_fabs_f(void) ALIAS_BOTH1(fabs)
/*@GROUP name=alias_copysign_f props=C16,C13,C02 kind=F@*/
void h_alias_copysign_f(void) ALIAS_BOTH2(copysign)
/*@GROUP name=alias_fmin_f props=C16,C13,C02 kind=F@*/
void h_alias_fmin_f(void) ALIAS_BOTH2(fmin)
/*@GROUP name=alias_fmax_f props=C16,C13,C02 kind=F@*/
void h_alias_fmax_f(void) ALIAS_BOTH2(fmax)
/*@GROUP name=alias_fdim_f props=C16,C13,C02 kind=F@*/
void h_alias_fdim_f(void) ALIAS_BOTH2(fdim)
/*@GROUP name=alias_nextafter_f props=C16,C13,C02 kind=F@*/
void h_alias_nextafter_f(void) ALIAS_BOTH2(nextafter)
/*@GROUP name=alias_lrint_f props=C16,C13,C02 kind=F@*/
void h_alias_lrint_f(void) { IN_f(x); __CPROVER_assume(!NAN_f(x) && ABS_f(x) < P63_f);
  vf_ce = 1; VF_ASSERT(lrintf_s(x) == lrint_f(x), "C16: lrintf(x) equals lrint(float)"); VF_ASSERT(llrintf_s(x) == llrint_f(x), "C16: llrintf(x) equals llrint(float)");
  vf_ce = 0; VF_ASSERT(lrintf_s(x) == lrint_f(x), "C16: lrintf(x) equals lrint(float)"); VF_ASSERT(llrintf_s(x) == llrint_f(x), "C16: llrintf(x) equals llrint(float)");
  VF_REACH(); }

/*@GROUP name=alias_int props=C16,C02 kind=F@*/
void h_alias_int(void) { VF_INPUT(int, i); VF_INPUT(long long, l); VF_INPUT(unsigned, u); VF_INPUT_BOOL(ce); vf_ce = ce;
#define INT1(fn) VF_ASSERT(bits_d(fn##_i(i)) == bits_d((double)i), "C16: " #fn "(int) is the exactly converted argument"); \
  VF_ASSERT(bits_d(fn##_u(u)) == bits_d((double)u), "C16: " #fn "(unsigned) is the exactly converted argument"); \
  VF_ASSERT(bits_d(fn##_ll(l)) == bits_d(fn##_d((double)l)), "C16: " #fn "(long long) equals " #fn "(double) of the converted argument");
  INT1(floor) INT1(ceil) INT1(trunc) INT1(round)
  VF_REACH(); }

/* NOT COVERED: fmodf / remainderf / hypotf / fmaf.  Comparing the suffixed spelling with the float overload means proving two copies
 * of a division / multiplication circuit equal; CBMC did not finish that at full width (300 s, fixed source path), with 8-bit
 * mantissas (600 s, kissat) or with a symbolic path (out of memory).  The float overloads themselves are covered above. */
