// driver: basic_inplace_string<char, VF_N> (C04, C02, C05)
#include <etl/cstring.hpp> // replace(pos,count,char const*) calls an unqualified strlen: does not compile without it
#include <etl/string.hpp>
#include <etl/string_view.hpp>
#include <etl/new.hpp>
#ifndef VF_N
#define VF_N 7
#endif
#define VF_E extern "C"
namespace vf {
using S = etl::inplace_string<VF_N>;
using SV = etl::string_view;
using sz = etl::size_t;
using cp = char const*;
struct is_even { auto operator()(char c) const -> bool { return (c & 1) == 0; } };

// ---- constructors
VF_E void s_ctor_default(S* out) { new (out) S; }
VF_E void s_ctor_n_ch(S* out, sz n, char c) { new (out) S(n, c); }
VF_E void s_ctor_cstr(S* out, cp s) { new (out) S(s); }
VF_E void s_ctor_ptr_n(S* out, cp s, sz n) { new (out) S(s, n); }
VF_E void s_ctor_range(S* out, cp f, cp l) { new (out) S(f, l); }
VF_E void s_ctor_sv(S* out, cp p, sz n) { new (out) S(SV{p, n}); }
VF_E void s_ctor_sv_pos_n(S* out, cp p, sz n, sz pos, sz cnt) { new (out) S(SV{p, n}, pos, cnt); }
VF_E void s_ctor_substr(S* out, S const& o, sz pos, sz cnt) { new (out) S(o, pos, cnt); }
VF_E void s_ctor_substr_pos(S* out, S const& o, sz pos) { new (out) S(o, pos); }
VF_E void s_copy_ctor(S* out, S const& o) { new (out) S(o); }
VF_E void s_move_ctor(S* out, S& o) { new (out) S(etl::move(o)); }
VF_E S* s_copy_assign(S& a, S const& b) { return &(a = b); }
VF_E S* s_move_assign(S& a, S& b) { return &(a = etl::move(b)); }

// ---- assignment
VF_E S* s_opassign_cstr(S& a, cp s) { return &(a = s); }
VF_E S* s_opassign_ch(S& a, char c) { return &(a = c); }
VF_E S* s_opassign_sv(S& a, cp p, sz n) { return &(a = SV{p, n}); }
VF_E S* s_assign_n_ch(S& a, sz n, char c) { return &a.assign(n, c); }
VF_E S* s_assign_str(S& a, S const& b) { return &a.assign(b); }
VF_E S* s_assign_str_pos_n(S& a, S const& b, sz pos, sz cnt) { return &a.assign(b, pos, cnt); }
VF_E S* s_assign_str_pos(S& a, S const& b, sz pos) { return &a.assign(b, pos); }
VF_E S* s_assign_ptr_n(S& a, cp s, sz n) { return &a.assign(s, n); }
VF_E S* s_assign_cstr(S& a, cp s) { return &a.assign(s); }
VF_E S* s_assign_range(S& a, cp f, cp l) { return &a.assign(f, l); }
VF_E S* s_assign_sv(S& a, cp p, sz n) { return &a.assign(SV{p, n}); }
VF_E S* s_assign_sv_pos_n(S& a, cp p, sz n, sz pos, sz cnt) { return &a.assign(SV{p, n}, pos, cnt); }
VF_E S* s_assign_sv_pos(S& a, cp p, sz n, sz pos) { return &a.assign(SV{p, n}, pos); }

// ---- append
VF_E S* s_append_n_ch(S& a, sz n, char c) { return &a.append(n, c); }
VF_E S* s_append_cstr(S& a, cp s) { return &a.append(s); }
VF_E S* s_append_ptr_n(S& a, cp s, sz n) { return &a.append(s, n); }
VF_E S* s_append_range(S& a, cp f, cp l) { return &a.append(f, l); }
VF_E S* s_append_str(S& a, S const& b) { return &a.append(b); }
VF_E S* s_append_str_pos_n(S& a, S const& b, sz pos, sz cnt) { return &a.append(b, pos, cnt); }
VF_E S* s_append_str_pos(S& a, S const& b, sz pos) { return &a.append(b, pos); }
VF_E S* s_append_sv(S& a, cp p, sz n) { return &a.append(SV{p, n}); }
VF_E S* s_append_sv_pos_n(S& a, cp p, sz n, sz pos, sz cnt) { return &a.append(SV{p, n}, pos, cnt); }
VF_E S* s_append_sv_pos(S& a, cp p, sz n, sz pos) { return &a.append(SV{p, n}, pos); }
VF_E S* s_pluseq_str(S& a, S const& b) { return &(a += b); }
VF_E S* s_pluseq_ch(S& a, char c) { return &(a += c); }
VF_E S* s_pluseq_cstr(S& a, cp s) { return &(a += s); }
VF_E S* s_pluseq_sv(S& a, cp p, sz n) { return &(a += SV{p, n}); }
VF_E void s_push_back(S& a, char c) { a.push_back(c); }
VF_E void s_pop_back(S& a) { a.pop_back(); }

// ---- insert (tetl has the index forms only)
VF_E S* s_insert_n_ch(S& a, sz i, sz n, char c) { return &a.insert(i, n, c); }
VF_E S* s_insert_cstr(S& a, sz i, cp s) { return &a.insert(i, s); }
VF_E S* s_insert_ptr_n(S& a, sz i, cp s, sz n) { return &a.insert(i, s, n); }
VF_E S* s_insert_str(S& a, sz i, S const& b) { return &a.insert(i, b); }
VF_E S* s_insert_str_pos_n(S& a, sz i, S const& b, sz pos, sz cnt) { return &a.insert(i, b, pos, cnt); }
VF_E S* s_insert_str_pos(S& a, sz i, S const& b, sz pos) { return &a.insert(i, b, pos); }
VF_E S* s_insert_sv(S& a, sz i, cp p, sz n) { return &a.insert(i, SV{p, n}); }
VF_E S* s_insert_sv_pos_n(S& a, sz i, cp p, sz n, sz pos, sz cnt) { return &a.insert(i, SV{p, n}, pos, cnt); }
VF_E S* s_insert_sv_pos(S& a, sz i, cp p, sz n, sz pos) { return &a.insert(i, SV{p, n}, pos); }

// ---- erase
VF_E S* s_erase_idx(S& a, sz i, sz n) { return &a.erase(i, n); }
VF_E S* s_erase_idx1(S& a, sz i) { return &a.erase(i); }
VF_E S* s_erase_all(S& a) { return &a.erase(); }
VF_E char* s_erase_it(S& a, cp pos) { return a.erase(pos); }
VF_E char* s_erase_range(S& a, cp f, cp l) { return a.erase(f, l); }
VF_E sz s_erase_value(S& a, char c) { return etl::erase(a, c); }
VF_E sz s_erase_if(S& a) { return etl::erase_if(a, is_even{}); }

// ---- replace
VF_E S* s_replace_str(S& a, sz pos, sz cnt, S const& b) { return &a.replace(pos, cnt, b); }
VF_E S* s_replace_it_str(S& a, cp f, cp l, S const& b) { return &a.replace(f, l, b); }
VF_E S* s_replace_str_pos_n(S& a, sz pos, sz cnt, S const& b, sz pos2, sz cnt2) { return &a.replace(pos, cnt, b, pos2, cnt2); }
VF_E S* s_replace_str_pos(S& a, sz pos, sz cnt, S const& b, sz pos2) { return &a.replace(pos, cnt, b, pos2); }
VF_E S* s_replace_ptr_n(S& a, sz pos, sz cnt, cp s, sz n) { return &a.replace(pos, cnt, s, n); }
VF_E S* s_replace_it_ptr_n(S& a, cp f, cp l, cp s, sz n) { return &a.replace(f, l, s, n); }
VF_E S* s_replace_cstr(S& a, sz pos, sz cnt, cp s) { return &a.replace(pos, cnt, s); }
VF_E S* s_replace_it_cstr(S& a, cp f, cp l, cp s) { return &a.replace(f, l, s); }
VF_E S* s_replace_it_n_ch(S& a, cp f, cp l, sz n, char c) { return &a.replace(f, l, n, c); }

// ---- resize, clear, swap, substr, copy
VF_E void s_resize(S& a, sz n) { a.resize(n); }
VF_E void s_resize_ch(S& a, sz n, char c) { a.resize(n, c); }
VF_E void s_clear(S& a) { a.clear(); }
VF_E void s_swap(S& a, S& b) { a.swap(b); }
VF_E void s_swap_free(S& a, S& b) { swap(a, b); }
VF_E void s_substr(S* out, S const& a, sz pos, sz cnt) { new (out) S(a.substr(pos, cnt)); }
VF_E void s_substr_pos(S* out, S const& a, sz pos) { new (out) S(a.substr(pos)); }
VF_E void s_substr_all(S* out, S const& a) { new (out) S(a.substr()); }
VF_E sz s_copy(S const& a, char* d, sz cnt, sz pos) { return a.copy(d, cnt, pos); }
VF_E sz s_copy0(S const& a, char* d, sz cnt) { return a.copy(d, cnt); }

// ---- compare
VF_E int s_compare_str(S const& a, S const& b) { return a.compare(b); }
VF_E int s_compare_pn_str(S const& a, sz pos, sz cnt, S const& b) { return a.compare(pos, cnt, b); }
VF_E int s_compare_pn_str_pn(S const& a, sz pos, sz cnt, S const& b, sz pos2, sz cnt2) { return a.compare(pos, cnt, b, pos2, cnt2); }
VF_E int s_compare_pn_str_p(S const& a, sz pos, sz cnt, S const& b, sz pos2) { return a.compare(pos, cnt, b, pos2); }
VF_E int s_compare_cstr(S const& a, cp s) { return a.compare(s); }
VF_E int s_compare_pn_cstr(S const& a, sz pos, sz cnt, cp s) { return a.compare(pos, cnt, s); }
VF_E int s_compare_pn_ptr_n(S const& a, sz pos, sz cnt, cp s, sz n) { return a.compare(pos, cnt, s, n); }
VF_E int s_compare_sv(S const& a, cp p, sz n) { return a.compare(SV{p, n}); }
VF_E int s_compare_pn_sv(S const& a, sz pos, sz cnt, cp p, sz n) { return a.compare(pos, cnt, SV{p, n}); }
VF_E int s_compare_pn_sv_pn(S const& a, sz pos, sz cnt, cp p, sz n, sz pos2, sz cnt2) { return a.compare(pos, cnt, SV{p, n}, pos2, cnt2); }
VF_E int s_compare_pn_sv_p(S const& a, sz pos, sz cnt, cp p, sz n, sz pos2) { return a.compare(pos, cnt, SV{p, n}, pos2); }

// ---- starts_with / ends_with / contains
VF_E bool s_starts_sv(S const& a, cp p, sz n) { return a.starts_with(SV{p, n}); }
VF_E bool s_starts_ch(S const& a, char c) { return a.starts_with(c); }
VF_E bool s_starts_cstr(S const& a, cp s) { return a.starts_with(s); }
VF_E bool s_ends_sv(S const& a, cp p, sz n) { return a.ends_with(SV{p, n}); }
VF_E bool s_ends_ch(S const& a, char c) { return a.ends_with(c); }
VF_E bool s_ends_cstr(S const& a, cp s) { return a.ends_with(s); }
VF_E bool s_contains_sv(S const& a, cp p, sz n) { return a.contains(SV{p, n}); }
VF_E bool s_contains_ch(S const& a, char c) { return a.contains(c); }
VF_E bool s_contains_cstr(S const& a, cp s) { return a.contains(s); }

// ---- find family
VF_E sz s_find_str(S const& a, S const& b, sz pos) { return a.find(b, pos); }
VF_E sz s_find_ptr_n(S const& a, cp s, sz pos, sz n) { return a.find(s, pos, n); }
VF_E sz s_find_cstr(S const& a, cp s, sz pos) { return a.find(s, pos); }
VF_E sz s_find_ch(S const& a, char c, sz pos) { return a.find(c, pos); }
VF_E sz s_rfind_str(S const& a, S const& b, sz pos) { return a.rfind(b, pos); }
#ifdef VF_WITH_RFIND_PTR_N // rfind(s, pos, n) cannot be instantiated on the pinned tree: it calls etl::strings::rfind with four arguments, no such overload
VF_E sz s_rfind_ptr_n(S const& a, cp s, sz pos, sz n) { return a.rfind(s, pos, n); }
#endif
VF_E sz s_rfind_cstr(S const& a, cp s, sz pos) { return a.rfind(s, pos); }
VF_E sz s_rfind_ch(S const& a, char c, sz pos) { return a.rfind(c, pos); }
VF_E sz s_ffo_str(S const& a, S const& b, sz pos) { return a.find_first_of(b, pos); }
VF_E sz s_ffo_ptr_n(S const& a, cp s, sz pos, sz n) { return a.find_first_of(s, pos, n); }
VF_E sz s_ffo_cstr(S const& a, cp s, sz pos) { return a.find_first_of(s, pos); }
VF_E sz s_ffo_ch(S const& a, char c, sz pos) { return a.find_first_of(c, pos); }
VF_E sz s_ffo_sv(S const& a, cp p, sz n, sz pos) { return a.find_first_of(SV{p, n}, pos); }
VF_E sz s_ffno_str(S const& a, S const& b, sz pos) { return a.find_first_not_of(b, pos); }
VF_E sz s_ffno_ptr_n(S const& a, cp s, sz pos, sz n) { return a.find_first_not_of(s, pos, n); }
VF_E sz s_ffno_cstr(S const& a, cp s, sz pos) { return a.find_first_not_of(s, pos); }
VF_E sz s_ffno_ch(S const& a, char c, sz pos) { return a.find_first_not_of(c, pos); }
VF_E sz s_flo_str(S const& a, S const& b, sz pos) { return a.find_last_of(b, pos); }
VF_E sz s_flo_ptr_n(S const& a, cp s, sz pos, sz n) { return a.find_last_of(s, pos, n); }
VF_E sz s_flo_cstr(S const& a, cp s, sz pos) { return a.find_last_of(s, pos); }
VF_E sz s_flo_ch(S const& a, char c, sz pos) { return a.find_last_of(c, pos); }
VF_E sz s_flno_str(S const& a, S const& b, sz pos) { return a.find_last_not_of(b, pos); }
VF_E sz s_flno_ptr_n(S const& a, cp s, sz pos, sz n) { return a.find_last_not_of(s, pos, n); }
VF_E sz s_flno_cstr(S const& a, cp s, sz pos) { return a.find_last_not_of(s, pos); }
VF_E sz s_flno_ch(S const& a, char c, sz pos) { return a.find_last_not_of(c, pos); }
// default position arguments ([string.find]: 0 for the forward searches, npos for the backward ones)
VF_E sz s_find_str_d(S const& a, S const& b) { return a.find(b); }
VF_E sz s_find_ch_d(S const& a, char c) { return a.find(c); }
VF_E sz s_rfind_str_d(S const& a, S const& b) { return a.rfind(b); }
VF_E sz s_rfind_cstr_d(S const& a, cp s) { return a.rfind(s); }
VF_E sz s_rfind_ch_d(S const& a, char c) { return a.rfind(c); }
VF_E sz s_ffo_str_d(S const& a, S const& b) { return a.find_first_of(b); }
VF_E sz s_ffno_str_d(S const& a, S const& b) { return a.find_first_not_of(b); }
VF_E sz s_flo_str_d(S const& a, S const& b) { return a.find_last_of(b); }
VF_E sz s_flo_cstr_d(S const& a, cp s) { return a.find_last_of(s); }
VF_E sz s_flo_ch_d(S const& a, char c) { return a.find_last_of(c); }
VF_E sz s_flno_str_d(S const& a, S const& b) { return a.find_last_not_of(b); }
VF_E sz s_flno_cstr_d(S const& a, cp s) { return a.find_last_not_of(s); }
VF_E sz s_flno_ch_d(S const& a, char c) { return a.find_last_not_of(c); }

// ---- relational operators
VF_E bool s_eq(S const& a, S const& b) { return a == b; }
VF_E bool s_ne(S const& a, S const& b) { return a != b; }
VF_E bool s_lt(S const& a, S const& b) { return a < b; }
VF_E bool s_le(S const& a, S const& b) { return a <= b; }
VF_E bool s_gt(S const& a, S const& b) { return a > b; }
VF_E bool s_ge(S const& a, S const& b) { return a >= b; }
VF_E bool s_eq_c(S const& a, cp s) { return a == s; }
VF_E bool s_ne_c(S const& a, cp s) { return a != s; }
VF_E bool s_lt_c(S const& a, cp s) { return a < s; }
VF_E bool s_le_c(S const& a, cp s) { return a <= s; }
VF_E bool s_gt_c(S const& a, cp s) { return a > s; }
VF_E bool s_ge_c(S const& a, cp s) { return a >= s; }
VF_E bool s_c_eq(cp s, S const& a) { return s == a; }
VF_E bool s_c_ne(cp s, S const& a) { return s != a; }
VF_E bool s_c_lt(cp s, S const& a) { return s < a; }
VF_E bool s_c_le(cp s, S const& a) { return s <= a; }
VF_E bool s_c_gt(cp s, S const& a) { return s > a; }
VF_E bool s_c_ge(cp s, S const& a) { return s >= a; }

// ---- operator+
VF_E void s_plus_str(S* out, S const& a, S const& b) { new (out) S(a + b); }
VF_E void s_plus_cstr(S* out, S const& a, cp s) { new (out) S(a + s); }
VF_E void s_plus_ch(S* out, S const& a, char c) { new (out) S(a + c); }
VF_E void s_cstr_plus(S* out, cp s, S const& a) { new (out) S(s + a); }
VF_E void s_ch_plus(S* out, char c, S const& a) { new (out) S(c + a); }

// ---- element access and observers
VF_E char* s_index(S& a, sz i) { return &a[i]; }
VF_E cp s_cindex(S const& a, sz i) { return &a[i]; }
VF_E char* s_front(S& a) { return &a.front(); }
VF_E cp s_cfront(S const& a) { return &a.front(); }
VF_E char* s_back(S& a) { return &a.back(); }
VF_E cp s_cback(S const& a) { return &a.back(); }
VF_E char* s_data(S& a) { return a.data(); }
VF_E cp s_cdata(S const& a) { return a.data(); }
VF_E cp s_c_str(S const& a) { return a.c_str(); }
VF_E char* s_begin(S& a) { return a.begin(); }
VF_E char* s_end(S& a) { return a.end(); }
VF_E cp s_cbegin(S const& a) { return a.cbegin(); }
VF_E cp s_cend(S const& a) { return a.cend(); }
VF_E char* s_rbegin_base(S& a) { return a.rbegin().base(); }
VF_E char* s_rend_base(S& a) { return a.rend().base(); }
VF_E cp s_begin_c(S const& a) { return a.begin(); }
VF_E cp s_end_c(S const& a) { return a.end(); }
VF_E cp s_crbegin_base(S const& a) { return a.crbegin().base(); }
VF_E cp s_crend_base(S const& a) { return a.crend().base(); }
VF_E cp s_rbegin_c_base(S const& a) { return a.rbegin().base(); }
VF_E cp s_rend_c_base(S const& a) { return a.rend().base(); }
VF_E sz s_size(S const& a) { return a.size(); }
VF_E sz s_length(S const& a) { return a.length(); }
VF_E sz s_capacity(S const& a) { return a.capacity(); }
VF_E sz s_max_size(S const& a) { return a.max_size(); }
VF_E bool s_empty(S const& a) { return a.empty(); }
VF_E bool s_full(S const& a) { return a.full(); }
VF_E cp s_view_data(S const& a) { SV v = a; return v.data(); }
VF_E sz s_view_size(S const& a) { SV v = a; return v.size(); }
}
