/* string: basic_inplace_string<char,N> against the std::basic_string reference semantics ([string.cons], [string.modifiers], [string.ops]) — C04.
 * Every harness starts from an ARBITRARY well-formed object (all bytes symbolic, constrained by wf only): induction over histories.
 * view(s) = (n, a[0..n)); wf(s) = n <= N && data()[n] == 0 (the terminator is part of the invariant).
 * tiny layout (N < 16): n = N - _buffer[N]; normal layout: n = _size.  Postconditions are stated over the WHOLE view.
 *
 * Layout of this file.  Every loop is bounded by N, but the cost of a group grows steeply with the --unwind limit (a limit of 36 instead of
 * 12 turned 2 s into > 5 min at N=7), and a GROUP marker carries ONE unwind value for all variants.  So each harness body is written once, as a
 * macro H_<NAME>(NAME, KNOWN) in a COMMON section, and instantiated by up to three GROUP markers that differ only in unwind/when:
 *     <name>     when=VF_N<=7     unwind=11  (N+4)      <name>_m   when=7<VF_N<=16  unwind=20      <name>_w   when=VF_N>16  unwind=35, thorough
 * KNOWN is the place of the VF_KNOWN(...) exclusions: they are written in the GROUP section (the engine rewrites VF_KNOWN there only) and
 * passed into the body as a macro argument.  To add an operation: add H_X in a COMMON section and copy three marker stanzas. */
#define N VF_N
#define CAT_(a, b) a##b
#define CAT(a, b) CAT_(a, b)
typedef struct CAT(etl_basic_inplace_string_char_, VF_N) S;
typedef struct { unsigned long n; char a[N + 1]; } view_t;
#define NPOS (~0UL)
#define BUF(s) ((s)._storage._buffer._buf)
#if VF_N < 16
static unsigned long sz_tiny(char vf_sb) { return vf_sb < 0 || vf_sb > N ? NPOS : (unsigned long)(N - vf_sb); } /* get_size() = N - size_type(_buffer[N]); any value outside [0, N] is not wf */
#define SZ(s) sz_tiny(BUF(s)[N])
#define SZ_RAW_EQ(x, y) 1
#else
#define SZ(s) ((unsigned long)(s)._storage._size)
#define SZ_RAW_EQ(x, y) ((x)._storage._size == (y)._storage._size)
#endif
#define WF(s) (SZ(s) <= N && BUF(s)[SZ(s)] == 0)
static view_t view_of(const S *s) { view_t w; w.n = SZ(*s); for (int i = 0; i <= N; ++i) w.a[i] = (unsigned long)i < w.n ? BUF(*s)[i] : 0; return w; }
static char *data_of(S *s) { return &BUF(*s)[0]; }
/* snapshot for C05: a violated precondition must be detected before the object is touched (every byte of the object) */
S vf_snap; S *vf_snap_of;
#define VF_HANDLER_CHECK() do { if (vf_snap_of) { _Bool same = SZ_RAW_EQ(*vf_snap_of, vf_snap); for (int i = 0; i <= N; ++i) same = same && BUF(*vf_snap_of)[i] == BUF(vf_snap)[i]; \
    __CPROVER_assert(same, "C05: the object is unmodified when the assertion handler runs"); } } while (0)
#define EXPECT_VIOLATION(v) do { vf_expect_handler = 1; vf_snap = (v); vf_snap_of = &(v); } while (0)
#include "vf_handler.h"

static _Bool view_eq(view_t x, view_t y) { if (x.n != y.n) return 0; for (int i = 0; i < N; ++i) if ((unsigned long)i < x.n && x.a[i] != y.a[i]) return 0; return 1; }
static unsigned long umin(unsigned long a, unsigned long b) { return a < b ? a : b; }
/* ---- reference semantics on views ---------------------------------------------------------------------------------------
 * [string.replace]: the one primitive every modifier is an instance of:  o[0,pos) + src[0,m) + o[pos+xlen, n)
 *   insert = splice(pos,0,src,m)  erase = splice(pos,xlen,-,0)  append = splice(n,0,src,m)  assign = splice(0,n,src,m) */
static view_t sp_splice(view_t o, unsigned long pos, unsigned long xlen, const char *src, unsigned long m) { view_t r; r.n = o.n - xlen + m;
  for (int i = 0; i <= N; ++i) { unsigned long k = (unsigned long)i; char c = 0;
    if (k < r.n) { if (k < pos) c = o.a[i]; else if (k < pos + m) c = src[k - pos]; else { unsigned long j = k - m + xlen; c = j <= N ? o.a[j] : 0; } }
    r.a[i] = c; }
  return r; }
static view_t sp_empty(void) { view_t e; e.n = 0; for (int i = 0; i <= N; ++i) e.a[i] = 0; return e; }
typedef struct { char a[N + 2]; } fill_t;
static fill_t sp_fill(char ch) { fill_t f; for (int i = 0; i < N + 2; ++i) f.a[i] = ch; return f; }
/* [char.traits.specializations.char]: lt/compare order characters as unsigned char; [string.view.ops] compare: sign only */
static int sp_cmp(const char *x, unsigned long nx, const char *y, unsigned long ny) {
  for (int i = 0; i <= N + 1; ++i) { if ((unsigned long)i >= nx || (unsigned long)i >= ny) break; unsigned char a = (unsigned char)x[i], b = (unsigned char)y[i]; if (a < b) return -1; if (b < a) return 1; }
  return nx < ny ? -1 : (nx > ny ? 1 : 0); }
static int sgn(int x) { return x < 0 ? -1 : (x > 0 ? 1 : 0); }
static _Bool sp_match_at(view_t h, unsigned long x, const char *nd, unsigned long m) { if (x > h.n || m > h.n - x) return 0;
  for (int j = 0; j <= N; ++j) if ((unsigned long)j < m && h.a[x + (unsigned long)j] != nd[j]) return 0; return 1; }
static _Bool sp_in_set(char c, const char *set, unsigned long m) { for (int j = 0; j <= N + 1; ++j) if ((unsigned long)j < m && set[j] == c) return 1; return 0; }
/* [string.find] */
static unsigned long sp_find(view_t h, const char *nd, unsigned long m, unsigned long pos) { for (int i = 0; i <= N; ++i) if ((unsigned long)i >= pos && sp_match_at(h, (unsigned long)i, nd, m)) return (unsigned long)i; return NPOS; }
static unsigned long sp_rfind(view_t h, const char *nd, unsigned long m, unsigned long pos) { for (int i = N; i >= 0; --i) if ((unsigned long)i <= pos && sp_match_at(h, (unsigned long)i, nd, m)) return (unsigned long)i; return NPOS; }
static unsigned long sp_ffo(view_t h, const char *set, unsigned long m, unsigned long pos, _Bool neg) { for (int i = 0; i < N; ++i) if ((unsigned long)i >= pos && (unsigned long)i < h.n && sp_in_set(h.a[i], set, m) != neg) return (unsigned long)i; return NPOS; }
static unsigned long sp_flo(view_t h, const char *set, unsigned long m, unsigned long pos, _Bool neg) { for (int i = N - 1; i >= 0; --i) if ((unsigned long)i <= pos && (unsigned long)i < h.n && sp_in_set(h.a[i], set, m) != neg) return (unsigned long)i; return NPOS; }

#define ARB(v) VF_INPUT(S, v); __CPROVER_assume(WF(v))
/* XBUF: an exact-size buffer of n elements (n symbolic, n <= MAX), not terminated, nothing readable behind the last element: the same contract as
 * VF_BUF towards the code under test, but without a symbolic-size malloc and without a copy loop (measured at N=7: find_first_of(sv) > 200 s
 * with the copy, 34 s without; a constructor at N=16 55 s with a symbolic-size malloc, 4 s without).  Under CBMC the buffer is the LAST n
 * elements of the all-symbolic input array name_in (name = name_in + MAX+1-n): name[n] is one past the end of the object, so any access at or
 * beyond name + n is an out-of-bounds failure; an access BEFORE name[0] lands in the unused head of name_in and is not detected under CBMC.
 * In the native replay the buffer is an exact-size malloc copy of that slice (ASan checks both ends).  Specifications read name[j]. */
#if defined(VF_NATIVE)
#define XBUF(T, name, n, MAX) VF_INPUT_ARR(T, name##_in, (MAX) + 1); __CPROVER_assume((unsigned long)(n) <= (unsigned long)(MAX)); T *name = (T *)VF_ALLOC((unsigned long)(n) * sizeof(T)); \
  memcpy(name, name##_in + ((MAX) + 1 - (unsigned long)(n)), (unsigned long)(n) * sizeof(T))
#else
#define XBUF(T, name, n, MAX) VF_INPUT_ARR(T, name##_in, (MAX) + 1); __CPROVER_assume((unsigned long)(n) <= (unsigned long)(MAX)); T *name = name##_in + ((MAX) + 1 - (unsigned long)(n))
#endif
/* C string of exactly len characters in an exact-size buffer of len+1 bytes */
#define CSTR(name, len, MAX) XBUF(char, name, (unsigned long)(len) + 1, (MAX) + 1); CSTR_ASSUME(name, len, MAX)
#define POST(s, expect, what) VF_ASSERT(WF(s), "C04: wf after " what ": size() <= capacity() and data()[size()] == 0"); VF_ASSERT(view_eq(view_of(&(s)), (expect)), "C04: " what)
#define CAPACITY_UNCHANGED(v) VF_ASSERT(s_capacity(&(v)) == N && s_max_size(&(v)) == N, "capacity() and max_size() are always N")
/* operands by value: (n, chars) of a substring; sp_signflip = witness class of C04_compare_signed_char */
typedef struct { unsigned long n; char a[N + 2]; } seq_t;
static seq_t seq_sub(const char *p, unsigned long n, unsigned long pos, unsigned long cnt) { seq_t r; r.n = pos <= n ? umin(cnt, n - pos) : 0; for (int j = 0; j < N + 2; ++j) r.a[j] = (unsigned long)j < r.n ? p[pos + (unsigned long)j] : 0; return r; }
static int sp_cmpq(seq_t x, seq_t y) { return sp_cmp(x.a, x.n, y.a, y.n); }
static _Bool sp_signflip(seq_t x, seq_t y) { for (int i = 0; i < N + 2; ++i) { if ((unsigned long)i >= x.n || (unsigned long)i >= y.n) break; if (x.a[i] != y.a[i]) return (x.a[i] < 0) != (y.a[i] < 0); } return 0; }
static _Bool sp_has_inner_nul(seq_t x) { for (int i = 1; i < N + 2; ++i) if ((unsigned long)i < x.n && x.a[i] == 0) return 1; return 0; }
#define CSTR_ASSUME(arr, len, MAX) do { __CPROVER_assume(arr[len] == 0); for (int vf_j = 0; vf_j < (MAX); ++vf_j) __CPROVER_assume((unsigned long)vf_j >= (unsigned long)(len) || arr[vf_j] != 0); } while (0)
#define UNCHANGED(s, o) VF_ASSERT(WF(s) && view_eq(view_of(&(s)), (o)), "a const member function leaves *this unchanged")

/*@COMMON@*/
#define H_DEFAULT_CTOR(NAME, KNOWN) void NAME(void) { VF_INPUT(S, s); /* indeterminate storage */ s_ctor_default(&s); \
  POST(s, sp_empty(), "basic_inplace_string(): empty"); VF_ASSERT(s_size(&s) == 0 && s_empty(&s), "default construction: size() == 0"); CAPACITY_UNCHANGED(s); VF_REACH(); }
/*@GROUP name=default_ctor props=C04,C02 kind=K unwind=11 when=VF_N<=7@*/
H_DEFAULT_CTOR(h_default_ctor, ((void)0))
/*@GROUP name=default_ctor_m props=C04,C02 kind=K unwind=20 when=7<VF_N<=16@*/
H_DEFAULT_CTOR(h_default_ctor_m, ((void)0))
/*@GROUP name=default_ctor_w props=C04,C02 kind=K unwind=35 when=VF_N>16 tier=thorough timeout=3000@*/
H_DEFAULT_CTOR(h_default_ctor_w, ((void)0))

/*@COMMON@*/
#define H_CTOR_FILL(NAME, KNOWN) void NAME(void) { VF_INPUT(S, s); VF_INPUT(unsigned char, c); VF_INPUT(char, ch); __CPROVER_assume(c <= N); fill_t f = sp_fill(ch); \
  s_ctor_n_ch(&s, c, ch); POST(s, sp_splice(sp_empty(), 0, 0, f.a, c), "basic_inplace_string(count, ch): count copies of ch"); VF_REACH(); }
/*@GROUP name=ctor_fill props=C04,C02,C05 kind=K unwind=11 when=VF_N<=7@*/
H_CTOR_FILL(h_ctor_fill, ((void)0))
/*@GROUP name=ctor_fill_m props=C04,C02,C05 kind=K unwind=20 when=7<VF_N<=16@*/
H_CTOR_FILL(h_ctor_fill_m, ((void)0))
/*@GROUP name=ctor_fill_w props=C04,C02,C05 kind=K unwind=35 when=VF_N>16 tier=thorough timeout=3000@*/
H_CTOR_FILL(h_ctor_fill_w, ((void)0))

/*@COMMON@*/
#define H_CTOR_BUF(NAME, KNOWN) void NAME(void) { VF_INPUT(S, s); VF_INPUT(unsigned char, c); VF_INPUT(unsigned char, which); __CPROVER_assume(c <= N); XBUF(char, src, c, N); \
  if (which == 0) s_ctor_ptr_n(&s, src, c); else if (which == 1) s_ctor_range(&s, src, src + c); else s_ctor_sv(&s, src, c); \
  POST(s, sp_splice(sp_empty(), 0, 0, src, c), "basic_inplace_string(s, count) / (first, last) / (string_view): exactly the source characters"); VF_REACH(); }
/*@GROUP name=ctor_buf props=C04,C02,C05 kind=K unwind=11 when=VF_N<=7@*/
H_CTOR_BUF(h_ctor_buf, ((void)0))
/*@GROUP name=ctor_buf_m props=C04,C02,C05 kind=K unwind=20 when=7<VF_N<=16@*/
H_CTOR_BUF(h_ctor_buf_m, ((void)0))
/*@GROUP name=ctor_buf_w props=C04,C02,C05 kind=K unwind=35 when=VF_N>16 tier=thorough timeout=3000@*/
H_CTOR_BUF(h_ctor_buf_w, ((void)0))

/*@COMMON@*/
#define H_CTOR_CSTR(NAME, KNOWN) void NAME(void) { VF_INPUT(S, s); VF_INPUT(unsigned char, c); __CPROVER_assume(c <= N); CSTR(src, c, N); \
  s_ctor_cstr(&s, src); POST(s, sp_splice(sp_empty(), 0, 0, src, c), "basic_inplace_string(char const*): the characters before the terminator"); VF_REACH(); }
/*@GROUP name=ctor_cstr props=C04,C02,C05 kind=K unwind=11 when=VF_N<=7@*/
H_CTOR_CSTR(h_ctor_cstr, ((void)0))
/*@GROUP name=ctor_cstr_m props=C04,C02,C05 kind=K unwind=20 when=7<VF_N<=16@*/
H_CTOR_CSTR(h_ctor_cstr_m, ((void)0))
/*@GROUP name=ctor_cstr_w props=C04,C02,C05 kind=K unwind=35 when=VF_N>16 tier=thorough timeout=3000@*/
H_CTOR_CSTR(h_ctor_cstr_w, ((void)0))

/*@COMMON@*/
#define H_CTOR_SUBSTR(NAME, KNOWN) void NAME(void) { VF_INPUT(S, s); ARB(t); VF_INPUT(unsigned long, pos); VF_INPUT(unsigned long, cnt); VF_INPUT(unsigned char, which); view_t b = view_of(&t); __CPROVER_assume(pos <= b.n); \
  /* [string.cons]: str.substr(pos, n): rlen = min(n, size - pos) */ \
  unsigned long rlen = which == 0 ? umin(cnt, b.n - pos) : b.n - pos; \
  if (which == 0) s_ctor_substr(&s, &t, pos, cnt); else s_ctor_substr_pos(&s, &t, pos); \
  POST(s, sp_splice(sp_empty(), 0, 0, b.a + pos, rlen), "basic_inplace_string(str, pos[, n]): the characters [pos, pos + min(n, size - pos)) of str"); \
  VF_ASSERT(view_eq(view_of(&t), b) && WF(t), "the source string is unchanged"); VF_REACH(); }
/*@GROUP name=ctor_substr props=C04,C02,C05 kind=K unwind=11 when=VF_N<=7@*/
H_CTOR_SUBSTR(h_ctor_substr, ((void)0))
/*@GROUP name=ctor_substr_m props=C04,C02,C05 kind=K unwind=20 when=7<VF_N<=16@*/
H_CTOR_SUBSTR(h_ctor_substr_m, ((void)0))
/*@GROUP name=ctor_substr_w props=C04,C02,C05 kind=K unwind=35 when=VF_N>16 tier=thorough timeout=3000@*/
H_CTOR_SUBSTR(h_ctor_substr_w, ((void)0))

/*@COMMON@*/
#define H_CTOR_SV_SUB(NAME, KNOWN) void NAME(void) { VF_INPUT(S, s); VF_INPUT(unsigned char, m); VF_INPUT(unsigned char, pos); VF_INPUT(unsigned long, cnt); __CPROVER_assume(m <= N + 1 && pos <= m); XBUF(char, src, m, N + 1); \
  unsigned long rlen = umin(cnt, m - pos); __CPROVER_assume(rlen <= N); \
  s_ctor_sv_pos_n(&s, src, m, pos, cnt); \
  POST(s, sp_splice(sp_empty(), 0, 0, src + pos, rlen), "basic_inplace_string(sv, pos, n): sv.substr(pos, n)"); VF_REACH(); }
/*@GROUP name=ctor_sv_sub props=C04,C02,C05 kind=K unwind=11 when=VF_N<=7@*/
H_CTOR_SV_SUB(h_ctor_sv_sub, ((void)0))
/*@GROUP name=ctor_sv_sub_m props=C04,C02,C05 kind=K unwind=20 when=7<VF_N<=16@*/
H_CTOR_SV_SUB(h_ctor_sv_sub_m, ((void)0))
/*@GROUP name=ctor_sv_sub_w props=C04,C02,C05 kind=K unwind=35 when=VF_N>16 tier=thorough timeout=3000@*/
H_CTOR_SV_SUB(h_ctor_sv_sub_w, ((void)0))

/*@COMMON@*/
#define H_COPY_MOVE(NAME, KNOWN) void NAME(void) { ARB(s); VF_INPUT(S, t); VF_INPUT(unsigned char, which); VF_INPUT(char, x); view_t os = view_of(&s); S *r = &t; \
  if (which == 0) s_copy_ctor(&t, &s); \
  else if (which == 1) { __CPROVER_assume(WF(t)); r = s_copy_assign(&t, &s); } \
  else if (which == 2) s_move_ctor(&t, &s); \
  else if (which == 3) { __CPROVER_assume(WF(t)); r = s_move_assign(&t, &s); } \
  else { __CPROVER_assume(WF(t)); r = s_assign_str(&t, &s); } \
  POST(t, os, "copy/move construction and assignment, assign(str): target == source"); VF_ASSERT(r == &t, "assignment returns *this"); \
  VF_ASSERT(WF(s), "source stays well-formed (valid, assignable, destructible)"); \
  if (which != 2 && which != 3) { VF_ASSERT(view_eq(view_of(&s), os), "copy leaves the source unchanged"); \
    if (SZ(t) > 0) { BUF(t)[0] = x; s_pop_back(&t); } VF_ASSERT(view_eq(view_of(&s), os), "independence: mutating the copy leaves the source unchanged"); } \
  VF_REACH(); }
/*@GROUP name=copy_move props=C04,C02 kind=K unwind=11 when=VF_N<=7@*/
H_COPY_MOVE(h_copy_move, ((void)0))
/*@GROUP name=copy_move_m props=C04,C02 kind=K unwind=20 when=7<VF_N<=16@*/
H_COPY_MOVE(h_copy_move_m, ((void)0))
/*@GROUP name=copy_move_w props=C04,C02 kind=K unwind=35 when=VF_N>16 tier=thorough timeout=3000@*/
H_COPY_MOVE(h_copy_move_w, ((void)0))

/*@COMMON@*/
#define H_SELF_ASSIGN(NAME, KNOWN) void NAME(void) { ARB(s); view_t os = view_of(&s); VF_INPUT(unsigned char, which); \
  if (which == 0) s_copy_assign(&s, &s); else if (which == 1) s_move_assign(&s, &s); else if (which == 2) s_assign_str(&s, &s); else s_swap(&s, &s); \
  VF_ASSERT(WF(s), "C04: self-assignment / self-swap keeps the object well-formed"); if (which != 1) VF_ASSERT(view_eq(view_of(&s), os), "C04: copy self-assignment, assign(*this) and self-swap keep the contents"); VF_REACH(); }
/*@GROUP name=self_assign props=C04,C02 kind=K unwind=11 when=VF_N<=7@*/
H_SELF_ASSIGN(h_self_assign, ((void)0))
/*@GROUP name=self_assign_m props=C04,C02 kind=K unwind=20 when=7<VF_N<=16@*/
H_SELF_ASSIGN(h_self_assign_m, ((void)0))
/*@GROUP name=self_assign_w props=C04,C02 kind=K unwind=35 when=VF_N>16 tier=thorough timeout=3000@*/
H_SELF_ASSIGN(h_self_assign_w, ((void)0))

/*@COMMON@*/
#define H_ASSIGN_FILL(NAME, KNOWN) void NAME(void) { ARB(s); VF_INPUT(unsigned char, c); VF_INPUT(char, ch); VF_INPUT_BOOL(op); fill_t f = sp_fill(ch); S *r; \
  if (op) { c = 1; r = s_opassign_ch(&s, ch); } else { __CPROVER_assume(c <= N); r = s_assign_n_ch(&s, c, ch); } \
  POST(s, sp_splice(sp_empty(), 0, 0, f.a, c), "assign(count, ch) / operator=(ch): count copies of ch"); VF_ASSERT(r == &s, "assign returns *this"); VF_REACH(); }
/*@GROUP name=assign_fill props=C04,C02,C05 kind=K unwind=11 when=VF_N<=7@*/
H_ASSIGN_FILL(h_assign_fill, ((void)0))
/*@GROUP name=assign_fill_m props=C04,C02,C05 kind=K unwind=20 when=7<VF_N<=16@*/
H_ASSIGN_FILL(h_assign_fill_m, ((void)0))
/*@GROUP name=assign_fill_w props=C04,C02,C05 kind=K unwind=35 when=VF_N>16 tier=thorough timeout=3000@*/
H_ASSIGN_FILL(h_assign_fill_w, ((void)0))

/*@COMMON@*/
#define H_ASSIGN_BUF(NAME, KNOWN) void NAME(void) { ARB(s); VF_INPUT(unsigned char, c); VF_INPUT(unsigned char, which); __CPROVER_assume(c <= N); XBUF(char, src, c, N); S *r; \
  if (which == 0) r = s_assign_ptr_n(&s, src, c); else if (which == 1) r = s_assign_range(&s, src, src + c); else if (which == 2) r = s_assign_sv(&s, src, c); else r = s_opassign_sv(&s, src, c); \
  POST(s, sp_splice(sp_empty(), 0, 0, src, c), "assign(s, count) / (first, last) / (string_view), operator=(string_view): exactly the source characters"); VF_ASSERT(r == &s, "assign returns *this"); VF_REACH(); }
/* self-aliasing source: s.assign(s.data() + k, c) must yield the substring (std::basic_string handles a source inside *this) */
#define H_ASSIGN_SELF(NAME) void NAME(void) { ARB(s); VF_INPUT(unsigned char, k); VF_INPUT(unsigned char, c); view_t o = view_of(&s); __CPROVER_assume(k <= o.n && c <= o.n - k); \
  S *r = s_assign_ptr_n(&s, BUF(s) + k, c); view_t e; e.n = c; for (int i = 0; i <= N; ++i) e.a[i] = (i < c && i + k <= N) ? o.a[i + k] : 0; \
  VF_ASSERT(WF(s) && SZ(s) == c, "assign(data()+k, c) from the string's own storage: wf and size"); for (int i = 0; i < N; ++i) if (i < c) VF_ASSERT(BUF(s)[i] == e.a[i], "assign(data()+k, c): the result is the old substring [k, k+c)"); VF_ASSERT(r == &s, "assign returns *this"); VF_REACH(); }
/*@GROUP name=assign_self props=C04,C02 kind=K unwind=11 when=VF_N<=7@*/
H_ASSIGN_SELF(h_assign_self)
/*@GROUP name=assign_self_m props=C04,C02 kind=K unwind=20 when=7<VF_N<=16@*/
H_ASSIGN_SELF(h_assign_self_m)
/*@COMMON@*/
/* self-aliasing sources for insert and append ([string.insert]/[string.append]: s.insert(i, s), s.insert(i, s.data()+k, c), s.append(s),
 * s += s and s.append(s.data()+k, c) are well defined: the characters are those the string held BEFORE the call) */
#define H_INSERT_SELF(NAME, CMAX) void NAME(void) { ARB(s); VF_INPUT(unsigned char, i); VF_INPUT(unsigned char, k); VF_INPUT(unsigned char, c); VF_INPUT(unsigned char, which); view_t o = view_of(&s); \
  __CPROVER_assume(i <= o.n && k <= o.n && c <= o.n - k && c <= (CMAX) && o.n + c <= N && which <= 3); char old[N + 1]; for (int j = 0; j <= N; ++j) old[j] = o.a[j]; S *r; \
  if (which == 0) r = s_insert_ptr_n(&s, i, BUF(s) + k, c); else if (which == 1) r = s_insert_sv(&s, i, BUF(s) + k, c); else if (which == 2) r = s_insert_str_pos_n(&s, i, &s, k, c); \
  else { __CPROVER_assume(k == 0 && c == o.n); r = s_insert_str(&s, i, &s); } \
  POST(s, sp_splice(o, i, 0, old + k, c), "insert(i, <characters of the string itself>): the inserted characters are the old substring [k, k+c)"); VF_ASSERT(r == &s, "insert returns *this"); VF_REACH(); }
#define H_APPEND_SELF(NAME) void NAME(void) { ARB(s); VF_INPUT(unsigned char, k); VF_INPUT(unsigned char, c); VF_INPUT(unsigned char, which); view_t o = view_of(&s); \
  __CPROVER_assume(k <= o.n && c <= o.n - k && o.n + c <= N && which <= 4); char old[N + 1]; for (int j = 0; j <= N; ++j) old[j] = o.a[j]; S *r; \
  if (which == 0) r = s_append_ptr_n(&s, BUF(s) + k, c); else if (which == 1) r = s_append_sv(&s, BUF(s) + k, c); else if (which == 2) r = s_append_str_pos_n(&s, &s, k, c); \
  else if (which == 3) r = s_append_range(&s, BUF(s) + k, BUF(s) + k + c); else { __CPROVER_assume(k == 0 && c == o.n); r = s_append_str(&s, &s); } \
  POST(s, sp_splice(o, o.n, 0, old + k, c), "append(<characters of the string itself>): the appended characters are the old substring [k, k+c)"); VF_ASSERT(r == &s, "append returns *this"); VF_REACH(); }
/* the string itself as the OTHER operand: relations, searches and affix tests with both operands the same object, views into the
 * string's own storage, self-assignment and self-swap */
#define H_SELF_OPERAND(NAME) void NAME(void) { ARB(s); VF_INPUT(unsigned char, k); VF_INPUT(unsigned char, c); view_t o = view_of(&s); __CPROVER_assume(k <= o.n && c <= o.n - k); \
  VF_ASSERT(s_compare_str(&s, &s) == 0 && s_eq(&s, &s) && !s_ne(&s, &s) && !s_lt(&s, &s) && s_le(&s, &s) && !s_gt(&s, &s) && s_ge(&s, &s), "relations of a string with itself"); \
  VF_ASSERT(s_find_str(&s, &s, 0) == 0 && s_rfind_str(&s, &s, ~0UL) == 0, "find/rfind of the string in itself"); \
  { _Bool pre = 1, suf = 1; for (int j = 0; j < N; ++j) { if (j < c && o.a[j] != o.a[k + j]) pre = 0; if (j < c && o.a[o.n - c + j] != o.a[k + j]) suf = 0; } \
    VF_ASSERT(s_starts_sv(&s, BUF(s) + k, c) == pre && s_ends_sv(&s, BUF(s) + k, c) == suf && s_contains_sv(&s, BUF(s) + k, c), "starts_with/ends_with/contains with a view into the string's own storage"); } \
  S *r = s_assign_str(&s, &s); POST(s, o, "self-assignment assign(s) leaves the value unchanged"); VF_ASSERT(r == &s, "assign returns *this"); \
  s_swap(&s, &s); POST(s, o, "self-swap leaves the value unchanged"); VF_REACH(); }
/*@GROUP name=self_operand props=C04,C02,C05 kind=K unwind=11 when=VF_N<=7@*/
H_SELF_OPERAND(h_self_operand)
/*@GROUP name=insert_self props=C04,C02 kind=K unwind=11 when=VF_N<=7@*/
H_INSERT_SELF(h_insert_self, N)
/*@GROUP name=insert_self_m props=C04,C02 kind=B bound=inserted<=1 unwind=20 when=7<VF_N<=16 objbits=13 tier=thorough timeout=3000@*/
H_INSERT_SELF(h_insert_self_m, 1)   /* one inserted character: two did not finish in 3000 s at capacity 15/16 (rotate over symbolic positions) */
/*@GROUP name=append_self props=C04,C02 kind=K unwind=11 when=VF_N<=7@*/
H_APPEND_SELF(h_append_self)
/*@GROUP name=append_self_m props=C04,C02 kind=K unwind=20 when=7<VF_N<=16 objbits=13 tier=thorough timeout=3000@*/
H_APPEND_SELF(h_append_self_m)
/*@GROUP name=assign_buf props=C04,C02,C05 kind=K unwind=11 when=VF_N<=7@*/
H_ASSIGN_BUF(h_assign_buf, ((void)0))
/*@GROUP name=assign_buf_m props=C04,C02,C05 kind=K unwind=20 when=7<VF_N<=16@*/
H_ASSIGN_BUF(h_assign_buf_m, ((void)0))
/*@GROUP name=assign_buf_w props=C04,C02,C05 kind=K unwind=35 when=VF_N>16 tier=thorough timeout=3000@*/
H_ASSIGN_BUF(h_assign_buf_w, ((void)0))

/*@COMMON@*/
#define H_ASSIGN_CSTR(NAME, KNOWN) void NAME(void) { ARB(s); VF_INPUT(unsigned char, c); VF_INPUT_BOOL(op); __CPROVER_assume(c <= N); CSTR(src, c, N); S *r; \
  if (op) r = s_opassign_cstr(&s, src); else r = s_assign_cstr(&s, src); \
  POST(s, sp_splice(sp_empty(), 0, 0, src, c), "assign(char const*) / operator=(char const*): the characters before the terminator"); VF_ASSERT(r == &s, "assign returns *this"); VF_REACH(); }
/*@GROUP name=assign_cstr props=C04,C02,C05 kind=K unwind=11 when=VF_N<=7@*/
H_ASSIGN_CSTR(h_assign_cstr, ((void)0))
/*@GROUP name=assign_cstr_m props=C04,C02,C05 kind=K unwind=20 when=7<VF_N<=16@*/
H_ASSIGN_CSTR(h_assign_cstr_m, ((void)0))
/*@GROUP name=assign_cstr_w props=C04,C02,C05 kind=K unwind=35 when=VF_N>16 tier=thorough timeout=3000@*/
H_ASSIGN_CSTR(h_assign_cstr_w, ((void)0))

/*@COMMON@*/
#define H_ASSIGN_SUB(NAME, KNOWN) void NAME(void) { ARB(s); ARB(t); VF_INPUT(unsigned long, pos); VF_INPUT(unsigned long, cnt); VF_INPUT(unsigned char, m); VF_INPUT(unsigned char, which); view_t b = view_of(&t); S *r; \
  __CPROVER_assume(m <= N + 1); XBUF(char, src, m, N + 1); \
  if (which <= 1) { __CPROVER_assume(pos <= b.n); unsigned long rlen = which == 0 ? umin(cnt, b.n - pos) : b.n - pos; \
    r = which == 0 ? s_assign_str_pos_n(&s, &t, pos, cnt) : s_assign_str_pos(&s, &t, pos); \
    POST(s, sp_splice(sp_empty(), 0, 0, b.a + pos, rlen), "assign(str, pos[, n]): str.substr(pos, n)"); VF_ASSERT(view_eq(view_of(&t), b) && WF(t), "the source string is unchanged"); } \
  else { __CPROVER_assume(pos <= m); unsigned long rlen = which == 2 ? umin(cnt, m - pos) : m - pos; __CPROVER_assume(rlen <= N); \
    r = which == 2 ? s_assign_sv_pos_n(&s, src, m, pos, cnt) : s_assign_sv_pos(&s, src, m, pos); \
    POST(s, sp_splice(sp_empty(), 0, 0, src + pos, rlen), "assign(sv, pos[, n]): sv.substr(pos, n)"); } \
  VF_ASSERT(r == &s, "assign returns *this"); VF_REACH(); }
/*@GROUP name=assign_sub props=C04,C02,C05 kind=K unwind=11 when=VF_N<=7@*/
H_ASSIGN_SUB(h_assign_sub, ((void)0))
/*@GROUP name=assign_sub_m props=C04,C02,C05 kind=K unwind=20 when=7<VF_N<=16@*/
H_ASSIGN_SUB(h_assign_sub_m, ((void)0))
/*@GROUP name=assign_sub_w props=C04,C02,C05 kind=K unwind=35 when=VF_N>16 tier=thorough timeout=3000@*/
H_ASSIGN_SUB(h_assign_sub_w, ((void)0))

/*@COMMON@*/
/* ---- append: the overloads built on append(count, ch) / append(s, count) CLAMP to the capacity ("maximum up to its capacity"); the ones built on
 * push_back (append(first, last), append(str), operator+=(str)) have the contract size() < capacity() per appended character: they are specified
 * for results that fit, exceeding calls are in viol_grow. */

/*@COMMON@*/
#define H_APPEND_FILL(NAME, KNOWN) void NAME(void) { ARB(s); VF_INPUT(unsigned long, c); VF_INPUT(char, ch); VF_INPUT(unsigned char, which); view_t o = view_of(&s); fill_t f = sp_fill(ch); S *r = &s; \
  if (which == 0) r = s_append_n_ch(&s, c, ch); else if (which == 1) { c = 1; r = s_pluseq_ch(&s, ch); } else { c = 1; __CPROVER_assume(o.n < N); s_push_back(&s, ch); } \
  POST(s, sp_splice(o, o.n, 0, f.a, umin(c, N - o.n)), "append(count, ch) / operator+=(ch) / push_back(ch): min(count, capacity - size) copies of ch are appended, the prefix is unchanged"); \
  VF_ASSERT(r == &s, "append returns *this"); CAPACITY_UNCHANGED(s); VF_REACH(); }
/*@GROUP name=append_fill props=C04,C02,C05 kind=K unwind=11 when=VF_N<=7@*/
H_APPEND_FILL(h_append_fill, ((void)0))
/*@GROUP name=append_fill_m props=C04,C02,C05 kind=K unwind=20 when=7<VF_N<=16@*/
H_APPEND_FILL(h_append_fill_m, ((void)0))
/*@GROUP name=append_fill_w props=C04,C02,C05 kind=K unwind=35 when=VF_N>16 tier=thorough timeout=3000@*/
H_APPEND_FILL(h_append_fill_w, ((void)0))

/*@COMMON@*/
#define H_APPEND_BUF(NAME, KNOWN) void NAME(void) { ARB(s); VF_INPUT(unsigned char, c); VF_INPUT(unsigned char, which); __CPROVER_assume(c <= N + 1); XBUF(char, src, c, N + 1); view_t o = view_of(&s); S *r; \
  if (which == 0) r = s_append_ptr_n(&s, src, c); else if (which == 1) r = s_append_sv(&s, src, c); else r = s_pluseq_sv(&s, src, c); \
  POST(s, sp_splice(o, o.n, 0, src, umin(c, N - o.n)), "append(s, count) / (string_view), operator+=(string_view): the first min(count, capacity - size) source characters are appended"); \
  VF_ASSERT(r == &s, "append returns *this"); VF_REACH(); }
/*@GROUP name=append_buf props=C04,C02,C05 kind=K unwind=11 when=VF_N<=7@*/
H_APPEND_BUF(h_append_buf, ((void)0))
/*@GROUP name=append_buf_m props=C04,C02,C05 kind=K unwind=20 when=7<VF_N<=16@*/
H_APPEND_BUF(h_append_buf_m, ((void)0))
/*@GROUP name=append_buf_w props=C04,C02,C05 kind=K unwind=35 when=VF_N>16 tier=thorough timeout=3000@*/
H_APPEND_BUF(h_append_buf_w, ((void)0))

/*@COMMON@*/
#define H_APPEND_RANGE(NAME, KNOWN) void NAME(void) { ARB(s); VF_INPUT(unsigned char, c); view_t o = view_of(&s); __CPROVER_assume(c <= N - o.n); XBUF(char, src, c, N); \
  S *r = s_append_range(&s, src, src + c); \
  POST(s, sp_splice(o, o.n, 0, src, c), "append(first, last): the source range is appended"); VF_ASSERT(r == &s, "append returns *this"); VF_REACH(); }
/*@GROUP name=append_range props=C04,C02,C05 kind=K unwind=11 when=VF_N<=7 objbits=12 unwindset=_ZN3etl4fillIPccEEvT_S2_RKT0_.0:3@*/
H_APPEND_RANGE(h_append_range, ((void)0))
/*@GROUP name=append_range_m props=C04,C02,C05 kind=K unwind=20 when=7<VF_N<=16 objbits=12 unwindset=_ZN3etl4fillIPccEEvT_S2_RKT0_.0:3@*/
H_APPEND_RANGE(h_append_range_m, ((void)0))
/*@GROUP name=append_range_w props=C04,C02,C05 kind=K unwind=35 when=VF_N>16 objbits=12 unwindset=_ZN3etl4fillIPccEEvT_S2_RKT0_.0:3 tier=thorough timeout=3000@*/
H_APPEND_RANGE(h_append_range_w, ((void)0))

/*@COMMON@*/
#define H_APPEND_CSTR(NAME, KNOWN) void NAME(void) { ARB(s); VF_INPUT(unsigned char, c); VF_INPUT_BOOL(op); __CPROVER_assume(c <= N + 1); CSTR(src, c, N + 1); view_t o = view_of(&s); S *r; \
  if (op) r = s_pluseq_cstr(&s, src); else r = s_append_cstr(&s, src); \
  POST(s, sp_splice(o, o.n, 0, src, umin(c, N - o.n)), "append(char const*) / operator+=(char const*): the first min(strlen, capacity - size) characters are appended"); VF_ASSERT(r == &s, "append returns *this"); VF_REACH(); }
/*@GROUP name=append_cstr props=C04,C02,C05 kind=K unwind=11 when=VF_N<=7@*/
H_APPEND_CSTR(h_append_cstr, ((void)0))
/*@GROUP name=append_cstr_m props=C04,C02,C05 kind=K unwind=20 when=7<VF_N<=16@*/
H_APPEND_CSTR(h_append_cstr_m, ((void)0))
/*@GROUP name=append_cstr_w props=C04,C02,C05 kind=K unwind=35 when=VF_N>16 tier=thorough timeout=3000@*/
H_APPEND_CSTR(h_append_cstr_w, ((void)0))

/*@COMMON@*/
#define H_APPEND_STR(NAME, KNOWN) void NAME(void) { ARB(s); ARB(t); VF_INPUT_BOOL(op); view_t o = view_of(&s), b = view_of(&t); __CPROVER_assume(b.n <= N - o.n); \
  S *r = op ? s_pluseq_str(&s, &t) : s_append_str(&s, &t); \
  POST(s, sp_splice(o, o.n, 0, b.a, b.n), "append(str) / operator+=(str): str is appended"); VF_ASSERT(r == &s, "append returns *this"); \
  VF_ASSERT(view_eq(view_of(&t), b) && WF(t), "the source string is unchanged"); VF_REACH(); }
/*@GROUP name=append_str props=C04,C02,C05 kind=K unwind=11 when=VF_N<=7 objbits=12 unwindset=_ZN3etl4fillIPccEEvT_S2_RKT0_.0:3@*/
H_APPEND_STR(h_append_str, ((void)0))
/*@GROUP name=append_str_m props=C04,C02,C05 kind=K unwind=20 when=7<VF_N<=16 objbits=12 unwindset=_ZN3etl4fillIPccEEvT_S2_RKT0_.0:3@*/
H_APPEND_STR(h_append_str_m, ((void)0))
/*@GROUP name=append_str_w props=C04,C02,C05 kind=K unwind=35 when=VF_N>16 objbits=12 unwindset=_ZN3etl4fillIPccEEvT_S2_RKT0_.0:3 tier=thorough timeout=3000@*/
H_APPEND_STR(h_append_str_w, ((void)0))

/*@COMMON@*/
#define H_APPEND_STR_SUB(NAME, KNOWN) void NAME(void) { ARB(s); ARB(t); VF_INPUT(unsigned char, pos); VF_INPUT(unsigned long, cnt); VF_INPUT_BOOL(dflt); view_t o = view_of(&s), b = view_of(&t); \
  if (dflt) cnt = NPOS; __CPROVER_assume(pos <= b.n); unsigned long rlen = umin(cnt, b.n - pos); __CPROVER_assume(rlen <= N - o.n); \
  S *r = dflt ? s_append_str_pos(&s, &t, pos) : s_append_str_pos_n(&s, &t, pos, cnt); \
  POST(s, sp_splice(o, o.n, 0, b.a + pos, rlen), "append(str, pos[, n]): str.substr(pos, n) is appended"); VF_ASSERT(r == &s, "append returns *this"); \
  VF_ASSERT(view_eq(view_of(&t), b) && WF(t), "the source string is unchanged"); VF_REACH(); }
/*@GROUP name=append_str_sub props=C04,C02,C05 kind=K unwind=11 when=VF_N<=7 objbits=12 unwindset=_ZN3etl4fillIPccEEvT_S2_RKT0_.0:3@*/
H_APPEND_STR_SUB(h_append_str_sub, ((void)0))
/*@GROUP name=append_str_sub_m props=C04,C02,C05 kind=K unwind=20 when=7<VF_N<=16 tier=thorough solver=kissat objbits=12 unwindset=_ZN3etl4fillIPccEEvT_S2_RKT0_.0:3@*/
H_APPEND_STR_SUB(h_append_str_sub_m, ((void)0))
/*@GROUP name=append_str_sub_w props=C04,C02,C05 kind=K unwind=35 when=VF_N>16 objbits=12 unwindset=_ZN3etl4fillIPccEEvT_S2_RKT0_.0:3 tier=thorough timeout=6000@*/
H_APPEND_STR_SUB(h_append_str_sub_w, ((void)0))

/*@COMMON@*/
#define H_APPEND_SV_SUB(NAME, KNOWN) void NAME(void) { ARB(s); VF_INPUT(unsigned char, m); VF_INPUT(unsigned char, pos); VF_INPUT(unsigned long, cnt); __CPROVER_assume(m <= N + 1 && pos <= m); XBUF(char, src, m, N + 1); view_t o = view_of(&s); \
  unsigned long rlen = umin(cnt, m - pos); S *r = s_append_sv_pos_n(&s, src, m, pos, cnt); \
  POST(s, sp_splice(o, o.n, 0, src + pos, umin(rlen, N - o.n)), "append(sv, pos, n): the first min(rlen, capacity - size) characters of sv.substr(pos, n) are appended"); VF_ASSERT(r == &s, "append returns *this"); VF_REACH(); }
/*@GROUP name=append_sv_sub props=C04,C02,C05 kind=K unwind=11 when=VF_N<=7@*/
H_APPEND_SV_SUB(h_append_sv_sub, ((void)0))
/*@GROUP name=append_sv_sub_m props=C04,C02,C05 kind=K unwind=20 when=7<VF_N<=16 solver=kissat@*/
H_APPEND_SV_SUB(h_append_sv_sub_m, ((void)0))
/*@GROUP name=append_sv_sub_w props=C04,C02,C05 kind=K unwind=35 when=VF_N>16 tier=thorough timeout=3000@*/
H_APPEND_SV_SUB(h_append_sv_sub_w, ((void)0))

/*@COMMON@*/
#define H_APPEND_SV_POS(NAME, KNOWN) void NAME(void) { ARB(s); VF_INPUT(unsigned char, m); VF_INPUT(unsigned char, pos); __CPROVER_assume(m <= N + 1 && pos <= m); XBUF(char, src, m, N + 1); view_t o = view_of(&s); \
  S *r = s_append_sv_pos(&s, src, m, pos); \
  POST(s, sp_splice(o, o.n, 0, src + pos, umin(m - pos, N - o.n)), "append(sv, pos): the first min(sv.size() - pos, capacity - size) characters of sv.substr(pos) are appended"); VF_ASSERT(r == &s, "append returns *this"); VF_REACH(); }
/*@GROUP name=append_sv_pos props=C04,C02,C05 kind=K unwind=11 when=VF_N<=7@*/
H_APPEND_SV_POS(h_append_sv_pos, ((void)0))
/*@GROUP name=append_sv_pos_m props=C04,C02,C05 kind=K unwind=20 when=7<VF_N<=16@*/
H_APPEND_SV_POS(h_append_sv_pos_m, ((void)0))
/*@GROUP name=append_sv_pos_w props=C04,C02,C05 kind=K unwind=35 when=VF_N>16 tier=thorough timeout=3000@*/
H_APPEND_SV_POS(h_append_sv_pos_w, ((void)0))

/*@COMMON@*/
#define H_POP_BACK(NAME, KNOWN) void NAME(void) { ARB(s); view_t o = view_of(&s); __CPROVER_assume(o.n > 0); s_pop_back(&s); \
  POST(s, sp_splice(o, o.n - 1, 1, o.a, 0), "pop_back: the last character is removed, the prefix is unchanged"); VF_REACH(); }
/*@GROUP name=pop_back props=C04,C02,C05 kind=K unwind=11 when=VF_N<=7@*/
H_POP_BACK(h_pop_back, ((void)0))
/*@GROUP name=pop_back_m props=C04,C02,C05 kind=K unwind=20 when=7<VF_N<=16@*/
H_POP_BACK(h_pop_back_m, ((void)0))
/*@GROUP name=pop_back_w props=C04,C02,C05 kind=K unwind=35 when=VF_N>16 tier=thorough timeout=3000@*/
H_POP_BACK(h_pop_back_w, ((void)0))

/*@COMMON@*/
/* ---- insert (index forms only: the iterator forms are commented out in tetl).  insert = append + rotate, and append clamps: an insertion that
 * does not fit inserts the first capacity - size source characters. */

/*@COMMON@*/
/* count <= N + 1: insert(index, count, ch) loops count times, every round beyond the capacity is a no-op */
#define H_INSERT_FILL(NAME, KNOWN) void NAME(void) { ARB(s); VF_INPUT(unsigned char, p); VF_INPUT(unsigned char, c); VF_INPUT(char, ch); view_t o = view_of(&s); fill_t f = sp_fill(ch); __CPROVER_assume(p <= o.n && c <= N + 1); \
  KNOWN; S *r = s_insert_n_ch(&s, p, c, ch); \
  POST(s, sp_splice(o, p, 0, f.a, umin(c, N - o.n)), "insert(index, count, ch): min(count, capacity - size) copies of ch before index; prefix and shifted suffix unchanged"); VF_ASSERT(r == &s, "insert returns *this"); VF_REACH(); }
/*@GROUP name=insert_fill props=C04,C02,C05 kind=K unwind=11 when=VF_N<=7 objbits=12 tier=thorough@*/
H_INSERT_FILL(h_insert_fill, ((void)0))

/*@COMMON@*/
#define H_INSERT_PTR_N(NAME, KNOWN) void NAME(void) { ARB(s); VF_INPUT(unsigned char, p); VF_INPUT(unsigned char, c); view_t o = view_of(&s); __CPROVER_assume(p <= o.n && c <= N + 1); XBUF(char, src, c, N + 1); \
  KNOWN; S *r = s_insert_ptr_n(&s, p, src, c); \
  POST(s, sp_splice(o, p, 0, src, umin(c, N - o.n)), "insert(index, s, count): the first min(count, capacity - size) source characters before index"); VF_ASSERT(r == &s, "insert returns *this"); VF_REACH(); }
/*@GROUP name=insert_ptr_n props=C04,C02,C05 kind=K unwind=11 when=VF_N<=7 objbits=12@*/
H_INSERT_PTR_N(h_insert_ptr_n, ((void)0))
/*@GROUP name=insert_ptr_n_m props=C04,C02,C05 kind=K unwind=20 when=7<VF_N<=16 objbits=12 tier=thorough@*/
H_INSERT_PTR_N(h_insert_ptr_n_m, ((void)0))

/*@COMMON@*/
#define H_INSERT_SV(NAME, KNOWN) void NAME(void) { ARB(s); VF_INPUT(unsigned char, p); VF_INPUT(unsigned char, c); view_t o = view_of(&s); __CPROVER_assume(p <= o.n && c <= N + 1); XBUF(char, src, c, N + 1); \
  KNOWN; S *r = s_insert_sv(&s, p, src, c); \
  POST(s, sp_splice(o, p, 0, src, umin(c, N - o.n)), "insert(index, string_view): the first min(sv.size(), capacity - size) characters before index"); VF_ASSERT(r == &s, "insert returns *this"); VF_REACH(); }
/*@GROUP name=insert_sv props=C04,C02,C05 kind=K unwind=11 when=VF_N<=7 objbits=12@*/
H_INSERT_SV(h_insert_sv, ((void)0))
/*@GROUP name=insert_sv_m props=C04,C02,C05 kind=K unwind=20 when=7<VF_N<=16 objbits=12 tier=thorough@*/
H_INSERT_SV(h_insert_sv_m, ((void)0))

/*@COMMON@*/
#define H_INSERT_CSTR(NAME, KNOWN) void NAME(void) { ARB(s); VF_INPUT(unsigned char, p); VF_INPUT(unsigned char, c); view_t o = view_of(&s); __CPROVER_assume(p <= o.n && c <= N + 1); CSTR(src, c, N + 1); \
  KNOWN; S *r = s_insert_cstr(&s, p, src); \
  POST(s, sp_splice(o, p, 0, src, umin(c, N - o.n)), "insert(index, char const*): the first min(strlen, capacity - size) characters before index"); VF_ASSERT(r == &s, "insert returns *this"); VF_REACH(); }
/*@GROUP name=insert_cstr props=C04,C02,C05 kind=K unwind=11 when=VF_N<=7 objbits=12@*/
H_INSERT_CSTR(h_insert_cstr, ((void)0))
/*@GROUP name=insert_cstr_m props=C04,C02,C05 kind=K unwind=20 when=7<VF_N<=16 objbits=12 tier=thorough@*/
H_INSERT_CSTR(h_insert_cstr_m, ((void)0))

/*@COMMON@*/
#define H_INSERT_STR(NAME, KNOWN) void NAME(void) { ARB(s); ARB(t); VF_INPUT(unsigned char, p); view_t o = view_of(&s), b = view_of(&t); __CPROVER_assume(p <= o.n); \
  KNOWN; S *r = s_insert_str(&s, p, &t); \
  POST(s, sp_splice(o, p, 0, b.a, umin(b.n, N - o.n)), "insert(index, str): the first min(str.size(), capacity - size) characters of str before index"); VF_ASSERT(r == &s, "insert returns *this"); \
  VF_ASSERT(view_eq(view_of(&t), b) && WF(t), "the source string is unchanged"); VF_REACH(); }
/*@GROUP name=insert_str props=C04,C02,C05 kind=K unwind=11 when=VF_N<=7 objbits=12@*/
H_INSERT_STR(h_insert_str, ((void)0))
/*@GROUP name=insert_str_m props=C04,C02,C05 kind=K unwind=20 when=7<VF_N<=16 objbits=12 tier=thorough@*/
H_INSERT_STR(h_insert_str_m, ((void)0))

/*@COMMON@*/
#define H_INSERT_STR_SUB(NAME, KNOWN) void NAME(void) { ARB(s); ARB(t); VF_INPUT(unsigned char, p); VF_INPUT(unsigned char, pos); VF_INPUT(unsigned long, cnt); VF_INPUT_BOOL(dflt); view_t o = view_of(&s), b = view_of(&t); \
  if (dflt) cnt = NPOS; __CPROVER_assume(p <= o.n && pos <= b.n); unsigned long rlen = umin(cnt, b.n - pos); \
  KNOWN; S *r = dflt ? s_insert_str_pos(&s, p, &t, pos) : s_insert_str_pos_n(&s, p, &t, pos, cnt); \
  POST(s, sp_splice(o, p, 0, b.a + pos, umin(rlen, N - o.n)), "insert(index, str, pos[, n]): the first min(rlen, capacity - size) characters of str.substr(pos, n) before index"); VF_ASSERT(r == &s, "insert returns *this"); \
  VF_ASSERT(view_eq(view_of(&t), b) && WF(t), "the source string is unchanged"); VF_REACH(); }
/*@GROUP name=insert_str_sub props=C04,C02,C05 kind=K unwind=11 when=VF_N<=7 objbits=12 tier=thorough@*/
H_INSERT_STR_SUB(h_insert_str_sub, ((void)0))

/*@COMMON@*/
#define H_INSERT_SV_SUB(NAME, KNOWN) void NAME(void) { ARB(s); VF_INPUT(unsigned char, p); VF_INPUT(unsigned char, m); VF_INPUT(unsigned char, pos); VF_INPUT(unsigned long, cnt); VF_INPUT_BOOL(dflt); view_t o = view_of(&s); \
  __CPROVER_assume(p <= o.n && m <= N + 1 && pos <= m); XBUF(char, src, m, N + 1); if (dflt) cnt = NPOS; unsigned long rlen = umin(cnt, m - pos); \
  KNOWN; S *r = dflt ? s_insert_sv_pos(&s, p, src, m, pos) : s_insert_sv_pos_n(&s, p, src, m, pos, cnt); \
  POST(s, sp_splice(o, p, 0, src + pos, umin(rlen, N - o.n)), "insert(index, sv, pos[, n]): the first min(rlen, capacity - size) characters of sv.substr(pos, n) before index"); VF_ASSERT(r == &s, "insert returns *this"); VF_REACH(); }
/*@GROUP name=insert_sv_sub props=C04,C02,C05 kind=K unwind=11 when=VF_N<=7 objbits=12 tier=thorough@*/
H_INSERT_SV_SUB(h_insert_sv_sub, ((void)0))

/*@COMMON@*/
/* ---- erase */

/*@COMMON@*/
#define H_ERASE_IDX(NAME, KNOWN) void NAME(void) { ARB(s); VF_INPUT(unsigned char, p); VF_INPUT(unsigned long, cnt); VF_INPUT(unsigned char, which); view_t o = view_of(&s); \
  if (which == 1) cnt = NPOS; else if (which >= 2) { p = 0; cnt = NPOS; } \
  __CPROVER_assume(p <= o.n); unsigned long xlen = umin(cnt, o.n - p); \
  KNOWN; S *r = which == 0 ? s_erase_idx(&s, p, cnt) : which == 1 ? s_erase_idx1(&s, p) : s_erase_all(&s); \
  POST(s, sp_splice(o, p, xlen, o.a, 0), "erase(index = 0, count = npos): min(count, size - index) characters removed, the suffix moves down"); VF_ASSERT(r == &s, "erase returns *this"); VF_REACH(); }
/*@GROUP name=erase_idx props=C04,C02,C05 kind=K unwind=11 when=VF_N<=7 objbits=12@*/
H_ERASE_IDX(h_erase_idx, VF_KNOWN(C05_erase_whole, xlen == o.n))
/*@GROUP name=erase_idx_m props=C04,C02,C05 kind=K unwind=20 when=7<VF_N<=16 objbits=12 solver=kissat tier=thorough@*/
H_ERASE_IDX(h_erase_idx_m, VF_KNOWN(C05_erase_whole, xlen == o.n))

/*@COMMON@*/
#define H_ERASE_IT(NAME, KNOWN) void NAME(void) { ARB(s); VF_INPUT(unsigned char, f); VF_INPUT(unsigned char, l); VF_INPUT_BOOL(one); view_t o = view_of(&s); \
  if (one) { __CPROVER_assume(f < o.n); l = f + 1; } else __CPROVER_assume(f <= l && l <= o.n); \
  KNOWN; char *r = one ? s_erase_it(&s, data_of(&s) + f) : s_erase_range(&s, data_of(&s) + f, data_of(&s) + l); \
  POST(s, sp_splice(o, f, l - f, o.a, 0), "erase(position) / erase(first, last): the range is removed, the suffix moves down"); \
  VF_ASSERT(r == data_of(&s) + f, "erase returns the iterator to the character that followed the erased range (begin() + first)"); VF_REACH(); }
/*@GROUP name=erase_it props=C04,C02,C05 kind=K unwind=11 when=VF_N<=7 objbits=12@*/
H_ERASE_IT(h_erase_it, VF_KNOWN(C05_erase_whole, l - f == o.n))
/*@GROUP name=erase_it_m props=C04,C02,C05 kind=K unwind=20 when=7<VF_N<=16 objbits=12 solver=kissat tier=thorough@*/
H_ERASE_IT(h_erase_it_m, VF_KNOWN(C05_erase_whole, l - f == o.n))

/*@COMMON@*/
#define H_ERASE_VALUE(NAME, KNOWN) void NAME(void) { ARB(s); VF_INPUT(char, x); VF_INPUT_BOOL(pred); view_t o = view_of(&s); view_t e = sp_empty(); \
  for (int i = 0; i < N; ++i) if ((unsigned long)i < o.n && !(pred ? (o.a[i] & 1) == 0 : o.a[i] == x)) { e.a[e.n] = o.a[i]; ++e.n; } \
  KNOWN; unsigned long r = pred ? s_erase_if(&s) : s_erase_value(&s, x); \
  POST(s, e, "erase(c, value) / erase_if(c, pred): exactly the non-matching characters survive, in their original order"); \
  VF_ASSERT(r == o.n - e.n, "erase / erase_if return the number of removed characters"); VF_REACH(); }
/*@GROUP name=erase_value props=C04,C02 kind=K unwind=11 when=VF_N<=7 objbits=12@*/
H_ERASE_VALUE(h_erase_value, VF_KNOWN(C05_erase_whole, e.n == 0))
/*@GROUP name=erase_value_m props=C04,C02 kind=K unwind=20 when=7<VF_N<=16 solver=kissat timeout=3000 objbits=12 tier=thorough@*/
H_ERASE_VALUE(h_erase_value_m, VF_KNOWN(C05_erase_whole, e.n == 0))

/*@COMMON@*/
/* ---- replace.  Reference: [string.replace] (xlen = min(n1, size - pos); result = prefix + new text + suffix, the size changes by m - xlen).
 * tetl overwrites min(xlen, m) characters in place and never changes the size; the index forms additionally require pos < size and pos + n1 < size.
 * The two agree exactly when m == xlen (and, for the index forms, pos + n1 < size): everything else is the witness class of C04_replace_not_std. */

/*@COMMON@*/
#define H_REPLACE_STR(NAME, KNOWN) void NAME(void) { ARB(s); ARB(t); VF_INPUT(unsigned char, p); VF_INPUT(unsigned long, cnt); view_t o = view_of(&s), b = view_of(&t); \
  __CPROVER_assume(p <= o.n); unsigned long xlen = umin(cnt, o.n - p); __CPROVER_assume(o.n - xlen + b.n <= N); \
  KNOWN; S *r = s_replace_str(&s, p, cnt, &t); \
  POST(s, sp_splice(o, p, xlen, b.a, b.n), "replace(pos, n1, str): [pos, pos + xlen) is replaced by str"); VF_ASSERT(r == &s, "replace returns *this"); VF_REACH(); }
/*@GROUP name=replace_str props=C04,C02,C05 kind=K unwind=11 when=VF_N<=7@*/
H_REPLACE_STR(h_replace_str, VF_KNOWN(C04_replace_not_std, !(b.n == xlen && cnt < o.n - p)))
/*@GROUP name=replace_str_m props=C04,C02,C05 kind=K unwind=20 when=7<VF_N<=16@*/
H_REPLACE_STR(h_replace_str_m, VF_KNOWN(C04_replace_not_std, !(b.n == xlen && cnt < o.n - p)))
/*@GROUP name=replace_str_w props=C04,C02,C05 kind=K unwind=35 when=VF_N>16 tier=thorough timeout=3000@*/
H_REPLACE_STR(h_replace_str_w, VF_KNOWN(C04_replace_not_std, !(b.n == xlen && cnt < o.n - p)))

/*@COMMON@*/
#define H_REPLACE_STR_SUB(NAME, KNOWN) void NAME(void) { ARB(s); ARB(t); VF_INPUT(unsigned char, p); VF_INPUT(unsigned long, cnt); VF_INPUT(unsigned char, pos2); VF_INPUT(unsigned long, cnt2); VF_INPUT_BOOL(dflt); view_t o = view_of(&s), b = view_of(&t); \
  if (dflt) cnt2 = NPOS; __CPROVER_assume(p <= o.n && pos2 <= b.n); unsigned long xlen = umin(cnt, o.n - p), rlen = umin(cnt2, b.n - pos2); __CPROVER_assume(o.n - xlen + rlen <= N); \
  KNOWN; S *r = dflt ? s_replace_str_pos(&s, p, cnt, &t, pos2) : s_replace_str_pos_n(&s, p, cnt, &t, pos2, cnt2); \
  POST(s, sp_splice(o, p, xlen, b.a + pos2, rlen), "replace(pos, n1, str, pos2[, n2]): [pos, pos + xlen) is replaced by str.substr(pos2, n2)"); VF_ASSERT(r == &s, "replace returns *this"); VF_REACH(); }
/*@GROUP name=replace_str_sub props=C04,C02,C05 kind=K unwind=11 when=VF_N<=7@*/
H_REPLACE_STR_SUB(h_replace_str_sub, VF_KNOWN(C04_replace_not_std, !(rlen == xlen && p < o.n && pos2 < b.n && cnt <= NPOS - p && cnt2 <= NPOS - pos2)))
/*@GROUP name=replace_str_sub_m props=C04,C02,C05 kind=K unwind=20 when=7<VF_N<=16@*/
H_REPLACE_STR_SUB(h_replace_str_sub_m, VF_KNOWN(C04_replace_not_std, !(rlen == xlen && p < o.n && pos2 < b.n && cnt <= NPOS - p && cnt2 <= NPOS - pos2)))
/*@GROUP name=replace_str_sub_w props=C04,C02,C05 kind=K unwind=35 when=VF_N>16 tier=thorough timeout=3000@*/
H_REPLACE_STR_SUB(h_replace_str_sub_w, VF_KNOWN(C04_replace_not_std, !(rlen == xlen && p < o.n && pos2 < b.n && cnt <= NPOS - p && cnt2 <= NPOS - pos2)))

/*@COMMON@*/
#define H_REPLACE_BUF(NAME, KNOWN) void NAME(void) { ARB(s); VF_INPUT(unsigned char, p); VF_INPUT(unsigned long, cnt); VF_INPUT(unsigned char, c); VF_INPUT_BOOL(cs); view_t o = view_of(&s); \
  __CPROVER_assume(p <= o.n && c <= N); unsigned long xlen = umin(cnt, o.n - p); __CPROVER_assume(o.n - xlen + c <= N); \
  XBUF(char, src, (unsigned long)c + cs, N + 1); if (cs) { __CPROVER_assume(src[c] == 0); for (int j = 0; j < N; ++j) __CPROVER_assume(j >= c || src[j] != 0); } \
  KNOWN; S *r = cs ? s_replace_cstr(&s, p, cnt, src) : s_replace_ptr_n(&s, p, cnt, src, c); \
  POST(s, sp_splice(o, p, xlen, src, c), "replace(pos, n1, s, n2) / replace(pos, n1, char const*): [pos, pos + xlen) is replaced by the source characters"); VF_ASSERT(r == &s, "replace returns *this"); VF_REACH(); }
/*@GROUP name=replace_buf props=C04,C02,C05 kind=K unwind=11 when=VF_N<=7@*/
H_REPLACE_BUF(h_replace_buf, VF_KNOWN(C04_replace_not_std, !(c == xlen && cnt < o.n - p)))
/*@GROUP name=replace_buf_m props=C04,C02,C05 kind=K unwind=20 when=7<VF_N<=16@*/
H_REPLACE_BUF(h_replace_buf_m, VF_KNOWN(C04_replace_not_std, !(c == xlen && cnt < o.n - p)))
/*@GROUP name=replace_buf_w props=C04,C02,C05 kind=K unwind=35 when=VF_N>16 tier=thorough timeout=3000@*/
H_REPLACE_BUF(h_replace_buf_w, VF_KNOWN(C04_replace_not_std, !(c == xlen && cnt < o.n - p)))

/*@COMMON@*/
#define H_REPLACE_IT(NAME, KNOWN) void NAME(void) { ARB(s); ARB(t); VF_INPUT(unsigned char, f); VF_INPUT(unsigned char, l); VF_INPUT(unsigned char, c); VF_INPUT(char, ch); VF_INPUT(unsigned char, which); view_t o = view_of(&s), b = view_of(&t); fill_t fl = sp_fill(ch); \
  _Bool cs = which == 2; __CPROVER_assume(f <= l && l <= o.n && c <= N); XBUF(char, src, (unsigned long)c + cs, N + 1); if (cs) { __CPROVER_assume(src[c] == 0); for (int j = 0; j < N; ++j) __CPROVER_assume(j >= c || src[j] != 0); } \
  unsigned long m = which == 0 ? b.n : c; __CPROVER_assume(o.n - (l - f) + m <= N); \
  char nd[N + 2]; for (int j = 0; j < N + 2; ++j) nd[j] = which == 0 ? (j <= N ? b.a[j] : 0) : which >= 3 ? ch : (j < c ? src[j] : 0); \
  KNOWN; char *pf = data_of(&s) + f, *pl = data_of(&s) + l; \
  S *r = which == 0 ? s_replace_it_str(&s, pf, pl, &t) : which == 1 ? s_replace_it_ptr_n(&s, pf, pl, src, c) : which == 2 ? s_replace_it_cstr(&s, pf, pl, src) : s_replace_it_n_ch(&s, pf, pl, c, ch); \
  POST(s, sp_splice(o, f, l - f, nd, m), "replace(first, last, str | s, n2 | char const* | n2, ch): [first, last) is replaced by the new characters"); VF_ASSERT(r == &s, "replace returns *this"); VF_REACH(); }
/*@GROUP name=replace_it props=C04,C02,C05 kind=K unwind=11 when=VF_N<=7@*/
H_REPLACE_IT(h_replace_it, VF_KNOWN(C04_replace_not_std, m != (unsigned long)(l - f)))
/*@GROUP name=replace_it_m props=C04,C02,C05 kind=K unwind=20 when=7<VF_N<=16@*/
H_REPLACE_IT(h_replace_it_m, VF_KNOWN(C04_replace_not_std, m != (unsigned long)(l - f)))
/*@GROUP name=replace_it_w props=C04,C02,C05 kind=K unwind=35 when=VF_N>16 tier=thorough timeout=3000@*/
H_REPLACE_IT(h_replace_it_w, VF_KNOWN(C04_replace_not_std, m != (unsigned long)(l - f)))

/*@COMMON@*/
/* ---- resize / clear / swap */

/*@COMMON@*/
/* documented: "additional characters are appended, maximum up to its capacity": a count beyond the capacity fills the string up */
#define H_RESIZE(NAME, KNOWN) void NAME(void) { ARB(s); VF_INPUT(unsigned long, m); VF_INPUT(char, ch); VF_INPUT_BOOL(with_ch); view_t o = view_of(&s); if (!with_ch) ch = 0; fill_t f = sp_fill(ch); \
  KNOWN; if (with_ch) s_resize_ch(&s, m, ch); else s_resize(&s, m); \
  unsigned long m2 = umin(m, N); view_t e = m2 <= o.n ? sp_splice(o, m2, o.n - m2, o.a, 0) : sp_splice(o, o.n, 0, f.a, m2 - o.n); \
  POST(s, e, "resize(count[, ch]): size() == min(count, capacity); the common prefix is kept, new characters are ch / char()"); VF_REACH(); }
/*@GROUP name=resize props=C04,C02,C05 kind=K unwind=11 when=VF_N<=7@*/
H_RESIZE(h_resize, VF_KNOWN(C04_resize_grow, o.n > 0 && m > o.n && m < N))
/*@GROUP name=resize_m props=C04,C02,C05 kind=K unwind=20 when=7<VF_N<=16@*/
H_RESIZE(h_resize_m, VF_KNOWN(C04_resize_grow, o.n > 0 && m > o.n && m < N))
/*@GROUP name=resize_w props=C04,C02,C05 kind=K unwind=35 when=VF_N>16 tier=thorough timeout=3000@*/
H_RESIZE(h_resize_w, VF_KNOWN(C04_resize_grow, o.n > 0 && m > o.n && m < N))

/*@COMMON@*/
#define H_CLEAR(NAME, KNOWN) void NAME(void) { ARB(s); s_clear(&s); POST(s, sp_empty(), "clear(): empty"); VF_ASSERT(s_size(&s) == 0 && s_empty(&s), "clear(): size() == 0"); CAPACITY_UNCHANGED(s); VF_REACH(); }
/*@GROUP name=clear props=C04,C02 kind=K unwind=11 when=VF_N<=7@*/
H_CLEAR(h_clear, ((void)0))
/*@GROUP name=clear_m props=C04,C02 kind=K unwind=20 when=7<VF_N<=16@*/
H_CLEAR(h_clear_m, ((void)0))
/*@GROUP name=clear_w props=C04,C02 kind=K unwind=35 when=VF_N>16 tier=thorough timeout=3000@*/
H_CLEAR(h_clear_w, ((void)0))

/*@COMMON@*/
#define H_SWAP(NAME, KNOWN) void NAME(void) { ARB(a); ARB(b); VF_INPUT_BOOL(fr); view_t oa = view_of(&a), ob = view_of(&b); \
  KNOWN; if (fr) s_swap_free(&a, &b); else s_swap(&a, &b); \
  VF_ASSERT(WF(a) && WF(b), "C04: wf after swap: both strings null-terminated, size() <= capacity()"); VF_ASSERT(view_eq(view_of(&a), ob) && view_eq(view_of(&b), oa), "C04: swap exchanges the two strings"); VF_REACH(); }
/*@GROUP name=swap props=C04,C02 kind=K unwind=11 when=VF_N<=7@*/
H_SWAP(h_swap, VF_KNOWN(C04_swap_tiny_full, N < 16 && oa.n != ob.n && (oa.n == N || ob.n == N)))
/*@GROUP name=swap_m props=C04,C02 kind=K unwind=20 when=7<VF_N<=16@*/
H_SWAP(h_swap_m, VF_KNOWN(C04_swap_tiny_full, N < 16 && oa.n != ob.n && (oa.n == N || ob.n == N)))
/*@GROUP name=swap_w props=C04,C02 kind=K unwind=35 when=VF_N>16 tier=thorough timeout=3000@*/
H_SWAP(h_swap_w, VF_KNOWN(C04_swap_tiny_full, N < 16 && oa.n != ob.n && (oa.n == N || ob.n == N)))

/*@COMMON@*/
/* ---- substr / copy.  Documented deviation from [string.substr]/[string.copy]: pos > size() returns an empty string / copies nothing (std throws). */

/*@COMMON@*/
#define H_SUBSTR(NAME, KNOWN) void NAME(void) { ARB(s); VF_INPUT(S, t); VF_INPUT(unsigned long, pos); VF_INPUT(unsigned long, cnt); VF_INPUT(unsigned char, which); view_t o = view_of(&s); \
  if (which == 1) cnt = NPOS; else if (which >= 2) { pos = 0; cnt = NPOS; } \
  if (which == 0) s_substr(&t, &s, pos, cnt); else if (which == 1) s_substr_pos(&t, &s, pos); else s_substr_all(&t, &s); \
  unsigned long p2 = umin(pos, o.n); unsigned long rlen = pos > o.n ? 0 : umin(cnt, o.n - pos); \
  POST(t, sp_splice(sp_empty(), 0, 0, o.a + p2, rlen), "substr(pos = 0, n = npos): the characters [pos, pos + min(n, size - pos)); empty for pos > size (documented)"); \
  VF_ASSERT(WF(s) && view_eq(view_of(&s), o), "substr leaves *this unchanged"); VF_REACH(); }
/*@GROUP name=substr props=C04,C02,C05 kind=K unwind=11 when=VF_N<=7@*/
H_SUBSTR(h_substr, ((void)0))
/*@GROUP name=substr_m props=C04,C02,C05 kind=K unwind=20 when=7<VF_N<=16@*/
H_SUBSTR(h_substr_m, ((void)0))
/*@GROUP name=substr_w props=C04,C02,C05 kind=K unwind=35 when=VF_N>16 tier=thorough timeout=3000@*/
H_SUBSTR(h_substr_w, ((void)0))

/*@COMMON@*/
#define H_COPY(NAME, KNOWN) void NAME(void) { ARB(s); VF_INPUT(unsigned long, pos); VF_INPUT(unsigned long, cnt); VF_INPUT_BOOL(dflt); view_t o = view_of(&s); if (dflt) pos = 0; \
  unsigned long p2 = umin(pos, o.n); unsigned long rlen = pos > o.n ? 0 : umin(cnt, o.n - pos); \
  XBUF(char, dst, rlen, N); \
  unsigned long r = dflt ? s_copy0(&s, dst, cnt) : s_copy(&s, dst, cnt, pos); \
  VF_ASSERT(r == rlen, "C04: copy(dest, n, pos = 0) returns min(n, size - pos); 0 for pos > size (documented)"); \
  _Bool same = 1; for (int j = 0; j < N; ++j) if ((unsigned long)j < rlen && dst[j] != o.a[p2 + (unsigned long)j]) same = 0; \
  VF_ASSERT(same, "C04: copy stores exactly the characters [pos, pos + rlen) and no terminator (the destination has exactly rlen bytes)"); \
  VF_ASSERT(WF(s) && view_eq(view_of(&s), o), "copy leaves *this unchanged"); VF_REACH(); }
/*@GROUP name=copy props=C04,C02,C05 kind=K unwind=11 when=VF_N<=7@*/
H_COPY(h_copy, ((void)0))
/*@GROUP name=copy_m props=C04,C02,C05 kind=K unwind=20 when=7<VF_N<=16@*/
H_COPY(h_copy_m, ((void)0))
/*@GROUP name=copy_w props=C04,C02,C05 kind=K unwind=35 when=VF_N>16 tier=thorough timeout=3000@*/
H_COPY(h_copy_w, ((void)0))

/*@COMMON@*/
/* ---- compare / relational operators: sign of the result against [string.compare] with [char.traits.specializations.char] (unsigned char order) */

/*@COMMON@*/
#define H_COMPARE_STR(NAME, KNOWN) void NAME(void) { ARB(a); ARB(b); view_t oa = view_of(&a), ob = view_of(&b); seq_t x = seq_sub(oa.a, oa.n, 0, NPOS), y = seq_sub(ob.a, ob.n, 0, NPOS); int c = sp_cmpq(x, y); \
  KNOWN; VF_ASSERT(sgn(s_compare_str(&a, &b)) == c, "C04: compare(str): sign of the lexicographic comparison (characters ordered as unsigned char), then of the sizes"); \
  VF_ASSERT(s_eq(&a, &b) == (c == 0) && s_ne(&a, &b) == (c != 0), "C04: operator== / != (string, string)"); \
  VF_ASSERT(s_lt(&a, &b) == (c < 0) && s_le(&a, &b) == (c <= 0) && s_gt(&a, &b) == (c > 0) && s_ge(&a, &b) == (c >= 0), "C04: operator< <= > >= (string, string)"); \
  UNCHANGED(a, oa); UNCHANGED(b, ob); VF_REACH(); }
/*@GROUP name=compare_str props=C04,C02 kind=K unwind=11 when=VF_N<=7@*/
H_COMPARE_STR(h_compare_str, VF_KNOWN(C04_compare_signed_char, sp_signflip(x, y)))
/*@GROUP name=compare_str_m props=C04,C02 kind=K unwind=20 when=7<VF_N<=16@*/
H_COMPARE_STR(h_compare_str_m, VF_KNOWN(C04_compare_signed_char, sp_signflip(x, y)))
/*@GROUP name=compare_str_w props=C04,C02 kind=K unwind=35 when=VF_N>16 tier=thorough timeout=3000@*/
H_COMPARE_STR(h_compare_str_w, VF_KNOWN(C04_compare_signed_char, sp_signflip(x, y)))

/*@COMMON@*/
#define H_COMPARE_SUB_STR(NAME, KNOWN) void NAME(void) { ARB(a); ARB(b); VF_INPUT(unsigned char, pos); VF_INPUT(unsigned long, cnt); VF_INPUT(unsigned char, pos2); VF_INPUT(unsigned long, cnt2); VF_INPUT(unsigned char, which); view_t oa = view_of(&a), ob = view_of(&b); \
  if (which == 0) { pos2 = 0; cnt2 = NPOS; } else if (which >= 2) cnt2 = NPOS; \
  __CPROVER_assume(pos <= oa.n && pos2 <= ob.n); seq_t x = seq_sub(oa.a, oa.n, pos, cnt), y = seq_sub(ob.a, ob.n, pos2, cnt2); int c = sp_cmpq(x, y); \
  KNOWN; int r = which == 0 ? s_compare_pn_str(&a, pos, cnt, &b) : which == 1 ? s_compare_pn_str_pn(&a, pos, cnt, &b, pos2, cnt2) : s_compare_pn_str_p(&a, pos, cnt, &b, pos2); \
  VF_ASSERT(sgn(r) == c, "C04: compare(pos1, n1, str[, pos2[, n2]]): substr(pos1, n1) against str.substr(pos2, n2)"); UNCHANGED(a, oa); UNCHANGED(b, ob); VF_REACH(); }
/*@GROUP name=compare_sub_str props=C04,C02,C05 kind=K unwind=11 when=VF_N<=7@*/
H_COMPARE_SUB_STR(h_compare_sub_str, VF_KNOWN(C04_compare_signed_char, sp_signflip(x, y)); VF_KNOWN(C04_compare_count2_size, which >= 1 && cnt2 > ob.n - pos2 && oa.n < ob.n - pos2))
/*@GROUP name=compare_sub_str_m props=C04,C02,C05 kind=K unwind=20 when=7<VF_N<=16@*/
H_COMPARE_SUB_STR(h_compare_sub_str_m, VF_KNOWN(C04_compare_signed_char, sp_signflip(x, y)); VF_KNOWN(C04_compare_count2_size, which >= 1 && cnt2 > ob.n - pos2 && oa.n < ob.n - pos2))
/*@GROUP name=compare_sub_str_w props=C04,C02,C05 kind=K unwind=35 when=VF_N>16 tier=thorough timeout=3000@*/
H_COMPARE_SUB_STR(h_compare_sub_str_w, VF_KNOWN(C04_compare_signed_char, sp_signflip(x, y)); VF_KNOWN(C04_compare_count2_size, which >= 1 && cnt2 > ob.n - pos2 && oa.n < ob.n - pos2))

/*@COMMON@*/
#define H_COMPARE_CSTR(NAME, KNOWN) void NAME(void) { ARB(a); VF_INPUT(unsigned char, c); VF_INPUT(unsigned char, pos); VF_INPUT(unsigned long, cnt); VF_INPUT_BOOL(sub); view_t oa = view_of(&a); __CPROVER_assume(c <= N + 1); CSTR(src, c, N + 1); \
  if (!sub) { pos = 0; cnt = NPOS; } __CPROVER_assume(pos <= oa.n); seq_t x = seq_sub(oa.a, oa.n, pos, cnt), y = seq_sub(src, c, 0, NPOS); int k = sp_cmpq(x, y); \
  KNOWN; if (sub) VF_ASSERT(sgn(s_compare_pn_cstr(&a, pos, cnt, src)) == k, "C04: compare(pos1, n1, char const*)"); \
  else { VF_ASSERT(sgn(s_compare_cstr(&a, src)) == k, "C04: compare(char const*)"); \
    VF_ASSERT(s_eq_c(&a, src) == (k == 0) && s_ne_c(&a, src) == (k != 0) && s_lt_c(&a, src) == (k < 0) && s_le_c(&a, src) == (k <= 0) && s_gt_c(&a, src) == (k > 0) && s_ge_c(&a, src) == (k >= 0), "C04: operator== != < <= > >= (string, char const*)"); \
    VF_ASSERT(s_c_eq(src, &a) == (k == 0) && s_c_ne(src, &a) == (k != 0) && s_c_lt(src, &a) == (k > 0) && s_c_le(src, &a) == (k >= 0) && s_c_gt(src, &a) == (k < 0) && s_c_ge(src, &a) == (k <= 0), "C04: operator== != < <= > >= (char const*, string)"); } \
  UNCHANGED(a, oa); VF_REACH(); }
/*@GROUP name=compare_cstr props=C04,C02,C05 kind=K unwind=11 when=VF_N<=7@*/
H_COMPARE_CSTR(h_compare_cstr, VF_KNOWN(C04_compare_signed_char, sp_signflip(x, y)))
/*@GROUP name=compare_cstr_m props=C04,C02,C05 kind=K unwind=20 when=7<VF_N<=16@*/
H_COMPARE_CSTR(h_compare_cstr_m, VF_KNOWN(C04_compare_signed_char, sp_signflip(x, y)))
/*@GROUP name=compare_cstr_w props=C04,C02,C05 kind=K unwind=35 when=VF_N>16 tier=thorough timeout=3000@*/
H_COMPARE_CSTR(h_compare_cstr_w, VF_KNOWN(C04_compare_signed_char, sp_signflip(x, y)))

/*@COMMON@*/
#define H_COMPARE_BUF(NAME, KNOWN) void NAME(void) { ARB(a); VF_INPUT(unsigned char, m); VF_INPUT(unsigned char, pos); VF_INPUT(unsigned long, cnt); VF_INPUT(unsigned char, which); view_t oa = view_of(&a); \
  __CPROVER_assume(which <= 2 && m <= N + 1); XBUF(char, src, m, N + 1); if (which == 1) { pos = 0; cnt = NPOS; } \
  __CPROVER_assume(pos <= oa.n); seq_t x = seq_sub(oa.a, oa.n, pos, cnt), y = seq_sub(src, m, 0, NPOS); int k = sp_cmpq(x, y); \
  KNOWN; int r = which == 0 ? s_compare_pn_ptr_n(&a, pos, cnt, src, m) : which == 1 ? s_compare_sv(&a, src, m) : s_compare_pn_sv(&a, pos, cnt, src, m); \
  VF_ASSERT(sgn(r) == k, "C04: compare(pos1, n1, s, n2) / compare(sv) / compare(pos1, n1, sv)"); UNCHANGED(a, oa); VF_REACH(); }
/*@GROUP name=compare_buf props=C04,C02,C05 kind=K unwind=11 when=VF_N<=7@*/
H_COMPARE_BUF(h_compare_buf, VF_KNOWN(C04_compare_signed_char, sp_signflip(x, y)))
/*@GROUP name=compare_buf_m props=C04,C02,C05 kind=K unwind=20 when=7<VF_N<=16@*/
H_COMPARE_BUF(h_compare_buf_m, VF_KNOWN(C04_compare_signed_char, sp_signflip(x, y)))
/*@GROUP name=compare_buf_w props=C04,C02,C05 kind=K unwind=35 when=VF_N>16 tier=thorough timeout=3000@*/
H_COMPARE_BUF(h_compare_buf_w, VF_KNOWN(C04_compare_signed_char, sp_signflip(x, y)))

/*@COMMON@*/
#define H_COMPARE_SV_SUB(NAME, KNOWN) void NAME(void) { ARB(a); VF_INPUT(unsigned char, m); VF_INPUT(unsigned char, pos); VF_INPUT(unsigned long, cnt); VF_INPUT(unsigned char, pos2); VF_INPUT(unsigned long, cnt2); VF_INPUT_BOOL(dflt); view_t oa = view_of(&a); \
  __CPROVER_assume(m <= N + 1); XBUF(char, src, m, N + 1); if (dflt) cnt2 = NPOS; \
  __CPROVER_assume(pos <= oa.n && pos2 <= m); seq_t x = seq_sub(oa.a, oa.n, pos, cnt), y = seq_sub(src, m, pos2, cnt2); int k = sp_cmpq(x, y); \
  KNOWN; int r = dflt ? s_compare_pn_sv_p(&a, pos, cnt, src, m, pos2) : s_compare_pn_sv_pn(&a, pos, cnt, src, m, pos2, cnt2); \
  VF_ASSERT(sgn(r) == k, "C04: compare(pos1, n1, sv, pos2[, n2]): substr(pos1, n1) against sv.substr(pos2, n2)"); UNCHANGED(a, oa); VF_REACH(); }
/*@GROUP name=compare_sv_sub props=C04,C02,C05 kind=K unwind=11 when=VF_N<=7@*/
H_COMPARE_SV_SUB(h_compare_sv_sub, VF_KNOWN(C04_compare_signed_char, sp_signflip(x, y)))
/*@GROUP name=compare_sv_sub_m props=C04,C02,C05 kind=K unwind=20 when=7<VF_N<=16@*/
H_COMPARE_SV_SUB(h_compare_sv_sub_m, VF_KNOWN(C04_compare_signed_char, sp_signflip(x, y)))
/*@GROUP name=compare_sv_sub_w props=C04,C02,C05 kind=K unwind=35 when=VF_N>16 tier=thorough timeout=3000@*/
H_COMPARE_SV_SUB(h_compare_sv_sub_w, VF_KNOWN(C04_compare_signed_char, sp_signflip(x, y)))

/*@COMMON@*/
/* ---- starts_with / ends_with / contains ([string.starts.with], [string.ends.with], [string.contains]) */
#define NEEDLE(nd, isstr, isch) seq_t nd; nd.n = (isstr) ? b.n : (isch) ? 1 : c; for (int vf_q = 0; vf_q < N + 2; ++vf_q) nd.a[vf_q] = (unsigned long)vf_q >= nd.n ? 0 : (isstr) ? b.a[vf_q <= N ? vf_q : N] : (isch) ? ch : src[vf_q]

/*@COMMON@*/
#define H_STARTS_ENDS(NAME, KNOWN) void NAME(void) { ARB(s); VF_INPUT(unsigned char, c); VF_INPUT(char, ch); VF_INPUT(unsigned char, which); view_t h = view_of(&s), b = sp_empty(); _Bool cs = which == 2; \
  __CPROVER_assume(which <= 2 && c <= N + 1 - cs); XBUF(char, src, (unsigned long)c + cs, N + 1); if (cs) CSTR_ASSUME(src, c, N + 1); NEEDLE(nd, 0, which == 1); \
  _Bool st = nd.n <= h.n && sp_match_at(h, 0, nd.a, nd.n), en = nd.n <= h.n && sp_match_at(h, h.n - nd.n, nd.a, nd.n); \
  KNOWN; _Bool rs = which == 0 ? s_starts_sv(&s, src, c) : which == 1 ? s_starts_ch(&s, ch) : s_starts_cstr(&s, src); \
  _Bool re = which == 0 ? s_ends_sv(&s, src, c) : which == 1 ? s_ends_ch(&s, ch) : s_ends_cstr(&s, src); \
  VF_ASSERT(rs == st, "C04: starts_with(sv | ch | char const*)"); VF_ASSERT(re == en, "C04: ends_with(sv | ch | char const*)"); UNCHANGED(s, h); VF_REACH(); }
/*@GROUP name=starts_ends props=C04,C02 kind=K unwind=11 when=VF_N<=7@*/
H_STARTS_ENDS(h_starts_ends, ((void)0))
/*@GROUP name=starts_ends_m props=C04,C02 kind=K unwind=20 when=7<VF_N<=16@*/
H_STARTS_ENDS(h_starts_ends_m, ((void)0))
/*@GROUP name=starts_ends_w props=C04,C02 kind=K unwind=35 when=VF_N>16 tier=thorough timeout=3000@*/
H_STARTS_ENDS(h_starts_ends_w, ((void)0))

/*@COMMON@*/
#define H_CONTAINS(NAME, KNOWN) void NAME(void) { ARB(s); VF_INPUT(unsigned char, c); VF_INPUT(char, ch); VF_INPUT(unsigned char, which); view_t h = view_of(&s), b = sp_empty(); _Bool cs = which == 2; \
  __CPROVER_assume(which <= 2 && c <= N + 1 - cs); XBUF(char, src, (unsigned long)c + cs, N + 1); if (cs) CSTR_ASSUME(src, c, N + 1); NEEDLE(nd, 0, which == 1); \
  KNOWN; _Bool r = which == 0 ? s_contains_sv(&s, src, c) : which == 1 ? s_contains_ch(&s, ch) : s_contains_cstr(&s, src); \
  VF_ASSERT(r == (sp_find(h, nd.a, nd.n, 0) != NPOS), "C04: contains(sv | ch | char const*) == (find(x) != npos)"); UNCHANGED(s, h); VF_REACH(); }
/*@GROUP name=contains props=C04,C02 kind=K unwind=11 when=VF_N<=7@*/
H_CONTAINS(h_contains, VF_KNOWN(C04_find_empty_needle, nd.n == 0); VF_KNOWN(C04_find_overrun, sp_has_inner_nul(nd)))
/*@GROUP name=contains_m props=C04,C02 kind=K unwind=20 when=7<VF_N<=16 tier=thorough@*/
H_CONTAINS(h_contains_m, VF_KNOWN(C04_find_empty_needle, nd.n == 0); VF_KNOWN(C04_find_overrun, sp_has_inner_nul(nd)))

/*@COMMON@*/
/* ---- searches ([string.find] ... [string.find.last.not.of]): every overload, pos over the whole size_type range (0, size, size + 1, npos included),
 * needles of 0 .. N+1 characters (longer than the haystack included), exact-size buffers */

/*@COMMON@*/
#define H_FIND_STR(NAME, KNOWN) void NAME(void) { ARB(s); ARB(t); VF_INPUT(unsigned long, pos); view_t h = view_of(&s), b = view_of(&t); seq_t nd = seq_sub(b.a, b.n, 0, NPOS); \
  KNOWN; unsigned long r = s_find_str(&s, &t, pos); \
  VF_ASSERT(r == sp_find(h, nd.a, nd.n, pos), "C04: find(str, pos): the lowest xpos >= pos with xpos + n <= size() and equal characters, else npos"); UNCHANGED(s, h); VF_REACH(); }
/*@GROUP name=find_str props=C04,C02 kind=K unwind=11 when=VF_N<=7 objbits=12@*/
H_FIND_STR(h_find_str, VF_KNOWN(C04_find_overrun, sp_has_inner_nul(nd)))
/*@GROUP name=find_str_m props=C04,C02 kind=K unwind=20 when=7<VF_N<=16 objbits=12 tier=thorough@*/
H_FIND_STR(h_find_str_m, VF_KNOWN(C04_find_overrun, sp_has_inner_nul(nd)))

/*@COMMON@*/
#define H_FIND_BUF(NAME, KNOWN) void NAME(void) { ARB(s); VF_INPUT(unsigned long, pos); VF_INPUT(unsigned char, c); view_t h = view_of(&s); __CPROVER_assume(c <= N + 1); XBUF(char, src, c, N + 1); seq_t nd = seq_sub(src, c, 0, NPOS); \
  KNOWN; unsigned long r = s_find_ptr_n(&s, src, pos, c); \
  VF_ASSERT(r == sp_find(h, nd.a, nd.n, pos), "C04: find(s, pos, n): the lowest xpos >= pos with xpos + n <= size() and equal characters, else npos"); UNCHANGED(s, h); VF_REACH(); }
/*@GROUP name=find_buf props=C04,C02 kind=K unwind=11 when=VF_N<=7 objbits=12@*/
H_FIND_BUF(h_find_buf, VF_KNOWN(C04_find_overrun, sp_has_inner_nul(nd)))
/*@GROUP name=find_buf_m props=C04,C02 kind=K unwind=20 when=7<VF_N<=16 objbits=12 tier=thorough@*/
H_FIND_BUF(h_find_buf_m, VF_KNOWN(C04_find_overrun, sp_has_inner_nul(nd)))

/*@COMMON@*/
#define H_FIND_CSTR(NAME, KNOWN) void NAME(void) { ARB(s); VF_INPUT(unsigned long, pos); VF_INPUT(unsigned char, c); view_t h = view_of(&s); __CPROVER_assume(c <= N + 1); CSTR(src, c, N + 1); seq_t nd = seq_sub(src, c, 0, NPOS); \
  KNOWN; unsigned long r = s_find_cstr(&s, src, pos); \
  VF_ASSERT(r == sp_find(h, nd.a, nd.n, pos), "C04: find(char const*, pos): the lowest xpos >= pos with xpos + n <= size() and equal characters, else npos"); UNCHANGED(s, h); VF_REACH(); }
/*@GROUP name=find_cstr props=C04,C02 kind=K unwind=11 when=VF_N<=7 objbits=12@*/
H_FIND_CSTR(h_find_cstr, ((void)0))
/*@GROUP name=find_cstr_m props=C04,C02 kind=K unwind=20 when=7<VF_N<=16 objbits=12 tier=thorough@*/
H_FIND_CSTR(h_find_cstr_m, ((void)0))

/*@COMMON@*/
#define H_FIND_CH(NAME, KNOWN) void NAME(void) { ARB(s); VF_INPUT(unsigned long, pos); VF_INPUT(char, ch); view_t h = view_of(&s); seq_t nd = seq_sub(&ch, 1, 0, NPOS); \
  KNOWN; unsigned long r = s_find_ch(&s, ch, pos); \
  VF_ASSERT(r == sp_find(h, nd.a, nd.n, pos), "C04: find(ch, pos): the lowest xpos >= pos with xpos + n <= size() and equal characters, else npos"); UNCHANGED(s, h); VF_REACH(); }
/*@GROUP name=find_ch props=C04,C02 kind=K unwind=11 when=VF_N<=7@*/
H_FIND_CH(h_find_ch, ((void)0))
/*@GROUP name=find_ch_m props=C04,C02 kind=K unwind=20 when=7<VF_N<=16@*/
H_FIND_CH(h_find_ch_m, ((void)0))
/*@GROUP name=find_ch_w props=C04,C02 kind=K unwind=35 when=VF_N>16 tier=thorough timeout=3000@*/
H_FIND_CH(h_find_ch_w, ((void)0))

/*@COMMON@*/
/* N >= 15: find_end > search > compare are three nested loops; unwound 19^3 times they exhaust the 10 GB memory limit: not covered (m, w skipped) */
#define H_RFIND_STR(NAME, KNOWN) void NAME(void) { ARB(s); ARB(t); VF_INPUT(unsigned long, pos); view_t h = view_of(&s), b = view_of(&t); seq_t nd = seq_sub(b.a, b.n, 0, NPOS); \
  KNOWN; unsigned long r = s_rfind_str(&s, &t, pos); \
  VF_ASSERT(r == sp_rfind(h, nd.a, nd.n, pos), "C04: rfind(str, pos): the highest xpos <= pos with xpos + n <= size() and equal characters, else npos"); UNCHANGED(s, h); VF_REACH(); }
/*@GROUP name=rfind_str props=C04,C02 kind=K unwind=10 when=VF_N<=7 cost=3 objbits=12@*/
H_RFIND_STR(h_rfind_str, ((void)0))

/*@COMMON@*/
/* N >= 15: find_end > search > compare are three nested loops; unwound 19^3 times they exhaust the 10 GB memory limit: not covered (m, w skipped) */
#define H_RFIND_CSTR(NAME, KNOWN) void NAME(void) { ARB(s); VF_INPUT(unsigned long, pos); VF_INPUT(unsigned char, c); view_t h = view_of(&s); __CPROVER_assume(c <= N + 1); CSTR(src, c, N + 1); seq_t nd = seq_sub(src, c, 0, NPOS); \
  KNOWN; unsigned long r = s_rfind_cstr(&s, src, pos); \
  VF_ASSERT(r == sp_rfind(h, nd.a, nd.n, pos), "C04: rfind(char const*, pos): the highest xpos <= pos with xpos + n <= size() and equal characters, else npos"); UNCHANGED(s, h); VF_REACH(); }
/*@GROUP name=rfind_cstr props=C04,C02 kind=K unwind=10 when=VF_N<=7 tier=thorough cost=3 objbits=12@*/
H_RFIND_CSTR(h_rfind_cstr, ((void)0))

/*@COMMON@*/
#define H_RFIND_CH(NAME, KNOWN) void NAME(void) { ARB(s); VF_INPUT(unsigned long, pos); VF_INPUT(char, ch); view_t h = view_of(&s); seq_t nd = seq_sub(&ch, 1, 0, NPOS); \
  KNOWN; unsigned long r = s_rfind_ch(&s, ch, pos); \
  VF_ASSERT(r == sp_rfind(h, nd.a, nd.n, pos), "C04: rfind(ch, pos): the highest xpos <= pos with xpos + n <= size() and equal characters, else npos"); UNCHANGED(s, h); VF_REACH(); }
/*@GROUP name=rfind_ch props=C04,C02 kind=K unwind=10 when=VF_N<=7@*/
H_RFIND_CH(h_rfind_ch, ((void)0))
/*@GROUP name=rfind_ch_m props=C04,C02 kind=K unwind=19 when=7<VF_N<=16@*/
H_RFIND_CH(h_rfind_ch_m, ((void)0))
/*@GROUP name=rfind_ch_w props=C04,C02 kind=K unwind=34 when=VF_N>16 tier=thorough timeout=3000@*/
H_RFIND_CH(h_rfind_ch_w, ((void)0))

/*@COMMON@*/
#define H_FIND_FIRST_OF_STR(NAME, KNOWN) void NAME(void) { ARB(s); ARB(t); VF_INPUT(unsigned long, pos); view_t h = view_of(&s), b = view_of(&t); seq_t nd = seq_sub(b.a, b.n, 0, NPOS); \
  KNOWN; unsigned long r = s_ffo_str(&s, &t, pos); \
  VF_ASSERT(r == sp_ffo(h, nd.a, nd.n, pos, 0), "C04: find_first_of(str, pos): the lowest xpos >= pos whose character is in the set, else npos"); UNCHANGED(s, h); VF_REACH(); }
/*@GROUP name=find_first_of_str props=C04,C02 kind=K unwind=11 when=VF_N<=7 objbits=12@*/
H_FIND_FIRST_OF_STR(h_find_first_of_str, ((void)0))
/*@GROUP name=find_first_of_str_m props=C04,C02 kind=K unwind=20 when=7<VF_N<=16 objbits=12 tier=thorough@*/
H_FIND_FIRST_OF_STR(h_find_first_of_str_m, ((void)0))

/*@COMMON@*/
#define H_FIND_FIRST_OF_BUF(NAME, KNOWN) void NAME(void) { ARB(s); VF_INPUT(unsigned long, pos); VF_INPUT(unsigned char, c); VF_INPUT_BOOL(sv); view_t h = view_of(&s); __CPROVER_assume(c <= N + 1); XBUF(char, src, c, N + 1); seq_t nd = seq_sub(src, c, 0, NPOS); \
  KNOWN; unsigned long r = sv ? s_ffo_sv(&s, src, c, pos) : s_ffo_ptr_n(&s, src, pos, c); \
  VF_ASSERT(r == sp_ffo(h, nd.a, nd.n, pos, 0), "C04: find_first_of(s, pos, n | sv): the lowest xpos >= pos whose character is in the set, else npos"); UNCHANGED(s, h); VF_REACH(); }
/*@GROUP name=find_first_of_buf props=C04,C02 kind=K unwind=11 when=VF_N<=7 objbits=12@*/
H_FIND_FIRST_OF_BUF(h_find_first_of_buf, ((void)0))
/*@GROUP name=find_first_of_buf_m props=C04,C02 kind=K unwind=20 when=7<VF_N<=16 solver=kissat timeout=4000 objbits=12 tier=thorough@*/
H_FIND_FIRST_OF_BUF(h_find_first_of_buf_m, ((void)0))

/*@COMMON@*/
#define H_FIND_FIRST_OF_CSTR(NAME, KNOWN) void NAME(void) { ARB(s); VF_INPUT(unsigned long, pos); VF_INPUT(unsigned char, c); view_t h = view_of(&s); __CPROVER_assume(c <= N + 1); CSTR(src, c, N + 1); seq_t nd = seq_sub(src, c, 0, NPOS); \
  KNOWN; unsigned long r = s_ffo_cstr(&s, src, pos); \
  VF_ASSERT(r == sp_ffo(h, nd.a, nd.n, pos, 0), "C04: find_first_of(char const*, pos): the lowest xpos >= pos whose character is in the set, else npos"); UNCHANGED(s, h); VF_REACH(); }
/*@GROUP name=find_first_of_cstr props=C04,C02 kind=K unwind=11 when=VF_N<=7 objbits=12@*/
H_FIND_FIRST_OF_CSTR(h_find_first_of_cstr, ((void)0))
/*@GROUP name=find_first_of_cstr_m props=C04,C02 kind=K unwind=20 when=7<VF_N<=16 objbits=12 tier=thorough@*/
H_FIND_FIRST_OF_CSTR(h_find_first_of_cstr_m, ((void)0))

/*@COMMON@*/
#define H_FIND_FIRST_OF_CH(NAME, KNOWN) void NAME(void) { ARB(s); VF_INPUT(unsigned long, pos); VF_INPUT(char, ch); view_t h = view_of(&s); seq_t nd = seq_sub(&ch, 1, 0, NPOS); \
  KNOWN; unsigned long r = s_ffo_ch(&s, ch, pos); \
  VF_ASSERT(r == sp_ffo(h, nd.a, nd.n, pos, 0), "C04: find_first_of(ch, pos): the lowest xpos >= pos whose character is in the set, else npos"); UNCHANGED(s, h); VF_REACH(); }
/*@GROUP name=find_first_of_ch props=C04,C02 kind=K unwind=11 when=VF_N<=7@*/
H_FIND_FIRST_OF_CH(h_find_first_of_ch, ((void)0))
/*@GROUP name=find_first_of_ch_m props=C04,C02 kind=K unwind=20 when=7<VF_N<=16@*/
H_FIND_FIRST_OF_CH(h_find_first_of_ch_m, ((void)0))
/*@GROUP name=find_first_of_ch_w props=C04,C02 kind=K unwind=35 when=VF_N>16 tier=thorough timeout=3000@*/
H_FIND_FIRST_OF_CH(h_find_first_of_ch_w, ((void)0))

/*@COMMON@*/
#define H_FIND_FIRST_NOT_OF_STR(NAME, KNOWN) void NAME(void) { ARB(s); ARB(t); VF_INPUT(unsigned long, pos); view_t h = view_of(&s), b = view_of(&t); seq_t nd = seq_sub(b.a, b.n, 0, NPOS); \
  KNOWN; unsigned long r = s_ffno_str(&s, &t, pos); \
  VF_ASSERT(r == sp_ffo(h, nd.a, nd.n, pos, 1), "C04: find_first_not_of(str, pos): the lowest xpos >= pos whose character is not in the set, else npos"); UNCHANGED(s, h); VF_REACH(); }
/*@GROUP name=find_first_not_of_str props=C04,C02 kind=K unwind=11 when=VF_N<=7 objbits=12@*/
H_FIND_FIRST_NOT_OF_STR(h_find_first_not_of_str, ((void)0))
/*@GROUP name=find_first_not_of_str_m props=C04,C02 kind=K unwind=20 when=7<VF_N<=16 solver=kissat timeout=4000 objbits=12 tier=thorough@*/
H_FIND_FIRST_NOT_OF_STR(h_find_first_not_of_str_m, ((void)0))

/*@COMMON@*/
#define H_FIND_FIRST_NOT_OF_BUF(NAME, KNOWN) void NAME(void) { ARB(s); VF_INPUT(unsigned long, pos); VF_INPUT(unsigned char, c); view_t h = view_of(&s); __CPROVER_assume(c <= N + 1); XBUF(char, src, c, N + 1); seq_t nd = seq_sub(src, c, 0, NPOS); \
  KNOWN; unsigned long r = s_ffno_ptr_n(&s, src, pos, c); \
  VF_ASSERT(r == sp_ffo(h, nd.a, nd.n, pos, 1), "C04: find_first_not_of(s, pos, n): the lowest xpos >= pos whose character is not in the set, else npos"); UNCHANGED(s, h); VF_REACH(); }
/*@GROUP name=find_first_not_of_buf props=C04,C02 kind=K unwind=11 when=VF_N<=7 objbits=12@*/
H_FIND_FIRST_NOT_OF_BUF(h_find_first_not_of_buf, ((void)0))
/*@GROUP name=find_first_not_of_buf_m props=C04,C02 kind=K unwind=20 when=7<VF_N<=16 solver=kissat timeout=4000 objbits=12 tier=thorough@*/
H_FIND_FIRST_NOT_OF_BUF(h_find_first_not_of_buf_m, ((void)0))

/*@COMMON@*/
#define H_FIND_FIRST_NOT_OF_CSTR(NAME, KNOWN) void NAME(void) { ARB(s); VF_INPUT(unsigned long, pos); VF_INPUT(unsigned char, c); view_t h = view_of(&s); __CPROVER_assume(c <= N + 1); CSTR(src, c, N + 1); seq_t nd = seq_sub(src, c, 0, NPOS); \
  KNOWN; unsigned long r = s_ffno_cstr(&s, src, pos); \
  VF_ASSERT(r == sp_ffo(h, nd.a, nd.n, pos, 1), "C04: find_first_not_of(char const*, pos): the lowest xpos >= pos whose character is not in the set, else npos"); UNCHANGED(s, h); VF_REACH(); }
/*@GROUP name=find_first_not_of_cstr props=C04,C02 kind=K unwind=11 when=VF_N<=7 objbits=12@*/
H_FIND_FIRST_NOT_OF_CSTR(h_find_first_not_of_cstr, ((void)0))
/*@GROUP name=find_first_not_of_cstr_m props=C04,C02 kind=K unwind=20 when=7<VF_N<=16 solver=kissat timeout=4000 objbits=12 tier=thorough@*/
H_FIND_FIRST_NOT_OF_CSTR(h_find_first_not_of_cstr_m, ((void)0))

/*@COMMON@*/
#define H_FIND_FIRST_NOT_OF_CH(NAME, KNOWN) void NAME(void) { ARB(s); VF_INPUT(unsigned long, pos); VF_INPUT(char, ch); view_t h = view_of(&s); seq_t nd = seq_sub(&ch, 1, 0, NPOS); \
  KNOWN; unsigned long r = s_ffno_ch(&s, ch, pos); \
  VF_ASSERT(r == sp_ffo(h, nd.a, nd.n, pos, 1), "C04: find_first_not_of(ch, pos): the lowest xpos >= pos whose character is not in the set, else npos"); UNCHANGED(s, h); VF_REACH(); }
/*@GROUP name=find_first_not_of_ch props=C04,C02 kind=K unwind=11 when=VF_N<=7@*/
H_FIND_FIRST_NOT_OF_CH(h_find_first_not_of_ch, ((void)0))
/*@GROUP name=find_first_not_of_ch_m props=C04,C02 kind=K unwind=20 when=7<VF_N<=16@*/
H_FIND_FIRST_NOT_OF_CH(h_find_first_not_of_ch_m, ((void)0))
/*@GROUP name=find_first_not_of_ch_w props=C04,C02 kind=K unwind=35 when=VF_N>16 tier=thorough timeout=3000@*/
H_FIND_FIRST_NOT_OF_CH(h_find_first_not_of_ch_w, ((void)0))

/*@COMMON@*/
#define H_FIND_LAST_OF_STR(NAME, KNOWN) void NAME(void) { ARB(s); ARB(t); VF_INPUT(unsigned long, pos); view_t h = view_of(&s), b = view_of(&t); seq_t nd = seq_sub(b.a, b.n, 0, NPOS); \
  KNOWN; unsigned long r = s_flo_str(&s, &t, pos); \
  VF_ASSERT(r == sp_flo(h, nd.a, nd.n, pos, 0), "C04: find_last_of(str, pos): the highest xpos <= pos, xpos < size(), whose character is in the set, else npos"); UNCHANGED(s, h); VF_REACH(); }
/*@GROUP name=find_last_of_str props=C04,C02 kind=K unwind=11 when=VF_N<=7 objbits=12@*/
H_FIND_LAST_OF_STR(h_find_last_of_str, VF_KNOWN(C04_find_last_empty, h.n == 0))
/*@GROUP name=find_last_of_str_m props=C04,C02 kind=K unwind=20 when=7<VF_N<=16 objbits=12 tier=thorough@*/
H_FIND_LAST_OF_STR(h_find_last_of_str_m, VF_KNOWN(C04_find_last_empty, h.n == 0))

/*@COMMON@*/
#define H_FIND_LAST_OF_BUF(NAME, KNOWN) void NAME(void) { ARB(s); VF_INPUT(unsigned long, pos); VF_INPUT(unsigned char, c); view_t h = view_of(&s); __CPROVER_assume(c <= N + 1); XBUF(char, src, c, N + 1); seq_t nd = seq_sub(src, c, 0, NPOS); \
  KNOWN; unsigned long r = s_flo_ptr_n(&s, src, pos, c); \
  VF_ASSERT(r == sp_flo(h, nd.a, nd.n, pos, 0), "C04: find_last_of(s, pos, n): the highest xpos <= pos, xpos < size(), whose character is in the set, else npos"); UNCHANGED(s, h); VF_REACH(); }
/*@GROUP name=find_last_of_buf props=C04,C02 kind=K unwind=11 when=VF_N<=7 objbits=12@*/
H_FIND_LAST_OF_BUF(h_find_last_of_buf, VF_KNOWN(C04_find_last_empty, h.n == 0))
/*@GROUP name=find_last_of_buf_m props=C04,C02 kind=K unwind=20 when=7<VF_N<=16 objbits=12 tier=thorough@*/
H_FIND_LAST_OF_BUF(h_find_last_of_buf_m, VF_KNOWN(C04_find_last_empty, h.n == 0))

/*@COMMON@*/
#define H_FIND_LAST_OF_CSTR(NAME, KNOWN) void NAME(void) { ARB(s); VF_INPUT(unsigned long, pos); VF_INPUT(unsigned char, c); view_t h = view_of(&s); __CPROVER_assume(c <= N + 1); CSTR(src, c, N + 1); seq_t nd = seq_sub(src, c, 0, NPOS); \
  KNOWN; unsigned long r = s_flo_cstr(&s, src, pos); \
  VF_ASSERT(r == sp_flo(h, nd.a, nd.n, pos, 0), "C04: find_last_of(char const*, pos): the highest xpos <= pos, xpos < size(), whose character is in the set, else npos"); UNCHANGED(s, h); VF_REACH(); }
/*@GROUP name=find_last_of_cstr props=C04,C02 kind=K unwind=11 when=VF_N<=7 objbits=12@*/
H_FIND_LAST_OF_CSTR(h_find_last_of_cstr, VF_KNOWN(C04_find_last_empty, h.n == 0))
/*@GROUP name=find_last_of_cstr_m props=C04,C02 kind=K unwind=20 when=7<VF_N<=16 objbits=12 tier=thorough@*/
H_FIND_LAST_OF_CSTR(h_find_last_of_cstr_m, VF_KNOWN(C04_find_last_empty, h.n == 0))

/*@COMMON@*/
#define H_FIND_LAST_OF_CH(NAME, KNOWN) void NAME(void) { ARB(s); VF_INPUT(unsigned long, pos); VF_INPUT(char, ch); view_t h = view_of(&s); seq_t nd = seq_sub(&ch, 1, 0, NPOS); \
  KNOWN; unsigned long r = s_flo_ch(&s, ch, pos); \
  VF_ASSERT(r == sp_flo(h, nd.a, nd.n, pos, 0), "C04: find_last_of(ch, pos): the highest xpos <= pos, xpos < size(), whose character is in the set, else npos"); UNCHANGED(s, h); VF_REACH(); }
/*@GROUP name=find_last_of_ch props=C04,C02 kind=K unwind=11 when=VF_N<=7@*/
H_FIND_LAST_OF_CH(h_find_last_of_ch, VF_KNOWN(C04_find_last_empty, h.n == 0))
/*@GROUP name=find_last_of_ch_m props=C04,C02 kind=K unwind=20 when=7<VF_N<=16@*/
H_FIND_LAST_OF_CH(h_find_last_of_ch_m, VF_KNOWN(C04_find_last_empty, h.n == 0))
/*@GROUP name=find_last_of_ch_w props=C04,C02 kind=K unwind=35 when=VF_N>16 tier=thorough timeout=3000@*/
H_FIND_LAST_OF_CH(h_find_last_of_ch_w, VF_KNOWN(C04_find_last_empty, h.n == 0))

/*@COMMON@*/
#define H_FIND_LAST_NOT_OF_STR(NAME, KNOWN) void NAME(void) { ARB(s); ARB(t); VF_INPUT(unsigned long, pos); view_t h = view_of(&s), b = view_of(&t); seq_t nd = seq_sub(b.a, b.n, 0, NPOS); \
  KNOWN; unsigned long r = s_flno_str(&s, &t, pos); \
  VF_ASSERT(r == sp_flo(h, nd.a, nd.n, pos, 1), "C04: find_last_not_of(str, pos): the highest xpos <= pos, xpos < size(), whose character is not in the set, else npos"); UNCHANGED(s, h); VF_REACH(); }
/*@GROUP name=find_last_not_of_str props=C04,C02 kind=K unwind=11 when=VF_N<=7 objbits=12@*/
H_FIND_LAST_NOT_OF_STR(h_find_last_not_of_str, VF_KNOWN(C04_find_last_empty, h.n == 0))
/*@GROUP name=find_last_not_of_str_m props=C04,C02 kind=K unwind=20 when=7<VF_N<=16 solver=kissat timeout=4000 objbits=12 tier=thorough@*/
H_FIND_LAST_NOT_OF_STR(h_find_last_not_of_str_m, VF_KNOWN(C04_find_last_empty, h.n == 0))

/*@COMMON@*/
#define H_FIND_LAST_NOT_OF_BUF(NAME, KNOWN) void NAME(void) { ARB(s); VF_INPUT(unsigned long, pos); VF_INPUT(unsigned char, c); view_t h = view_of(&s); __CPROVER_assume(c <= N + 1); XBUF(char, src, c, N + 1); seq_t nd = seq_sub(src, c, 0, NPOS); \
  KNOWN; unsigned long r = s_flno_ptr_n(&s, src, pos, c); \
  VF_ASSERT(r == sp_flo(h, nd.a, nd.n, pos, 1), "C04: find_last_not_of(s, pos, n): the highest xpos <= pos, xpos < size(), whose character is not in the set, else npos"); UNCHANGED(s, h); VF_REACH(); }
/*@GROUP name=find_last_not_of_buf props=C04,C02 kind=K unwind=11 when=VF_N<=7 objbits=12@*/
H_FIND_LAST_NOT_OF_BUF(h_find_last_not_of_buf, VF_KNOWN(C04_find_last_empty, h.n == 0))
/*@GROUP name=find_last_not_of_buf_m props=C04,C02 kind=K unwind=20 when=7<VF_N<=16 solver=kissat timeout=4000 objbits=12 tier=thorough@*/
H_FIND_LAST_NOT_OF_BUF(h_find_last_not_of_buf_m, VF_KNOWN(C04_find_last_empty, h.n == 0))

/*@COMMON@*/
#define H_FIND_LAST_NOT_OF_CSTR(NAME, KNOWN) void NAME(void) { ARB(s); VF_INPUT(unsigned long, pos); VF_INPUT(unsigned char, c); view_t h = view_of(&s); __CPROVER_assume(c <= N + 1); CSTR(src, c, N + 1); seq_t nd = seq_sub(src, c, 0, NPOS); \
  KNOWN; unsigned long r = s_flno_cstr(&s, src, pos); \
  VF_ASSERT(r == sp_flo(h, nd.a, nd.n, pos, 1), "C04: find_last_not_of(char const*, pos): the highest xpos <= pos, xpos < size(), whose character is not in the set, else npos"); UNCHANGED(s, h); VF_REACH(); }
/*@GROUP name=find_last_not_of_cstr props=C04,C02 kind=K unwind=11 when=VF_N<=7 objbits=12@*/
H_FIND_LAST_NOT_OF_CSTR(h_find_last_not_of_cstr, VF_KNOWN(C04_find_last_empty, h.n == 0))
/*@GROUP name=find_last_not_of_cstr_m props=C04,C02 kind=K unwind=20 when=7<VF_N<=16 solver=kissat timeout=4000 objbits=12 tier=thorough@*/
H_FIND_LAST_NOT_OF_CSTR(h_find_last_not_of_cstr_m, VF_KNOWN(C04_find_last_empty, h.n == 0))

/*@COMMON@*/
#define H_FIND_LAST_NOT_OF_CH(NAME, KNOWN) void NAME(void) { ARB(s); VF_INPUT(unsigned long, pos); VF_INPUT(char, ch); view_t h = view_of(&s); seq_t nd = seq_sub(&ch, 1, 0, NPOS); \
  KNOWN; unsigned long r = s_flno_ch(&s, ch, pos); \
  VF_ASSERT(r == sp_flo(h, nd.a, nd.n, pos, 1), "C04: find_last_not_of(ch, pos): the highest xpos <= pos, xpos < size(), whose character is not in the set, else npos"); UNCHANGED(s, h); VF_REACH(); }
/*@GROUP name=find_last_not_of_ch props=C04,C02 kind=K unwind=11 when=VF_N<=7@*/
H_FIND_LAST_NOT_OF_CH(h_find_last_not_of_ch, VF_KNOWN(C04_find_last_empty, h.n == 0))
/*@GROUP name=find_last_not_of_ch_m props=C04,C02 kind=K unwind=20 when=7<VF_N<=16@*/
H_FIND_LAST_NOT_OF_CH(h_find_last_not_of_ch_m, VF_KNOWN(C04_find_last_empty, h.n == 0))
/*@GROUP name=find_last_not_of_ch_w props=C04,C02 kind=K unwind=35 when=VF_N>16 tier=thorough timeout=3000@*/
H_FIND_LAST_NOT_OF_CH(h_find_last_not_of_ch_w, VF_KNOWN(C04_find_last_empty, h.n == 0))

/*@COMMON@*/
/* ---- default position arguments: [string.find] gives the forward searches pos = 0 and the backward ones pos = npos */

/*@COMMON@*/
#define H_DEFAULTS_FWD(NAME, KNOWN) void NAME(void) { ARB(s); ARB(t); VF_INPUT(char, ch); VF_INPUT(unsigned char, which); view_t h = view_of(&s), b = view_of(&t); __CPROVER_assume(which <= 3); \
  seq_t nd = which == 1 ? seq_sub(&ch, 1, 0, NPOS) : seq_sub(b.a, b.n, 0, NPOS); \
  KNOWN; unsigned long r = which == 0 ? s_find_str_d(&s, &t) : which == 1 ? s_find_ch_d(&s, ch) : which == 2 ? s_ffo_str_d(&s, &t) : s_ffno_str_d(&s, &t); \
  unsigned long e = which <= 1 ? sp_find(h, nd.a, nd.n, 0) : sp_ffo(h, nd.a, nd.n, 0, which == 3); \
  VF_ASSERT(r == e, "C04: find / find_first_of / find_first_not_of without pos search from 0"); UNCHANGED(s, h); VF_REACH(); }
/*@GROUP name=defaults_fwd props=C04,C02 kind=K unwind=11 when=VF_N<=7 objbits=12@*/
H_DEFAULTS_FWD(h_defaults_fwd, VF_KNOWN(C04_find_overrun, which <= 1 && sp_has_inner_nul(nd)))
/*@GROUP name=defaults_fwd_m props=C04,C02 kind=K unwind=20 when=7<VF_N<=16 objbits=12 tier=thorough@*/
H_DEFAULTS_FWD(h_defaults_fwd_m, VF_KNOWN(C04_find_overrun, which <= 1 && sp_has_inner_nul(nd)))

/*@COMMON@*/
/* N >= 15: find_end > search > compare are three nested loops; unwound 19^3 times they exhaust the 10 GB memory limit: not covered (m, w skipped) */
#define H_DEFAULTS_RFIND(NAME, KNOWN) void NAME(void) { ARB(s); ARB(t); VF_INPUT(unsigned char, c); VF_INPUT(char, ch); VF_INPUT(unsigned char, kind); view_t h = view_of(&s), b = view_of(&t); __CPROVER_assume(kind <= 2 && c <= N); CSTR(src, c, N); \
  seq_t nd = kind == 0 ? seq_sub(b.a, b.n, 0, NPOS) : kind == 1 ? seq_sub(src, c, 0, NPOS) : seq_sub(&ch, 1, 0, NPOS); \
  KNOWN; unsigned long r = kind == 0 ? s_rfind_str_d(&s, &t) : kind == 1 ? s_rfind_cstr_d(&s, src) : s_rfind_ch_d(&s, ch); \
  VF_ASSERT(r == sp_rfind(h, nd.a, nd.n, NPOS), "C04: rfind(str | char const* | ch) without pos searches from npos ([string.find])"); UNCHANGED(s, h); VF_REACH(); }
/*@GROUP name=defaults_rfind props=C04,C02 kind=K unwind=10 when=VF_N<=7 cost=3 objbits=12@*/
H_DEFAULTS_RFIND(h_defaults_rfind, VF_KNOWN(C04_backward_default_pos, sp_rfind(h, nd.a, nd.n, NPOS) != sp_rfind(h, nd.a, nd.n, 0)))

/*@COMMON@*/
#define H_DEFAULTS_FIND_LAST_OF(NAME, KNOWN) void NAME(void) { ARB(s); ARB(t); VF_INPUT(unsigned char, c); VF_INPUT(char, ch); VF_INPUT(unsigned char, kind); view_t h = view_of(&s), b = view_of(&t); __CPROVER_assume(kind <= 2 && c <= N); CSTR(src, c, N); \
  seq_t nd = kind == 0 ? seq_sub(b.a, b.n, 0, NPOS) : kind == 1 ? seq_sub(src, c, 0, NPOS) : seq_sub(&ch, 1, 0, NPOS); \
  KNOWN; unsigned long r = kind == 0 ? s_flo_str_d(&s, &t) : kind == 1 ? s_flo_cstr_d(&s, src) : s_flo_ch_d(&s, ch); \
  VF_ASSERT(r == sp_flo(h, nd.a, nd.n, NPOS, 0), "C04: find_last_of(str | char const* | ch) without pos searches from npos ([string.find])"); UNCHANGED(s, h); VF_REACH(); }
/*@GROUP name=defaults_find_last_of props=C04,C02 kind=K unwind=11 when=VF_N<=7 objbits=12@*/
H_DEFAULTS_FIND_LAST_OF(h_defaults_find_last_of, VF_KNOWN(C04_find_last_empty, h.n == 0); VF_KNOWN(C04_backward_default_pos, sp_flo(h, nd.a, nd.n, NPOS, 0) != sp_flo(h, nd.a, nd.n, 0, 0)))
/*@GROUP name=defaults_find_last_of_m props=C04,C02 kind=K unwind=20 when=7<VF_N<=16 objbits=12 tier=thorough@*/
H_DEFAULTS_FIND_LAST_OF(h_defaults_find_last_of_m, VF_KNOWN(C04_find_last_empty, h.n == 0); VF_KNOWN(C04_backward_default_pos, sp_flo(h, nd.a, nd.n, NPOS, 0) != sp_flo(h, nd.a, nd.n, 0, 0)))

/*@COMMON@*/
#define H_DEFAULTS_FIND_LAST_NOT_OF(NAME, KNOWN) void NAME(void) { ARB(s); ARB(t); VF_INPUT(unsigned char, c); VF_INPUT(char, ch); VF_INPUT(unsigned char, kind); view_t h = view_of(&s), b = view_of(&t); __CPROVER_assume(kind <= 2 && c <= N); CSTR(src, c, N); \
  seq_t nd = kind == 0 ? seq_sub(b.a, b.n, 0, NPOS) : kind == 1 ? seq_sub(src, c, 0, NPOS) : seq_sub(&ch, 1, 0, NPOS); \
  KNOWN; unsigned long r = kind == 0 ? s_flno_str_d(&s, &t) : kind == 1 ? s_flno_cstr_d(&s, src) : s_flno_ch_d(&s, ch); \
  VF_ASSERT(r == sp_flo(h, nd.a, nd.n, NPOS, 1), "C04: find_last_not_of(str | char const* | ch) without pos searches from npos ([string.find])"); UNCHANGED(s, h); VF_REACH(); }
/*@GROUP name=defaults_find_last_not_of props=C04,C02 kind=K unwind=11 when=VF_N<=7 objbits=12@*/
H_DEFAULTS_FIND_LAST_NOT_OF(h_defaults_find_last_not_of, VF_KNOWN(C04_find_last_empty, h.n == 0); VF_KNOWN(C04_backward_default_pos, sp_flo(h, nd.a, nd.n, NPOS, 1) != sp_flo(h, nd.a, nd.n, 0, 1)))
/*@GROUP name=defaults_find_last_not_of_m props=C04,C02 kind=K unwind=20 when=7<VF_N<=16 objbits=12 tier=thorough@*/
H_DEFAULTS_FIND_LAST_NOT_OF(h_defaults_find_last_not_of_m, VF_KNOWN(C04_find_last_empty, h.n == 0); VF_KNOWN(C04_backward_default_pos, sp_flo(h, nd.a, nd.n, NPOS, 1) != sp_flo(h, nd.a, nd.n, 0, 1)))

/*@COMMON@*/
/* ---- operator+: (string, string) and (x, string) append through push_back (contract: the result fits); (string, char const*) and (string, ch) clamp */

/*@COMMON@*/
#define H_PLUS(NAME, KNOWN) void NAME(void) { ARB(a); ARB(t); VF_INPUT(S, r); VF_INPUT(unsigned char, c); VF_INPUT(char, ch); VF_INPUT(unsigned char, which); view_t oa = view_of(&a), b = view_of(&t); fill_t f = sp_fill(ch); \
  __CPROVER_assume(which <= 4 && c <= N + 1); CSTR(src, c, N + 1); view_t e, one = sp_splice(sp_empty(), 0, 0, f.a, N >= 1 ? 1 : 0), lhs = sp_splice(sp_empty(), 0, 0, src, umin(c, N)); \
  if (which == 0) { __CPROVER_assume(b.n <= N - oa.n); s_plus_str(&r, &a, &t); e = sp_splice(oa, oa.n, 0, b.a, b.n); } \
  else if (which == 1) { s_plus_cstr(&r, &a, src); e = sp_splice(oa, oa.n, 0, src, umin(c, N - oa.n)); } \
  else if (which == 2) { s_plus_ch(&r, &a, ch); e = sp_splice(oa, oa.n, 0, f.a, umin(1, N - oa.n)); } \
  else if (which == 3) { __CPROVER_assume(c <= N && oa.n <= N - c); s_cstr_plus(&r, src, &a); e = sp_splice(lhs, c, 0, oa.a, oa.n); } \
  else { __CPROVER_assume(N >= 1 && oa.n <= N - 1); s_ch_plus(&r, ch, &a); e = sp_splice(one, 1, 0, oa.a, oa.n); } \
  POST(r, e, "operator+(string, string | char const* | ch) and (char const* | ch, string): the concatenation"); \
  VF_ASSERT(WF(a) && view_eq(view_of(&a), oa) && WF(t) && view_eq(view_of(&t), b), "operator+ leaves its operands unchanged"); VF_REACH(); }
/*@GROUP name=plus props=C04,C02,C05 kind=K unwind=11 when=VF_N<=7 objbits=12 unwindset=_ZN3etl4fillIPccEEvT_S2_RKT0_.0:3@*/
H_PLUS(h_plus, ((void)0))
/*@GROUP name=plus_m props=C04,C02,C05 kind=K unwind=20 when=7<VF_N<=16 objbits=12 unwindset=_ZN3etl4fillIPccEEvT_S2_RKT0_.0:3@*/
H_PLUS(h_plus_m, ((void)0))
/*@GROUP name=plus_w props=C04,C02,C05 kind=K unwind=35 when=VF_N>16 objbits=12 unwindset=_ZN3etl4fillIPccEEvT_S2_RKT0_.0:3 tier=thorough timeout=3000@*/
H_PLUS(h_plus_w, ((void)0))

/*@COMMON@*/
/* ---- element access and observers */

/*@COMMON@*/
#define H_ACCESS(NAME, KNOWN) void NAME(void) { ARB(s); VF_INPUT(unsigned char, i); view_t o = view_of(&s); char *d = data_of(&s); \
  VF_ASSERT(s_size(&s) == o.n && s_length(&s) == o.n && s_empty(&s) == (o.n == 0) && s_full(&s) == (o.n == N), "size / length / empty / full follow the view"); CAPACITY_UNCHANGED(s); \
  VF_ASSERT(s_data(&s) == d && s_cdata(&s) == d && s_c_str(&s) == d && s_begin(&s) == d && s_cbegin(&s) == d && s_end(&s) == d + o.n && s_cend(&s) == d + o.n, "data / c_str / begin / end"); \
  VF_ASSERT(s_rbegin_base(&s) == d + o.n && s_rend_base(&s) == d, "rbegin().base() == end(), rend().base() == begin()"); \
  VF_ASSERT(s_begin_c(&s) == d && s_end_c(&s) == d + o.n && s_crbegin_base(&s) == d + o.n && s_crend_base(&s) == d && s_rbegin_c_base(&s) == d + o.n && s_rend_c_base(&s) == d, "const begin/end, crbegin/crend and const rbegin/rend"); \
  VF_ASSERT(s_view_data(&s) == d && s_view_size(&s) == o.n, "operator string_view: (data(), size())"); \
  VF_ASSERT(s_c_str(&s)[o.n] == 0, "C04: c_str()[size()] == 0"); \
  if (o.n > 0) { VF_ASSERT(s_front(&s) == d && s_cfront(&s) == d && s_back(&s) == d + (o.n - 1) && s_cback(&s) == d + (o.n - 1), "front / back address the first / last character"); } \
  if (i <= o.n) { VF_ASSERT(s_index(&s, i) == d + i && s_cindex(&s, i) == d + i, "operator[](i) addresses character i; i == size() addresses the terminator ([string.access])"); } \
  UNCHANGED(s, o); VF_REACH(); }
/*@GROUP name=access props=C04,C02,C05 kind=K unwind=11 when=VF_N<=7@*/
H_ACCESS(h_access, ((void)0))
/*@GROUP name=access_m props=C04,C02,C05 kind=K unwind=20 when=7<VF_N<=16@*/
H_ACCESS(h_access_m, ((void)0))
/*@GROUP name=access_w props=C04,C02,C05 kind=K unwind=35 when=VF_N>16 tier=thorough timeout=3000@*/
H_ACCESS(h_access_w, ((void)0))

/*@COMMON@*/
/* ---- C05: violated preconditions reach the handler, the object is still untouched ------------------------------------------ */

/*@COMMON@*/
#define H_VIOL_GROW(NAME, KNOWN) void NAME(void) { ARB(s); ARB(t); VF_INPUT(unsigned char, op); VF_INPUT(unsigned long, big); VF_INPUT(unsigned char, c); VF_INPUT(char, ch); view_t o = view_of(&s), b = view_of(&t); \
  __CPROVER_assume(op <= 12 && big > N && c > N && c <= N + 2); CSTR(src, c, N + 2); \
  if (op == 9 || op == 10) __CPROVER_assume(c > N - o.n); if (op >= 11) __CPROVER_assume(b.n > N - o.n); \
  KNOWN; EXPECT_VIOLATION(s); if (op <= 4) vf_snap_of = 0; /* constructors: there is no object yet that could stay unmodified */ \
  if (op == 0) s_ctor_n_ch(&s, big, ch); else if (op == 1) s_ctor_ptr_n(&s, src, big); else if (op == 2) s_ctor_cstr(&s, src); else if (op == 3) s_ctor_range(&s, src, src + c); else if (op == 4) s_ctor_sv(&s, src, c); \
  else if (op == 5) s_assign_n_ch(&s, big, ch); else if (op == 6) s_assign_ptr_n(&s, src, big); else if (op == 7) s_opassign_cstr(&s, src); else if (op == 8) { __CPROVER_assume(o.n == N); s_push_back(&s, ch); } \
  else if (op == 9) s_append_range(&s, src, src + c); else if (op == 10) s_assign_range(&s, src, src + c); else if (op == 11) s_append_str(&s, &t); else s_pluseq_str(&s, &t); \
  VF_NORETURN_EXPECTED(); }
/*@GROUP name=viol_grow props=C05,C02 kind=K unwind=11 when=VF_N<=7 objbits=12 unwindset=_ZN3etl4fillIPccEEvT_S2_RKT0_.0:3@*/
H_VIOL_GROW(h_viol_grow, VF_KNOWN(C05_append_range_partial, op >= 9 && o.n < N))
/*@GROUP name=viol_grow_m props=C05,C02 kind=K unwind=20 when=7<VF_N<=16 objbits=12 unwindset=_ZN3etl4fillIPccEEvT_S2_RKT0_.0:3@*/
H_VIOL_GROW(h_viol_grow_m, VF_KNOWN(C05_append_range_partial, op >= 9 && o.n < N))
/*@GROUP name=viol_grow_w props=C05,C02 kind=K unwind=35 when=VF_N>16 objbits=12 unwindset=_ZN3etl4fillIPccEEvT_S2_RKT0_.0:3 tier=thorough timeout=3000@*/
H_VIOL_GROW(h_viol_grow_w, VF_KNOWN(C05_append_range_partial, op >= 9 && o.n < N))

/*@COMMON@*/
#define H_VIOL_EMPTY(NAME, KNOWN) void NAME(void) { ARB(s); VF_INPUT(unsigned char, op); __CPROVER_assume(SZ(s) == 0); EXPECT_VIOLATION(s); \
  if (op == 0) s_pop_back(&s); else if (op == 1) s_back(&s); else if (op == 2) s_front(&s); else if (op == 3) s_cback(&s); else s_cfront(&s); \
  VF_NORETURN_EXPECTED(); }
/*@GROUP name=viol_empty props=C05,C02 kind=K unwind=11 when=VF_N<=7@*/
H_VIOL_EMPTY(h_viol_empty, ((void)0))
/*@GROUP name=viol_empty_m props=C05,C02 kind=K unwind=20 when=7<VF_N<=16@*/
H_VIOL_EMPTY(h_viol_empty_m, ((void)0))
/*@GROUP name=viol_empty_w props=C05,C02 kind=K unwind=35 when=VF_N>16 tier=thorough timeout=3000@*/
H_VIOL_EMPTY(h_viol_empty_w, ((void)0))

/*@COMMON@*/
#define H_VIOL_INDEX(NAME, KNOWN) void NAME(void) { ARB(s); VF_INPUT(unsigned long, i); VF_INPUT_BOOL(cst); __CPROVER_assume(i > SZ(s)); EXPECT_VIOLATION(s); if (cst) s_cindex(&s, i); else s_index(&s, i); VF_NORETURN_EXPECTED(); }
/*@GROUP name=viol_index props=C05,C02 kind=K unwind=11 when=VF_N<=7@*/
H_VIOL_INDEX(h_viol_index, ((void)0))
/*@GROUP name=viol_index_m props=C05,C02 kind=K unwind=20 when=7<VF_N<=16@*/
H_VIOL_INDEX(h_viol_index_m, ((void)0))
/*@GROUP name=viol_index_w props=C05,C02 kind=K unwind=35 when=VF_N>16 tier=thorough timeout=3000@*/
H_VIOL_INDEX(h_viol_index_w, ((void)0))

/*@COMMON@*/
/* a position beyond size() in the overloads that go through string_view::substr or carry their own check */
#define H_VIOL_POS(NAME, KNOWN) void NAME(void) { ARB(s); ARB(t); VF_INPUT(unsigned char, op); VF_INPUT(unsigned long, p); VF_INPUT(unsigned long, cnt); VF_INPUT(unsigned char, c); view_t o = view_of(&s), b = view_of(&t); \
  __CPROVER_assume(op <= 13 && p > o.n && c <= N); CSTR(src, c, N); \
  KNOWN; EXPECT_VIOLATION(s); \
  if (op == 0) s_compare_pn_str(&s, p, cnt, &t); else if (op == 1) s_compare_pn_cstr(&s, p, cnt, src); else if (op == 2) s_compare_pn_ptr_n(&s, p, cnt, src, c); else if (op == 3) s_compare_pn_sv(&s, p, cnt, src, c); \
  else if (op == 4) s_compare_pn_str_pn(&s, p, cnt, &t, 0, NPOS); \
  else if (op == 5) s_replace_str(&s, p, cnt, &t); else if (op == 6) s_replace_ptr_n(&s, p, cnt, src, c); else if (op == 7) s_replace_cstr(&s, p, cnt, src); else if (op == 8) { __CPROVER_assume(b.n > 0); s_replace_str_pos_n(&s, p, cnt, &t, 0, NPOS); } \
  else { __CPROVER_assume(p > c); if (op == 9) s_assign_sv_pos_n(&s, src, c, p, cnt); else if (op == 10) s_append_sv_pos_n(&s, src, c, p, cnt); else if (op == 11) s_insert_sv_pos_n(&s, 0, src, c, p, cnt); \
    else if (op == 12) s_compare_pn_sv_pn(&s, 0, NPOS, src, c, p, cnt); else { vf_snap_of = 0; s_ctor_sv_pos_n(&s, src, c, p, cnt); } } \
  VF_NORETURN_EXPECTED(); }
/*@GROUP name=viol_pos props=C05,C02 kind=K unwind=11 when=VF_N<=7@*/
H_VIOL_POS(h_viol_pos, ((void)0))
/*@GROUP name=viol_pos_m props=C05,C02 kind=K unwind=20 when=7<VF_N<=16@*/
H_VIOL_POS(h_viol_pos_m, ((void)0))
/*@GROUP name=viol_pos_w props=C05,C02 kind=K unwind=35 when=VF_N>16 objbits=14 tier=thorough timeout=3000@*/
H_VIOL_POS(h_viol_pos_w, ((void)0))

/*@COMMON@*/
/* erase(index > size(), n), erase(position >= end()), erase(first, last > end()); insert(index > size(), s, 0): the cheapest instance of the unchecked
 * insert position (a silent no-op; with a non-empty source the rotate walks out of the object, see known_findings) */
#define H_VIOL_POS_UNCHECKED(NAME, KNOWN) void NAME(void) { ARB(s); VF_INPUT(unsigned char, op); VF_INPUT(unsigned char, p); VF_INPUT(unsigned char, q); VF_INPUT(unsigned long, cnt); view_t o = view_of(&s); \
  __CPROVER_assume(op <= 3 && p > o.n && p <= N && q <= N); XBUF(char, src, 0, N); \
  KNOWN; EXPECT_VIOLATION(s); \
  if (op == 0) s_insert_ptr_n(&s, p, src, 0); \
  else if (op == 1) s_erase_idx(&s, p, cnt); else if (op == 2) { __CPROVER_assume(q >= o.n); s_erase_it(&s, data_of(&s) + q); } \
  else { __CPROVER_assume(q <= p); s_erase_range(&s, data_of(&s) + q, data_of(&s) + p); } \
  VF_NORETURN_EXPECTED(); }
/*@GROUP name=viol_pos_unchecked props=C05,C02 kind=K unwind=11 when=VF_N<=7 objbits=12@*/
H_VIOL_POS_UNCHECKED(h_viol_pos_unchecked, VF_KNOWN(C05_insert_pos_unchecked, op == 0); VF_KNOWN(C05_erase_pos_unchecked, op == 1 ? (cnt < o.n || cnt > (unsigned long)(N + 1 - p)) : op == 2 ? o.n > 1 : op == 3 && (unsigned long)(p - q) < o.n))
/*@GROUP name=viol_pos_unchecked_m props=C05,C02 kind=K unwind=20 when=7<VF_N<=16 objbits=12 tier=thorough@*/
H_VIOL_POS_UNCHECKED(h_viol_pos_unchecked_m, VF_KNOWN(C05_insert_pos_unchecked, op == 0); VF_KNOWN(C05_erase_pos_unchecked, op == 1 ? (cnt < o.n || cnt > (unsigned long)(N + 1 - p)) : op == 2 ? o.n > 1 : op == 3 && (unsigned long)(p - q) < o.n))

/*@COMMON@*/
/* a reversed iterator pair */
#define H_VIOL_RANGE(NAME, KNOWN) void NAME(void) { ARB(s); VF_INPUT(unsigned char, f); VF_INPUT(unsigned char, l); view_t o = view_of(&s); __CPROVER_assume(l < f && f <= o.n); EXPECT_VIOLATION(s); \
  s_erase_range(&s, data_of(&s) + f, data_of(&s) + l); VF_NORETURN_EXPECTED(); }
/*@GROUP name=viol_range props=C05,C02 kind=K unwind=11 when=VF_N<=7@*/
H_VIOL_RANGE(h_viol_range, ((void)0))
/*@GROUP name=viol_range_m props=C05,C02 kind=K unwind=20 when=7<VF_N<=16@*/
H_VIOL_RANGE(h_viol_range_m, ((void)0))
