/* string: basic_inplace_string<char,N> against the std::basic_string reference semantics ([string.cons], [string.modifiers], [string.ops]) — C04.
 * Every harness starts from an ARBITRARY well-formed object (all bytes symbolic, constrained by wf only): induction over histories.
 * view(s) = (n, a[0..n)); wf(s) = n <= N && data()[n] == 0 (the terminator is part of the invariant).
 * tiny layout (N < 16): n = N - _buffer[N]; normal layout: n = _size.  Postconditions are stated over the WHOLE view. */
#define N VF_N
#define CAT_(a, b) a##b
#define CAT(a, b) CAT_(a, b)
typedef struct CAT(etl_basic_inplace_string_char_, VF_N) S;
typedef struct { unsigned long n; char a[N + 1]; } view_t;
#define NPOS (~0UL)
#define BUF(s) ((s)._storage._buffer._buf)
#if VF_N < 16
#define SZ(s) ((unsigned long)N - (unsigned long)BUF(s)[N])
#define SZ_RAW_EQ(x, y) 1
#else
#define SZ(s) ((unsigned long)(s)._storage._size)
#define SZ_RAW_EQ(x, y) ((x)._storage._size == (y)._storage._size)
#endif
#define WF(s) (SZ(s) <= N && BUF(s)[SZ(s)] == 0)
static view_t view_of(const S *s) { view_t w; w.n = SZ(*s); for (int i = 0; i <= N; ++i) w.a[i] = (unsigned long)i < w.n ? BUF(*s)[i] : 0; return w; }
static char *data_of(S *s) { return &BUF(*s)[0]; }
/* snapshot for C05: a violated precondition must be detected before the object is touched (every byte of the object) */
S vf_snap; S *vf_snap_of;
#define VF_HANDLER_CHECK() do { if (vf_snap_of) { _Bool same = SZ_RAW_EQ(*vf_snap_of, vf_snap); for (int i = 0; i <= N; ++i) same = same && BUF(*vf_snap_of)[i] == BUF(vf_snap)[i]; \
    __CPROVER_assert(same, "C05: the object is unmodified when the assertion handler runs"); } } while (0)
#define EXPECT_VIOLATION(v) do { vf_expect_handler = 1; vf_snap = (v); vf_snap_of = &(v); } while (0)
#include "vf_handler.h"

static _Bool view_eq(view_t x, view_t y) { if (x.n != y.n) return 0; for (int i = 0; i < N; ++i) if ((unsigned long)i < x.n && x.a[i] != y.a[i]) return 0; return 1; }
static unsigned long umin(unsigned long a, unsigned long b) { return a < b ? a : b; }
/* ---- reference semantics on views ---------------------------------------------------------------------------------------
 * [string.replace]: the one primitive every modifier is an instance of:  o[0,pos) + src[0,m) + o[pos+xlen, n)
 *   insert = splice(pos,0,src,m)  erase = splice(pos,xlen,-,0)  append = splice(n,0,src,m)  assign = splice(0,n,src,m) */
static view_t sp_splice(view_t o, unsigned long pos, unsigned long xlen, const char *src, unsigned long m) { view_t r; r.n = o.n - xlen + m;
  for (int i = 0; i <= N; ++i) { unsigned long k = (unsigned long)i; char c = 0;
    if (k < r.n) { if (k < pos) c = o.a[i]; else if (k < pos + m) c = src[k - pos]; else { unsigned long j = k - m + xlen; c = j <= N ? o.a[j] : 0; } }
    r.a[i] = c; }
  return r; }
static view_t sp_empty(void) { view_t e; e.n = 0; for (int i = 0; i <= N; ++i) e.a[i] = 0; return e; }
typedef struct { char a[N + 2]; } fill_t;
static fill_t sp_fill(char ch) { fill_t f; for (int i = 0; i < N + 2; ++i) f.a[i] = ch; return f; }
/* [char.traits.specializations.char]: lt/compare order characters as unsigned char; [string.view.ops] compare: sign only */
static int sp_cmp(const char *x, unsigned long nx, const char *y, unsigned long ny) {
  for (int i = 0; i <= N + 1; ++i) { if ((unsigned long)i >= nx || (unsigned long)i >= ny) break; unsigned char a = (unsigned char)x[i], b = (unsigned char)y[i]; if (a < b) return -1; if (b < a) return 1; }
  return nx < ny ? -1 : (nx > ny ? 1 : 0); }
static int sgn(int x) { return x < 0 ? -1 : (x > 0 ? 1 : 0); }
static _Bool sp_match_at(view_t h, unsigned long x, const char *nd, unsigned long m) { if (x > h.n || m > h.n - x) return 0;
  for (int j = 0; j <= N; ++j) if ((unsigned long)j < m && h.a[x + (unsigned long)j] != nd[j]) return 0; return 1; }
static _Bool sp_in_set(char c, const char *set, unsigned long m) { for (int j = 0; j <= N + 1; ++j) if ((unsigned long)j < m && set[j] == c) return 1; return 0; }
/* [string.find] */
static unsigned long sp_find(view_t h, const char *nd, unsigned long m, unsigned long pos) { for (int i = 0; i <= N; ++i) if ((unsigned long)i >= pos && sp_match_at(h, (unsigned long)i, nd, m)) return (unsigned long)i; return NPOS; }
static unsigned long sp_rfind(view_t h, const char *nd, unsigned long m, unsigned long pos) { for (int i = N; i >= 0; --i) if ((unsigned long)i <= pos && sp_match_at(h, (unsigned long)i, nd, m)) return (unsigned long)i; return NPOS; }
static unsigned long sp_ffo(view_t h, const char *set, unsigned long m, unsigned long pos, _Bool neg) { for (int i = 0; i < N; ++i) if ((unsigned long)i >= pos && (unsigned long)i < h.n && sp_in_set(h.a[i], set, m) != neg) return (unsigned long)i; return NPOS; }
static unsigned long sp_flo(view_t h, const char *set, unsigned long m, unsigned long pos, _Bool neg) { for (int i = N - 1; i >= 0; --i) if ((unsigned long)i <= pos && (unsigned long)i < h.n && sp_in_set(h.a[i], set, m) != neg) return (unsigned long)i; return NPOS; }

#define ARB(v) VF_INPUT(S, v); __CPROVER_assume(WF(v))
/* XBUF: same contract as VF_BUF (exact-size heap buffer of n elements copied from the input array name_in, not terminated, nothing behind
 * the last element), but the allocation is one of N+3 objects of CONCRETE size: a malloc of symbolic size makes every access a byte_extract
 * over a symbolic-size array (measured: 55 s instead of 4 s for one constructor at N=16). */
#if defined(VF_NATIVE) || defined(VF_SCAN)
#define XALLOC(n) ((char *)VF_ALLOC(n))
#else
static char *xalloc(unsigned long n) { for (unsigned long k = 0; k <= N + 2; ++k) if (k == n) return (char *)malloc(k); __CPROVER_assume(0); return 0; }
#define XALLOC(n) xalloc(n)
#endif
#define XBUF(T, name, n, MAX) VF_INPUT_ARR(T, name##_in, (MAX) + 1); __CPROVER_assume((unsigned long)(n) <= (unsigned long)(MAX)); T *name = XALLOC((unsigned long)(n)); \
  for (unsigned long vf_i_##name = 0; vf_i_##name < (unsigned long)(n); ++vf_i_##name) name[vf_i_##name] = name##_in[vf_i_##name]
/* C string of exactly len characters in an exact-size buffer of len+1 bytes */
#define CSTR(name, len, MAX) XBUF(char, name, (unsigned long)(len) + 1, (MAX) + 1); __CPROVER_assume(name##_in[len] == 0); \
  for (int vf_j_##name = 0; vf_j_##name < (MAX); ++vf_j_##name) __CPROVER_assume((unsigned long)vf_j_##name >= (unsigned long)(len) || name##_in[vf_j_##name] != 0)
#define POST(s, expect, what) VF_ASSERT(WF(s), "C04: wf after " what ": size() <= capacity() and data()[size()] == 0"); VF_ASSERT(view_eq(view_of(&(s)), (expect)), "C04: " what)
#define CAPACITY_UNCHANGED(v) VF_ASSERT(s_capacity(&(v)) == N && s_max_size(&(v)) == N, "capacity() and max_size() are always N")

/*@GROUP name=default_ctor props=C04,C02 kind=K unwind=21 when=VF_N<=16@*/
void h_default_ctor(void) { VF_INPUT(S, s); /* indeterminate storage */ s_ctor_default(&s);
  POST(s, sp_empty(), "basic_inplace_string(): empty"); VF_ASSERT(s_size(&s) == 0 && s_empty(&s), "default construction: size() == 0"); CAPACITY_UNCHANGED(s); VF_REACH(); }

/*@GROUP name=ctor_fill props=C04,C02,C05 kind=K unwind=21 when=VF_N<=16@*/
void h_ctor_fill(void) { VF_INPUT(S, s); VF_INPUT(unsigned char, c); VF_INPUT(char, ch); __CPROVER_assume(c <= N); fill_t f = sp_fill(ch);
  s_ctor_n_ch(&s, c, ch); POST(s, sp_splice(sp_empty(), 0, 0, f.a, c), "basic_inplace_string(count, ch): count copies of ch"); VF_REACH(); }

/*@GROUP name=ctor_buf props=C04,C02,C05 kind=K unwind=21 when=VF_N<=16@*/
void h_ctor_buf(void) { VF_INPUT(S, s); VF_INPUT(unsigned char, c); VF_INPUT(unsigned char, which); __CPROVER_assume(c <= N); XBUF(char, src, c, N);
  if (which == 0) s_ctor_ptr_n(&s, src, c); else if (which == 1) s_ctor_range(&s, src, src + c); else s_ctor_sv(&s, src, c);
  POST(s, sp_splice(sp_empty(), 0, 0, src_in, c), "basic_inplace_string(s, count) / (first, last) / (string_view): exactly the source characters"); VF_REACH(); }

/*@GROUP name=ctor_cstr props=C04,C02,C05 kind=K unwind=21 when=VF_N<=16@*/
void h_ctor_cstr(void) { VF_INPUT(S, s); VF_INPUT(unsigned char, c); __CPROVER_assume(c <= N); CSTR(src, c, N);
  s_ctor_cstr(&s, src); POST(s, sp_splice(sp_empty(), 0, 0, src_in, c), "basic_inplace_string(char const*): the characters before the terminator"); VF_REACH(); }

/*@GROUP name=ctor_substr props=C04,C02,C05 kind=K unwind=21 when=VF_N<=16@*/
void h_ctor_substr(void) { VF_INPUT(S, s); ARB(t); VF_INPUT(unsigned long, pos); VF_INPUT(unsigned long, cnt); VF_INPUT(unsigned char, which); view_t b = view_of(&t); __CPROVER_assume(pos <= b.n);
  /* [string.cons]: str.substr(pos, n): rlen = min(n, size - pos) */
  unsigned long rlen = which == 0 ? umin(cnt, b.n - pos) : b.n - pos;
  if (which == 0) s_ctor_substr(&s, &t, pos, cnt); else s_ctor_substr_pos(&s, &t, pos);
  POST(s, sp_splice(sp_empty(), 0, 0, b.a + pos, rlen), "basic_inplace_string(str, pos[, n]): the characters [pos, pos + min(n, size - pos)) of str");
  VF_ASSERT(view_eq(view_of(&t), b) && WF(t), "the source string is unchanged"); VF_REACH(); }

/*@GROUP name=ctor_sv_sub props=C04,C02,C05 kind=K unwind=21 when=VF_N<=16@*/
void h_ctor_sv_sub(void) { VF_INPUT(S, s); VF_INPUT(unsigned char, m); VF_INPUT(unsigned char, pos); VF_INPUT(unsigned long, cnt); __CPROVER_assume(m <= N + 1 && pos <= m); XBUF(char, src, m, N + 1);
  unsigned long rlen = umin(cnt, m - pos); __CPROVER_assume(rlen <= N);
  s_ctor_sv_pos_n(&s, src, m, pos, cnt);
  POST(s, sp_splice(sp_empty(), 0, 0, src_in + pos, rlen), "basic_inplace_string(sv, pos, n): sv.substr(pos, n)"); VF_REACH(); }

/*@GROUP name=copy_move props=C04,C02 kind=K unwind=21 when=VF_N<=16@*/
void h_copy_move(void) { ARB(s); VF_INPUT(S, t); VF_INPUT(unsigned char, which); VF_INPUT(char, x); view_t os = view_of(&s); S *r = &t;
  if (which == 0) s_copy_ctor(&t, &s);
  else if (which == 1) { __CPROVER_assume(WF(t)); r = s_copy_assign(&t, &s); }
  else if (which == 2) s_move_ctor(&t, &s);
  else if (which == 3) { __CPROVER_assume(WF(t)); r = s_move_assign(&t, &s); }
  else { __CPROVER_assume(WF(t)); r = s_assign_str(&t, &s); }
  POST(t, os, "copy/move construction and assignment, assign(str): target == source"); VF_ASSERT(r == &t, "assignment returns *this");
  VF_ASSERT(WF(s), "source stays well-formed (valid, assignable, destructible)");
  if (which != 2 && which != 3) { VF_ASSERT(view_eq(view_of(&s), os), "copy leaves the source unchanged");
    if (SZ(t) > 0) { BUF(t)[0] = x; s_pop_back(&t); } VF_ASSERT(view_eq(view_of(&s), os), "independence: mutating the copy leaves the source unchanged"); }
  VF_REACH(); }

/*@GROUP name=self_assign props=C04,C02 kind=K unwind=21 when=VF_N<=16@*/
void h_self_assign(void) { ARB(s); view_t os = view_of(&s); VF_INPUT(unsigned char, which);
  if (which == 0) s_copy_assign(&s, &s); else if (which == 1) s_move_assign(&s, &s); else if (which == 2) s_assign_str(&s, &s); else s_swap(&s, &s);
  VF_ASSERT(WF(s), "C04: self-assignment / self-swap keeps the object well-formed"); if (which != 1) VF_ASSERT(view_eq(view_of(&s), os), "C04: copy self-assignment, assign(*this) and self-swap keep the contents"); VF_REACH(); }

/*@GROUP name=assign_fill props=C04,C02,C05 kind=K unwind=21 when=VF_N<=16@*/
void h_assign_fill(void) { ARB(s); VF_INPUT(unsigned char, c); VF_INPUT(char, ch); VF_INPUT_BOOL(op); fill_t f = sp_fill(ch); S *r;
  if (op) { c = 1; r = s_opassign_ch(&s, ch); } else { __CPROVER_assume(c <= N); r = s_assign_n_ch(&s, c, ch); }
  POST(s, sp_splice(sp_empty(), 0, 0, f.a, c), "assign(count, ch) / operator=(ch): count copies of ch"); VF_ASSERT(r == &s, "assign returns *this"); VF_REACH(); }

/*@GROUP name=assign_buf props=C04,C02,C05 kind=K unwind=21 when=VF_N<=16@*/
void h_assign_buf(void) { ARB(s); VF_INPUT(unsigned char, c); VF_INPUT(unsigned char, which); __CPROVER_assume(c <= N); XBUF(char, src, c, N); S *r;
  if (which == 0) r = s_assign_ptr_n(&s, src, c); else if (which == 1) r = s_assign_range(&s, src, src + c); else if (which == 2) r = s_assign_sv(&s, src, c); else r = s_opassign_sv(&s, src, c);
  POST(s, sp_splice(sp_empty(), 0, 0, src_in, c), "assign(s, count) / (first, last) / (string_view), operator=(string_view): exactly the source characters"); VF_ASSERT(r == &s, "assign returns *this"); VF_REACH(); }

/*@GROUP name=assign_cstr props=C04,C02,C05 kind=K unwind=21 when=VF_N<=16@*/
void h_assign_cstr(void) { ARB(s); VF_INPUT(unsigned char, c); VF_INPUT_BOOL(op); __CPROVER_assume(c <= N); CSTR(src, c, N); S *r;
  if (op) r = s_opassign_cstr(&s, src); else r = s_assign_cstr(&s, src);
  POST(s, sp_splice(sp_empty(), 0, 0, src_in, c), "assign(char const*) / operator=(char const*): the characters before the terminator"); VF_ASSERT(r == &s, "assign returns *this"); VF_REACH(); }

/*@GROUP name=assign_sub props=C04,C02,C05 kind=K unwind=21 when=VF_N<=16@*/
void h_assign_sub(void) { ARB(s); ARB(t); VF_INPUT(unsigned long, pos); VF_INPUT(unsigned long, cnt); VF_INPUT(unsigned char, m); VF_INPUT(unsigned char, which); view_t b = view_of(&t); S *r;
  __CPROVER_assume(m <= N + 1); XBUF(char, src, m, N + 1);
  if (which <= 1) { __CPROVER_assume(pos <= b.n); unsigned long rlen = which == 0 ? umin(cnt, b.n - pos) : b.n - pos;
    r = which == 0 ? s_assign_str_pos_n(&s, &t, pos, cnt) : s_assign_str_pos(&s, &t, pos);
    POST(s, sp_splice(sp_empty(), 0, 0, b.a + pos, rlen), "assign(str, pos[, n]): str.substr(pos, n)"); VF_ASSERT(view_eq(view_of(&t), b) && WF(t), "the source string is unchanged"); }
  else { __CPROVER_assume(pos <= m); unsigned long rlen = which == 2 ? umin(cnt, m - pos) : m - pos; __CPROVER_assume(rlen <= N);
    r = which == 2 ? s_assign_sv_pos_n(&s, src, m, pos, cnt) : s_assign_sv_pos(&s, src, m, pos);
    POST(s, sp_splice(sp_empty(), 0, 0, src_in + pos, rlen), "assign(sv, pos[, n]): sv.substr(pos, n)"); }
  VF_ASSERT(r == &s, "assign returns *this"); VF_REACH(); }

/* ---- append: the overloads built on append(count, ch) / append(s, count) CLAMP to the capacity ("maximum up to its capacity"); the ones built on
 * push_back (append(first, last), append(str), operator+=(str)) have the contract size() < capacity() per appended character: they are specified
 * for results that fit, exceeding calls are in viol_grow. */
/*@GROUP name=append_fill props=C04,C02,C05 kind=K unwind=21 when=VF_N<=16@*/
void h_append_fill(void) { ARB(s); VF_INPUT(unsigned long, c); VF_INPUT(char, ch); VF_INPUT(unsigned char, which); view_t o = view_of(&s); fill_t f = sp_fill(ch); S *r = &s;
  if (which == 0) r = s_append_n_ch(&s, c, ch); else if (which == 1) { c = 1; r = s_pluseq_ch(&s, ch); } else { c = 1; __CPROVER_assume(o.n < N); s_push_back(&s, ch); }
  POST(s, sp_splice(o, o.n, 0, f.a, umin(c, N - o.n)), "append(count, ch) / operator+=(ch) / push_back(ch): min(count, capacity - size) copies of ch are appended, the prefix is unchanged");
  VF_ASSERT(r == &s, "append returns *this"); CAPACITY_UNCHANGED(s); VF_REACH(); }

/*@GROUP name=append_buf props=C04,C02,C05 kind=K unwind=21 when=VF_N<=16@*/
void h_append_buf(void) { ARB(s); VF_INPUT(unsigned char, c); VF_INPUT(unsigned char, which); __CPROVER_assume(c <= N + 1); XBUF(char, src, c, N + 1); view_t o = view_of(&s); S *r;
  if (which == 0) r = s_append_ptr_n(&s, src, c); else if (which == 1) r = s_append_sv(&s, src, c); else r = s_pluseq_sv(&s, src, c);
  POST(s, sp_splice(o, o.n, 0, src_in, umin(c, N - o.n)), "append(s, count) / (string_view), operator+=(string_view): the first min(count, capacity - size) source characters are appended");
  VF_ASSERT(r == &s, "append returns *this"); VF_REACH(); }

/*@GROUP name=append_range props=C04,C02,C05 kind=K unwind=21 when=VF_N<=16 objbits=12@*/
void h_append_range(void) { ARB(s); VF_INPUT(unsigned char, c); view_t o = view_of(&s); __CPROVER_assume(c <= N - o.n); XBUF(char, src, c, N);
  S *r = s_append_range(&s, src, src + c);
  POST(s, sp_splice(o, o.n, 0, src_in, c), "append(first, last): the source range is appended"); VF_ASSERT(r == &s, "append returns *this"); VF_REACH(); }

/*@GROUP name=append_cstr props=C04,C02,C05 kind=K unwind=21 when=VF_N<=16@*/
void h_append_cstr(void) { ARB(s); VF_INPUT(unsigned char, c); VF_INPUT_BOOL(op); __CPROVER_assume(c <= N + 1); CSTR(src, c, N + 1); view_t o = view_of(&s); S *r;
  if (op) r = s_pluseq_cstr(&s, src); else r = s_append_cstr(&s, src);
  POST(s, sp_splice(o, o.n, 0, src_in, umin(c, N - o.n)), "append(char const*) / operator+=(char const*): the first min(strlen, capacity - size) characters are appended"); VF_ASSERT(r == &s, "append returns *this"); VF_REACH(); }

/*@GROUP name=append_str props=C04,C02,C05 kind=K unwind=21 when=VF_N<=16 objbits=12@*/
void h_append_str(void) { ARB(s); ARB(t); VF_INPUT(unsigned char, pos); VF_INPUT(unsigned long, cnt); VF_INPUT(unsigned char, which); view_t o = view_of(&s), b = view_of(&t); S *r;
  if (which <= 1) { pos = 0; cnt = NPOS; } else if (which >= 3) cnt = NPOS;
  __CPROVER_assume(pos <= b.n); unsigned long rlen = umin(cnt, b.n - pos); __CPROVER_assume(rlen <= N - o.n);
  if (which == 0) r = s_append_str(&s, &t); else if (which == 1) r = s_pluseq_str(&s, &t); else if (which == 2) r = s_append_str_pos_n(&s, &t, pos, cnt); else r = s_append_str_pos(&s, &t, pos);
  POST(s, sp_splice(o, o.n, 0, b.a + pos, rlen), "append(str[, pos[, n]]) / operator+=(str): str.substr(pos, n) is appended"); VF_ASSERT(r == &s, "append returns *this");
  VF_ASSERT(view_eq(view_of(&t), b) && WF(t), "the source string is unchanged"); VF_REACH(); }

/*@GROUP name=append_sv_sub props=C04,C02,C05 kind=K unwind=21 when=VF_N<=16@*/
void h_append_sv_sub(void) { ARB(s); VF_INPUT(unsigned char, m); VF_INPUT(unsigned char, pos); VF_INPUT(unsigned long, cnt); __CPROVER_assume(m <= N + 1 && pos <= m); XBUF(char, src, m, N + 1); view_t o = view_of(&s);
  unsigned long rlen = umin(cnt, m - pos); S *r = s_append_sv_pos_n(&s, src, m, pos, cnt);
  POST(s, sp_splice(o, o.n, 0, src_in + pos, umin(rlen, N - o.n)), "append(sv, pos, n): the first min(rlen, capacity - size) characters of sv.substr(pos, n) are appended"); VF_ASSERT(r == &s, "append returns *this"); VF_REACH(); }

/*@GROUP name=append_sv_pos props=C04,C02,C05 kind=K unwind=21 when=VF_N<=16@*/
void h_append_sv_pos(void) { ARB(s); VF_INPUT(unsigned char, m); VF_INPUT(unsigned char, pos); __CPROVER_assume(m <= N + 1 && pos <= m); XBUF(char, src, m, N + 1); view_t o = view_of(&s);
  S *r = s_append_sv_pos(&s, src, m, pos);
  POST(s, sp_splice(o, o.n, 0, src_in + pos, umin(m - pos, N - o.n)), "append(sv, pos): the first min(sv.size() - pos, capacity - size) characters of sv.substr(pos) are appended"); VF_ASSERT(r == &s, "append returns *this"); VF_REACH(); }

/*@GROUP name=pop_back props=C04,C02,C05 kind=K unwind=21 when=VF_N<=16@*/
void h_pop_back(void) { ARB(s); view_t o = view_of(&s); __CPROVER_assume(o.n > 0); s_pop_back(&s);
  POST(s, sp_splice(o, o.n - 1, 1, o.a, 0), "pop_back: the last character is removed, the prefix is unchanged"); VF_REACH(); }
