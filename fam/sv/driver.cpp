// driver: basic_string_view<CH> (C08 searches/comparisons, C05 contract checks, C02)
#include <etl/string_view.hpp>
#include <etl/new.hpp>
#ifndef VF_CT
#define VF_CT 0
#endif
#define VF_E extern "C"
namespace vf {
#if VF_CT == 0
using CH = char;
#elif VF_CT == 1
using CH = wchar_t;
#else
using CH = char16_t;
#endif
using SV = etl::basic_string_view<CH>;
using size_type = etl::size_t;

// ---- searches: _v view, _c character, _pn pointer+count, _p C string; _vd/_cd/_pd use the default pos
#define VF_SEARCH(F)                                                                                                    \
    VF_E size_type sv_##F##_v(SV const& h, SV const& n, size_type pos) { return h.F(n, pos); }                          \
    VF_E size_type sv_##F##_c(SV const& h, CH c, size_type pos) { return h.F(c, pos); }                                 \
    VF_E size_type sv_##F##_pn(SV const& h, CH const* s, size_type pos, size_type cnt) { return h.F(s, pos, cnt); }     \
    VF_E size_type sv_##F##_p(SV const& h, CH const* s, size_type pos) { return h.F(s, pos); }                          \
    VF_E size_type sv_##F##_vd(SV const& h, SV const& n) { return h.F(n); }                                             \
    VF_E size_type sv_##F##_cd(SV const& h, CH c) { return h.F(c); }                                                    \
    VF_E size_type sv_##F##_pd(SV const& h, CH const* s) { return h.F(s); }
VF_SEARCH(find)
VF_SEARCH(rfind)
VF_SEARCH(find_first_of)
VF_SEARCH(find_last_of)
VF_SEARCH(find_first_not_of)
VF_SEARCH(find_last_not_of)

// ---- compare (six overloads)
VF_E int sv_compare_v(SV const& h, SV const& v) { return h.compare(v); }
VF_E int sv_compare_pcv(SV const& h, size_type p1, size_type c1, SV const& v) { return h.compare(p1, c1, v); }
VF_E int sv_compare_pcvpc(SV const& h, size_type p1, size_type c1, SV const& v, size_type p2, size_type c2) { return h.compare(p1, c1, v, p2, c2); }
VF_E int sv_compare_s(SV const& h, CH const* s) { return h.compare(s); }
VF_E int sv_compare_pcs(SV const& h, size_type p1, size_type c1, CH const* s) { return h.compare(p1, c1, s); }
VF_E int sv_compare_pcsc(SV const& h, size_type p1, size_type c1, CH const* s, size_type c2) { return h.compare(p1, c1, s, c2); }

// ---- starts_with / ends_with / contains
VF_E bool sv_starts_with_v(SV const& h, SV const& v) { return h.starts_with(v); }
VF_E bool sv_starts_with_c(SV const& h, CH c) { return h.starts_with(c); }
VF_E bool sv_starts_with_p(SV const& h, CH const* s) { return h.starts_with(s); }
VF_E bool sv_ends_with_v(SV const& h, SV const& v) { return h.ends_with(v); }
VF_E bool sv_ends_with_c(SV const& h, CH c) { return h.ends_with(c); }
VF_E bool sv_ends_with_p(SV const& h, CH const* s) { return h.ends_with(s); }
VF_E bool sv_contains_v(SV const& h, SV const& v) { return h.contains(v); }
VF_E bool sv_contains_c(SV const& h, CH c) { return h.contains(c); }
VF_E bool sv_contains_p(SV const& h, CH const* s) { return h.contains(s); }

// ---- substr / copy / remove_prefix / remove_suffix / swap
VF_E void sv_substr(SV* out, SV const& h, size_type pos, size_type cnt) { new (out) SV(h.substr(pos, cnt)); }
VF_E void sv_substr_p(SV* out, SV const& h, size_type pos) { new (out) SV(h.substr(pos)); }
VF_E void sv_substr_d(SV* out, SV const& h) { new (out) SV(h.substr()); }
VF_E size_type sv_copy(SV const& h, CH* dest, size_type cnt, size_type pos) { return h.copy(dest, cnt, pos); }
VF_E size_type sv_copy_d(SV const& h, CH* dest, size_type cnt) { return h.copy(dest, cnt); }
VF_E void sv_remove_prefix(SV& h, size_type n) { h.remove_prefix(n); }
VF_E void sv_remove_suffix(SV& h, size_type n) { h.remove_suffix(n); }
VF_E void sv_swap(SV& a, SV& b) { a.swap(b); }

// ---- relational operators
VF_E bool sv_eq(SV const& a, SV const& b) { return a == b; }
VF_E bool sv_ne(SV const& a, SV const& b) { return a != b; }
VF_E bool sv_lt(SV const& a, SV const& b) { return a < b; }
VF_E bool sv_le(SV const& a, SV const& b) { return a <= b; }
VF_E bool sv_gt(SV const& a, SV const& b) { return a > b; }
VF_E bool sv_ge(SV const& a, SV const& b) { return a >= b; }

// ---- construction and element access
VF_E void sv_default(SV* out) { new (out) SV; }
VF_E void sv_ctor_pn(SV* out, CH const* s, size_type n) { new (out) SV(s, n); }
VF_E void sv_ctor_p(SV* out, CH const* s) { new (out) SV(s); }
VF_E void sv_ctor_range(SV* out, CH const* f, CH const* l) { new (out) SV(f, l); }
VF_E void sv_copy_ctor(SV* out, SV const& o) { new (out) SV(o); }
VF_E void sv_assign(SV& a, SV const& b) { a = b; }
VF_E CH const* sv_data(SV const& h) { return h.data(); }
VF_E size_type sv_size(SV const& h) { return h.size(); }
VF_E size_type sv_length(SV const& h) { return h.length(); }
VF_E size_type sv_max_size(SV const& h) { return h.max_size(); }
VF_E bool sv_empty(SV const& h) { return h.empty(); }
VF_E CH const* sv_front(SV const& h) { return &h.front(); }
VF_E CH const* sv_back(SV const& h) { return &h.back(); }
VF_E CH const* sv_index(SV const& h, size_type i) { return &h[i]; }
VF_E CH const* sv_begin(SV const& h) { return h.begin(); }
VF_E CH const* sv_end(SV const& h) { return h.end(); }
VF_E CH const* sv_cbegin(SV const& h) { return h.cbegin(); }
VF_E CH const* sv_cend(SV const& h) { return h.cend(); }
VF_E CH const* sv_rbegin_base(SV const& h) { return h.rbegin().base(); }
VF_E CH const* sv_rend_base(SV const& h) { return h.rend().base(); }
VF_E CH const* sv_crbegin_base(SV const& h) { return h.crbegin().base(); }
VF_E CH const* sv_crend_base(SV const& h) { return h.crend().base(); }
VF_E size_type sv_npos() { return SV::npos; }

// ---- contract mode (contracts.spec names the char instantiation): make sure it is lowered in every variant
#if VF_CT != 0
using CSV = etl::string_view;
VF_E size_type u_find_c(CSV const& h, char c, size_type pos) { return h.find(c, pos); }
VF_E size_type u_rfind_c(CSV const& h, char c, size_type pos) { return h.rfind(c, pos); }
VF_E size_type u_find_first_of_c(CSV const& h, char c, size_type pos) { return h.find_first_of(c, pos); }
VF_E size_type u_find_last_of_c(CSV const& h, char c, size_type pos) { return h.find_last_of(c, pos); }
VF_E size_type u_find_first_not_of_c(CSV const& h, char c, size_type pos) { return h.find_first_not_of(c, pos); }
VF_E size_type u_find_last_not_of_c(CSV const& h, char c, size_type pos) { return h.find_last_not_of(c, pos); }
VF_E size_type u_find_first_of_v(CSV const& h, CSV const& n, size_type pos) { return h.find_first_of(n, pos); }
VF_E size_type u_find_first_not_of_v(CSV const& h, CSV const& n, size_type pos) { return h.find_first_not_of(n, pos); }
VF_E size_type u_find_v(CSV const& h, CSV const& n, size_type pos) { return h.find(n, pos); }
VF_E size_type u_rfind_v(CSV const& h, CSV const& n, size_type pos) { return h.rfind(n, pos); }
VF_E size_type u_copy(CSV const& h, char* dest, size_type cnt, size_type pos) { return h.copy(dest, cnt, pos); }
VF_E int u_compare_v(CSV const& h, CSV const& v) { return h.compare(v); }
VF_E int u_compare_pcvpc(CSV const& h, size_type p1, size_type c1, CSV const& v, size_type p2, size_type c2) { return h.compare(p1, c1, v, p2, c2); }
VF_E int u_compare_pcv(CSV const& h, size_type p1, size_type c1, CSV const& v) { return h.compare(p1, c1, v); }
VF_E bool u_starts_with_v(CSV const& h, CSV const& v) { return h.starts_with(v); }
VF_E bool u_ends_with_v(CSV const& h, CSV const& v) { return h.ends_with(v); }
VF_E bool u_eq(CSV const& a, CSV const& b) { return a == b; }
VF_E bool u_lt(CSV const& a, CSV const& b) { return a < b; }
VF_E bool u_le(CSV const& a, CSV const& b) { return a <= b; }
VF_E bool u_gt(CSV const& a, CSV const& b) { return a > b; }
VF_E bool u_ge(CSV const& a, CSV const& b) { return a >= b; }
#endif
}
