/* sv: basic_string_view<CH> against std::basic_string_view ([string.view.find], [string.view.ops], [string.view.comparison],
 * [char.traits.specializations]) - C08; contract checks - C05; safety rides along - C02.
 * wf(view) = the viewed range is exactly _size characters of heap storage with NOTHING readable behind it and no terminator: a
 * one-past read is an out-of-bounds failure (natively a heap-buffer-overflow under ASan), also for the empty view.
 *   - loop-free groups (kind F) and contract groups (kind U): _begin points to an exact-size object of _size <= 65536 characters;
 *   - bounded groups (kind B): a window flush with the end (or the begin) of a constant-size object, see SV_BUF.
 * Reference semantics r_* are the standard's "lowest/highest position xpos such that ..." definitions as plain loops over the
 * INPUT arrays (hay_in, nd_in); they never look at the implementation.  pos / count arguments are arbitrary size_t (size(),
 * size()+1, npos included); empty haystack, empty needle and needle longer than the haystack are inside every bounded domain. */
#if VF_CT == 0
typedef char CH;
typedef struct etl_basic_string_view_char SV;
#define LT(a, b) ((unsigned char)(a) < (unsigned char)(b)) /* char_traits<char>::lt is < on unsigned char */
#elif VF_CT == 1
typedef __WCHAR_TYPE__ CH;
typedef struct etl_basic_string_view_wchar_t SV;
#define LT(a, b) ((a) < (b))
#else
typedef unsigned short CH;
typedef struct etl_basic_string_view_char16_t SV;
#define LT(a, b) ((a) < (b))
#endif
#define NPOS (~0UL)
/* bounded groups: every group states its own caps (haystack <= HM, needle / character set <= NM); the SAT effort grows ~5x per extra
 * haystack character (all characters, pos and both lengths are symbolic), so the quick groups stop short of their `_full` twins
 * (tier=thorough, haystack <= 6, needle <= 3).  HCAP/NCAP bound the reference loops and the input arrays. */
#define HCAP 6
#define NCAP 3
#define BIG 65536UL /* loop-free and contract groups: view length <= BIG */

/* snapshot for C05: a violated precondition must be detected before the view is touched */
SV vf_snap; SV *vf_snap_of;
#define VF_HANDLER_CHECK() do { if (vf_snap_of) __CPROVER_assert(vf_snap_of->_begin == vf_snap._begin && vf_snap_of->_size == vf_snap._size, "C05: the view is unmodified when the assertion handler runs"); } while (0)
#define EXPECT_VIOLATION(v) do { vf_expect_handler = 1; vf_snap = (v); vf_snap_of = &(v); } while (0)
#include "vf_handler.h"

/* Bounded groups: the viewed range is a window [off, off+n) of a heap object of exactly MAX characters, where the placement is
 * symbolic: flush with the END of the object (a one-past read is out of bounds; the empty view then begins one past the end, so
 * ANY read through it is out of bounds) or flush with its BEGIN (a read before begin() is out of bounds).  What the implementation
 * reads relative to the view cannot depend on the placement, so this detects exactly what an exact-size object of n characters
 * detects, natively too (ASan on the malloc'ed object) - but CBMC sees one object of constant size instead of one per length,
 * which is ~5x cheaper.  The loop-free groups (BIG_VIEW) and the contract groups (is_fresh) use exact-size objects.
 * name_in is the input array the reference semantics read; no terminator is ever stored. */
#define SV_BUF(name, n, MAX)                                                                                           \
    VF_INPUT_ARR(CH, name##_in, HCAP + 1); VF_INPUT(unsigned char, n); __CPROVER_assume(n <= (MAX));                   \
    VF_INPUT_BOOL(name##_tail); CH *name##_obj = (CH *)malloc((MAX) * sizeof(CH));                                     \
    CH *name = name##_obj + (name##_tail ? (MAX) - n : 0);                                                             \
    for (unsigned long i_##name = 0; i_##name < (MAX); ++i_##name) if (i_##name < n) name[i_##name] = name##_in[i_##name]
/* the same characters as a C string flush with the end of its object: n characters and the terminator, nothing behind it */
#define SV_CSTR(name, src_in, n, MAX)                                                                                  \
    CH *name##_obj = (CH *)malloc(((MAX) + 1) * sizeof(CH)); CH *name = name##_obj + ((MAX) - n);                      \
    for (unsigned long j_##name = 0; j_##name < (MAX); ++j_##name) if (j_##name < n) name[j_##name] = src_in[j_##name]; \
    name[n] = 0
#define SV_VIEW(v, p, n) SV v; v._begin = p; v._size = n
/* view of unbounded length (<= BIG) with arbitrary contents, for loop-free functions */
#define BIG_VIEW(h, p, n) VF_INPUT(unsigned long, n); __CPROVER_assume(n <= BIG); CH *p = (CH *)malloc(n * sizeof(CH)); SV_VIEW(h, p, n)

/* ---- reference semantics ------------------------------------------------------------------------------------------------ */
static unsigned long r_min(unsigned long a, unsigned long b) { return a < b ? a : b; }
static unsigned long r_strlen(const CH *s, unsigned long cap) { for (unsigned long i = 0; i < NCAP; ++i) { if (i >= cap) break; if (s[i] == 0) return i; } return cap; }
/* h[x, x+nn) == n[0, nn); the caller guarantees x + nn <= hn */
static _Bool r_match(const CH *h, unsigned long x, const CH *n, unsigned long nn) { for (unsigned long i = 0; i < NCAP; ++i) if (i < nn && h[x + i] != n[i]) return 0; return 1; }
static _Bool r_in(CH c, const CH *n, unsigned long nn) { for (unsigned long i = 0; i < NCAP; ++i) if (i < nn && n[i] == c) return 1; return 0; }
/* find: lowest xpos with pos <= xpos, xpos + nn <= hn, traits::eq(at(xpos+I), str.at(I)) for all I */
static unsigned long r_find(const CH *h, unsigned long hn, const CH *n, unsigned long nn, unsigned long pos) {
  for (unsigned long x = 0; x <= HCAP; ++x) { if (x < pos || x > hn || nn > hn - x) continue; if (r_match(h, x, n, nn)) return x; } return NPOS; }
/* rfind: highest xpos with xpos <= pos, xpos + nn <= hn, ... */
static unsigned long r_rfind(const CH *h, unsigned long hn, const CH *n, unsigned long nn, unsigned long pos) {
  for (unsigned long j = 0; j <= HCAP; ++j) { unsigned long x = HCAP - j; if (x > pos || x > hn || nn > hn - x) continue; if (r_match(h, x, n, nn)) return x; } return NPOS; }
/* find_first_of / find_first_not_of: lowest xpos with pos <= xpos < hn and at(xpos) (not) in str */
static unsigned long r_ffo(const CH *h, unsigned long hn, const CH *n, unsigned long nn, unsigned long pos) {
  for (unsigned long x = 0; x < HCAP; ++x) { if (x < pos || x >= hn) continue; if (r_in(h[x], n, nn)) return x; } return NPOS; }
static unsigned long r_ffno(const CH *h, unsigned long hn, const CH *n, unsigned long nn, unsigned long pos) {
  for (unsigned long x = 0; x < HCAP; ++x) { if (x < pos || x >= hn) continue; if (!r_in(h[x], n, nn)) return x; } return NPOS; }
/* find_last_of / find_last_not_of: highest xpos with xpos <= pos, xpos < hn and at(xpos) (not) in str */
static unsigned long r_flo(const CH *h, unsigned long hn, const CH *n, unsigned long nn, unsigned long pos) {
  for (unsigned long j = 1; j <= HCAP; ++j) { unsigned long x = HCAP - j; if (x > pos || x >= hn) continue; if (r_in(h[x], n, nn)) return x; } return NPOS; }
static unsigned long r_flno(const CH *h, unsigned long hn, const CH *n, unsigned long nn, unsigned long pos) {
  for (unsigned long j = 1; j <= HCAP; ++j) { unsigned long x = HCAP - j; if (x > pos || x >= hn) continue; if (!r_in(h[x], n, nn)) return x; } return NPOS; }
/* compare: traits::compare over rlen = min(an, bn) (the first position where lt holds either way decides), then the lengths */
static int r_cmp(const CH *a, unsigned long an, const CH *b, unsigned long bn) {
  for (unsigned long i = 0; i < HCAP; ++i) { if (i >= an || i >= bn) break; if (LT(a[i], b[i])) return -1; if (LT(b[i], a[i])) return 1; }
  return an < bn ? -1 : (an > bn ? 1 : 0); }
#define SGN(x) ((x) < 0 ? -1 : ((x) > 0 ? 1 : 0))
/* first position where the two sequences differ, or min(an, bn) */
static unsigned long r_mismatch(const CH *a, unsigned long an, const CH *b, unsigned long bn) {
  for (unsigned long i = 0; i < HCAP; ++i) { if (i >= an || i >= bn) return i; if (a[i] != b[i]) return i; } return r_min(an, bn); }

/* ---- witness classes of the known findings (predicates over harness inputs only) ---------------------------------------------- */
/* find(view,pos): the inner compare runs past the end when the haystack ENDS with a proper non-empty prefix of the needle at some
 * x >= pos and no full match precedes it (then there is none at all) */
static _Bool w_find_tail(const CH *h, unsigned long hn, const CH *n, unsigned long nn, unsigned long pos) {
  if (nn < 2 || pos > hn || nn > hn - pos || r_find(h, hn, n, nn, pos) != NPOS) return 0;
  for (unsigned long x = 0; x < HCAP; ++x) { if (x < pos || x >= hn || hn - x >= nn) continue; if (r_match(h, x, n, hn - x)) return 1; } return 0; }
/* compare / relational on char: the sign is decided at the first mismatch by SIGNED char order although traits::lt is unsigned */
static _Bool w_cmp_signed(const CH *a, unsigned long an, const CH *b, unsigned long bn) {
  unsigned long m = r_mismatch(a, an, b, bn); return VF_CT == 0 && m < an && m < bn && (a[m] < 0) != (b[m] < 0); }

/* C05 ("the handler stays silent on valid arguments") is listed for the groups whose functions contain a TETL_PRECONDITION on some path
 * (find -> front()/operator[], compare/starts_with/ends_with -> substr/front/back, copy, substr, remove_*, accessors); rfind and the
 * find_*_of families only use unsafe_at and cannot reach the handler. */
/* ---- shared shape of the six search families ---------------------------------------------------------------------------- */
/* (en, enn, ep) = needle and position by which the standard defines the overload that is called */
#define HAYSTACK(HM) SV_BUF(hay, hn, HM); SV_VIEW(h, hay, hn); VF_INPUT(unsigned long, pos)
/* X: the overload (view,pos) */
#define NEEDLE_V(NM) SV_BUF(nd, nn, NM); SV_VIEW(n, nd, nn); const CH *en = nd_in; unsigned long enn = nn, ep = pos
#define CALL_V(F) sv_##F##_v(&h, &n, pos)
/* X_fwd: the forwarding overloads 0 (view) 1 (ptr,pos,count) 2 (C string,pos) 3 (C string); a group may narrow the choice by
 * redefining OVSEL before its function */
#define OVSEL(ov) 1
#define NEEDLE_FWD(NM, DEFPOS) SV_BUF(nd, nn, NM); SV_VIEW(n, nd, nn); SV_CSTR(cs, nd_in, nn, NM); VF_INPUT(unsigned char, ov); __CPROVER_assume(ov <= 3 && OVSEL(ov)); \
    const CH *en = nd_in; unsigned long enn = ov >= 2 ? r_strlen(nd_in, nn) : nn, ep = (ov == 0 || ov == 3) ? (DEFPOS) : pos
#define CALL_FWD(F) (ov == 0 ? sv_##F##_vd(&h, &n) : ov == 1 ? sv_##F##_pn(&h, nd, pos, nn) : ov == 2 ? sv_##F##_p(&h, cs, pos) : sv_##F##_pd(&h, cs))
/* X_ch: (char,pos), (char) */
#define NEEDLE_C(DEFPOS) VF_INPUT_ARR(CH, nd_in, NCAP + 1); VF_INPUT_BOOL(dflt); CH c = nd_in[0]; const CH *en = nd_in; unsigned long enn = 1, ep = dflt ? (DEFPOS) : pos
#define CALL_C(F) (dflt ? sv_##F##_cd(&h, c) : sv_##F##_c(&h, c, pos))
#define SEARCH_CHECK(r, REF, WHAT)                                                                                     \
    VF_ASSERT(r == REF(hay_in, hn, en, enn, ep), WHAT);                                                                \
    VF_ASSERT(h._begin == hay && h._size == hn, "the view itself is unchanged by a search");                           \
    VF_REACH()
#define T_FIND "find: lowest xpos >= pos with xpos + n.size() <= size() and the needle at xpos, else npos"
#define T_RFIND "rfind: highest xpos <= pos with xpos + n.size() <= size() and the needle at xpos, else npos"
#define T_FFO "find_first_of: lowest xpos >= pos, xpos < size() with at(xpos) in the set, else npos"
#define T_FLO "find_last_of: highest xpos <= pos, xpos < size() with at(xpos) in the set, else npos"
#define T_FFNO "find_first_not_of: lowest xpos >= pos, xpos < size() with at(xpos) not in the set, else npos"
#define T_FLNO "find_last_not_of: highest xpos <= pos, xpos < size() with at(xpos) not in the set, else npos"

/*@GROUP name=find props=C08,C02,C05 kind=B unwind=7 unwindset=r_find.0:8,r_rfind.0:8,r_ffo.0:8,r_ffno.0:8,r_flo.0:8,r_flno.0:8,r_cmp.0:8,r_mismatch.0:8,w_find_tail.0:8,r_match.0:5,r_in.0:5,r_strlen.0:5 bound=haystack<=5,needle<=3 cost=3 when=VF_CT==0@*/
void h_find(void) { HAYSTACK(5); NEEDLE_V(3);
  __CPROVER_assume(enn >= 1); /* domain split: the empty needle is group find_empty */
  VF_KNOWN(C08_find_tail_overread, w_find_tail(hay_in, hn, en, enn, ep));
   unsigned long r = CALL_V(find); SEARCH_CHECK(r, r_find, T_FIND); }

/*@GROUP name=find_fwd props=C08,C02,C05 kind=B unwind=5 unwindset=r_find.0:8,r_rfind.0:8,r_ffo.0:8,r_ffno.0:8,r_flo.0:8,r_flno.0:8,r_cmp.0:8,r_mismatch.0:8,w_find_tail.0:8,r_match.0:5,r_in.0:5,r_strlen.0:5 bound=haystack<=3,needle<=2 cost=3 when=VF_CT<=1@*/
void h_find_fwd(void) { HAYSTACK(3); NEEDLE_FWD(2, 0UL);
  __CPROVER_assume(enn >= 1); /* domain split: the empty needle is group find_empty */
  VF_KNOWN(C08_find_tail_overread, w_find_tail(hay_in, hn, en, enn, ep));
   unsigned long r = CALL_FWD(find); SEARCH_CHECK(r, r_find, T_FIND); }

/*@GROUP name=find_ch props=C08,C02,C05 kind=B unwind=7 unwindset=r_find.0:8,r_rfind.0:8,r_ffo.0:8,r_ffno.0:8,r_flo.0:8,r_flno.0:8,r_cmp.0:8,r_mismatch.0:8,w_find_tail.0:8,r_match.0:5,r_in.0:5,r_strlen.0:5 bound=haystack<=5 cost=1@*/
void h_find_ch(void) { HAYSTACK(5); NEEDLE_C(0UL);  unsigned long r = CALL_C(find); SEARCH_CHECK(r, r_find, T_FIND); }

/*@GROUP name=rfind props=C08,C02 kind=B unwind=6 unwindset=r_find.0:8,r_rfind.0:8,r_ffo.0:8,r_ffno.0:8,r_flo.0:8,r_flno.0:8,r_cmp.0:8,r_mismatch.0:8,w_find_tail.0:8,r_match.0:5,r_in.0:5,r_strlen.0:5 bound=haystack<=4,needle<=2 cost=3 when=VF_CT==0@*/
void h_rfind(void) { HAYSTACK(4); NEEDLE_V(2); unsigned long r = CALL_V(rfind); SEARCH_CHECK(r, r_rfind, T_RFIND); }

/*@GROUP name=rfind_fwd props=C08,C02 kind=B unwind=5 unwindset=r_find.0:8,r_rfind.0:8,r_ffo.0:8,r_ffno.0:8,r_flo.0:8,r_flno.0:8,r_cmp.0:8,r_mismatch.0:8,w_find_tail.0:8,r_match.0:5,r_in.0:5,r_strlen.0:5 bound=haystack<=3,needle<=2 cost=3 when=VF_CT<=1@*/
#undef OVSEL
#define OVSEL(ov) ((ov) <= 1)
void h_rfind_fwd(void) { HAYSTACK(3); NEEDLE_FWD(2, NPOS); unsigned long r = CALL_FWD(rfind); SEARCH_CHECK(r, r_rfind, T_RFIND); }

/*@GROUP name=rfind_cstr props=C08,C02 kind=B unwind=5 unwindset=r_find.0:8,r_rfind.0:8,r_ffo.0:8,r_ffno.0:8,r_flo.0:8,r_flno.0:8,r_cmp.0:8,r_mismatch.0:8,w_find_tail.0:8,r_match.0:5,r_in.0:5,r_strlen.0:5 bound=haystack<=3,needle<=2 cost=3 when=VF_CT==0@*/
#undef OVSEL
#define OVSEL(ov) ((ov) >= 2)
void h_rfind_cstr(void) { HAYSTACK(3); NEEDLE_FWD(2, NPOS); unsigned long r = CALL_FWD(rfind); SEARCH_CHECK(r, r_rfind, T_RFIND); }

/*@GROUP name=rfind_ch props=C08,C02 kind=B unwind=7 unwindset=r_find.0:8,r_rfind.0:8,r_ffo.0:8,r_ffno.0:8,r_flo.0:8,r_flno.0:8,r_cmp.0:8,r_mismatch.0:8,w_find_tail.0:8,r_match.0:5,r_in.0:5,r_strlen.0:5 bound=haystack<=5 cost=1@*/
void h_rfind_ch(void) { HAYSTACK(5); NEEDLE_C(NPOS); unsigned long r = CALL_C(rfind); SEARCH_CHECK(r, r_rfind, T_RFIND); }

/*@GROUP name=first_of props=C08,C02 kind=B unwind=7 unwindset=r_find.0:8,r_rfind.0:8,r_ffo.0:8,r_ffno.0:8,r_flo.0:8,r_flno.0:8,r_cmp.0:8,r_mismatch.0:8,w_find_tail.0:8,r_match.0:5,r_in.0:5,r_strlen.0:5 bound=haystack<=5,needle<=3 cost=3 when=VF_CT==0@*/
void h_first_of(void) { HAYSTACK(5); NEEDLE_V(3); unsigned long r = CALL_V(find_first_of); SEARCH_CHECK(r, r_ffo, T_FFO); }

/*@GROUP name=first_of_fwd props=C08,C02 kind=B unwind=5 unwindset=r_find.0:8,r_rfind.0:8,r_ffo.0:8,r_ffno.0:8,r_flo.0:8,r_flno.0:8,r_cmp.0:8,r_mismatch.0:8,w_find_tail.0:8,r_match.0:5,r_in.0:5,r_strlen.0:5 bound=haystack<=3,needle<=2 cost=3 when=VF_CT<=1@*/
void h_first_of_fwd(void) { HAYSTACK(3); NEEDLE_FWD(2, 0UL); unsigned long r = CALL_FWD(find_first_of); SEARCH_CHECK(r, r_ffo, T_FFO); }

/*@GROUP name=first_of_ch props=C08,C02 kind=B unwind=7 unwindset=r_find.0:8,r_rfind.0:8,r_ffo.0:8,r_ffno.0:8,r_flo.0:8,r_flno.0:8,r_cmp.0:8,r_mismatch.0:8,w_find_tail.0:8,r_match.0:5,r_in.0:5,r_strlen.0:5 bound=haystack<=5 cost=1 when=VF_CT==0@*/
void h_first_of_ch(void) { HAYSTACK(5); NEEDLE_C(0UL); unsigned long r = CALL_C(find_first_of); SEARCH_CHECK(r, r_ffo, T_FFO); }

/*@GROUP name=last_of props=C08,C02 kind=B unwind=7 unwindset=r_find.0:8,r_rfind.0:8,r_ffo.0:8,r_ffno.0:8,r_flo.0:8,r_flno.0:8,r_cmp.0:8,r_mismatch.0:8,w_find_tail.0:8,r_match.0:5,r_in.0:5,r_strlen.0:5 bound=haystack<=5,needle<=3 cost=3 when=VF_CT==0@*/
void h_last_of(void) { HAYSTACK(5); NEEDLE_V(3);
  __CPROVER_assume(hn >= 1); /* domain split: the empty view is in groups last_of_empty / last_not_of_empty */
   unsigned long r = CALL_V(find_last_of); SEARCH_CHECK(r, r_flo, T_FLO); }

/*@GROUP name=last_of_fwd props=C08,C02 kind=B unwind=5 unwindset=r_find.0:8,r_rfind.0:8,r_ffo.0:8,r_ffno.0:8,r_flo.0:8,r_flno.0:8,r_cmp.0:8,r_mismatch.0:8,w_find_tail.0:8,r_match.0:5,r_in.0:5,r_strlen.0:5 bound=haystack<=3,needle<=2 cost=3 when=VF_CT<=1@*/
void h_last_of_fwd(void) { HAYSTACK(3); NEEDLE_FWD(2, NPOS);
  __CPROVER_assume(hn >= 1); /* domain split: the empty view is in groups last_of_empty / last_not_of_empty */
   unsigned long r = CALL_FWD(find_last_of); SEARCH_CHECK(r, r_flo, T_FLO); }

/*@GROUP name=last_of_ch props=C08,C02 kind=B unwind=7 unwindset=r_find.0:8,r_rfind.0:8,r_ffo.0:8,r_ffno.0:8,r_flo.0:8,r_flno.0:8,r_cmp.0:8,r_mismatch.0:8,w_find_tail.0:8,r_match.0:5,r_in.0:5,r_strlen.0:5 bound=haystack<=5 cost=1@*/
void h_last_of_ch(void) { HAYSTACK(5); NEEDLE_C(NPOS);
  __CPROVER_assume(hn >= 1); /* domain split: the empty view is in groups last_of_empty / last_not_of_empty */
   unsigned long r = CALL_C(find_last_of); SEARCH_CHECK(r, r_flo, T_FLO); }

/*@GROUP name=first_not_of props=C08,C02 kind=B unwind=7 unwindset=r_find.0:8,r_rfind.0:8,r_ffo.0:8,r_ffno.0:8,r_flo.0:8,r_flno.0:8,r_cmp.0:8,r_mismatch.0:8,w_find_tail.0:8,r_match.0:5,r_in.0:5,r_strlen.0:5 bound=haystack<=5,needle<=3 cost=3 when=VF_CT==0@*/
void h_first_not_of(void) { HAYSTACK(5); NEEDLE_V(3); unsigned long r = CALL_V(find_first_not_of); SEARCH_CHECK(r, r_ffno, T_FFNO); }

/*@GROUP name=first_not_of_fwd props=C08,C02 kind=B unwind=5 unwindset=r_find.0:8,r_rfind.0:8,r_ffo.0:8,r_ffno.0:8,r_flo.0:8,r_flno.0:8,r_cmp.0:8,r_mismatch.0:8,w_find_tail.0:8,r_match.0:5,r_in.0:5,r_strlen.0:5 bound=haystack<=3,needle<=2 cost=3 when=VF_CT<=1@*/
void h_first_not_of_fwd(void) { HAYSTACK(3); NEEDLE_FWD(2, 0UL); unsigned long r = CALL_FWD(find_first_not_of); SEARCH_CHECK(r, r_ffno, T_FFNO); }

/*@GROUP name=first_not_of_ch props=C08,C02 kind=B unwind=7 unwindset=r_find.0:8,r_rfind.0:8,r_ffo.0:8,r_ffno.0:8,r_flo.0:8,r_flno.0:8,r_cmp.0:8,r_mismatch.0:8,w_find_tail.0:8,r_match.0:5,r_in.0:5,r_strlen.0:5 bound=haystack<=5 cost=1@*/
void h_first_not_of_ch(void) { HAYSTACK(5); NEEDLE_C(0UL); unsigned long r = CALL_C(find_first_not_of); SEARCH_CHECK(r, r_ffno, T_FFNO); }

/*@GROUP name=last_not_of props=C08,C02 kind=B unwind=7 unwindset=r_find.0:8,r_rfind.0:8,r_ffo.0:8,r_ffno.0:8,r_flo.0:8,r_flno.0:8,r_cmp.0:8,r_mismatch.0:8,w_find_tail.0:8,r_match.0:5,r_in.0:5,r_strlen.0:5 bound=haystack<=5,needle<=3 cost=3 solver=kissat when=VF_CT==0@*/
void h_last_not_of(void) { HAYSTACK(5); NEEDLE_V(3);
  __CPROVER_assume(hn >= 1); /* domain split: the empty view is in groups last_of_empty / last_not_of_empty */
   unsigned long r = CALL_V(find_last_not_of); SEARCH_CHECK(r, r_flno, T_FLNO); }

/*@GROUP name=last_not_of_fwd props=C08,C02 kind=B unwind=5 unwindset=r_find.0:8,r_rfind.0:8,r_ffo.0:8,r_ffno.0:8,r_flo.0:8,r_flno.0:8,r_cmp.0:8,r_mismatch.0:8,w_find_tail.0:8,r_match.0:5,r_in.0:5,r_strlen.0:5 bound=haystack<=3,needle<=2 cost=3 when=VF_CT<=1@*/
void h_last_not_of_fwd(void) { HAYSTACK(3); NEEDLE_FWD(2, NPOS);
  __CPROVER_assume(hn >= 1); /* domain split: the empty view is in groups last_of_empty / last_not_of_empty */
   unsigned long r = CALL_FWD(find_last_not_of); SEARCH_CHECK(r, r_flno, T_FLNO); }

/*@GROUP name=last_not_of_ch props=C08,C02 kind=B unwind=7 unwindset=r_find.0:8,r_rfind.0:8,r_ffo.0:8,r_ffno.0:8,r_flo.0:8,r_flno.0:8,r_cmp.0:8,r_mismatch.0:8,w_find_tail.0:8,r_match.0:5,r_in.0:5,r_strlen.0:5 bound=haystack<=5 cost=1 when=VF_CT==0@*/
void h_last_not_of_ch(void) { HAYSTACK(5); NEEDLE_C(NPOS);
  __CPROVER_assume(hn >= 1); /* domain split: the empty view is in groups last_of_empty / last_not_of_empty */
   unsigned long r = CALL_C(find_last_not_of); SEARCH_CHECK(r, r_flno, T_FLNO); }

/*@GROUP name=find_full props=C08,C02,C05 kind=B unwind=8 unwindset=r_find.0:8,r_rfind.0:8,r_ffo.0:8,r_ffno.0:8,r_flo.0:8,r_flno.0:8,r_cmp.0:8,r_mismatch.0:8,w_find_tail.0:8,r_match.0:5,r_in.0:5,r_strlen.0:5 bound=haystack<=6,needle<=3 cost=3 tier=thorough timeout=1500 when=VF_CT==0@*/
void h_find_full(void) { HAYSTACK(6); NEEDLE_V(3);
  __CPROVER_assume(enn >= 1); /* domain split: the empty needle is group find_empty */
  VF_KNOWN(C08_find_tail_overread, w_find_tail(hay_in, hn, en, enn, ep));
   unsigned long r = CALL_V(find); SEARCH_CHECK(r, r_find, T_FIND); }

/*@GROUP name=find_fwd_full props=C08,C02,C05 kind=B unwind=7 unwindset=r_find.0:8,r_rfind.0:8,r_ffo.0:8,r_ffno.0:8,r_flo.0:8,r_flno.0:8,r_cmp.0:8,r_mismatch.0:8,w_find_tail.0:8,r_match.0:5,r_in.0:5,r_strlen.0:5 bound=haystack<=5,needle<=2 cost=3 tier=thorough timeout=1500 when=VF_CT==0@*/
void h_find_fwd_full(void) { HAYSTACK(5); NEEDLE_FWD(2, 0UL);
  __CPROVER_assume(enn >= 1); /* domain split: the empty needle is group find_empty */
  VF_KNOWN(C08_find_tail_overread, w_find_tail(hay_in, hn, en, enn, ep));
   unsigned long r = CALL_FWD(find); SEARCH_CHECK(r, r_find, T_FIND); }

/*@GROUP name=find_ch_full props=C08,C02,C05 kind=B unwind=8 unwindset=r_find.0:8,r_rfind.0:8,r_ffo.0:8,r_ffno.0:8,r_flo.0:8,r_flno.0:8,r_cmp.0:8,r_mismatch.0:8,w_find_tail.0:8,r_match.0:5,r_in.0:5,r_strlen.0:5 bound=haystack<=6 cost=1 tier=thorough timeout=1500 when=VF_CT==0@*/
void h_find_ch_full(void) { HAYSTACK(6); NEEDLE_C(0UL);  unsigned long r = CALL_C(find); SEARCH_CHECK(r, r_find, T_FIND); }

/*@GROUP name=rfind_full props=C08,C02 kind=B unwind=8 unwindset=r_find.0:8,r_rfind.0:8,r_ffo.0:8,r_ffno.0:8,r_flo.0:8,r_flno.0:8,r_cmp.0:8,r_mismatch.0:8,w_find_tail.0:8,r_match.0:5,r_in.0:5,r_strlen.0:5 bound=haystack<=6,needle<=3 cost=3 tier=thorough timeout=1500 when=VF_CT==0@*/
void h_rfind_full(void) { HAYSTACK(6); NEEDLE_V(3); unsigned long r = CALL_V(rfind); SEARCH_CHECK(r, r_rfind, T_RFIND); }

/*@GROUP name=rfind_fwd_full props=C08,C02 kind=B unwind=7 unwindset=r_find.0:8,r_rfind.0:8,r_ffo.0:8,r_ffno.0:8,r_flo.0:8,r_flno.0:8,r_cmp.0:8,r_mismatch.0:8,w_find_tail.0:8,r_match.0:5,r_in.0:5,r_strlen.0:5 bound=haystack<=5,needle<=2 cost=3 tier=thorough timeout=1500 when=VF_CT==0@*/
void h_rfind_fwd_full(void) { HAYSTACK(5); NEEDLE_FWD(2, NPOS); unsigned long r = CALL_FWD(rfind); SEARCH_CHECK(r, r_rfind, T_RFIND); }

/*@GROUP name=rfind_ch_full props=C08,C02 kind=B unwind=8 unwindset=r_find.0:8,r_rfind.0:8,r_ffo.0:8,r_ffno.0:8,r_flo.0:8,r_flno.0:8,r_cmp.0:8,r_mismatch.0:8,w_find_tail.0:8,r_match.0:5,r_in.0:5,r_strlen.0:5 bound=haystack<=6 cost=1 tier=thorough timeout=1500 when=VF_CT==0@*/
void h_rfind_ch_full(void) { HAYSTACK(6); NEEDLE_C(NPOS); unsigned long r = CALL_C(rfind); SEARCH_CHECK(r, r_rfind, T_RFIND); }

/*@GROUP name=first_of_full props=C08,C02 kind=B unwind=8 unwindset=r_find.0:8,r_rfind.0:8,r_ffo.0:8,r_ffno.0:8,r_flo.0:8,r_flno.0:8,r_cmp.0:8,r_mismatch.0:8,w_find_tail.0:8,r_match.0:5,r_in.0:5,r_strlen.0:5 bound=haystack<=6,needle<=3 cost=3 tier=thorough timeout=1500 when=VF_CT==0@*/
void h_first_of_full(void) { HAYSTACK(6); NEEDLE_V(3); unsigned long r = CALL_V(find_first_of); SEARCH_CHECK(r, r_ffo, T_FFO); }

/*@GROUP name=first_of_fwd_full props=C08,C02 kind=B unwind=7 unwindset=r_find.0:8,r_rfind.0:8,r_ffo.0:8,r_ffno.0:8,r_flo.0:8,r_flno.0:8,r_cmp.0:8,r_mismatch.0:8,w_find_tail.0:8,r_match.0:5,r_in.0:5,r_strlen.0:5 bound=haystack<=5,needle<=2 cost=3 tier=thorough timeout=1500 when=VF_CT==0@*/
void h_first_of_fwd_full(void) { HAYSTACK(5); NEEDLE_FWD(2, 0UL); unsigned long r = CALL_FWD(find_first_of); SEARCH_CHECK(r, r_ffo, T_FFO); }

/*@GROUP name=first_of_ch_full props=C08,C02 kind=B unwind=8 unwindset=r_find.0:8,r_rfind.0:8,r_ffo.0:8,r_ffno.0:8,r_flo.0:8,r_flno.0:8,r_cmp.0:8,r_mismatch.0:8,w_find_tail.0:8,r_match.0:5,r_in.0:5,r_strlen.0:5 bound=haystack<=6 cost=1 tier=thorough timeout=1500 when=VF_CT==0@*/
void h_first_of_ch_full(void) { HAYSTACK(6); NEEDLE_C(0UL); unsigned long r = CALL_C(find_first_of); SEARCH_CHECK(r, r_ffo, T_FFO); }

/*@GROUP name=last_of_full props=C08,C02 kind=B unwind=8 unwindset=r_find.0:8,r_rfind.0:8,r_ffo.0:8,r_ffno.0:8,r_flo.0:8,r_flno.0:8,r_cmp.0:8,r_mismatch.0:8,w_find_tail.0:8,r_match.0:5,r_in.0:5,r_strlen.0:5 bound=haystack<=6,needle<=3 cost=3 tier=thorough timeout=1500 when=VF_CT==0@*/
void h_last_of_full(void) { HAYSTACK(6); NEEDLE_V(3);
  __CPROVER_assume(hn >= 1); /* domain split: the empty view is in groups last_of_empty / last_not_of_empty */
   unsigned long r = CALL_V(find_last_of); SEARCH_CHECK(r, r_flo, T_FLO); }

/*@GROUP name=last_of_fwd_full props=C08,C02 kind=B unwind=7 unwindset=r_find.0:8,r_rfind.0:8,r_ffo.0:8,r_ffno.0:8,r_flo.0:8,r_flno.0:8,r_cmp.0:8,r_mismatch.0:8,w_find_tail.0:8,r_match.0:5,r_in.0:5,r_strlen.0:5 bound=haystack<=5,needle<=2 cost=3 tier=thorough timeout=1500 when=VF_CT==0@*/
void h_last_of_fwd_full(void) { HAYSTACK(5); NEEDLE_FWD(2, NPOS);
  __CPROVER_assume(hn >= 1); /* domain split: the empty view is in groups last_of_empty / last_not_of_empty */
   unsigned long r = CALL_FWD(find_last_of); SEARCH_CHECK(r, r_flo, T_FLO); }

/*@GROUP name=last_of_ch_full props=C08,C02 kind=B unwind=8 unwindset=r_find.0:8,r_rfind.0:8,r_ffo.0:8,r_ffno.0:8,r_flo.0:8,r_flno.0:8,r_cmp.0:8,r_mismatch.0:8,w_find_tail.0:8,r_match.0:5,r_in.0:5,r_strlen.0:5 bound=haystack<=6 cost=1 tier=thorough timeout=1500 when=VF_CT==0@*/
void h_last_of_ch_full(void) { HAYSTACK(6); NEEDLE_C(NPOS);
  __CPROVER_assume(hn >= 1); /* domain split: the empty view is in groups last_of_empty / last_not_of_empty */
   unsigned long r = CALL_C(find_last_of); SEARCH_CHECK(r, r_flo, T_FLO); }

/*@GROUP name=first_not_of_full props=C08,C02 kind=B solver=kissat unwind=8 unwindset=r_find.0:8,r_rfind.0:8,r_ffo.0:8,r_ffno.0:8,r_flo.0:8,r_flno.0:8,r_cmp.0:8,r_mismatch.0:8,w_find_tail.0:8,r_match.0:5,r_in.0:5,r_strlen.0:5 bound=haystack<=6,needle<=3 cost=3 tier=thorough timeout=1500 when=VF_CT==0@*/
void h_first_not_of_full(void) { HAYSTACK(6); NEEDLE_V(3); unsigned long r = CALL_V(find_first_not_of); SEARCH_CHECK(r, r_ffno, T_FFNO); }

/*@GROUP name=first_not_of_fwd_full props=C08,C02 kind=B solver=kissat unwind=7 unwindset=r_find.0:8,r_rfind.0:8,r_ffo.0:8,r_ffno.0:8,r_flo.0:8,r_flno.0:8,r_cmp.0:8,r_mismatch.0:8,w_find_tail.0:8,r_match.0:5,r_in.0:5,r_strlen.0:5 bound=haystack<=5,needle<=2 cost=3 tier=thorough timeout=1500 when=VF_CT==0@*/
void h_first_not_of_fwd_full(void) { HAYSTACK(5); NEEDLE_FWD(2, 0UL); unsigned long r = CALL_FWD(find_first_not_of); SEARCH_CHECK(r, r_ffno, T_FFNO); }

/*@GROUP name=first_not_of_ch_full props=C08,C02 kind=B unwind=8 unwindset=r_find.0:8,r_rfind.0:8,r_ffo.0:8,r_ffno.0:8,r_flo.0:8,r_flno.0:8,r_cmp.0:8,r_mismatch.0:8,w_find_tail.0:8,r_match.0:5,r_in.0:5,r_strlen.0:5 bound=haystack<=6 cost=1 tier=thorough timeout=1500 when=VF_CT==0@*/
void h_first_not_of_ch_full(void) { HAYSTACK(6); NEEDLE_C(0UL); unsigned long r = CALL_C(find_first_not_of); SEARCH_CHECK(r, r_ffno, T_FFNO); }

/*@GROUP name=last_not_of_full props=C08,C02 kind=B solver=kissat unwind=8 unwindset=r_find.0:8,r_rfind.0:8,r_ffo.0:8,r_ffno.0:8,r_flo.0:8,r_flno.0:8,r_cmp.0:8,r_mismatch.0:8,w_find_tail.0:8,r_match.0:5,r_in.0:5,r_strlen.0:5 bound=haystack<=6,needle<=3 cost=3 tier=thorough timeout=1500 when=VF_CT==0@*/
void h_last_not_of_full(void) { HAYSTACK(6); NEEDLE_V(3);
  __CPROVER_assume(hn >= 1); /* domain split: the empty view is in groups last_of_empty / last_not_of_empty */
   unsigned long r = CALL_V(find_last_not_of); SEARCH_CHECK(r, r_flno, T_FLNO); }

/*@GROUP name=last_not_of_fwd_full props=C08,C02 kind=B solver=kissat unwind=7 unwindset=r_find.0:8,r_rfind.0:8,r_ffo.0:8,r_ffno.0:8,r_flo.0:8,r_flno.0:8,r_cmp.0:8,r_mismatch.0:8,w_find_tail.0:8,r_match.0:5,r_in.0:5,r_strlen.0:5 bound=haystack<=5,needle<=2 cost=3 tier=thorough timeout=1500 when=VF_CT==0@*/
void h_last_not_of_fwd_full(void) { HAYSTACK(5); NEEDLE_FWD(2, NPOS);
  __CPROVER_assume(hn >= 1); /* domain split: the empty view is in groups last_of_empty / last_not_of_empty */
   unsigned long r = CALL_FWD(find_last_not_of); SEARCH_CHECK(r, r_flno, T_FLNO); }

/*@GROUP name=last_not_of_ch_full props=C08,C02 kind=B unwind=8 unwindset=r_find.0:8,r_rfind.0:8,r_ffo.0:8,r_ffno.0:8,r_flo.0:8,r_flno.0:8,r_cmp.0:8,r_mismatch.0:8,w_find_tail.0:8,r_match.0:5,r_in.0:5,r_strlen.0:5 bound=haystack<=6 cost=1 tier=thorough timeout=1500 when=VF_CT==0@*/
void h_last_not_of_ch_full(void) { HAYSTACK(6); NEEDLE_C(NPOS);
  __CPROVER_assume(hn >= 1); /* domain split: the empty view is in groups last_of_empty / last_not_of_empty */
   unsigned long r = CALL_C(find_last_not_of); SEARCH_CHECK(r, r_flno, T_FLNO); }

/* the empty needle: find returns pos for every pos <= size() (an empty string is found everywhere), npos beyond */
/*@GROUP name=find_empty props=C08,C02,C05 kind=B unwind=8 bound=haystack<=6,needle=0 cost=1 when=VF_CT==0@*/
void h_find_empty(void) { HAYSTACK(HCAP); VF_INPUT(unsigned char, ov); __CPROVER_assume(ov <= 4);
  VF_INPUT_BOOL(nd_tail); CH *nd_obj = (CH *)malloc(NCAP * sizeof(CH)); CH *nd = nd_obj + (nd_tail ? NCAP : 0); SV_VIEW(n, nd, 0); /* empty window */
  CH *cs = (CH *)malloc(sizeof(CH)); cs[0] = 0; /* "" */
  unsigned long ep = (ov == 1 || ov == 4) ? 0UL : pos;
  VF_KNOWN(C08_find_empty_needle, ep <= hn);
  unsigned long r = ov == 0 ? sv_find_v(&h, &n, pos) : ov == 1 ? sv_find_vd(&h, &n) : ov == 2 ? sv_find_pn(&h, nd, pos, 0) : ov == 3 ? sv_find_p(&h, cs, pos) : sv_find_pd(&h, cs);
  VF_ASSERT(r == (ep <= hn ? ep : NPOS), "find with an empty needle: pos if pos <= size(), else npos"); VF_REACH(); }

/*@COMMON@*/
/* the empty view (and, so that the group is not vacuous once the finding is excluded, the one-character view), all 7 + 7 overloads */
#define LAST_EMPTY(F, REF)                                                                                              \
    if (fn == 1) { ep = pos; enn = nn; } else if (fn == 2) { enn = 1; ep = dflt ? NPOS : pos; }                         \
    unsigned long r = fn == 0 ? CALL_FWD(F) : fn == 1 ? CALL_V(F) : CALL_C(F);                                          \
    VF_ASSERT(r == REF(hay_in, hn, en, enn, ep), #F " on an empty or one-character view (npos on the empty view)"); VF_REACH()
/*@GROUP name=last_of_empty props=C08,C02 kind=B unwind=4 unwindset=r_flo.0:8,r_flno.0:8,r_in.0:5,r_strlen.0:5 bound=haystack<=1,set<=2 cost=2 when=VF_CT==0@*/
void h_last_of_empty(void) { HAYSTACK(1); NEEDLE_FWD(2, NPOS); VF_INPUT(unsigned char, fn); __CPROVER_assume(fn <= 2); CH c = nd_in[0]; VF_INPUT_BOOL(dflt);
  VF_KNOWN(C08_find_last_empty_view, hn == 0);
  LAST_EMPTY(find_last_of, r_flo); }

/*@GROUP name=last_not_of_empty props=C08,C02 kind=B unwind=4 unwindset=r_flo.0:8,r_flno.0:8,r_in.0:5,r_strlen.0:5 bound=haystack<=1,set<=2 cost=2 when=VF_CT==0@*/
void h_last_not_of_empty(void) { HAYSTACK(1); NEEDLE_FWD(2, NPOS); VF_INPUT(unsigned char, fn); __CPROVER_assume(fn <= 2); CH c = nd_in[0]; VF_INPUT_BOOL(dflt);
  VF_KNOWN(C08_find_last_empty_view, hn == 0);
  LAST_EMPTY(find_last_not_of, r_flno); }

/*@COMMON@*/
/* ---- compare, starts_with / ends_with / contains, relational operators ------------------------------------------------------ */
/* compare: 0 (v) 1 (pos1,count1,v) 2 (pos1,count1,v,pos2,count2) 3 (s) 4 (pos1,count1,s) 5 (pos1,count1,s,count2); only the sign
 * is specified. pos1/count1/pos2/count2 are arbitrary size_t with pos1 <= size(), pos2 <= v.size() (beyond: C05 group viol_pos) */
#define COMPARE_BODY(HM, NM)                                                                                           \
    SV_BUF(hay, hn, HM); SV_VIEW(h, hay, hn); SV_BUF(nd, nn, NM); SV_VIEW(n, nd, nn); SV_CSTR(cs, nd_in, nn, NM);      \
    VF_INPUT(unsigned char, ov); VF_INPUT(unsigned long, p1); VF_INPUT(unsigned long, c1); VF_INPUT(unsigned long, p2); VF_INPUT(unsigned long, c2); \
    __CPROVER_assume(ov <= 5 && p1 <= hn && p2 <= nn);                                                                  \
    const CH *ea = hay_in + (ov == 0 || ov == 3 ? 0 : p1); unsigned long ean = ov == 0 || ov == 3 ? hn : r_min(c1, hn - p1);          \
    const CH *eb = nd_in + (ov == 2 ? p2 : 0); unsigned long ebn = ov == 2 ? r_min(c2, nn - p2) : (ov == 3 || ov == 4 ? r_strlen(nd_in, nn) : nn)
#define COMPARE_CALL()                                                                                                 \
    int r = ov == 0 ? sv_compare_v(&h, &n) : ov == 1 ? sv_compare_pcv(&h, p1, c1, &n) : ov == 2 ? sv_compare_pcvpc(&h, p1, c1, &n, p2, c2)       \
          : ov == 3 ? sv_compare_s(&h, cs) : ov == 4 ? sv_compare_pcs(&h, p1, c1, cs) : sv_compare_pcsc(&h, p1, c1, nd, nn);                     \
    VF_ASSERT(SGN(r) == r_cmp(ea, ean, eb, ebn), "compare: sign of traits::compare over min(len) characters, then of the length difference, on substr(pos1,count1) / v.substr(pos2,count2)"); \
    VF_ASSERT(h._begin == hay && h._size == hn, "the view itself is unchanged by compare"); VF_REACH()

/*@GROUP name=compare props=C08,C02,C05 kind=B unwind=7 unwindset=r_find.0:8,r_rfind.0:8,r_ffo.0:8,r_ffno.0:8,r_flo.0:8,r_flno.0:8,r_cmp.0:8,r_mismatch.0:8,w_find_tail.0:8,r_match.0:5,r_in.0:5,r_strlen.0:5 bound=haystack<=5,other<=3 cost=3 when=VF_CT==0@*/
void h_compare(void) { COMPARE_BODY(5, 3);
  VF_KNOWN(C08_compare_char_signed, w_cmp_signed(ea, ean, eb, ebn));
  COMPARE_CALL(); }

/* wchar_t / char16_t: traits::lt is the built-in < of the character type, nothing known */
/*@GROUP name=compare_wide props=C08,C02,C05 kind=B unwind=7 unwindset=r_find.0:8,r_rfind.0:8,r_ffo.0:8,r_ffno.0:8,r_flo.0:8,r_flno.0:8,r_cmp.0:8,r_mismatch.0:8,w_find_tail.0:8,r_match.0:5,r_in.0:5,r_strlen.0:5 bound=haystack<=5,other<=3 cost=3 when=VF_CT!=0@*/
void h_compare_wide(void) { COMPARE_BODY(5, 3); COMPARE_CALL(); }

/*@GROUP name=compare_full props=C08,C02,C05 kind=B unwind=8 unwindset=r_find.0:8,r_rfind.0:8,r_ffo.0:8,r_ffno.0:8,r_flo.0:8,r_flno.0:8,r_cmp.0:8,r_mismatch.0:8,w_find_tail.0:8,r_match.0:5,r_in.0:5,r_strlen.0:5 bound=haystack<=6,other<=3 cost=3 tier=thorough timeout=1500 when=VF_CT==0@*/
void h_compare_full(void) { COMPARE_BODY(6, 3);
  VF_KNOWN(C08_compare_char_signed, w_cmp_signed(ea, ean, eb, ebn));
  COMPARE_CALL(); }

/*@COMMON@*/
/* relational operators on two views (operands in both orders): all six are the sign of compare() */
#define REL_BODY(HM, NM)                                                                                               \
    SV_BUF(hay, hn, HM); SV_VIEW(h, hay, hn); SV_BUF(nd, nn, NM); SV_VIEW(n, nd, nn); VF_INPUT_BOOL(flip);             \
    const CH *ea = flip ? nd_in : hay_in, *eb = flip ? hay_in : nd_in; unsigned long ean = flip ? nn : hn, ebn = flip ? hn : nn; SV *x = flip ? &n : &h, *y = flip ? &h : &n
#define REL_CALL()                                                                                                     \
    int c = r_cmp(ea, ean, eb, ebn); _Bool same = ean == ebn && r_mismatch(ea, ean, eb, ebn) == ean;                   \
    VF_ASSERT(sv_eq(x, y) == same && sv_ne(x, y) == !same, "== and != : same length and same characters");             \
    VF_ASSERT((c == 0) == same, "reference: compare() == 0 iff equal");                                                \
    VF_ASSERT(sv_lt(x, y) == (c < 0) && sv_le(x, y) == (c <= 0) && sv_gt(x, y) == (c > 0) && sv_ge(x, y) == (c >= 0), "<, <=, >, >= are lhs.compare(rhs) <, <=, >, >= 0"); VF_REACH()

/*@GROUP name=relational props=C08,C02 kind=B unwind=7 unwindset=r_find.0:8,r_rfind.0:8,r_ffo.0:8,r_ffno.0:8,r_flo.0:8,r_flno.0:8,r_cmp.0:8,r_mismatch.0:8,w_find_tail.0:8,r_match.0:5,r_in.0:5,r_strlen.0:5 bound=lhs<=5,rhs<=3 cost=2 when=VF_CT==0@*/
void h_relational(void) { REL_BODY(5, 3);
  VF_KNOWN(C08_compare_char_signed, w_cmp_signed(ea, ean, eb, ebn));
  REL_CALL(); }

/*@GROUP name=relational_full props=C08,C02 kind=B unwind=8 unwindset=r_find.0:8,r_rfind.0:8,r_ffo.0:8,r_ffno.0:8,r_flo.0:8,r_flno.0:8,r_cmp.0:8,r_mismatch.0:8,w_find_tail.0:8,r_match.0:5,r_in.0:5,r_strlen.0:5 bound=lhs<=6,rhs<=6 cost=2 tier=thorough timeout=1500 when=VF_CT==0@*/
void h_relational_full(void) { REL_BODY(6, 6);
  VF_KNOWN(C08_compare_char_signed, w_cmp_signed(ea, ean, eb, ebn));
  REL_CALL(); }

/*@COMMON@*/
/* starts_with / ends_with / contains: 0-2 starts_with (view, char, C string), 3-5 ends_with, 6-8 contains */
#define AFFIX_BODY(HM, NM)                                                                                             \
    SV_BUF(hay, hn, HM); SV_VIEW(h, hay, hn); SV_BUF(nd, nn, NM); SV_VIEW(n, nd, nn); SV_CSTR(cs, nd_in, nn, NM);      \
    VF_INPUT(unsigned char, ov); __CPROVER_assume(ov <= 8); CH c = nd_in[0]; const CH *en = nd_in;                     \
    unsigned long enn = ov % 3 == 1 ? 1 : (ov % 3 == 2 ? r_strlen(nd_in, nn) : nn), ep = 0
#define AFFIX_CALL()                                                                                                   \
    _Bool r = ov == 0 ? sv_starts_with_v(&h, &n) : ov == 1 ? sv_starts_with_c(&h, c) : ov == 2 ? sv_starts_with_p(&h, cs)                        \
            : ov == 3 ? sv_ends_with_v(&h, &n) : ov == 4 ? sv_ends_with_c(&h, c) : ov == 5 ? sv_ends_with_p(&h, cs)                              \
            : ov == 6 ? sv_contains_v(&h, &n) : ov == 7 ? sv_contains_c(&h, c) : sv_contains_p(&h, cs);                                          \
    _Bool e = ov <= 2 ? (enn <= hn && r_match(hay_in, 0, en, enn)) : ov <= 5 ? (enn <= hn && r_match(hay_in, hn - enn, en, enn)) : r_find(hay_in, hn, en, enn, 0) != NPOS; \
    VF_ASSERT(r == e, "starts_with / ends_with: the view is at least as long as x and begins / ends with it; contains: find(x) != npos"); VF_REACH()

/*@GROUP name=affix props=C08,C02,C05 kind=B unwind=7 unwindset=r_find.0:8,r_rfind.0:8,r_ffo.0:8,r_ffno.0:8,r_flo.0:8,r_flno.0:8,r_cmp.0:8,r_mismatch.0:8,w_find_tail.0:8,r_match.0:5,r_in.0:5,r_strlen.0:5 bound=haystack<=5,needle<=3 cost=3 when=VF_CT==0@*/
void h_affix(void) { AFFIX_BODY(5, 3);
  VF_KNOWN(C08_find_empty_needle, ov >= 6 && enn == 0);
  VF_KNOWN(C08_find_tail_overread, ov >= 6 && w_find_tail(hay_in, hn, en, enn, ep));
  AFFIX_CALL(); }

/*@GROUP name=affix_full props=C08,C02,C05 kind=B unwind=8 unwindset=r_find.0:8,r_rfind.0:8,r_ffo.0:8,r_ffno.0:8,r_flo.0:8,r_flno.0:8,r_cmp.0:8,r_mismatch.0:8,w_find_tail.0:8,r_match.0:5,r_in.0:5,r_strlen.0:5 bound=haystack<=6,needle<=3 cost=3 tier=thorough timeout=1500 when=VF_CT==0@*/
void h_affix_full(void) { AFFIX_BODY(6, 3);
  VF_KNOWN(C08_find_empty_needle, ov >= 6 && enn == 0);
  VF_KNOWN(C08_find_tail_overread, ov >= 6 && w_find_tail(hay_in, hn, en, enn, ep));
  AFFIX_CALL(); }

/*@COMMON@*/
/* copy(dest,count,pos) / copy(dest,count): rcount = min(count, size()-pos) characters into an EXACT-fit destination; count is an
 * arbitrary size_t; pos <= size() (beyond: C05 group viol_pos) */
/*@GROUP name=copy props=C08,C02,C05 kind=B unwind=8 bound=haystack<=6 cost=1@*/
void h_copy(void) { SV_BUF(hay, hn, HCAP); SV_VIEW(h, hay, hn); VF_INPUT(unsigned long, pos); VF_INPUT(unsigned long, cnt); VF_INPUT_BOOL(dflt);
  unsigned long ep = dflt ? 0 : pos; __CPROVER_assume(ep <= hn); unsigned long rc = r_min(cnt, hn - ep);
  VF_INPUT_BOOL(dst_tail); CH *dst_obj = (CH *)malloc(HCAP * sizeof(CH)); CH *dst = dst_obj + (dst_tail ? HCAP - rc : 0); /* window of exactly rc characters */
  unsigned long r = dflt ? sv_copy_d(&h, dst, cnt) : sv_copy(&h, dst, cnt, pos);
  VF_ASSERT(r == rc, "copy returns rcount = min(count, size() - pos)");
  for (unsigned long i = 0; i < HCAP; ++i) if (i < rc) VF_ASSERT(dst[i] == hay_in[ep + i], "copy: dest[i] == at(pos + i) for i < rcount");
  for (unsigned long i = 0; i < HCAP; ++i) if (i < hn) VF_ASSERT(hay[i] == hay_in[i], "copy leaves the source characters alone");
  VF_ASSERT(h._begin == hay && h._size == hn, "the view itself is unchanged by copy"); VF_REACH(); }

/* basic_string_view(char const*): length by traits::length; the C string is exact-fit (nothing behind the terminator) */
/*@GROUP name=ctor_cstr props=C08,C02,C05 kind=B unwind=8 bound=length<=6 cost=1@*/
void h_ctor_cstr(void) { VF_INPUT_ARR(CH, s_in, HCAP + 1); VF_INPUT(unsigned char, sn); __CPROVER_assume(sn <= HCAP);
  CH *s_obj = (CH *)malloc((HCAP + 1) * sizeof(CH)); CH *s = s_obj + (HCAP - sn); for (unsigned long i = 0; i < HCAP; ++i) if (i < sn) s[i] = s_in[i]; s[sn] = 0;
  unsigned long len = sn; for (unsigned long j = 0; j < HCAP; ++j) { unsigned long i = HCAP - 1 - j; if (i < sn && s_in[i] == 0) len = i; }
  VF_INPUT(SV, v); sv_ctor_p(&v, s);
  VF_ASSERT(v._begin == s && v._size == len, "basic_string_view(s): data() == s, size() == traits::length(s) (first terminator)"); VF_REACH(); }

/* ---- loop-free members on a view of ANY length <= 65536 over an exact-size object (kind F) ------------------------------------- */
/*@GROUP name=access props=C08,C02,C05 kind=F unwind=2@*/
void h_access(void) { BIG_VIEW(h, p, n); VF_INPUT(unsigned long, i);
  VF_ASSERT(sv_data(&h) == p && sv_size(&h) == n && sv_length(&h) == n && sv_empty(&h) == (n == 0), "data/size/length/empty follow (_begin,_size)");
  VF_ASSERT(sv_max_size(&h) == NPOS && sv_npos() == NPOS, "max_size() and npos are size_type(-1)");
  VF_ASSERT(sv_begin(&h) == p && sv_cbegin(&h) == p && sv_end(&h) == p + n && sv_cend(&h) == p + n, "begin/cbegin == data(), end/cend == data() + size()");
  VF_ASSERT(sv_rbegin_base(&h) == p + n && sv_rend_base(&h) == p, "rbegin().base() == end(), rend().base() == begin()");
  VF_ASSERT(sv_crbegin_base(&h) == p + n && sv_crend_base(&h) == p, "crbegin().base() == end(), crend().base() == begin()");
  if (n > 0) { VF_ASSERT(sv_front(&h) == p && sv_back(&h) == p + (n - 1), "front/back address the first/last character"); }
  if (i < n) { VF_ASSERT(sv_index(&h, i) == p + i, "operator[](i) addresses character i for every i < size()"); }
  VF_ASSERT(h._begin == p && h._size == n, "observers do not change the view"); VF_REACH(); }

/*@GROUP name=substr props=C08,C02,C05 kind=F unwind=2@*/
void h_substr(void) { BIG_VIEW(h, p, n); VF_INPUT(unsigned long, pos); VF_INPUT(unsigned long, cnt); VF_INPUT(unsigned char, ov); VF_INPUT(SV, out);
  __CPROVER_assume(ov <= 2); unsigned long ep = ov == 2 ? 0 : pos, ec = ov == 0 ? cnt : NPOS; __CPROVER_assume(ep <= n); /* pos > size(): C05 group viol_pos */
  if (ov == 0) sv_substr(&out, &h, pos, cnt); else if (ov == 1) sv_substr_p(&out, &h, pos); else sv_substr_d(&out, &h);
  VF_ASSERT(out._begin == p + ep && out._size == r_min(ec, n - ep), "substr(pos,count): data() + pos, rcount = min(count, size() - pos), for every count incl. npos and pos == size()");
  VF_ASSERT(h._begin == p && h._size == n, "substr does not change the view"); VF_REACH(); }

/*@GROUP name=remove props=C08,C02,C05 kind=F unwind=2@*/
void h_remove(void) { BIG_VIEW(h, p, n); BIG_VIEW(g, q, m); VF_INPUT(unsigned long, k); VF_INPUT(unsigned char, op); __CPROVER_assume(op <= 2 && k <= n); /* k > size(): C05 group viol_remove */
  if (op == 0) { sv_remove_prefix(&h, k); VF_ASSERT(h._begin == p + k && h._size == n - k, "remove_prefix(k): data() += k, size() -= k (k == size() gives the empty view at end())"); }
  else if (op == 1) { sv_remove_suffix(&h, k); VF_ASSERT(h._begin == p && h._size == n - k, "remove_suffix(k): data() unchanged, size() -= k"); }
  else { sv_swap(&h, &g); VF_ASSERT(h._begin == q && h._size == m && g._begin == p && g._size == n, "swap exchanges the two views"); }
  VF_REACH(); }

/*@GROUP name=ctors props=C08,C02,C05 kind=F unwind=2@*/
void h_ctors(void) { BIG_VIEW(h, p, n); VF_INPUT(SV, a); VF_INPUT(SV, b); VF_INPUT(SV, c); VF_INPUT(SV, d); VF_INPUT(SV, e); VF_INPUT(unsigned long, k); __CPROVER_assume(k <= n);
  sv_default(&a); VF_ASSERT(a._begin == 0 && a._size == 0, "basic_string_view(): data() == nullptr, size() == 0");
  VF_ASSERT(sv_empty(&a) && sv_begin(&a) == 0, "the default view is empty"); /* end() = nullptr + 0 is fine in C++ ([expr.add]/4.1) but not in the C the checker sees: not called here */
  sv_ctor_pn(&b, p + k, n - k); VF_ASSERT(b._begin == p + k && b._size == n - k, "basic_string_view(s, count): data() == s, size() == count");
  sv_ctor_range(&c, p + k, p + n); VF_ASSERT(c._begin == p + k && c._size == n - k, "basic_string_view(first, last): data() == first, size() == last - first");
  sv_copy_ctor(&d, &h); VF_ASSERT(d._begin == p && d._size == n, "copy construction: same data() and size()");
  sv_assign(&e, &b); VF_ASSERT(e._begin == p + k && e._size == n - k && b._begin == p + k && b._size == n - k, "assignment: same data() and size(), source unchanged");
  VF_REACH(); }

/* ---- C05: violated preconditions reach the handler with the view untouched (any length <= 65536, any violating argument) ------- */
/*@GROUP name=viol_access props=C05,C02 kind=F unwind=2@*/
void h_viol_access(void) { BIG_VIEW(h, p, n); VF_INPUT(unsigned long, i); VF_INPUT(unsigned char, op); __CPROVER_assume(op <= 2); EXPECT_VIOLATION(h);
  if (op == 0) { __CPROVER_assume(i >= n); sv_index(&h, i); }          /* size(), size()+1, ..., npos */
  else if (op == 1) { __CPROVER_assume(n == 0); sv_front(&h); }
  else { __CPROVER_assume(n == 0); sv_back(&h); }
  VF_NORETURN_EXPECTED(); }

/*@GROUP name=viol_remove props=C05,C02 kind=F unwind=2@*/
void h_viol_remove(void) { BIG_VIEW(h, p, n); VF_INPUT(unsigned long, k); VF_INPUT_BOOL(suffix); __CPROVER_assume(k > n); EXPECT_VIOLATION(h);
  if (suffix) sv_remove_suffix(&h, k); else sv_remove_prefix(&h, k);
  VF_NORETURN_EXPECTED(); }

/*@GROUP name=viol_pos props=C05,C02 kind=F unwind=2@*/
void h_viol_pos(void) { BIG_VIEW(h, p, n); BIG_VIEW(g, q, m); VF_INPUT(unsigned long, pos); VF_INPUT(unsigned long, cnt); VF_INPUT(unsigned long, p2); VF_INPUT(unsigned long, c2);
  VF_INPUT(unsigned char, op); VF_INPUT(SV, out); __CPROVER_assume(op <= 7 && pos > n); CH one[1]; one[0] = 0; EXPECT_VIOLATION(h);
  if (op == 0) sv_substr(&out, &h, pos, cnt);
  else if (op == 1) sv_substr_p(&out, &h, pos);
  else if (op == 2) sv_copy(&h, one, cnt, pos);
  else if (op == 3) sv_compare_pcv(&h, pos, cnt, &g);
  else if (op == 4) sv_compare_pcvpc(&h, pos, cnt, &g, p2, c2);
  else if (op == 5) sv_compare_pcs(&h, pos, cnt, one);
  else if (op == 6) sv_compare_pcsc(&h, pos, cnt, q, m);
  else { __CPROVER_assume(p2 > m); vf_snap = g; vf_snap_of = &g; sv_compare_pcvpc(&h, 0, cnt, &g, p2, c2); } /* pos2 > v.size() */
  VF_NORETURN_EXPECTED(); }

/* ---- contract mode (kind U): haystack of ANY length <= 65536, loop contracts with the ghost index vf_k (contracts.spec) ------------ */
/*@GROUP name=u_first_not_of_ch props=C08,C02 kind=U mode=contract enforce=sv_ffno_c_real loops=1 standin=first_not_of_ch when=VF_CT==0@*/
void h_u_first_not_of_ch(void) { SV *th; char c; unsigned long pos; vf_k = nondet_ulong(); sv_ffno_c_real(th, c, pos); VF_REACH(); }

/*@GROUP name=u_rfind_ch props=C08,C02 kind=U mode=contract enforce=sv_rfind_c_real loops=1 standin=rfind_ch when=VF_CT==0@*/
void h_u_rfind_ch(void) { SV *th; char c; unsigned long pos; vf_k = nondet_ulong(); sv_rfind_c_real(th, c, pos); VF_REACH(); }

/*@GROUP name=u_find_ch props=C08,C02,C05 kind=U mode=contract enforce=sv_find_c_real loops=1 unwind=3 standin=find_ch when=VF_CT==0@*/
void h_u_find_ch(void) { SV *th; char c; unsigned long pos; vf_k = nondet_ulong(); sv_find_c_real(th, c, pos); VF_REACH(); }

/*@GROUP name=u_first_of_ch props=C08,C02 kind=U mode=contract enforce=sv_ffo_c_real loops=1 unwind=3 standin=first_of_ch when=VF_CT==0@*/
void h_u_first_of_ch(void) { SV *th; char c; unsigned long pos; vf_k = nondet_ulong(); sv_ffo_c_real(th, c, pos); VF_REACH(); }

/* find_first_of(view,pos) with a set of <= 3 characters and an unbounded haystack (contract sv_ffo_v_real, nested loop contracts) did not
 * close: minisat 1500 s / kissat out of memory. Its loop contracts are what u_first_of_ch is proved with; the view form stays bounded (first_of). */

/*@GROUP name=u_first_not_of props=C08,C02 kind=U solver=kissat timeout=600 mode=contract enforce=sv_ffno_v_real loops=1 unwind=5 standin=first_not_of when=VF_CT==0@*/
void h_u_first_not_of(void) { SV *th; SV v; unsigned long pos; vf_k = nondet_ulong(); sv_ffno_v_real(th, v, pos); VF_REACH(); }

/* find_last_of(char,pos) / find_last_not_of(char,pos): do-while loops over the (view,pos) overloads with the one-character set */
/*@GROUP name=u_last_of_ch props=C08,C02 kind=U mode=contract enforce=sv_flo_c_real loops=1 standin=last_of_ch when=VF_CT==0@*/
void h_u_last_of_ch(void) { SV *th; char c; unsigned long pos; vf_k = nondet_ulong(); sv_flo_c_real(th, c, pos); VF_REACH(); }

/*@GROUP name=u_last_not_of_ch props=C08,C02 kind=U mode=contract enforce=sv_flno_c_real loops=1 standin=last_not_of_ch when=VF_CT==0@*/
void h_u_last_not_of_ch(void) { SV *th; char c; unsigned long pos; vf_k = nondet_ulong(); sv_flno_c_real(th, c, pos); VF_REACH(); }

/* copy(dest,count,pos): any view of <= 65536 characters, any count (npos included), any pos <= size(), exact-fit destination */
/*@GROUP name=u_copy props=C08,C02,C05 kind=U mode=contract enforce=sv_copy_real loops=1 standin=copy when=VF_CT==0@*/
void h_u_copy(void) { SV *th; char *dest; unsigned long cnt; unsigned long pos; vf_k = nondet_ulong(); sv_copy_real(th, dest, cnt, pos); VF_REACH(); }

/*@COMMON@*/
/* ---- compare family, unbounded (contracts.spec "compare family"): two ranges a[0,na), b[0,nb) in heap objects of exactly that size (a
 * one-past read is out of bounds) such that a[oa, oa+m) == b[ob, ob+m) and, unless m reaches the end of one of the two compared
 * sub-ranges (lengths la, lb), a[oa+m] != b[ob+m].  The common part is BUILT with CBMC's memcpy model (array-level update, no loop): "all
 * earlier characters are equal" is a universally quantified hypothesis that a ghost index cannot supply.  Every pair of ranges arises
 * for exactly one m, so the proof covers all contents; na, nb <= 65536, every other character is unconstrained. */
#ifndef VF_NATIVE
void *memcpy(void *, const void *, unsigned long);
#endif
#define U_PAIR(na, nb) unsigned long na = nondet_ulong(), nb = nondet_ulong(), m = nondet_ulong(); __CPROVER_assume(na <= BIG && nb <= BIG); \
    char *a = (char *)malloc(na), *b = (char *)malloc(nb); __CPROVER_assume(a != 0 && b != 0) /* dfcc links a malloc that may fail */
#define U_PREFIX(oa, la, ob, lb) __CPROVER_assume(m <= (la) && m <= (lb)); memcpy(b + (ob), a + (oa), m); \
    _Bool differ = m < (la) && m < (lb); if (differ) __CPROVER_assume(a[(oa) + m] != b[(ob) + m]); vf_m = m; vf_k = nondet_ulong()

/*@GROUP name=u_traits_compare props=C08,C02 kind=U mode=contract enforce=ct_compare_real loops=1 standin=compare when=VF_CT==0@*/
void h_u_traits_compare(void) { U_PAIR(na, nb); __CPROVER_assume(na == nb); U_PREFIX(0, na, 0, nb);
  ct_compare_real(a, b, na); VF_REACH(); }

/*@GROUP name=u_compare props=C08,C02,C05 kind=U mode=contract enforce=sv_compare_v_real loops=1 standin=compare when=VF_CT==0@*/
void h_u_compare(void) { U_PAIR(na, nb); U_PREFIX(0, na, 0, nb); SV_VIEW(h, a, na); SV_VIEW(v, b, nb);
  sv_compare_v_real(&h, v); VF_REACH(); }

/*@GROUP name=u_compare_sub props=C08,C02,C05 kind=U mode=contract enforce=sv_compare_pcvpc_real loops=1 standin=compare when=VF_CT==0@*/
void h_u_compare_sub(void) { U_PAIR(na, nb); unsigned long p1 = nondet_ulong(), c1 = nondet_ulong(), p2 = nondet_ulong(), c2 = nondet_ulong();
  __CPROVER_assume(p1 <= na && p2 <= nb); unsigned long la = r_min(c1, na - p1), lb = r_min(c2, nb - p2);
  U_PREFIX(p1, la, p2, lb); SV_VIEW(h, a, na); SV_VIEW(v, b, nb);
  sv_compare_pcvpc_real(&h, p1, c1, v, p2, c2); VF_REACH(); }

/*@GROUP name=u_compare_pcv props=C08,C02,C05 kind=U mode=contract enforce=sv_compare_pcv_real loops=1 standin=compare when=VF_CT==0@*/
void h_u_compare_pcv(void) { U_PAIR(na, nb); unsigned long p1 = nondet_ulong(), c1 = nondet_ulong(); __CPROVER_assume(p1 <= na);
  U_PREFIX(p1, r_min(c1, na - p1), 0, nb); SV_VIEW(h, a, na); SV_VIEW(v, b, nb);
  sv_compare_pcv_real(&h, p1, c1, v); VF_REACH(); }

/*@GROUP name=u_equal props=C08,C02,C05 kind=U mode=contract enforce=sv_eq_real loops=1 standin=relational when=VF_CT==0@*/
void h_u_equal(void) { U_PAIR(na, nb); U_PREFIX(0, na, 0, nb); SV_VIEW(h, a, na); SV_VIEW(v, b, nb); sv_eq_real(h, v); VF_REACH(); }

/*@GROUP name=u_starts_with props=C08,C02,C05 kind=U mode=contract enforce=sv_starts_with_v_real loops=1 standin=affix when=VF_CT==0@*/
void h_u_starts_with(void) { U_PAIR(na, nb); U_PREFIX(0, na, 0, nb); SV_VIEW(h, a, na); SV_VIEW(v, b, nb); sv_starts_with_v_real(&h, v); VF_REACH(); }

/*@GROUP name=u_ends_with props=C08,C02,C05 kind=U mode=contract enforce=sv_ends_with_v_real loops=1 standin=affix when=VF_CT==0@*/
void h_u_ends_with(void) { U_PAIR(na, nb); unsigned long oa = nb <= na ? na - nb : 0; U_PREFIX(oa, na - oa, 0, nb); SV_VIEW(h, a, na); SV_VIEW(v, b, nb);
  sv_ends_with_v_real(&h, v); VF_REACH(); }

/* <, <=, >, >= (one contract each) */
/*@GROUP name=u_less props=C08,C02 kind=U mode=contract enforce=sv_lt_real loops=1 standin=relational when=VF_CT==0@*/
void h_u_less(void) { U_PAIR(na, nb); U_PREFIX(0, na, 0, nb); SV_VIEW(h, a, na); SV_VIEW(v, b, nb);
  sv_lt_real(h, v); VF_REACH(); }

/*@GROUP name=u_less_equal props=C08,C02 kind=U mode=contract enforce=sv_le_real loops=1 standin=relational when=VF_CT==0@*/
void h_u_less_equal(void) { U_PAIR(na, nb); U_PREFIX(0, na, 0, nb); SV_VIEW(h, a, na); SV_VIEW(v, b, nb);
  sv_le_real(h, v); VF_REACH(); }

/*@GROUP name=u_greater props=C08,C02 kind=U mode=contract enforce=sv_gt_real loops=1 standin=relational when=VF_CT==0@*/
void h_u_greater(void) { U_PAIR(na, nb); U_PREFIX(0, na, 0, nb); SV_VIEW(h, a, na); SV_VIEW(v, b, nb);
  sv_gt_real(h, v); VF_REACH(); }

/*@GROUP name=u_greater_equal props=C08,C02 kind=U mode=contract enforce=sv_ge_real loops=1 standin=relational when=VF_CT==0@*/
void h_u_greater_equal(void) { U_PAIR(na, nb); U_PREFIX(0, na, 0, nb); SV_VIEW(h, a, na); SV_VIEW(v, b, nb);
  sv_ge_real(h, v); VF_REACH(); }

/* find(view,pos): needle of <= 2 characters (the empty one included), unbounded haystack, any pos */
/*@GROUP name=u_find props=C08,C02,C05 kind=U mode=contract enforce=sv_find_v_real loops=1 standin=find solver=kissat timeout=400 when=VF_CT==0@*/
void h_u_find(void) { SV *th; SV v; unsigned long pos; vf_k = nondet_ulong(); sv_find_v_real(th, v, pos); VF_REACH(); }

/* rfind(view,pos): needle of <= 1 character (the empty one included), unbounded haystack, any pos: find_end / search under loop contracts */
/*@GROUP name=u_rfind props=C08,C02 kind=U mode=contract enforce=sv_rfind_v_real loops=1 standin=rfind cost=3 when=VF_CT==0@*/
void h_u_rfind(void) { SV *th; SV v; unsigned long pos; vf_k = nondet_ulong(); sv_rfind_v_real(th, v, pos); VF_REACH(); }

/*@COMMON@*/
/* ---- two views into the SAME buffer (overlapping, nested, sharing their begin or their end): results depend on the characters only */
#define ALIAS_SETUP(MAXN) VF_INPUT(unsigned char, n); __CPROVER_assume(n <= (MAXN)); VF_BUF(CH, p, n, MAXN); \
  VF_INPUT(unsigned char, i); VF_INPUT(unsigned char, la); VF_INPUT(unsigned char, j); VF_INPUT(unsigned char, lb); VF_INPUT(unsigned long, pos); \
  __CPROVER_assume(i <= n && la <= n - i && j <= n && lb <= n - j); SV_VIEW(a, p + i, la); SV_VIEW(b, p + j, lb); const CH *ra = p_in + i, *rb = p_in + j
/*@GROUP name=alias_affix props=C08,C02,C05 kind=B unwind=7 unwindset=r_cmp.0:8,r_mismatch.0:8 bound=buffer<=4 cost=2 when=VF_CT==0@*/
void h_alias_affix(void) { ALIAS_SETUP(4); unsigned long m = r_mismatch(ra, la, rb, lb);
  VF_ASSERT(sv_starts_with_v(&a, &b) == (lb <= la && m >= lb), "starts_with(view into the same buffer)");
  { _Bool e = lb <= la; if (e) for (int k = 0; k < 4; ++k) if (k < lb && ra[la - lb + k] != rb[k]) e = 0; VF_ASSERT(sv_ends_with_v(&a, &b) == e, "ends_with(view into the same buffer): by characters, not by address"); }
  VF_ASSERT(SGN(sv_compare_v(&a, &b)) == r_cmp(ra, la, rb, lb), "compare(view into the same buffer)");
  VF_ASSERT(sv_eq(&a, &b) == (la == lb && m >= la), "operator==(views into the same buffer)");
  VF_ASSERT(sv_lt(&a, &b) == (r_cmp(ra, la, rb, lb) < 0), "operator<(views into the same buffer)");
  VF_REACH(); }
/* find/rfind/contains with overlapping views of one buffer ran out of memory in CBMC (symbolic offsets into one object inside the
 * nested search loops); the affix/compare forms above are the ones that compare ADDRESSES in plausible shortcuts. */
