/* sv: basic_string_view<CH> against std::basic_string_view ([string.view.find], [string.view.ops], [string.view.comparison],
 * [char.traits.specializations]) — C08; contract checks — C05; safety rides along — C02.
 * wf(view) = _begin points to an EXACT-SIZE object of _size characters, not terminated (a one-past read is an out-of-bounds
 * failure, natively a heap-buffer-overflow under ASan), including the empty view (a zero-size object).
 * Reference semantics r_* are the standard's "lowest/highest position xpos such that ..." definitions as plain loops over the
 * INPUT arrays (hay_in, nd_in); they never look at the implementation. */
#if VF_CT == 0
typedef char CH;
typedef struct etl_basic_string_view_char SV;
#define LT(a, b) ((unsigned char)(a) < (unsigned char)(b)) /* char_traits<char>::lt is < on unsigned char */
#elif VF_CT == 1
typedef __WCHAR_TYPE__ CH;
typedef struct etl_basic_string_view_wchar_t SV;
#define LT(a, b) ((a) < (b))
#else
typedef unsigned short CH;
typedef struct etl_basic_string_view_char16_t SV;
#define LT(a, b) ((a) < (b))
#endif
#define NPOS (~0UL)
/* bounded groups: haystack length <= HMAX, needle / character-set length <= NMAX.  The SAT effort grows ~5x per extra haystack
 * character (all characters, pos and both lengths are symbolic), so the quick tier stops one short of the thorough tier. */
#define HCAP 6
#define NCAP 3
#ifdef VF_TIER_THOROUGH
#define HMAX 6
#define HSML 6
#define NSML 3
#else
#define HMAX 5
#define HSML 4   /* rfind(view): three nested loops (find_end / search / compare) */
#define NSML 2
#endif
#define NMAX 3
#define BIG 65536UL /* loop-free and contract groups: view length <= BIG */

/* snapshot for C05: a violated precondition must be detected before the view is touched */
SV vf_snap; SV *vf_snap_of;
#define VF_HANDLER_CHECK() do { if (vf_snap_of) __CPROVER_assert(vf_snap_of->_begin == vf_snap._begin && vf_snap_of->_size == vf_snap._size, "C05: the view is unmodified when the assertion handler runs"); } while (0)
#define EXPECT_VIOLATION(v) do { vf_expect_handler = 1; vf_snap = (v); vf_snap_of = &(v); } while (0)
#include "vf_handler.h"

/* Bounded groups: the viewed range is a window [off, off+n) of a heap object of exactly MAX characters, where the placement is
 * symbolic: flush with the END of the object (a one-past read is out of bounds; the empty view then begins one past the end, so
 * ANY read through it is out of bounds) or flush with its BEGIN (a read before begin() is out of bounds).  What the implementation
 * reads relative to the view cannot depend on the placement, so this detects exactly what an exact-size object of n characters
 * detects, natively too (ASan on the malloc'ed object) - but CBMC sees one object of constant size instead of one per length,
 * which is ~5x cheaper.  The loop-free groups (BIG_VIEW) and the contract groups (is_fresh) use exact-size objects.
 * name_in is the input array the reference semantics read; no terminator is ever stored. */
#define SV_BUF(name, n, MAX)                                                                                           \
    VF_INPUT_ARR(CH, name##_in, HCAP + 1); VF_INPUT(unsigned char, n); __CPROVER_assume(n <= (MAX));                   \
    VF_INPUT_BOOL(name##_tail); CH *name##_obj = (CH *)malloc((MAX) * sizeof(CH));                                     \
    CH *name = name##_obj + (name##_tail ? (MAX) - n : 0);                                                             \
    for (unsigned long i_##name = 0; i_##name < (MAX); ++i_##name) if (i_##name < n) name[i_##name] = name##_in[i_##name]
/* the same characters as a C string flush with the end of its object: n characters and the terminator, nothing behind it */
#define SV_CSTR(name, src_in, n, MAX)                                                                                  \
    CH *name##_obj = (CH *)malloc(((MAX) + 1) * sizeof(CH)); CH *name = name##_obj + ((MAX) - n);                      \
    for (unsigned long j_##name = 0; j_##name < (MAX); ++j_##name) if (j_##name < n) name[j_##name] = src_in[j_##name]; \
    name[n] = 0
#define SV_VIEW(v, p, n) SV v; v._begin = p; v._size = n
/* view of unbounded length (<= BIG) with arbitrary contents, for loop-free functions */
#define BIG_VIEW(h, p, n) VF_INPUT(unsigned long, n); __CPROVER_assume(n <= BIG); CH *p = (CH *)malloc(n * sizeof(CH)); SV_VIEW(h, p, n)

/* ---- reference semantics ------------------------------------------------------------------------------------------------ */
static unsigned long r_min(unsigned long a, unsigned long b) { return a < b ? a : b; }
static unsigned long r_strlen(const CH *s, unsigned long cap) { for (unsigned long i = 0; i < NCAP; ++i) { if (i >= cap) break; if (s[i] == 0) return i; } return cap; }
/* h[x, x+nn) == n[0, nn); the caller guarantees x + nn <= hn */
static _Bool r_match(const CH *h, unsigned long x, const CH *n, unsigned long nn) { for (unsigned long i = 0; i < NCAP; ++i) if (i < nn && h[x + i] != n[i]) return 0; return 1; }
static _Bool r_in(CH c, const CH *n, unsigned long nn) { for (unsigned long i = 0; i < NCAP; ++i) if (i < nn && n[i] == c) return 1; return 0; }
/* find: lowest xpos with pos <= xpos, xpos + nn <= hn, traits::eq(at(xpos+I), str.at(I)) for all I */
static unsigned long r_find(const CH *h, unsigned long hn, const CH *n, unsigned long nn, unsigned long pos) {
  for (unsigned long x = 0; x <= HCAP; ++x) { if (x < pos || x > hn || nn > hn - x) continue; if (r_match(h, x, n, nn)) return x; } return NPOS; }
/* rfind: highest xpos with xpos <= pos, xpos + nn <= hn, ... */
static unsigned long r_rfind(const CH *h, unsigned long hn, const CH *n, unsigned long nn, unsigned long pos) {
  for (unsigned long j = 0; j <= HCAP; ++j) { unsigned long x = HCAP - j; if (x > pos || x > hn || nn > hn - x) continue; if (r_match(h, x, n, nn)) return x; } return NPOS; }
/* find_first_of / find_first_not_of: lowest xpos with pos <= xpos < hn and at(xpos) (not) in str */
static unsigned long r_ffo(const CH *h, unsigned long hn, const CH *n, unsigned long nn, unsigned long pos) {
  for (unsigned long x = 0; x < HCAP; ++x) { if (x < pos || x >= hn) continue; if (r_in(h[x], n, nn)) return x; } return NPOS; }
static unsigned long r_ffno(const CH *h, unsigned long hn, const CH *n, unsigned long nn, unsigned long pos) {
  for (unsigned long x = 0; x < HCAP; ++x) { if (x < pos || x >= hn) continue; if (!r_in(h[x], n, nn)) return x; } return NPOS; }
/* find_last_of / find_last_not_of: highest xpos with xpos <= pos, xpos < hn and at(xpos) (not) in str */
static unsigned long r_flo(const CH *h, unsigned long hn, const CH *n, unsigned long nn, unsigned long pos) {
  for (unsigned long j = 1; j <= HCAP; ++j) { unsigned long x = HCAP - j; if (x > pos || x >= hn) continue; if (r_in(h[x], n, nn)) return x; } return NPOS; }
static unsigned long r_flno(const CH *h, unsigned long hn, const CH *n, unsigned long nn, unsigned long pos) {
  for (unsigned long j = 1; j <= HCAP; ++j) { unsigned long x = HCAP - j; if (x > pos || x >= hn) continue; if (!r_in(h[x], n, nn)) return x; } return NPOS; }
/* compare: traits::compare over rlen = min(an, bn) (the first position where lt holds either way decides), then the lengths */
static int r_cmp(const CH *a, unsigned long an, const CH *b, unsigned long bn) {
  for (unsigned long i = 0; i < HCAP; ++i) { if (i >= an || i >= bn) break; if (LT(a[i], b[i])) return -1; if (LT(b[i], a[i])) return 1; }
  return an < bn ? -1 : (an > bn ? 1 : 0); }
#define SGN(x) ((x) < 0 ? -1 : ((x) > 0 ? 1 : 0))
/* first position where the two sequences differ, or min(an, bn) */
static unsigned long r_mismatch(const CH *a, unsigned long an, const CH *b, unsigned long bn) {
  for (unsigned long i = 0; i < HCAP; ++i) { if (i >= an || i >= bn) return i; if (a[i] != b[i]) return i; } return r_min(an, bn); }

/* ---- witness classes of the known findings (predicates over harness inputs only) ---------------------------------------------- */
/* find(view,pos): the inner compare runs past the end when the haystack ENDS with a proper non-empty prefix of the needle at some
 * x >= pos and no full match precedes it (then there is none at all) */
static _Bool w_find_tail(const CH *h, unsigned long hn, const CH *n, unsigned long nn, unsigned long pos) {
  if (nn < 2 || pos > hn || nn > hn - pos || r_find(h, hn, n, nn, pos) != NPOS) return 0;
  for (unsigned long x = 0; x < HCAP; ++x) { if (x < pos || x >= hn || hn - x >= nn) continue; if (r_match(h, x, n, hn - x)) return 1; } return 0; }
/* compare / relational on char: the sign is decided at the first mismatch by SIGNED char order although traits::lt is unsigned */
static _Bool w_cmp_signed(const CH *a, unsigned long an, const CH *b, unsigned long bn) {
  unsigned long m = r_mismatch(a, an, b, bn); return VF_CT == 0 && m < an && m < bn && (a[m] < 0) != (b[m] < 0); }

/* ---- shared shape of the six search families ---------------------------------------------------------------------------- */
/* (en, enn, ep) = needle and position by which the standard defines the overload that is called */
#define HAYSTACK(HM, DEFPOS)                                                                                           \
    SV_BUF(hay, hn, HM); SV_VIEW(h, hay, hn); VF_INPUT(unsigned long, pos); VF_INPUT_BOOL(dflt);                     \
    unsigned long ep = dflt ? (DEFPOS) : pos
/* overloads (view,pos) and (view) */
#define NEEDLE_V(NM) SV_BUF(nd, nn, NM); SV_VIEW(n, nd, nn); const CH *en = nd_in; unsigned long enn = nn
#define CALL_V(F) (dflt ? sv_##F##_vd(&h, &n) : sv_##F##_v(&h, &n, pos))
/* overloads (ptr,pos,count), (C string,pos), (C string) */
#define NEEDLE_P(NM) SV_BUF(nd, nn, NM); SV_CSTR(cs, nd_in, nn, NM); VF_INPUT_BOOL(counted); __CPROVER_assume(!(counted && dflt));   \
    const CH *en = nd_in; unsigned long enn = counted ? nn : r_strlen(nd_in, nn)
#define CALL_P(F) (counted ? sv_##F##_pn(&h, nd, pos, nn) : (dflt ? sv_##F##_pd(&h, cs) : sv_##F##_p(&h, cs, pos)))
/* overloads (char,pos), (char) */
#define NEEDLE_C() VF_INPUT_ARR(CH, nd_in, NCAP + 1); CH c = nd_in[0]; const CH *en = nd_in; unsigned long enn = 1
#define CALL_C(F) (dflt ? sv_##F##_cd(&h, c) : sv_##F##_c(&h, c, pos))
#define SEARCH_CHECK(r, REF, WHAT)                                                                                     \
    VF_ASSERT(r == REF(hay_in, hn, en, enn, ep), WHAT);                                                                \
    VF_ASSERT(h._begin == hay && h._size == hn, "the view itself is unchanged by a search");                           \
    VF_REACH()
#define T_FIND "find: lowest xpos >= pos with xpos + n.size() <= size() and the needle at xpos, else npos"
#define T_RFIND "rfind: highest xpos <= pos with xpos + n.size() <= size() and the needle at xpos, else npos"
#define T_FFO "find_first_of: lowest xpos >= pos, xpos < size() with at(xpos) in the set, else npos"
#define T_FLO "find_last_of: highest xpos <= pos, xpos < size() with at(xpos) in the set, else npos"
#define T_FFNO "find_first_not_of: lowest xpos >= pos, xpos < size() with at(xpos) not in the set, else npos"
#define T_FLNO "find_last_not_of: highest xpos <= pos, xpos < size() with at(xpos) not in the set, else npos"

/*@GROUP name=find props=C08,C02,C05 kind=B solver=kissat unwind=8 bound=haystack<=5(quick)/6(thorough),needle<=3 cost=3@*/
void h_find(void) { HAYSTACK(HMAX, 0UL); NEEDLE_V(NMAX);
  VF_KNOWN(C08_find_empty_needle, enn == 0 && ep <= hn);
  VF_KNOWN(C08_find_tail_overread, w_find_tail(hay_in, hn, en, enn, ep));
  unsigned long r = CALL_V(find); SEARCH_CHECK(r, r_find, T_FIND); }

/*@GROUP name=find_ptr props=C08,C02,C05 kind=B solver=kissat unwind=8 bound=haystack<=5(quick)/6(thorough),needle<=3 cost=3@*/
void h_find_ptr(void) { HAYSTACK(HMAX, 0UL); NEEDLE_P(NMAX);
  VF_KNOWN(C08_find_empty_needle, enn == 0 && ep <= hn);
  VF_KNOWN(C08_find_tail_overread, w_find_tail(hay_in, hn, en, enn, ep));
  unsigned long r = CALL_P(find); SEARCH_CHECK(r, r_find, T_FIND); }

/*@GROUP name=find_ch props=C08,C02,C05 kind=B solver=kissat unwind=8 bound=haystack<=5(quick)/6(thorough)@*/
void h_find_ch(void) { HAYSTACK(HMAX, 0UL); NEEDLE_C(); unsigned long r = CALL_C(find); SEARCH_CHECK(r, r_find, T_FIND); }

/*@GROUP name=rfind props=C08,C02,C05 kind=B solver=kissat unwind=8 bound=haystack<=4(quick)/6(thorough),needle<=2(quick)/3(thorough) cost=3@*/
void h_rfind(void) { HAYSTACK(HSML, NPOS); NEEDLE_V(NSML); unsigned long r = CALL_V(rfind); SEARCH_CHECK(r, r_rfind, T_RFIND); }

/*@GROUP name=rfind_ptr props=C08,C02,C05 kind=B solver=kissat unwind=8 bound=haystack<=4(quick)/6(thorough),needle<=2(quick)/3(thorough) cost=3@*/
void h_rfind_ptr(void) { HAYSTACK(HSML, NPOS); NEEDLE_P(NSML); unsigned long r = CALL_P(rfind); SEARCH_CHECK(r, r_rfind, T_RFIND); }

/*@GROUP name=rfind_ch props=C08,C02,C05 kind=B solver=kissat unwind=8 bound=haystack<=5(quick)/6(thorough)@*/
void h_rfind_ch(void) { HAYSTACK(HMAX, NPOS); NEEDLE_C(); unsigned long r = CALL_C(rfind); SEARCH_CHECK(r, r_rfind, T_RFIND); }

/*@GROUP name=first_of props=C08,C02,C05 kind=B solver=kissat unwind=8 bound=haystack<=5(quick)/6(thorough),set<=3 cost=2@*/
void h_first_of(void) { HAYSTACK(HMAX, 0UL); NEEDLE_V(NMAX); unsigned long r = CALL_V(find_first_of); SEARCH_CHECK(r, r_ffo, T_FFO); }

/*@GROUP name=first_of_ptr props=C08,C02,C05 kind=B solver=kissat unwind=8 bound=haystack<=5(quick)/6(thorough),set<=3 cost=2@*/
void h_first_of_ptr(void) { HAYSTACK(HMAX, 0UL); NEEDLE_P(NMAX); unsigned long r = CALL_P(find_first_of); SEARCH_CHECK(r, r_ffo, T_FFO); }

/*@GROUP name=first_of_ch props=C08,C02,C05 kind=B solver=kissat unwind=8 bound=haystack<=5(quick)/6(thorough)@*/
void h_first_of_ch(void) { HAYSTACK(HMAX, 0UL); NEEDLE_C(); unsigned long r = CALL_C(find_first_of); SEARCH_CHECK(r, r_ffo, T_FFO); }

/*@GROUP name=last_of props=C08,C02,C05 kind=B solver=kissat unwind=8 bound=haystack<=5(quick)/6(thorough),set<=3 cost=2@*/
void h_last_of(void) { HAYSTACK(HMAX, NPOS); NEEDLE_V(NMAX);
  VF_KNOWN(C08_find_last_empty_view, hn == 0);
  unsigned long r = CALL_V(find_last_of); SEARCH_CHECK(r, r_flo, T_FLO); }

/*@GROUP name=last_of_ptr props=C08,C02,C05 kind=B solver=kissat unwind=8 bound=haystack<=5(quick)/6(thorough),set<=3 cost=2@*/
void h_last_of_ptr(void) { HAYSTACK(HMAX, NPOS); NEEDLE_P(NMAX);
  VF_KNOWN(C08_find_last_empty_view, hn == 0);
  unsigned long r = CALL_P(find_last_of); SEARCH_CHECK(r, r_flo, T_FLO); }

/*@GROUP name=last_of_ch props=C08,C02,C05 kind=B solver=kissat unwind=8 bound=haystack<=5(quick)/6(thorough)@*/
void h_last_of_ch(void) { HAYSTACK(HMAX, NPOS); NEEDLE_C();
  VF_KNOWN(C08_find_last_empty_view, hn == 0);
  unsigned long r = CALL_C(find_last_of); SEARCH_CHECK(r, r_flo, T_FLO); }

/*@GROUP name=first_not_of props=C08,C02,C05 kind=B solver=kissat unwind=8 bound=haystack<=5(quick)/6(thorough),set<=3 cost=2@*/
void h_first_not_of(void) { HAYSTACK(HMAX, 0UL); NEEDLE_V(NMAX); unsigned long r = CALL_V(find_first_not_of); SEARCH_CHECK(r, r_ffno, T_FFNO); }

/*@GROUP name=first_not_of_ptr props=C08,C02,C05 kind=B solver=kissat unwind=8 bound=haystack<=5(quick)/6(thorough),set<=3 cost=2@*/
void h_first_not_of_ptr(void) { HAYSTACK(HMAX, 0UL); NEEDLE_P(NMAX); unsigned long r = CALL_P(find_first_not_of); SEARCH_CHECK(r, r_ffno, T_FFNO); }

/*@GROUP name=first_not_of_ch props=C08,C02,C05 kind=B solver=kissat unwind=8 bound=haystack<=5(quick)/6(thorough)@*/
void h_first_not_of_ch(void) { HAYSTACK(HMAX, 0UL); NEEDLE_C(); unsigned long r = CALL_C(find_first_not_of); SEARCH_CHECK(r, r_ffno, T_FFNO); }

/*@GROUP name=last_not_of props=C08,C02,C05 kind=B solver=kissat unwind=8 bound=haystack<=5(quick)/6(thorough),set<=3 cost=2@*/
void h_last_not_of(void) { HAYSTACK(HMAX, NPOS); NEEDLE_V(NMAX);
  VF_KNOWN(C08_find_last_empty_view, hn == 0);
  unsigned long r = CALL_V(find_last_not_of); SEARCH_CHECK(r, r_flno, T_FLNO); }

/*@GROUP name=last_not_of_ptr props=C08,C02,C05 kind=B solver=kissat unwind=8 bound=haystack<=5(quick)/6(thorough),set<=3 cost=2@*/
void h_last_not_of_ptr(void) { HAYSTACK(HMAX, NPOS); NEEDLE_P(NMAX);
  VF_KNOWN(C08_find_last_empty_view, hn == 0);
  unsigned long r = CALL_P(find_last_not_of); SEARCH_CHECK(r, r_flno, T_FLNO); }

/*@GROUP name=last_not_of_ch props=C08,C02,C05 kind=B solver=kissat unwind=8 bound=haystack<=5(quick)/6(thorough)@*/
void h_last_not_of_ch(void) { HAYSTACK(HMAX, NPOS); NEEDLE_C();
  VF_KNOWN(C08_find_last_empty_view, hn == 0);
  unsigned long r = CALL_C(find_last_not_of); SEARCH_CHECK(r, r_flno, T_FLNO); }
