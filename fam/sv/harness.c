/* sv: basic_string_view<CH> against std::basic_string_view ([string.view.find], [string.view.ops], [string.view.comparison],
 * [char.traits.specializations]) — C08; contract checks — C05; safety rides along — C02.
 * wf(view) = _begin points to an EXACT-SIZE object of _size characters, not terminated (a one-past read is an out-of-bounds
 * failure, natively a heap-buffer-overflow under ASan), including the empty view (a zero-size object).
 * Reference semantics r_* are the standard's "lowest/highest position xpos such that ..." definitions as plain loops over the
 * INPUT arrays (hay_in, nd_in); they never look at the implementation. */
#if VF_CT == 0
typedef char CH;
typedef struct etl_basic_string_view_char SV;
#define LT(a, b) ((unsigned char)(a) < (unsigned char)(b)) /* char_traits<char>::lt is < on unsigned char */
#elif VF_CT == 1
typedef __WCHAR_TYPE__ CH;
typedef struct etl_basic_string_view_wchar_t SV;
#define LT(a, b) ((a) < (b))
#else
typedef unsigned short CH;
typedef struct etl_basic_string_view_char16_t SV;
#define LT(a, b) ((a) < (b))
#endif
#define NPOS (~0UL)
#define HMAX 6   /* bounded groups: haystack length <= HMAX */
#define NMAX 3   /* bounded groups: needle / character-set length <= NMAX */
#define BIG 65536UL /* loop-free and contract groups: view length <= BIG */

/* snapshot for C05: a violated precondition must be detected before the view is touched */
SV vf_snap; SV *vf_snap_of;
#define VF_HANDLER_CHECK() do { if (vf_snap_of) __CPROVER_assert(vf_snap_of->_begin == vf_snap._begin && vf_snap_of->_size == vf_snap._size, "C05: the view is unmodified when the assertion handler runs"); } while (0)
#define EXPECT_VIOLATION(v) do { vf_expect_handler = 1; vf_snap = (v); vf_snap_of = &(v); } while (0)
#include "vf_handler.h"

/* exact-size heap buffers. sv_alloc(n) is malloc(n * sizeof(CH)) written as a case split so that under CBMC every buffer is an
 * object of CONSTANT size (symbolic-size objects cost ~5x in the SAT encoding); natively it is the very same malloc, including
 * malloc(0) for the empty view so that ASan reports h[0] on an empty view. */
static CH *sv_alloc(unsigned long n) { switch (n) {
  case 0: return (CH *)malloc(0); case 1: return (CH *)malloc(1 * sizeof(CH)); case 2: return (CH *)malloc(2 * sizeof(CH)); case 3: return (CH *)malloc(3 * sizeof(CH));
  case 4: return (CH *)malloc(4 * sizeof(CH)); case 5: return (CH *)malloc(5 * sizeof(CH)); case 6: return (CH *)malloc(6 * sizeof(CH)); default: return (CH *)malloc(n * sizeof(CH)); } }
/* buffer `name` of n characters (n symbolic <= MAX), copied from the input array name_in; no terminator, nothing behind it */
#define SV_BUF(name, n, MAX)                                                                                           \
    VF_INPUT_ARR(CH, name##_in, (MAX) + 1); VF_INPUT(unsigned char, n); __CPROVER_assume(n <= (MAX));                  \
    CH *name = sv_alloc(n);                                                                                            \
    for (unsigned long i_##name = 0; i_##name < n; ++i_##name) name[i_##name] = name##_in[i_##name]
/* the same characters as an exact-size C string: n characters and the terminator, nothing behind it */
#define SV_CSTR(name, src_in, n)                                                                                       \
    CH *name = sv_alloc((unsigned long)n + 1);                                                                         \
    for (unsigned long j_##name = 0; j_##name < n; ++j_##name) name[j_##name] = src_in[j_##name];                      \
    name[n] = 0
#define SV_VIEW(v, p, n) SV v; v._begin = p; v._size = n
/* view of unbounded length (<= BIG) with arbitrary contents, for loop-free functions */
#define BIG_VIEW(h, p, n) VF_INPUT(unsigned long, n); __CPROVER_assume(n <= BIG); CH *p = (CH *)malloc(n * sizeof(CH)); SV_VIEW(h, p, n)

/* ---- reference semantics ------------------------------------------------------------------------------------------------ */
static unsigned long r_min(unsigned long a, unsigned long b) { return a < b ? a : b; }
static unsigned long r_strlen(const CH *s, unsigned long cap) { for (unsigned long i = 0; i < NMAX; ++i) { if (i >= cap) break; if (s[i] == 0) return i; } return cap; }
/* h[x, x+nn) == n[0, nn); the caller guarantees x + nn <= hn */
static _Bool r_match(const CH *h, unsigned long x, const CH *n, unsigned long nn) { for (unsigned long i = 0; i < NMAX; ++i) if (i < nn && h[x + i] != n[i]) return 0; return 1; }
static _Bool r_in(CH c, const CH *n, unsigned long nn) { for (unsigned long i = 0; i < NMAX; ++i) if (i < nn && n[i] == c) return 1; return 0; }
/* find: lowest xpos with pos <= xpos, xpos + nn <= hn, traits::eq(at(xpos+I), str.at(I)) for all I */
static unsigned long r_find(const CH *h, unsigned long hn, const CH *n, unsigned long nn, unsigned long pos) {
  for (unsigned long x = 0; x <= HMAX; ++x) { if (x < pos || x > hn || nn > hn - x) continue; if (r_match(h, x, n, nn)) return x; } return NPOS; }
/* rfind: highest xpos with xpos <= pos, xpos + nn <= hn, ... */
static unsigned long r_rfind(const CH *h, unsigned long hn, const CH *n, unsigned long nn, unsigned long pos) {
  for (unsigned long j = 0; j <= HMAX; ++j) { unsigned long x = HMAX - j; if (x > pos || x > hn || nn > hn - x) continue; if (r_match(h, x, n, nn)) return x; } return NPOS; }
/* find_first_of / find_first_not_of: lowest xpos with pos <= xpos < hn and at(xpos) (not) in str */
static unsigned long r_ffo(const CH *h, unsigned long hn, const CH *n, unsigned long nn, unsigned long pos) {
  for (unsigned long x = 0; x < HMAX; ++x) { if (x < pos || x >= hn) continue; if (r_in(h[x], n, nn)) return x; } return NPOS; }
static unsigned long r_ffno(const CH *h, unsigned long hn, const CH *n, unsigned long nn, unsigned long pos) {
  for (unsigned long x = 0; x < HMAX; ++x) { if (x < pos || x >= hn) continue; if (!r_in(h[x], n, nn)) return x; } return NPOS; }
/* find_last_of / find_last_not_of: highest xpos with xpos <= pos, xpos < hn and at(xpos) (not) in str */
static unsigned long r_flo(const CH *h, unsigned long hn, const CH *n, unsigned long nn, unsigned long pos) {
  for (unsigned long j = 1; j <= HMAX; ++j) { unsigned long x = HMAX - j; if (x > pos || x >= hn) continue; if (r_in(h[x], n, nn)) return x; } return NPOS; }
static unsigned long r_flno(const CH *h, unsigned long hn, const CH *n, unsigned long nn, unsigned long pos) {
  for (unsigned long j = 1; j <= HMAX; ++j) { unsigned long x = HMAX - j; if (x > pos || x >= hn) continue; if (!r_in(h[x], n, nn)) return x; } return NPOS; }
/* compare: traits::compare over rlen = min(an, bn) (the first position where lt holds either way decides), then the lengths */
static int r_cmp(const CH *a, unsigned long an, const CH *b, unsigned long bn) {
  for (unsigned long i = 0; i < HMAX; ++i) { if (i >= an || i >= bn) break; if (LT(a[i], b[i])) return -1; if (LT(b[i], a[i])) return 1; }
  return an < bn ? -1 : (an > bn ? 1 : 0); }
#define SGN(x) ((x) < 0 ? -1 : ((x) > 0 ? 1 : 0))
/* first position where the two sequences differ, or min(an, bn) */
static unsigned long r_mismatch(const CH *a, unsigned long an, const CH *b, unsigned long bn) {
  for (unsigned long i = 0; i < HMAX; ++i) { if (i >= an || i >= bn) return i; if (a[i] != b[i]) return i; } return r_min(an, bn); }

/* ---- witness classes of the known findings (predicates over harness inputs only) ---------------------------------------------- */
/* find(view,pos): the inner compare runs past the end when the haystack ENDS with a proper non-empty prefix of the needle at some
 * x >= pos and no full match precedes it (then there is none at all) */
static _Bool w_find_tail(const CH *h, unsigned long hn, const CH *n, unsigned long nn, unsigned long pos) {
  if (nn < 2 || pos > hn || nn > hn - pos || r_find(h, hn, n, nn, pos) != NPOS) return 0;
  for (unsigned long x = 0; x < HMAX; ++x) { if (x < pos || x >= hn || hn - x >= nn) continue; if (r_match(h, x, n, hn - x)) return 1; } return 0; }
/* compare / relational on char: the sign is decided at the first mismatch by SIGNED char order although traits::lt is unsigned */
static _Bool w_cmp_signed(const CH *a, unsigned long an, const CH *b, unsigned long bn) {
  unsigned long m = r_mismatch(a, an, b, bn); return VF_CT == 0 && m < an && m < bn && (a[m] < 0) != (b[m] < 0); }

/* ---- shared shape of the six search families ---------------------------------------------------------------------------- */
/* (en, enn, ep) = needle and position by which the standard defines the overload that is called */
#define HAYSTACK(DEFPOS)                                                                                               \
    SV_BUF(hay, hn, HMAX); SV_VIEW(h, hay, hn); VF_INPUT(unsigned long, pos); VF_INPUT_BOOL(dflt);                     \
    unsigned long ep = dflt ? (DEFPOS) : pos
/* overloads (view,pos) and (view) */
#define NEEDLE_V() SV_BUF(nd, nn, NMAX); SV_VIEW(n, nd, nn); const CH *en = nd_in; unsigned long enn = nn
#define CALL_V(F) (dflt ? sv_##F##_vd(&h, &n) : sv_##F##_v(&h, &n, pos))
/* overloads (ptr,pos,count), (C string,pos), (C string) */
#define NEEDLE_P() SV_BUF(nd, nn, NMAX); SV_CSTR(cs, nd_in, nn); VF_INPUT_BOOL(counted); __CPROVER_assume(!(counted && dflt));   \
    const CH *en = nd_in; unsigned long enn = counted ? nn : r_strlen(nd_in, nn)
#define CALL_P(F) (counted ? sv_##F##_pn(&h, nd, pos, nn) : (dflt ? sv_##F##_pd(&h, cs) : sv_##F##_p(&h, cs, pos)))
/* overloads (char,pos), (char) */
#define NEEDLE_C() VF_INPUT_ARR(CH, nd_in, 1); CH c = nd_in[0]; const CH *en = nd_in; unsigned long enn = 1
#define CALL_C(F) (dflt ? sv_##F##_cd(&h, c) : sv_##F##_c(&h, c, pos))
#define SEARCH_CHECK(r, REF, WHAT)                                                                                     \
    VF_ASSERT(r == REF(hay_in, hn, en, enn, ep), WHAT);                                                                \
    VF_ASSERT(h._begin == hay && h._size == hn, "the view itself is unchanged by a search");                           \
    VF_REACH()
#define T_FIND "find: lowest xpos >= pos with xpos + n.size() <= size() and the needle at xpos, else npos"
#define T_RFIND "rfind: highest xpos <= pos with xpos + n.size() <= size() and the needle at xpos, else npos"
#define T_FFO "find_first_of: lowest xpos >= pos, xpos < size() with at(xpos) in the set, else npos"
#define T_FLO "find_last_of: highest xpos <= pos, xpos < size() with at(xpos) in the set, else npos"
#define T_FFNO "find_first_not_of: lowest xpos >= pos, xpos < size() with at(xpos) not in the set, else npos"
#define T_FLNO "find_last_not_of: highest xpos <= pos, xpos < size() with at(xpos) not in the set, else npos"

/*@GROUP name=find props=C08,C02,C05 kind=B unwind=8 bound=haystack<=6,needle<=3 cost=3@*/
void h_find(void) { HAYSTACK(0UL); NEEDLE_V();
  VF_KNOWN(C08_find_empty_needle, enn == 0 && ep <= hn);
  VF_KNOWN(C08_find_tail_overread, w_find_tail(hay_in, hn, en, enn, ep));
  unsigned long r = CALL_V(find); SEARCH_CHECK(r, r_find, T_FIND); }

/*@GROUP name=find_ptr props=C08,C02,C05 kind=B unwind=8 bound=haystack<=6,needle<=3 cost=3@*/
void h_find_ptr(void) { HAYSTACK(0UL); NEEDLE_P();
  VF_KNOWN(C08_find_empty_needle, enn == 0 && ep <= hn);
  VF_KNOWN(C08_find_tail_overread, w_find_tail(hay_in, hn, en, enn, ep));
  unsigned long r = CALL_P(find); SEARCH_CHECK(r, r_find, T_FIND); }

/*@GROUP name=find_ch props=C08,C02,C05 kind=B unwind=8 bound=haystack<=6@*/
void h_find_ch(void) { HAYSTACK(0UL); NEEDLE_C(); unsigned long r = CALL_C(find); SEARCH_CHECK(r, r_find, T_FIND); }

/*@GROUP name=rfind props=C08,C02,C05 kind=B unwind=8 bound=haystack<=6,needle<=3 cost=3@*/
void h_rfind(void) { HAYSTACK(NPOS); NEEDLE_V(); unsigned long r = CALL_V(rfind); SEARCH_CHECK(r, r_rfind, T_RFIND); }

/*@GROUP name=rfind_ptr props=C08,C02,C05 kind=B unwind=8 bound=haystack<=6,needle<=3 cost=3@*/
void h_rfind_ptr(void) { HAYSTACK(NPOS); NEEDLE_P(); unsigned long r = CALL_P(rfind); SEARCH_CHECK(r, r_rfind, T_RFIND); }

/*@GROUP name=rfind_ch props=C08,C02,C05 kind=B unwind=8 bound=haystack<=6@*/
void h_rfind_ch(void) { HAYSTACK(NPOS); NEEDLE_C(); unsigned long r = CALL_C(rfind); SEARCH_CHECK(r, r_rfind, T_RFIND); }

/*@GROUP name=first_of props=C08,C02,C05 kind=B unwind=8 bound=haystack<=6,set<=3 cost=2@*/
void h_first_of(void) { HAYSTACK(0UL); NEEDLE_V(); unsigned long r = CALL_V(find_first_of); SEARCH_CHECK(r, r_ffo, T_FFO); }

/*@GROUP name=first_of_ptr props=C08,C02,C05 kind=B unwind=8 bound=haystack<=6,set<=3 cost=2@*/
void h_first_of_ptr(void) { HAYSTACK(0UL); NEEDLE_P(); unsigned long r = CALL_P(find_first_of); SEARCH_CHECK(r, r_ffo, T_FFO); }

/*@GROUP name=first_of_ch props=C08,C02,C05 kind=B unwind=8 bound=haystack<=6@*/
void h_first_of_ch(void) { HAYSTACK(0UL); NEEDLE_C(); unsigned long r = CALL_C(find_first_of); SEARCH_CHECK(r, r_ffo, T_FFO); }

/*@GROUP name=last_of props=C08,C02,C05 kind=B unwind=8 bound=haystack<=6,set<=3 cost=2@*/
void h_last_of(void) { HAYSTACK(NPOS); NEEDLE_V();
  VF_KNOWN(C08_find_last_empty_view, hn == 0);
  unsigned long r = CALL_V(find_last_of); SEARCH_CHECK(r, r_flo, T_FLO); }

/*@GROUP name=last_of_ptr props=C08,C02,C05 kind=B unwind=8 bound=haystack<=6,set<=3 cost=2@*/
void h_last_of_ptr(void) { HAYSTACK(NPOS); NEEDLE_P();
  VF_KNOWN(C08_find_last_empty_view, hn == 0);
  unsigned long r = CALL_P(find_last_of); SEARCH_CHECK(r, r_flo, T_FLO); }

/*@GROUP name=last_of_ch props=C08,C02,C05 kind=B unwind=8 bound=haystack<=6@*/
void h_last_of_ch(void) { HAYSTACK(NPOS); NEEDLE_C();
  VF_KNOWN(C08_find_last_empty_view, hn == 0);
  unsigned long r = CALL_C(find_last_of); SEARCH_CHECK(r, r_flo, T_FLO); }

/*@GROUP name=first_not_of props=C08,C02,C05 kind=B unwind=8 bound=haystack<=6,set<=3 cost=2@*/
void h_first_not_of(void) { HAYSTACK(0UL); NEEDLE_V(); unsigned long r = CALL_V(find_first_not_of); SEARCH_CHECK(r, r_ffno, T_FFNO); }

/*@GROUP name=first_not_of_ptr props=C08,C02,C05 kind=B unwind=8 bound=haystack<=6,set<=3 cost=2@*/
void h_first_not_of_ptr(void) { HAYSTACK(0UL); NEEDLE_P(); unsigned long r = CALL_P(find_first_not_of); SEARCH_CHECK(r, r_ffno, T_FFNO); }

/*@GROUP name=first_not_of_ch props=C08,C02,C05 kind=B unwind=8 bound=haystack<=6@*/
void h_first_not_of_ch(void) { HAYSTACK(0UL); NEEDLE_C(); unsigned long r = CALL_C(find_first_not_of); SEARCH_CHECK(r, r_ffno, T_FFNO); }

/*@GROUP name=last_not_of props=C08,C02,C05 kind=B unwind=8 bound=haystack<=6,set<=3 cost=2@*/
void h_last_not_of(void) { HAYSTACK(NPOS); NEEDLE_V();
  VF_KNOWN(C08_find_last_empty_view, hn == 0);
  unsigned long r = CALL_V(find_last_not_of); SEARCH_CHECK(r, r_flno, T_FLNO); }

/*@GROUP name=last_not_of_ptr props=C08,C02,C05 kind=B unwind=8 bound=haystack<=6,set<=3 cost=2@*/
void h_last_not_of_ptr(void) { HAYSTACK(NPOS); NEEDLE_P();
  VF_KNOWN(C08_find_last_empty_view, hn == 0);
  unsigned long r = CALL_P(find_last_not_of); SEARCH_CHECK(r, r_flno, T_FLNO); }

/*@GROUP name=last_not_of_ch props=C08,C02,C05 kind=B unwind=8 bound=haystack<=6@*/
void h_last_not_of_ch(void) { HAYSTACK(NPOS); NEEDLE_C();
  VF_KNOWN(C08_find_last_empty_view, hn == 0);
  unsigned long r = CALL_C(find_last_not_of); SEARCH_CHECK(r, r_flno, T_FLNO); }
