/* sv: basic_string_view<CH> against std::basic_string_view ([string.view.find], [string.view.ops], [string.view.comparison],
 * [char.traits.specializations]) — C08; contract checks — C05; safety rides along — C02.
 * wf(view) = _begin points to an EXACT-SIZE object of _size characters, not terminated (a one-past read is an out-of-bounds
 * failure, natively a heap-buffer-overflow under ASan), including the empty view (a zero-size object).
 * Reference semantics r_* are the standard's "lowest/highest position xpos such that ..." definitions as plain loops over the
 * INPUT arrays (hay_in, nd_in); they never look at the implementation. */
#if VF_CT == 0
typedef char CH;
typedef struct etl_basic_string_view_char SV;
#define LT(a, b) ((unsigned char)(a) < (unsigned char)(b)) /* char_traits<char>::lt is < on unsigned char */
#elif VF_CT == 1
typedef __WCHAR_TYPE__ CH;
typedef struct etl_basic_string_view_wchar_t SV;
#define LT(a, b) ((a) < (b))
#else
typedef unsigned short CH;
typedef struct etl_basic_string_view_char16_t SV;
#define LT(a, b) ((a) < (b))
#endif
#define NPOS (~0UL)
#define HMAX 6   /* bounded groups: haystack length <= HMAX */
#define NMAX 3   /* bounded groups: needle / character-set length <= NMAX */
#define BIG 65536UL /* loop-free and contract groups: view length <= BIG */

/* snapshot for C05: a violated precondition must be detected before the view is touched */
SV vf_snap; SV *vf_snap_of;
#define VF_HANDLER_CHECK() do { if (vf_snap_of) __CPROVER_assert(vf_snap_of->_begin == vf_snap._begin && vf_snap_of->_size == vf_snap._size, "C05: the view is unmodified when the assertion handler runs"); } while (0)
#define EXPECT_VIOLATION(v) do { vf_expect_handler = 1; vf_snap = (v); vf_snap_of = &(v); } while (0)
#include "vf_handler.h"

/* exact-size heap buffer `name` of n characters (n symbolic <= MAX) copied from the input array name_in. Unlike VF_BUF the
 * native build really allocates n bytes (malloc(0) for the empty view), so that ASan reports h[0] on an empty view. */
#define SV_BUF(name, n, MAX)                                                                                           \
    VF_INPUT_ARR(CH, name##_in, (MAX) + 1); VF_INPUT(unsigned char, n); __CPROVER_assume(n <= (MAX));                  \
    CH *name = (CH *)malloc((unsigned long)n * sizeof(CH));                                                            \
    for (unsigned long i_##name = 0; i_##name < n; ++i_##name) name[i_##name] = name##_in[i_##name]
/* the same characters as an exact-size C string: n characters and the terminator, nothing behind it */
#define SV_CSTR(name, src_in, n)                                                                                       \
    CH *name = (CH *)malloc(((unsigned long)n + 1) * sizeof(CH));                                                      \
    for (unsigned long j_##name = 0; j_##name < n; ++j_##name) name[j_##name] = src_in[j_##name];                      \
    name[n] = 0
/* view of unbounded length (<= BIG) with arbitrary contents, for loop-free functions */
#define BIG_VIEW(h, p, n) VF_INPUT(unsigned long, n); __CPROVER_assume(n <= BIG); CH *p = (CH *)malloc(n * sizeof(CH)); SV h; h._begin = p; h._size = n

/* ---- reference semantics ------------------------------------------------------------------------------------------------ */
static unsigned long r_min(unsigned long a, unsigned long b) { return a < b ? a : b; }
static unsigned long r_strlen(const CH *s, unsigned long cap) { for (unsigned long i = 0; i <= NMAX; ++i) { if (i >= cap) break; if (s[i] == 0) return i; } return cap; }
/* h[x, x+nn) == n[0, nn); the caller guarantees x + nn <= hn */
static _Bool r_match(const CH *h, unsigned long x, const CH *n, unsigned long nn) { for (unsigned long i = 0; i < NMAX; ++i) if (i < nn && h[x + i] != n[i]) return 0; return 1; }
static _Bool r_in(CH c, const CH *n, unsigned long nn) { for (unsigned long i = 0; i < NMAX; ++i) if (i < nn && n[i] == c) return 1; return 0; }
/* find: lowest xpos with pos <= xpos, xpos + nn <= hn, traits::eq(at(xpos+I), str.at(I)) for all I */
static unsigned long r_find(const CH *h, unsigned long hn, const CH *n, unsigned long nn, unsigned long pos) {
  for (unsigned long x = 0; x <= HMAX; ++x) { if (x < pos || x > hn || nn > hn - x) continue; if (r_match(h, x, n, nn)) return x; } return NPOS; }
/* rfind: highest xpos with xpos <= pos, xpos + nn <= hn, ... */
static unsigned long r_rfind(const CH *h, unsigned long hn, const CH *n, unsigned long nn, unsigned long pos) {
  for (unsigned long j = 0; j <= HMAX; ++j) { unsigned long x = HMAX - j; if (x > pos || x > hn || nn > hn - x) continue; if (r_match(h, x, n, nn)) return x; } return NPOS; }
/* find_first_of / find_first_not_of: lowest xpos with pos <= xpos < hn and at(xpos) (not) in str */
static unsigned long r_ffo(const CH *h, unsigned long hn, const CH *n, unsigned long nn, unsigned long pos) {
  for (unsigned long x = 0; x < HMAX; ++x) { if (x < pos || x >= hn) continue; if (r_in(h[x], n, nn)) return x; } return NPOS; }
static unsigned long r_ffno(const CH *h, unsigned long hn, const CH *n, unsigned long nn, unsigned long pos) {
  for (unsigned long x = 0; x < HMAX; ++x) { if (x < pos || x >= hn) continue; if (!r_in(h[x], n, nn)) return x; } return NPOS; }
/* find_last_of / find_last_not_of: highest xpos with xpos <= pos, xpos < hn and at(xpos) (not) in str */
static unsigned long r_flo(const CH *h, unsigned long hn, const CH *n, unsigned long nn, unsigned long pos) {
  for (unsigned long j = 1; j <= HMAX; ++j) { unsigned long x = HMAX - j; if (x > pos || x >= hn) continue; if (r_in(h[x], n, nn)) return x; } return NPOS; }
static unsigned long r_flno(const CH *h, unsigned long hn, const CH *n, unsigned long nn, unsigned long pos) {
  for (unsigned long j = 1; j <= HMAX; ++j) { unsigned long x = HMAX - j; if (x > pos || x >= hn) continue; if (!r_in(h[x], n, nn)) return x; } return NPOS; }
/* compare: traits::compare over rlen = min(an, bn) (first position where lt holds either way decides), then the lengths */
static int r_cmp(const CH *a, unsigned long an, const CH *b, unsigned long bn) {
  for (unsigned long i = 0; i < HMAX; ++i) { if (i >= an || i >= bn) break; if (LT(a[i], b[i])) return -1; if (LT(b[i], a[i])) return 1; }
  return an < bn ? -1 : (an > bn ? 1 : 0); }
#define SGN(x) ((x) < 0 ? -1 : ((x) > 0 ? 1 : 0))
/* first position where the two sequences differ, or min(an, bn) */
static unsigned long r_mismatch(const CH *a, unsigned long an, const CH *b, unsigned long bn) {
  for (unsigned long i = 0; i < HMAX; ++i) { if (i >= an || i >= bn) return i; if (a[i] != b[i]) return i; } return r_min(an, bn); }

/* ---- witness classes of the known findings (predicates over harness inputs only) ---------------------------------------------- */
/* find(view,pos): the inner compare runs past the end when the haystack ENDS with a proper non-empty prefix of the needle at some
 * x >= pos and no full match precedes it (then there is none at all) */
static _Bool w_find_tail(const CH *h, unsigned long hn, const CH *n, unsigned long nn, unsigned long pos) {
  if (nn < 2 || pos > hn || nn > hn - pos || r_find(h, hn, n, nn, pos) != NPOS) return 0;
  for (unsigned long x = 0; x < HMAX; ++x) { if (x < pos || x >= hn || hn - x >= nn) continue; if (r_match(h, x, n, hn - x)) return 1; } return 0; }
/* compare / relational with char: sign decided at the first mismatch by SIGNED char order although traits::lt is unsigned */
static _Bool w_cmp_signed(const CH *a, unsigned long an, const CH *b, unsigned long bn) {
  unsigned long m = r_mismatch(a, an, b, bn); return m < an && m < bn && (a[m] < 0) != (b[m] < 0); }

/* ---- shared shape of the six search families ---------------------------------------------------------------------------- */
/* overloads: 0 (view,pos) 1 (char,pos) 2 (ptr,pos,count) 3 (C string,pos) 4 (view) 5 (char) 6 (C string); (en, enn, ep) is the
 * needle and position the standard defines the overload by */
#define SEARCH_SETUP(DEFPOS)                                                                                           \
    SV_BUF(hay, hn, HMAX); SV_BUF(nd, nn, NMAX); VF_INPUT(unsigned long, pos); VF_INPUT(unsigned char, which);         \
    __CPROVER_assume(which <= 6); SV_CSTR(cs, nd_in, nn);                                                              \
    SV h; h._begin = hay; h._size = hn; SV n; n._begin = nd; n._size = nn; CH c = nd_in[0];                            \
    _Bool isc = which == 1 || which == 5, isz = which == 3 || which == 6;                                              \
    unsigned long enn = isc ? 1 : (isz ? r_strlen(nd_in, nn) : nn), ep = which >= 4 ? (DEFPOS) : pos;                  \
    const CH *en = nd_in
#define SEARCH_CALL(F, REF, WHAT)                                                                                      \
    unsigned long r = which == 0 ? sv_##F##_v(&h, &n, pos) : which == 1 ? sv_##F##_c(&h, c, pos)                       \
                    : which == 2 ? sv_##F##_pn(&h, nd, pos, nn) : which == 3 ? sv_##F##_p(&h, cs, pos)                 \
                    : which == 4 ? sv_##F##_vd(&h, &n) : which == 5 ? sv_##F##_cd(&h, c) : sv_##F##_pd(&h, cs);        \
    VF_ASSERT(r == REF(hay_in, hn, en, enn, ep), WHAT);                                                                \
    VF_ASSERT(h._begin == hay && h._size == hn, "the view itself is unchanged by a search");                           \
    VF_REACH()

/*@GROUP name=find props=C08,C02,C05 kind=B unwind=9 bound=haystack<=6,needle<=3 cost=3@*/
void h_find(void) { SEARCH_SETUP(0UL);
  VF_KNOWN(C08_find_empty_needle, !isc && enn == 0 && ep <= hn);
  VF_KNOWN(C08_find_tail_overread, !isc && w_find_tail(hay_in, hn, en, enn, ep));
  SEARCH_CALL(find, r_find, "find: lowest xpos >= pos with xpos + n.size() <= size() and the needle at xpos, else npos"); }
