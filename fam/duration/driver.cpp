// driver: chrono::duration / time_point arithmetic and the rounding casts (C12)
#include <etl/chrono.hpp>
#define VF_E extern "C"
namespace vf {
namespace ch = etl::chrono;
template <typename R, typename P> using D = ch::duration<R, P>;
using etl::ratio; using etl::nano; using etl::micro; using etl::milli;
using sec = ratio<1>; using minute = ratio<60>; using hour = ratio<3600>; using dayp = ratio<86400>;
using r13 = ratio<1, 3>; using r57 = ratio<5, 7>; using ntsc = ratio<1001, 30000>;

// name, from rep, from period, to rep, to period
#define CASTS(X) \
  X(ms_s, short, milli, short, sec) X(s_ms, short, sec, short, milli) X(s_min, short, sec, short, minute) X(min_s, short, minute, short, sec) \
  X(h_d, short, hour, short, dayp) X(r13_r57, short, r13, short, r57) X(r57_r13, short, r57, short, r13) X(ntsc_ms, short, ntsc, short, milli) \
  X(us_ms, short, micro, short, milli) X(ns_us, short, nano, short, micro) X(ms_s_c, signed char, milli, signed char, sec) \
  X(i_ms_s, int, milli, int, sec) X(i_s_h, int, sec, int, hour) X(i_r13_r57, int, r13, int, r57) X(l_ms_s, long long, milli, long long, sec) X(l_s_h, long long, sec, long long, hour) \
  X(l_ns_s, long long, nano, long long, sec) X(is_ms_s, int, milli, short, sec) X(si_s_ms, short, sec, int, milli)
#define X(n, FR, FP, TR, TP) \
  VF_E TR n##_cast(FR c) { return ch::duration_cast<D<TR, TP>>(D<FR, FP>{c}).count(); } \
  VF_E TR n##_floor(FR c) { return ch::floor<D<TR, TP>>(D<FR, FP>{c}).count(); } \
  VF_E TR n##_ceil(FR c) { return ch::ceil<D<TR, TP>>(D<FR, FP>{c}).count(); } \
  VF_E TR n##_round(FR c) { return ch::round<D<TR, TP>>(D<FR, FP>{c}).count(); }
CASTS(X)
#undef X

using MS = D<int, milli>; using S = D<int, sec>; using R13 = D<int, r13>; using R57 = D<int, r57>;
// mixed-period arithmetic in the common type (ms & s -> ms ; 1/3 & 5/7 -> 1/21)
VF_E int add_ms_s(int a, int b) { return (MS{a} + S{b}).count(); }
VF_E int sub_ms_s(int a, int b) { return (MS{a} - S{b}).count(); }
VF_E int add_r(int a, int b) { return (R13{a} + R57{b}).count(); }
VF_E int sub_r(int a, int b) { return (R13{a} - R57{b}).count(); }
VF_E bool eq_ms_s(int a, int b) { return MS{a} == S{b}; }
VF_E bool ne_ms_s(int a, int b) { return MS{a} != S{b}; }
VF_E bool lt_ms_s(int a, int b) { return MS{a} < S{b}; }
VF_E bool le_ms_s(int a, int b) { return MS{a} <= S{b}; }
VF_E bool gt_ms_s(int a, int b) { return MS{a} > S{b}; }
VF_E bool ge_ms_s(int a, int b) { return MS{a} >= S{b}; }
VF_E bool lt_r(int a, int b) { return R13{a} < R57{b}; }
VF_E bool eq_r(int a, int b) { return R13{a} == R57{b}; }
// mixed representation widths: the narrower operand is converted to the common type duration<long long, milli>
using LMS = D<long long, milli>; using MIN32 = D<int, minute>; using UMS = D<unsigned long long, milli>; using UMIN = D<unsigned, minute>;
VF_E long long add_lms_min(long long a, int b) { return (LMS{a} + MIN32{b}).count(); }
VF_E long long sub_lms_min(long long a, int b) { return (LMS{a} - MIN32{b}).count(); }
VF_E bool eq_lms_min(long long a, int b) { return LMS{a} == MIN32{b}; }
VF_E bool lt_lms_min(long long a, int b) { return LMS{a} < MIN32{b}; }
VF_E bool gt_min_lms(int b, long long a) { return MIN32{b} > LMS{a}; }
VF_E long long conv_min_lms(int b) { return LMS{MIN32{b}}.count(); }
VF_E unsigned long long conv_umin_ums(unsigned b) { return UMS{UMIN{b}}.count(); }
using SS = D<signed char, sec>; using SM = D<signed char, milli>;
VF_E signed char div_dd(signed char a, signed char b) { return static_cast<signed char>(SM{a} / SM{b}); }
VF_E signed char mod_dd(signed char a, signed char b) { return (SM{a} % SM{b}).count(); }
VF_E signed char mul_eq(signed char a, signed char k) { SM d{a}; d *= k; return d.count(); }
VF_E signed char div_eq(signed char a, signed char k) { SM d{a}; d /= k; return d.count(); }
VF_E signed char mod_eq(signed char a, signed char k) { SM d{a}; d %= k; return d.count(); }
VF_E signed char mod_eq_d(signed char a, signed char b) { SM d{a}; d %= SM{b}; return d.count(); }
VF_E int neg(int a) { return (-MS{a}).count(); }
VF_E int pos(int a) { return (+MS{a}).count(); }
VF_E int inc(int a) { MS d{a}; ++d; return d.count(); }
VF_E int dec(int a) { MS d{a}; --d; return d.count(); }
VF_E int post_inc(int a, int* after) { MS d{a}; auto o = d++; *after = d.count(); return o.count(); }
VF_E int add_eq(int a, int b) { MS d{a}; d += MS{b}; return d.count(); }
VF_E int sub_eq(int a, int b) { MS d{a}; d -= MS{b}; return d.count(); }
VF_E int abs_ms(int a) { return ch::abs(MS{a}).count(); }
VF_E long long abs_ll(long long a) { return ch::abs(D<long long, sec>{a}).count(); }
VF_E long long unit_seconds(int which, int n) {
    switch (which) {
    case 0: return ch::duration_cast<ch::seconds>(ch::minutes{n}).count();
    case 1: return ch::duration_cast<ch::seconds>(ch::hours{n}).count();
    case 2: return ch::duration_cast<ch::seconds>(ch::days{n}).count();
    case 3: return ch::duration_cast<ch::seconds>(ch::weeks{n}).count();
    case 4: return ch::duration_cast<ch::seconds>(ch::months{n}).count();
    default: return ch::duration_cast<ch::seconds>(ch::years{n}).count();
    }
}
VF_E int d_zero() { return MS::zero().count(); }
VF_E int d_min() { return MS::min().count(); }
VF_E int d_max() { return MS::max().count(); }

using TPms = ch::time_point<ch::system_clock, MS>; using TPs = ch::time_point<ch::system_clock, S>;
VF_E int tp_plus(int t, int d) { TPms p{MS{t}}; p += MS{d}; return p.time_since_epoch().count(); }
VF_E int tp_minus(int t, int d) { TPms p{MS{t}}; p -= MS{d}; return p.time_since_epoch().count(); }
VF_E int tp_inc(int t) { TPms p{MS{t}}; ++p; return p.time_since_epoch().count(); }
VF_E int tp_dec(int t) { TPms p{MS{t}}; --p; return p.time_since_epoch().count(); }
VF_E bool tp_lt(int a, int b) { return TPms{MS{a}} < TPs{S{b}}; }
VF_E bool tp_eq(int a, int b) { return TPms{MS{a}} == TPs{S{b}}; }
VF_E int tp_cast(int a) { return ch::time_point_cast<S>(TPms{MS{a}}).time_since_epoch().count(); }
VF_E int tp_floor(int a) { return ch::floor<S>(TPms{MS{a}}).time_since_epoch().count(); }
VF_E int tp_ceil(int a) { return ch::ceil<S>(TPms{MS{a}}).time_since_epoch().count(); }
VF_E int tp_round(int a) { return ch::round<S>(TPms{MS{a}}).time_since_epoch().count(); }

// all six time_point relations across periods, both operand orders (each operator is a separate function body)
#define TPREL(X) X(lt, <) X(le, <=) X(gt, >) X(ge, >=) X(eq, ==) X(ne, !=)
#define X(n, op) VF_E bool tpx_##n(int a, int b) { return TPms{MS{a}} op TPs{S{b}}; } VF_E bool tpy_##n(int b, int a) { return TPs{S{b}} op TPms{MS{a}}; }
TPREL(X)
#undef X
// unsigned representations: the rounding casts must not go through a difference that wraps
using UMS16 = D<unsigned short, milli>; using US16 = D<unsigned short, sec>; using UMIN16 = D<unsigned short, minute>;
VF_E unsigned short u_ms_s_cast(unsigned short c) { return ch::duration_cast<US16>(UMS16{c}).count(); }
VF_E unsigned short u_ms_s_floor(unsigned short c) { return ch::floor<US16>(UMS16{c}).count(); }
VF_E unsigned short u_ms_s_ceil(unsigned short c) { return ch::ceil<US16>(UMS16{c}).count(); }
VF_E unsigned short u_ms_s_round(unsigned short c) { return ch::round<US16>(UMS16{c}).count(); }
VF_E unsigned short u_s_min_floor(unsigned short c) { return ch::floor<UMIN16>(US16{c}).count(); }
VF_E unsigned short u_s_min_ceil(unsigned short c) { return ch::ceil<UMIN16>(US16{c}).count(); }
VF_E unsigned short u_s_min_round(unsigned short c) { return ch::round<UMIN16>(US16{c}).count(); }
using UMS32 = D<unsigned, milli>; using US32 = D<unsigned, sec>;
VF_E unsigned u32_ms_s_round(unsigned c) { return ch::round<US32>(UMS32{c}).count(); }
VF_E unsigned u32_ms_s_floor(unsigned c) { return ch::floor<US32>(UMS32{c}).count(); }
VF_E unsigned u32_ms_s_ceil(unsigned c) { return ch::ceil<US32>(UMS32{c}).count(); }
}
