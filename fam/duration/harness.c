/* duration: chrono::duration / time_point arithmetic and the rounding casts against exact rational arithmetic (128-bit) — C12.
 * For a conversion From -> To with From::period / To::period = N / D (reduced): exact value = c * N / D.
 *   duration_cast truncates toward zero; floor: r*D <= c*N < (r+1)*D; ceil: (r-1)*D < c*N <= r*D; round: nearest, ties to even.
 * The harness precondition keeps the exact result (and the standard's own defining expressions t +/- To{1}) representable. */
/* exact arithmetic: 64-bit is exact for every 8/16/32-bit obligation below; the 64-bit windows use 128 bits */
#define GEN_S(IT, S) \
static IT s_trunc##S(IT num, IT den) { return num / den; }                                        /* C division truncates toward zero; den > 0 */ \
static IT s_floor##S(IT num, IT den) { IT q = num / den; return (num % den != 0 && num < 0) ? q - 1 : q; } \
static IT s_ceil##S(IT num, IT den) { IT q = num / den; return (num % den != 0 && num > 0) ? q + 1 : q; } \
static IT s_round##S(IT num, IT den) { IT f = s_floor##S(num, den); IT lo = num - f * den, hi = (f + 1) * den - num; return lo < hi ? f : (lo > hi ? f + 1 : ((f & 1) ? f + 1 : f)); }
GEN_S(long long, 64)
GEN_S(vf_i128, 128)
typedef long long I;
#define FITS(v, TR_MIN, TR_MAX) ((v) >= (TR_MIN) && (v) <= (TR_MAX))
/* one conversion pair: symbolic count c of type FR in [LO,HI]; N/D the reduced quotient From::period / To::period; result type range
 * [TMIN,TMAX]; [CMIN,CMAX] the range of common_type_t<From::rep, To::rep>.  floor/ceil/round are DEFINED by the standard through
 * comparisons and differences in the common duration type (period To/D, so From counts scale by N and To counts by D): the
 * precondition keeps those defining expressions representable, so inherited overflow (std::chrono has it too) is not charged to tetl. */
#define PAIR_T(IT, S, n, FR, N, D, TMIN, TMAX, CMIN, CMAX, LO, HI) { VF_INPUT(FR, c_##n); __CPROVER_assume(c_##n >= (LO) && c_##n <= (HI)); IT num = (IT)c_##n * (N); \
    IT et = s_trunc##S(num, D), ef = s_floor##S(num, D), ec = s_ceil##S(num, D), er = s_round##S(num, D); \
    if (FITS(et, (IT)(TMIN), (IT)(TMAX))) VF_ASSERT((IT)n##_cast(c_##n) == et, "duration_cast " #n ": exact quotient truncated toward zero"); \
    if (FITS(et - 1, (IT)(TMIN), (IT)(TMAX)) && FITS(et + 1, (IT)(TMIN), (IT)(TMAX)) && FITS(ef + 1, (IT)(TMIN), (IT)(TMAX)) && FITS(num, (IT)(CMIN), (IT)(CMAX)) \
        && FITS((et - 1) * (D), (IT)(CMIN), (IT)(CMAX)) && FITS((et + 1) * (D), (IT)(CMIN), (IT)(CMAX)) && FITS((ef + 1) * (D) - num, (IT)(CMIN), (IT)(CMAX))) { \
      VF_ASSERT((IT)n##_floor(c_##n) == ef, "floor " #n ": greatest representable value <= exact"); \
      VF_ASSERT((IT)n##_ceil(c_##n) == ec, "ceil " #n ": least representable value >= exact"); \
      VF_ASSERT((IT)n##_round(c_##n) == er, "round " #n ": nearest, ties to even"); } }
#define PAIR(n, FR, N, D, TMIN, TMAX, CMIN, CMAX, LO, HI) PAIR_T(long long, 64, n, FR, N, D, TMIN, TMAX, CMIN, CMAX, LO, HI)
#define PAIR128(n, FR, N, D, TMIN, TMAX, CMIN, CMAX, LO, HI) PAIR_T(vf_i128, 128, n, FR, N, D, TMIN, TMAX, CMIN, CMAX, LO, HI)
#define SMIN16 (-32768)
#define SMAX16 32767
#define IMIN (-2147483647 - 1)
#define IMAX 2147483647
#define LMIN (-9223372036854775807LL - 1)
#define LMAX 9223372036854775807LL

/*@GROUP name=cast16_a props=C12,C02 kind=F solver=kissat timeout=400 cost=5@*/
void h_cast16_a(void) {
  PAIR(ms_s, short, 1, 1000, SMIN16, SMAX16, SMIN16, SMAX16, SMIN16, SMAX16)
  PAIR(s_ms, short, 1000, 1, SMIN16, SMAX16, SMIN16, SMAX16, SMIN16, SMAX16)
  VF_REACH(); }

/*@GROUP name=cast16_c props=C12,C02 kind=F solver=kissat timeout=400 cost=5@*/
void h_cast16_c(void) {
  PAIR(s_min, short, 1, 60, SMIN16, SMAX16, SMIN16, SMAX16, SMIN16, SMAX16)
  PAIR(min_s, short, 60, 1, SMIN16, SMAX16, SMIN16, SMAX16, SMIN16, SMAX16)
  PAIR(ms_s_c, signed char, 1, 1000, -128, 127, -128, 127, -128, 127)
  VF_REACH(); }

/*@GROUP name=cast16_b props=C12,C02 kind=F solver=kissat timeout=400 cost=5@*/
void h_cast16_b(void) {
  PAIR(h_d, short, 1, 24, SMIN16, SMAX16, SMIN16, SMAX16, SMIN16, SMAX16)
  PAIR(r13_r57, short, 7, 15, SMIN16, SMAX16, SMIN16, SMAX16, SMIN16, SMAX16)
  PAIR(r57_r13, short, 15, 7, SMIN16, SMAX16, SMIN16, SMAX16, SMIN16, SMAX16)
  PAIR(us_ms, short, 1, 1000, SMIN16, SMAX16, SMIN16, SMAX16, SMIN16, SMAX16)
  PAIR(ns_us, short, 1, 1000, SMIN16, SMAX16, SMIN16, SMAX16, SMIN16, SMAX16)
  VF_REACH(); }

/*@GROUP name=cast16_ntsc props=C12,C02 kind=F solver=kissat timeout=400 cost=5@*/
void h_cast16_ntsc(void) {
  PAIR(ntsc_ms, short, 1001, 30, SMIN16, SMAX16, SMIN16, SMAX16, SMIN16, SMAX16)
  PAIR(si_s_ms, short, 1000, 1, IMIN, IMAX, IMIN, IMAX, SMIN16, SMAX16)
  VF_REACH(); }

/*@GROUP name=cast32_window props=C12,C02 kind=B bound=|count|<=2^12-and-windows-of-2^13-at-INT_MIN/INT_MAX solver=kissat timeout=400 cost=5@*/
void h_cast32_window(void) { VF_INPUT(unsigned char, w);
  int lo = w == 0 ? -4096 : (w == 1 ? IMAX - 8192 : IMIN), hi = w == 0 ? 4096 : (w == 1 ? IMAX : IMIN + 8192);
  PAIR(i_ms_s, int, 1, 1000, IMIN, IMAX, IMIN, IMAX, lo, hi)
  PAIR(i_s_h, int, 1, 3600, IMIN, IMAX, IMIN, IMAX, lo, hi)
  PAIR(i_r13_r57, int, 7, 15, IMIN, IMAX, IMIN, IMAX, lo, hi)
  PAIR(is_ms_s, int, 1, 1000, SMIN16, SMAX16, IMIN, IMAX, -4096, 4096)
  VF_REACH(); }

/*@GROUP name=cast64_window props=C12,C02 kind=B bound=|count|<=2^17-and-windows-at-2^62/2^63 solver=kissat timeout=600 cost=6@*/
void h_cast64_window(void) { VF_INPUT(unsigned char, w);
  long long lo = w == 0 ? -131072 : (w == 1 ? (1LL << 62) - 131072 : (w == 2 ? LMIN : LMAX - 262144)), hi = w == 0 ? 131072 : (w == 1 ? (1LL << 62) + 131072 : (w == 2 ? LMIN + 262144 : LMAX));
  PAIR128(l_ms_s, long long, 1, 1000, LMIN, LMAX, LMIN, LMAX, lo, hi)
  PAIR128(l_s_h, long long, 1, 3600, LMIN, LMAX, LMIN, LMAX, lo, hi)
  PAIR128(l_ns_s, long long, 1, 1000000000LL, LMIN, LMAX, LMIN, LMAX, lo, hi)
  VF_REACH(); }

/*@GROUP name=arith props=C12,C02 kind=F solver=kissat timeout=300@*/
void h_arith(void) { VF_INPUT(int, a); VF_INPUT(int, b);
  I sum = (I)a + (I)b * 1000, dif = (I)a - (I)b * 1000;
  if (FITS((I)b * 1000, IMIN, IMAX)) {        /* the common type is duration<int, milli>: b seconds must be representable in it */
    if (FITS(sum, IMIN, IMAX)) VF_ASSERT((I)add_ms_s(a, b) == sum, "ms + s == a + 1000*b in the common type");
    if (FITS(dif, IMIN, IMAX)) VF_ASSERT((I)sub_ms_s(a, b) == dif, "ms - s == a - 1000*b in the common type");
    VF_ASSERT(eq_ms_s(a, b) == ((I)a == (I)b * 1000) && ne_ms_s(a, b) == ((I)a != (I)b * 1000), "== / != compare exact values");
    VF_ASSERT(lt_ms_s(a, b) == ((I)a < (I)b * 1000) && le_ms_s(a, b) == ((I)a <= (I)b * 1000) && gt_ms_s(a, b) == ((I)a > (I)b * 1000) && ge_ms_s(a, b) == ((I)a >= (I)b * 1000), "<,<=,>,>= compare exact values"); }
  VF_REACH(); }

/*@GROUP name=arith_ratio props=C12,C02 kind=F solver=kissat timeout=300@*/
void h_arith_ratio(void) { VF_INPUT(int, a); VF_INPUT(int, b);
  /* 1/3 and 5/7 -> common period 1/21: a*7 + b*15 */
  if (FITS((I)a * 7, IMIN, IMAX) && FITS((I)b * 15, IMIN, IMAX)) {
    if (FITS((I)a * 7 + (I)b * 15, IMIN, IMAX)) VF_ASSERT((I)add_r(a, b) == (I)a * 7 + (I)b * 15, "ratio<1,3> + ratio<5,7> in the common period 1/21");
    if (FITS((I)a * 7 - (I)b * 15, IMIN, IMAX)) VF_ASSERT((I)sub_r(a, b) == (I)a * 7 - (I)b * 15, "ratio<1,3> - ratio<5,7> in the common period 1/21");
    VF_ASSERT(lt_r(a, b) == ((I)a * 7 < (I)b * 15) && eq_r(a, b) == ((I)a * 7 == (I)b * 15), "comparison of non-power-of-ten periods is exact"); }
  VF_REACH(); }

/*@GROUP name=unary props=C12,C02 kind=F solver=kissat timeout=300@*/
void h_unary(void) { VF_INPUT(int, a); VF_INPUT(int, b); VF_INPUT(long long, l); int after;
  if (a != IMIN) { VF_ASSERT(neg(a) == -a, "unary -"); VF_ASSERT(abs_ms(a) == (a < 0 ? -a : a), "abs(duration)"); }
  VF_ASSERT(pos(a) == a, "unary +");
  if (a != IMAX) { VF_ASSERT(inc(a) == a + 1, "++d"); VF_ASSERT(post_inc(a, &after) == a && after == a + 1, "d++ returns the old value"); }
  if (a != IMIN) VF_ASSERT(dec(a) == a - 1, "--d");
  if (FITS((I)a + b, IMIN, IMAX)) VF_ASSERT(add_eq(a, b) == a + b, "+=");
  if (FITS((I)a - b, IMIN, IMAX)) VF_ASSERT(sub_eq(a, b) == a - b, "-=");
  if (l != LMIN) VF_ASSERT(abs_ll(l) == (l < 0 ? -l : l), "abs(duration<long long>)");
  VF_ASSERT(d_zero() == 0 && d_min() == IMIN && d_max() == IMAX, "zero/min/max");
  if (FITS((I)a + b, IMIN, IMAX)) VF_ASSERT(tp_plus(a, b) == a + b, "time_point += duration");
  if (FITS((I)a - b, IMIN, IMAX)) VF_ASSERT(tp_minus(a, b) == a - b, "time_point -= duration");
  if (a != IMAX) VF_ASSERT(tp_inc(a) == a + 1, "++time_point"); if (a != IMIN) VF_ASSERT(tp_dec(a) == a - 1, "--time_point");
  if (FITS((I)b * 1000, IMIN, IMAX)) VF_ASSERT(tp_lt(a, b) == ((I)a < (I)b * 1000) && tp_eq(a, b) == ((I)a == (I)b * 1000), "time_point comparison across periods is exact");
  VF_REACH(); }

/*@GROUP name=units props=C12,C02 kind=F@*/
void h_units(void) { VF_INPUT(int, n); VF_INPUT(unsigned char, which); __CPROVER_assume(n >= -60 && n <= 60 && which <= 5);
  long long per = which == 0 ? 60 : which == 1 ? 3600 : which == 2 ? 86400 : which == 3 ? 604800 : which == 4 ? 2629746 : 31556952;
  VF_KNOWN(C12_months_years_swapped, which >= 4);
  VF_ASSERT(unit_seconds(which, n) == n * per, "minutes/hours/days/weeks/months/years convert to seconds with the standard periods (month = 2629746 s, year = 31556952 s)");
  VF_REACH(); }

/*@GROUP name=muldiv8 props=C12,C02 kind=F solver=kissat timeout=300@*/
void h_muldiv8(void) { VF_INPUT(signed char, a); VF_INPUT(signed char, b);   /* every pair of 8-bit counts */
  if (b != 0) { VF_ASSERT(div_dd(a, b) == (signed char)(a / b), "duration / duration == count quotient"); VF_ASSERT(mod_dd(a, b) == (signed char)(a % b), "duration % duration");
    if (!(a == -128 && b == -1)) { VF_ASSERT(div_eq(a, b) == (signed char)(a / b), "/= scalar"); } VF_ASSERT(mod_eq(a, b) == (signed char)(a % b) && mod_eq_d(a, b) == (signed char)(a % b), "%= scalar / %= duration"); }
  if (FITS((I)a * b, -128, 127)) VF_ASSERT(mul_eq(a, b) == (signed char)(a * b), "*= scalar");
  VF_REACH(); }

/*@GROUP name=mixed_rep props=C12,C02 kind=F solver=kissat timeout=300@*/
void h_mixed_rep(void) { VF_INPUT(long long, a); VF_INPUT(int, b); VF_INPUT(unsigned, u); vf_i128 bm = (vf_i128)b * 60000;   /* int minutes -> long long milliseconds: exact in 64 bits */
  VF_ASSERT((vf_i128)conv_min_lms(b) == bm, "duration<long long,milli>(duration<int,minute>) converts in the WIDER representation (no wrap at 2^31)");
  VF_ASSERT(conv_umin_ums(u) == (unsigned long long)u * 60000ULL, "unsigned 32 -> 64 bit conversion does not wrap");
  if (FITS((vf_i128)a + bm, (vf_i128)LMIN, (vf_i128)LMAX)) VF_ASSERT((vf_i128)add_lms_min(a, b) == (vf_i128)a + bm, "ms(int64) + min(int32) in the common type");
  if (FITS((vf_i128)a - bm, (vf_i128)LMIN, (vf_i128)LMAX)) VF_ASSERT((vf_i128)sub_lms_min(a, b) == (vf_i128)a - bm, "ms(int64) - min(int32) in the common type");
  VF_ASSERT(eq_lms_min(a, b) == ((vf_i128)a == bm) && lt_lms_min(a, b) == ((vf_i128)a < bm) && gt_min_lms(b, a) == (bm > (vf_i128)a), "comparisons across representation widths are exact");
  VF_REACH(); }

/*@GROUP name=tp_round props=C12,C02 kind=B bound=|count|<=2^17 solver=kissat@*/
void h_tp_round(void) { VF_INPUT(int, c); __CPROVER_assume(c >= -131072 && c <= 131072); I num = c;
  VF_ASSERT((I)tp_cast(c) == s_trunc64(num, 1000), "time_point_cast truncates toward zero like duration_cast");
  VF_ASSERT((I)tp_floor(c) == s_floor64(num, 1000) && (I)tp_ceil(c) == s_ceil64(num, 1000) && (I)tp_round(c) == s_round64(num, 1000), "floor/ceil/round of a time_point act on its duration");
  VF_REACH(); }

/*@COMMON@*/
/* ---- all six time_point relations across periods, both operand orders */
#define TP_REL_BODY(ASSUME) VF_INPUT(int, a); VF_INPUT(int, b); I x = (I)a, y = (I)b * 1000; __CPROVER_assume(FITS(y, IMIN, IMAX)); ASSUME; \
  VF_ASSERT(tpx_lt(a, b) == (x < y) && tpx_le(a, b) == (x <= y) && tpx_gt(a, b) == (x > y) && tpx_ge(a, b) == (x >= y) && tpx_eq(a, b) == (x == y) && tpx_ne(a, b) == (x != y), "time_point<ms> OP time_point<s>: exact comparison in the common duration"); \
  VF_ASSERT(tpy_lt(b, a) == (y < x) && tpy_le(b, a) == (y <= x) && tpy_gt(b, a) == (y > x) && tpy_ge(b, a) == (y >= x) && tpy_eq(b, a) == (y == x) && tpy_ne(b, a) == (y != x), "time_point<s> OP time_point<ms>: exact comparison in the common duration"); \
  VF_REACH();
/*@GROUP name=tp_relations props=C12,C02 kind=B bound=|seconds|<=4096,|ms|<2^23 solver=kissat@*/
void h_tp_relations(void) { TP_REL_BODY(__CPROVER_assume(b >= -4096 && b <= 4096 && a > -(1 << 23) && a < (1 << 23))) }
/*@GROUP name=tp_relations_full props=C12,C02 kind=F solver=kissat tier=thorough timeout=1800@*/
void h_tp_relations_full(void) { TP_REL_BODY((void)0) }

/* ---- unsigned representations: floor/ceil/round (the defining differences must not wrap) */
/*@GROUP name=unsigned_rounding props=C12,C02 kind=F solver=kissat@*/
void h_unsigned_rounding(void) { VF_INPUT(unsigned short, c); I n = c;
  VF_ASSERT((I)u_ms_s_cast(c) == n / 1000 && (I)u_ms_s_floor(c) == n / 1000, "duration_cast / floor<seconds>(duration<uint16_t, milli>)");
  VF_ASSERT((I)u_ms_s_ceil(c) == (n + 999) / 1000, "ceil<seconds>(duration<uint16_t, milli>)");
  VF_ASSERT((I)u_ms_s_round(c) == s_round64(n, 1000), "round<seconds>(duration<uint16_t, milli>): nearest, ties to even (no wrap in the unsigned differences)");
  VF_REACH(); }
/*@GROUP name=unsigned_rounding_min props=C12,C02 kind=F solver=kissat@*/
void h_unsigned_rounding_min(void) { VF_INPUT(unsigned short, c); I n = c;
  VF_ASSERT((I)u_s_min_floor(c) == n / 60, "floor<minutes>(duration<uint16_t>)");
  if ((n / 60 + 1) * 60 <= 65535) { VF_ASSERT((I)u_s_min_ceil(c) == (n + 59) / 60, "ceil<minutes>(duration<uint16_t>)"); VF_ASSERT((I)u_s_min_round(c) == s_round64(n, 60), "round<minutes>(duration<uint16_t>)"); }
  VF_REACH(); }
/*@GROUP name=unsigned_rounding32 props=C12,C02 kind=B bound=count<2^20 solver=kissat@*/
void h_unsigned_rounding32(void) { VF_INPUT(unsigned, w); __CPROVER_assume(w < (1u << 20)); I m = w;
  VF_ASSERT((I)u32_ms_s_floor(w) == m / 1000 && (I)u32_ms_s_ceil(w) == (m + 999) / 1000 && (I)u32_ms_s_round(w) == s_round64(m, 1000), "floor/ceil/round<seconds>(duration<uint32_t, milli>)");
  VF_REACH(); }
