/* algob: bounded (kind B) obligations for C06 — see README in fam/. Every sequence up to length L, all element values symbolic over int. */
#include "vf_handler.h"
typedef unsigned long ul;
/* exact-size heap buffer like VF_BUF, but every length gets its own constant-size object: a symbolic-size malloc makes CBMC's
 * propositional reduction of in-place pointer writes explode (34 GB for rotate, len<=4); constant sizes keep the same bounds checks */
#define XA_(T, n, k, MAX) ((k) < (MAX) && (n) == (k)) ? VF_ALLOC((k) * sizeof(T))
#define XALLOC(T, n, MAX) ((T *)(XA_(T, n, 0, MAX) : XA_(T, n, 1, MAX) : XA_(T, n, 2, MAX) : XA_(T, n, 3, MAX) : XA_(T, n, 4, MAX) : XA_(T, n, 5, MAX) : XA_(T, n, 6, MAX) : XA_(T, n, 7, MAX) : XA_(T, n, 8, MAX) : \
                            XA_(T, n, 9, MAX) : XA_(T, n, 10, MAX) : XA_(T, n, 11, MAX) : XA_(T, n, 12, MAX) : VF_ALLOC((MAX) * sizeof(T))))
#define BUF(T, name, n, MAX) VF_INPUT_ARR(T, name##_in, (MAX) + 1); VF_ASSUME((ul)(n) <= (ul)(MAX)); T *name = XALLOC(T, n, MAX); \
    for (ul vf_i_##name = 0; vf_i_##name < (ul)(MAX); ++vf_i_##name) if (vf_i_##name < (ul)(n)) name[vf_i_##name] = name##_in[vf_i_##name]
/* output buffer of exactly n elements, contents indeterminate */
#define OUTBUF(T, name, n, MAX) T *name = XALLOC(T, n, MAX)
#define LEN(n, L) VF_INPUT(unsigned char, n); VF_ASSUME(n <= (L))

/* rotate: out[k] == in[(k+m) mod n], returns first + (last - middle) */
#define B_ROTATE(L, CALL) { LEN(n, L); VF_INPUT(unsigned char, m); VF_ASSUME(m <= n); BUF(int, a, n, L); \
  int *r = CALL(a, a + m, a + n); \
  VF_ASSERT(r == a + (n - m), "rotate returns first + (last - middle)"); \
  for (int k = 0; k < (L); ++k) if (k < n) VF_ASSERT(a[k] == a_in[(k + m) % n], "rotate: out[k] == in[(k + m) mod n]"); \
  VF_REACH(); }

/*@GROUP name=rotate props=C06,C02 kind=B bound=len<=4 unwind=6@*/
void h_rotate(void) B_ROTATE(4, a_rotate)
/*@GROUP name=rotate_fwd props=C06,C02 kind=B bound=len<=4 unwind=6@*/
void h_rotate_fwd(void) B_ROTATE(4, a_rotate_fwd)
