/* algob: the BOUNDED (kind B) part of C06 — algorithms whose invariants are permutation- or nested-loop-shaped, the numeric
 * transform_reduce, and the iterator adaptors.  Every sequence up to length L (see bound= of each group; the length, every split point
 * and every count are symbolic), ALL element values symbolic over int (except the a % 3 comparator groups, see WIN), full unwinding.
 * Postconditions are the [alg.*] clauses: a closed form where one exists (rotate, shift, merge, inplace_merge: the final position of
 * every element; sorts: sorted + permutation via a ghost value or element tags + stability), a plain reference loop otherwise (search
 * family, includes, set operations).  Element identity (stability, "taken from range 1") is observed through a {key,tag} struct
 * (stable_sort, insertion_sort) or through tagged ints (key = x >> 4, tag = x & 15; merges, set operations, stable_partition, merge_sort).
 * Single-range algorithms run on exact-fit heap objects (SPLIT / MK); two-range algorithms on start-aligned blocks (EMK / TAIL).
 * The body of every harness is a macro B_<NAME>(L, ...) so that the quick group and its tier=thorough twin share one text.
 * solver=kissat everywhere: MiniSat needs minutes (or 30+ GB) on these permutation-shaped instances. */
#include "vf_handler.h"
typedef unsigned long ul;
typedef struct vf_kt KT;
/* Buffers.  VF_BUF (one heap object of symbolic size) is not usable here: with in-place writes through pointers CBMC's formula for a
 * symbolic-size object explodes (34 GB for rotate, len<=4).  Instead every harness declares its inputs first (IN / KTIN), then
 * SPLITs on each symbolic length: `SPLIT(n, L) { ... }` runs the block once with `n` shadowed by a loop constant equal to the input
 * n, so that symbolic execution sees constant-size exact-fit objects (MK / OUT: a one-past access is still an out-of-bounds failure)
 * and concrete range ends.  All lengths 0..L are covered by the L+1 unwound iterations. */
#define IN(T, name, MAX) VF_INPUT_ARR(T, name##_in, (MAX) + 1)
/* {key,tag} input: keys symbolic, tag = TAG0 + index (element identity) */
#define KTIN(name, MAX, TAG0) VF_INPUT_ARR(KT, name##_in, (MAX) + 1); for (int vf_i_##name = 0; vf_i_##name <= (MAX); ++vf_i_##name) name##_in[vf_i_##name].tag = (TAG0) + vf_i_##name
/* tagged int input (see driver.cpp): key = x >> 4 symbolic over the full 28-bit range, tag = x & 15 = TAG0 + index (element identity) */
#define TIN(name, MAX, TAG0) VF_INPUT_ARR(int, name##_in, (MAX) + 1); for (int vf_i_##name = 0; vf_i_##name <= (MAX); ++vf_i_##name) name##_in[vf_i_##name] = (int)(((unsigned)name##_in[vf_i_##name] & ~15u) | (unsigned)((TAG0) + vf_i_##name))
#define KEY(x) ((x) >> 4)
#define TAG(x) ((x) & 15)
#define SPLIT(n, L) for (int vf_c_##n = 0; vf_c_##n <= (L); ++vf_c_##n) if (vf_c_##n == (int)(n)) for (int vf_once_##n = 1, n = vf_c_##n; vf_once_##n; vf_once_##n = 0)
/* exact-size heap copy of name_in[0..n) (n: a SPLIT constant) */
#define MK(T, name, n, MAX) T *name = (T *)VF_ALLOC((ul)(n) * sizeof(T)); for (int vf_i_##name = 0; vf_i_##name < (MAX); ++vf_i_##name) if (vf_i_##name < (n)) name[vf_i_##name] = name##_in[vf_i_##name]
/* output buffer of exactly n elements (n: a SPLIT constant), contents indeterminate */
#define OUT(T, name, n) T *name = (T *)VF_ALLOC((ul)(n) * sizeof(T))
/* Two-range algorithms: (L+1)^2 SPLIT branches are too expensive, and so is a symbolic placement of the ranges inside larger blocks.
 * They use one block of MAX elements per range with the range [name, name+n) at the START of the block: an access before first is an
 * out-of-bounds failure; the tail [n, MAX) holds further symbolic input values, must be unchanged after the call (TAIL: nothing behind
 * last is written) and a read behind last yields an arbitrary value (so it shows up in the postcondition if it matters at all). */
#define EMK(T, name, n, MAX) T *name = (T *)VF_ALLOC((MAX) * sizeof(T)); for (int vf_i_##name = 0; vf_i_##name < (MAX); ++vf_i_##name) name[vf_i_##name] = name##_in[vf_i_##name]
#define EOUT(T, name, MAX) VF_INPUT_ARR(T, name##_in, (MAX) + 1); EMK(T, name, 0, MAX)
#define TAIL(name, n, MAX, EQ) for (int vf_t = 0; vf_t < (MAX); ++vf_t) if (vf_t >= (n)) VF_ASSERT(EQ(name[vf_t], name##_in[vf_t]), "nothing behind the end of the range is written")
#define IEQ(x, y) ((x) == (y))
#define LEN(n, L) VF_INPUT(unsigned char, n); VF_ASSUME(n <= (L))
/* selector of a comparator / predicate (see driver.cpp): symbolic in [LO, HI] */
#define SEL(c, LO, HI) VF_INPUT(unsigned char, c); VF_ASSUME(c >= (LO) && c <= (HI))
/* the a % 3 comparator (c == 3) / predicate (p == 2) puts a 32-bit divider on every operand: those groups take their values from the
 * window [-4, 4] (all remainders -2..2, equivalent-but-different values); every other comparator sees the full int range */
#define WIN(on, arr, L, KEY) if (on) for (int vf_w = 0; vf_w <= (L); ++vf_w) VF_ASSUME(arr[vf_w] KEY >= -4 && arr[vf_w] KEY <= 4)
#define FORK(k, L, n) for (int k = 0; k < (L); ++k) if (k < (int)(n))
#define KTEQ(x, y) ((x).key == (y).key && (x).tag == (y).tag)

/* the driver's comparators / predicates, restated */
static _Bool lt(int c, int a, int b) { return c == 0 ? a < b : (c == 1 ? a > b : (c == 2 ? (a & 3) < (b & 3) : a % 3 < b % 3)); }
/* comparator on the key of tagged ints; c == 4: operator< on the whole value (the default-comparator overloads) */
static _Bool ltk(int c, int a, int b) { return c == 4 ? a < b : lt(c, KEY(a), KEY(b)); }
static _Bool eqv(int c, int a, int b) { return !lt(c, a, b) && !lt(c, b, a); }
static _Bool peq(int p, int a, int b) { return p == 0 ? a == b : (p == 1 ? (a & 3) == (b & 3) : a % 3 == b % 3); }
static _Bool pred1(int p, int x) { return p == 0 ? (x & 3) == 0 : (p == 1 ? x < 0 : x % 3 == 0); }
#define ASSUME_SORTED(c, a, n, L, KEY) FORK(vf_s, (L) - 1, (int)(n) - 1) VF_ASSUME(!lt(c, a[vf_s + 1] KEY, a[vf_s] KEY))

/* VF_KNOWN must appear textually in the GROUP section (the engine rewrites it there): harness macros take it as the KNOWN argument */
/* ---- rotate / rotate_copy [alg.rotate]: out[k] == in[(k+m) mod n]; returns first + (last - middle) ------------------------- */
#define B_ROTATE(L, CALL) { LEN(n, L); VF_INPUT(unsigned char, m); VF_ASSUME(m <= n); IN(int, a, L); \
  SPLIT(n, L) SPLIT(m, L) { MK(int, a, n, L); \
    int *r = CALL(a, a + m, a + n); \
    VF_ASSERT(r == a + (n - m), "rotate returns first + (last - middle)"); \
    FORK(k, L, n) VF_ASSERT(a[k] == a_in[(k + m) % n], "rotate: out[k] == in[(k + m) mod n]"); } \
  VF_REACH(); }
#define B_ROTATE_COPY(L) { LEN(n, L); VF_INPUT(unsigned char, m); VF_ASSUME(m <= n); IN(int, a, L); \
  SPLIT(n, L) SPLIT(m, L) { MK(int, a, n, L); OUT(int, d, n); \
    int *r = a_rotate_copy(a, a + m, a + n, d); \
    VF_ASSERT(r == d + n, "rotate_copy returns result + (last - first)"); \
    FORK(k, L, n) { VF_ASSERT(d[k] == a_in[(k + m) % n], "rotate_copy: out[k] == in[(k + m) mod n]"); VF_ASSERT(a[k] == a_in[k], "rotate_copy leaves the source unchanged"); } } \
  VF_REACH(); }

/* ---- shift_left / shift_right [alg.shift]; s in [-1, n+1]; s < 0 is documented by tetl as "does nothing" ------------------- */
#define B_SHIFT_LEFT(L, CALL) { LEN(n, L); VF_INPUT(signed char, s); VF_ASSUME(s >= -1 && s <= n + 1); IN(int, a, L); \
  SPLIT(n, L) { MK(int, a, n, L); \
    int *r = CALL(a, a + n, (long)s); \
    if (s <= 0) { VF_ASSERT(r == a + n, "shift_left(n <= 0) returns last"); FORK(k, L, n) VF_ASSERT(a[k] == a_in[k], "shift_left(n <= 0) has no effects"); } \
    else if (s >= n) { VF_ASSERT(r == a, "shift_left(n >= last - first) returns first"); FORK(k, L, n) VF_ASSERT(a[k] == a_in[k], "shift_left(n >= last - first) has no effects"); } \
    else { VF_ASSERT(r == a + (n - s), "shift_left returns first + (last - first - n)"); FORK(k, L, n - s) VF_ASSERT(a[k] == a_in[k + s], "shift_left: element first+n+i is moved to first+i"); } } \
  VF_REACH(); }
#define B_SHIFT_RIGHT(L, CALL, KNOWN) { LEN(n, L); VF_INPUT(signed char, s); VF_ASSUME(s >= -1 && s <= n + 1); IN(int, a, L); \
  SPLIT(n, L) { MK(int, a, n, L); \
    KNOWN; \
    int *r = CALL(a, a + n, (long)s); \
    if (s < 0) { FORK(k, L, n) VF_ASSERT(a[k] == a_in[k], "shift_right(n < 0) has no effects (tetl extension)"); } \
    else if (s == 0) { VF_ASSERT(r == a, "shift_right(0) returns first + n == first"); FORK(k, L, n) VF_ASSERT(a[k] == a_in[k], "shift_right(0) has no effects"); } \
    else if (s >= n) { VF_ASSERT(r == a + n, "shift_right(n >= last - first) returns last"); FORK(k, L, n) VF_ASSERT(a[k] == a_in[k], "shift_right(n >= last - first) has no effects"); } \
    else { VF_ASSERT(r == a + s, "shift_right returns first + n"); FORK(k, L, n - s) VF_ASSERT(a[k + s] == a_in[k], "shift_right: element first+i is moved to first+n+i"); } } \
  VF_REACH(); }

/* ---- partition family [alg.partitions] ------------------------------------------------------------------------------------- */
#define B_PARTITION(L, CALL, CLO, CHI) { LEN(n, L); SEL(p, CLO, CHI); VF_INPUT(int, g); IN(int, a, L); WIN(p == 2, a_in, L, ); \
  SPLIT(p, 3) SPLIT(n, L) { MK(int, a, n, L); int cnt = 0, gb = 0, ga = 0; \
    FORK(k, L, n) { cnt += pred1(p, a_in[k]); gb += a_in[k] == g; } \
    int *r = CALL(a, a + n, p); \
    VF_ASSERT(r == a + cnt, "partition returns first + #{elements satisfying pred}"); \
    FORK(k, L, n) { ga += a[k] == g; VF_ASSERT(pred1(p, a[k]) == (k < cnt), "partition: pred holds exactly on [first, ret)"); } \
    VF_ASSERT(ga == gb, "partition permutes: every value occurs as often as before"); } \
  VF_REACH(); }
#define B_STABLE_PARTITION(L) { LEN(n, L); TIN(a, L, 0); \
  SPLIT(n, L) { MK(int, a, n, L); int e[(L) + 1]; int cnt = 0, w = 0; \
    FORK(k, L, n) if ((KEY(a_in[k]) & 3) == 0) { e[w] = a_in[k]; ++w; } cnt = w; \
    FORK(k, L, n) if ((KEY(a_in[k]) & 3) != 0) { e[w] = a_in[k]; ++w; } \
    int *r = a_stable_partition(a, a + n); \
    VF_ASSERT(r == a + cnt, "stable_partition returns first + #{elements satisfying pred}"); \
    FORK(k, L, n) VF_ASSERT(a[k] == e[k], "stable_partition: satisfying elements in their original order, then the others in their original order"); } \
  VF_REACH(); }
#define B_PARTITION_COPY(L) { LEN(n, L); IN(int, a, L); \
  SPLIT(n, L) { MK(int, a, n, L); int cnt = 0, wt = 0, wf = 0; FORK(k, L, n) cnt += (a_in[k] & 3) == 0; \
    SPLIT(cnt, L) if (cnt <= n) { OUT(int, dt, cnt); OUT(int, df, n - cnt); int *rt, *rf; \
      a_partition_copy(a, a + n, dt, df, &rt, &rf); \
      VF_ASSERT(rt == dt + cnt && rf == df + (n - cnt), "partition_copy returns the ends of the two output ranges"); \
      FORK(k, L, n) { VF_ASSERT(a[k] == a_in[k], "partition_copy leaves the source unchanged"); \
        if ((a_in[k] & 3) == 0) { VF_ASSERT(dt[wt] == a_in[k], "partition_copy: satisfying elements to out_true, in order"); ++wt; } \
        else { VF_ASSERT(df[wf] == a_in[k], "partition_copy: other elements to out_false, in order"); ++wf; } } } } \
  VF_REACH(); }

/* ---- sorting [alg.sort]: sorted + permutation (count of a ghost value g unchanged: sound for all values) -------------------- */
#define PERM_G(L, n) { int gb = 0, ga = 0; FORK(k, L, n) { gb += a_in[k] == g; ga += a[k] == g; } VF_ASSERT(ga == gb, "permutation: every value occurs as often as before"); }
#define B_SORT(L, CALL, CLO, CHI, NMIN) { LEN(n, L); VF_ASSUME(n >= (NMIN)); SEL(c, CLO, CHI); VF_INPUT(int, g); IN(int, a, L); WIN(c == 3, a_in, L, ); \
  SPLIT(c, 3) SPLIT(n, L) { MK(int, a, n, L); \
    CALL(a, a + n, c); \
    PERM_G(L, n) \
    FORK(k, (L) - 1, n - 1) VF_ASSERT(!lt(c, a[k + 1], a[k]), "sort: the result is sorted with respect to comp"); } \
  VF_REACH(); }
#define B_SORT_DEFAULT(L, CALL) { LEN(n, L); VF_INPUT(int, g); IN(int, a, L); \
  SPLIT(n, L) { MK(int, a, n, L); \
    CALL(a, a + n); \
    PERM_G(L, n) \
    FORK(k, (L) - 1, n - 1) VF_ASSERT(!(a[k + 1] < a[k]), "sort: the result is sorted with respect to operator<"); } \
  VF_REACH(); }
/* partial_sort: [first,middle) sorted and no element of [middle,last) less than any of them; nth_element: nothing in [nth,last) is
 * less than anything in [first,nth], i.e. a[nth] is the element a full sort would put there */
#define B_PARTIAL_SORT(L, CLO, CHI) { LEN(n, L); SEL(c, CLO, CHI); VF_INPUT(unsigned char, m); VF_ASSUME(m <= n); VF_INPUT(int, g); IN(int, a, L); WIN(c == 3, a_in, L, ); \
  SPLIT(c, 3) SPLIT(n, L) { MK(int, a, n, L); \
    a_partial_sort(a, a + m, a + n, c); \
    PERM_G(L, n) \
    FORK(k, (L) - 1, m - 1) VF_ASSERT(!lt(c, a[k + 1], a[k]), "partial_sort: [first, middle) is sorted"); \
    FORK(i, L, m) FORK(j, L, n) if (j >= m) VF_ASSERT(!lt(c, a[j], a[i]), "partial_sort: no element of [middle, last) is less than an element of [first, middle)"); } \
  VF_REACH(); }
#define B_NTH_ELEMENT(L, CLO, CHI) { LEN(n, L); SEL(c, CLO, CHI); VF_INPUT(unsigned char, m); VF_ASSUME(m <= n); VF_INPUT(int, g); IN(int, a, L); WIN(c == 3, a_in, L, ); \
  SPLIT(c, 3) SPLIT(n, L) { MK(int, a, n, L); \
    a_nth_element(a, a + m, a + n, c); \
    PERM_G(L, n) \
    FORK(i, L, n) FORK(j, L, n) if (i <= m && j >= m && i < j) VF_ASSERT(!lt(c, a[j], a[i]), "nth_element: for i in [first, nth], j in [nth, last): !(a[j] < a[i])"); } \
  VF_REACH(); }
#define B_STABLE_SORT(L, CALL, CLO, CHI) { LEN(n, L); SEL(c, CLO, CHI); KTIN(a, L, 0); WIN(c == 3, a_in, L, .key); \
  SPLIT(c, 3) SPLIT(n, L) { MK(KT, a, n, L); \
    CALL(a, a + n, c); \
    FORK(k, L, n) VF_ASSERT(a[k].tag >= 0 && a[k].tag < n && a[k].key == a_in[a[k].tag].key, "stable sort: every output element is an input element"); \
    FORK(j, L, n) FORK(k, L, n) if (j < k) VF_ASSERT(a[j].tag != a[k].tag, "stable sort: no input element is duplicated (permutation)"); \
    FORK(k, (L) - 1, n - 1) { VF_ASSERT(!lt(c, a[k + 1].key, a[k].key), "stable sort: the result is sorted with respect to comp"); \
      VF_ASSERT(lt(c, a[k].key, a[k + 1].key) || a[k].tag < a[k + 1].tag, "stable sort: equivalent elements keep their original order"); } } \
  VF_REACH(); }

#define B_STABLE_SORT_T(L, CALL, CLO, CHI) { LEN(n, L); SEL(c, CLO, CHI); TIN(a, L, 0); WIN(c == 3, a_in, L, >> 4); \
  SPLIT(c, 3) SPLIT(n, L) { MK(int, a, n, L); \
    CALL(a, a + n, c); \
    FORK(k, L, n) VF_ASSERT(TAG(a[k]) < n && a[k] == a_in[TAG(a[k])], "stable sort: every output element is an input element"); \
    FORK(j, L, n) FORK(k, L, n) if (j < k) VF_ASSERT(TAG(a[j]) != TAG(a[k]), "stable sort: no input element is duplicated (permutation)"); \
    FORK(k, (L) - 1, n - 1) { VF_ASSERT(!ltk(c, a[k + 1], a[k]), "stable sort: the result is sorted with respect to comp"); \
      VF_ASSERT(ltk(c, a[k], a[k + 1]) || TAG(a[k]) < TAG(a[k + 1]), "stable sort: equivalent elements keep their original order"); } } \
  VF_REACH(); }

/* ---- is_permutation [alg.is.permutation] ----------------------------------------------------------------------------------- */
#define PERM_REF(ok, L, n) FORK(i, L, n) { int ca = 0, cb = 0; FORK(k, L, n) { ca += a_in[k] == a_in[i]; cb += b_in[k] == a_in[i]; } if (ca != cb) ok = 0; }
#define B_IS_PERMUTATION3(L) { LEN(n, L); IN(int, a, L); IN(int, b, L); \
  SPLIT(n, L) { MK(int, a, n, L); MK(int, b, n, L); _Bool ok = 1; PERM_REF(ok, L, n) \
    _Bool r = a_is_permutation3(a, a + n, b); \
    VF_ASSERT(r == ok, "is_permutation(f1,l1,f2): true iff every value occurs equally often in both ranges"); } \
  VF_REACH(); }
#define B_IS_PERMUTATION4(L, CALL, KNOWN) { LEN(n, L); LEN(n2, L); IN(int, a, L); IN(int, b, L); \
  SPLIT(n, L) SPLIT(n2, L) { MK(int, a, n, L); MK(int, b, n2, L); _Bool ok = n == n2; if (ok) { PERM_REF(ok, L, n) } \
    KNOWN; \
    _Bool r = CALL(a, a + n, b, b + n2); \
    VF_ASSERT(r == ok, "is_permutation(f1,l1,f2,l2): false for different lengths, else true iff every value occurs equally often"); } \
  VF_REACH(); }

/* ---- search family [alg.search] [alg.find.end] [alg.find.first.of]: first / last position such that ... ---------------------- */
#define MATCH_AT(ok, i, L, m, p) _Bool ok = (i) + (m) <= n; FORK(j, L, m) if (ok && !peq(p, a_in[(i) + j], b_in[j])) ok = 0;
#define B_SEARCH(L, CALL, CLO, CHI) { LEN(n, L); LEN(m, L); SEL(p, CLO, CHI); IN(int, a, L); IN(int, b, L); WIN(p == 2, a_in, L, ); WIN(p == 2, b_in, L, ); \
  SPLIT(p, 3) SPLIT(n, L) SPLIT(m, L) { MK(int, a, n, L); MK(int, b, m, L); int idx = n; \
    for (int i = (L); i >= 0; --i) { MATCH_AT(ok, i, L, m, p) if (ok) idx = i; } \
    int *r = CALL(a, a + n, b, b + m, p); \
    VF_ASSERT(r == a + idx, "search returns the first position where the needle matches (first for an empty needle), else last"); } \
  VF_REACH(); }
#define B_FIND_END(L, CLO, CHI) { LEN(n, L); LEN(m, L); SEL(p, CLO, CHI); IN(int, a, L); IN(int, b, L); WIN(p == 2, a_in, L, ); WIN(p == 2, b_in, L, ); \
  SPLIT(p, 3) { EMK(int, a, n, L); EMK(int, b, m, L); int idx = n; \
    for (int i = 0; i <= (L); ++i) { MATCH_AT(ok, i, L, m, p) if (ok && m > 0) idx = i; } \
    int *r = a_find_end(a, a + n, b, b + m, p); \
    VF_ASSERT(r == a + idx, "find_end returns the last position where the needle matches, last if none or the needle is empty"); } \
  VF_REACH(); }
#define B_SEARCH_N(L, CLO, CHI, KNOWN) { LEN(n, L); VF_INPUT(signed char, s); VF_ASSUME(s >= -1 && s <= n + 1); SEL(p, CLO, CHI); VF_INPUT(int, v); IN(int, a, L); WIN(p == 2, a_in, L, ); if (p == 2) VF_ASSUME(v >= -4 && v <= 4); \
  SPLIT(p, 3) SPLIT(n, L) { MK(int, a, n, L); int idx = n, fm = n; \
    for (int i = (L); i >= 0; --i) { _Bool ok = i + (int)s <= n; FORK(j, (L) + 1, s) if (ok && !peq(p, a_in[i + j], v)) ok = 0; if (ok) idx = i; if (i < n && peq(p, a_in[i], v)) fm = i; } \
    KNOWN; \
    int *r = a_search_n(a, a + n, s, &v, p); \
    VF_ASSERT(r == a + idx, "search_n returns the first position of count consecutive matching elements (first for count <= 0), else last"); } \
  VF_REACH(); }
#define B_FIND_FIRST_OF(L, CLO, CHI) { LEN(n, L); LEN(m, L); SEL(p, CLO, CHI); IN(int, a, L); IN(int, b, L); WIN(p == 2, a_in, L, ); WIN(p == 2, b_in, L, ); \
  SPLIT(p, 3) SPLIT(n, L) SPLIT(m, L) { MK(int, a, n, L); MK(int, b, m, L); int idx = n; \
    for (int i = (L) - 1; i >= 0; --i) if (i < n) { _Bool any = 0; FORK(j, L, m) if (peq(p, a_in[i], b_in[j])) any = 1; if (any) idx = i; } \
    int *r = a_find_first_of(a, a + n, b, b + m, p); \
    VF_ASSERT(r == a + idx, "find_first_of returns the first element that matches any element of the second range, else last"); } \
  VF_REACH(); }
/* includes [includes]: true iff the second sorted range is a sub-multiset of the first: plain two-finger reference */
#define B_INCLUDES(L, CLO, CHI) { LEN(n, L); LEN(m, L); SEL(c, CLO, CHI); IN(int, a, L); IN(int, b, L); WIN(c == 3, a_in, L, ); WIN(c == 3, b_in, L, ); \
  SPLIT(c, 3) { EMK(int, a, n, L); EMK(int, b, m, L); ASSUME_SORTED(c, a_in, n, L, ); ASSUME_SORTED(c, b_in, m, L, ); _Bool ok = 1; int i = 0, j = 0; \
    for (int s = 0; s < 2 * (L); ++s) if (ok && j < m) { if (i >= n || lt(c, b_in[j], a_in[i])) ok = 0; else { if (!lt(c, a_in[i], b_in[j])) ++j; ++i; } } \
    _Bool r = a_includes(a, a + n, b, b + m, c); \
    VF_ASSERT(r == ok, "includes: true iff the second sorted range is a sub-multiset of the first (true for an empty second range)"); \
    TAIL(a, n, L, IEQ); TAIL(b, m, L, IEQ); } \
  VF_REACH(); }

/* ---- merge / inplace_merge [alg.merge]: the final position of every element in closed form (sorted, stable, range 1 first) ---- */
#define TSORTED(c, a, n, L) FORK(vf_s, (L) - 1, (int)(n) - 1) VF_ASSUME(!ltk(c, a[vf_s + 1], a[vf_s]))
#define B_MERGE(L, CALL, CLO, CHI) { LEN(na, L); LEN(nb, L); SEL(c, CLO, CHI); TIN(a, L, 0); TIN(b, L, 8); WIN(c == 3, a_in, L, >> 4); WIN(c == 3, b_in, L, >> 4); \
  SPLIT(c, 4) { EMK(int, a, na, L); EMK(int, b, nb, L); TSORTED(c, a_in, na, L); TSORTED(c, b_in, nb, L); EOUT(int, d, 2 * (L)); \
    int *r = CALL; \
    VF_ASSERT(r == d + (na + nb), "merge returns result + (last1 - first1) + (last2 - first2)"); \
    FORK(i, L, na) { int pos = i; FORK(j, L, nb) pos += ltk(c, b_in[j], a_in[i]); VF_ASSERT(d[pos] == a_in[i], "merge: a[i] lands behind exactly the elements of range 2 that are less than it"); VF_ASSERT(a[i] == a_in[i], "merge leaves range 1 unchanged"); } \
    FORK(j, L, nb) { int pos = j; FORK(i, L, na) pos += !ltk(c, b_in[j], a_in[i]); VF_ASSERT(d[pos] == b_in[j], "merge: b[j] lands behind exactly the elements of range 1 that are not greater than it"); VF_ASSERT(b[j] == b_in[j], "merge leaves range 2 unchanged"); } \
    TAIL(d, na + nb, 2 * (L), IEQ); TAIL(a, na, L, IEQ); TAIL(b, nb, L, IEQ); } \
  VF_REACH(); }
#define B_INPLACE_MERGE(L, CALL, CLO, CHI) { LEN(n, L); VF_INPUT(unsigned char, m); VF_ASSUME(m <= n); SEL(c, CLO, CHI); TIN(a, L, 0); WIN(c == 3, a_in, L, >> 4); \
  SPLIT(c, 4) { EMK(int, a, n, L); \
    FORK(k, (L) - 1, n - 1) if (k + 1 != m) VF_ASSUME(!ltk(c, a_in[k + 1], a_in[k])); \
    CALL; \
    FORK(i, L, m) { int pos = i; FORK(j, L, n) if (j >= m) pos += ltk(c, a_in[j], a_in[i]); VF_ASSERT(a[pos] == a_in[i], "inplace_merge: an element of the first half lands behind exactly the second-half elements less than it"); } \
    FORK(j, L, n) if (j >= m) { int pos = j - m; FORK(i, L, m) pos += !ltk(c, a_in[j], a_in[i]); VF_ASSERT(a[pos] == a_in[j], "inplace_merge: an element of the second half lands behind exactly the first-half elements not greater than it"); } \
    TAIL(a, n, L, IEQ); } \
  VF_REACH(); }

/* ---- set operations [alg.set.operations]: plain two-finger reference; the tags show which range an output element is copied from ---- */
enum { OP_UNION, OP_INTER, OP_DIFF, OP_SYM };
static int ref_setop(int op, int c, const int *a, int na, const int *b, int nb, int *e, int cap)
{
    int i = 0, j = 0, w = 0;
    for (int s = 0; s < cap; ++s) {
        if (i < na && j < nb) {
            if (ltk(c, a[i], b[j])) { if (op != OP_INTER) { e[w] = a[i]; ++w; } ++i; }
            else if (ltk(c, b[j], a[i])) { if (op == OP_UNION || op == OP_SYM) { e[w] = b[j]; ++w; } ++j; }
            else { if (op == OP_UNION || op == OP_INTER) { e[w] = a[i]; ++w; } ++i; ++j; }
        } else if (i < na) { if (op != OP_INTER) { e[w] = a[i]; ++w; } ++i; }
        else if (j < nb) { if (op == OP_UNION || op == OP_SYM) { e[w] = b[j]; ++w; } ++j; }
    }
    return w;
}
#define B_SETOP(L, OP, CALL, WHAT, CLO, CHI) { LEN(na, L); LEN(nb, L); SEL(c, CLO, CHI); TIN(a, L, 0); TIN(b, L, 8); WIN(c == 3, a_in, L, >> 4); WIN(c == 3, b_in, L, >> 4); \
  SPLIT(c, 4) { EMK(int, a, na, L); EMK(int, b, nb, L); TSORTED(c, a_in, na, L); TSORTED(c, b_in, nb, L); \
    int e[2 * (L) + 1]; int ne = ref_setop(OP, c, a_in, na, b_in, nb, e, 2 * (L)); EOUT(int, d, 2 * (L)); \
    int *r = CALL; \
    VF_ASSERT(r == d + ne, WHAT " returns the end of the constructed range"); \
    FORK(k, 2 * (L), ne) VF_ASSERT(d[k] == e[k], WHAT ": the output is the standard's sorted result, equivalent elements taken from the prescribed range"); \
    FORK(i, L, na) VF_ASSERT(a[i] == a_in[i], WHAT " leaves range 1 unchanged"); FORK(j, L, nb) VF_ASSERT(b[j] == b_in[j], WHAT " leaves range 2 unchanged"); \
    TAIL(d, ne, 2 * (L), IEQ); TAIL(a, na, L, IEQ); TAIL(b, nb, L, IEQ); } \
  VF_REACH(); }

/* ---- numeric: transform_reduce [transform.reduce] (unsigned: wrap-around is defined) ----------------------------------------- */
#define B_TRANSFORM_REDUCE(L) { LEN(n, L); SEL(w, 0, 2); VF_INPUT(unsigned, init); IN(unsigned, a, L); IN(unsigned, b, L); \
  SPLIT(w, 3) SPLIT(n, L) { MK(unsigned, a, n, L); MK(unsigned, b, n, L); unsigned e = init; \
    FORK(k, L, n) e = w == 0 ? e + a_in[k] * b_in[k] : (w == 1 ? e ^ (a_in[k] & b_in[k]) : e + a_in[k] * 3u); \
    unsigned r = w == 0 ? a_transform_reduce2(a, a + n, b, init) : (w == 1 ? a_transform_reduce2_op(a, a + n, b, init) : a_transform_reduce1(a, a + n, init)); \
    VF_ASSERT(r == e, "transform_reduce: init reduced with transform(a[k], b[k]) / transform(a[k]) over the range"); } \
  VF_REACH(); }

/* ============================================================ groups =========================================================
 * <name>: quick, len<=4 (or as stated in bound=); <name>_t: the tier=thorough twin with len<=6; *_mod3: the a % 3 comparator / predicate */
/*@GROUP name=rotate props=C06,C02 kind=B bound=len<=4 unwind=7 solver=kissat objbits=12 timeout=600@*/
void h_rotate(void) B_ROTATE(4, a_rotate)
/*@GROUP name=rotate_t props=C06,C02 kind=B bound=len<=6 unwind=9 solver=kissat tier=thorough objbits=13 timeout=3000@*/
void h_rotate_t(void) B_ROTATE(6, a_rotate)
/*@GROUP name=rotate_fwd props=C06,C02 kind=B bound=len<=4 unwind=7 solver=kissat objbits=12 timeout=600@*/
void h_rotate_fwd(void) B_ROTATE(4, a_rotate_fwd)
/*@GROUP name=rotate_fwd_t props=C06,C02 kind=B bound=len<=6 unwind=9 solver=kissat tier=thorough objbits=13 timeout=3000@*/
void h_rotate_fwd_t(void) B_ROTATE(6, a_rotate_fwd)
/*@GROUP name=rotate_copy props=C06,C02 kind=B bound=len<=4 unwind=7 solver=kissat objbits=12 timeout=600@*/
void h_rotate_copy(void) B_ROTATE_COPY(4)
/*@GROUP name=rotate_copy_t props=C06,C02 kind=B bound=len<=6 unwind=9 solver=kissat tier=thorough objbits=13 timeout=3000@*/
void h_rotate_copy_t(void) B_ROTATE_COPY(6)
/*@GROUP name=shift_left props=C06,C02 kind=B bound=len<=4,n_in_[-1,len+1] unwind=7 solver=kissat objbits=12 timeout=600@*/
void h_shift_left(void) B_SHIFT_LEFT(4, a_shift_left)
/*@GROUP name=shift_left_t props=C06,C02 kind=B bound=len<=6,n_in_[-1,len+1] unwind=9 solver=kissat tier=thorough objbits=13 timeout=3000@*/
void h_shift_left_t(void) B_SHIFT_LEFT(6, a_shift_left)
/*@GROUP name=shift_left_fwd props=C06,C02 kind=B bound=len<=4,n_in_[-1,len+1] unwind=7 solver=kissat objbits=12 timeout=600@*/
void h_shift_left_fwd(void) B_SHIFT_LEFT(4, a_shift_left_fwd)
/*@GROUP name=shift_left_fwd_t props=C06,C02 kind=B bound=len<=6,n_in_[-1,len+1] unwind=9 solver=kissat tier=thorough objbits=13 timeout=3000@*/
void h_shift_left_fwd_t(void) B_SHIFT_LEFT(6, a_shift_left_fwd)
/*@GROUP name=shift_right props=C06,C02 kind=B bound=len<=4,n_in_[-1,len+1] unwind=7 solver=kissat objbits=12 timeout=600@*/
void h_shift_right(void) B_SHIFT_RIGHT(4, a_shift_right, VF_KNOWN(C06_shift_right_first_lost, s > 0 && s < n && a_in[0] != 0); VF_KNOWN(C06_shift_right_zero_returns_last, s == 0 && n > 0))
/*@GROUP name=shift_right_t props=C06,C02 kind=B bound=len<=6,n_in_[-1,len+1] unwind=9 solver=kissat tier=thorough objbits=13 timeout=3000@*/
void h_shift_right_t(void) B_SHIFT_RIGHT(6, a_shift_right, VF_KNOWN(C06_shift_right_first_lost, s > 0 && s < n && a_in[0] != 0); VF_KNOWN(C06_shift_right_zero_returns_last, s == 0 && n > 0))
/*@GROUP name=shift_right_bidi props=C06,C02 kind=B bound=len<=4,n_in_[-1,len+1] unwind=7 solver=kissat objbits=12 timeout=600@*/
void h_shift_right_bidi(void) B_SHIFT_RIGHT(4, a_shift_right_bidi, VF_KNOWN(C06_shift_right_first_lost, s > 0 && s < n && a_in[0] != 0); VF_KNOWN(C06_shift_right_zero_returns_last, s == 0 && n > 0))
/*@GROUP name=shift_right_bidi_t props=C06,C02 kind=B bound=len<=6,n_in_[-1,len+1] unwind=9 solver=kissat tier=thorough objbits=13 timeout=3000@*/
void h_shift_right_bidi_t(void) B_SHIFT_RIGHT(6, a_shift_right_bidi, VF_KNOWN(C06_shift_right_first_lost, s > 0 && s < n && a_in[0] != 0); VF_KNOWN(C06_shift_right_zero_returns_last, s == 0 && n > 0))
/*@GROUP name=partition props=C06,C02 kind=B bound=len<=4 unwind=7 solver=kissat objbits=12 timeout=600@*/
void h_partition(void) B_PARTITION(4, a_partition, 0, 1)
/*@GROUP name=partition_t props=C06,C02 kind=B bound=len<=6 unwind=9 solver=kissat tier=thorough objbits=13 timeout=3000@*/
void h_partition_t(void) B_PARTITION(6, a_partition, 0, 1)
/*@GROUP name=partition_fwd props=C06,C02 kind=B bound=len<=4 unwind=7 solver=kissat objbits=12 timeout=600@*/
void h_partition_fwd(void) B_PARTITION(4, a_partition_fwd, 0, 1)
/*@GROUP name=partition_fwd_t props=C06,C02 kind=B bound=len<=6 unwind=9 solver=kissat tier=thorough objbits=13 timeout=3000@*/
void h_partition_fwd_t(void) B_PARTITION(6, a_partition_fwd, 0, 1)
/*@GROUP name=partition_mod3 props=C06,C02 kind=B bound=len<=4,values_in_[-4,4] unwind=7 solver=kissat objbits=12 timeout=600@*/
void h_partition_mod3(void) B_PARTITION(4, a_partition, 2, 2)
/*@GROUP name=partition_mod3_t props=C06,C02 kind=B bound=len<=6,values_in_[-4,4] unwind=9 solver=kissat tier=thorough objbits=13 timeout=3000@*/
void h_partition_mod3_t(void) B_PARTITION(6, a_partition, 2, 2)
/*@GROUP name=stable_partition props=C06,C02 kind=B bound=len<=4 unwind=7 solver=kissat objbits=12 timeout=600@*/
void h_stable_partition(void) B_STABLE_PARTITION(4)
/*@GROUP name=stable_partition_t props=C06,C02 kind=B bound=len<=6 unwind=9 solver=kissat tier=thorough objbits=13 timeout=3000@*/
void h_stable_partition_t(void) B_STABLE_PARTITION(6)
/*@GROUP name=partition_copy props=C06,C02 kind=B bound=len<=4 unwind=7 solver=kissat objbits=12 timeout=600@*/
void h_partition_copy(void) B_PARTITION_COPY(4)
/*@GROUP name=partition_copy_t props=C06,C02 kind=B bound=len<=6 unwind=9 solver=kissat tier=thorough objbits=13 timeout=3000@*/
void h_partition_copy_t(void) B_PARTITION_COPY(6)
/*@GROUP name=sort props=C06,C02 kind=B bound=len<=3 unwind=12 solver=kissat objbits=12 timeout=600@*/
void h_sort(void) B_SORT(3, a_sort, 0, 2, 0)
/*@GROUP name=sort_t props=C06,C02 kind=B bound=len<=4 unwind=19 solver=kissat tier=thorough objbits=13 timeout=3000@*/
void h_sort_t(void) B_SORT(4, a_sort, 0, 2, 0)
/*@GROUP name=sort_mod3 props=C06,C02 kind=B bound=len<=3,values_in_[-4,4] unwind=12 solver=kissat objbits=12 timeout=600@*/
void h_sort_mod3(void) B_SORT(3, a_sort, 3, 3, 0)
/*@GROUP name=sort_mod3_t props=C06,C02 kind=B bound=len<=4,values_in_[-4,4] unwind=19 solver=kissat tier=thorough objbits=13 timeout=3000@*/
void h_sort_mod3_t(void) B_SORT(4, a_sort, 3, 3, 0)
/*@GROUP name=gnome_sort props=C06,C02 kind=B bound=len<=3 unwind=12 solver=kissat objbits=12 timeout=600@*/
void h_gnome_sort(void) B_SORT(3, a_gnome_sort, 0, 2, 0)
/*@GROUP name=gnome_sort_t props=C06,C02 kind=B bound=len<=4 unwind=19 solver=kissat tier=thorough objbits=13 timeout=3000@*/
void h_gnome_sort_t(void) B_SORT(4, a_gnome_sort, 0, 2, 0)
/*@GROUP name=gnome_sort_bidi props=C06,C02 kind=B bound=len<=3 unwind=12 solver=kissat objbits=12 timeout=600@*/
void h_gnome_sort_bidi(void) B_SORT(3, a_gnome_sort_bidi, 0, 2, 0)
/*@GROUP name=gnome_sort_bidi_t props=C06,C02 kind=B bound=len<=4 unwind=19 solver=kissat tier=thorough objbits=13 timeout=3000@*/
void h_gnome_sort_bidi_t(void) B_SORT(4, a_gnome_sort_bidi, 0, 2, 0)
/*@GROUP name=bubble_sort props=C06,C02 kind=B bound=len<=4 unwind=7 solver=kissat objbits=12 timeout=600@*/
void h_bubble_sort(void) B_SORT(4, a_bubble_sort, 0, 2, 0)
/*@GROUP name=bubble_sort_t props=C06,C02 kind=B bound=len<=6 unwind=9 solver=kissat tier=thorough objbits=13 timeout=3000@*/
void h_bubble_sort_t(void) B_SORT(6, a_bubble_sort, 0, 2, 0)
/*@GROUP name=exchange_sort props=C06,C02 kind=B bound=len<=4 unwind=7 solver=kissat objbits=12 timeout=600@*/
void h_exchange_sort(void) B_SORT(4, a_exchange_sort, 0, 2, 1)
/*@GROUP name=exchange_sort_t props=C06,C02 kind=B bound=len<=6 unwind=9 solver=kissat tier=thorough objbits=13 timeout=3000@*/
void h_exchange_sort_t(void) B_SORT(6, a_exchange_sort, 0, 2, 1)
/*@GROUP name=partial_sort props=C06,C02 kind=B bound=len<=3 unwind=12 solver=kissat objbits=12 timeout=600@*/
void h_partial_sort(void) B_PARTIAL_SORT(3, 0, 2)
/*@GROUP name=partial_sort_t props=C06,C02 kind=B bound=len<=4 unwind=19 solver=kissat tier=thorough objbits=13 timeout=3000@*/
void h_partial_sort_t(void) B_PARTIAL_SORT(4, 0, 2)
/*@GROUP name=nth_element props=C06,C02 kind=B bound=len<=3 unwind=12 solver=kissat objbits=12 timeout=600@*/
void h_nth_element(void) B_NTH_ELEMENT(3, 0, 2)
/*@GROUP name=nth_element_t props=C06,C02 kind=B bound=len<=4 unwind=19 solver=kissat tier=thorough objbits=13 timeout=3000@*/
void h_nth_element_t(void) B_NTH_ELEMENT(4, 0, 2)
/*@GROUP name=stable_sort props=C06,C02 kind=B bound=len<=4 unwind=7 solver=kissat objbits=12 timeout=600@*/
void h_stable_sort(void) B_STABLE_SORT(4, a_stable_sort, 0, 2)
/*@GROUP name=stable_sort_t props=C06,C02 kind=B bound=len<=6 unwind=9 solver=kissat tier=thorough objbits=13 timeout=3000@*/
void h_stable_sort_t(void) B_STABLE_SORT(6, a_stable_sort, 0, 2)
/*@GROUP name=stable_sort_mod3 props=C06,C02 kind=B bound=len<=4,values_in_[-4,4] unwind=7 solver=kissat objbits=12 timeout=600@*/
void h_stable_sort_mod3(void) B_STABLE_SORT(4, a_stable_sort, 3, 3)
/*@GROUP name=stable_sort_mod3_t props=C06,C02 kind=B bound=len<=6,values_in_[-4,4] unwind=9 solver=kissat tier=thorough objbits=13 timeout=3000@*/
void h_stable_sort_mod3_t(void) B_STABLE_SORT(6, a_stable_sort, 3, 3)
/*@GROUP name=insertion_sort props=C06,C02 kind=B bound=len<=4 unwind=7 solver=kissat objbits=12 timeout=600@*/
void h_insertion_sort(void) B_STABLE_SORT(4, a_insertion_sort, 0, 2)
/*@GROUP name=insertion_sort_t props=C06,C02 kind=B bound=len<=6 unwind=9 solver=kissat tier=thorough objbits=13 timeout=3000@*/
void h_insertion_sort_t(void) B_STABLE_SORT(6, a_insertion_sort, 0, 2)
/*@GROUP name=merge_sort props=C06,C02 kind=B bound=len<=3 unwind=6 solver=kissat objbits=12 timeout=600@*/
void h_merge_sort(void) B_STABLE_SORT_T(3, a_merge_sort, 0, 2)
/*@GROUP name=merge_sort_t props=C06,C02 kind=B bound=len<=5 unwind=8 solver=kissat tier=thorough objbits=13 timeout=3000@*/
void h_merge_sort_t(void) B_STABLE_SORT_T(5, a_merge_sort, 0, 2)
/*@GROUP name=stable_sort_int props=C06,C02 kind=B bound=len<=4 unwind=7 solver=kissat objbits=12 timeout=600@*/
void h_stable_sort_int(void) B_SORT_DEFAULT(4, a_stable_sort_int)
/*@GROUP name=stable_sort_int_t props=C06,C02 kind=B bound=len<=6 unwind=9 solver=kissat tier=thorough objbits=13 timeout=3000@*/
void h_stable_sort_int_t(void) B_SORT_DEFAULT(6, a_stable_sort_int)
/*@GROUP name=insertion_sort_int props=C06,C02 kind=B bound=len<=4 unwind=7 solver=kissat objbits=12 timeout=600@*/
void h_insertion_sort_int(void) B_SORT_DEFAULT(4, a_insertion_sort_int)
/*@GROUP name=insertion_sort_int_t props=C06,C02 kind=B bound=len<=6 unwind=9 solver=kissat tier=thorough objbits=13 timeout=3000@*/
void h_insertion_sort_int_t(void) B_SORT_DEFAULT(6, a_insertion_sort_int)
/*@GROUP name=merge_sort_int props=C06,C02 kind=B bound=len<=4 unwind=7 solver=kissat objbits=12 timeout=600@*/
void h_merge_sort_int(void) B_SORT_DEFAULT(4, a_merge_sort_int)
/*@GROUP name=merge_sort_int_t props=C06,C02 kind=B bound=len<=6 unwind=9 solver=kissat tier=thorough objbits=13 timeout=3000@*/
void h_merge_sort_int_t(void) B_SORT_DEFAULT(6, a_merge_sort_int)
/*@GROUP name=is_permutation3 props=C06,C02 kind=B bound=len<=4 unwind=7 solver=kissat objbits=12 timeout=600@*/
void h_is_permutation3(void) B_IS_PERMUTATION3(4)
/*@GROUP name=is_permutation3_t props=C06,C02 kind=B bound=len<=6 unwind=9 solver=kissat tier=thorough objbits=13 timeout=3000@*/
void h_is_permutation3_t(void) B_IS_PERMUTATION3(6)
/*@GROUP name=is_permutation4 props=C06,C02 kind=B bound=len<=4 unwind=7 solver=kissat objbits=12 timeout=600@*/
void h_is_permutation4(void) B_IS_PERMUTATION4(4, a_is_permutation4, (void)0)
/*@GROUP name=is_permutation4_t props=C06,C02 kind=B bound=len<=6 unwind=9 solver=kissat tier=thorough objbits=13 timeout=3000@*/
void h_is_permutation4_t(void) B_IS_PERMUTATION4(6, a_is_permutation4, (void)0)
/*@GROUP name=is_permutation4_fwd props=C06,C02 kind=B bound=len<=4 unwind=7 solver=kissat objbits=12 timeout=600@*/
void h_is_permutation4_fwd(void) B_IS_PERMUTATION4(4, a_is_permutation4_fwd, VF_KNOWN(C06_is_permutation4_forward_length, n != n2))
/*@GROUP name=is_permutation4_fwd_t props=C06,C02 kind=B bound=len<=6 unwind=9 solver=kissat tier=thorough objbits=13 timeout=3000@*/
void h_is_permutation4_fwd_t(void) B_IS_PERMUTATION4(6, a_is_permutation4_fwd, VF_KNOWN(C06_is_permutation4_forward_length, n != n2))
/*@GROUP name=search props=C06,C02 kind=B bound=len<=4,needle<=4 unwind=7 solver=kissat objbits=12 timeout=600@*/
void h_search(void) B_SEARCH(4, a_search, 0, 2)
/*@GROUP name=search_t props=C06,C02 kind=B bound=len<=6,needle<=6 unwind=9 solver=kissat tier=thorough objbits=13 timeout=3000@*/
void h_search_t(void) B_SEARCH(6, a_search, 0, 2)
/*@GROUP name=search_fwd props=C06,C02 kind=B bound=len<=4,needle<=4 unwind=7 solver=kissat objbits=12 timeout=600@*/
void h_search_fwd(void) B_SEARCH(4, a_search_fwd, 0, 2)
/*@GROUP name=search_fwd_t props=C06,C02 kind=B bound=len<=6,needle<=6 unwind=9 solver=kissat tier=thorough objbits=14 timeout=3000@*/
void h_search_fwd_t(void) B_SEARCH(6, a_search_fwd, 0, 2)
/*@GROUP name=find_end props=C06,C02 kind=B bound=len<=4,needle<=4 unwind=7 solver=kissat objbits=12 timeout=600@*/
void h_find_end(void) B_FIND_END(4, 0, 2)
/*@GROUP name=find_end_t props=C06,C02 kind=B bound=len<=6,needle<=6 unwind=9 solver=kissat tier=thorough objbits=13 timeout=3000@*/
void h_find_end_t(void) B_FIND_END(6, 0, 2)
/*@GROUP name=search_n props=C06,C02 kind=B bound=len<=4,count_in_[-1,len+1] unwind=7 solver=kissat objbits=12 timeout=600@*/
void h_search_n(void) B_SEARCH_N(4, 0, 2, VF_KNOWN(C06_search_n_broken_run, s > 0 && idx < n && fm != idx))
/*@GROUP name=search_n_t props=C06,C02 kind=B bound=len<=6,count_in_[-1,len+1] unwind=9 solver=kissat tier=thorough objbits=13 timeout=3000@*/
void h_search_n_t(void) B_SEARCH_N(6, 0, 2, VF_KNOWN(C06_search_n_broken_run, s > 0 && idx < n && fm != idx))
/*@GROUP name=find_first_of props=C06,C02 kind=B bound=len<=4,needle<=4 unwind=7 solver=kissat objbits=12 timeout=600@*/
void h_find_first_of(void) B_FIND_FIRST_OF(4, 0, 2)
/*@GROUP name=find_first_of_t props=C06,C02 kind=B bound=len<=6,needle<=6 unwind=9 solver=kissat tier=thorough objbits=13 timeout=3000@*/
void h_find_first_of_t(void) B_FIND_FIRST_OF(6, 0, 2)
/*@GROUP name=includes props=C06,C02 kind=B bound=len1<=4,len2<=4 unwind=11 solver=kissat objbits=12 timeout=600@*/
void h_includes(void) B_INCLUDES(4, 0, 3)
/*@GROUP name=includes_t props=C06,C02 kind=B bound=len1<=6,len2<=6 unwind=15 solver=kissat tier=thorough objbits=13 timeout=3000@*/
void h_includes_t(void) B_INCLUDES(6, 0, 3)
/*@GROUP name=merge props=C06,C02 kind=B bound=len1<=3,len2<=3 unwind=9 solver=kissat objbits=12 timeout=600@*/
void h_merge(void) B_MERGE(3, a_merge(a, a + na, b, b + nb, d, c), 0, 2)
/*@GROUP name=merge_t props=C06,C02 kind=B bound=len1<=5,len2<=5 unwind=13 solver=kissat tier=thorough objbits=13 timeout=3000@*/
void h_merge_t(void) B_MERGE(5, a_merge(a, a + na, b, b + nb, d, c), 0, 2)
/*@GROUP name=merge_mod3 props=C06,C02 kind=B bound=len1<=3,len2<=3,values_in_[-4,4] unwind=9 solver=kissat objbits=12 timeout=600@*/
void h_merge_mod3(void) B_MERGE(3, a_merge(a, a + na, b, b + nb, d, c), 3, 3)
/*@GROUP name=merge_mod3_t props=C06,C02 kind=B bound=len1<=5,len2<=5,values_in_[-4,4] unwind=13 solver=kissat tier=thorough objbits=13 timeout=3000@*/
void h_merge_mod3_t(void) B_MERGE(5, a_merge(a, a + na, b, b + nb, d, c), 3, 3)
/*@GROUP name=merge_int props=C06,C02 kind=B bound=len1<=4,len2<=4 unwind=11 solver=kissat objbits=12 timeout=600@*/
void h_merge_int(void) B_MERGE(4, a_merge_int(a, a + na, b, b + nb, d), 4, 4)
/*@GROUP name=merge_int_t props=C06,C02 kind=B bound=len1<=6,len2<=6 unwind=15 solver=kissat tier=thorough objbits=13 timeout=3000@*/
void h_merge_int_t(void) B_MERGE(6, a_merge_int(a, a + na, b, b + nb, d), 4, 4)
/*@GROUP name=merge_fwd props=C06,C02 kind=B bound=len1<=4,len2<=4 unwind=11 solver=kissat objbits=12 timeout=600@*/
void h_merge_fwd(void) B_MERGE(4, a_merge_fwd(a, a + na, b, b + nb, d), 4, 4)
/*@GROUP name=merge_fwd_t props=C06,C02 kind=B bound=len1<=6,len2<=6 unwind=15 solver=kissat tier=thorough objbits=13 timeout=3000@*/
void h_merge_fwd_t(void) B_MERGE(6, a_merge_fwd(a, a + na, b, b + nb, d), 4, 4)
/*@GROUP name=inplace_merge props=C06,C02 kind=B bound=len<=3 unwind=9 solver=kissat objbits=12 timeout=600@*/
void h_inplace_merge(void) B_INPLACE_MERGE(3, a_inplace_merge(a, a + m, a + n, c), 0, 2)
/*@GROUP name=inplace_merge_t props=C06,C02 kind=B bound=len<=5 unwind=13 solver=kissat tier=thorough objbits=13 timeout=3000@*/
void h_inplace_merge_t(void) B_INPLACE_MERGE(5, a_inplace_merge(a, a + m, a + n, c), 0, 2)
/*@GROUP name=inplace_merge_int props=C06,C02 kind=B bound=len<=4 unwind=11 solver=kissat objbits=12 timeout=600@*/
void h_inplace_merge_int(void) B_INPLACE_MERGE(4, a_inplace_merge_int(a, a + m, a + n), 4, 4)
/*@GROUP name=inplace_merge_int_t props=C06,C02 kind=B bound=len<=6 unwind=15 solver=kissat tier=thorough objbits=13 timeout=3000@*/
void h_inplace_merge_int_t(void) B_INPLACE_MERGE(6, a_inplace_merge_int(a, a + m, a + n), 4, 4)
/*@GROUP name=set_union props=C06,C02 kind=B bound=len1<=3,len2<=3 unwind=9 solver=kissat objbits=12 timeout=600@*/
void h_set_union(void) B_SETOP(3, OP_UNION, a_set_union(a, a + na, b, b + nb, d, c), "set_union", 0, 2)
/*@GROUP name=set_union_t props=C06,C02 kind=B bound=len1<=5,len2<=5 unwind=13 solver=kissat tier=thorough objbits=13 timeout=3000@*/
void h_set_union_t(void) B_SETOP(5, OP_UNION, a_set_union(a, a + na, b, b + nb, d, c), "set_union", 0, 2)
/*@GROUP name=set_union_int props=C06,C02 kind=B bound=len1<=4,len2<=4 unwind=11 solver=kissat objbits=12 timeout=600@*/
void h_set_union_int(void) B_SETOP(4, OP_UNION, a_set_ops_int(0, a, a + na, b, b + nb, d), "set_union", 4, 4)
/*@GROUP name=set_union_int_t props=C06,C02 kind=B bound=len1<=6,len2<=6 unwind=15 solver=kissat tier=thorough objbits=13 timeout=3000@*/
void h_set_union_int_t(void) B_SETOP(6, OP_UNION, a_set_ops_int(0, a, a + na, b, b + nb, d), "set_union", 4, 4)
/*@GROUP name=set_intersection props=C06,C02 kind=B bound=len1<=3,len2<=3 unwind=9 solver=kissat objbits=12 timeout=600@*/
void h_set_intersection(void) B_SETOP(3, OP_INTER, a_set_intersection(a, a + na, b, b + nb, d, c), "set_intersection", 0, 2)
/*@GROUP name=set_intersection_t props=C06,C02 kind=B bound=len1<=5,len2<=5 unwind=13 solver=kissat tier=thorough objbits=13 timeout=3000@*/
void h_set_intersection_t(void) B_SETOP(5, OP_INTER, a_set_intersection(a, a + na, b, b + nb, d, c), "set_intersection", 0, 2)
/*@GROUP name=set_intersection_int props=C06,C02 kind=B bound=len1<=4,len2<=4 unwind=11 solver=kissat objbits=12 timeout=600@*/
void h_set_intersection_int(void) B_SETOP(4, OP_INTER, a_set_ops_int(1, a, a + na, b, b + nb, d), "set_intersection", 4, 4)
/*@GROUP name=set_intersection_int_t props=C06,C02 kind=B bound=len1<=6,len2<=6 unwind=15 solver=kissat tier=thorough objbits=13 timeout=3000@*/
void h_set_intersection_int_t(void) B_SETOP(6, OP_INTER, a_set_ops_int(1, a, a + na, b, b + nb, d), "set_intersection", 4, 4)
/*@GROUP name=set_difference props=C06,C02 kind=B bound=len1<=3,len2<=3 unwind=9 solver=kissat objbits=12 timeout=600@*/
void h_set_difference(void) B_SETOP(3, OP_DIFF, a_set_difference(a, a + na, b, b + nb, d, c), "set_difference", 0, 2)
/*@GROUP name=set_difference_t props=C06,C02 kind=B bound=len1<=5,len2<=5 unwind=13 solver=kissat tier=thorough objbits=13 timeout=3000@*/
void h_set_difference_t(void) B_SETOP(5, OP_DIFF, a_set_difference(a, a + na, b, b + nb, d, c), "set_difference", 0, 2)
/*@GROUP name=set_difference_int props=C06,C02 kind=B bound=len1<=4,len2<=4 unwind=11 solver=kissat objbits=12 timeout=600@*/
void h_set_difference_int(void) B_SETOP(4, OP_DIFF, a_set_ops_int(2, a, a + na, b, b + nb, d), "set_difference", 4, 4)
/*@GROUP name=set_difference_int_t props=C06,C02 kind=B bound=len1<=6,len2<=6 unwind=15 solver=kissat tier=thorough objbits=13 timeout=3000@*/
void h_set_difference_int_t(void) B_SETOP(6, OP_DIFF, a_set_ops_int(2, a, a + na, b, b + nb, d), "set_difference", 4, 4)
/*@GROUP name=set_symmetric_difference props=C06,C02 kind=B bound=len1<=3,len2<=3 unwind=9 solver=kissat objbits=12 timeout=600@*/
void h_set_symmetric_difference(void) B_SETOP(3, OP_SYM, a_set_symmetric_difference(a, a + na, b, b + nb, d, c), "set_symmetric_difference", 0, 2)
/*@GROUP name=set_symmetric_difference_t props=C06,C02 kind=B bound=len1<=5,len2<=5 unwind=13 solver=kissat tier=thorough objbits=13 timeout=3000@*/
void h_set_symmetric_difference_t(void) B_SETOP(5, OP_SYM, a_set_symmetric_difference(a, a + na, b, b + nb, d, c), "set_symmetric_difference", 0, 2)
/*@GROUP name=set_symmetric_difference_int props=C06,C02 kind=B bound=len1<=4,len2<=4 unwind=11 solver=kissat objbits=12 timeout=600@*/
void h_set_symmetric_difference_int(void) B_SETOP(4, OP_SYM, a_set_ops_int(3, a, a + na, b, b + nb, d), "set_symmetric_difference", 4, 4)
/*@GROUP name=set_symmetric_difference_int_t props=C06,C02 kind=B bound=len1<=6,len2<=6 unwind=15 solver=kissat tier=thorough objbits=13 timeout=3000@*/
void h_set_symmetric_difference_int_t(void) B_SETOP(6, OP_SYM, a_set_ops_int(3, a, a + na, b, b + nb, d), "set_symmetric_difference", 4, 4)
/*@GROUP name=set_ops_mod3 props=C06,C02 kind=B bound=len1<=3,len2<=3,values_in_[-4,4] unwind=9 solver=kissat objbits=12 timeout=600@*/
void h_set_ops_mod3(void) B_SETOP(3, OP_SYM, a_set_symmetric_difference(a, a + na, b, b + nb, d, c), "set_symmetric_difference", 3, 3)
/*@GROUP name=set_ops_mod3_t props=C06,C02 kind=B bound=len1<=5,len2<=5,values_in_[-4,4] unwind=13 solver=kissat tier=thorough objbits=13 timeout=3000@*/
void h_set_ops_mod3_t(void) B_SETOP(5, OP_SYM, a_set_symmetric_difference(a, a + na, b, b + nb, d, c), "set_symmetric_difference", 3, 3)
/*@GROUP name=transform_reduce props=C06,C02 kind=B bound=len<=4 unwind=7 solver=kissat objbits=12 timeout=600@*/
void h_transform_reduce(void) B_TRANSFORM_REDUCE(4)
/*@GROUP name=transform_reduce_t props=C06,C02 kind=B bound=len<=6 unwind=9 solver=kissat tier=thorough objbits=13 timeout=3000@*/
void h_transform_reduce_t(void) B_TRANSFORM_REDUCE(6)

/* ============================================================ iterator adaptors ===============================================
 * Positions are symbolic inside one 8-element array (pointer arithmetic does not depend on the array size); the adaptor code on int* is
 * loop-free (kind F); the wrapper-iterator instantiations of advance/next/prev/distance loop |n| <= 8 times (kind B). */
/*@COMMON@*/
typedef struct etl_static_vector_int_4 V4;
#define V4SZ(v) ((v).b0._size)
#define V4EL(v, i) ((v).b0._data._buf[i])
#define POS(i) VF_INPUT(unsigned char, i); VF_ASSUME(i <= 8)
#define B_FRONT_COPY(C) { VF_INPUT(struct vf_front_box, b); LEN(c, C); IN(int, s, 4); VF_ASSUME(V4SZ(b.v) <= 4 && V4SZ(b.v) + c <= 4); V4 o = b.v; int n0 = V4SZ(b.v); \
  SPLIT(c, C) SPLIT(n0, 4) { MK(int, s, c, 4); i_front_copy(&b, s, s + c); \
    VF_ASSERT(V4SZ(b.v) == n0 + c, "copy(first, last, front_inserter(c)) prepends last - first elements"); \
    FORK(k, 4, n0 + c) VF_ASSERT(V4EL(b.v, k) == (k < c ? s_in[c - 1 - k] : V4EL(o, k - c)), "copy(first, last, front_inserter(c)): the source range reversed, then the old elements"); } \
  VF_REACH(); }

/*@GROUP name=reverse_iterator props=C06,C02 kind=F unwind=2 timeout=600@*/
void h_reverse_iterator(void) { VF_INPUT_ARR(int, a, 8); POS(i); POS(j); VF_INPUT(signed char, d); int *p = a + i, *q = a + j, *res;
  VF_ASSERT(ri_base(p) == p && ri_make(p) == p && ri_convert(p) == p && ri_convert_assign(p, q) == p, "reverse_iterator(x).base() == x; make_reverse_iterator; converting construction / assignment copy base()");
  VF_ASSERT(ri_default_base() == 0, "reverse_iterator() value-initialises current");
  if (i >= 1) { VF_ASSERT(ri_deref(p) == p - 1 && ri_arrow(p) == p - 1, "*r and r.operator->() address *(current - 1)"); }
  if (i >= 1) { VF_ASSERT(ri_preinc(p, &res) == p - 1 && res == p - 1, "++r decrements current and returns *this"); VF_ASSERT(ri_postinc(p, &res) == p - 1 && res == p, "r++ decrements current and returns the old value"); }
  if (i <= 7) { VF_ASSERT(ri_predec(p, &res) == p + 1 && res == p + 1, "--r increments current and returns *this"); VF_ASSERT(ri_postdec(p, &res) == p + 1 && res == p, "r-- increments current and returns the old value"); }
  if (d <= i && i - d <= 8) { VF_ASSERT(ri_plus(p, d) == p - d && ri_plus_l(p, d) == p - d && ri_plus_eq(p, d) == p - d, "r + n, n + r, r += n: current - n"); }
  if (-d <= i && i + d <= 8) { VF_ASSERT(ri_minus(p, d) == p + d && ri_minus_eq(p, d) == p + d, "r - n, r -= n: current + n"); }
  if (d + 1 <= i && i - d - 1 <= 7) { VF_ASSERT(ri_index(p, d) == p - d - 1, "r[n] is *(current - n - 1)"); }
  VF_ASSERT(ri_diff(p, q) == j - i, "r1 - r2 == r2.base() - r1.base()");
  VF_REACH(); }

/*@GROUP name=reverse_iterator_cmp props=C06,C02 kind=F unwind=2 timeout=600@*/
void h_reverse_iterator_cmp(void) { VF_INPUT_ARR(int, a, 8); POS(i); POS(j); int *p = a + i, *q = a + j;
  VF_KNOWN(C06_reverse_iterator_relational, i != j);
  unsigned r = ri_cmp(p, q);
  VF_ASSERT(((r & 1u) != 0) == (i == j) && ((r & 2u) != 0) == (i != j), "reverse_iterator ==, != compare base()");
  VF_ASSERT(((r & 4u) != 0) == (i > j) && ((r & 8u) != 0) == (i >= j) && ((r & 16u) != 0) == (i < j) && ((r & 32u) != 0) == (i <= j), "[reverse.iter.cmp]: x < y iff x.base() > y.base(), x <= y iff x.base() >= y.base(), x > y iff x.base() < y.base(), x >= y iff x.base() <= y.base()");
  VF_REACH(); }

/*@GROUP name=reverse_iterator_copy props=C06,C02 kind=B bound=len<=6 unwind=9 timeout=600@*/
void h_reverse_iterator_copy(void) { LEN(n, 6); IN(int, a, 6);
  SPLIT(n, 6) { MK(int, a, n, 6); OUT(int, d, n);
    int *r = ri_copy(a, a + n, d);
    VF_ASSERT(r == d + n, "copy(rbegin, rend, out) returns out + n");
    FORK(k, 6, n) VF_ASSERT(d[k] == a_in[n - 1 - k], "a range of reverse_iterators traverses the elements backwards"); }
  VF_REACH(); }

/*@GROUP name=back_insert_iterator props=C06,C02,C05 kind=K unwind=7 timeout=600@*/
void h_back_insert_iterator(void) { VF_INPUT(V4, v); VF_INPUT(int, x); VF_INPUT(unsigned char, which); LEN(c, 4); IN(int, s, 4); VF_ASSUME(V4SZ(v) <= 4); V4 o = v; unsigned n0 = V4SZ(v);
  if (which <= 1) { VF_ASSUME(n0 < 4); if (which == 0) i_back_insert(&v, &x); else i_back_insert_rv(&v, x);
    VF_ASSERT(V4SZ(v) == n0 + 1 && V4EL(v, n0) == x, "*it = x (copy and move overload) is c.push_back(x); *it, ++it, it++ are no-ops");
    FORK(k, 4, n0) VF_ASSERT(V4EL(v, k) == V4EL(o, k), "back_insert_iterator keeps the existing elements"); }
  else { VF_ASSUME(n0 + c <= 4); SPLIT(c, 4) { MK(int, s, c, 4); i_back_copy(&v, s, s + c);
    VF_ASSERT(V4SZ(v) == n0 + c, "copy(first, last, back_inserter(c)) appends last - first elements");
    FORK(k, 4, n0 + c) VF_ASSERT(V4EL(v, k) == (k < (int)n0 ? V4EL(o, k) : s_in[k - n0]), "copy(first, last, back_inserter(c)): old elements, then the source range in order"); } }
  VF_REACH(); }

/*@GROUP name=front_insert_iterator props=C06,C02,C05 kind=K unwind=7 solver=kissat timeout=600@*/
void h_front_insert_iterator(void) { VF_INPUT(struct vf_front_box, b); VF_INPUT(int, x); VF_INPUT(unsigned char, which); VF_ASSUME(which <= 1 && V4SZ(b.v) < 4); V4 o = b.v; int n0 = V4SZ(b.v);
  SPLIT(which, 1) SPLIT(n0, 3) { if (which == 0) i_front_insert(&b, &x); else i_front_insert_rv(&b, x);
    VF_ASSERT(V4SZ(b.v) == n0 + 1 && V4EL(b.v, 0) == x, "*it = x (copy and move overload) is c.push_front(x); *it, ++it, it++ are no-ops");
    FORK(k, 4, n0) VF_ASSERT(V4EL(b.v, k + 1) == V4EL(o, k), "front_insert_iterator keeps the existing elements behind the new one"); }
  VF_REACH(); }

/*@GROUP name=front_insert_copy props=C06,C02,C05 kind=B bound=count<=2 unwind=7 solver=kissat objbits=13 timeout=900@*/
void h_front_insert_copy(void) B_FRONT_COPY(2)
/*@GROUP name=front_insert_copy_t props=C06,C02,C05 kind=K unwind=7 solver=kissat objbits=13 timeout=3000 tier=thorough@*/
void h_front_insert_copy_t(void) B_FRONT_COPY(4)

/*@GROUP name=iter_ops_ptr props=C06,C02 kind=F unwind=2 timeout=600@*/
void h_iter_ops_ptr(void) { VF_INPUT_ARR(int, a, 8); POS(i); POS(j); VF_INPUT(signed char, d); int *p = a + i, *q = a + j;
  if (-d <= i && i + d <= 8) { VF_ASSERT(it_next(p, d) == p + d && it_advance(p, d) == p + d && it_advance_int(p, d) == p + d, "next(it, n) / advance(it, n) on a random access iterator: it + n (n may be negative)"); }
  if (d <= i && i - d <= 8) { VF_ASSERT(it_prev(p, d) == p - d, "prev(it, n) == it - n"); }
  if (i <= 7) { VF_ASSERT(it_next1(p) == p + 1, "next(it) == it + 1"); }
  if (i >= 1) { VF_ASSERT(it_prev1(p) == p - 1, "prev(it) == it - 1"); }
  VF_ASSERT(it_distance(p, q) == j - i, "distance(first, last) == last - first for random access iterators (may be negative)");
  VF_REACH(); }

/*@GROUP name=iter_ops_wrapped props=C06,C02 kind=B bound=|n|<=8 unwind=11 timeout=600@*/
void h_iter_ops_wrapped(void) { VF_INPUT_ARR(int, a, 8); POS(i); POS(j); VF_INPUT(signed char, d); int *p = a + i, *q = a + j;
  if (d >= 0 && i + d <= 8) { VF_ASSERT(it_next_fwd(p, d) == p + d && it_advance_fwd(p, d) == p + d, "next / advance on a forward iterator: n increments"); }
  if (-d <= i && i + d <= 8) { VF_ASSERT(it_next_bidi(p, d) == p + d && it_advance_bidi(p, d) == p + d, "next / advance on a bidirectional iterator: n increments or -n decrements"); }
  if (d <= i && i - d <= 8) { VF_ASSERT(it_prev_bidi(p, d) == p - d, "prev on a bidirectional iterator: n decrements or -n increments"); }
  if (i <= j) { VF_ASSERT(it_distance_fwd(p, q) == j - i && it_distance_bidi(p, q) == j - i, "distance(first, last): number of increments from first to last"); }
  VF_REACH(); }
