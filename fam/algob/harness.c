/* algob: the BOUNDED (kind B) part of C06 — algorithms whose invariants are permutation- or nested-loop-shaped, the numeric
 * transform_reduce, and the iterator adaptors.  Every sequence up to length L (see bound= of each group; the length, every split point
 * and every count are symbolic), ALL element values symbolic over int (except the a % 3 comparator groups, see WIN), full unwinding.
 * Postconditions are the [alg.*] clauses: a closed form where one exists (rotate, shift, merge, inplace_merge: the final position of
 * every element; sorts: sorted + permutation via a ghost value or element tags + stability), a plain reference loop otherwise (search
 * family, includes, set operations).  Element identity (stability, "taken from range 1") is observed through a {key,tag} struct
 * (stable_sort, insertion_sort) or through tagged ints (key = x >> 4, tag = x & 15; merges, set operations, stable_partition, merge_sort).
 * Single-range algorithms run on exact-fit heap objects (SPLIT / MK); two-range algorithms on start-aligned blocks (EMK / TAIL).
 * The body of every harness is a macro B_<NAME>(L, ...) so that the quick group and its tier=thorough twin share one text.
 * solver=kissat everywhere: MiniSat needs minutes (or 30+ GB) on these permutation-shaped instances.
 * Second wave (end of the file): hm_* groups = the moving / permuting algorithms over the move-sensitive element type vf::Hm, ip_* groups =
 * every predicate / comparator taking algorithm with callables returning int (truthy 2, 0x100, INT_MIN). */
#include "vf_handler.h"
typedef unsigned long ul;
typedef struct vf_kt KT;
/* Buffers.  VF_BUF (one heap object of symbolic size) is not usable here: with in-place writes through pointers CBMC's formula for a
 * symbolic-size object explodes (34 GB for rotate, len<=4).  Instead every harness declares its inputs first (IN / KTIN), then
 * SPLITs on each symbolic length: `SPLIT(n, L) { ... }` runs the block once with `n` shadowed by a loop constant equal to the input
 * n, so that symbolic execution sees constant-size exact-fit objects (MK / OUT: a one-past access is still an out-of-bounds failure)
 * and concrete range ends.  All lengths 0..L are covered by the L+1 unwound iterations. */
#define IN(T, name, MAX) VF_INPUT_ARR(T, name##_in, (MAX) + 1)
/* {key,tag} input: keys symbolic, tag = TAG0 + index (element identity) */
#define KTIN(name, MAX, TAG0) VF_INPUT_ARR(KT, name##_in, (MAX) + 1); for (int vf_i_##name = 0; vf_i_##name <= (MAX); ++vf_i_##name) name##_in[vf_i_##name].tag = (TAG0) + vf_i_##name
/* tagged int input (see driver.cpp): key = x >> 4 symbolic over the full 28-bit range, tag = x & 15 = TAG0 + index (element identity) */
#define TIN(name, MAX, TAG0) VF_INPUT_ARR(int, name##_in, (MAX) + 1); for (int vf_i_##name = 0; vf_i_##name <= (MAX); ++vf_i_##name) name##_in[vf_i_##name] = (int)(((unsigned)name##_in[vf_i_##name] & ~15u) | (unsigned)((TAG0) + vf_i_##name))
#define KEY(x) ((x) >> 4)
#define TAG(x) ((x) & 15)
#define SPLIT(n, L) for (int vf_c_##n = 0; vf_c_##n <= (L); ++vf_c_##n) if (vf_c_##n == (int)(n)) for (int vf_once_##n = 1, n = vf_c_##n; vf_once_##n; vf_once_##n = 0)
/* exact-size heap copy of name_in[0..n) (n: a SPLIT constant) */
#define MK(T, name, n, MAX) T *name = (T *)VF_ALLOC((ul)(n) * sizeof(T)); for (int vf_i_##name = 0; vf_i_##name < (MAX); ++vf_i_##name) if (vf_i_##name < (n)) name[vf_i_##name] = name##_in[vf_i_##name]
/* output buffer of exactly n elements (n: a SPLIT constant), contents indeterminate */
#define OUT(T, name, n) T *name = (T *)VF_ALLOC((ul)(n) * sizeof(T))
/* Two-range algorithms: (L+1)^2 SPLIT branches are too expensive, and so is a symbolic placement of the ranges inside larger blocks.
 * They use one block of MAX elements per range with the range [name, name+n) at the START of the block: an access before first is an
 * out-of-bounds failure; the tail [n, MAX) holds further symbolic input values, must be unchanged after the call (TAIL: nothing behind
 * last is written) and a read behind last yields an arbitrary value (so it shows up in the postcondition if it matters at all). */
#define EMK(T, name, n, MAX) T *name = (T *)VF_ALLOC((MAX) * sizeof(T)); for (int vf_i_##name = 0; vf_i_##name < (MAX); ++vf_i_##name) name[vf_i_##name] = name##_in[vf_i_##name]
#define EOUT(T, name, MAX) VF_INPUT_ARR(T, name##_in, (MAX) + 1); EMK(T, name, 0, MAX)
#define TAIL(name, n, MAX, EQ) for (int vf_t = 0; vf_t < (MAX); ++vf_t) if (vf_t >= (n)) VF_ASSERT(EQ(name[vf_t], name##_in[vf_t]), "nothing behind the end of the range is written")
#define IEQ(x, y) ((x) == (y))
#define LEN(n, L) VF_INPUT(unsigned char, n); VF_ASSUME(n <= (L))
/* selector of a comparator / predicate (see driver.cpp): symbolic in [LO, HI] */
#define SEL(c, LO, HI) VF_INPUT(unsigned char, c); VF_ASSUME(c >= (LO) && c <= (HI))
/* the a % 3 comparator (c == 3) / predicate (p == 2) puts a 32-bit divider on every operand: those groups take their values from the
 * window [-4, 4] (all remainders -2..2, equivalent-but-different values); every other comparator sees the full int range */
#define WIN(on, arr, L, KEY) if (on) for (int vf_w = 0; vf_w <= (L); ++vf_w) VF_ASSUME(arr[vf_w] KEY >= -4 && arr[vf_w] KEY <= 4)
#define FORK(k, L, n) for (int k = 0; k < (L); ++k) if (k < (int)(n))
#define KTEQ(x, y) ((x).key == (y).key && (x).tag == (y).tag)

/* the driver's comparators / predicates, restated */
static _Bool lt(int c, int a, int b) { return c == 0 ? a < b : (c == 1 ? a > b : (c == 2 ? (a & 3) < (b & 3) : a % 3 < b % 3)); }
/* comparator on the key of tagged ints; c == 4: operator< on the whole value (the default-comparator overloads) */
static _Bool ltk(int c, int a, int b) { return c == 4 ? a < b : lt(c, KEY(a), KEY(b)); }
static _Bool eqv(int c, int a, int b) { return !lt(c, a, b) && !lt(c, b, a); }
static _Bool peq(int p, int a, int b) { return p == 0 ? a == b : (p == 1 ? (a & 3) == (b & 3) : a % 3 == b % 3); }
static _Bool pred1(int p, int x) { return p == 0 ? (x & 3) == 0 : (p == 1 ? x < 0 : x % 3 == 0); }
#define ASSUME_SORTED(c, a, n, L, KEY) FORK(vf_s, (L) - 1, (int)(n) - 1) VF_ASSUME(!lt(c, a[vf_s + 1] KEY, a[vf_s] KEY))

/* VF_KNOWN must appear textually in the GROUP section (the engine rewrites it there): harness macros take it as the KNOWN argument */
/* ---- rotate / rotate_copy [alg.rotate]: out[k] == in[(k+m) mod n]; returns first + (last - middle) ------------------------- */
#define B_ROTATE(L, CALL) { LEN(n, L); VF_INPUT(unsigned char, m); VF_ASSUME(m <= n); IN(int, a, L); \
  SPLIT(n, L) SPLIT(m, L) { MK(int, a, n, L); \
    int *r = CALL(a, a + m, a + n); \
    VF_ASSERT(r == a + (n - m), "rotate returns first + (last - middle)"); \
    FORK(k, L, n) VF_ASSERT(a[k] == a_in[(k + m) % n], "rotate: out[k] == in[(k + m) mod n]"); } \
  VF_REACH(); }
#define B_ROTATE_COPY(L) { LEN(n, L); VF_INPUT(unsigned char, m); VF_ASSUME(m <= n); IN(int, a, L); \
  SPLIT(n, L) SPLIT(m, L) { MK(int, a, n, L); OUT(int, d, n); \
    int *r = a_rotate_copy(a, a + m, a + n, d); \
    VF_ASSERT(r == d + n, "rotate_copy returns result + (last - first)"); \
    FORK(k, L, n) { VF_ASSERT(d[k] == a_in[(k + m) % n], "rotate_copy: out[k] == in[(k + m) mod n]"); VF_ASSERT(a[k] == a_in[k], "rotate_copy leaves the source unchanged"); } } \
  VF_REACH(); }

/* ---- shift_left / shift_right [alg.shift]; s in [-1, n+1]; s < 0 is documented by tetl as "does nothing" ------------------- */
#define B_SHIFT_LEFT(L, CALL) { LEN(n, L); VF_INPUT(signed char, s); VF_ASSUME(s >= -1 && s <= n + 1); IN(int, a, L); \
  SPLIT(n, L) { MK(int, a, n, L); \
    int *r = CALL(a, a + n, (long)s); \
    if (s <= 0) { VF_ASSERT(r == a + n, "shift_left(n <= 0) returns last"); FORK(k, L, n) VF_ASSERT(a[k] == a_in[k], "shift_left(n <= 0) has no effects"); } \
    else if (s >= n) { VF_ASSERT(r == a, "shift_left(n >= last - first) returns first"); FORK(k, L, n) VF_ASSERT(a[k] == a_in[k], "shift_left(n >= last - first) has no effects"); } \
    else { VF_ASSERT(r == a + (n - s), "shift_left returns first + (last - first - n)"); FORK(k, L, n - s) VF_ASSERT(a[k] == a_in[k + s], "shift_left: element first+n+i is moved to first+i"); } } \
  VF_REACH(); }
#define B_SHIFT_RIGHT(L, CALL, KNOWN) { LEN(n, L); VF_INPUT(signed char, s); VF_ASSUME(s >= -1 && s <= n + 1); IN(int, a, L); \
  SPLIT(n, L) { MK(int, a, n, L); \
    KNOWN; \
    int *r = CALL(a, a + n, (long)s); \
    if (s < 0) { FORK(k, L, n) VF_ASSERT(a[k] == a_in[k], "shift_right(n < 0) has no effects (tetl extension)"); } \
    else if (s == 0) { VF_ASSERT(r == a, "shift_right(0) returns first + n == first"); FORK(k, L, n) VF_ASSERT(a[k] == a_in[k], "shift_right(0) has no effects"); } \
    else if (s >= n) { VF_ASSERT(r == a + n, "shift_right(n >= last - first) returns last"); FORK(k, L, n) VF_ASSERT(a[k] == a_in[k], "shift_right(n >= last - first) has no effects"); } \
    else { VF_ASSERT(r == a + s, "shift_right returns first + n"); FORK(k, L, n - s) VF_ASSERT(a[k + s] == a_in[k], "shift_right: element first+i is moved to first+n+i"); } } \
  VF_REACH(); }

/* ---- partition family [alg.partitions] ------------------------------------------------------------------------------------- */
#define B_PARTITION(L, CALL, CLO, CHI) { LEN(n, L); SEL(p, CLO, CHI); VF_INPUT(int, g); IN(int, a, L); WIN(p == 2, a_in, L, ); \
  SPLITR(p, CLO, CHI) SPLIT(n, L) { MK(int, a, n, L); int cnt = 0, gb = 0, ga = 0; \
    FORK(k, L, n) { cnt += pred1(p, a_in[k]); gb += a_in[k] == g; } \
    int *r = CALL(a, a + n, p); \
    VF_ASSERT(r == a + cnt, "partition returns first + #{elements satisfying pred}"); \
    FORK(k, L, n) { ga += a[k] == g; VF_ASSERT(pred1(p, a[k]) == (k < cnt), "partition: pred holds exactly on [first, ret)"); } \
    VF_ASSERT(ga == gb, "partition permutes: every value occurs as often as before"); } \
  VF_REACH(); }
#define B_STABLE_PARTITION(L) { LEN(n, L); TIN(a, L, 0); \
  SPLIT(n, L) { MK(int, a, n, L); int e[(L) + 1]; int cnt = 0, w = 0; \
    FORK(k, L, n) if ((KEY(a_in[k]) & 3) == 0) { e[w] = a_in[k]; ++w; } cnt = w; \
    FORK(k, L, n) if ((KEY(a_in[k]) & 3) != 0) { e[w] = a_in[k]; ++w; } \
    int *r = a_stable_partition(a, a + n); \
    VF_ASSERT(r == a + cnt, "stable_partition returns first + #{elements satisfying pred}"); \
    FORK(k, L, n) VF_ASSERT(a[k] == e[k], "stable_partition: satisfying elements in their original order, then the others in their original order"); } \
  VF_REACH(); }
#define B_PARTITION_COPY(L) { LEN(n, L); IN(int, a, L); \
  SPLIT(n, L) { MK(int, a, n, L); int cnt = 0, wt = 0, wf = 0; FORK(k, L, n) cnt += (a_in[k] & 3) == 0; \
    SPLIT(cnt, L) if (cnt <= n) { OUT(int, dt, cnt); OUT(int, df, n - cnt); int *rt, *rf; \
      a_partition_copy(a, a + n, dt, df, &rt, &rf); \
      VF_ASSERT(rt == dt + cnt && rf == df + (n - cnt), "partition_copy returns the ends of the two output ranges"); \
      FORK(k, L, n) { VF_ASSERT(a[k] == a_in[k], "partition_copy leaves the source unchanged"); \
        if ((a_in[k] & 3) == 0) { VF_ASSERT(dt[wt] == a_in[k], "partition_copy: satisfying elements to out_true, in order"); ++wt; } \
        else { VF_ASSERT(df[wf] == a_in[k], "partition_copy: other elements to out_false, in order"); ++wf; } } } } \
  VF_REACH(); }

/* ---- sorting [alg.sort]: sorted + permutation (count of a ghost value g unchanged: sound for all values) -------------------- */
#define PERM_G(L, n) { int gb = 0, ga = 0; FORK(k, L, n) { gb += a_in[k] == g; ga += a[k] == g; } VF_ASSERT(ga == gb, "permutation: every value occurs as often as before"); }
#define B_SORT(L, CALL, CLO, CHI, NMIN) { LEN(n, L); VF_ASSUME(n >= (NMIN)); SEL(c, CLO, CHI); VF_INPUT(int, g); IN(int, a, L); WIN(c == 3, a_in, L, ); \
  SPLITR(c, CLO, CHI) SPLIT(n, L) { MK(int, a, n, L); \
    CALL(a, a + n, c); \
    PERM_G(L, n) \
    FORK(k, (L) - 1, n - 1) VF_ASSERT(!lt(c, a[k + 1], a[k]), "sort: the result is sorted with respect to comp"); } \
  VF_REACH(); }
#define B_SORT_DEFAULT(L, CALL) { LEN(n, L); VF_INPUT(int, g); IN(int, a, L); \
  SPLIT(n, L) { MK(int, a, n, L); \
    CALL(a, a + n); \
    PERM_G(L, n) \
    FORK(k, (L) - 1, n - 1) VF_ASSERT(!(a[k + 1] < a[k]), "sort: the result is sorted with respect to operator<"); } \
  VF_REACH(); }
/* partial_sort: [first,middle) sorted and no element of [middle,last) less than any of them; nth_element: nothing in [nth,last) is
 * less than anything in [first,nth], i.e. a[nth] is the element a full sort would put there */
#define B_PARTIAL_SORT(L, CLO, CHI) { LEN(n, L); SEL(c, CLO, CHI); VF_INPUT(unsigned char, m); VF_ASSUME(m <= n); VF_INPUT(int, g); IN(int, a, L); WIN(c == 3, a_in, L, ); \
  SPLITR(c, CLO, CHI) SPLIT(n, L) { MK(int, a, n, L); \
    a_partial_sort(a, a + m, a + n, c); \
    PERM_G(L, n) \
    FORK(k, (L) - 1, m - 1) VF_ASSERT(!lt(c, a[k + 1], a[k]), "partial_sort: [first, middle) is sorted"); \
    FORK(i, L, m) FORK(j, L, n) if (j >= m) VF_ASSERT(!lt(c, a[j], a[i]), "partial_sort: no element of [middle, last) is less than an element of [first, middle)"); } \
  VF_REACH(); }
#define B_NTH_ELEMENT(L, CLO, CHI) { LEN(n, L); SEL(c, CLO, CHI); VF_INPUT(unsigned char, m); VF_ASSUME(m <= n); VF_INPUT(int, g); IN(int, a, L); WIN(c == 3, a_in, L, ); \
  SPLITR(c, CLO, CHI) SPLIT(n, L) { MK(int, a, n, L); \
    a_nth_element(a, a + m, a + n, c); \
    PERM_G(L, n) \
    FORK(i, L, n) FORK(j, L, n) if (i <= m && j >= m && i < j) VF_ASSERT(!lt(c, a[j], a[i]), "nth_element: for i in [first, nth], j in [nth, last): !(a[j] < a[i])"); } \
  VF_REACH(); }
#define B_STABLE_SORT(L, CALL, CLO, CHI) { LEN(n, L); SEL(c, CLO, CHI); KTIN(a, L, 0); WIN(c == 3, a_in, L, .key); \
  SPLITR(c, CLO, CHI) SPLIT(n, L) { MK(KT, a, n, L); \
    CALL(a, a + n, c); \
    FORK(k, L, n) VF_ASSERT(a[k].tag >= 0 && a[k].tag < n && a[k].key == a_in[a[k].tag].key, "stable sort: every output element is an input element"); \
    FORK(j, L, n) FORK(k, L, n) if (j < k) VF_ASSERT(a[j].tag != a[k].tag, "stable sort: no input element is duplicated (permutation)"); \
    FORK(k, (L) - 1, n - 1) { VF_ASSERT(!lt(c, a[k + 1].key, a[k].key), "stable sort: the result is sorted with respect to comp"); \
      VF_ASSERT(lt(c, a[k].key, a[k + 1].key) || a[k].tag < a[k + 1].tag, "stable sort: equivalent elements keep their original order"); } } \
  VF_REACH(); }

#define B_STABLE_SORT_T(L, CALL, CLO, CHI) { LEN(n, L); SEL(c, CLO, CHI); TIN(a, L, 0); WIN(c == 3, a_in, L, >> 4); \
  SPLITR(c, CLO, CHI) SPLIT(n, L) { MK(int, a, n, L); \
    CALL(a, a + n, c); \
    FORK(k, L, n) VF_ASSERT(TAG(a[k]) < n && a[k] == a_in[TAG(a[k])], "stable sort: every output element is an input element"); \
    FORK(j, L, n) FORK(k, L, n) if (j < k) VF_ASSERT(TAG(a[j]) != TAG(a[k]), "stable sort: no input element is duplicated (permutation)"); \
    FORK(k, (L) - 1, n - 1) { VF_ASSERT(!ltk(c, a[k + 1], a[k]), "stable sort: the result is sorted with respect to comp"); \
      VF_ASSERT(ltk(c, a[k], a[k + 1]) || TAG(a[k]) < TAG(a[k + 1]), "stable sort: equivalent elements keep their original order"); } } \
  VF_REACH(); }

/* ---- is_permutation [alg.is.permutation] ----------------------------------------------------------------------------------- */
#define PERM_REF(ok, L, n) FORK(i, L, n) { int ca = 0, cb = 0; FORK(k, L, n) { ca += a_in[k] == a_in[i]; cb += b_in[k] == a_in[i]; } if (ca != cb) ok = 0; }
#define B_IS_PERMUTATION3(L) { LEN(n, L); IN(int, a, L); IN(int, b, L); \
  SPLIT(n, L) { MK(int, a, n, L); MK(int, b, n, L); _Bool ok = 1; PERM_REF(ok, L, n) \
    _Bool r = a_is_permutation3(a, a + n, b); \
    VF_ASSERT(r == ok, "is_permutation(f1,l1,f2): true iff every value occurs equally often in both ranges"); } \
  VF_REACH(); }
#define B_IS_PERMUTATION4(L, CALL, KNOWN) { LEN(n, L); LEN(n2, L); IN(int, a, L); IN(int, b, L); \
  SPLIT(n, L) SPLIT(n2, L) { MK(int, a, n, L); MK(int, b, n2, L); _Bool ok = n == n2; if (ok) { PERM_REF(ok, L, n) } \
    KNOWN; \
    _Bool r = CALL(a, a + n, b, b + n2); \
    VF_ASSERT(r == ok, "is_permutation(f1,l1,f2,l2): false for different lengths, else true iff every value occurs equally often"); } \
  VF_REACH(); }

/* ---- search family [alg.search] [alg.find.end] [alg.find.first.of]: first / last position such that ... ---------------------- */
#define MATCH_AT(ok, i, L, m, p) _Bool ok = (i) + (m) <= n; FORK(j, L, m) if (ok && !peq(p, a_in[(i) + j], b_in[j])) ok = 0;
#define B_SEARCH(L, CALL, CLO, CHI) { LEN(n, L); LEN(m, L); SEL(p, CLO, CHI); IN(int, a, L); IN(int, b, L); WIN(p == 2, a_in, L, ); WIN(p == 2, b_in, L, ); \
  SPLITR(p, CLO, CHI) SPLIT(n, L) SPLIT(m, L) { MK(int, a, n, L); MK(int, b, m, L); int idx = n; \
    for (int i = (L); i >= 0; --i) { MATCH_AT(ok, i, L, m, p) if (ok) idx = i; } \
    int *r = CALL(a, a + n, b, b + m, p); \
    VF_ASSERT(r == a + idx, "search returns the first position where the needle matches (first for an empty needle), else last"); } \
  VF_REACH(); }
#define B_FIND_END(L, CLO, CHI) B_FIND_END_C(L, a_find_end, CLO, CHI)
#define B_FIND_END_C(L, CALL, CLO, CHI) { LEN(n, L); LEN(m, L); SEL(p, CLO, CHI); IN(int, a, L); IN(int, b, L); WIN(p == 2, a_in, L, ); WIN(p == 2, b_in, L, ); \
  SPLITR(p, CLO, CHI) { EMK(int, a, n, L); EMK(int, b, m, L); int idx = n; \
    for (int i = 0; i <= (L); ++i) { MATCH_AT(ok, i, L, m, p) if (ok && m > 0) idx = i; } \
    int *r = CALL(a, a + n, b, b + m, p); \
    VF_ASSERT(r == a + idx, "find_end returns the last position where the needle matches, last if none or the needle is empty"); } \
  VF_REACH(); }
#define B_SEARCH_N(L, CLO, CHI, KNOWN) B_SEARCH_N_C(L, a_search_n, CLO, CHI, KNOWN)
#define B_SEARCH_N_C(L, CALL, CLO, CHI, KNOWN) { LEN(n, L); VF_INPUT(signed char, s); VF_ASSUME(s >= -1 && s <= n + 1); SEL(p, CLO, CHI); VF_INPUT(int, v); IN(int, a, L); WIN(p == 2, a_in, L, ); if (p == 2) VF_ASSUME(v >= -4 && v <= 4); \
  SPLITR(p, CLO, CHI) SPLIT(n, L) { MK(int, a, n, L); int idx = n, fm = n; \
    for (int i = (L); i >= 0; --i) { _Bool ok = i + (int)s <= n; FORK(j, (L) + 1, s) if (ok && !peq(p, a_in[i + j], v)) ok = 0; if (ok) idx = i; if (i < n && peq(p, a_in[i], v)) fm = i; } \
    KNOWN; \
    int *r = CALL(a, a + n, s, &v, p); \
    VF_ASSERT(r == a + idx, "search_n returns the first position of count consecutive matching elements (first for count <= 0), else last"); } \
  VF_REACH(); }
#define B_FIND_FIRST_OF(L, CLO, CHI) B_FIND_FIRST_OF_C(L, a_find_first_of, CLO, CHI)
#define B_FIND_FIRST_OF_C(L, CALL, CLO, CHI) { LEN(n, L); LEN(m, L); SEL(p, CLO, CHI); IN(int, a, L); IN(int, b, L); WIN(p == 2, a_in, L, ); WIN(p == 2, b_in, L, ); \
  SPLITR(p, CLO, CHI) SPLIT(n, L) SPLIT(m, L) { MK(int, a, n, L); MK(int, b, m, L); int idx = n; \
    for (int i = (L) - 1; i >= 0; --i) if (i < n) { _Bool any = 0; FORK(j, L, m) if (peq(p, a_in[i], b_in[j])) any = 1; if (any) idx = i; } \
    int *r = CALL(a, a + n, b, b + m, p); \
    VF_ASSERT(r == a + idx, "find_first_of returns the first element that matches any element of the second range, else last"); } \
  VF_REACH(); }
/* includes [includes]: true iff the second sorted range is a sub-multiset of the first: plain two-finger reference */
#define B_INCLUDES(L, CLO, CHI) B_INCLUDES_C(L, a_includes, CLO, CHI)
#define B_INCLUDES_C(L, CALL, CLO, CHI) { LEN(n, L); LEN(m, L); SEL(c, CLO, CHI); IN(int, a, L); IN(int, b, L); WIN(c == 3, a_in, L, ); WIN(c == 3, b_in, L, ); \
  SPLITR(c, CLO, CHI) { EMK(int, a, n, L); EMK(int, b, m, L); ASSUME_SORTED(c, a_in, n, L, ); ASSUME_SORTED(c, b_in, m, L, ); _Bool ok = 1; int i = 0, j = 0; \
    for (int s = 0; s < 2 * (L); ++s) if (ok && j < m) { if (i >= n || lt(c, b_in[j], a_in[i])) ok = 0; else { if (!lt(c, a_in[i], b_in[j])) ++j; ++i; } } \
    _Bool r = CALL(a, a + n, b, b + m, c); \
    VF_ASSERT(r == ok, "includes: true iff the second sorted range is a sub-multiset of the first (true for an empty second range)"); \
    TAIL(a, n, L, IEQ); TAIL(b, m, L, IEQ); } \
  VF_REACH(); }

/* ---- merge / inplace_merge [alg.merge]: the final position of every element in closed form (sorted, stable, range 1 first) ---- */
#define TSORTED(c, a, n, L) FORK(vf_s, (L) - 1, (int)(n) - 1) VF_ASSUME(!ltk(c, a[vf_s + 1], a[vf_s]))
#define B_MERGE(L, CALL, CLO, CHI) { LEN(na, L); LEN(nb, L); SEL(c, CLO, CHI); TIN(a, L, 0); TIN(b, L, 8); WIN(c == 3, a_in, L, >> 4); WIN(c == 3, b_in, L, >> 4); \
  SPLITR(c, CLO, CHI) { EMK(int, a, na, L); EMK(int, b, nb, L); TSORTED(c, a_in, na, L); TSORTED(c, b_in, nb, L); EOUT(int, d, 2 * (L)); \
    int *r = CALL; \
    VF_ASSERT(r == d + (na + nb), "merge returns result + (last1 - first1) + (last2 - first2)"); \
    FORK(i, L, na) { int pos = i; FORK(j, L, nb) pos += ltk(c, b_in[j], a_in[i]); VF_ASSERT(d[pos] == a_in[i], "merge: a[i] lands behind exactly the elements of range 2 that are less than it"); VF_ASSERT(a[i] == a_in[i], "merge leaves range 1 unchanged"); } \
    FORK(j, L, nb) { int pos = j; FORK(i, L, na) pos += !ltk(c, b_in[j], a_in[i]); VF_ASSERT(d[pos] == b_in[j], "merge: b[j] lands behind exactly the elements of range 1 that are not greater than it"); VF_ASSERT(b[j] == b_in[j], "merge leaves range 2 unchanged"); } \
    TAIL(d, na + nb, 2 * (L), IEQ); TAIL(a, na, L, IEQ); TAIL(b, nb, L, IEQ); } \
  VF_REACH(); }
#define B_INPLACE_MERGE(L, CALL, CLO, CHI) { LEN(n, L); VF_INPUT(unsigned char, m); VF_ASSUME(m <= n); SEL(c, CLO, CHI); TIN(a, L, 0); WIN(c == 3, a_in, L, >> 4); \
  SPLITR(c, CLO, CHI) { EMK(int, a, n, L); \
    FORK(k, (L) - 1, n - 1) if (k + 1 != m) VF_ASSUME(!ltk(c, a_in[k + 1], a_in[k])); \
    CALL; \
    FORK(i, L, m) { int pos = i; FORK(j, L, n) if (j >= m) pos += ltk(c, a_in[j], a_in[i]); VF_ASSERT(a[pos] == a_in[i], "inplace_merge: an element of the first half lands behind exactly the second-half elements less than it"); } \
    FORK(j, L, n) if (j >= m) { int pos = j - m; FORK(i, L, m) pos += !ltk(c, a_in[j], a_in[i]); VF_ASSERT(a[pos] == a_in[j], "inplace_merge: an element of the second half lands behind exactly the first-half elements not greater than it"); } \
    TAIL(a, n, L, IEQ); } \
  VF_REACH(); }

/* ---- set operations [alg.set.operations]: plain two-finger reference; the tags show which range an output element is copied from ---- */
enum { OP_UNION, OP_INTER, OP_DIFF, OP_SYM };
static int ref_setop(int op, int c, const int *a, int na, const int *b, int nb, int *e, int cap)
{
    int i = 0, j = 0, w = 0;
    for (int s = 0; s < cap; ++s) {
        if (i < na && j < nb) {
            if (ltk(c, a[i], b[j])) { if (op != OP_INTER) { e[w] = a[i]; ++w; } ++i; }
            else if (ltk(c, b[j], a[i])) { if (op == OP_UNION || op == OP_SYM) { e[w] = b[j]; ++w; } ++j; }
            else { if (op == OP_UNION || op == OP_INTER) { e[w] = a[i]; ++w; } ++i; ++j; }
        } else if (i < na) { if (op != OP_INTER) { e[w] = a[i]; ++w; } ++i; }
        else if (j < nb) { if (op == OP_UNION || op == OP_SYM) { e[w] = b[j]; ++w; } ++j; }
    }
    return w;
}
#define B_SETOP(L, OP, CALL, WHAT, CLO, CHI) { LEN(na, L); LEN(nb, L); SEL(c, CLO, CHI); TIN(a, L, 0); TIN(b, L, 8); WIN(c == 3, a_in, L, >> 4); WIN(c == 3, b_in, L, >> 4); \
  SPLITR(c, CLO, CHI) { EMK(int, a, na, L); EMK(int, b, nb, L); TSORTED(c, a_in, na, L); TSORTED(c, b_in, nb, L); \
    int e[2 * (L) + 1]; int ne = ref_setop(OP, c, a_in, na, b_in, nb, e, 2 * (L)); EOUT(int, d, 2 * (L)); \
    int *r = CALL; \
    VF_ASSERT(r == d + ne, WHAT " returns the end of the constructed range"); \
    FORK(k, 2 * (L), ne) VF_ASSERT(d[k] == e[k], WHAT ": the output is the standard's sorted result, equivalent elements taken from the prescribed range"); \
    FORK(i, L, na) VF_ASSERT(a[i] == a_in[i], WHAT " leaves range 1 unchanged"); FORK(j, L, nb) VF_ASSERT(b[j] == b_in[j], WHAT " leaves range 2 unchanged"); \
    TAIL(d, ne, 2 * (L), IEQ); TAIL(a, na, L, IEQ); TAIL(b, nb, L, IEQ); } \
  VF_REACH(); }

/* ---- numeric: transform_reduce [transform.reduce] (unsigned: wrap-around is defined) ----------------------------------------- */
#define B_TRANSFORM_REDUCE(L) { LEN(n, L); SEL(w, 0, 2); VF_INPUT(unsigned, init); IN(unsigned, a, L); IN(unsigned, b, L); \
  SPLIT(w, 3) SPLIT(n, L) { MK(unsigned, a, n, L); MK(unsigned, b, n, L); unsigned e = init; \
    FORK(k, L, n) e = w == 0 ? e + a_in[k] * b_in[k] : (w == 1 ? e ^ (a_in[k] & b_in[k]) : e + a_in[k] * 3u); \
    unsigned r = w == 0 ? a_transform_reduce2(a, a + n, b, init) : (w == 1 ? a_transform_reduce2_op(a, a + n, b, init) : a_transform_reduce1(a, a + n, init)); \
    VF_ASSERT(r == e, "transform_reduce: init reduced with transform(a[k], b[k]) / transform(a[k]) over the range"); } \
  VF_REACH(); }

/* ============================================================ groups =========================================================
 * <name>: quick, len<=4 (or as stated in bound=); <name>_t: the tier=thorough twin with len<=6; *_mod3: the a % 3 comparator / predicate */
/*@GROUP name=rotate props=C06,C02 kind=B bound=len<=4 unwind=7 solver=kissat objbits=12 timeout=600@*/
void h_rotate(void) B_ROTATE(4, a_rotate)
/*@GROUP name=rotate_t props=C06,C02 kind=B bound=len<=6 unwind=9 solver=kissat tier=thorough objbits=13 timeout=3000@*/
void h_rotate_t(void) B_ROTATE(6, a_rotate)
/*@GROUP name=rotate_fwd props=C06,C02 kind=B bound=len<=4 unwind=7 solver=kissat objbits=12 timeout=600@*/
void h_rotate_fwd(void) B_ROTATE(4, a_rotate_fwd)
/*@GROUP name=rotate_fwd_t props=C06,C02 kind=B bound=len<=6 unwind=9 solver=kissat tier=thorough objbits=13 timeout=3000@*/
void h_rotate_fwd_t(void) B_ROTATE(6, a_rotate_fwd)
/*@GROUP name=rotate_copy props=C06,C02 kind=B bound=len<=4 unwind=7 solver=kissat objbits=12 timeout=600@*/
void h_rotate_copy(void) B_ROTATE_COPY(4)
/*@GROUP name=rotate_copy_t props=C06,C02 kind=B bound=len<=6 unwind=9 solver=kissat tier=thorough objbits=13 timeout=3000@*/
void h_rotate_copy_t(void) B_ROTATE_COPY(6)
/*@GROUP name=shift_left props=C06,C02 kind=B bound=len<=4,n_in_[-1,len+1] unwind=7 solver=kissat objbits=12 timeout=600@*/
void h_shift_left(void) B_SHIFT_LEFT(4, a_shift_left)
/*@GROUP name=shift_left_t props=C06,C02 kind=B bound=len<=6,n_in_[-1,len+1] unwind=9 solver=kissat tier=thorough objbits=13 timeout=3000@*/
void h_shift_left_t(void) B_SHIFT_LEFT(6, a_shift_left)
/*@GROUP name=shift_left_fwd props=C06,C02 kind=B bound=len<=4,n_in_[-1,len+1] unwind=7 solver=kissat objbits=12 timeout=600@*/
void h_shift_left_fwd(void) B_SHIFT_LEFT(4, a_shift_left_fwd)
/*@GROUP name=shift_left_fwd_t props=C06,C02 kind=B bound=len<=6,n_in_[-1,len+1] unwind=9 solver=kissat tier=thorough objbits=13 timeout=3000@*/
void h_shift_left_fwd_t(void) B_SHIFT_LEFT(6, a_shift_left_fwd)
/*@GROUP name=shift_right props=C06,C02 kind=B bound=len<=4,n_in_[-1,len+1] unwind=7 solver=kissat objbits=12 timeout=600@*/
void h_shift_right(void) B_SHIFT_RIGHT(4, a_shift_right, VF_KNOWN(C06_shift_right_first_lost, s > 0 && s < n && a_in[0] != 0); VF_KNOWN(C06_shift_right_zero_returns_last, s == 0 && n > 0))
/*@GROUP name=shift_right_t props=C06,C02 kind=B bound=len<=6,n_in_[-1,len+1] unwind=9 solver=kissat tier=thorough objbits=13 timeout=3000@*/
void h_shift_right_t(void) B_SHIFT_RIGHT(6, a_shift_right, VF_KNOWN(C06_shift_right_first_lost, s > 0 && s < n && a_in[0] != 0); VF_KNOWN(C06_shift_right_zero_returns_last, s == 0 && n > 0))
/*@GROUP name=shift_right_bidi props=C06,C02 kind=B bound=len<=4,n_in_[-1,len+1] unwind=7 solver=kissat objbits=12 timeout=600@*/
void h_shift_right_bidi(void) B_SHIFT_RIGHT(4, a_shift_right_bidi, VF_KNOWN(C06_shift_right_first_lost, s > 0 && s < n && a_in[0] != 0); VF_KNOWN(C06_shift_right_zero_returns_last, s == 0 && n > 0))
/*@GROUP name=shift_right_bidi_t props=C06,C02 kind=B bound=len<=6,n_in_[-1,len+1] unwind=9 solver=kissat tier=thorough objbits=13 timeout=3000@*/
void h_shift_right_bidi_t(void) B_SHIFT_RIGHT(6, a_shift_right_bidi, VF_KNOWN(C06_shift_right_first_lost, s > 0 && s < n && a_in[0] != 0); VF_KNOWN(C06_shift_right_zero_returns_last, s == 0 && n > 0))
/*@GROUP name=partition props=C06,C02 kind=B bound=len<=4 unwind=7 solver=kissat objbits=12 timeout=600@*/
void h_partition(void) B_PARTITION(4, a_partition, 0, 1)
/*@GROUP name=partition_t props=C06,C02 kind=B bound=len<=6 unwind=9 solver=kissat tier=thorough objbits=13 timeout=3000@*/
void h_partition_t(void) B_PARTITION(6, a_partition, 0, 1)
/*@GROUP name=partition_fwd props=C06,C02 kind=B bound=len<=4 unwind=7 solver=kissat objbits=12 timeout=600@*/
void h_partition_fwd(void) B_PARTITION(4, a_partition_fwd, 0, 1)
/*@GROUP name=partition_fwd_t props=C06,C02 kind=B bound=len<=6 unwind=9 solver=kissat tier=thorough objbits=13 timeout=3000@*/
void h_partition_fwd_t(void) B_PARTITION(6, a_partition_fwd, 0, 1)
/*@GROUP name=partition_mod3 props=C06,C02 kind=B bound=len<=4,values_in_[-4,4] unwind=7 solver=kissat objbits=12 timeout=600@*/
void h_partition_mod3(void) B_PARTITION(4, a_partition, 2, 2)
/*@GROUP name=partition_mod3_t props=C06,C02 kind=B bound=len<=6,values_in_[-4,4] unwind=9 solver=kissat tier=thorough objbits=13 timeout=3000@*/
void h_partition_mod3_t(void) B_PARTITION(6, a_partition, 2, 2)
/*@GROUP name=stable_partition props=C06,C02 kind=B bound=len<=4 unwind=7 solver=kissat objbits=12 timeout=600@*/
void h_stable_partition(void) B_STABLE_PARTITION(4)
/*@GROUP name=stable_partition_t props=C06,C02 kind=B bound=len<=6 unwind=9 solver=kissat tier=thorough objbits=13 timeout=3000@*/
void h_stable_partition_t(void) B_STABLE_PARTITION(6)
/*@GROUP name=partition_copy props=C06,C02 kind=B bound=len<=4 unwind=7 solver=kissat objbits=12 timeout=600@*/
void h_partition_copy(void) B_PARTITION_COPY(4)
/*@GROUP name=partition_copy_t props=C06,C02 kind=B bound=len<=6 unwind=9 solver=kissat tier=thorough objbits=13 timeout=3000@*/
void h_partition_copy_t(void) B_PARTITION_COPY(6)
/*@GROUP name=sort props=C06,C02 kind=B bound=len<=3 unwind=12 solver=kissat objbits=12 timeout=600@*/
void h_sort(void) B_SORT(3, a_sort, 0, 2, 0)
/*@GROUP name=sort_t props=C06,C02 kind=B bound=len<=4 unwind=19 solver=kissat tier=thorough objbits=13 timeout=3000@*/
void h_sort_t(void) B_SORT(4, a_sort, 0, 2, 0)
/*@GROUP name=sort_mod3 props=C06,C02 kind=B bound=len<=3,values_in_[-4,4] unwind=12 solver=kissat objbits=12 timeout=600@*/
void h_sort_mod3(void) B_SORT(3, a_sort, 3, 3, 0)
/*@GROUP name=sort_mod3_t props=C06,C02 kind=B bound=len<=4,values_in_[-4,4] unwind=19 solver=kissat tier=thorough objbits=13 timeout=3000@*/
void h_sort_mod3_t(void) B_SORT(4, a_sort, 3, 3, 0)
/*@GROUP name=gnome_sort props=C06,C02 kind=B bound=len<=3 unwind=12 solver=kissat objbits=12 timeout=600@*/
void h_gnome_sort(void) B_SORT(3, a_gnome_sort, 0, 2, 0)
/*@GROUP name=gnome_sort_t props=C06,C02 kind=B bound=len<=4 unwind=19 solver=kissat tier=thorough objbits=13 timeout=3000@*/
void h_gnome_sort_t(void) B_SORT(4, a_gnome_sort, 0, 2, 0)
/*@GROUP name=gnome_sort_bidi props=C06,C02 kind=B bound=len<=3 unwind=12 solver=kissat objbits=12 timeout=600@*/
void h_gnome_sort_bidi(void) B_SORT(3, a_gnome_sort_bidi, 0, 2, 0)
/*@GROUP name=gnome_sort_bidi_t props=C06,C02 kind=B bound=len<=4 unwind=19 solver=kissat tier=thorough objbits=13 timeout=3000@*/
void h_gnome_sort_bidi_t(void) B_SORT(4, a_gnome_sort_bidi, 0, 2, 0)
/*@GROUP name=bubble_sort props=C06,C02 kind=B bound=len<=4 unwind=7 solver=kissat objbits=12 timeout=600@*/
void h_bubble_sort(void) B_SORT(4, a_bubble_sort, 0, 2, 0)
/*@GROUP name=bubble_sort_t props=C06,C02 kind=B bound=len<=6 unwind=9 solver=kissat tier=thorough objbits=13 timeout=3000@*/
void h_bubble_sort_t(void) B_SORT(6, a_bubble_sort, 0, 2, 0)
/*@GROUP name=exchange_sort props=C06,C02 kind=B bound=len<=4 unwind=7 solver=kissat objbits=12 timeout=600@*/
void h_exchange_sort(void) B_SORT(4, a_exchange_sort, 0, 2, 1)
/*@GROUP name=exchange_sort_t props=C06,C02 kind=B bound=len<=6 unwind=9 solver=kissat tier=thorough objbits=13 timeout=3000@*/
void h_exchange_sort_t(void) B_SORT(6, a_exchange_sort, 0, 2, 1)
/*@GROUP name=partial_sort props=C06,C02 kind=B bound=len<=3 unwind=12 solver=kissat objbits=12 timeout=600@*/
void h_partial_sort(void) B_PARTIAL_SORT(3, 0, 2)
/*@GROUP name=partial_sort_t props=C06,C02 kind=B bound=len<=4 unwind=19 solver=kissat tier=thorough objbits=13 timeout=3000@*/
void h_partial_sort_t(void) B_PARTIAL_SORT(4, 0, 2)
/*@GROUP name=nth_element props=C06,C02 kind=B bound=len<=3 unwind=12 solver=kissat objbits=12 timeout=600@*/
void h_nth_element(void) B_NTH_ELEMENT(3, 0, 2)
/*@GROUP name=nth_element_t props=C06,C02 kind=B bound=len<=4 unwind=19 solver=kissat tier=thorough objbits=13 timeout=3000@*/
void h_nth_element_t(void) B_NTH_ELEMENT(4, 0, 2)
/*@GROUP name=stable_sort props=C06,C02 kind=B bound=len<=4 unwind=7 solver=kissat objbits=12 timeout=600@*/
void h_stable_sort(void) B_STABLE_SORT(4, a_stable_sort, 0, 2)
/*@GROUP name=stable_sort_t props=C06,C02 kind=B bound=len<=6 unwind=9 solver=kissat tier=thorough objbits=13 timeout=3000@*/
void h_stable_sort_t(void) B_STABLE_SORT(6, a_stable_sort, 0, 2)
/*@GROUP name=stable_sort_mod3 props=C06,C02 kind=B bound=len<=4,values_in_[-4,4] unwind=7 solver=kissat objbits=12 timeout=600@*/
void h_stable_sort_mod3(void) B_STABLE_SORT(4, a_stable_sort, 3, 3)
/*@GROUP name=stable_sort_mod3_t props=C06,C02 kind=B bound=len<=6,values_in_[-4,4] unwind=9 solver=kissat tier=thorough objbits=13 timeout=3000@*/
void h_stable_sort_mod3_t(void) B_STABLE_SORT(6, a_stable_sort, 3, 3)
/*@GROUP name=insertion_sort props=C06,C02 kind=B bound=len<=4 unwind=7 solver=kissat objbits=12 timeout=600@*/
void h_insertion_sort(void) B_STABLE_SORT(4, a_insertion_sort, 0, 2)
/*@GROUP name=insertion_sort_t props=C06,C02 kind=B bound=len<=6 unwind=9 solver=kissat tier=thorough objbits=13 timeout=3000@*/
void h_insertion_sort_t(void) B_STABLE_SORT(6, a_insertion_sort, 0, 2)
/*@GROUP name=merge_sort props=C06,C02 kind=B bound=len<=3 unwind=6 solver=kissat objbits=12 timeout=600@*/
void h_merge_sort(void) B_STABLE_SORT_T(3, a_merge_sort, 0, 2)
/*@GROUP name=merge_sort_t props=C06,C02 kind=B bound=len<=5 unwind=8 solver=kissat tier=thorough objbits=13 timeout=3000@*/
void h_merge_sort_t(void) B_STABLE_SORT_T(5, a_merge_sort, 0, 2)
/*@GROUP name=stable_sort_int props=C06,C02 kind=B bound=len<=4 unwind=7 solver=kissat objbits=12 timeout=600@*/
void h_stable_sort_int(void) B_SORT_DEFAULT(4, a_stable_sort_int)
/*@GROUP name=stable_sort_int_t props=C06,C02 kind=B bound=len<=6 unwind=9 solver=kissat tier=thorough objbits=13 timeout=3000@*/
void h_stable_sort_int_t(void) B_SORT_DEFAULT(6, a_stable_sort_int)
/*@GROUP name=insertion_sort_int props=C06,C02 kind=B bound=len<=4 unwind=7 solver=kissat objbits=12 timeout=600@*/
void h_insertion_sort_int(void) B_SORT_DEFAULT(4, a_insertion_sort_int)
/*@GROUP name=insertion_sort_int_t props=C06,C02 kind=B bound=len<=6 unwind=9 solver=kissat tier=thorough objbits=13 timeout=3000@*/
void h_insertion_sort_int_t(void) B_SORT_DEFAULT(6, a_insertion_sort_int)
/*@GROUP name=merge_sort_int props=C06,C02 kind=B bound=len<=4 unwind=7 solver=kissat objbits=12 timeout=600@*/
void h_merge_sort_int(void) B_SORT_DEFAULT(4, a_merge_sort_int)
/*@GROUP name=merge_sort_int_t props=C06,C02 kind=B bound=len<=6 unwind=9 solver=kissat tier=thorough objbits=13 timeout=3000@*/
void h_merge_sort_int_t(void) B_SORT_DEFAULT(6, a_merge_sort_int)
/*@GROUP name=is_permutation3 props=C06,C02 kind=B bound=len<=4 unwind=7 solver=kissat objbits=12 timeout=600@*/
void h_is_permutation3(void) B_IS_PERMUTATION3(4)
/*@GROUP name=is_permutation3_t props=C06,C02 kind=B bound=len<=6 unwind=9 solver=kissat tier=thorough objbits=13 timeout=3000@*/
void h_is_permutation3_t(void) B_IS_PERMUTATION3(6)
/*@GROUP name=is_permutation4 props=C06,C02 kind=B bound=len<=4 unwind=7 solver=kissat objbits=12 timeout=600@*/
void h_is_permutation4(void) B_IS_PERMUTATION4(4, a_is_permutation4, (void)0)
/*@GROUP name=is_permutation4_t props=C06,C02 kind=B bound=len<=6 unwind=9 solver=kissat tier=thorough objbits=13 timeout=3000@*/
void h_is_permutation4_t(void) B_IS_PERMUTATION4(6, a_is_permutation4, (void)0)
/*@GROUP name=is_permutation4_fwd props=C06,C02 kind=B bound=len<=4 unwind=7 solver=kissat objbits=12 timeout=600@*/
void h_is_permutation4_fwd(void) B_IS_PERMUTATION4(4, a_is_permutation4_fwd, VF_KNOWN(C06_is_permutation4_forward_length, n != n2))
/*@GROUP name=is_permutation4_fwd_t props=C06,C02 kind=B bound=len<=6 unwind=9 solver=kissat tier=thorough objbits=13 timeout=3000@*/
void h_is_permutation4_fwd_t(void) B_IS_PERMUTATION4(6, a_is_permutation4_fwd, VF_KNOWN(C06_is_permutation4_forward_length, n != n2))
/*@GROUP name=search props=C06,C02 kind=B bound=len<=4,needle<=4 unwind=7 solver=kissat objbits=12 timeout=600@*/
void h_search(void) B_SEARCH(4, a_search, 0, 2)
/*@GROUP name=search_t props=C06,C02 kind=B bound=len<=6,needle<=6 unwind=9 solver=kissat tier=thorough objbits=13 timeout=3000@*/
void h_search_t(void) B_SEARCH(6, a_search, 0, 2)
/*@GROUP name=search_fwd props=C06,C02 kind=B bound=len<=4,needle<=4 unwind=7 solver=kissat objbits=12 timeout=600@*/
void h_search_fwd(void) B_SEARCH(4, a_search_fwd, 0, 2)
/*@GROUP name=search_fwd_t props=C06,C02 kind=B bound=len<=6,needle<=6 unwind=9 solver=kissat tier=thorough objbits=14 timeout=3000@*/
void h_search_fwd_t(void) B_SEARCH(6, a_search_fwd, 0, 2)
/*@GROUP name=find_end props=C06,C02 kind=B bound=len<=4,needle<=4 unwind=7 solver=kissat objbits=12 timeout=600@*/
void h_find_end(void) B_FIND_END(4, 0, 2)
/*@GROUP name=find_end_t props=C06,C02 kind=B bound=len<=6,needle<=6 unwind=9 solver=kissat tier=thorough objbits=13 timeout=3000@*/
void h_find_end_t(void) B_FIND_END(6, 0, 2)
/*@GROUP name=search_n props=C06,C02 kind=B bound=len<=4,count_in_[-1,len+1] unwind=7 solver=kissat objbits=12 timeout=600@*/
void h_search_n(void) B_SEARCH_N(4, 0, 2, VF_KNOWN(C06_search_n_broken_run, s > 0 && idx < n && fm != idx))
/*@GROUP name=search_n_t props=C06,C02 kind=B bound=len<=6,count_in_[-1,len+1] unwind=9 solver=kissat tier=thorough objbits=13 timeout=3000@*/
void h_search_n_t(void) B_SEARCH_N(6, 0, 2, VF_KNOWN(C06_search_n_broken_run, s > 0 && idx < n && fm != idx))
/*@GROUP name=find_first_of props=C06,C02 kind=B bound=len<=4,needle<=4 unwind=7 solver=kissat objbits=12 timeout=600@*/
void h_find_first_of(void) B_FIND_FIRST_OF(4, 0, 2)
/*@GROUP name=find_first_of_t props=C06,C02 kind=B bound=len<=6,needle<=6 unwind=9 solver=kissat tier=thorough objbits=13 timeout=3000@*/
void h_find_first_of_t(void) B_FIND_FIRST_OF(6, 0, 2)
/*@GROUP name=includes props=C06,C02 kind=B bound=len1<=4,len2<=4 unwind=11 solver=kissat objbits=12 timeout=600@*/
void h_includes(void) B_INCLUDES(4, 0, 3)
/*@GROUP name=includes_t props=C06,C02 kind=B bound=len1<=6,len2<=6 unwind=15 solver=kissat tier=thorough objbits=13 timeout=3000@*/
void h_includes_t(void) B_INCLUDES(6, 0, 3)
/*@GROUP name=merge props=C06,C02 kind=B bound=len1<=3,len2<=3 unwind=9 solver=kissat objbits=12 timeout=600@*/
void h_merge(void) B_MERGE(3, a_merge(a, a + na, b, b + nb, d, c), 0, 2)
/*@GROUP name=merge_t props=C06,C02 kind=B bound=len1<=5,len2<=5 unwind=13 solver=kissat tier=thorough objbits=13 timeout=3000@*/
void h_merge_t(void) B_MERGE(5, a_merge(a, a + na, b, b + nb, d, c), 0, 2)
/*@GROUP name=merge_mod3 props=C06,C02 kind=B bound=len1<=3,len2<=3,values_in_[-4,4] unwind=9 solver=kissat objbits=12 timeout=600@*/
void h_merge_mod3(void) B_MERGE(3, a_merge(a, a + na, b, b + nb, d, c), 3, 3)
/*@GROUP name=merge_mod3_t props=C06,C02 kind=B bound=len1<=5,len2<=5,values_in_[-4,4] unwind=13 solver=kissat tier=thorough objbits=13 timeout=3000@*/
void h_merge_mod3_t(void) B_MERGE(5, a_merge(a, a + na, b, b + nb, d, c), 3, 3)
/*@GROUP name=merge_int props=C06,C02 kind=B bound=len1<=4,len2<=4 unwind=11 solver=kissat objbits=12 timeout=600@*/
void h_merge_int(void) B_MERGE(4, a_merge_int(a, a + na, b, b + nb, d), 4, 4)
/*@GROUP name=merge_int_t props=C06,C02 kind=B bound=len1<=6,len2<=6 unwind=15 solver=kissat tier=thorough objbits=13 timeout=3000@*/
void h_merge_int_t(void) B_MERGE(6, a_merge_int(a, a + na, b, b + nb, d), 4, 4)
/*@GROUP name=merge_fwd props=C06,C02 kind=B bound=len1<=4,len2<=4 unwind=11 solver=kissat objbits=12 timeout=600@*/
void h_merge_fwd(void) B_MERGE(4, a_merge_fwd(a, a + na, b, b + nb, d), 4, 4)
/*@GROUP name=merge_fwd_t props=C06,C02 kind=B bound=len1<=6,len2<=6 unwind=15 solver=kissat tier=thorough objbits=13 timeout=3000@*/
void h_merge_fwd_t(void) B_MERGE(6, a_merge_fwd(a, a + na, b, b + nb, d), 4, 4)
/*@GROUP name=inplace_merge props=C06,C02 kind=B bound=len<=3 unwind=9 solver=kissat objbits=12 timeout=600@*/
void h_inplace_merge(void) B_INPLACE_MERGE(3, a_inplace_merge(a, a + m, a + n, c), 0, 2)
/*@GROUP name=inplace_merge_t props=C06,C02 kind=B bound=len<=5 unwind=13 solver=kissat tier=thorough objbits=13 timeout=3000@*/
void h_inplace_merge_t(void) B_INPLACE_MERGE(5, a_inplace_merge(a, a + m, a + n, c), 0, 2)
/*@GROUP name=inplace_merge_int props=C06,C02 kind=B bound=len<=4 unwind=11 solver=kissat objbits=12 timeout=600@*/
void h_inplace_merge_int(void) B_INPLACE_MERGE(4, a_inplace_merge_int(a, a + m, a + n), 4, 4)
/*@GROUP name=inplace_merge_int_t props=C06,C02 kind=B bound=len<=6 unwind=15 solver=kissat tier=thorough objbits=13 timeout=3000@*/
void h_inplace_merge_int_t(void) B_INPLACE_MERGE(6, a_inplace_merge_int(a, a + m, a + n), 4, 4)
/*@GROUP name=set_union props=C06,C02 kind=B bound=len1<=3,len2<=3 unwind=9 solver=kissat objbits=12 timeout=600@*/
void h_set_union(void) B_SETOP(3, OP_UNION, a_set_union(a, a + na, b, b + nb, d, c), "set_union", 0, 2)
/*@GROUP name=set_union_t props=C06,C02 kind=B bound=len1<=5,len2<=5 unwind=13 solver=kissat tier=thorough objbits=13 timeout=3000@*/
void h_set_union_t(void) B_SETOP(5, OP_UNION, a_set_union(a, a + na, b, b + nb, d, c), "set_union", 0, 2)
/*@GROUP name=set_union_int props=C06,C02 kind=B bound=len1<=4,len2<=4 unwind=11 solver=kissat objbits=12 timeout=600@*/
void h_set_union_int(void) B_SETOP(4, OP_UNION, a_set_ops_int(0, a, a + na, b, b + nb, d), "set_union", 4, 4)
/*@GROUP name=set_union_int_t props=C06,C02 kind=B bound=len1<=6,len2<=6 unwind=15 solver=kissat tier=thorough objbits=13 timeout=3000@*/
void h_set_union_int_t(void) B_SETOP(6, OP_UNION, a_set_ops_int(0, a, a + na, b, b + nb, d), "set_union", 4, 4)
/*@GROUP name=set_intersection props=C06,C02 kind=B bound=len1<=3,len2<=3 unwind=9 solver=kissat objbits=12 timeout=600@*/
void h_set_intersection(void) B_SETOP(3, OP_INTER, a_set_intersection(a, a + na, b, b + nb, d, c), "set_intersection", 0, 2)
/*@GROUP name=set_intersection_t props=C06,C02 kind=B bound=len1<=5,len2<=5 unwind=13 solver=kissat tier=thorough objbits=13 timeout=3000@*/
void h_set_intersection_t(void) B_SETOP(5, OP_INTER, a_set_intersection(a, a + na, b, b + nb, d, c), "set_intersection", 0, 2)
/*@GROUP name=set_intersection_int props=C06,C02 kind=B bound=len1<=4,len2<=4 unwind=11 solver=kissat objbits=12 timeout=600@*/
void h_set_intersection_int(void) B_SETOP(4, OP_INTER, a_set_ops_int(1, a, a + na, b, b + nb, d), "set_intersection", 4, 4)
/*@GROUP name=set_intersection_int_t props=C06,C02 kind=B bound=len1<=6,len2<=6 unwind=15 solver=kissat tier=thorough objbits=13 timeout=3000@*/
void h_set_intersection_int_t(void) B_SETOP(6, OP_INTER, a_set_ops_int(1, a, a + na, b, b + nb, d), "set_intersection", 4, 4)
/*@GROUP name=set_difference props=C06,C02 kind=B bound=len1<=3,len2<=3 unwind=9 solver=kissat objbits=12 timeout=600@*/
void h_set_difference(void) B_SETOP(3, OP_DIFF, a_set_difference(a, a + na, b, b + nb, d, c), "set_difference", 0, 2)
/*@GROUP name=set_difference_t props=C06,C02 kind=B bound=len1<=5,len2<=5 unwind=13 solver=kissat tier=thorough objbits=13 timeout=3000@*/
void h_set_difference_t(void) B_SETOP(5, OP_DIFF, a_set_difference(a, a + na, b, b + nb, d, c), "set_difference", 0, 2)
/*@GROUP name=set_difference_int props=C06,C02 kind=B bound=len1<=4,len2<=4 unwind=11 solver=kissat objbits=12 timeout=600@*/
void h_set_difference_int(void) B_SETOP(4, OP_DIFF, a_set_ops_int(2, a, a + na, b, b + nb, d), "set_difference", 4, 4)
/*@GROUP name=set_difference_int_t props=C06,C02 kind=B bound=len1<=6,len2<=6 unwind=15 solver=kissat tier=thorough objbits=13 timeout=3000@*/
void h_set_difference_int_t(void) B_SETOP(6, OP_DIFF, a_set_ops_int(2, a, a + na, b, b + nb, d), "set_difference", 4, 4)
/*@GROUP name=set_symmetric_difference props=C06,C02 kind=B bound=len1<=3,len2<=3 unwind=9 solver=kissat objbits=12 timeout=600@*/
void h_set_symmetric_difference(void) B_SETOP(3, OP_SYM, a_set_symmetric_difference(a, a + na, b, b + nb, d, c), "set_symmetric_difference", 0, 2)
/*@GROUP name=set_symmetric_difference_t props=C06,C02 kind=B bound=len1<=5,len2<=5 unwind=13 solver=kissat tier=thorough objbits=13 timeout=3000@*/
void h_set_symmetric_difference_t(void) B_SETOP(5, OP_SYM, a_set_symmetric_difference(a, a + na, b, b + nb, d, c), "set_symmetric_difference", 0, 2)
/*@GROUP name=set_symmetric_difference_int props=C06,C02 kind=B bound=len1<=4,len2<=4 unwind=11 solver=kissat objbits=12 timeout=600@*/
void h_set_symmetric_difference_int(void) B_SETOP(4, OP_SYM, a_set_ops_int(3, a, a + na, b, b + nb, d), "set_symmetric_difference", 4, 4)
/*@GROUP name=set_symmetric_difference_int_t props=C06,C02 kind=B bound=len1<=6,len2<=6 unwind=15 solver=kissat tier=thorough objbits=13 timeout=3000@*/
void h_set_symmetric_difference_int_t(void) B_SETOP(6, OP_SYM, a_set_ops_int(3, a, a + na, b, b + nb, d), "set_symmetric_difference", 4, 4)
/*@GROUP name=set_ops_mod3 props=C06,C02 kind=B bound=len1<=3,len2<=3,values_in_[-4,4] unwind=9 solver=kissat objbits=12 timeout=600@*/
void h_set_ops_mod3(void) B_SETOP(3, OP_SYM, a_set_symmetric_difference(a, a + na, b, b + nb, d, c), "set_symmetric_difference", 3, 3)
/*@GROUP name=set_ops_mod3_t props=C06,C02 kind=B bound=len1<=5,len2<=5,values_in_[-4,4] unwind=13 solver=kissat tier=thorough objbits=13 timeout=3000@*/
void h_set_ops_mod3_t(void) B_SETOP(5, OP_SYM, a_set_symmetric_difference(a, a + na, b, b + nb, d, c), "set_symmetric_difference", 3, 3)
/*@GROUP name=transform_reduce props=C06,C02 kind=B bound=len<=4 unwind=7 solver=kissat objbits=12 timeout=600@*/
void h_transform_reduce(void) B_TRANSFORM_REDUCE(4)
/*@GROUP name=transform_reduce_t props=C06,C02 kind=B bound=len<=6 unwind=9 solver=kissat tier=thorough objbits=13 timeout=3000@*/
void h_transform_reduce_t(void) B_TRANSFORM_REDUCE(6)

/* ============================================================ iterator adaptors ===============================================
 * Positions are symbolic inside one 8-element array (pointer arithmetic does not depend on the array size); the adaptor code on int* is
 * loop-free (kind F); the wrapper-iterator instantiations of advance/next/prev/distance loop |n| <= 8 times (kind B). */
/*@COMMON@*/
typedef struct etl_static_vector_int_4 V4;
#define V4SZ(v) ((v).b0._size)
#define V4EL(v, i) ((v).b0._data._buf[i])
#define POS(i) VF_INPUT(unsigned char, i); VF_ASSUME(i <= 8)
#define B_FRONT_COPY(C) { VF_INPUT(struct vf_front_box, b); LEN(c, C); IN(int, s, 4); VF_ASSUME(V4SZ(b.v) <= 4 && V4SZ(b.v) + c <= 4); V4 o = b.v; int n0 = V4SZ(b.v); \
  SPLIT(c, C) SPLIT(n0, 4) { MK(int, s, c, 4); i_front_copy(&b, s, s + c); \
    VF_ASSERT(V4SZ(b.v) == n0 + c, "copy(first, last, front_inserter(c)) prepends last - first elements"); \
    FORK(k, 4, n0 + c) VF_ASSERT(V4EL(b.v, k) == (k < c ? s_in[c - 1 - k] : V4EL(o, k - c)), "copy(first, last, front_inserter(c)): the source range reversed, then the old elements"); } \
  VF_REACH(); }

/*@GROUP name=reverse_iterator props=C06,C02 kind=F unwind=2 timeout=600@*/
void h_reverse_iterator(void) { VF_INPUT_ARR(int, a, 8); POS(i); POS(j); VF_INPUT(signed char, d); int *p = a + i, *q = a + j, *res;
  VF_ASSERT(ri_base(p) == p && ri_make(p) == p && ri_convert(p) == p && ri_convert_assign(p, q) == p, "reverse_iterator(x).base() == x; make_reverse_iterator; converting construction / assignment copy base()");
  VF_ASSERT(ri_default_base() == 0, "reverse_iterator() value-initialises current");
  if (i >= 1) { VF_ASSERT(ri_deref(p) == p - 1 && ri_arrow(p) == p - 1, "*r and r.operator->() address *(current - 1)"); }
  if (i >= 1) { VF_ASSERT(ri_preinc(p, &res) == p - 1 && res == p - 1, "++r decrements current and returns *this"); VF_ASSERT(ri_postinc(p, &res) == p - 1 && res == p, "r++ decrements current and returns the old value"); }
  if (i <= 7) { VF_ASSERT(ri_predec(p, &res) == p + 1 && res == p + 1, "--r increments current and returns *this"); VF_ASSERT(ri_postdec(p, &res) == p + 1 && res == p, "r-- increments current and returns the old value"); }
  if (d <= i && i - d <= 8) { VF_ASSERT(ri_plus(p, d) == p - d && ri_plus_l(p, d) == p - d && ri_plus_eq(p, d) == p - d, "r + n, n + r, r += n: current - n"); }
  if (-d <= i && i + d <= 8) { VF_ASSERT(ri_minus(p, d) == p + d && ri_minus_eq(p, d) == p + d, "r - n, r -= n: current + n"); }
  if (d + 1 <= i && i - d - 1 <= 7) { VF_ASSERT(ri_index(p, d) == p - d - 1, "r[n] is *(current - n - 1)"); }
  VF_ASSERT(ri_diff(p, q) == j - i, "r1 - r2 == r2.base() - r1.base()");
  VF_REACH(); }

/*@GROUP name=reverse_iterator_cmp props=C06,C02 kind=F unwind=2 timeout=600@*/
void h_reverse_iterator_cmp(void) { VF_INPUT_ARR(int, a, 8); POS(i); POS(j); int *p = a + i, *q = a + j;
  VF_KNOWN(C06_reverse_iterator_relational, i != j);
  unsigned r = ri_cmp(p, q);
  VF_ASSERT(((r & 1u) != 0) == (i == j) && ((r & 2u) != 0) == (i != j), "reverse_iterator ==, != compare base()");
  VF_ASSERT(((r & 4u) != 0) == (i > j) && ((r & 8u) != 0) == (i >= j) && ((r & 16u) != 0) == (i < j) && ((r & 32u) != 0) == (i <= j), "[reverse.iter.cmp]: x < y iff x.base() > y.base(), x <= y iff x.base() >= y.base(), x > y iff x.base() < y.base(), x >= y iff x.base() <= y.base()");
  VF_REACH(); }

/*@GROUP name=reverse_iterator_copy props=C06,C02 kind=B bound=len<=6 unwind=9 timeout=600@*/
void h_reverse_iterator_copy(void) { LEN(n, 6); IN(int, a, 6);
  SPLIT(n, 6) { MK(int, a, n, 6); OUT(int, d, n);
    int *r = ri_copy(a, a + n, d);
    VF_ASSERT(r == d + n, "copy(rbegin, rend, out) returns out + n");
    FORK(k, 6, n) VF_ASSERT(d[k] == a_in[n - 1 - k], "a range of reverse_iterators traverses the elements backwards"); }
  VF_REACH(); }

/*@GROUP name=back_insert_iterator props=C06,C02,C05 kind=K unwind=7 timeout=600@*/
void h_back_insert_iterator(void) { VF_INPUT(V4, v); VF_INPUT(int, x); VF_INPUT(unsigned char, which); LEN(c, 4); IN(int, s, 4); VF_ASSUME(V4SZ(v) <= 4); V4 o = v; unsigned n0 = V4SZ(v);
  if (which <= 1) { VF_ASSUME(n0 < 4); if (which == 0) i_back_insert(&v, &x); else i_back_insert_rv(&v, x);
    VF_ASSERT(V4SZ(v) == n0 + 1 && V4EL(v, n0) == x, "*it = x (copy and move overload) is c.push_back(x); *it, ++it, it++ are no-ops");
    FORK(k, 4, n0) VF_ASSERT(V4EL(v, k) == V4EL(o, k), "back_insert_iterator keeps the existing elements"); }
  else { VF_ASSUME(n0 + c <= 4); SPLIT(c, 4) { MK(int, s, c, 4); i_back_copy(&v, s, s + c);
    VF_ASSERT(V4SZ(v) == n0 + c, "copy(first, last, back_inserter(c)) appends last - first elements");
    FORK(k, 4, n0 + c) VF_ASSERT(V4EL(v, k) == (k < (int)n0 ? V4EL(o, k) : s_in[k - n0]), "copy(first, last, back_inserter(c)): old elements, then the source range in order"); } }
  VF_REACH(); }

/*@GROUP name=front_insert_iterator props=C06,C02,C05 kind=K unwind=7 solver=kissat timeout=600@*/
void h_front_insert_iterator(void) { VF_INPUT(struct vf_front_box, b); VF_INPUT(int, x); VF_INPUT(unsigned char, which); VF_ASSUME(which <= 1 && V4SZ(b.v) < 4); V4 o = b.v; int n0 = V4SZ(b.v);
  SPLIT(which, 1) SPLIT(n0, 3) { if (which == 0) i_front_insert(&b, &x); else i_front_insert_rv(&b, x);
    VF_ASSERT(V4SZ(b.v) == n0 + 1 && V4EL(b.v, 0) == x, "*it = x (copy and move overload) is c.push_front(x); *it, ++it, it++ are no-ops");
    FORK(k, 4, n0) VF_ASSERT(V4EL(b.v, k + 1) == V4EL(o, k), "front_insert_iterator keeps the existing elements behind the new one"); }
  VF_REACH(); }

/*@GROUP name=front_insert_copy props=C06,C02,C05 kind=B bound=count<=2 unwind=7 solver=kissat objbits=13 timeout=900@*/
void h_front_insert_copy(void) B_FRONT_COPY(2)
/*@GROUP name=front_insert_copy_t props=C06,C02,C05 kind=K unwind=7 solver=kissat objbits=13 timeout=3000 tier=thorough@*/
void h_front_insert_copy_t(void) B_FRONT_COPY(4)

/*@GROUP name=iter_ops_ptr props=C06,C02 kind=F unwind=2 timeout=600@*/
void h_iter_ops_ptr(void) { VF_INPUT_ARR(int, a, 8); POS(i); POS(j); VF_INPUT(signed char, d); int *p = a + i, *q = a + j;
  if (-d <= i && i + d <= 8) { VF_ASSERT(it_next(p, d) == p + d && it_advance(p, d) == p + d && it_advance_int(p, d) == p + d, "next(it, n) / advance(it, n) on a random access iterator: it + n (n may be negative)"); }
  if (d <= i && i - d <= 8) { VF_ASSERT(it_prev(p, d) == p - d, "prev(it, n) == it - n"); }
  if (i <= 7) { VF_ASSERT(it_next1(p) == p + 1, "next(it) == it + 1"); }
  if (i >= 1) { VF_ASSERT(it_prev1(p) == p - 1, "prev(it) == it - 1"); }
  VF_ASSERT(it_distance(p, q) == j - i, "distance(first, last) == last - first for random access iterators (may be negative)");
  VF_REACH(); }

/*@GROUP name=iter_ops_wrapped props=C06,C02 kind=B bound=|n|<=8 unwind=11 timeout=600@*/
void h_iter_ops_wrapped(void) { VF_INPUT_ARR(int, a, 8); POS(i); POS(j); VF_INPUT(signed char, d); int *p = a + i, *q = a + j;
  if (d >= 0 && i + d <= 8) { VF_ASSERT(it_next_fwd(p, d) == p + d && it_advance_fwd(p, d) == p + d, "next / advance on a forward iterator: n increments"); }
  if (-d <= i && i + d <= 8) { VF_ASSERT(it_next_bidi(p, d) == p + d && it_advance_bidi(p, d) == p + d, "next / advance on a bidirectional iterator: n increments or -n decrements"); }
  if (d <= i && i - d <= 8) { VF_ASSERT(it_prev_bidi(p, d) == p - d, "prev on a bidirectional iterator: n decrements or -n increments"); }
  if (i <= j) { VF_ASSERT(it_distance_fwd(p, q) == j - i && it_distance_bidi(p, q) == j - i, "distance(first, last): number of increments from first to last"); }
  VF_REACH(); }

/* ======================================= second wave: move-sensitive elements, callables returning int =========================
 * (1) hm_*: the algorithms that move / assign elements inside one range, instantiated with vf::Hm {int v} (driver.cpp): move construction
 *     and move assignment leave the source at -1 and x = move(x) leaves x at -1.  MoveAssignable says nothing about a self-move and the
 *     std:: algorithms never perform one, so the postconditions are stated on the VALUES: no input value is -1, and every element the
 *     standard keeps / permutes must still carry its original value (in the prescribed position).
 * (2) ip_* (and the predicates / comparators of the hm_* groups): callables returning int whose truthy values are 2, 0x100 and INT_MIN:
 *     [algorithms.requirements] only requires the result to be contextually convertible to bool; the expected results below are computed
 *     from `pred(x) != 0`.  Selectors: unary p: 0 x & 2, 1 x & 0x100, 2 x & INT_MIN; binary p: 0 equality, 1 equality of the low two bits
 *     (peq); comparator c: 0 less, 1 greater, 2 less on the low two bits (lt / ltk), 4 the overload without comparator. */
/*@COMMON@*/
typedef struct vf_Hm HM;
typedef struct vf_Hc HC;
typedef struct etl_static_vector_vf_Hc_4 HV4;   /* one-byte twin Hc of Hm: see driver.cpp */
#define HV4SZ(x) ((x).b0._size)
#define HV4EL(x, i) (((HC *)(x).b0._data)[i].v)
static _Bool ipredc(int p, int x) { return p == 0 ? (x & 2) != 0 : (p == 1 ? (x & 0x40) != 0 : x < 0); }
/* Hm input: all values symbolic, none is -1 (the moved-from mark) */
#define HIN(name, MAX) VF_INPUT_ARR(HM, name##_in, (MAX) + 1); for (int vf_h_##name = 0; vf_h_##name <= (MAX); ++vf_h_##name) VF_ASSUME(name##_in[vf_h_##name].v != -1)
/* tagged Hm input: key = v >> 4 symbolic (28 bits), tag = v & 15 = TAG0 + index < 15 (element identity; v == -1 is impossible) */
#define HTIN(name, MAX, TAG0) VF_INPUT_ARR(HM, name##_in, (MAX) + 1); for (int vf_h_##name = 0; vf_h_##name <= (MAX); ++vf_h_##name) name##_in[vf_h_##name].v = (int)(((unsigned)name##_in[vf_h_##name].v & ~15u) | (unsigned)((TAG0) + vf_h_##name))
#define HEQ(x, y) ((x).v == (y).v)
/* a second exact-size heap copy of src[0..n) */
#define MK2(T, name, src, n, MAX) T *name = (T *)VF_ALLOC((ul)(n) * sizeof(T)); for (int vf_i_##name = 0; vf_i_##name < (MAX); ++vf_i_##name) if (vf_i_##name < (n)) name[vf_i_##name] = src[vf_i_##name]
static _Bool ipred(int p, int x) { return p == 0 || p == 3 ? (x & 2) != 0 : (p == 1 ? (x & 0x100) != 0 : x < 0); }   /* p == 3: x & 2 again, the driver's callable returns bool */
/* comparator selector with the value 3 (a % 3) left out: 0..2 and 4 */
#define SELC(c) VF_INPUT(unsigned char, c); VF_ASSUME(c <= 4 && c != 3)
/* SPLIT over [LO, HI] only (symbolic execution also walks the branches SEL has excluded) */
#define SPLITR(n, LO, HI) for (int vf_c_##n = (LO); vf_c_##n <= (HI); ++vf_c_##n) if (vf_c_##n == (int)(n)) for (int vf_once_##n = 1, n = vf_c_##n; vf_once_##n; vf_once_##n = 0)

/* ---- remove / remove_if [alg.remove]: w == 0 remove(value), w - 1 the predicate of remove_if */
#define B_HM_REMOVE(L) { LEN(n, L); SEL(w, 0, 3); VF_INPUT(HM, val); HIN(a, L); \
  SPLIT(w, 3) SPLIT(n, L) { MK(HM, a, n, L); int cnt = 0; \
    HM *r = w == 0 ? hm_remove(a, a + n, &val) : hm_remove_if(a, a + n, w - 1); \
    FORK(k, L, n) if (!(w == 0 ? a_in[k].v == val.v : ipred(w - 1, a_in[k].v))) { VF_ASSERT(a[cnt].v == a_in[k].v, "remove / remove_if: the elements that are not removed keep their values (nothing is move-assigned onto itself) and their relative order"); ++cnt; } \
    VF_ASSERT(r == a + cnt, "remove / remove_if returns the end of the range of the elements that are not removed"); } \
  VF_REACH(); }
/* ---- unique [alg.unique]: w == 0 operator==, 1 hm_eq, 2 hm_low2_eq */
#define B_HM_UNIQUE(L) { LEN(n, L); SEL(w, 0, 2); HIN(a, L); \
  SPLIT(w, 2) SPLIT(n, L) { MK(HM, a, n, L); int cnt = 0; \
    HM *r = hm_unique(a, a + n, w); \
    FORK(k, L, n) if (k == 0 || !peq(w == 2, a_in[k - 1].v, a_in[k].v)) { VF_ASSERT(a[cnt].v == a_in[k].v, "unique: the first element of every group of consecutive equivalent elements keeps its value (nothing is move-assigned onto itself), in order"); ++cnt; } \
    VF_ASSERT(r == a + cnt, "unique returns the end of the resulting range"); } \
  VF_REACH(); }
/* ---- rotate / shift [alg.rotate] [alg.shift] */
#define B_HM_ROTATE(L) { LEN(n, L); VF_INPUT(unsigned char, m); VF_ASSUME(m <= n); HIN(a, L); \
  SPLIT(n, L) SPLIT(m, L) { MK(HM, a, n, L); \
    HM *r = hm_rotate(a, a + m, a + n); \
    VF_ASSERT(r == a + (n - m), "rotate returns first + (last - middle)"); \
    FORK(k, L, n) VF_ASSERT(a[k].v == a_in[(k + m) % n].v, "rotate: out[k] carries the value of in[(k + m) mod n] (no element is left moved-from)"); } \
  VF_REACH(); }
#define B_HM_SHIFT(L) { LEN(n, L); VF_INPUT(signed char, s); VF_ASSUME(s >= 0 && s <= n + 1); VF_INPUT_BOOL(right); HIN(a, L); \
  SPLIT(right, 1) SPLIT(n, L) { MK(HM, a, n, L); \
    HM *r = right ? hm_shift_right(a, a + n, (long)s) : hm_shift_left(a, a + n, (long)s); \
    if (s == 0 || s >= n) { VF_ASSERT(r == (right ? (s == 0 ? a : a + n) : (s == 0 ? a + n : a)), "shift_left / shift_right with n == 0 or n >= last - first: return value"); \
      FORK(k, L, n) VF_ASSERT(a[k].v == a_in[k].v, "shift_left / shift_right with n == 0 or n >= last - first have no effects"); } \
    else if (right) { VF_ASSERT(r == a + s, "shift_right returns first + n"); FORK(k, L, n - s) VF_ASSERT(a[k + s].v == a_in[k].v, "shift_right: first+n+i carries the value of first+i"); } \
    else { VF_ASSERT(r == a + (n - s), "shift_left returns first + (last - first - n)"); FORK(k, L, n - s) VF_ASSERT(a[k].v == a_in[k + s].v, "shift_left: first+i carries the value of first+n+i"); } } \
  VF_REACH(); }
/* ---- partition / stable_partition [alg.partitions] */
#define B_HM_PARTITION(L) { LEN(n, L); SEL(p, 0, 2); VF_INPUT(int, g); HIN(a, L); \
  SPLIT(p, 2) SPLIT(n, L) { MK(HM, a, n, L); int cnt = 0, gb = 0, ga = 0; \
    FORK(k, L, n) { cnt += ipred(p, a_in[k].v); gb += a_in[k].v == g; } \
    HM *r = hm_partition(a, a + n, p); \
    VF_ASSERT(r == a + cnt, "partition returns first + #{elements with pred(x) != 0}"); \
    FORK(k, L, n) { ga += a[k].v == g; VF_ASSERT(a[k].v != -1, "partition leaves no element moved-from"); VF_ASSERT(ipred(p, a[k].v) == (k < cnt), "partition: pred(x) != 0 exactly on [first, ret)"); } \
    VF_ASSERT(ga == gb, "partition permutes: every value occurs as often as before"); } \
  VF_REACH(); }
#define B_HM_STABLE_PARTITION(L, PLO, KNOWN) { LEN(n, L); SEL(p, PLO, 3); HIN(a, L); \
  SPLITR(p, PLO, 3) SPLIT(n, L) { MK(HM, a, n, L); int e[(L) + 1]; int cnt = 0, w = 0; \
    FORK(k, L, n) if (ipred(p, a_in[k].v)) { e[w] = a_in[k].v; ++w; } cnt = w; \
    FORK(k, L, n) if (!ipred(p, a_in[k].v)) { e[w] = a_in[k].v; ++w; } \
    KNOWN; \
    HM *r = hm_stable_partition(a, a + n, p); \
    VF_ASSERT(r == a + cnt, "stable_partition returns first + #{elements with pred(x) != 0}"); \
    FORK(k, L, n) VF_ASSERT(a[k].v == e[k], "stable_partition: the satisfying values in their original order, then the others in their original order (none moved-from)"); } \
  VF_REACH(); }
/* ---- reverse, swap_ranges, iter_swap [alg.reverse] [alg.swap] */
#define B_HM_SWAPS(L) { LEN(n, L); HIN(a, L); HIN(b, L); VF_INPUT(unsigned char, i); VF_INPUT(unsigned char, j); VF_ASSUME(i < 4 && j < 4); \
  SPLIT(n, L) { MK(HM, a, n, L); MK(HM, b, n, L); HM q[4]; for (int k = 0; k < 4; ++k) q[k] = a_in[k]; \
    hm_reverse(a, a + n); \
    FORK(k, L, n) VF_ASSERT(a[k].v == a_in[n - 1 - k].v, "reverse: out[k] carries the value of in[n - 1 - k]"); \
    HM *r = hm_swap_ranges(a, a + n, b); \
    VF_ASSERT(r == b + n, "swap_ranges returns first2 + (last1 - first1)"); \
    FORK(k, L, n) VF_ASSERT(a[k].v == b_in[k].v && b[k].v == a_in[n - 1 - k].v, "swap_ranges exchanges the values of the two ranges element-wise"); \
    hm_iter_swap(q + i, q + j); \
    for (int k = 0; k < 4; ++k) VF_ASSERT(q[k].v == a_in[k == i ? j : (k == j ? i : k)].v, "iter_swap(a, b) exchanges *a and *b (iter_swap(a, a) keeps the value) and touches nothing else"); } \
  VF_REACH(); }
/* ---- move / move_backward / copy_backward on OVERLAPPING ranges of one buffer [alg.move] [alg.copy]: w == 0 move([s, n) -> [0, n - s)),
 * 1 move_backward([0, n - s) -> [s, n)), 2 copy_backward likewise; 1 <= s <= n.  The standard performs exactly one move assignment per
 * element, so a source element that is not overwritten afterwards is moved-from (-1); with copy_backward it keeps its value. */
#define B_HM_MOVE(L) { LEN(n, L); LEN(s, L); VF_ASSUME(s >= 1 && s <= n); SEL(w, 0, 2); HIN(a, L); \
  SPLIT(w, 2) SPLIT(n, L) SPLIT(s, L) { MK(HM, a, n, L); int m = n - s; \
    if (w == 0) { HM *r = hm_move(a + s, a + n, a); VF_ASSERT(r == a + m, "move returns result + (last - first)"); \
      FORK(k, L, n) VF_ASSERT(a[k].v == (k < m ? a_in[k + s].v : (k >= s ? -1 : a_in[k].v)), "move: result+i carries the value of first+i; a source element that is not overwritten is moved-from exactly once; nothing else changes"); } \
    else { HM *r = w == 1 ? hm_move_backward(a, a + m, a + n) : hm_copy_backward(a, a + m, a + n); VF_ASSERT(r == a + s, "move_backward / copy_backward return result - (last - first)"); \
      FORK(k, L, n) VF_ASSERT(a[k].v == (k >= s ? a_in[k - s].v : (k < m && w == 1 ? -1 : a_in[k].v)), "move_backward / copy_backward: result-i carries the value of last-i; a source element that is not overwritten is moved-from exactly once (move_backward) or unchanged (copy_backward)"); } } \
  VF_REACH(); }
/* ---- inplace_merge [alg.merge]: closed form as B_INPLACE_MERGE, on Hm values (key = v >> 4, tag = v & 15) */
#define B_HM_INPLACE_MERGE(L, CLO, CHI) { LEN(n, L); VF_INPUT(unsigned char, m); VF_ASSUME(m <= n); SEL(c, CLO, CHI); VF_ASSUME(c != 3); HTIN(a, L, 0); \
  SPLITR(c, CLO, CHI) if (c != 3) { EMK(HM, a, n, L); \
    FORK(k, (L) - 1, n - 1) if (k + 1 != m) VF_ASSUME(!ltk(c, a_in[k + 1].v, a_in[k].v)); \
    hm_inplace_merge(a, a + m, a + n, c); \
    FORK(i, L, m) { int pos = i; FORK(j, L, n) if (j >= m) pos += ltk(c, a_in[j].v, a_in[i].v); VF_ASSERT(a[pos].v == a_in[i].v, "inplace_merge: an element of the first half lands, value intact, behind exactly the second-half elements less than it"); } \
    FORK(j, L, n) if (j >= m) { int pos = j - m; FORK(i, L, m) pos += !ltk(c, a_in[j].v, a_in[i].v); VF_ASSERT(a[pos].v == a_in[j].v, "inplace_merge: an element of the second half lands, value intact, behind exactly the first-half elements not greater than it"); } \
    TAIL(a, n, L, HEQ); } \
  VF_REACH(); }
/* ---- sorting [alg.sort]: every output element is an input element with its value intact, no duplicates, sorted (and stable) */
#define HM_SORTED_PERM(L, n, c, STABLE) \
    FORK(k, L, n) VF_ASSERT(TAG(a[k].v) < n && a[k].v == a_in[TAG(a[k].v)].v, "sort: every output element is an input element with its value intact (none is left moved-from)"); \
    FORK(j, L, n) FORK(k, L, n) if (j < k) VF_ASSERT(TAG(a[j].v) != TAG(a[k].v), "sort: no input element is duplicated (permutation)");
#define B_HM_SORT(L, CALL, NMIN, STABLE) { LEN(n, L); VF_ASSUME(n >= (NMIN)); SELC(c); HTIN(a, L, 0); \
  SPLIT(c, 4) if (c != 3) SPLIT(n, L) { MK(HM, a, n, L); \
    CALL(a, a + n, c); \
    HM_SORTED_PERM(L, n, c, STABLE) \
    FORK(k, (L) - 1, n - 1) { VF_ASSERT(!ltk(c, a[k + 1].v, a[k].v), "sort: the result is sorted with respect to comp (comp(x, y) != 0)"); \
      if (STABLE) VF_ASSERT(ltk(c, a[k].v, a[k + 1].v) || TAG(a[k].v) < TAG(a[k + 1].v), "stable sort: equivalent elements keep their original order"); } } \
  VF_REACH(); }
#define B_HM_PARTIAL_SORT(L) { LEN(n, L); VF_INPUT(unsigned char, m); VF_ASSUME(m <= n); SELC(c); VF_INPUT_BOOL(nth); HTIN(a, L, 0); \
  SPLIT(c, 4) if (c != 3) SPLIT(n, L) { MK(HM, a, n, L); \
    if (nth) hm_nth_element(a, a + m, a + n, c); else hm_partial_sort(a, a + m, a + n, c); \
    HM_SORTED_PERM(L, n, c, 0) \
    if (nth) { FORK(i, L, n) FORK(j, L, n) if (i <= m && j >= m && i < j) VF_ASSERT(!ltk(c, a[j].v, a[i].v), "nth_element: for i in [first, nth], j in [nth, last): !comp(a[j], a[i])"); } \
    else { FORK(k, (L) - 1, m - 1) VF_ASSERT(!ltk(c, a[k + 1].v, a[k].v), "partial_sort: [first, middle) is sorted"); \
      FORK(i, L, m) FORK(j, L, n) if (j >= m) VF_ASSERT(!ltk(c, a[j].v, a[i].v), "partial_sort: no element of [middle, last) is less than an element of [first, middle)"); } } \
  VF_REACH(); }
/* ---- erase / erase_if on static_vector<Hc, 4> [vector.erasure]: w == 0 erase(c, value), w - 1 the predicate of erase_if */
#define B_HM_ERASE() { VF_INPUT(HV4, v); SEL(w, 0, 3); VF_INPUT(HC, val); VF_ASSUME(HV4SZ(v) <= 4); HV4 o = v; int n = HV4SZ(v); for (int k = 0; k < 4; ++k) VF_ASSUME(HV4EL(o, k) != -1); \
  SPLIT(w, 3) SPLIT(n, 4) { int cnt = 0; \
    ul r = w == 0 ? hm_erase(&v, &val) : hm_erase_if(&v, w - 1); \
    FORK(k, 4, n) if (!(w == 0 ? HV4EL(o, k) == val.v : ipredc(w - 1, HV4EL(o, k)))) { VF_ASSERT(HV4EL(v, cnt) == HV4EL(o, k), "erase / erase_if: the elements that are not erased keep their values and their relative order"); ++cnt; } \
    VF_ASSERT(HV4SZ(v) == cnt && r == (ul)(n - cnt), "erase / erase_if: size() shrinks by the number of erased elements, which is returned"); } \
  VF_REACH(); }

/* ---- (2) int ranges, unary predicates returning int: the non-modifying queries */
#define B_IP_QUERY(L) { LEN(n, L); SEL(p, 0, 2); IN(int, a, L); \
  SPLIT(p, 2) SPLIT(n, L) { MK(int, a, n, L); int cnt = 0, ft = n, ff = n; _Bool part = 1; \
    for (int k = (L) - 1; k >= 0; --k) if (k < n) { if (ipred(p, a_in[k])) { ++cnt; ft = k; } else ff = k; } \
    FORK(k, L, n) if (k > ff && ipred(p, a_in[k])) part = 0; \
    VF_ASSERT(ip_count_if(a, a + n, p) == cnt, "count_if returns the NUMBER of elements with pred(x) != 0"); \
    VF_ASSERT(ip_find_if(a, a + n, p) == a + ft, "find_if returns the first element with pred(x) != 0, else last"); \
    VF_ASSERT(ip_find_if_not(a, a + n, p) == a + ff, "find_if_not returns the first element with pred(x) == 0, else last"); \
    VF_ASSERT(ip_all_of(a, a + n, p) == (ff == n) && ip_any_of(a, a + n, p) == (ft != n) && ip_none_of(a, a + n, p) == (ft == n), "all_of / any_of / none_of"); \
    VF_ASSERT(ip_is_partitioned(a, a + n, p) == part, "is_partitioned: true iff every element with pred(x) != 0 precedes every element with pred(x) == 0"); \
    if (part) VF_ASSERT(ip_partition_point(a, a + n, p) == a + ff, "partition_point returns the first element with pred(x) == 0, else last"); \
    FORK(k, L, n) VF_ASSERT(a[k] == a_in[k], "non-modifying algorithms leave the range unchanged"); } \
  VF_REACH(); }
/* copy_if, remove_copy_if, partition_copy, replace_if */
#define B_IP_COPY(L) { LEN(n, L); SEL(p, 0, 2); VF_INPUT(int, nv); IN(int, a, L); \
  SPLIT(p, 2) SPLIT(n, L) { MK(int, a, n, L); int cnt = 0, wt = 0, wf = 0; FORK(k, L, n) cnt += ipred(p, a_in[k]); \
    SPLIT(cnt, L) if (cnt <= n) { OUT(int, dt, cnt); OUT(int, df, n - cnt); OUT(int, ct, cnt); OUT(int, cf, n - cnt); int *rt, *rf; \
      ip_partition_copy(a, a + n, dt, df, &rt, &rf, p); \
      VF_ASSERT(rt == dt + cnt && rf == df + (n - cnt), "partition_copy returns the ends of the two output ranges"); \
      VF_ASSERT(ip_copy_if(a, a + n, ct, p) == ct + cnt, "copy_if returns the end of the output range"); \
      VF_ASSERT(ip_remove_copy_if(a, a + n, cf, p) == cf + (n - cnt), "remove_copy_if returns the end of the output range"); \
      FORK(k, L, n) { VF_ASSERT(a[k] == a_in[k], "the copying algorithms leave the source unchanged"); \
        if (ipred(p, a_in[k])) { VF_ASSERT(dt[wt] == a_in[k] && ct[wt] == a_in[k], "partition_copy / copy_if: elements with pred(x) != 0 to out_true / result, in order"); ++wt; } \
        else { VF_ASSERT(df[wf] == a_in[k] && cf[wf] == a_in[k], "partition_copy / remove_copy_if: elements with pred(x) == 0 to out_false / result, in order"); ++wf; } } \
      ip_replace_if(a, a + n, p, &nv); \
      FORK(k, L, n) VF_ASSERT(a[k] == (ipred(p, a_in[k]) ? nv : a_in[k]), "replace_if assigns new_value to exactly the elements with pred(x) != 0"); } } \
  VF_REACH(); }
/* remove_if, partition on int (the Hm groups cover them too; here all three predicates over plain ints) */
#define B_IP_REMOVE_PARTITION(L) { LEN(n, L); SEL(p, 0, 2); VF_INPUT(int, g); IN(int, a, L); \
  SPLIT(p, 2) SPLIT(n, L) { MK(int, a, n, L); MK2(int, b, a_in, n, L); int cnt = 0, w = 0, gb = 0, ga = 0; \
    FORK(k, L, n) { cnt += ipred(p, a_in[k]); gb += a_in[k] == g; } \
    int *r = ip_remove_if(a, a + n, p); \
    FORK(k, L, n) if (!ipred(p, a_in[k])) { VF_ASSERT(a[w] == a_in[k], "remove_if keeps exactly the elements with pred(x) == 0, in order"); ++w; } \
    VF_ASSERT(r == a + w, "remove_if returns the end of the resulting range"); \
    int *q = ip_partition(b, b + n, p); \
    VF_ASSERT(q == b + cnt, "partition returns first + #{elements with pred(x) != 0}"); \
    FORK(k, L, n) { ga += b[k] == g; VF_ASSERT(ipred(p, b[k]) == (k < cnt), "partition: pred(x) != 0 exactly on [first, ret)"); } \
    VF_ASSERT(ga == gb, "partition permutes: every value occurs as often as before"); } \
  VF_REACH(); }
/* binary predicates returning int on one range: adjacent_find, unique_copy, unique */
#define B_IP_ADJACENT(L) { LEN(n, L); SEL(p, 0, 1); IN(int, a, L); \
  SPLIT(p, 1) SPLIT(n, L) { MK(int, a, n, L); int adj = n, e[(L) + 1], w = 0; \
    for (int k = (L) - 2; k >= 0; --k) if (k + 1 < n && peq(p, a_in[k], a_in[k + 1])) adj = k; \
    FORK(k, L, n) if (k == 0 || !peq(p, a_in[k - 1], a_in[k])) { e[w] = a_in[k]; ++w; } \
    VF_ASSERT(ip_adjacent_find(a, a + n, p) == a + adj, "adjacent_find(pred) returns the first i with pred(*i, *(i + 1)) != 0, else last"); \
    SPLIT(w, L) { OUT(int, d, w); VF_ASSERT(ip_unique_copy(a, a + n, d, p) == d + w, "unique_copy(pred) returns the end of the output range"); \
      FORK(k, L, w) VF_ASSERT(d[k] == e[k], "unique_copy(pred) copies the first element of every group of consecutive equivalent elements"); \
      FORK(k, L, n) VF_ASSERT(a[k] == a_in[k], "the non-modifying / copying algorithms leave the source unchanged"); \
      VF_ASSERT(ip_unique(a, a + n, p) == a + w, "unique(pred) returns the end of the resulting range"); \
      FORK(k, L, w) VF_ASSERT(a[k] == e[k], "unique(pred) keeps the first element of every group of consecutive equivalent elements"); } } \
  VF_REACH(); }
/* binary predicates returning int on two ranges: equal, mismatch (3- and 4-iterator forms) */
#define B_IP_EQUAL(L) { LEN(n, L); LEN(m, L); SEL(p, 0, 1); IN(int, a, L); IN(int, b, L); \
  SPLIT(p, 1) SPLIT(n, L) SPLIT(m, L) { MK(int, a, n, L); MK(int, b, m, L); int mm = 0; int *r1, *r2; \
    { _Bool go = 1; FORK(k, L, n) if (go && k < m && peq(p, a_in[k], b_in[k])) mm = k + 1; else go = 0; } \
    VF_ASSERT(ip_equal4(a, a + n, b, b + m, p) == (n == m && mm == n), "equal(f1, l1, f2, l2, pred): same length and pred != 0 for every pair"); \
    ip_mismatch4(a, a + n, b, b + m, p, &r1, &r2); \
    VF_ASSERT(r1 == a + mm && r2 == b + mm, "mismatch(f1, l1, f2, l2, pred) returns the first pair with pred == 0 (or the end of the shorter range)"); \
    if (m >= n) { VF_ASSERT(ip_equal3(a, a + n, b, p) == (mm == n), "equal(f1, l1, f2, pred): pred != 0 for every pair"); \
      ip_mismatch3(a, a + n, b, p, &r1, &r2); VF_ASSERT(r1 == a + mm && r2 == b + mm, "mismatch(f1, l1, f2, pred) returns the first pair with pred == 0"); } \
    FORK(k, L, n) VF_ASSERT(a[k] == a_in[k], "non-modifying algorithms leave range 1 unchanged"); FORK(k, L, m) VF_ASSERT(b[k] == b_in[k], "non-modifying algorithms leave range 2 unchanged"); } \
  VF_REACH(); }
/* comparators returning int on one range: is_sorted, is_sorted_until, min / max / minmax_element */
#define B_IP_ORDER(L) { LEN(n, L); SEL(c, 0, 2); IN(int, a, L); \
  SPLIT(c, 2) SPLIT(n, L) { MK(int, a, n, L); int su = n, mn = 0, mx = 0, mxl = 0; int *lo, *hi; \
    for (int k = (L) - 1; k >= 1; --k) if (k < n && lt(c, a_in[k], a_in[k - 1])) su = k; \
    FORK(k, L, n) { if (lt(c, a_in[k], a_in[mn])) mn = k; if (lt(c, a_in[mx], a_in[k])) mx = k; if (!lt(c, a_in[k], a_in[mxl])) mxl = k; } \
    VF_ASSERT(ip_is_sorted_until(a, a + n, c) == a + su, "is_sorted_until(comp) returns the first i with comp(*i, *(i - 1)) != 0, else last"); \
    VF_ASSERT(ip_is_sorted(a, a + n, c) == (su == n), "is_sorted(comp)"); \
    VF_ASSERT(ip_min_element(a, a + n, c) == a + mn, "min_element(comp) returns the first smallest element (last for an empty range)"); \
    VF_ASSERT(ip_max_element(a, a + n, c) == a + mx, "max_element(comp) returns the first largest element (last for an empty range)"); \
    ip_minmax_element(a, a + n, c, &lo, &hi); \
    VF_ASSERT(lo == a + mn && hi == a + mxl, "minmax_element(comp) returns the first smallest and the LAST largest element"); \
    FORK(k, L, n) VF_ASSERT(a[k] == a_in[k], "non-modifying algorithms leave the range unchanged"); } \
  VF_REACH(); }
/* lexicographical_compare with a comparator returning int */
#define B_IP_LEX(L) { LEN(n, L); LEN(m, L); SEL(c, 0, 2); IN(int, a, L); IN(int, b, L); \
  SPLIT(c, 2) SPLIT(n, L) SPLIT(m, L) { MK(int, a, n, L); MK(int, b, m, L); _Bool lex = 0, dec = 0; \
    FORK(k, L, n) if (!dec) { if (k >= m) dec = 1; else if (lt(c, a_in[k], b_in[k])) { lex = 1; dec = 1; } else if (lt(c, b_in[k], a_in[k])) dec = 1; } if (!dec && n < m) lex = 1; \
    VF_ASSERT(ip_lexicographical_compare(a, a + n, b, b + m, c) == lex, "lexicographical_compare(comp): decided by the first pair with comp(x, y) != 0 or comp(y, x) != 0, else by the lengths"); } \
  VF_REACH(); }
/* binary searches with a comparator returning int on a range sorted with respect to it */
#define B_IP_BOUNDS(L) { LEN(n, L); SEL(c, 0, 2); VF_INPUT(int, v); IN(int, a, L); \
  SPLIT(c, 2) SPLIT(n, L) { MK(int, a, n, L); ASSUME_SORTED(c, a_in, n, L, ); int lb = n, ub = n; int *lo, *hi; \
    for (int k = (L) - 1; k >= 0; --k) if (k < n) { if (!lt(c, a_in[k], v)) lb = k; if (lt(c, v, a_in[k])) ub = k; } \
    VF_ASSERT(ip_lower_bound(a, a + n, &v, c) == a + lb, "lower_bound(comp) returns the first element with comp(x, value) == 0, else last"); \
    VF_ASSERT(ip_upper_bound(a, a + n, &v, c) == a + ub, "upper_bound(comp) returns the first element with comp(value, x) != 0, else last"); \
    ip_equal_range(a, a + n, &v, c, &lo, &hi); VF_ASSERT(lo == a + lb && hi == a + ub, "equal_range(comp) returns {lower_bound, upper_bound}"); \
    VF_ASSERT(ip_binary_search(a, a + n, &v, c) == (lb < ub), "binary_search(comp): true iff an element equivalent to value exists"); \
    FORK(k, L, n) VF_ASSERT(a[k] == a_in[k], "non-modifying algorithms leave the range unchanged"); } \
  VF_REACH(); }

/* ---- groups: hm_* / ip_* quick (len<=4 unless stated), *_t the tier=thorough twins */
/*@GROUP name=hm_remove props=C06,C02 kind=B bound=len<=4 unwind=7 solver=kissat objbits=12 timeout=600@*/
void h_hm_remove(void) B_HM_REMOVE(4)
/*@GROUP name=hm_remove_t props=C06,C02 kind=B bound=len<=6 unwind=9 solver=kissat tier=thorough objbits=13 timeout=3000@*/
void h_hm_remove_t(void) B_HM_REMOVE(6)
/*@GROUP name=hm_unique props=C06,C02 kind=B bound=len<=4 unwind=7 solver=kissat objbits=12 timeout=600@*/
void h_hm_unique(void) B_HM_UNIQUE(4)
/*@GROUP name=hm_unique_t props=C06,C02 kind=B bound=len<=6 unwind=9 solver=kissat tier=thorough objbits=13 timeout=3000@*/
void h_hm_unique_t(void) B_HM_UNIQUE(6)
/*@GROUP name=hm_rotate props=C06,C02 kind=B bound=len<=4 unwind=7 solver=kissat objbits=12 timeout=600@*/
void h_hm_rotate(void) B_HM_ROTATE(4)
/*@GROUP name=hm_rotate_t props=C06,C02 kind=B bound=len<=6 unwind=9 solver=kissat tier=thorough objbits=13 timeout=3000@*/
void h_hm_rotate_t(void) B_HM_ROTATE(6)
/*@GROUP name=hm_shift props=C06,C02 kind=B bound=len<=4,n_in_[0,len+1] unwind=7 solver=kissat objbits=12 timeout=600@*/
void h_hm_shift(void) B_HM_SHIFT(4)
/*@GROUP name=hm_shift_t props=C06,C02 kind=B bound=len<=6,n_in_[0,len+1] unwind=9 solver=kissat tier=thorough objbits=13 timeout=3000@*/
void h_hm_shift_t(void) B_HM_SHIFT(6)
/*@GROUP name=hm_partition props=C06,C02 kind=B bound=len<=4 unwind=7 solver=kissat objbits=12 timeout=600@*/
void h_hm_partition(void) B_HM_PARTITION(4)
/*@GROUP name=hm_partition_t props=C06,C02 kind=B bound=len<=6 unwind=9 solver=kissat tier=thorough objbits=13 timeout=3000@*/
void h_hm_partition_t(void) B_HM_PARTITION(6)
/*@GROUP name=hm_stable_partition props=C06,C02 kind=B bound=len<=3,predicates_2_and_3 unwind=7 solver=kissat objbits=12 timeout=600@*/
void h_hm_stable_partition(void) B_HM_STABLE_PARTITION(3, 2, VF_KNOWN(C06_stable_partition_adds_predicate, p <= 2 && cnt > 0))
/*@GROUP name=hm_stable_partition_t props=C06,C02 kind=B bound=len<=4 unwind=7 solver=kissat tier=thorough objbits=13 timeout=3000@*/
void h_hm_stable_partition_t(void) B_HM_STABLE_PARTITION(4, 0, VF_KNOWN(C06_stable_partition_adds_predicate, p <= 2 && cnt > 0))
/*@GROUP name=hm_swaps props=C06,C02 kind=B bound=len<=4 unwind=7 solver=kissat objbits=12 timeout=600@*/
void h_hm_swaps(void) B_HM_SWAPS(4)
/*@GROUP name=hm_swaps_t props=C06,C02 kind=B bound=len<=6 unwind=9 solver=kissat tier=thorough objbits=13 timeout=3000@*/
void h_hm_swaps_t(void) B_HM_SWAPS(6)
/*@GROUP name=hm_move props=C06,C02 kind=B bound=len<=4 unwind=7 solver=kissat objbits=12 timeout=600@*/
void h_hm_move(void) B_HM_MOVE(4)
/*@GROUP name=hm_move_t props=C06,C02 kind=B bound=len<=6 unwind=9 solver=kissat tier=thorough objbits=13 timeout=3000@*/
void h_hm_move_t(void) B_HM_MOVE(6)
/*@GROUP name=hm_inplace_merge props=C06,C02 kind=B bound=len<=3,comparators_2_and_4 unwind=9 solver=kissat objbits=12 timeout=600@*/
void h_hm_inplace_merge(void) B_HM_INPLACE_MERGE(3, 2, 4)
/*@GROUP name=hm_inplace_merge_t props=C06,C02 kind=B bound=len<=4 unwind=11 solver=kissat tier=thorough objbits=13 timeout=3000@*/
void h_hm_inplace_merge_t(void) B_HM_INPLACE_MERGE(4, 0, 4)
/*@GROUP name=hm_sort props=C06,C02 kind=B bound=len<=3 unwind=12 solver=kissat objbits=12 timeout=600@*/
void h_hm_sort(void) B_HM_SORT(3, hm_sort, 0, 0)
/*@GROUP name=hm_sort_t props=C06,C02 kind=B bound=len<=4 unwind=19 solver=kissat tier=thorough objbits=13 timeout=3000@*/
void h_hm_sort_t(void) B_HM_SORT(4, hm_sort, 0, 0)
/*@GROUP name=hm_gnome_sort props=C06,C02 kind=B bound=len<=3 unwind=12 solver=kissat objbits=12 timeout=600@*/
void h_hm_gnome_sort(void) B_HM_SORT(3, hm_gnome_sort, 0, 0)
/*@GROUP name=hm_gnome_sort_t props=C06,C02 kind=B bound=len<=4 unwind=19 solver=kissat tier=thorough objbits=13 timeout=3000@*/
void h_hm_gnome_sort_t(void) B_HM_SORT(4, hm_gnome_sort, 0, 0)
/*@GROUP name=hm_bubble_sort props=C06,C02 kind=B bound=len<=4 unwind=7 solver=kissat objbits=12 timeout=600@*/
void h_hm_bubble_sort(void) B_HM_SORT(4, hm_bubble_sort, 0, 0)
/*@GROUP name=hm_bubble_sort_t props=C06,C02 kind=B bound=len<=6 unwind=9 solver=kissat tier=thorough objbits=13 timeout=3000@*/
void h_hm_bubble_sort_t(void) B_HM_SORT(6, hm_bubble_sort, 0, 0)
/*@GROUP name=hm_exchange_sort props=C06,C02 kind=B bound=len<=4 unwind=7 solver=kissat objbits=12 timeout=600@*/
void h_hm_exchange_sort(void) B_HM_SORT(4, hm_exchange_sort, 1, 0)
/*@GROUP name=hm_exchange_sort_t props=C06,C02 kind=B bound=len<=6 unwind=9 solver=kissat tier=thorough objbits=13 timeout=3000@*/
void h_hm_exchange_sort_t(void) B_HM_SORT(6, hm_exchange_sort, 1, 0)
/*@GROUP name=hm_stable_sort props=C06,C02 kind=B bound=len<=4 unwind=7 solver=kissat objbits=12 timeout=600@*/
void h_hm_stable_sort(void) B_HM_SORT(4, hm_stable_sort, 0, 1)
/*@GROUP name=hm_stable_sort_t props=C06,C02 kind=B bound=len<=6 unwind=9 solver=kissat tier=thorough objbits=13 timeout=3000@*/
void h_hm_stable_sort_t(void) B_HM_SORT(6, hm_stable_sort, 0, 1)
/*@GROUP name=hm_insertion_sort props=C06,C02 kind=B bound=len<=4 unwind=7 solver=kissat objbits=12 timeout=600@*/
void h_hm_insertion_sort(void) B_HM_SORT(4, hm_insertion_sort, 0, 1)
/*@GROUP name=hm_insertion_sort_t props=C06,C02 kind=B bound=len<=6 unwind=9 solver=kissat tier=thorough objbits=13 timeout=3000@*/
void h_hm_insertion_sort_t(void) B_HM_SORT(6, hm_insertion_sort, 0, 1)
/*@GROUP name=hm_merge_sort props=C06,C02 kind=B bound=len<=3 unwind=6 solver=kissat objbits=12 timeout=600@*/
void h_hm_merge_sort(void) B_HM_SORT(3, hm_merge_sort, 0, 1)
/*@GROUP name=hm_merge_sort_t props=C06,C02 kind=B bound=len<=4 unwind=7 solver=kissat tier=thorough objbits=13 timeout=3000@*/
void h_hm_merge_sort_t(void) B_HM_SORT(4, hm_merge_sort, 0, 1)
/*@GROUP name=hm_partial_sort props=C06,C02 kind=B bound=len<=3 unwind=12 solver=kissat objbits=12 timeout=600@*/
void h_hm_partial_sort(void) B_HM_PARTIAL_SORT(3)
/*@GROUP name=hm_partial_sort_t props=C06,C02 kind=B bound=len<=4 unwind=19 solver=kissat tier=thorough objbits=13 timeout=3000@*/
void h_hm_partial_sort_t(void) B_HM_PARTIAL_SORT(4)
/*@GROUP name=hm_erase props=C01,C06,C02 kind=K unwind=7 solver=kissat objbits=12 timeout=600@*/
void h_hm_erase(void) B_HM_ERASE()
/*@GROUP name=ip_query props=C06,C02 kind=B bound=len<=4 unwind=7 solver=kissat objbits=12 timeout=600@*/
void h_ip_query(void) B_IP_QUERY(4)
/*@GROUP name=ip_query_t props=C06,C02 kind=B bound=len<=6 unwind=9 solver=kissat tier=thorough objbits=13 timeout=3000@*/
void h_ip_query_t(void) B_IP_QUERY(6)
/*@GROUP name=ip_copy props=C06,C02 kind=B bound=len<=4 unwind=7 solver=kissat objbits=12 timeout=600@*/
void h_ip_copy(void) B_IP_COPY(4)
/*@GROUP name=ip_copy_t props=C06,C02 kind=B bound=len<=6 unwind=9 solver=kissat tier=thorough objbits=13 timeout=3000@*/
void h_ip_copy_t(void) B_IP_COPY(6)
/*@GROUP name=ip_remove_partition props=C06,C02 kind=B bound=len<=4 unwind=7 solver=kissat objbits=12 timeout=600@*/
void h_ip_remove_partition(void) B_IP_REMOVE_PARTITION(4)
/*@GROUP name=ip_remove_partition_t props=C06,C02 kind=B bound=len<=6 unwind=9 solver=kissat tier=thorough objbits=13 timeout=3000@*/
void h_ip_remove_partition_t(void) B_IP_REMOVE_PARTITION(6)
/*@GROUP name=ip_adjacent props=C06,C02 kind=B bound=len<=4 unwind=7 solver=kissat objbits=12 timeout=600@*/
void h_ip_adjacent(void) B_IP_ADJACENT(4)
/*@GROUP name=ip_adjacent_t props=C06,C02 kind=B bound=len<=6 unwind=9 solver=kissat tier=thorough objbits=13 timeout=3000@*/
void h_ip_adjacent_t(void) B_IP_ADJACENT(6)
/*@GROUP name=ip_equal props=C06,C02 kind=B bound=len1<=4,len2<=4 unwind=7 solver=kissat objbits=12 timeout=600@*/
void h_ip_equal(void) B_IP_EQUAL(4)
/*@GROUP name=ip_equal_t props=C06,C02 kind=B bound=len1<=6,len2<=6 unwind=9 solver=kissat tier=thorough objbits=14 timeout=3000@*/
void h_ip_equal_t(void) B_IP_EQUAL(6)
/*@GROUP name=ip_order props=C06,C02 kind=B bound=len<=4 unwind=7 solver=kissat objbits=12 timeout=600@*/
void h_ip_order(void) B_IP_ORDER(4)
/*@GROUP name=ip_order_t props=C06,C02 kind=B bound=len<=6 unwind=9 solver=kissat tier=thorough objbits=13 timeout=3000@*/
void h_ip_order_t(void) B_IP_ORDER(6)
/*@GROUP name=ip_lex props=C06,C02 kind=B bound=len1<=4,len2<=4 unwind=7 solver=kissat objbits=12 timeout=600@*/
void h_ip_lex(void) B_IP_LEX(4)
/*@GROUP name=ip_lex_t props=C06,C02 kind=B bound=len1<=6,len2<=6 unwind=9 solver=kissat tier=thorough objbits=14 timeout=3000@*/
void h_ip_lex_t(void) B_IP_LEX(6)
/*@GROUP name=ip_bounds props=C06,C02 kind=B bound=len<=3 unwind=6 solver=kissat objbits=12 timeout=600@*/
void h_ip_bounds(void) B_IP_BOUNDS(3)
/*@GROUP name=ip_bounds_t props=C06,C02 kind=B bound=len<=5 unwind=8 solver=kissat tier=thorough objbits=13 timeout=3000@*/
void h_ip_bounds_t(void) B_IP_BOUNDS(5)
/*@GROUP name=ip_minmax props=C06,C02 kind=F unwind=2 timeout=600@*/
void h_ip_minmax(void) { SEL(c, 0, 2); VF_INPUT(int, v); VF_INPUT(int, x); VF_INPUT(int, y); int *lo, *hi;
  VF_ASSERT(ip_min(&x, &y, c) == (lt(c, y, x) ? &y : &x), "min(a, b, comp) returns b if comp(b, a) != 0, else a");
  VF_ASSERT(ip_max(&x, &y, c) == (lt(c, x, y) ? &y : &x), "max(a, b, comp) returns b if comp(a, b) != 0, else a");
  ip_minmax(&x, &y, c, &lo, &hi); VF_ASSERT(lo == (lt(c, y, x) ? &y : &x) && hi == (lt(c, y, x) ? &x : &y), "minmax(a, b, comp) returns {b, a} if comp(b, a) != 0, else {a, b}");
  if (!lt(c, y, x)) VF_ASSERT(ip_clamp(&v, &x, &y, c) == (lt(c, v, x) ? &x : (lt(c, y, v) ? &y : &v)), "clamp(v, lo, hi, comp) returns lo if comp(v, lo) != 0, hi if comp(hi, v) != 0, else v");
  VF_REACH(); }
/*@GROUP name=ip_search props=C06,C02 kind=B bound=len<=4,needle<=4 unwind=7 solver=kissat objbits=12 timeout=600@*/
void h_ip_search(void) B_SEARCH(4, ip_search, 0, 1)
/*@GROUP name=ip_find_end props=C06,C02 kind=B bound=len<=4,needle<=4 unwind=7 solver=kissat objbits=12 timeout=600@*/
void h_ip_find_end(void) B_FIND_END_C(4, ip_find_end, 0, 1)
/*@GROUP name=ip_search_n props=C06,C02 kind=B bound=len<=4,count_in_[-1,len+1] unwind=7 solver=kissat objbits=12 timeout=600@*/
void h_ip_search_n(void) B_SEARCH_N_C(4, ip_search_n, 0, 1, (void)0)
/*@GROUP name=ip_find_first_of props=C06,C02 kind=B bound=len<=4,needle<=4 unwind=7 solver=kissat objbits=12 timeout=600@*/
void h_ip_find_first_of(void) B_FIND_FIRST_OF_C(4, ip_find_first_of, 0, 1)
/*@GROUP name=ip_includes props=C06,C02 kind=B bound=len1<=4,len2<=4 unwind=11 solver=kissat objbits=12 timeout=600@*/
void h_ip_includes(void) B_INCLUDES_C(4, ip_includes, 0, 2)
/*@GROUP name=ip_sort props=C06,C02 kind=B bound=len<=3 unwind=12 solver=kissat objbits=12 timeout=600@*/
void h_ip_sort(void) B_SORT(3, ip_sort, 0, 2, 0)
/*@GROUP name=ip_merge props=C06,C02 kind=B bound=len1<=3,len2<=3 unwind=9 solver=kissat objbits=12 timeout=600@*/
void h_ip_merge(void) B_MERGE(3, ip_merge(a, a + na, b, b + nb, d, c), 0, 2)
/*@GROUP name=ip_set_union props=C06,C02 kind=B bound=len1<=2,len2<=2 unwind=7 solver=kissat objbits=12 timeout=600@*/
void h_ip_set_union(void) B_SETOP(2, OP_UNION, ip_set_op(0, a, a + na, b, b + nb, d, c), "set_union", 0, 2)
/*@GROUP name=ip_set_intersection props=C06,C02 kind=B bound=len1<=2,len2<=2 unwind=7 solver=kissat objbits=12 timeout=600@*/
void h_ip_set_intersection(void) B_SETOP(2, OP_INTER, ip_set_op(1, a, a + na, b, b + nb, d, c), "set_intersection", 0, 2)
/*@GROUP name=ip_set_difference props=C06,C02 kind=B bound=len1<=2,len2<=2 unwind=7 solver=kissat objbits=12 timeout=600@*/
void h_ip_set_difference(void) B_SETOP(2, OP_DIFF, ip_set_op(2, a, a + na, b, b + nb, d, c), "set_difference", 0, 2)
/*@GROUP name=ip_set_symmetric_difference props=C06,C02 kind=B bound=len1<=2,len2<=2 unwind=7 solver=kissat objbits=12 timeout=600@*/
void h_ip_set_symmetric_difference(void) B_SETOP(2, OP_SYM, ip_set_op(3, a, a + na, b, b + nb, d, c), "set_symmetric_difference", 0, 2)
/*@GROUP name=ip_set_ops_t props=C06,C02 kind=B bound=len1<=3,len2<=3 unwind=9 solver=kissat tier=thorough objbits=13 timeout=3000@*/
void h_ip_set_ops_t(void) { VF_INPUT(unsigned char, which); VF_ASSUME(which <= 3);
  if (which == 0) B_SETOP(3, OP_UNION, ip_set_op(0, a, a + na, b, b + nb, d, c), "set_union", 0, 2)
  else if (which == 1) B_SETOP(3, OP_INTER, ip_set_op(1, a, a + na, b, b + nb, d, c), "set_intersection", 0, 2)
  else if (which == 2) B_SETOP(3, OP_DIFF, ip_set_op(2, a, a + na, b, b + nb, d, c), "set_difference", 0, 2)
  else B_SETOP(3, OP_SYM, ip_set_op(3, a, a + na, b, b + nb, d, c), "set_symmetric_difference", 0, 2) }

/* ---- argument order of binary predicates: pred = (first argument < second argument), ranges of length <= 3 */
/*@GROUP name=arg_order props=C06,C02 kind=B bound=len<=3,needle<=2 unwind=6 solver=kissat objbits=12 timeout=600 split=VF_W:0:5@*/
void h_arg_order(void) { VF_INPUT(unsigned char, n); VF_INPUT(unsigned char, m); __CPROVER_assume(n <= 3 && m <= 2); VF_BUF(int, a, n, 3); VF_BUF(int, b, m, 2); VF_INPUT(int, v); VF_INPUT(signed char, cnt); __CPROVER_assume(cnt >= 0 && cnt <= 3); const int which = VF_W;
  if (which == 0) { /* search_n: first i with pred(a[i+k], v) for all k < cnt */
    long e = n; for (int i = 3; i >= 0; --i) if (i + cnt <= n) { _Bool ok = 1; for (int k = 0; k < 3; ++k) if (k < cnt && !(a_in[i + k] < v)) ok = 0; if (ok) e = i; }
    if (cnt == 0) e = 0; VF_ASSERT(ao_search_n(a, a + n, cnt, &v) - a == e, "search_n(first, last, count, value, pred): pred(*i, value) - element first, value second"); }
  else if (which == 1) { /* search: pred(a[i+k], b[k]) (find_end with a predicate ran out of memory even at length 2) */
    long fst = n, lst = n; for (int i = 3; i >= 0; --i) if (i + m <= n) { _Bool ok = 1; for (int k = 0; k < 2; ++k) if (k < m && !(a_in[i + k] < b_in[k])) ok = 0; if (ok) { fst = i; if (lst == n) lst = i; } }
    if (m == 0) { fst = 0; lst = n; }
    VF_ASSERT(ao_search(a, a + n, b, b + m) - a == fst, "search(..., pred): pred(element of the haystack, element of the needle)"); (void)lst; }
  else if (which == 2) { long e = n; for (int i = 2; i >= 0; --i) if (i < n) for (int k = 0; k < 2; ++k) if (k < m && a_in[i] < b_in[k]) e = i;
    VF_ASSERT(ao_find_first_of(a, a + n, b, b + m) - a == e, "find_first_of(..., pred): pred(element of the first range, element of the set)"); }
  else if (which == 3) { long e = n; for (int i = 1; i >= 0; --i) if (i + 1 < n && a_in[i] < a_in[i + 1]) e = i;
    VF_ASSERT(ao_adjacent_find(a, a + n) - a == e, "adjacent_find(first, last, pred): pred(*i, *(i + 1))"); }
  else if (which == 4) { long e = 0; while (e < n && e < m && a_in[e] < b_in[e]) ++e;
    VF_ASSERT(ao_mismatch(a, a + n, b, b + m) == e, "mismatch(..., pred): pred(element of range 1, element of range 2)");
    _Bool eq = n == m; for (int i = 0; i < 2; ++i) if (i < n && i < m && !(a_in[i] < b_in[i])) eq = 0; VF_ASSERT(ao_equal(a, a + n, b, b + m) == eq, "equal(..., pred): pred(element of range 1, element of range 2)"); }
  else { /* unique: an element is dropped when pred(last kept, element) holds */
    int exp[3]; long en = 0; for (int i = 0; i < 3; ++i) if (i < n) { if (en == 0 || !(exp[en - 1] < a_in[i])) { exp[en] = a_in[i]; ++en; } }
    long r = ao_unique(a, a + n) - a; VF_ASSERT(r == en, "unique(first, last, pred): pred(previous kept element, current element)"); for (int i = 0; i < 3; ++i) if (i < en) VF_ASSERT(a[i] == exp[i], "unique(pred): kept elements"); }
  VF_REACH(); }

