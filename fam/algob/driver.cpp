// driver: bounded part of C06 — permutation / nested-loop algorithms over int*, {key,tag}* and thin wrapper iterators,
// plus the iterator adaptors (reverse_iterator, back/front_insert_iterator, next/prev/advance/distance)
#include <etl/algorithm.hpp>
#include <etl/numeric.hpp>
#include <etl/iterator.hpp>
#include <etl/functional.hpp>
#include <etl/utility.hpp>
#include <etl/vector.hpp>
#include <etl/new.hpp>
#define VF_E extern "C"
namespace vf {
using diff_t = etl::ptrdiff_t;

// ---- thin non-random-access iterators over int*
struct fwd_it {
    using iterator_category = etl::forward_iterator_tag; using value_type = int; using difference_type = etl::ptrdiff_t; using pointer = int*; using reference = int&;
    int* p;
    auto operator*() const -> int& { return *p; }
    auto operator++() -> fwd_it& { ++p; return *this; }
    auto operator++(int) -> fwd_it { fwd_it t{p}; ++p; return t; }
    friend auto operator==(fwd_it a, fwd_it b) -> bool { return a.p == b.p; }
    friend auto operator!=(fwd_it a, fwd_it b) -> bool { return a.p != b.p; }
};
struct bidi_it {
    using iterator_category = etl::bidirectional_iterator_tag; using value_type = int; using difference_type = etl::ptrdiff_t; using pointer = int*; using reference = int&;
    int* p;
    auto operator*() const -> int& { return *p; }
    auto operator++() -> bidi_it& { ++p; return *this; }
    auto operator++(int) -> bidi_it { bidi_it t{p}; ++p; return t; }
    auto operator--() -> bidi_it& { --p; return *this; }
    auto operator--(int) -> bidi_it { bidi_it t{p}; --p; return t; }
    friend auto operator==(bidi_it a, bidi_it b) -> bool { return a.p == b.p; }
    friend auto operator!=(bidi_it a, bidi_it b) -> bool { return a.p != b.p; }
};

// ---- comparators / predicates. Comparator selector c: 0 less, 1 greater, 2 modulo-equivalence on the low two bits (x mod 4 of the
// two's complement value: many distinct-but-equivalent elements, cheap for the SAT solver), 3 modulo-equivalence a % 3 < b % 3 (one
// 32-bit divider per operand: only used in the *_mod3 groups with a smaller length bound)
struct low2_less { auto operator()(int const& a, int const& b) const -> bool { return (a & 3) < (b & 3); } };
struct mod3_less { auto operator()(int const& a, int const& b) const -> bool { return a % 3 < b % 3; } };
struct low2_eq { auto operator()(int const& a, int const& b) const -> bool { return (a & 3) == (b & 3); } };
struct mod3_eq { auto operator()(int const& a, int const& b) const -> bool { return a % 3 == b % 3; } };
struct is_mult4 { auto operator()(int const& x) const -> bool { return (x & 3) == 0; } };
struct is_mult3 { auto operator()(int const& x) const -> bool { return x % 3 == 0; } };
struct is_neg { auto operator()(int const& x) const -> bool { return x < 0; } };
struct kt { int key; int tag; };
struct kt_less { auto operator()(kt const& a, kt const& b) const -> bool { return a.key < b.key; } };
struct kt_greater { auto operator()(kt const& a, kt const& b) const -> bool { return a.key > b.key; } };
struct kt_low2 { auto operator()(kt const& a, kt const& b) const -> bool { return (a.key & 3) < (b.key & 3); } };
struct kt_mod3 { auto operator()(kt const& a, kt const& b) const -> bool { return a.key % 3 < b.key % 3; } };
#define CMP_INT(c, ...) do { if ((c) == 0) { auto cmp = etl::less(); __VA_ARGS__; } else if ((c) == 1) { auto cmp = etl::greater(); __VA_ARGS__; } else if ((c) == 2) { auto cmp = low2_less{}; __VA_ARGS__; } else { auto cmp = mod3_less{}; __VA_ARGS__; } } while (0)
#define CMP_KT(c, ...) do { if ((c) == 0) { auto cmp = kt_less{}; __VA_ARGS__; } else if ((c) == 1) { auto cmp = kt_greater{}; __VA_ARGS__; } else if ((c) == 2) { auto cmp = kt_low2{}; __VA_ARGS__; } else { auto cmp = kt_mod3{}; __VA_ARGS__; } } while (0)
// tagged ints: key = x >> 4 (arithmetic shift, the full 28-bit range), tag = x & 15 (element identity, set by the harness). Cheaper for CBMC
// than the 8-byte {key,tag} struct when two ranges and an output range are involved; the comparators look at the key only.
struct hi_less { auto operator()(int const& a, int const& b) const -> bool { return (a >> 4) < (b >> 4); } };
struct hi_greater { auto operator()(int const& a, int const& b) const -> bool { return (a >> 4) > (b >> 4); } };
struct hi_low2 { auto operator()(int const& a, int const& b) const -> bool { return ((a >> 4) & 3) < ((b >> 4) & 3); } };
struct hi_mod3 { auto operator()(int const& a, int const& b) const -> bool { return (a >> 4) % 3 < (b >> 4) % 3; } };
struct hi_is_mult4 { auto operator()(int const& x) const -> bool { return ((x >> 4) & 3) == 0; } };
#define CMP_HI(c, ...) do { if ((c) == 0) { auto cmp = hi_less{}; __VA_ARGS__; } else if ((c) == 1) { auto cmp = hi_greater{}; __VA_ARGS__; } else if ((c) == 2) { auto cmp = hi_low2{}; __VA_ARGS__; } else { auto cmp = hi_mod3{}; __VA_ARGS__; } } while (0)
#define PRED1(p, ...) do { if ((p) == 0) { auto pred = is_mult4{}; __VA_ARGS__; } else if ((p) == 1) { auto pred = is_neg{}; __VA_ARGS__; } else { auto pred = is_mult3{}; __VA_ARGS__; } } while (0)
#define PEQ(p, ...) do { if ((p) == 0) { auto pred = etl::equal_to(); __VA_ARGS__; } else if ((p) == 1) { auto pred = low2_eq{}; __VA_ARGS__; } else { auto pred = mod3_eq{}; __VA_ARGS__; } } while (0)

// ---- rotate / shift
VF_E int* a_rotate(int* f, int* m, int* l) { return etl::rotate(f, m, l); }
VF_E int* a_rotate_fwd(int* f, int* m, int* l) { return etl::rotate(fwd_it{f}, fwd_it{m}, fwd_it{l}).p; }
VF_E int* a_rotate_copy(int const* f, int const* m, int const* l, int* d) { return etl::rotate_copy(f, m, l, d); }
VF_E int* a_shift_left(int* f, int* l, diff_t n) { return etl::shift_left(f, l, n); }
VF_E int* a_shift_left_fwd(int* f, int* l, diff_t n) { return etl::shift_left(fwd_it{f}, fwd_it{l}, n).p; }
VF_E int* a_shift_right(int* f, int* l, diff_t n) { return etl::shift_right(f, l, n); }
VF_E int* a_shift_right_bidi(int* f, int* l, diff_t n) { return etl::shift_right(bidi_it{f}, bidi_it{l}, n).p; }

// ---- partition family
VF_E int* a_partition(int* f, int* l, int p) { int* r = nullptr; PRED1(p, r = etl::partition(f, l, pred)); return r; }
VF_E int* a_partition_fwd(int* f, int* l, int p) { int* r = nullptr; PRED1(p, r = etl::partition(fwd_it{f}, fwd_it{l}, pred).p); return r; }
VF_E int* a_stable_partition(int* f, int* l) { return etl::stable_partition(f, l, hi_is_mult4{}); }
VF_E void a_partition_copy(int const* f, int const* l, int* dt, int* df, int** rt, int** rf)
{
    auto r = etl::partition_copy(f, l, dt, df, is_mult4{});
    *rt = r.first;
    *rf = r.second;
}

// ---- sorting
VF_E void a_sort(int* f, int* l, int c) { if (c == 0) { etl::sort(f, l); } else { CMP_INT(c, etl::sort(f, l, cmp)); } }
VF_E void a_gnome_sort(int* f, int* l, int c) { if (c == 0) { etl::gnome_sort(f, l); } else { CMP_INT(c, etl::gnome_sort(f, l, cmp)); } }
VF_E void a_gnome_sort_bidi(int* f, int* l, int c) { CMP_INT(c, etl::gnome_sort(bidi_it{f}, bidi_it{l}, cmp)); }
VF_E void a_bubble_sort(int* f, int* l, int c) { if (c == 0) { etl::bubble_sort(f, l); } else { CMP_INT(c, etl::bubble_sort(f, l, cmp)); } }
VF_E void a_exchange_sort(int* f, int* l, int c) { if (c == 0) { etl::exchange_sort(f, l); } else { CMP_INT(c, etl::exchange_sort(f, l, cmp)); } }
VF_E void a_partial_sort(int* f, int* m, int* l, int c) { if (c == 0) { etl::partial_sort(f, m, l); } else { CMP_INT(c, etl::partial_sort(f, m, l, cmp)); } }
VF_E void a_nth_element(int* f, int* m, int* l, int c) { if (c == 0) { etl::nth_element(f, m, l); } else { CMP_INT(c, etl::nth_element(f, m, l, cmp)); } }
VF_E void a_stable_sort(kt* f, kt* l, int c) { CMP_KT(c, etl::stable_sort(f, l, cmp)); }
VF_E void a_insertion_sort(kt* f, kt* l, int c) { CMP_KT(c, etl::insertion_sort(f, l, cmp)); }
VF_E void a_merge_sort(int* f, int* l, int c) { CMP_HI(c, etl::merge_sort(f, l, cmp)); }
VF_E void a_stable_sort_int(int* f, int* l) { etl::stable_sort(f, l); }
VF_E void a_insertion_sort_int(int* f, int* l) { etl::insertion_sort(f, l); }
VF_E void a_merge_sort_int(int* f, int* l) { etl::merge_sort(f, l); }

// ---- searching
VF_E bool a_is_permutation3(int const* f, int const* l, int const* f2) { return etl::is_permutation(f, l, f2); }
VF_E bool a_is_permutation4(int const* f, int const* l, int const* f2, int const* l2) { return etl::is_permutation(f, l, f2, l2); }
VF_E bool a_is_permutation4_fwd(int* f, int* l, int* f2, int* l2) { return etl::is_permutation(fwd_it{f}, fwd_it{l}, fwd_it{f2}, fwd_it{l2}); }
VF_E int const* a_search(int const* f, int const* l, int const* sf, int const* sl, int p) { if (p == 0) { return etl::search(f, l, sf, sl); } int const* r = nullptr; PEQ(p, r = etl::search(f, l, sf, sl, pred)); return r; }
VF_E int* a_search_fwd(int* f, int* l, int* sf, int* sl, int p) { if (p == 0) { return etl::search(fwd_it{f}, fwd_it{l}, fwd_it{sf}, fwd_it{sl}).p; } int* r = nullptr; PEQ(p, r = etl::search(fwd_it{f}, fwd_it{l}, fwd_it{sf}, fwd_it{sl}, pred).p); return r; }
VF_E int const* a_find_end(int const* f, int const* l, int const* sf, int const* sl, int p) { if (p == 0) { return etl::find_end(f, l, sf, sl); } int const* r = nullptr; PEQ(p, r = etl::find_end(f, l, sf, sl, pred)); return r; }
VF_E int const* a_search_n(int const* f, int const* l, int count, int const& v, int p) { if (p == 0) { return etl::search_n(f, l, count, v); } int const* r = nullptr; PEQ(p, r = etl::search_n(f, l, count, v, pred)); return r; }
VF_E int const* a_find_first_of(int const* f, int const* l, int const* sf, int const* sl, int p) { if (p == 0) { return etl::find_first_of(f, l, sf, sl); } int const* r = nullptr; PEQ(p, r = etl::find_first_of(f, l, sf, sl, pred)); return r; }
VF_E bool a_includes(int const* f1, int const* l1, int const* f2, int const* l2, int c)
{
    if (c == 0) { return etl::includes(f1, l1, f2, l2); }
    bool r = false;
    CMP_INT(c, r = etl::includes(f1, l1, f2, l2, cmp));
    return r;
}

// ---- merging and set operations (tagged ints: which range an output element comes from is observable)
VF_E int* a_merge(int const* f1, int const* l1, int const* f2, int const* l2, int* d, int c) { int* r = nullptr; CMP_HI(c, r = etl::merge(f1, l1, f2, l2, d, cmp)); return r; }
VF_E int* a_merge_int(int const* f1, int const* l1, int const* f2, int const* l2, int* d) { return etl::merge(f1, l1, f2, l2, d); }
VF_E int* a_merge_fwd(int* f1, int* l1, int* f2, int* l2, int* d) { return etl::merge(fwd_it{f1}, fwd_it{l1}, fwd_it{f2}, fwd_it{l2}, fwd_it{d}).p; }
VF_E void a_inplace_merge(int* f, int* m, int* l, int c) { CMP_HI(c, etl::inplace_merge(f, m, l, cmp)); }
VF_E void a_inplace_merge_int(int* f, int* m, int* l) { etl::inplace_merge(f, m, l); }
VF_E int* a_set_union(int const* f1, int const* l1, int const* f2, int const* l2, int* d, int c) { int* r = nullptr; CMP_HI(c, r = etl::set_union(f1, l1, f2, l2, d, cmp)); return r; }
VF_E int* a_set_intersection(int const* f1, int const* l1, int const* f2, int const* l2, int* d, int c) { int* r = nullptr; CMP_HI(c, r = etl::set_intersection(f1, l1, f2, l2, d, cmp)); return r; }
VF_E int* a_set_difference(int const* f1, int const* l1, int const* f2, int const* l2, int* d, int c) { int* r = nullptr; CMP_HI(c, r = etl::set_difference(f1, l1, f2, l2, d, cmp)); return r; }
VF_E int* a_set_symmetric_difference(int const* f1, int const* l1, int const* f2, int const* l2, int* d, int c) { int* r = nullptr; CMP_HI(c, r = etl::set_symmetric_difference(f1, l1, f2, l2, d, cmp)); return r; }
VF_E int* a_set_ops_int(int which, int const* f1, int const* l1, int const* f2, int const* l2, int* d)
{
    if (which == 0) { return etl::set_union(f1, l1, f2, l2, d); }
    if (which == 1) { return etl::set_intersection(f1, l1, f2, l2, d); }
    if (which == 2) { return etl::set_difference(f1, l1, f2, l2, d); }
    return etl::set_symmetric_difference(f1, l1, f2, l2, d);
}

// ---- numeric: transform_reduce (unsigned elements: wrap-around arithmetic is defined)
struct u_xor { auto operator()(unsigned a, unsigned b) const -> unsigned { return a ^ b; } };
struct u_and { auto operator()(unsigned a, unsigned b) const -> unsigned { return a & b; } };
struct u_triple { auto operator()(unsigned a) const -> unsigned { return a * 3U; } };
VF_E unsigned a_transform_reduce2(unsigned const* f, unsigned const* l, unsigned const* f2, unsigned init) { return etl::transform_reduce(f, l, f2, init); }
VF_E unsigned a_transform_reduce2_op(unsigned const* f, unsigned const* l, unsigned const* f2, unsigned init) { return etl::transform_reduce(f, l, f2, init, u_xor{}, u_and{}); }
VF_E unsigned a_transform_reduce1(unsigned const* f, unsigned const* l, unsigned init) { return etl::transform_reduce(f, l, init, etl::plus(), u_triple{}); }

// ---- reverse_iterator<int*>
using RI = etl::reverse_iterator<int*>;
using CRI = etl::reverse_iterator<int const*>;
VF_E int* ri_base(int* p) { return RI(p).base(); }
VF_E int* ri_default_base() { RI r; return r.base(); }
VF_E int* ri_make(int* p) { return etl::make_reverse_iterator(p).base(); }
VF_E int const* ri_convert(int* p) { RI r(p); CRI c(r); return c.base(); }
VF_E int const* ri_convert_assign(int* p, int const* q) { RI r(p); CRI c(q); c = r; return c.base(); }
VF_E int* ri_deref(int* p) { return &*RI(p); }
VF_E int* ri_arrow(int* p) { return RI(p).operator->(); }
VF_E int* ri_index(int* p, diff_t n) { return &RI(p)[n]; }
VF_E int* ri_preinc(int* p, int** res) { RI r(p); RI& q = ++r; *res = q.base(); return r.base(); }
VF_E int* ri_postinc(int* p, int** res) { RI r(p); RI q = r++; *res = q.base(); return r.base(); }
VF_E int* ri_predec(int* p, int** res) { RI r(p); RI& q = --r; *res = q.base(); return r.base(); }
VF_E int* ri_postdec(int* p, int** res) { RI r(p); RI q = r--; *res = q.base(); return r.base(); }
VF_E int* ri_plus(int* p, diff_t n) { return (RI(p) + n).base(); }
VF_E int* ri_plus_l(int* p, diff_t n) { return (n + RI(p)).base(); }
VF_E int* ri_minus(int* p, diff_t n) { return (RI(p) - n).base(); }
VF_E int* ri_plus_eq(int* p, diff_t n) { RI r(p); r += n; return r.base(); }
VF_E int* ri_minus_eq(int* p, diff_t n) { RI r(p); r -= n; return r.base(); }
VF_E diff_t ri_diff(int* p, int* q) { return RI(p) - RI(q); }
VF_E unsigned ri_cmp(int* p, int* q)
{
    RI a(p);
    RI b(q);
    return (a == b ? 1U : 0U) | (a != b ? 2U : 0U) | (a < b ? 4U : 0U) | (a <= b ? 8U : 0U) | (a > b ? 16U : 0U) | (a >= b ? 32U : 0U);
}
VF_E int* ri_copy(int* f, int* l, int* d) { return etl::copy(RI(l), RI(f), d); }

// ---- insert iterators on static_vector<int, 4>
using V4 = etl::static_vector<int, 4>;
struct front_box {   // static_vector has no push_front: the smallest container front_insert_iterator accepts
    using value_type = int;
    V4 v;
    auto push_front(int const& x) -> void { v.insert(v.begin(), x); }
    auto push_front(int&& x) -> void { v.insert(v.begin(), etl::move(x)); }
};
VF_E void i_back_insert(V4& v, int const& x) { auto it = etl::back_inserter(v); *it = x; ++it; it++; }
VF_E void i_back_insert_rv(V4& v, int x) { etl::back_insert_iterator<V4> it(v); *it = etl::move(x); }
VF_E void i_back_copy(V4& v, int const* f, int const* l) { etl::copy(f, l, etl::back_inserter(v)); }
VF_E void i_front_insert(front_box& b, int const& x) { auto it = etl::front_inserter(b); *it = x; ++it; it++; }
VF_E void i_front_insert_rv(front_box& b, int x) { etl::front_insert_iterator<front_box> it(b); *it = etl::move(x); }
VF_E void i_front_copy(front_box& b, int const* f, int const* l) { etl::copy(f, l, etl::front_inserter(b)); }

// ---- next / prev / advance / distance
VF_E int* it_next(int* p, diff_t n) { return etl::next(p, n); }
VF_E int* it_next1(int* p) { return etl::next(p); }
VF_E int* it_prev(int* p, diff_t n) { return etl::prev(p, n); }
VF_E int* it_prev1(int* p) { return etl::prev(p); }
VF_E int* it_advance(int* p, diff_t n) { etl::advance(p, n); return p; }
VF_E int* it_advance_int(int* p, int n) { etl::advance(p, n); return p; }
VF_E diff_t it_distance(int* f, int* l) { return etl::distance(f, l); }
VF_E int* it_next_fwd(int* p, diff_t n) { return etl::next(fwd_it{p}, n).p; }
VF_E int* it_advance_fwd(int* p, diff_t n) { fwd_it i{p}; etl::advance(i, n); return i.p; }
VF_E diff_t it_distance_fwd(int* f, int* l) { return etl::distance(fwd_it{f}, fwd_it{l}); }
VF_E int* it_next_bidi(int* p, diff_t n) { return etl::next(bidi_it{p}, n).p; }
VF_E int* it_prev_bidi(int* p, diff_t n) { return etl::prev(bidi_it{p}, n).p; }
VF_E int* it_advance_bidi(int* p, diff_t n) { bidi_it i{p}; etl::advance(i, n); return i.p; }
VF_E diff_t it_distance_bidi(int* f, int* l) { return etl::distance(bidi_it{f}, bidi_it{l}); }

// =====================================================================================================================
// second wave: (1) Hm, an element type with an OBSERVABLE move: the move constructor / move assignment mark the source (v = -1) and the
// self-move-assignment is destructive (no self check: x = move(x) leaves x == -1).  MoveAssignable promises nothing about x = move(x),
// and the std:: algorithms never self-move-assign, so every kept element must still carry its original value afterwards.
// (2) callables whose result is only CONTEXTUALLY CONVERTIBLE to bool: predicates / comparators returning int with truthy values 2,
// 0x100 and INT_MIN (never 1): an implementation may only test the result for != 0, never add, compare with true or truncate it.
#define VF_HM_TYPE(Name, T)                                                                                              \
    struct Name {                                                                                                        \
        T v;                                                                                                             \
        Name() noexcept : v{0} { }                                                                                       \
        Name(Name const& o) noexcept : v{o.v} { }                                                                        \
        Name(Name&& o) noexcept : v{o.v} { o.v = -1; }                                                                   \
        auto operator=(Name const& o) noexcept -> Name& { v = o.v; return *this; }                                       \
        auto operator=(Name&& o) noexcept -> Name& { v = o.v; o.v = -1; return *this; } /* deliberately no self check */ \
        friend auto operator==(Name const& a, Name const& b) noexcept -> bool { return a.v == b.v; }                     \
        friend auto operator<(Name const& a, Name const& b) noexcept -> bool { return a.v < b.v; }                       \
    }
VF_HM_TYPE(Hm, int);
// one-byte twin for static_vector<Hc, 4>: cxx2c does not lower alignas(), so aligned_storage_t<4, 4>[4] followed by a one-byte size
// gets a different sizeof in C (layout _Static_assert); with alignment 1 the C and C++ layouts coincide (cf. fam/lifetime)
VF_HM_TYPE(Hc, signed char);
#define VF_IMIN (-2147483647 - 1)
// unary predicates on int, selector p: 0 bit 1 (truthy 2), 1 bit 8 (truthy 0x100), 2 sign bit (truthy INT_MIN)
struct i_bit1 { auto operator()(int const& x) const -> int { return x & 2; } };
struct i_bit8 { auto operator()(int const& x) const -> int { return x & 0x100; } };
struct i_sign { auto operator()(int const& x) const -> int { return x & VF_IMIN; } };
#define IPRED1(p, ...) do { if ((p) == 0) { auto pred = i_bit1{}; __VA_ARGS__; } else if ((p) == 1) { auto pred = i_bit8{}; __VA_ARGS__; } else { auto pred = i_sign{}; __VA_ARGS__; } } while (0)
// binary predicates on int, selector p as PEQ: 0 equality (truthy 2), 1 equality of the low two bits (truthy 0x100)
struct i_eq { auto operator()(int const& a, int const& b) const -> int { return a == b ? 2 : 0; } };
struct i_low2_eq { auto operator()(int const& a, int const& b) const -> int { return ((a ^ b) & 3) == 0 ? 0x100 : 0; } };
#define IPEQ(p, ...) do { if ((p) == 0) { auto pred = i_eq{}; __VA_ARGS__; } else { auto pred = i_low2_eq{}; __VA_ARGS__; } } while (0)
// comparators on int, selector c as CMP_INT: 0 less (truthy 2), 1 greater (truthy INT_MIN), 2 less on the low two bits (truthy 0x100)
struct i_less { auto operator()(int const& a, int const& b) const -> int { return a < b ? 2 : 0; } };
struct i_greater { auto operator()(int const& a, int const& b) const -> int { return a > b ? VF_IMIN : 0; } };
struct i_low2_less { auto operator()(int const& a, int const& b) const -> int { return static_cast<int>((a & 3) < (b & 3)) << 8; } };
#define ICMP_INT(c, ...) do { if ((c) == 0) { auto cmp = i_less{}; __VA_ARGS__; } else if ((c) == 1) { auto cmp = i_greater{}; __VA_ARGS__; } else { auto cmp = i_low2_less{}; __VA_ARGS__; } } while (0)
// the same on the key (x >> 4) of tagged ints, selector c as CMP_HI
struct i_hi_less { auto operator()(int const& a, int const& b) const -> int { return (a >> 4) < (b >> 4) ? 2 : 0; } };
struct i_hi_greater { auto operator()(int const& a, int const& b) const -> int { return (a >> 4) > (b >> 4) ? VF_IMIN : 0; } };
struct i_hi_low2 { auto operator()(int const& a, int const& b) const -> int { return static_cast<int>(((a >> 4) & 3) < ((b >> 4) & 3)) << 8; } };
#define ICMP_HI(c, ...) do { if ((c) == 0) { auto cmp = i_hi_less{}; __VA_ARGS__; } else if ((c) == 1) { auto cmp = i_hi_greater{}; __VA_ARGS__; } else { auto cmp = i_hi_low2{}; __VA_ARGS__; } } while (0)
// callables on Hm: the int ones applied to .v
struct hm_bit1 { auto operator()(Hm const& x) const -> int { return x.v & 2; } };
struct hm_bit8 { auto operator()(Hm const& x) const -> int { return x.v & 0x100; } };
struct hm_sign { auto operator()(Hm const& x) const -> int { return x.v & VF_IMIN; } };
#define HPRED1(p, ...) do { if ((p) == 0) { auto pred = hm_bit1{}; __VA_ARGS__; } else if ((p) == 1) { auto pred = hm_bit8{}; __VA_ARGS__; } else { auto pred = hm_sign{}; __VA_ARGS__; } } while (0)
struct hm_eq { auto operator()(Hm const& a, Hm const& b) const -> int { return a.v == b.v ? 2 : 0; } };
struct hm_low2_eq { auto operator()(Hm const& a, Hm const& b) const -> int { return ((a.v ^ b.v) & 3) == 0 ? 0x100 : 0; } };
struct hm_hi_less { auto operator()(Hm const& a, Hm const& b) const -> int { return (a.v >> 4) < (b.v >> 4) ? 2 : 0; } };
struct hm_hi_greater { auto operator()(Hm const& a, Hm const& b) const -> int { return (a.v >> 4) > (b.v >> 4) ? VF_IMIN : 0; } };
struct hm_hi_low2 { auto operator()(Hm const& a, Hm const& b) const -> int { return static_cast<int>(((a.v >> 4) & 3) < ((b.v >> 4) & 3)) << 8; } };
// selector c: 0..2 the comparators above, 4: the overload without comparator (operator< on the whole value)
#define HCMP(c, DEFAULT, ...) do { if ((c) == 4) { DEFAULT; } else if ((c) == 0) { auto cmp = hm_hi_less{}; __VA_ARGS__; } else if ((c) == 1) { auto cmp = hm_hi_greater{}; __VA_ARGS__; } else { auto cmp = hm_hi_low2{}; __VA_ARGS__; } } while (0)

// ---- (1) Hm instantiations of everything that moves / assigns elements inside one range
VF_E Hm* hm_remove(Hm* f, Hm* l, Hm const& v) { return etl::remove(f, l, v); }
VF_E Hm* hm_remove_if(Hm* f, Hm* l, int p) { Hm* r = nullptr; HPRED1(p, r = etl::remove_if(f, l, pred)); return r; }
VF_E Hm* hm_unique(Hm* f, Hm* l, int w) { if (w == 0) { return etl::unique(f, l); } if (w == 1) { return etl::unique(f, l, hm_eq{}); } return etl::unique(f, l, hm_low2_eq{}); }
VF_E Hm* hm_rotate(Hm* f, Hm* m, Hm* l) { return etl::rotate(f, m, l); }
VF_E Hm* hm_shift_left(Hm* f, Hm* l, diff_t n) { return etl::shift_left(f, l, n); }
VF_E Hm* hm_shift_right(Hm* f, Hm* l, diff_t n) { return etl::shift_right(f, l, n); }
VF_E Hm* hm_partition(Hm* f, Hm* l, int p) { Hm* r = nullptr; HPRED1(p, r = etl::partition(f, l, pred)); return r; }
struct hm_bit1_bool { auto operator()(Hm const& x) const -> bool { return (x.v & 2) != 0; } };   // p == 3: control with a bool result
VF_E Hm* hm_stable_partition(Hm* f, Hm* l, int p) { if (p == 3) { return etl::stable_partition(f, l, hm_bit1_bool{}); } Hm* r = nullptr; HPRED1(p, r = etl::stable_partition(f, l, pred)); return r; }
VF_E void hm_reverse(Hm* f, Hm* l) { etl::reverse(f, l); }
VF_E Hm* hm_swap_ranges(Hm* f, Hm* l, Hm* f2) { return etl::swap_ranges(f, l, f2); }
VF_E void hm_iter_swap(Hm* a, Hm* b) { etl::iter_swap(a, b); }
VF_E Hm* hm_move(Hm* f, Hm* l, Hm* d) { return etl::move(f, l, d); }
VF_E Hm* hm_move_backward(Hm* f, Hm* l, Hm* d) { return etl::move_backward(f, l, d); }
VF_E Hm* hm_copy_backward(Hm const* f, Hm const* l, Hm* d) { return etl::copy_backward(f, l, d); }
VF_E void hm_inplace_merge(Hm* f, Hm* m, Hm* l, int c) { HCMP(c, etl::inplace_merge(f, m, l), etl::inplace_merge(f, m, l, cmp)); }
VF_E void hm_sort(Hm* f, Hm* l, int c) { HCMP(c, etl::sort(f, l), etl::sort(f, l, cmp)); }
VF_E void hm_stable_sort(Hm* f, Hm* l, int c) { HCMP(c, etl::stable_sort(f, l), etl::stable_sort(f, l, cmp)); }
VF_E void hm_insertion_sort(Hm* f, Hm* l, int c) { HCMP(c, etl::insertion_sort(f, l), etl::insertion_sort(f, l, cmp)); }
VF_E void hm_bubble_sort(Hm* f, Hm* l, int c) { HCMP(c, etl::bubble_sort(f, l), etl::bubble_sort(f, l, cmp)); }
VF_E void hm_gnome_sort(Hm* f, Hm* l, int c) { HCMP(c, etl::gnome_sort(f, l), etl::gnome_sort(f, l, cmp)); }
VF_E void hm_exchange_sort(Hm* f, Hm* l, int c) { HCMP(c, etl::exchange_sort(f, l), etl::exchange_sort(f, l, cmp)); }
VF_E void hm_merge_sort(Hm* f, Hm* l, int c) { HCMP(c, etl::merge_sort(f, l), etl::merge_sort(f, l, cmp)); }
VF_E void hm_partial_sort(Hm* f, Hm* m, Hm* l, int c) { HCMP(c, etl::partial_sort(f, m, l), etl::partial_sort(f, m, l, cmp)); }
VF_E void hm_nth_element(Hm* f, Hm* m, Hm* l, int c) { HCMP(c, etl::nth_element(f, m, l), etl::nth_element(f, m, l, cmp)); }
// predicates on Hc, selector p: 0 bit 1 (truthy 2), 1 bit 6 (truthy 0x40), 2 sign (the promoted value & INT_MIN: truthy INT_MIN)
struct hc_bit1 { auto operator()(Hc const& x) const -> int { return x.v & 2; } };
struct hc_bit6 { auto operator()(Hc const& x) const -> int { return x.v & 0x40; } };
struct hc_sign { auto operator()(Hc const& x) const -> int { return x.v & VF_IMIN; } };
using HV4 = etl::static_vector<Hc, 4>;
VF_E etl::size_t hm_erase(HV4& v, Hc const& x) { return etl::erase(v, x); }
VF_E etl::size_t hm_erase_if(HV4& v, int p)
{
    if (p == 0) { return etl::erase_if(v, hc_bit1{}); }
    if (p == 1) { return etl::erase_if(v, hc_bit6{}); }
    return etl::erase_if(v, hc_sign{});
}

// ---- (2) int ranges, callables returning int
VF_E diff_t ip_count_if(int const* f, int const* l, int p) { diff_t r = 0; IPRED1(p, r = etl::count_if(f, l, pred)); return r; }
VF_E int const* ip_find_if(int const* f, int const* l, int p) { int const* r = nullptr; IPRED1(p, r = etl::find_if(f, l, pred)); return r; }
VF_E int const* ip_find_if_not(int const* f, int const* l, int p) { int const* r = nullptr; IPRED1(p, r = etl::find_if_not(f, l, pred)); return r; }
VF_E bool ip_all_of(int const* f, int const* l, int p) { bool r = false; IPRED1(p, r = etl::all_of(f, l, pred)); return r; }
VF_E bool ip_any_of(int const* f, int const* l, int p) { bool r = false; IPRED1(p, r = etl::any_of(f, l, pred)); return r; }
VF_E bool ip_none_of(int const* f, int const* l, int p) { bool r = false; IPRED1(p, r = etl::none_of(f, l, pred)); return r; }
VF_E bool ip_is_partitioned(int const* f, int const* l, int p) { bool r = false; IPRED1(p, r = etl::is_partitioned(f, l, pred)); return r; }
VF_E int const* ip_partition_point(int const* f, int const* l, int p) { int const* r = nullptr; IPRED1(p, r = etl::partition_point(f, l, pred)); return r; }
VF_E int* ip_copy_if(int const* f, int const* l, int* d, int p) { int* r = nullptr; IPRED1(p, r = etl::copy_if(f, l, d, pred)); return r; }
VF_E int* ip_remove_copy_if(int const* f, int const* l, int* d, int p) { int* r = nullptr; IPRED1(p, r = etl::remove_copy_if(f, l, d, pred)); return r; }
VF_E void ip_replace_if(int* f, int* l, int p, int const& nv) { IPRED1(p, etl::replace_if(f, l, pred, nv)); }
VF_E void ip_partition_copy(int const* f, int const* l, int* dt, int* df, int** rt, int** rf, int p)
{
    IPRED1(p, auto r = etl::partition_copy(f, l, dt, df, pred); *rt = r.first; *rf = r.second);
}
VF_E int* ip_remove_if(int* f, int* l, int p) { int* r = nullptr; IPRED1(p, r = etl::remove_if(f, l, pred)); return r; }
VF_E int* ip_partition(int* f, int* l, int p) { int* r = nullptr; IPRED1(p, r = etl::partition(f, l, pred)); return r; }
// binary predicates
VF_E int const* ip_adjacent_find(int const* f, int const* l, int p) { int const* r = nullptr; IPEQ(p, r = etl::adjacent_find(f, l, pred)); return r; }
VF_E bool ip_equal3(int const* f, int const* l, int const* f2, int p) { bool r = false; IPEQ(p, r = etl::equal(f, l, f2, pred)); return r; }
VF_E bool ip_equal4(int const* f, int const* l, int const* f2, int const* l2, int p) { bool r = false; IPEQ(p, r = etl::equal(f, l, f2, l2, pred)); return r; }
VF_E void ip_mismatch3(int const* f, int const* l, int const* f2, int p, int const** r1, int const** r2) { IPEQ(p, auto r = etl::mismatch(f, l, f2, pred); *r1 = r.first; *r2 = r.second); }
VF_E void ip_mismatch4(int const* f, int const* l, int const* f2, int const* l2, int p, int const** r1, int const** r2) { IPEQ(p, auto r = etl::mismatch(f, l, f2, l2, pred); *r1 = r.first; *r2 = r.second); }
VF_E int* ip_unique(int* f, int* l, int p) { int* r = nullptr; IPEQ(p, r = etl::unique(f, l, pred)); return r; }
VF_E int* ip_unique_copy(int const* f, int const* l, int* d, int p) { int* r = nullptr; IPEQ(p, r = etl::unique_copy(f, l, d, pred)); return r; }
VF_E int const* ip_search(int const* f, int const* l, int const* sf, int const* sl, int p) { int const* r = nullptr; IPEQ(p, r = etl::search(f, l, sf, sl, pred)); return r; }
VF_E int const* ip_find_end(int const* f, int const* l, int const* sf, int const* sl, int p) { int const* r = nullptr; IPEQ(p, r = etl::find_end(f, l, sf, sl, pred)); return r; }
VF_E int const* ip_search_n(int const* f, int const* l, int count, int const& v, int p) { int const* r = nullptr; IPEQ(p, r = etl::search_n(f, l, count, v, pred)); return r; }
VF_E int const* ip_find_first_of(int const* f, int const* l, int const* sf, int const* sl, int p) { int const* r = nullptr; IPEQ(p, r = etl::find_first_of(f, l, sf, sl, pred)); return r; }
// comparators
VF_E bool ip_is_sorted(int const* f, int const* l, int c) { bool r = false; ICMP_INT(c, r = etl::is_sorted(f, l, cmp)); return r; }
VF_E int const* ip_is_sorted_until(int const* f, int const* l, int c) { int const* r = nullptr; ICMP_INT(c, r = etl::is_sorted_until(f, l, cmp)); return r; }
VF_E int const* ip_min_element(int const* f, int const* l, int c) { int const* r = nullptr; ICMP_INT(c, r = etl::min_element(f, l, cmp)); return r; }
VF_E int const* ip_max_element(int const* f, int const* l, int c) { int const* r = nullptr; ICMP_INT(c, r = etl::max_element(f, l, cmp)); return r; }
VF_E void ip_minmax_element(int const* f, int const* l, int c, int const** lo, int const** hi) { ICMP_INT(c, auto r = etl::minmax_element(f, l, cmp); *lo = r.first; *hi = r.second); }
VF_E bool ip_lexicographical_compare(int const* f, int const* l, int const* f2, int const* l2, int c) { bool r = false; ICMP_INT(c, r = etl::lexicographical_compare(f, l, f2, l2, cmp)); return r; }
VF_E int const* ip_lower_bound(int const* f, int const* l, int const& v, int c) { int const* r = nullptr; ICMP_INT(c, r = etl::lower_bound(f, l, v, cmp)); return r; }
VF_E int const* ip_upper_bound(int const* f, int const* l, int const& v, int c) { int const* r = nullptr; ICMP_INT(c, r = etl::upper_bound(f, l, v, cmp)); return r; }
VF_E void ip_equal_range(int const* f, int const* l, int const& v, int c, int const** lo, int const** hi) { ICMP_INT(c, auto r = etl::equal_range(f, l, v, cmp); *lo = r.first; *hi = r.second); }
VF_E bool ip_binary_search(int const* f, int const* l, int const& v, int c) { bool r = false; ICMP_INT(c, r = etl::binary_search(f, l, v, cmp)); return r; }
VF_E int const* ip_min(int const& a, int const& b, int c) { int const* r = nullptr; ICMP_INT(c, r = &etl::min(a, b, cmp)); return r; }
VF_E int const* ip_max(int const& a, int const& b, int c) { int const* r = nullptr; ICMP_INT(c, r = &etl::max(a, b, cmp)); return r; }
VF_E void ip_minmax(int const& a, int const& b, int c, int const** lo, int const** hi) { ICMP_INT(c, auto r = etl::minmax(a, b, cmp); *lo = &r.first; *hi = &r.second); }
VF_E int const* ip_clamp(int const& v, int const& lo, int const& hi, int c) { int const* r = nullptr; ICMP_INT(c, r = &etl::clamp(v, lo, hi, cmp)); return r; }
VF_E bool ip_includes(int const* f1, int const* l1, int const* f2, int const* l2, int c) { bool r = false; ICMP_INT(c, r = etl::includes(f1, l1, f2, l2, cmp)); return r; }
VF_E void ip_sort(int* f, int* l, int c) { ICMP_INT(c, etl::sort(f, l, cmp)); }
VF_E int* ip_merge(int const* f1, int const* l1, int const* f2, int const* l2, int* d, int c) { int* r = nullptr; ICMP_HI(c, r = etl::merge(f1, l1, f2, l2, d, cmp)); return r; }
VF_E int* ip_set_op(int which, int const* f1, int const* l1, int const* f2, int const* l2, int* d, int c)
{
    int* r = nullptr;
    if (which == 0) { ICMP_HI(c, r = etl::set_union(f1, l1, f2, l2, d, cmp)); }
    else if (which == 1) { ICMP_HI(c, r = etl::set_intersection(f1, l1, f2, l2, d, cmp)); }
    else if (which == 2) { ICMP_HI(c, r = etl::set_difference(f1, l1, f2, l2, d, cmp)); }
    else { ICMP_HI(c, r = etl::set_symmetric_difference(f1, l1, f2, l2, d, cmp)); }
    return r;
}

// ---- ARGUMENT ORDER of binary predicates: an asymmetric predicate (first < second) makes a swapped call visible.
// [alg.search]/[alg.find.first.of]/[alg.adjacent.find]/[mismatch]/[alg.equal]/[alg.unique]: pred(*i, value) / pred(*i, *j) with the
// element of the FIRST range (or the earlier element) as the first argument.
struct ord_lt { auto operator()(int const& a, int const& b) const -> bool { return a < b; } };
VF_E int const* ao_search_n(int const* f, int const* l, int count, int const& v) { return etl::search_n(f, l, count, v, ord_lt{}); }
VF_E int const* ao_search(int const* f, int const* l, int const* sf, int const* sl) { return etl::search(f, l, sf, sl, ord_lt{}); }
VF_E int const* ao_find_end(int const* f, int const* l, int const* sf, int const* sl) { return etl::find_end(f, l, sf, sl, ord_lt{}); }
VF_E int const* ao_find_first_of(int const* f, int const* l, int const* sf, int const* sl) { return etl::find_first_of(f, l, sf, sl, ord_lt{}); }
VF_E int const* ao_adjacent_find(int const* f, int const* l) { return etl::adjacent_find(f, l, ord_lt{}); }
VF_E long ao_mismatch(int const* f, int const* l, int const* f2, int const* l2) { return etl::mismatch(f, l, f2, l2, ord_lt{}).first - f; }
VF_E bool ao_equal(int const* f, int const* l, int const* f2, int const* l2) { return etl::equal(f, l, f2, l2, ord_lt{}); }
VF_E int* ao_unique(int* f, int* l) { return etl::unique(f, l, ord_lt{}); }
}
