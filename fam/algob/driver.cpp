// driver: bounded part of C06 — permutation / nested-loop algorithms over int*, {key,tag}* and thin wrapper iterators,
// plus the iterator adaptors (reverse_iterator, back/front_insert_iterator, next/prev/advance/distance)
#include <etl/algorithm.hpp>
#include <etl/numeric.hpp>
#include <etl/iterator.hpp>
#include <etl/functional.hpp>
#include <etl/utility.hpp>
#include <etl/vector.hpp>
#include <etl/new.hpp>
#define VF_E extern "C"
namespace vf {
using diff_t = etl::ptrdiff_t;

// ---- thin non-random-access iterators over int*
struct fwd_it {
    using iterator_category = etl::forward_iterator_tag; using value_type = int; using difference_type = etl::ptrdiff_t; using pointer = int*; using reference = int&;
    int* p;
    auto operator*() const -> int& { return *p; }
    auto operator++() -> fwd_it& { ++p; return *this; }
    auto operator++(int) -> fwd_it { fwd_it t{p}; ++p; return t; }
    friend auto operator==(fwd_it a, fwd_it b) -> bool { return a.p == b.p; }
    friend auto operator!=(fwd_it a, fwd_it b) -> bool { return a.p != b.p; }
};
struct bidi_it {
    using iterator_category = etl::bidirectional_iterator_tag; using value_type = int; using difference_type = etl::ptrdiff_t; using pointer = int*; using reference = int&;
    int* p;
    auto operator*() const -> int& { return *p; }
    auto operator++() -> bidi_it& { ++p; return *this; }
    auto operator++(int) -> bidi_it { bidi_it t{p}; ++p; return t; }
    auto operator--() -> bidi_it& { --p; return *this; }
    auto operator--(int) -> bidi_it { bidi_it t{p}; --p; return t; }
    friend auto operator==(bidi_it a, bidi_it b) -> bool { return a.p == b.p; }
    friend auto operator!=(bidi_it a, bidi_it b) -> bool { return a.p != b.p; }
};

// ---- comparators / predicates. Comparator selector c: 0 less, 1 greater, 2 modulo-equivalence on the low two bits (x mod 4 of the
// two's complement value: many distinct-but-equivalent elements, cheap for the SAT solver), 3 modulo-equivalence a % 3 < b % 3 (one
// 32-bit divider per operand: only used in the *_mod3 groups with a smaller length bound)
struct low2_less { auto operator()(int const& a, int const& b) const -> bool { return (a & 3) < (b & 3); } };
struct mod3_less { auto operator()(int const& a, int const& b) const -> bool { return a % 3 < b % 3; } };
struct low2_eq { auto operator()(int const& a, int const& b) const -> bool { return (a & 3) == (b & 3); } };
struct mod3_eq { auto operator()(int const& a, int const& b) const -> bool { return a % 3 == b % 3; } };
struct is_mult4 { auto operator()(int const& x) const -> bool { return (x & 3) == 0; } };
struct is_mult3 { auto operator()(int const& x) const -> bool { return x % 3 == 0; } };
struct is_neg { auto operator()(int const& x) const -> bool { return x < 0; } };
struct kt { int key; int tag; };
struct kt_less { auto operator()(kt const& a, kt const& b) const -> bool { return a.key < b.key; } };
struct kt_greater { auto operator()(kt const& a, kt const& b) const -> bool { return a.key > b.key; } };
struct kt_low2 { auto operator()(kt const& a, kt const& b) const -> bool { return (a.key & 3) < (b.key & 3); } };
struct kt_mod3 { auto operator()(kt const& a, kt const& b) const -> bool { return a.key % 3 < b.key % 3; } };
#define CMP_INT(c, ...) do { if ((c) == 0) { auto cmp = etl::less(); __VA_ARGS__; } else if ((c) == 1) { auto cmp = etl::greater(); __VA_ARGS__; } else if ((c) == 2) { auto cmp = low2_less{}; __VA_ARGS__; } else { auto cmp = mod3_less{}; __VA_ARGS__; } } while (0)
#define CMP_KT(c, ...) do { if ((c) == 0) { auto cmp = kt_less{}; __VA_ARGS__; } else if ((c) == 1) { auto cmp = kt_greater{}; __VA_ARGS__; } else if ((c) == 2) { auto cmp = kt_low2{}; __VA_ARGS__; } else { auto cmp = kt_mod3{}; __VA_ARGS__; } } while (0)
// tagged ints: key = x >> 4 (arithmetic shift, the full 28-bit range), tag = x & 15 (element identity, set by the harness). Cheaper for CBMC
// than the 8-byte {key,tag} struct when two ranges and an output range are involved; the comparators look at the key only.
struct hi_less { auto operator()(int const& a, int const& b) const -> bool { return (a >> 4) < (b >> 4); } };
struct hi_greater { auto operator()(int const& a, int const& b) const -> bool { return (a >> 4) > (b >> 4); } };
struct hi_low2 { auto operator()(int const& a, int const& b) const -> bool { return ((a >> 4) & 3) < ((b >> 4) & 3); } };
struct hi_mod3 { auto operator()(int const& a, int const& b) const -> bool { return (a >> 4) % 3 < (b >> 4) % 3; } };
struct hi_is_mult4 { auto operator()(int const& x) const -> bool { return ((x >> 4) & 3) == 0; } };
#define CMP_HI(c, ...) do { if ((c) == 0) { auto cmp = hi_less{}; __VA_ARGS__; } else if ((c) == 1) { auto cmp = hi_greater{}; __VA_ARGS__; } else if ((c) == 2) { auto cmp = hi_low2{}; __VA_ARGS__; } else { auto cmp = hi_mod3{}; __VA_ARGS__; } } while (0)
#define PRED1(p, ...) do { if ((p) == 0) { auto pred = is_mult4{}; __VA_ARGS__; } else if ((p) == 1) { auto pred = is_neg{}; __VA_ARGS__; } else { auto pred = is_mult3{}; __VA_ARGS__; } } while (0)
#define PEQ(p, ...) do { if ((p) == 0) { auto pred = etl::equal_to(); __VA_ARGS__; } else if ((p) == 1) { auto pred = low2_eq{}; __VA_ARGS__; } else { auto pred = mod3_eq{}; __VA_ARGS__; } } while (0)

// ---- rotate / shift
VF_E int* a_rotate(int* f, int* m, int* l) { return etl::rotate(f, m, l); }
VF_E int* a_rotate_fwd(int* f, int* m, int* l) { return etl::rotate(fwd_it{f}, fwd_it{m}, fwd_it{l}).p; }
VF_E int* a_rotate_copy(int const* f, int const* m, int const* l, int* d) { return etl::rotate_copy(f, m, l, d); }
VF_E int* a_shift_left(int* f, int* l, diff_t n) { return etl::shift_left(f, l, n); }
VF_E int* a_shift_left_fwd(int* f, int* l, diff_t n) { return etl::shift_left(fwd_it{f}, fwd_it{l}, n).p; }
VF_E int* a_shift_right(int* f, int* l, diff_t n) { return etl::shift_right(f, l, n); }
VF_E int* a_shift_right_bidi(int* f, int* l, diff_t n) { return etl::shift_right(bidi_it{f}, bidi_it{l}, n).p; }

// ---- partition family
VF_E int* a_partition(int* f, int* l, int p) { int* r = nullptr; PRED1(p, r = etl::partition(f, l, pred)); return r; }
VF_E int* a_partition_fwd(int* f, int* l, int p) { int* r = nullptr; PRED1(p, r = etl::partition(fwd_it{f}, fwd_it{l}, pred).p); return r; }
VF_E int* a_stable_partition(int* f, int* l) { return etl::stable_partition(f, l, hi_is_mult4{}); }
VF_E void a_partition_copy(int const* f, int const* l, int* dt, int* df, int** rt, int** rf)
{
    auto r = etl::partition_copy(f, l, dt, df, is_mult4{});
    *rt = r.first;
    *rf = r.second;
}

// ---- sorting
VF_E void a_sort(int* f, int* l, int c) { if (c == 0) { etl::sort(f, l); } else { CMP_INT(c, etl::sort(f, l, cmp)); } }
VF_E void a_gnome_sort(int* f, int* l, int c) { if (c == 0) { etl::gnome_sort(f, l); } else { CMP_INT(c, etl::gnome_sort(f, l, cmp)); } }
VF_E void a_gnome_sort_bidi(int* f, int* l, int c) { CMP_INT(c, etl::gnome_sort(bidi_it{f}, bidi_it{l}, cmp)); }
VF_E void a_bubble_sort(int* f, int* l, int c) { if (c == 0) { etl::bubble_sort(f, l); } else { CMP_INT(c, etl::bubble_sort(f, l, cmp)); } }
VF_E void a_exchange_sort(int* f, int* l, int c) { if (c == 0) { etl::exchange_sort(f, l); } else { CMP_INT(c, etl::exchange_sort(f, l, cmp)); } }
VF_E void a_partial_sort(int* f, int* m, int* l, int c) { if (c == 0) { etl::partial_sort(f, m, l); } else { CMP_INT(c, etl::partial_sort(f, m, l, cmp)); } }
VF_E void a_nth_element(int* f, int* m, int* l, int c) { if (c == 0) { etl::nth_element(f, m, l); } else { CMP_INT(c, etl::nth_element(f, m, l, cmp)); } }
VF_E void a_stable_sort(kt* f, kt* l, int c) { CMP_KT(c, etl::stable_sort(f, l, cmp)); }
VF_E void a_insertion_sort(kt* f, kt* l, int c) { CMP_KT(c, etl::insertion_sort(f, l, cmp)); }
VF_E void a_merge_sort(int* f, int* l, int c) { CMP_HI(c, etl::merge_sort(f, l, cmp)); }
VF_E void a_stable_sort_int(int* f, int* l) { etl::stable_sort(f, l); }
VF_E void a_insertion_sort_int(int* f, int* l) { etl::insertion_sort(f, l); }
VF_E void a_merge_sort_int(int* f, int* l) { etl::merge_sort(f, l); }

// ---- searching
VF_E bool a_is_permutation3(int const* f, int const* l, int const* f2) { return etl::is_permutation(f, l, f2); }
VF_E bool a_is_permutation4(int const* f, int const* l, int const* f2, int const* l2) { return etl::is_permutation(f, l, f2, l2); }
VF_E bool a_is_permutation4_fwd(int* f, int* l, int* f2, int* l2) { return etl::is_permutation(fwd_it{f}, fwd_it{l}, fwd_it{f2}, fwd_it{l2}); }
VF_E int const* a_search(int const* f, int const* l, int const* sf, int const* sl, int p) { if (p == 0) { return etl::search(f, l, sf, sl); } int const* r = nullptr; PEQ(p, r = etl::search(f, l, sf, sl, pred)); return r; }
VF_E int* a_search_fwd(int* f, int* l, int* sf, int* sl, int p) { if (p == 0) { return etl::search(fwd_it{f}, fwd_it{l}, fwd_it{sf}, fwd_it{sl}).p; } int* r = nullptr; PEQ(p, r = etl::search(fwd_it{f}, fwd_it{l}, fwd_it{sf}, fwd_it{sl}, pred).p); return r; }
VF_E int const* a_find_end(int const* f, int const* l, int const* sf, int const* sl, int p) { if (p == 0) { return etl::find_end(f, l, sf, sl); } int const* r = nullptr; PEQ(p, r = etl::find_end(f, l, sf, sl, pred)); return r; }
VF_E int const* a_search_n(int const* f, int const* l, int count, int const& v, int p) { if (p == 0) { return etl::search_n(f, l, count, v); } int const* r = nullptr; PEQ(p, r = etl::search_n(f, l, count, v, pred)); return r; }
VF_E int const* a_find_first_of(int const* f, int const* l, int const* sf, int const* sl, int p) { if (p == 0) { return etl::find_first_of(f, l, sf, sl); } int const* r = nullptr; PEQ(p, r = etl::find_first_of(f, l, sf, sl, pred)); return r; }
VF_E bool a_includes(int const* f1, int const* l1, int const* f2, int const* l2, int c)
{
    if (c == 0) { return etl::includes(f1, l1, f2, l2); }
    bool r = false;
    CMP_INT(c, r = etl::includes(f1, l1, f2, l2, cmp));
    return r;
}

// ---- merging and set operations (tagged ints: which range an output element comes from is observable)
VF_E int* a_merge(int const* f1, int const* l1, int const* f2, int const* l2, int* d, int c) { int* r = nullptr; CMP_HI(c, r = etl::merge(f1, l1, f2, l2, d, cmp)); return r; }
VF_E int* a_merge_int(int const* f1, int const* l1, int const* f2, int const* l2, int* d) { return etl::merge(f1, l1, f2, l2, d); }
VF_E int* a_merge_fwd(int* f1, int* l1, int* f2, int* l2, int* d) { return etl::merge(fwd_it{f1}, fwd_it{l1}, fwd_it{f2}, fwd_it{l2}, fwd_it{d}).p; }
VF_E void a_inplace_merge(int* f, int* m, int* l, int c) { CMP_HI(c, etl::inplace_merge(f, m, l, cmp)); }
VF_E void a_inplace_merge_int(int* f, int* m, int* l) { etl::inplace_merge(f, m, l); }
VF_E int* a_set_union(int const* f1, int const* l1, int const* f2, int const* l2, int* d, int c) { int* r = nullptr; CMP_HI(c, r = etl::set_union(f1, l1, f2, l2, d, cmp)); return r; }
VF_E int* a_set_intersection(int const* f1, int const* l1, int const* f2, int const* l2, int* d, int c) { int* r = nullptr; CMP_HI(c, r = etl::set_intersection(f1, l1, f2, l2, d, cmp)); return r; }
VF_E int* a_set_difference(int const* f1, int const* l1, int const* f2, int const* l2, int* d, int c) { int* r = nullptr; CMP_HI(c, r = etl::set_difference(f1, l1, f2, l2, d, cmp)); return r; }
VF_E int* a_set_symmetric_difference(int const* f1, int const* l1, int const* f2, int const* l2, int* d, int c) { int* r = nullptr; CMP_HI(c, r = etl::set_symmetric_difference(f1, l1, f2, l2, d, cmp)); return r; }
VF_E int* a_set_ops_int(int which, int const* f1, int const* l1, int const* f2, int const* l2, int* d)
{
    if (which == 0) { return etl::set_union(f1, l1, f2, l2, d); }
    if (which == 1) { return etl::set_intersection(f1, l1, f2, l2, d); }
    if (which == 2) { return etl::set_difference(f1, l1, f2, l2, d); }
    return etl::set_symmetric_difference(f1, l1, f2, l2, d);
}

// ---- numeric: transform_reduce (unsigned elements: wrap-around arithmetic is defined)
struct u_xor { auto operator()(unsigned a, unsigned b) const -> unsigned { return a ^ b; } };
struct u_and { auto operator()(unsigned a, unsigned b) const -> unsigned { return a & b; } };
struct u_triple { auto operator()(unsigned a) const -> unsigned { return a * 3U; } };
VF_E unsigned a_transform_reduce2(unsigned const* f, unsigned const* l, unsigned const* f2, unsigned init) { return etl::transform_reduce(f, l, f2, init); }
VF_E unsigned a_transform_reduce2_op(unsigned const* f, unsigned const* l, unsigned const* f2, unsigned init) { return etl::transform_reduce(f, l, f2, init, u_xor{}, u_and{}); }
VF_E unsigned a_transform_reduce1(unsigned const* f, unsigned const* l, unsigned init) { return etl::transform_reduce(f, l, init, etl::plus(), u_triple{}); }

// ---- reverse_iterator<int*>
using RI = etl::reverse_iterator<int*>;
using CRI = etl::reverse_iterator<int const*>;
VF_E int* ri_base(int* p) { return RI(p).base(); }
VF_E int* ri_default_base() { RI r; return r.base(); }
VF_E int* ri_make(int* p) { return etl::make_reverse_iterator(p).base(); }
VF_E int const* ri_convert(int* p) { RI r(p); CRI c(r); return c.base(); }
VF_E int const* ri_convert_assign(int* p, int const* q) { RI r(p); CRI c(q); c = r; return c.base(); }
VF_E int* ri_deref(int* p) { return &*RI(p); }
VF_E int* ri_arrow(int* p) { return RI(p).operator->(); }
VF_E int* ri_index(int* p, diff_t n) { return &RI(p)[n]; }
VF_E int* ri_preinc(int* p, int** res) { RI r(p); RI& q = ++r; *res = q.base(); return r.base(); }
VF_E int* ri_postinc(int* p, int** res) { RI r(p); RI q = r++; *res = q.base(); return r.base(); }
VF_E int* ri_predec(int* p, int** res) { RI r(p); RI& q = --r; *res = q.base(); return r.base(); }
VF_E int* ri_postdec(int* p, int** res) { RI r(p); RI q = r--; *res = q.base(); return r.base(); }
VF_E int* ri_plus(int* p, diff_t n) { return (RI(p) + n).base(); }
VF_E int* ri_plus_l(int* p, diff_t n) { return (n + RI(p)).base(); }
VF_E int* ri_minus(int* p, diff_t n) { return (RI(p) - n).base(); }
VF_E int* ri_plus_eq(int* p, diff_t n) { RI r(p); r += n; return r.base(); }
VF_E int* ri_minus_eq(int* p, diff_t n) { RI r(p); r -= n; return r.base(); }
VF_E diff_t ri_diff(int* p, int* q) { return RI(p) - RI(q); }
VF_E unsigned ri_cmp(int* p, int* q)
{
    RI a(p);
    RI b(q);
    return (a == b ? 1U : 0U) | (a != b ? 2U : 0U) | (a < b ? 4U : 0U) | (a <= b ? 8U : 0U) | (a > b ? 16U : 0U) | (a >= b ? 32U : 0U);
}
VF_E int* ri_copy(int* f, int* l, int* d) { return etl::copy(RI(l), RI(f), d); }

// ---- insert iterators on static_vector<int, 4>
using V4 = etl::static_vector<int, 4>;
struct front_box {   // static_vector has no push_front: the smallest container front_insert_iterator accepts
    using value_type = int;
    V4 v;
    auto push_front(int const& x) -> void { v.insert(v.begin(), x); }
    auto push_front(int&& x) -> void { v.insert(v.begin(), etl::move(x)); }
};
VF_E void i_back_insert(V4& v, int const& x) { auto it = etl::back_inserter(v); *it = x; ++it; it++; }
VF_E void i_back_insert_rv(V4& v, int x) { etl::back_insert_iterator<V4> it(v); *it = etl::move(x); }
VF_E void i_back_copy(V4& v, int const* f, int const* l) { etl::copy(f, l, etl::back_inserter(v)); }
VF_E void i_front_insert(front_box& b, int const& x) { auto it = etl::front_inserter(b); *it = x; ++it; it++; }
VF_E void i_front_insert_rv(front_box& b, int x) { etl::front_insert_iterator<front_box> it(b); *it = etl::move(x); }
VF_E void i_front_copy(front_box& b, int const* f, int const* l) { etl::copy(f, l, etl::front_inserter(b)); }

// ---- next / prev / advance / distance
VF_E int* it_next(int* p, diff_t n) { return etl::next(p, n); }
VF_E int* it_next1(int* p) { return etl::next(p); }
VF_E int* it_prev(int* p, diff_t n) { return etl::prev(p, n); }
VF_E int* it_prev1(int* p) { return etl::prev(p); }
VF_E int* it_advance(int* p, diff_t n) { etl::advance(p, n); return p; }
VF_E int* it_advance_int(int* p, int n) { etl::advance(p, n); return p; }
VF_E diff_t it_distance(int* f, int* l) { return etl::distance(f, l); }
VF_E int* it_next_fwd(int* p, diff_t n) { return etl::next(fwd_it{p}, n).p; }
VF_E int* it_advance_fwd(int* p, diff_t n) { fwd_it i{p}; etl::advance(i, n); return i.p; }
VF_E diff_t it_distance_fwd(int* f, int* l) { return etl::distance(fwd_it{f}, fwd_it{l}); }
VF_E int* it_next_bidi(int* p, diff_t n) { return etl::next(bidi_it{p}, n).p; }
VF_E int* it_prev_bidi(int* p, diff_t n) { return etl::prev(bidi_it{p}, n).p; }
VF_E int* it_advance_bidi(int* p, diff_t n) { bidi_it i{p}; etl::advance(i, n); return i.p; }
VF_E diff_t it_distance_bidi(int* f, int* l) { return etl::distance(bidi_it{f}, bidi_it{l}); }
}
