// driver: bounded part of C06 — permutation / nested-loop algorithms over int*, {key,tag}* and thin wrapper iterators
#include <etl/algorithm.hpp>
#include <etl/numeric.hpp>
#include <etl/iterator.hpp>
#include <etl/functional.hpp>
#include <etl/vector.hpp>
#include <etl/new.hpp>
#define VF_E extern "C"
namespace vf {
using diff_t = etl::ptrdiff_t;
// thin non-random-access iterators over int*
struct fwd_it {
    using iterator_category = etl::forward_iterator_tag; using value_type = int; using difference_type = etl::ptrdiff_t; using pointer = int*; using reference = int&;
    int* p;
    auto operator*() const -> int& { return *p; }
    auto operator++() -> fwd_it& { ++p; return *this; }
    auto operator++(int) -> fwd_it { fwd_it t{p}; ++p; return t; }
    friend auto operator==(fwd_it a, fwd_it b) -> bool { return a.p == b.p; }
    friend auto operator!=(fwd_it a, fwd_it b) -> bool { return a.p != b.p; }
};
struct bidi_it {
    using iterator_category = etl::bidirectional_iterator_tag; using value_type = int; using difference_type = etl::ptrdiff_t; using pointer = int*; using reference = int&;
    int* p;
    auto operator*() const -> int& { return *p; }
    auto operator++() -> bidi_it& { ++p; return *this; }
    auto operator++(int) -> bidi_it { bidi_it t{p}; ++p; return t; }
    auto operator--() -> bidi_it& { --p; return *this; }
    auto operator--(int) -> bidi_it { bidi_it t{p}; --p; return t; }
    friend auto operator==(bidi_it a, bidi_it b) -> bool { return a.p == b.p; }
    friend auto operator!=(bidi_it a, bidi_it b) -> bool { return a.p != b.p; }
};

using V4 = etl::static_vector<int, 4>;
VF_E void i_back_insert(V4& v, int const& x) { auto it = etl::back_inserter(v); *it = x; ++it; it++; }

VF_E int* a_rotate(int* f, int* m, int* l) { return etl::rotate(f, m, l); }
VF_E int* a_rotate_fwd(int* f, int* m, int* l) { return etl::rotate(fwd_it{f}, fwd_it{m}, fwd_it{l}).p; }
VF_E int* a_rotate_copy(int const* f, int const* m, int const* l, int* d) { return etl::rotate_copy(f, m, l, d); }
VF_E int* a_shift_left(int* f, int* l, diff_t n) { return etl::shift_left(f, l, n); }
VF_E int* a_shift_left_fwd(int* f, int* l, diff_t n) { return etl::shift_left(fwd_it{f}, fwd_it{l}, n).p; }
VF_E int* a_shift_right(int* f, int* l, diff_t n) { return etl::shift_right(f, l, n); }
VF_E int* a_shift_right_bidi(int* f, int* l, diff_t n) { return etl::shift_right(bidi_it{f}, bidi_it{l}, n).p; }
}
