/* fparse: memory safety of the text -> floating point parsers (C02).  The inputs are EXACT-size heap objects: a view of n
 * characters over ALL byte values that is NOT followed by a terminator (to_floating_point takes a string_view), and terminated
 * strings for strtof/strtod/atof.  Only facts that do not depend on rounding are asserted: the consumed count is inside the
 * range, a digits-only input is consumed completely and invalid input consumes nothing. */
#define LMAX 5
typedef struct etl_basic_inplace_string_char_7 S7;
/*@GROUP name=view props=C02 kind=B unwind=8 bound=length<=5@*/
void h_view(void) { VF_INPUT(unsigned char, n); __CPROVER_assume(n <= LMAX); VF_BUF(char, p, n, LMAX); VF_INPUT_BOOL(dbl);
  long used = -1; int err = -1;
  if (dbl) fp_view_d(p, n, &used, &err); else fp_view_f(p, n, &used, &err);
  VF_ASSERT(used >= 0 && used <= (long)n, "to_floating_point(string_view): the end pointer stays inside [data, data + size]");
  _Bool digits = 1; for (int i = 0; i < LMAX; ++i) if (i < n && !(p_in[i] >= '0' && p_in[i] <= '9')) digits = 0;
  if (digits && n > 0) VF_ASSERT(used == (long)n && err == 0, "a digits-only view is consumed completely");
  VF_REACH(); }

/*@GROUP name=cstr props=C02 kind=B unwind=8 bound=strlen<=4@*/
void h_cstr(void) { VF_INPUT(unsigned char, n); __CPROVER_assume(n >= 1 && n <= LMAX); VF_BUF(char, p, n, LMAX);
  for (int i = 0; i < LMAX; ++i) __CPROVER_assume(i + 1 >= n || p_in[i] != 0); __CPROVER_assume(p_in[n - 1] == 0);   /* terminated string of length n-1 */
  VF_INPUT(unsigned char, which); long used = -1;
  if (which == 0) fp_strtof(p, &used); else if (which == 1) fp_strtod(p, &used); else { fp_atof(p); used = 0; }
  VF_ASSERT(used >= 0 && used <= (long)n - 1, "strtof/strtod: *str_end stays inside the string");
  VF_REACH(); }

/*@GROUP name=stod props=C02 kind=B unwind=10 bound=capacity=7@*/
void h_stod(void) { VF_INPUT(S7, s); VF_INPUT_BOOL(dbl); unsigned long pos = 99;
  /* well-formed tiny-layout string: size byte in [0,7] and a terminator at size() */
  unsigned char k = (unsigned char)s._storage._buffer._buf[7]; __CPROVER_assume(k <= 7); __CPROVER_assume(s._storage._buffer._buf[7 - k] == 0);
  if (dbl) fp_stod(&s, &pos); else fp_stof(&s, &pos);
  VF_ASSERT(pos <= 7u - k, "stof/stod: *pos is at most size()");
  VF_REACH(); }
