// driver: strings::to_floating_point and its callers (C02: reads stay inside the character range that was passed)
#include <etl/strings.hpp>
#include <etl/cstdlib.hpp>
#include <etl/string.hpp>
#include <etl/string_view.hpp>
#define VF_E extern "C"
namespace vf {
using size_type = etl::size_t;
// result through out-parameters: consumed characters (end - first) and the error class
VF_E float fp_view_f(char const* p, size_type n, long* used, int* err) { auto r = etl::strings::to_floating_point<float>(etl::string_view{p, n}); *used = r.end - p; *err = static_cast<int>(r.error); return r.value; }
VF_E double fp_view_d(char const* p, size_type n, long* used, int* err) { auto r = etl::strings::to_floating_point<double>(etl::string_view{p, n}); *used = r.end - p; *err = static_cast<int>(r.error); return r.value; }
VF_E float fp_strtof(char const* s, long* used) { char const* e = nullptr; auto v = etl::strtof(s, &e); *used = e - s; return v; }
VF_E double fp_strtod(char const* s, long* used) { char const* e = nullptr; auto v = etl::strtod(s, &e); *used = e - s; return v; }
VF_E double fp_atof(char const* s) { return etl::atof(s); }
using S7 = etl::inplace_string<7>;
VF_E float fp_stof(S7 const& s, size_type* pos) { return etl::stof(s, pos); }
VF_E double fp_stod(S7 const& s, size_type* pos) { return etl::stod(s, pos); }
}
